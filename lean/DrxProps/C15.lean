/-
  Property C15 — cast-member records decode to the fields they encode, in both layouts.
  Model: Drx/Cast.lean (mirrors drxtract/cast/*.py); specification: Drx/CastSpec.lean (`Member`, `encD4`, `encD5`, `view`,
  `Member.valid` = every field in its storage range); tables: Drx/Gen/CastTables.lean + Drx/Gen/Palettes.lean, regenerated
  from /repo on every run. `codec` is the DRX_ENCODING configuration (mac_roman, latin_1, cp1252, ascii from the generated
  codec tables, utf_8 hand-modelled).
-/
import Drx.Cast
import Drx.CastSpec
import DrxProofs.Cast
namespace Drx.C15
open Drx Drx.Cast Drx.Gen.CastTables

/-! ### the generated tables are Director's vocabulary -/

theorem purge_table : purgePriority = ["Normal", "Never", "Last", "Next"] := by decide

theorem parsers_binding (b : Body) : parsers.lookup b.typeCode = some (className b) := parsers_table b

theorem shape_tables : shapeNames = [(1, "rect"), (2, "roundRect"), (3, "oval"), (4, "line")] ∧
    directions = [(5, "lt_br"), (6, "bl_tr")] := by decide

theorem transition_table : transitionNames.map Prod.fst = (List.range 52).map (fun (i : Nat) => (i : Int) + 1) ∧
    transitionNames.map Prod.snd =
      ["wipe right", "wipe left", "wipe down", "wipe up", "center out, horizontal", "edges in, horizontal",
       "center out, vertical", "edges in, vertical", "center out, square", "edges in, square", "push left", "push right",
       "push down", "push up", "reveal up", "reveal up, right", "reveal right", "reveal down, right", "reveal down",
       "reveal down, left", "reveal left", "reveal up, left", "dissolve, pixels fast", "dissolve, boxy rectangles",
       "dissolve, boxy squares", "dissolve, patterns", "random rows", "random columns", "cover down", "cover down, left",
       "cover down, right", "cover left", "cover right", "cover up", "cover up, left", "cover up, right", "venetian blinds",
       "checkerboard", "strips on bottom, build left", "strips on bottom, build right", "strips on left, build down",
       "strips on left, build up", "strips on right, build down", "strips on right, build up", "strips on top, build left",
       "strips on top, build right", "zoom open", "zoom close", "vertical blinds", "dissolve, bits fast", "dissolve, pixels",
       "dissolve, bits"] := by decide +kernel

/-! ### both layouts decode to the member's view -/

/-- Director 4 layout: for every member kind, every field value in its storage range, any header pad, any info block
    (any unknown numbers, any number of structures incl. empty ones, any name bytes), every codec:
    `parse_cast_file_data (encD4 m) = view m` (including the error when the codec cannot decode the name). -/
theorem roundtrip_d4 (codec : Codec) (m : Member) (hv : m.valid) : parseCast codec (encD4 m) = view codec m :=
  parseCast_encD4 codec m hv (by rw [purge_table]; rfl)

/-- Director 5 layout: the same. -/
theorem roundtrip_d5 (codec : Codec) (m : Member) (hv : m.valid) : parseCast codec (encD5 m) = view codec m :=
  parseCast_encD5 codec m hv (by rw [purge_table]; rfl)

/-- hence the two layouts of one member decode to the same result -/
theorem layouts_agree (codec : Codec) (m : Member) (hv : m.valid) : parseCast codec (encD4 m) = parseCast codec (encD5 m) := by
  rw [roundtrip_d4 codec m hv, roundtrip_d5 codec m hv]

/-- the name that is reported for a member whose structure 1 is the Pascal string of `nm`: the decoded characters with every
    character outside `[A-Za-z0-9-_. ]` replaced by `_` -/
theorem name_decodes (codec : Codec) (script nm : Bytes) (more : List Bytes) (hl : nm.length < 256) :
    nameView codec (script :: pascal nm :: more) = (decodeText codec nm).map (fun s => s.map safeChar) := by
  have h1 : (UInt8.ofNat nm.length).toNat = nm.length := by simp [UInt8.toNat_ofNat']; omega
  simp [nameView, pascal, h1]

/-! ### name safety -/

/-- for ANY input bytes and any codec: if the record is accepted and reports a name, every character of that name is in
    `[A-Za-z0-9-_. ]` -/
theorem name_safe (codec : Codec) (d : Bytes) (r : CastData) (h : parseCast codec d = .ok r) :
    ∀ n, r.content.name? = some n → ∀ ch ∈ n, isSafe ch = true :=
  parseCast_name_safe codec d r h

/-- the safe alphabet really is `[A-Za-z0-9-_. ]`: in particular no path separator, no NUL, nothing outside ASCII -/
theorem safe_alphabet (c : Char) (h : isSafe c = true) :
    c.toNat < 128 ∧ c ≠ '/' ∧ c ≠ '\\' ∧ c ≠ ':' ∧ c.toNat ≠ 0 := by
  have hh : ∀ n : Nat, n < 128 → isSafe (Char.ofNat n) = true → n ≠ 47 ∧ n ≠ 92 ∧ n ≠ 58 ∧ n ≠ 0 := by decide +kernel
  have hlt : c.toNat < 128 := by
    simp only [isSafe, Bool.or_eq_true, Bool.and_eq_true, decide_eq_true_eq] at h
    have e1 : ∀ a b : Char, a ≤ b ↔ a.toNat ≤ b.toNat := fun a b => Char.le_def
    rcases h with (((((h | h) | h) | h) | h) | h) | h
    · have := (e1 c 'Z').mp h.2; simp at this; omega
    · have := (e1 c 'z').mp h.2; simp at this; omega
    · have := (e1 c '9').mp h.2; simp at this; omega
    all_goals (subst h; decide)
  have hc : Char.ofNat c.toNat = c := by simp
  have := hh c.toNat hlt (by rw [hc]; exact h)
  refine ⟨hlt, ?_, ?_, ?_, this.2.2.2⟩
  · intro e; subst e; exact this.1 rfl
  · intro e; subst e; exact this.2.1 rfl
  · intro e; subst e; exact this.2.2.1 rfl

/-! ### declared sizes that do not add up are rejected -/

/-- Director 4 layout, ANY bytes: if the two size fields can be read and `6 + header_size + info_size` differs from the record
    length (by any amount), the record is rejected with the size error -/
theorem size_mismatch_rejected_d4 (codec : Codec) (d : Bytes) (w : Nat) (hs asz : Int)
    (hw : getU .be 4 d 0 = .ok w) (hd : w / 256 ≠ 0)
    (h1 : getS .be 2 d 0 = .ok hs) (h2 : getS .be 4 d 2 = .ok asz) (hne : 6 + hs + asz ≠ (d.length : Int)) :
    parseCast codec d = .error .value :=
  parseCast_d4_mismatch codec d w hs asz hw hd h1 h2 hne

/-- Director 5 layout, ANY bytes -/
theorem size_mismatch_rejected_d5 (codec : Codec) (d : Bytes) (w : Nat) (dt hs asz : Int)
    (hw : getU .be 4 d 0 = .ok w) (hd : w / 256 = 0)
    (h0 : getS .be 4 d 0 = .ok dt) (h1 : getS .be 4 d 4 = .ok asz) (h2 : getS .be 4 d 8 = .ok hs)
    (hne : 12 + hs + asz ≠ (d.length : Int)) :
    parseCast codec d = .error .value :=
  parseCast_d5_mismatch codec d w dt hs asz hw hd h0 h1 h2 hne

/-- the same, read the other way: whatever is accepted has size fields that add up to its length -/
theorem accepted_sizes_add_up (codec : Codec) (d : Bytes) (r : CastData) (h : parseCast codec d = .ok r) :
    ∃ w, getU .be 4 d 0 = .ok w ∧
      ((w / 256 ≠ 0 ∧ ∃ hs asz, getS .be 2 d 0 = .ok hs ∧ getS .be 4 d 2 = .ok asz ∧ 6 + hs + asz = (d.length : Int)) ∨
       (w / 256 = 0 ∧ ∃ hs asz, getS .be 4 d 8 = .ok hs ∧ getS .be 4 d 4 = .ok asz ∧ 12 + hs + asz = (d.length : Int))) :=
  parseCast_ok_sizes codec d r h

/-- on encoded members: any non-empty byte string appended without adjusting the size fields → rejected (both layouts) -/
theorem size_mismatch_rejected_enc (codec : Codec) (m : Member) (hv : m.valid) (junk : Bytes) (hj : junk ≠ []) :
    parseCast codec (encD4 m ++ junk) = .error .value ∧ parseCast codec (encD5 m ++ junk) = .error .value :=
  ⟨encD4_junk codec m hv junk hj, encD5_junk codec m hv junk hj⟩

/-! ### (L) the field layouts the model reads ARE the layouts regenerated from drxtract/cast/*.py

`Gen.CastLayouts.*` is produced on every run by harness/gen_cast_layouts.py, which walks the Python `ast` of the nine `parse`
bodies and of the fixed prefixes of the three cast.py functions with a symbolic running index. `layoutOf kinds off` is the
(offset, width, signed) list of the model's `readFields kinds · off`. A changed offset, width, signedness or read order in the
source breaks one of these kernel-checked equalities on the next run. The name lists are the Python variable names in the order
of the pattern variables of the model's readers. -/

open Drx.Gen in
theorem reader_layouts_generated :
    shapeOf CastLayouts.image = layoutOf imageKinds 0 ∧
    shapeOf CastLayouts.imageTail = layoutOf imageTailKinds imageTailOff ∧ CastLayouts.imageTailGuard = imageTailGuard ∧
    shapeOf CastLayouts.textInput = layoutOf textInputKinds 0 ∧
    shapeOf CastLayouts.button = layoutOf buttonKinds 0 ∧
    shapeOf CastLayouts.shape = layoutOf shapeKinds 0 ∧
    shapeOf CastLayouts.text = layoutOf textKinds 0 ∧
    shapeOf CastLayouts.transition = layoutOf transitionKinds 0 ∧
    CastLayouts.sound = [] ∧ CastLayouts.palette = [] ∧ CastLayouts.script = [] := by decide

open Drx.Gen in
theorem container_layouts_generated :
    shapeOf CastLayouts.structD4 = layoutOf structD4Kinds 0 ∧
    shapeOf CastLayouts.structD5 = layoutOf structD5Kinds 0 ∧
    shapeOf CastLayouts.basicFixed = layoutOf basicKinds 0 := by decide

open Drx.Gen in
theorem reader_field_order :
    namesOf CastLayouts.image = ["flags", "bmp_bpp_val", "unknown_11", "h_padding", "w_padding", "bmp_height", "bmp_width", "top", "left",
                                 "bottom", "right", "locV", "locH"] ∧
    namesOf CastLayouts.imageTail = ["bitdepth", "palette_id"] ∧
    namesOf CastLayouts.textInput = ["unknown0", "border", "margin", "boxDropShadow", "boxType", "alignment", "bgcolor_red", "unknown4",
                                     "bgcolor_green", "unknown5", "bgcolor_blue", "unknown6", "scrollTop", "top", "left", "bottom", "right",
                                     "pageHeight", "dropShadow", "options", "scrollHeight"] ∧
    namesOf CastLayouts.button = ["unknown0", "unknown1", "unknown2", "alignment", "bgcolor_red", "unknown4", "bgcolor_green", "unknown5",
                                  "bgcolor_blue", "unknown6", "unknown7", "unknown8", "unknown9", "unknown10", "unknown11", "unknown12",
                                  "unknown13", "unknown14", "buttonType"] ∧
    namesOf CastLayouts.shape = ["unknown00", "shape_type", "top", "left", "bottom", "right", "unknown02", "pattern", "fgColor", "bgColor",
                                 "filled", "line_width", "dir_val"] ∧
    namesOf CastLayouts.text = ["h_padding", "w_padding", "txt_height", "txt_width", "top", "left", "bottom", "right", "antialias", "boxType",
                                "unknown2", "anti_threshold"] ∧
    namesOf CastLayouts.transition = ["smoothness", "transition", "stage_or_area", "duration"] ∧
    namesOf CastLayouts.structD4 = ["header_size", "additional_size", "data_type"] ∧
    namesOf CastLayouts.structD5 = ["data_type", "additional_size", "header_size"] ∧
    namesOf CastLayouts.basicFixed = ["numbers_size", "script_key", "basic_data01", "basic_data02", "script_index"] := by decide

/-- … and the model's reads outside the nine readers are `readFields` over exactly those kind lists
    (the nine readers call `readFields <kinds> h 0` literally) -/
theorem container_reads_are_kind_lists (d : Bytes) :
    (readFields structD4Kinds d 0 =
      (match getS .be 2 d 0 with
       | .error e => .error e
       | .ok hs => match getS .be 4 d 2 with
         | .error e => .error e
         | .ok asz => match byteAt d 6 with
           | .error e => .error e
           | .ok dt => .ok [hs, asz, (dt.toNat : Int)])) ∧
    (readFields imageTailKinds d imageTailOff =
      (match getS .be 2 d 23 with
       | .error e => .error e
       | .ok bitdepth => match getS .be 2 d 25 with
         | .error e => .error e
         | .ok pid => .ok [bitdepth, pid])) :=
  ⟨structD4_reads d, imageTail_reads d⟩

/-! ### non-vacuity: one concrete member per kind meets `valid` -/

def exInfo : Info := ⟨0x98004729, 0, 0x1C, 1, [7, -1], [[0x6F, 0x6E], pascal [0x41, 0x2F, 0x8E, 0x2E, 0x62], [], [0xFF]]⟩

def exMembers : List Member :=
  [⟨.bitmap ⟨0, 0x80, 0, 136, 41, 156, 59, 124, 29, 168, 71, 146, 50, some (8, -101)⟩, [1, 2], some exInfo⟩,
   ⟨.bitmap ⟨0, 0x00, 0, 0, 0, 16, 16, 0, 0, 16, 16, 0, 0, none⟩, [0], none⟩,
   ⟨.field ⟨0, 1, 5, 7, 2, -1, 0xCC, 0, 0x99, 0, 0x66, 0, 0, 10, 20, 110, 220, 16, 3, 5, 32⟩, [], some exInfo⟩,
   ⟨.palette, [9], some exInfo⟩,
   ⟨.sound, [], none⟩,
   ⟨.button ⟨0, 0, 0, 1, 255, 255, 255, 255, 255, 255, 0, 0, 0, 16, 160, 16, 0, 16, 2⟩, [], none⟩,
   ⟨.shape ⟨0, 4, 29, 21, 103, 144, 0, 1, 254, 178, 1, 3, 0⟩, [], none⟩,
   ⟨.script, [], some exInfo⟩,
   ⟨.richText ⟨0, 0, 40, 200, 5, 6, 45, 206, 1, 3, 0, -5⟩, [], some exInfo⟩,
   ⟨.transition ⟨-32768, 52, 2, 32767⟩, [], none⟩]

example : ∀ m ∈ exMembers, m.valid := by decide +kernel

example : ∀ m ∈ exMembers, parseCast .macRoman (encD4 m) = view .macRoman m ∧ parseCast .macRoman (encD5 m) = view .macRoman m :=
  fun m hm =>
    have hv : m.valid := (by decide +kernel : ∀ m ∈ exMembers, m.valid) m hm
    ⟨roundtrip_d4 _ m hv, roundtrip_d5 _ m hv⟩

/-- `A`, `/`, `é` (0x8E in Mac Roman), `.`, `b`: the separator and the accented letter become `_` -/
example : (match nameView .macRoman exInfo.extras with | .ok s => s == "A__.b".toList | .error _ => false) = true := by
  rw [show exInfo.extras = [0x6F, 0x6E] :: pascal [0x41, 0x2F, 0x8E, 0x2E, 0x62] :: [[], [0xFF]] from rfl, name_decodes _ _ _ _ (by decide)]
  decide +kernel

end Drx.C15
