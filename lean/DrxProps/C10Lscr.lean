/-
  C10 support for the Lingo decompiler (drxtract/lingosrc) — termination and bounded work.

  (1) TERMINATION.  Every loop of the model (Drx/Lscr/*.lean) is structural or well-founded recursion without fuel; Lean's
      acceptance of the definitions is the termination proof on every byte string.  The opcode loop is well-founded because every
      instruction advances the read position (`stepOpcode_advance`), not because of a runtime test.
  (2) COUNTING TWINS (Drx/Lscr/Steps.lean; compared with the real loops' round counts on every run of C10, `lscr steps …`).
      * container loops (constant records, property / global name records, handler names, function records, the three name
        tables of a function record) and the opcode loop: bounded by the DATA LENGTH, for ANY declared count / offset / code
        length — a round that completes has read input at a position that only moves forward;
      * loop detection: linear in the size of the statement tree;
      * `JumpOpcode.process`: at most two rounds per statement built so far, per backward jump; every opcode appends at most
        one statement, so the whole pass makes at most 2·(instructions)² rounds — for EVERY input (`jump_pass_quadratic`);
      * condition detection: `(4·maxLen + 1)·(calls + ops)` for EVERY input (accounting bound); with every jz operation
        handled once this is the quadratic bound `cond_steps_quadratic_partial`.
  (3) F37 IN THE MODEL.  `jump_rounds_quadratic`: on the family `(01 54 01)ⁿ` (n empty-bodied loops in a row, 3·n bytes of
      bytecode) the jump pass makes exactly n·(n+3)/2 rounds; `no_linear_bound`: hence no bound `c·(code bytes)` holds.
      The same family is measured on the real code (same counts).
  (4) CONSTANT DATA.  `constant_data_bounded`: the running total of constant data (4 + the bytes each slice really holds) stays
      inside the file for ANY input — the memory side of F104 / F161, with the F161 witness as a kernel-checked example.
  Until the repairs F103/F104 several function records could name the SAME name table or the SAME bytecode, several constant
  records the SAME string (work = records · region); now running totals are checked against the file length (`handlers_linear`).
-/
import Drx.Lscr.Steps
import DrxProofs.LscrSteps
import DrxProofs.LscrConstData
import DrxProofs.LscrStepsLoop
import DrxProofs.LscrStepsCond
import DrxProofs.LscrStepsCondEq
import DrxProofs.LscrStepsTotal
import DrxProofs.LscrStepsWitness
import DrxProofs.LscrStepsStmts
namespace Drx.C10Lscr
open Drx Drx.Lscr Drx.Lscr.Steps

/-! ## container loops: the data length, never a declared count -/

/-- constant records (`for i in range(crb_nconstants)`): one round per 6 bytes that can be read, from ANY (signed) record offset -/
theorem crb_loop_linear (codec : Codec) (d : Bytes) (conOff : Int) (declared : Nat) (st : CrbState) :
    6 * crbSteps codec d conOff declared st ≤ 2 * d.length + 6 := crbSteps_linear codec d conOff declared st

/-- **constant data, ANY bytes** (repairs F104 and F161): the running total `declared` of `parse_lrcr_crb` — 4 bytes per
    out-of-line constant plus the number of bytes its data slice really holds (`crbStep`: the length of the slice, not the length
    word, so a negative length whose slice end counts from the end of the file is counted in full) — never decreases and, after ANY
    number of completed rounds, still lies inside the file: the string and float constants of a script together hold at most
    `len(file)` bytes of it, whatever lengths, offsets and counts the records declare -/
theorem constant_data_bounded (codec : Codec) (d : Bytes) (conOff : Int) (n : Nat) (st st' : CrbState)
    (h : crbLoop codec d conOff n st = .ok st') (h0 : st.declared ≤ d.length) :
    st.declared ≤ st'.declared ∧ st'.declared ≤ d.length := crbLoop_declared n h h0

/-- the same from the start of `parse_lrcr_crb` (running total 0) -/
theorem constant_data_bounded_from_start (codec : Codec) (d : Bytes) (crbOff conOff : Int) (n : Nat) (st' : CrbState)
    (h : crbLoop codec d conOff n { idx := crbOff, bpc := 6, acc := [] } = .ok st') : st'.declared ≤ d.length :=
  (crbLoop_declared n h (Nat.zero_le _)).2

/-- the hypothesis is satisfiable: one string record `"ab"` (length word 3) — running total 4 + 2 -/
example : (crbLoop .macRoman [0,1, 0,0,0,0,  0,0,0,3, 0x61,0x62,0] 6 1 { idx := 0, bpc := 6, acc := [] }).toOption.map (·.declared)
    = some 6 := by decide +kernel

/-- F161 in the model: two records naming ONE length word `-16` at offset 12 of a 22-byte file; the slice is `d[16:-1]` (5 bytes)
    and each round adds 4 + 5 — the guard before the repair added 4 + max(0, -17) = 4 -/
example : (crbLoop .macRoman [0,1, 0,0,0,0,  0,1, 0,0,0,0,  0xFF,0xFF,0xFF,0xF0, 0x41,0x41,0x41,0x41,0x41,0x41] 12 2
    { idx := 0, bpc := 6, acc := [] }).toOption.map (·.declared) = some 18 := by decide +kernel

/-- property / global name records (`while idx < next table`): one round per 2 bytes, whatever the two offsets are -/
theorem name_records_loop_linear (d : Bytes) (idx stop : Int) : nameRecordsSteps d idx stop ≤ d.length + 1 :=
  nameRecordsSteps_linear d idx stop

/-- handler names (`parse_frb_func_names`): one round per 42 bytes, for ANY declared record count -/
theorem func_names_loop_linear (d : Bytes) (declared : Nat) (idx : Int) : 42 * funcNamesSteps d declared idx ≤ 2 * d.length + 82 :=
  funcNamesSteps_linear d declared idx

/-- the three name tables of ONE function record (locals, parameters, handler globals): `len + 1` rounds each at most,
    whatever counts and offsets the record declares -/
theorem frb_tables_linear (ctx : Ctx) (d : Bytes) (idx : Int) (declared : Nat) : tablesSteps ctx d idx declared ≤ 3 * d.length + 3 :=
  tablesSteps_linear ctx d idx declared

/-- whole chunk, ANY bytes, ANY name table: all container loops and the function-record loop are linear in the length -/
theorem container_linear (codec : Codec) (d : Bytes) (names : List Str) :
    6 * (lscrStepsWith codec d names).crb ≤ 2 * d.length + 6 ∧
    (lscrStepsWith codec d names).prb ≤ 3 * d.length + 3 ∧
    (lscrStepsWith codec d names).grb ≤ 3 * d.length + 3 ∧
    42 * (lscrStepsWith codec d names).fnames ≤ 2 * d.length + 82 ∧
    42 * (lscrStepsWith codec d names).frb ≤ 2 * d.length + 42 := lscr_container_linear codec d names

/-- **all handlers together, ANY bytes** (repairs F103: `parse_frb` keeps a running total of the bytecode and name-table bytes
    the records declare and raises when it exceeds the file): two bytes of data per round of a name-table loop and one byte per
    instruction decoded, over ALL function records — overlapping or repeated regions included -/
theorem handlers_linear (codec : Codec) (d : Bytes) (names : List Str) :
    2 * (lscrStepsWith codec d names).tables + (lscrStepsWith codec d names).opcodes ≤ d.length :=
  lscr_handlers_linear codec d names

/-! ## the opcode loop -/

/-- the twin runs the model's loop -/
theorem opcode_twin_is_model (ctx : Ctx) (d : Bytes) (bcOff bcLen idxc : Int) (regs : Regs) (st : PState) :
    (opcodeLoopS ctx d bcOff bcLen idxc regs st).2 = opcodeLoop ctx d bcOff bcLen idxc regs st :=
  opcodeLoopS_result ctx d bcOff bcLen idxc regs st

/-- `steps ≤ |code|`: one round per instruction, an instruction has at least one byte of the declared code length -/
theorem opcode_loop_le_code (ctx : Ctx) (d : Bytes) (bcOff bcLen idxc : Int) (regs : Regs) (st : PState) :
    (opcodeLoopS ctx d bcOff bcLen idxc regs st).1.rounds ≤ (bcLen - (idxc - bcOff)).toNat :=
  opcodeLoopS_rounds_code ctx d bcOff bcLen idxc regs st

/-- … and at least one byte of the data: `bc_length = 0x7fffffff` on a tiny chunk costs at most `2·len + 1` rounds -/
theorem opcode_loop_le_data (ctx : Ctx) (d : Bytes) (bcOff bcLen idxc : Int) (regs : Regs) (st : PState) :
    (opcodeLoopS ctx d bcOff bcLen idxc regs st).1.rounds ≤ 2 * d.length + 1 :=
  opcodeLoopS_rounds_linear ctx d bcOff bcLen idxc regs st

/-- one backward jump: one scan of the statements built so far and at most as many removals -/
theorem jump_scan_linear (d : Bytes) (idxc : Int) (st : PState) : jumpRounds d idxc st ≤ 2 * st.stmts.length :=
  jumpRounds_le d idxc st

/-- every opcode's `process` appends at most one statement (or rebuilds the list into a shorter one): all classes of the
    regenerated table, by case analysis of the model -/
theorem opcode_adds_at_most_one_statement (ctx : Ctx) (info : Gen.Opcodes.OpInfo) (p1 p2 : Nat) (index : Int) (st st' : PState)
    (h : process ctx info p1 p2 index st = .ok st') : st'.stmts.length ≤ st.stmts.length + 1 := process_stmts h

/-- **the jump pass is at most quadratic, EVERY input** (the upper half of F37 for `JumpOpcode.process`): over a whole handler
    the two loops of `JumpOpcode.process` make at most `2 · n²` rounds, `n` = instructions executed ≤ bytes of bytecode -/
theorem jump_pass_quadratic (ctx : Ctx) (d : Bytes) (bcOff bcLen : Int) (regs : Regs) (st : PState) (hst : st.stmts = []) :
    (opcodeLoopS ctx d bcOff bcLen bcOff regs st).1.jump ≤
      2 * (opcodeLoopS ctx d bcOff bcLen bcOff regs st).1.rounds * (opcodeLoopS ctx d bcOff bcLen bcOff regs st).1.rounds := by
  have h := Steps.jump_pass_quadratic ctx d bcOff bcLen bcOff regs st
  simpa [hst] using h

/-! ## loop detection: linear -/

theorem loop_twin_is_model (stmts : List Node) : (loopDetectS stmts).2 = loopDetect stmts := loopDetectS_result stmts

/-- at most two rounds per node of the statement tree (the quadratic cost of this pass in the real code is inside
    `list.remove`, not in its loops) -/
theorem loop_detect_linear (stmts : List Node) : (loopDetectS stmts).1 ≤ 2 * weightList stmts := loopDetectS_linear stmts

/-! ## condition detection: accounting bound for every input, quadratic bound when every jz is handled once -/

theorem cond_twin_is_model (stmts : List Node) : (condDetectS stmts).2 = condDetect stmts := condDetectS_result stmts

/-- EVERY statement list: rounds ≤ (4·maxLen + 1)·(calls + ops).  `maxLen` = longest list an invocation was given, `calls` =
    invocations of condition_detect_in_statements, `ops` = rounds of `for op in jzOperations` (all reported by the twin and,
    for `ops`, observable on the real code) -/
theorem cond_steps_accounting (stmts : List Node) :
    (condDetectS stmts).1.steps ≤ (4 * (condDetectS stmts).1.maxLen + 1) * ((condDetectS stmts).1.calls + (condDetectS stmts).1.ops) :=
  cond_accounting _ stmts none

/-- PARTIAL (hypotheses about the run, not proved from the input): if no invocation sees more than `n` statements, every jz
    operation is handled once (`ops ≤ n`) and, consequently, there are at most `3·n + 1` invocations (one for the handler, one
    per loop or tell body, two per jz), then the pass makes at most `(4n+1)²` rounds — the quadratic bound of F37 -/
theorem cond_steps_quadratic_partial (stmts : List Node) (n : Nat)
    (hlen : (condDetectS stmts).1.maxLen ≤ n) (hops : (condDetectS stmts).1.ops ≤ n) (hcalls : (condDetectS stmts).1.calls ≤ 3 * n + 1) :
    (condDetectS stmts).1.steps ≤ (4 * n + 1) * (4 * n + 1) := by
  have h := condDetectDS_acc n (cdDepthL stmts) stmts none hlen
  have h2 : (condDetectS stmts).1.calls + (condDetectS stmts).1.ops ≤ 4 * n + 1 := by omega
  exact Nat.le_trans h (Nat.mul_le_mul_left _ h2)

/-! ## F37 in the model: a family that refutes every linear bound -/

/-- on `(01 54 01)ⁿ` — 3·n bytes of bytecode, 2·n instructions — the two loops of `JumpOpcode.process` make n·(n+3)/2 rounds,
    in any chunk that holds these bytes at the handler's code offset, from any registers -/
theorem jump_rounds_quadratic (ctx : Ctx) (d : Bytes) (off : Int) (n : Nat) (regs : Regs) (st : PState)
    (hc : CodeHas d off n) (hst : st.stmts = []) :
    2 * (opcodeLoopS ctx d off (3 * n) off regs st).1.jump = n * (n + 3) ∧ (opcodeLoopS ctx d off (3 * n) off regs st).1.rounds = 2 * n :=
  Steps.jump_rounds_quadratic ctx d off n regs st hc hst

/-- such chunks exist for every n and every surrounding bytes -/
theorem family_exists (pre post : Bytes) (n : Nat) : CodeHas (pre ++ (witCode n ++ post)) (pre.length : Int) n :=
  codeHas_witness pre post n

/-- no bound `c · (bytes of bytecode)` holds for the decompiler's loop rounds: for every `c` there is a handler of the family
    with more than `c · |code|` rounds in the jump pass alone -/
theorem no_linear_bound (c : Nat) : ∃ n : Nat, 0 < n ∧ ∀ (ctx : Ctx) (pre post : Bytes) (regs : Regs) (st : PState), st.stmts = [] →
    c * (3 * n) < (opcodeLoopS ctx (pre ++ (witCode n ++ post)) pre.length (3 * n) pre.length regs st).1.jump := by
  refine ⟨6 * c + 1, by omega, ?_⟩
  intro ctx pre post regs st hst
  have h := (Steps.jump_rounds_quadratic ctx _ (pre.length : Int) (6 * c + 1) regs st (codeHas_witness pre post (6 * c + 1)) hst).1
  -- 2·jump = n·(n+3) > 2·c·3n  because n + 3 > 6c
  generalize hn : 6 * c + 1 = n at h ⊢
  have hlt : n * (6 * c) < n * (n + 3) := Nat.mul_lt_mul_of_pos_left (by omega) (by omega)
  have e2 : 2 * (c * (3 * n)) = n * (6 * c) := by
    have a : c * (3 * n) = (3 * c) * n := by rw [← Nat.mul_assoc, Nat.mul_comm c 3]
    have b : 2 * ((3 * c) * n) = (6 * c) * n := by rw [← Nat.mul_assoc]; congr 1; omega
    rw [a, b, Nat.mul_comm]
  omega

/-! ## hostile counts cost one round (examples on the loops; the real code agrees, see corpus/C10) -/

/-- 0x7fff handler records declared, chunk ends after the header: the name pass makes one round (and raises) -/
example : funcNamesSteps (List.replicate 92 0) 0x7fff 92 = 1 := by decide
/-- 0x7fff local names declared at the end of the data: one round -/
example : handlerGlobalsSteps (List.replicate 92 0) 92 0x7fff 0 = 1 := by decide
/-- a name table whose two offsets are 32767 apart on a 92-byte chunk: one round per 2 readable bytes only -/
example : nameRecordsSteps (List.replicate 8 0) 4 32767 = 3 := by decide +kernel

end Drx.C10Lscr
