/-
  C04 — emitted JavaScript is valid and denotes the same program as the Lingo (spec-layer statements).
-/
import Drx.Spec.JsRead
namespace DrxProps.C04
open Drx Drx.Spec

/-- full statement: the text the translator emits reads (JavaScript subset grammar) as exactly the tree `toJs` assigns to the source script -/
def C04_full (genJs : Bytes → Bytes → Option (List Char)) : Prop :=
  ∀ (o : Options) (s : Script) (c : Compiled), compile o s = .ok c →
    ∃ text, genJs c.lscr c.lnam = some text ∧ (readJs text).map (·.map JTop.render) = some ((toJs o.scrNum s).map JTop.render)

/-- JavaScript's lexical rule the F41 finding is about: an identifier directly after a numeric literal is an error -/
theorem number_then_identifier_is_invalid : readJsExpr "1.concat(b)".toList = none := by decide +kernel

/-- … while the parenthesised receiver reads as the method call on the number -/
theorem parenthesised_number_receiver :
    (readJsExpr "(1).concat(b)".toList).map JE.render = some (JE.call (.mem (.num 1 0) "concat".toList) [.id "b".toList]).render := by
  decide +kernel

/-- F42: postfix binds tighter than prefix minus -/
theorem unary_receiver_regroups :
    (readJsExpr "-(a).concat(b)".toList).map JE.render
      = some (JE.un "-".toList (.call (.mem (.id "a".toList) "concat".toList) [.id "b".toList])).render := by
  decide +kernel

end DrxProps.C04
