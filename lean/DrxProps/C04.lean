/-
  C04 — emitted JavaScript is valid and denotes the same program as the Lingo (spec-layer statements).
-/
import Drx.Spec.JsRead
import DrxProofs.SpecJs
namespace DrxProps.C04
open Drx Drx.Spec

/-- full statement: the text the translator emits reads (JavaScript subset grammar) as exactly the tree `toJs` assigns to the source script -/
def C04_full (genJs : Bytes → Bytes → Option (List Char)) : Prop :=
  ∀ (o : Options) (s : Script) (c : Compiled), compile o s = .ok c →
    ∃ text, genJs c.lscr c.lnam = some text ∧ (readJs text).map (·.map JTop.render) = some ((toJs o.scrNum s).map JTop.render)

/-! ### 7(e): the reader of the JavaScript subset inverts the reference printer (unbounded, expression fragment) -/

/-- for every expression tree of the subset the translator emits (numbers, string objects, plain strings, identifiers, member and
    index access, calls, prefix `-` `!`, the 13 infix operators; any depth, any argument count), reading the tokens the reference
    printer writes — binary operations parenthesised, prefix operators as `-(x)`, numeric / prefix receivers parenthesised — gives
    the tree back, at every grouping level and followed by anything that cannot continue an expression -/
theorem js_read_print_expr (e : JE) (h : JFrag e) (lvl : Nat) (h1 : 1 ≤ lvl) (h7 : lvl ≤ 7)
    (R : List JTok) (hf : JFollow lvl R) (hp : NoPost R) (F : Nat) (hF : jfuel e + 10 ≤ F) :
    jLevel F lvl (prJ e ++ R) = some (e, R) :=
  jclimb _ _ e (jfuel e + 2) (fun F' hF' => js_whole e h R hp F' hF') (7 - lvl) lvl (by omega) h1 hf F (by omega)

theorem js_read_print_expr_whole (e : JE) (h : JFrag e) (F : Nat) (hF : jfuel e + 10 ≤ F) : jExpr F (prJ e) = some (e, []) := by
  have := js_read_print_expr e h 1 (Nat.le_refl 1) (by omega) [] trivial trivial F hF
  simpa [jExpr] using this

/-- argument lists -/
theorem js_read_print_args (es : List JE) (h : JFragL es) (R : List JTok) (F : Nat) (hF : jfuelL es + 1 ≤ F) :
    jArgs F (prJArgs es ++ .p .rp :: R) = some (es, R) := js_args es h R F hF

/-- what `toJs` assigns to a Lingo expression (all operators incl. the method-style string operators and sprite tests, variables
    of the four kinds, `field`, plain function calls, lists, function-like / movie / object properties, chunk expressions) lies in
    that fragment … -/
theorem toJs_in_fragment (c : JCtx) (e : Expr) (h : JsSrc e) : JFrag (toJsE c e) := toJsE_frag c e h

/-- … hence `readJs (printJs (toJs e)) = toJs e` for every such expression -/
theorem js_read_print_toJs (c : JCtx) (e : Expr) (h : JsSrc e) (F : Nat) (hF : jfuel (toJsE c e) + 10 ≤ F) :
    jExpr F (prJ (toJsE c e)) = some (toJsE c e, []) :=
  js_read_print_expr_whole (toJsE c e) (toJsE_frag c e h) F hF

/-- non-vacuity: `(a & "x") contains -b`, i.e. `a.concat(new LingoString("x")).contains(-(b))`, with `a` a parameter and `b` a
    global, satisfies the hypothesis, and the reader indeed returns the tree -/
example :
    let e : Expr := .bin .contains (.bin .concat (.var .param "a".toList) (.str "x".toList)) (.un .neg (.var .glob "b".toList))
    let c : JCtx := { handlers := [], inTell := false }
    JsSrc e ∧ (jExpr (jfuel (toJsE c e) + 10) (prJ (toJsE c e))).map (·.1.render) = some (toJsE c e).render := by
  refine ⟨?_, by decide +kernel⟩
  simp only [JsSrc]
  decide +kernel

/-- JavaScript's lexical rule the F41 finding is about: an identifier directly after a numeric literal is an error -/
theorem number_then_identifier_is_invalid : readJsExpr "1.concat(b)".toList = none := by decide +kernel

/-- … while the parenthesised receiver reads as the method call on the number -/
theorem parenthesised_number_receiver :
    (readJsExpr "(1).concat(b)".toList).map JE.render = some (JE.call (.mem (.num 1 0) "concat".toList) [.id "b".toList]).render := by
  decide +kernel

/-- F42: postfix binds tighter than prefix minus -/
theorem unary_receiver_regroups :
    (readJsExpr "-(a).concat(b)".toList).map JE.render
      = some (JE.un "-".toList (.call (.mem (.id "a".toList) "concat".toList) [.id "b".toList])).render := by
  decide +kernel

end DrxProps.C04
