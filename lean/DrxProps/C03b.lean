/-
  C03 (second part) — the reference reader restores the nesting the reference printer wrote, for every control construct and any
  nesting depth: `readLingo (printLingo p) = some p` restricted to the constructs C03 is about, by mutual induction over
  `Stmt` / `List Stmt` (DrxProofs/SpecStmt.lean `rp_stmt` / `rp_stmts`).  One theorem per construct, then the general one.
-/
import DrxProofs.SpecStmt
import DrxProofs.SpecScript
namespace DrxProps.C03b
open Drx Drx.Spec

/-- `if c then … end if` and `if c then … else … end if` (an empty else branch IS the if without else) -/
theorem read_print_if (env : Env) (c : Expr) (t e : List Stmt) (h : FragS env (.ifThen c t e)) (rest : List Tok) (F : Nat)
    (hF : fuelS (.ifThen c t e) ≤ F) : pStmt env F (prS (.ifThen c t e) ++ rest) = some (.ifThen c t e, rest) := rp_stmt env _ h rest F hF

/-- `repeat while c … end repeat` -/
theorem read_print_repeat_while (env : Env) (c : Expr) (b : List Stmt) (h : FragS env (.repeatWhile c b)) (rest : List Tok) (F : Nat)
    (hF : fuelS (.repeatWhile c b) ≤ F) : pStmt env F (prS (.repeatWhile c b) ++ rest) = some (.repeatWhile c b, rest) :=
  rp_stmt env _ h rest F hF

/-- `repeat with v = a to b` / `repeat with v = a down to b` -/
theorem read_print_repeat_with (env : Env) (v a b : Expr) (down : Bool) (body : List Stmt) (h : FragS env (.repeatWith v a b down body))
    (rest : List Tok) (F : Nat) (hF : fuelS (.repeatWith v a b down body) ≤ F) :
    pStmt env F (prS (.repeatWith v a b down body) ++ rest) = some (.repeatWith v a b down body, rest) := rp_stmt env _ h rest F hF

/-- `repeat with v in list` -/
theorem read_print_repeat_in (env : Env) (v l : Expr) (body : List Stmt) (h : FragS env (.repeatIn v l body)) (rest : List Tok) (F : Nat)
    (hF : fuelS (.repeatIn v l body) ≤ F) : pStmt env F (prS (.repeatIn v l body) ++ rest) = some (.repeatIn v l body, rest) :=
  rp_stmt env _ h rest F hF

/-- `exit repeat` (and `exit`) -/
theorem read_print_exit_repeat (env : Env) (rest : List Tok) (F : Nat) (hF : 1 ≤ F) :
    pStmt env F (prS .exitRepeat ++ rest) = some (.exitRepeat, rest) ∧ pStmt env F (prS .exit ++ rest) = some (.exit, rest) :=
  ⟨rp_stmt env .exitRepeat trivial rest F (by simpa [fuelS] using hF), rp_stmt env .exit trivial rest F (by simpa [fuelS] using hF)⟩

/-- **the nesting is restored**: a statement list of any depth and width reads back as itself, up to the `end` / `else` that closes
    it; in particular every statement is in the construct it was written in, once, in order -/
theorem nesting_restored (env : Env) (ss : List Stmt) (h : FragSs env ss) (rest : List Tok) (hr : Stop rest) (F : Nat) (hF : fuelSs ss ≤ F) :
    pStmts env F (prSs ss ++ rest) = some (ss, rest) := rp_stmts env ss h rest hr F hF

/-- the fuel the script reader has (4 per token of the whole script) covers every nesting: statement fuel is at most 2 per token -/
theorem stmt_fuel_bound (ss : List Stmt) : fuelSs ss ≤ 2 * (prSs ss).length + 1 := fuelSs_bound ss

/-- line structure: the printed statements are complete lines, none of which starts with a declaration keyword or a handler start
    (what lets the script reader find the handler boundaries and the declarations without parsing) -/
theorem printed_lines (ss : List Stmt) (h : headsOk ss = true) : Lines lineHead (prSs ss) := prSs_lines ss h

end DrxProps.C03b
