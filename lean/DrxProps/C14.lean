/-
  Property C14 — the BMP colour table is exactly the palette the member selects.
  Statements are about the model in Drx/Pal.lean and the tables in Drx/Gen/Palettes.lean
  (regenerated from /repo's PALETTES, DECODERS and DIR_PALETTE_NAMES on every run).
-/
import Drx.Pal
import DrxProofs.Pal
namespace Drx.C14
open Drx Drx.Pal Drx.Gen.Palettes

/-! ### custom palettes -/

/-- `clut2palette` on the CLUT chunk of ANY 256-entry palette (arbitrary components; bytes after entry 256 are ignored)
    is the table "high byte of blue, green, red, then 0" per entry, in entry order. -/
theorem custom_table (p : List Rgb16) (extra : Bytes) (hlen : p.length = 256) :
    clut2palette (encClut p ++ extra) = .ok (bmpTable p) := by
  have := clutLoop_enc 256 p extra (by omega)
  rw [List.take_of_length_le (by omega)] at this
  exact this

/-- … and entry `i` of that table is `[hi b_i, hi g_i, hi r_i, 0]` for every `i`. -/
theorem custom_table_entry (p : List Rgb16) (i : Nat) (c : Rgb16) (h : p[i]? = some c) :
    slice (bmpTable p) (4 * i) (4 * i + 4) = [hi c.b, hi c.g, hi c.r, 0] :=
  bmpTable_entry p i c h

/-- the high byte is what a 16-bit component stores in its first byte -/
theorem hi_of_component (x : Nat) (h : x < 65536) : (hi x).toNat = x / 256 ∧ encBE 2 x = [hi x, UInt8.ofNat (x % 256)] := by
  constructor
  · simp [hi, UInt8.toNat_ofNat']; omega
  · simp [encBE2, ofNat_mod256]

/-- fewer than 256 entries: rejected (IndexError), never a partial table -/
theorem custom_short_rejected (p : List Rgb16) (h : p.length < 256) : clut2palette (encClut p) = .error .index :=
  clutLoop_short 256 p h

example : clut2palette (encClut (List.replicate 256 ⟨0xFFEE, 0x1234, 0x00FF⟩)) =
    .ok (bmpTable (List.replicate 256 ⟨0xFFEE, 0x1234, 0x00FF⟩)) := by
  have := custom_table (List.replicate 256 ⟨0xFFEE, 0x1234, 0x00FF⟩) [] List.length_replicate
  rwa [List.append_nil] at this
example : slice (bmpTable [⟨1, 2, 3⟩, ⟨0xFFEE, 0x1234, 0xAB00⟩]) 4 8 = [0xAB, 0x12, 0xFF, 0] := by decide

/-- custom data wins: whenever the custom table is non-empty and long enough, exactly its first `4*ncolors` bytes are written,
    for every registry, depth and palette name -/
theorem custom_wins (reg : Registry) (nbits ncolors : Nat) (name : String) (data : Bytes)
    (hne : data ≠ []) (hlen : ncolors * 4 ≤ data.length) :
    writeColorPaletteR reg nbits ncolors name data = .ok (data.take (ncolors * 4)) := by
  have h0 : data.length > 0 := by cases data with | nil => exact absurd rfl hne | cons _ _ => simp
  unfold writeColorPaletteR
  simp only [h0, if_true, packB, slice, List.drop_zero, Nat.sub_zero, List.length_map, List.length_take,
    Nat.min_eq_left hlen]
  exact packVals_bytes _

/-- a non-empty custom table that is too short is rejected; it never falls back to a named table -/
theorem custom_short_table_rejected (reg : Registry) (nbits ncolors : Nat) (name : String) (data : Bytes)
    (hne : data ≠ []) (hlen : data.length < ncolors * 4) :
    writeColorPaletteR reg nbits ncolors name data = .error .struct := by
  have h0 : data.length > 0 := by cases data with | nil => exact absurd rfl hne | cons _ _ => simp
  unfold writeColorPaletteR
  have : min (ncolors * 4) data.length ≠ ncolors * 4 := by omega
  simp [h0, packB, slice, this]

/-- end to end for an 8-bit image with a custom palette: bytes 54..54+1024 of the BMP are the palette's table, whatever
    name the member carries -/
theorem custom_bmp_table (p : List Rgb16) (extra : Bytes) (txt : String) (hlen : p.length = 256) :
    (clut2palette (encClut p ++ extra)).bind (bmpColorTable 8 txt) = .ok (bmpTable p) ∧ bmpDataOffset 8 = some (54 + 4 * 256) := by
  rw [custom_table p extra hlen]
  have hl : (bmpTable p).length = 1024 := by rw [bmpTable_length, hlen]
  have hd : decoders.lookup 8 = some (8, 256) := by decide
  constructor
  · show bmpColorTable 8 txt (bmpTable p) = _
    unfold bmpColorTable
    rw [hd]
    simp only [show (256 : Nat) ≠ 0 by decide, if_false]
    show writeColorPaletteR palettes 8 256 _ _ = _
    rw [custom_wins _ _ _ _ _ (by intro h; rw [h] at hl; simp at hl) (by omega)]
    rw [List.take_of_length_le (by omega)]
  · unfold bmpDataOffset; rw [hd]; rfl

/-! ### JSON colour list -/

/-- `clut2rgb` on the CLUT chunk of a palette of ANY length is `#rrggbb` of the three high bytes of each entry -/
theorem json_agrees (p : List Rgb16) : clut2rgb (encClut p) = .ok (rgbList p) := clut2rgb_enc p

/-- JSON and BMP agree entry for entry: reading the BMP table of a palette back (blue, green, red, reserved) gives the
    JSON colour list of the same palette -/
theorem json_bmp_agree (p : List Rgb16) : tableToRgb (bmpTable p) = rgbList p := tableToRgb_bmpTable p

/-- … and this does not depend on the encoder: for ANY chunk bytes on which both functions succeed, the first 256
    JSON colours are the 256 entries of the BMP table -/
theorem json_bmp_agree_any (d P : Bytes) (L : List (List Char))
    (hP : clut2palette d = .ok P) (hL : clut2rgb d = .ok L) : L.take 256 = tableToRgb P :=
  agree_any 256 d P L hP hL

example : clut2rgb (encClut [⟨0xFFEE, 0x1234, 0x00FF⟩, ⟨0, 65535, 256⟩]) = .ok ["#ff1200".toList, "#00ff01".toList] := by
  rw [json_agrees]; simp [rgbList, colorStr, hex2, hi, hexDigit]

/-! ### named palettes -/

/-- the generated registry is well formed (complete check of all tables by kernel evaluation) -/
theorem tables_wellformed : tablesWF palettes decoders = true := by decide +kernel

/-- The `PALETTES` nesting: which table each (depth, name) is bound to. A registry entry pointing at another palette's tuple
    (a swapped entry) breaks this obligation. -/
theorem registry_nesting : palettes =
    [(1, [("black and white", BW_PALETTE)]),
     (4, [("systemMac", SYSTEM_MAC_16COLORS_PALETTE), ("systemWin", SYSTEM_WINDOWS_16COLORS_PALETTE),
          ("default", SYSTEM_WINDOWS_16COLORS_PALETTE)]),
     (8, [("grayscale", GRAYSCALE_256COLORS_PALETTE), ("metallic", METALLIC_256COLORS_PALETTE), ("ntsc", NTSC_256COLORS_PALETTE),
          ("pastels", PASTELS_256COLORS_PALETTE), ("rainbow", RAINBOW_256COLORS_PALETTE), ("systemMac", SYSTEM_MAC_256COLORS_PALETTE),
          ("systemWinDir4", SYSTEM_WINDOWS_DIR4_256COLORS_PALETTE), ("systemWin", SYSTEM_WINDOWS_256COLORS_PALETTE),
          ("vivid", VIVID_256COLORS_PALETTE), ("web216", WEB_256COLORS_PALETTE), ("default", SYSTEM_WINDOWS_256COLORS_PALETTE)])] := rfl

/-- Director's convention, for every table of the registry: entry 0 is white, the last entry is black, every reserved byte is 0 -/
theorem tables_director_convention :
    ∀ dr ∈ palettes, ∀ nt ∈ dr.2, whiteFirstBlackLast nt.2 = true ∧ reservedZero nt.2 = true := by decide +kernel

/-- the grayscale table in closed form: entry `i` is the gray `255 - i` -/
theorem grayscale_closed_form :
    tableOf palettes 8 "grayscale" = some ((List.range 256).flatMap fun (i : Nat) => [(255 : Int) - i, 255 - i, 255 - i, 0]) := by
  decide +kernel

/-- For every decoder `(depth ↦ nbits, ncolors)` and every palette name, with no custom data:
    a name in the registry of that depth writes exactly that table; any other name writes the `default` table of
    that depth (when the depth has one). -/
theorem named_table {depth nbits ncolors : Nat} (hd : (depth, nbits, ncolors) ∈ decoders)
    {d : List (String × List Int)} (hr : palettes.lookup nbits = some d) (name : String) :
    (∀ t, d.lookup name = some t → writeColorPalette nbits ncolors name [] = .ok (t.map byteOf) ∧ t.length = ncolors * 4) ∧
    (d.lookup name = none → ∀ t, d.lookup "default" = some t →
        writeColorPalette nbits ncolors name [] = .ok (t.map byteOf) ∧ t.length = ncolors * 4) := by
  constructor
  · intro t ht
    have wf := tablesWF_elim tables_wellformed hd hr (lookup_mem _ _ _ ht)
    refine ⟨?_, wf.1⟩
    show writeColorPaletteR palettes nbits ncolors name [] = _
    unfold writeColorPaletteR
    simp only [List.length_nil, Nat.lt_irrefl, gt_iff_lt, if_false, hr, ht]
    exact packB_ok _ _ wf.1 wf.2
  · intro hn t ht
    have wf := tablesWF_elim tables_wellformed hd hr (lookup_mem _ _ _ ht)
    refine ⟨?_, wf.1⟩
    show writeColorPaletteR palettes nbits ncolors name [] = _
    unfold writeColorPaletteR
    simp only [List.length_nil, Nat.lt_irrefl, gt_iff_lt, if_false, hr, hn, ht]
    exact packB_ok _ _ wf.1 wf.2

/-- the depths with a colour table that `bitd2bmp` can reach with an arbitrary name (4 and 8 bit) do have a `default`
    entry, and it is the Windows system table of that depth -/
theorem default_is_windows :
    ∀ nbits ∈ [4, 8], ∃ d t, palettes.lookup nbits = some d ∧ d.lookup "default" = some t ∧ d.lookup "systemWin" = some t := by
  have h : ∀ nbits ∈ [4, 8], (tableOf palettes nbits "default").isSome = true ∧
      tableOf palettes nbits "default" = tableOf palettes nbits "systemWin" := by decide +kernel
  intro nbits hn
  obtain ⟨h1, h2⟩ := h nbits hn
  obtain ⟨t, ht⟩ := Option.isSome_iff_exists.mp h1
  obtain ⟨d, hd, hdt⟩ := tableOf_some.mp ht
  obtain ⟨d', hd', hdt'⟩ := tableOf_some.mp (h2 ▸ ht)
  have : d = d' := by rw [hd] at hd'; exact Option.some.inj hd'
  subst this
  exact ⟨d, t, hd, hdt, hdt'⟩

/-- hence: at 4 and 8 bit EVERY name (known or not) yields a table of `4*ncolors` bytes, unknown names the Windows one -/
theorem unknown_name_falls_back {depth nbits ncolors : Nat} (hd : (depth, nbits, ncolors) ∈ decoders) (h48 : nbits ∈ [4, 8])
    (name : String) :
    ∃ d tw, palettes.lookup nbits = some d ∧ d.lookup "systemWin" = some tw ∧
      (d.lookup name = none → writeColorPalette nbits ncolors name [] = .ok (tw.map byteOf)) ∧
      ∃ out, writeColorPalette nbits ncolors name [] = .ok out ∧ out.length = ncolors * 4 := by
  obtain ⟨d, t, hr, hdef, hwin⟩ := default_is_windows nbits h48
  have nt := named_table hd hr name
  refine ⟨d, t, hr, hwin, fun hn => (nt.2 hn t hdef).1, ?_⟩
  cases hl : d.lookup name with
  | none => exact ⟨_, (nt.2 hl t hdef).1, by simp [(nt.2 hl t hdef).2]⟩
  | some t' => exact ⟨_, (nt.1 t' hl).1, by simp [(nt.1 t' hl).2]⟩

/-- depths without any registry entry (16/24/32 bit) write no colour table -/
theorem no_table_depths {nbits ncolors : Nat} (hr : palettes.lookup nbits = none)
    (name : String) : writeColorPalette nbits ncolors name [] = .ok [] := by
  show writeColorPaletteR palettes nbits ncolors name [] = _
  unfold writeColorPaletteR
  simp [hr]

/-- the 1-bit registry has no `default`: an unknown name at 1 bit is a KeyError in `writeColorPalette` … -/
theorem depth1_unknown_name_rejected (name : String) (h : name ≠ "black and white") :
    writeColorPalette 1 2 name [] = .error .key := by
  have hk : (palettes.lookup 1).map (·.map Prod.fst) = some ["black and white"] := by decide +kernel
  cases hr : palettes.lookup 1 with
  | none => simp [hr] at hk
  | some d =>
    have hkeys : d.map Prod.fst = ["black and white"] := by simpa [hr] using hk
    have hmem : ∀ kv ∈ d, kv.1 = "black and white" := by
      intro kv hkv
      have : kv.1 ∈ d.map Prod.fst := List.mem_map_of_mem hkv
      simpa [hkeys] using this
    have hn : d.lookup name = none := lookup_none_of_ne d name (fun kv hkv => by rw [hmem kv hkv]; exact Ne.symm h)
    have hdn : d.lookup "default" = none := lookup_none_of_ne d "default" (fun kv hkv => by rw [hmem kv hkv]; decide)
    show writeColorPaletteR palettes 1 2 name [] = _
    unfold writeColorPaletteR
    simp [hr, hn, hdn]

/-- … which `bitd2bmp` cannot trigger: for every indexed-colour depth that has a decoder, every `palette_txt` and no custom data
    the colour table is written (8 bit: by name with fallback; 1 bit: always black and white; 4 bit: the default), and it has
    `4*ncolors` bytes, i.e. it fills bytes 54 .. data offset of the BMP -/
theorem bmp_table_total (depth : Nat) (txt : String) (hdep : depth ∈ [1, 4, 8]) :
    ∃ out off, bmpColorTable depth txt [] = .ok out ∧ bmpDataOffset depth = some off ∧ off = 54 + out.length ∧ 0 < out.length := by
  simp only [List.mem_cons, List.not_mem_nil, or_false] at hdep
  rcases hdep with h | h | h <;> subst h
  · -- 1 bit
    have hd : decoders.lookup 1 = some (1, 2) := by decide
    have hm : (1, 1, 2) ∈ decoders := by decide
    have hs : (tableOf palettes 1 "black and white").isSome = true := by decide +kernel
    obtain ⟨t, ht⟩ := Option.isSome_iff_exists.mp hs
    obtain ⟨d, hr, hdt⟩ := tableOf_some.mp ht
    have := (named_table hm hr "black and white").1 t hdt
    refine ⟨t.map byteOf, 62, ?_, ?_, ?_, ?_⟩
    · unfold bmpColorTable; rw [hd]; exact this.1
    · unfold bmpDataOffset; rw [hd]; rfl
    · simp [this.2]
    · simp [this.2]
  · -- 4 bit
    have hd : decoders.lookup 4 = some (4, 16) := by decide
    have hm : (4, 4, 16) ∈ decoders := by decide
    obtain ⟨_, _, _, _, _, out, ho, hl⟩ := unknown_name_falls_back hm (by decide) (bmpPaletteName 4 txt)
    refine ⟨out, 118, ?_, ?_, ?_, ?_⟩
    · unfold bmpColorTable; rw [hd]; exact ho
    · unfold bmpDataOffset; rw [hd]; rfl
    · omega
    · omega
  · -- 8 bit
    have hd : decoders.lookup 8 = some (8, 256) := by decide
    have hm : (8, 8, 256) ∈ decoders := by decide
    obtain ⟨_, _, _, _, _, out, ho, hl⟩ := unknown_name_falls_back hm (by decide) (bmpPaletteName 8 txt)
    refine ⟨out, 1078, ?_, ?_, ?_, ?_⟩
    · unfold bmpColorTable; rw [hd]; exact ho
    · unfold bmpDataOffset; rw [hd]; rfl
    · omega
    · omega

/-- the decoders with a colour table are exactly those of depth 1, 4 and 8 -/
theorem indexed_depths : ∀ kv ∈ decoders, (kv.2.2 ≠ 0 ↔ kv.1 ∈ [1, 4, 8]) := by decide +kernel

/-- the 8-bit image path selects the table by the member's `palette_txt` -/
theorem bmp_8bit_by_name (txt : String) (clut : Bytes) : bmpColorTable 8 txt clut = writeColorPalette 8 256 txt clut := by
  have hd : decoders.lookup 8 = some (8, 256) := by decide
  unfold bmpColorTable; rw [hd]; rfl

example : ∃ t, tableOf palettes 8 "grayscale" = some t ∧ bmpColorTable 8 "grayscale" [] = .ok (t.map byteOf) ∧ t.length = 1024 := by
  have h : (tableOf palettes 8 "grayscale").isSome = true := by decide +kernel
  obtain ⟨t, ht⟩ := Option.isSome_iff_exists.mp h
  obtain ⟨d, hr, hg⟩ := tableOf_some.mp ht
  have := (named_table (depth := 8) (nbits := 8) (ncolors := 256) (by decide) hr "grayscale").1 t hg
  exact ⟨t, ht, by rw [bmp_8bit_by_name]; exact this.1, this.2⟩

/-! ### palette number → name -/

/-- what `get_palette_name` computes, for every integer: values ≤ 0 are shifted by one, then looked up; otherwise the decimal
    string of the (shifted) value -/
theorem palette_name_spec (v : Int) :
    paletteName v = ((paletteNames.lookup (if v ≤ 0 then v - 1 else v)).getD (toString (if v ≤ 0 then v - 1 else v))) := by
  show paletteNameR paletteNames v = _
  unfold paletteNameR pyStrInt
  cases h : paletteNames.lookup (if v ≤ 0 then v - 1 else v) <;> simp [h]

/-- all keys of the name table are negative … -/
theorem palette_keys_negative : ∀ kv ∈ paletteNames, kv.1 < 0 := by decide +kernel

/-- … so every positive number (a cast-member number, i.e. a custom palette) is reported as its decimal string -/
theorem palette_name_positive (v : Int) (h : 0 < v) : paletteName v = toString v := by
  rw [palette_name_spec]
  have hn : ¬ v ≤ 0 := by omega
  simp only [hn, if_false]
  rw [lookup_none_of_ne paletteNames v (fun kv hkv => by have := palette_keys_negative kv hkv; omega)]
  rfl

/-- every name the table can produce is a key of the 8-bit registry -/
theorem palette_names_registered : ∀ kv ∈ paletteNames, ∃ d t, palettes.lookup 8 = some d ∧ d.lookup kv.2 = some t := by
  have h : ∀ kv ∈ paletteNames, (tableOf palettes 8 kv.2).isSome = true := by decide +kernel
  intro kv hkv
  obtain ⟨t, ht⟩ := Option.isSome_iff_exists.mp (h kv hkv)
  obtain ⟨d, hd, hdt⟩ := tableOf_some.mp ht
  exact ⟨d, t, hd, hdt⟩

/-- total over all integers (a fortiori all signed 16-bit numbers): the name of `v ≤ 0` is either a key of the 8-bit registry
    (the table entry of `v - 1`) or the decimal string of `v - 1` -/
theorem palette_name_total (v : Int) (h : v ≤ 0) :
    (∃ d t, palettes.lookup 8 = some d ∧ d.lookup (paletteName v) = some t ∧ paletteNames.lookup (v - 1) = some (paletteName v))
    ∨ (paletteNames.lookup (v - 1) = none ∧ paletteName v = toString (v - 1)) := by
  rw [palette_name_spec]
  simp only [h, if_true]
  cases hl : paletteNames.lookup (v - 1) with
  | none => right; simp
  | some s =>
    left
    obtain ⟨d, t, h1, h2⟩ := palette_names_registered _ (lookup_mem _ _ _ hl)
    exact ⟨d, t, h1, by simpa using h2, by simp⟩

/-- so for a system palette number the 8-bit BMP gets exactly the table registered under that name -/
theorem system_palette_bmp (v : Int) (s : String) (hl : paletteNames.lookup (if v ≤ 0 then v - 1 else v) = some s) :
    ∃ d t, palettes.lookup 8 = some d ∧ d.lookup s = some t ∧ bmpColorTable 8 (paletteName v) [] = .ok (t.map byteOf) := by
  have hs : paletteName v = s := by rw [palette_name_spec, hl]; rfl
  obtain ⟨d, t, h1, h2⟩ := palette_names_registered _ (lookup_mem _ _ _ hl)
  refine ⟨d, t, h1, h2, ?_⟩
  rw [hs, bmp_8bit_by_name]
  exact ((named_table (depth := 8) (nbits := 8) (ncolors := 256) (by decide) h1 s).1 t h2).1

/-- Director's palette numbers (the specification of the number → name table) -/
def specPaletteNames : List (Int × String) :=
  [(-1, "systemMac"), (-2, "rainbow"), (-3, "grayscale"), (-4, "pastels"), (-5, "vivid"), (-6, "ntsc"), (-7, "metallic"),
   (-8, "web216"), (-101, "systemWinDir4"), (-102, "systemWin")]

/-- `get_palette_name` agrees with Director's numbering on every integer (whatever the order of the dict entries) -/
theorem palette_numbers_spec (v : Int) : paletteName v = paletteNameR specPaletteNames v := by
  have h1 : ∀ kv ∈ paletteNames, specPaletteNames.lookup kv.1 = some kv.2 := by decide +kernel
  have h2 : ∀ kv ∈ specPaletteNames, paletteNames.lookup kv.1 = some kv.2 := by decide +kernel
  show paletteNameR paletteNames v = _
  unfold paletteNameR
  simp only [lookup_ext paletteNames specPaletteNames h1 h2]

example : paletteName 0 = "systemMac" ∧ paletteName (-100) = "systemWinDir4" ∧ paletteName (-8) = "-9" ∧ paletteName 17 = "17" := by
  decide +kernel

end Drx.C14
