/-
  C03 link — the model of `loop_detection.py` / `JumpOpcode.process` (lean/Drx/Lscr/Flow.lean, agent-lscr) reconstructs the nesting
  of every compiled exit-free structured program.  This instantiates the abstract `decompile` of DrxProps/C03.lean at the level
  where the control-flow passes work: statement lists.

  Setting (definitions in lean/Drx/LinkFlow.lean, proofs in lean/DrxProofs/LinkFlow*.lean):
  * `Src`   source skeleton: simple statement / if [else] / repeat while / repeat with (up, down) / repeat with … in; simple
            statements and conditions are ABSTRACT model nodes (`Smp` = size of the code fragment, offset of the instruction that
            appends the statement, the node), so nothing here depends on the expression-level link.
  * `lower` its statement-level control skeleton `P` (the image of `Spec.CStmt` under the stack machine: the separate statements
            `set v = a`, the step, `set v = getAt(…)` are ordinary simple statements; statement-less prologue/epilogue code is `skip`).
  * `rawEv o ps` the events the opcode loop produces for the skeleton laid out at address `o` (append statement / back jump), with
            every position and jump address computed from fragment sizes as `Spec.layoutStmts` does: 95/93 relative to the opcode's
            own address, loop header jump to the address after the back jump, back jump to the start of the condition.
  * `emit false o ps` the resulting statement list; `tgtC o ps` its nesting after `condition_detect`; `tgtL o ss` the source
            nesting after `loop_detect`.
  * `Src.oks none o ss` the class (decidable): well-formed fragments, and every loop header is recognised as what it is and as
            nothing else.  After the repairs F133–F136 it contains every exit-free program except the `repeat while` loops that ARE
            `repeat with` / `repeat with … in` loops at bytecode level (`with_lowers_as_while`).
-/
import DrxProofs.LinkFlowParse
import DrxProofs.LinkFlowLayout
import DrxProofs.LinkFlowX
namespace DrxProps.C03Link
open Drx Drx.Lscr Drx.LinkFlow

/-! ## F3: the reconstruction theorem (unbounded depth and width) -/

/-- The full statement: every source skeleton whose fragments are well-formed reconstructs.  It is FALSE as it stands because of
    one coincidence of the compile scheme (`full_witness`); the class `Src.oks` removes exactly that. -/
def C03Link_full : Prop :=
  ∀ (ss : List Src) (o : Int), P.wfs (lower ss) = true → decompileFlow (rawEv o (lower ss)) = .ok (tgtL o ss)

/-- **C03_partial for the exit-free fragment, on the model.**  For every source skeleton `ss` of the class, laid out from any
    address `o`: running the opcode loop's control-flow events through `JumpOpcode.process`, then `condition_detect`, then
    `loop_detect` yields exactly the source nesting `tgtL o ss` — every construct with its condition / loop variable / start
    value / sign, nested as in the source. -/
theorem C03_partial_exit_free (ss : List Src) (o : Int) (h : Src.oks none o ss = true) :
    decompileFlow (rawEv o (lower ss)) = .ok (tgtL o ss) :=
  decompileFlow_lower ss o h

/-- the same as a statement about the model's `parse_opcodes`: if the opcode loop leaves the statement list of a compiled
    skeleton of the class, the handler's final statements are the source nesting -/
theorem parseOpcodes_reconstructs (ctx : Ctx) (d : Bytes) (r : FrbRec) (regs regs' : Regs) (bpc : Nat) (tell : Bool) (st' : PState)
    (ss : List Src) (o : Int)
    (h1 : opcodeLoop ctx d r.bcOff r.bcLen r.bcOff regs { bpc := bpc, tell := tell, gvars := r.globals } = .ok (regs', st'))
    (h2 : st'.stmts = emit false o (lower ss)) (h : Src.oks none o ss = true) :
    parseOpcodes ctx d r regs bpc tell = .ok (regs', { st' with stmts := tgtL o ss }) :=
  Drx.LinkFlow.parseOpcodes_reconstructs ctx d r regs regs' bpc tell st' ss o h1 h2 h

/-- every simple statement exactly once and in order … -/
theorem statements_once_in_order (ss : List Src) (o : Int) (h : Src.oks none o ss = true) :
    stmtCodesL (tgtL o ss) = Src.codes ss :=
  codes_tgtL ss none o h

/-- … and none of them is a raw `jz` / `jump` (nor an un-nested if / repeat) -/
theorem no_raw_jump_left (ss : List Src) (o : Int) (h : Src.oks none o ss = true) :
    ∀ c ∈ stmtCodesL (tgtL o ss), c.cls ≠ .jz ∧ c.cls ≠ .jump := by
  rw [codes_tgtL ss none o h]
  intro c hc
  have := simpleCode_spec (codes_simple ss none o h c hc)
  exact ⟨this.1, this.2.1⟩

/-- membership in the class is `decide`-able; a sufficient syntactic condition for a `repeat while` (the only construct with a
    non-structural side condition): it is first in its list or the statement before it is not a binary (assignment-like)
    operation, and the left operand of its condition is not a constant -/
theorem while_in_class (prev : Option Node) (o : Int) (csz : Nat) (cond : Node) (body : List Src)
    (hb : Src.oks none (o + csz + 3) body = true)
    (hprev : prev = none ∨ ∃ p c, prev = some (.stmt p c) ∧ c.cls ≠ .binary)
    (hcond : ∀ op p l rr, cond = .binary op p l rr → l.cls ≠ .leaf .const) :
    (Src.loop .while_ csz cond body).ok prev o = true :=
  Drx.LinkFlow.while_in_class prev o csz cond body hb hprev hcond

/-! ### the two halves, on the statement-level skeleton `P` -/

/-- `condition_detect`: any well-formed skeleton (ifs in ifs, if-else in else, loops in loops, loops in ifs, empty then-branches,
    constructs first / last / sole in a body) -/
theorem condition_detect_reconstructs (ps : List P) (o : Int) (h : P.wfs ps = true) :
    condDetect (emit false o ps) = .ok (tgtC o ps) := by
  unfold condDetect
  have := mainAt ps false (cdDepthL (emit false o ps)) o none [] [] [] h (by rw [emit_depth o ps h]; exact Nat.le_refl _)
    HdrOK.none (Or.inl rfl) (fun e he => by cases he)
  simpa using this

/-- … in full generality (the induction hypothesis): any depth bound, inside a loop (`roEnd = some e`, header jump in front) or not,
    with or without the else jump that ends a then-branch, loop bodies raw (`ld = false`) or already visited (`ld = true`) -/
theorem condition_detect_general (ps : List P) : MainAt ps := mainAt ps

/-- `loop_detect` on the output of `condition_detect` -/
theorem loop_detect_reconstructs (ss : List Src) (o : Int) (h : Src.oks none o ss = true) :
    loopDetect (tgtC o (lower ss)) = .ok (tgtL o ss) :=
  loopDetect_tgtC ss o h

/-- `JumpOpcode.process` on the event stream: the opcode loop leaves `emit false o ps` -/
theorem events_give_emit (ps : List P) (o : Int) (h : P.wfs ps = true) : runEv [] (rawEv o ps) = .ok (emit false o ps) :=
  runEv_rawEv ps o h

/-! ## F1: per-construct lemmas with abstract bodies -/

/-- back jump: the statements at or after the target become the body of a `repeat while TRUE` -/
theorem F1_jumpBack (done B : List Node) (index : Int) (op1 : Nat) (s : Int) (hs : index - op1 = s)
    (hd : AllS (fun p _ => p < s) done) (hB : AllS (fun p _ => s ≤ p) B) :
    jumpBack (done ++ B) index op1 = .ok (done ++ [.stmt index (rawLoop s index B)]) :=
  jumpBack_split done B index op1 s hs hd hB

/-- one `if` (no else), body = whatever the recursive call returns (`ifl`) -/
theorem F1_if (d n : Nat) (opos : Int) (cond : Node) (addr : Int) (r : Option Int) (rest stmts s1 coll s2 ifl : List Node)
    (lp : Int) (lc : Node) (hx : inLoop r addr)
    (h1 : ifScan (.jz opos cond addr) (.ifThen opos cond [] []) opos addr stmts = .ok (s1, coll))
    (h2 : pyRemoveAll s1 coll = .ok s2) (h3 : breakDetect coll r = .ok coll) (h4 : coll.length < n)
    (h5 : condDetectD d coll r = .ok ifl) (hne : ifl.isEmpty = false) (h6 : pyGet ifl (-1) = .ok (.stmt lp lc))
    (h7 : lc.cls ≠ .jump) :
    condJzs d n (.jz opos cond addr :: rest) stmts r = condJzs d n rest (finalizeIf opos (.ifThen opos cond ifl []) s2) r :=
  condJzs_if d n opos cond addr r rest stmts s1 coll s2 ifl lp lc hx h1 h2 h3 h4 h5 hne h6 h7

/-- one `if … else`, bodies = whatever the recursive calls return (`ifl` ending in the else jump, `el`) -/
theorem F1_if_else (d n : Nat) (opos : Int) (cond : Node) (addr : Int) (r : Option Int)
    (rest stmts s1 coll s2 ifl s3 el : List Node) (lp jpos jaddr : Int) (hx : inLoop r addr)
    (h1 : ifScan (.jz opos cond addr) (.ifThen opos cond [] []) opos addr stmts = .ok (s1, coll))
    (h2 : pyRemoveAll s1 coll = .ok s2) (h3 : breakDetect coll r = .ok coll) (h4 : coll.length < n)
    (h5 : condDetectD d coll r = .ok ifl) (hne : ifl.isEmpty = false) (h6 : pyGet ifl (-1) = .ok (.stmt lp (.jump jpos jaddr)))
    (hxe : inLoop r jaddr) (h8 : pyRemoveAll s2 (elseScan jpos jaddr s2) = .ok s3)
    (h9 : breakDetect (elseScan jpos jaddr s2) r = .ok (elseScan jpos jaddr s2)) (h10 : (elseScan jpos jaddr s2).length < n)
    (h11 : condDetectD d (elseScan jpos jaddr s2) r = .ok el) :
    condJzs d n (.jz opos cond addr :: rest) stmts r =
      condJzs d n rest (finalizeIf opos (.ifThen opos cond ifl.dropLast el) s3) r :=
  condJzs_ifelse d n opos cond addr r rest stmts s1 coll s2 ifl s3 el lp jpos jaddr hx h1 h2 h3 h4 h5 hne h6 hxe h8 h9 h10 h11

/-- the range scans on a list given by position ranges: exactly the statements in `[opos, addr)` are collected -/
theorem F1_if_range (op ph : Node) (start stop : Int) (A X R : List Node) (pos : Int) (code : Node)
    (hA : AllS (fun p c => c.pyEq op = false ∧ p < start ∧ p < stop) A) (hc : code.pyEq op = true)
    (hX : AllS (fun p c => c.pyEq op = false ∧ start ≤ p ∧ p < stop) X)
    (hR : R = [] ∨ ∃ p c R', R = .stmt p c :: R' ∧ c.pyEq op = false ∧ stop ≤ p) :
    ifScan op ph start stop (A ++ .stmt pos code :: (X ++ R)) = .ok (A ++ .stmt pos ph :: (X ++ R), X) :=
  ifScan_split op ph start stop A X R pos code hA hc hX hR

/-- one `repeat while`, body `Y` abstract: header `if not cond then exit repeat` becomes the condition -/
theorem F1_repeat_while (s idx pj : Int) (c0 cond : Node) (Y : List Node) (t : Str) (st : Node) (v : Name) (sg : Str) (lv : Node)
    (prev : Option Node) (hW : isRepeatWith (roOf cond Y) prev = .ok false) (hI : isRepeatWithIn (roOf cond Y) = .ok false) :
    rewriteRepeat ⟨s, idx, c0, exitIf pj cond :: Y, t, st, v, sg, lv⟩ prev = .ok (⟨s, idx, cond, Y, t, st, v, sg, lv⟩, false) :=
  rewriteRepeat_while s idx pj c0 cond Y t st v sg lv prev hW hI

/-- one `repeat with` (up: sign `+`, down: sign `-`), body `X` abstract: start value, variable and sign come from `withParts` -/
theorem F1_repeat_with (s idx pj : Int) (c0 cond : Node) (X : List Node) (t : Str) (st : Node) (v : Name) (sg0 : Str) (lv : Node)
    (pp ip : Int) (pre incr pl pr : Node) (vn : Name) (sg : Str) (h : withParts cond pre incr = some (pl, pr, vn, sg))
    (hI : isRepeatWithIn (roOf cond X) = .ok false) :
    rewriteRepeat ⟨s, idx, c0, exitIf pj cond :: (X ++ [.stmt ip incr]), t, st, v, sg0, lv⟩ (some (.stmt pp pre)) =
      .ok (⟨s, idx, cond, X, S "for", pr, vn, sg, pl⟩, true) :=
  rewriteRepeat_with s idx pj c0 cond X t st v sg0 lv pp ip pre incr pl pr vn sg h hI

/-- one `repeat with … in`, body `X` abstract -/
theorem F1_repeat_in (s idx pj : Int) (c0 cond : Node) (X : List Node) (t : Str) (st : Node) (v : Name) (sg0 : Str) (lv : Node)
    (bpp : Int) (bpc start fl : Node) (vn : Name) (prev : Option Node) (h : inParts cond bpc = some (start, vn, fl))
    (hW : isRepeatWith (roOf cond (.stmt bpp bpc :: X)) prev = .ok false) :
    rewriteRepeat ⟨s, idx, c0, exitIf pj cond :: (.stmt bpp bpc :: X), t, st, v, sg0, lv⟩ prev =
      .ok (⟨s, idx, cond, X, S "for_in", start, vn, sg0, fl⟩, false) :=
  rewriteRepeat_in s idx pj c0 cond X t st v sg0 lv bpp bpc start fl vn prev h hW

/-! ## F4 (`exit repeat`), restricted class: one `if c then …; exit repeat end if` directly in a loop body, no `if` behind it -/

/-- **reconstruction with exit repeat.**  `SrcX` = source skeletons whose loops may contain, directly in their body, one
    `if c2 then t; exit repeat end if` (`loopX h csz cond b1 csz2 cond2 t b2`; loops nest arbitrarily, also inside `b1`, `t`, `b2`);
    class `SrcX.oks o ss` (decidable) = the lowered skeleton is well-formed — in particular NO `if` directly behind the if-exit in the
    same body (finding F24) — and the exit-free skeleton `convX o ss` (the exit as last statement of the then-branch) is in the
    class of `C03_partial_exit_free`.  Then the passes yield the nesting of `convX o ss`: the loop with its header, the `if` with
    `exit repeat` as its last statement, everything else once and in order.  Covers the shape of the repository's fixtures
    (`repeat … / if c then … exit repeat / … / end repeat`); not covered: exit inside nested ifs, in else branches, with an else,
    or the early-conversion route of `break_detect` (F25 / F126 neighbourhood of `C03Supported`). -/
theorem C03_partial_with_exit (ss : List SrcX) (o : Int) (h : SrcX.oks o ss = true) :
    decompileFlow (rawEv o (lowerX ss)) = .ok (tgtL o (convX o ss)) :=
  reconstructX ss o h

/-- `condition_detect` alone, on every well-formed statement-level skeleton including `P.loopX` -/
theorem condition_detect_with_exit (ps : List P) (o : Int) (h : P.wfs ps = true) : condDetect (emit false o ps) = .ok (tgtC o ps) :=
  condDetect_emit ps o h

/-- the body of a loop with an if-exit (the new case of the induction): header jump, ifs in front, the if-exit, the rest -/
theorem F4_loop_body (k : Nat) (IH : ∀ ps, P.weights ps < k → MainAt ps) (d' : Nat) (b1 t b2 : List P) (csz2 : Nat) (cond cond2 : Node)
    (pj o1 idx a0 X : Int) (hw1 : P.weights b1 < k) (hwt : P.weights t < k) (hwf1 : P.wfs b1 = true) (hwft : P.wfs t = true)
    (hwf2 : P.wfs b2 = true) (hno : P.noIfs b2 = true) (hd1 : P.depths b1 ≤ d') (hdt : P.depths t ≤ d')
    (hpj : pj < o1) (hidx : o1 + P.sizes b1 + csz2 + 3 + P.sizes t + 3 + P.sizes b2 ≤ idx) (ha0 : idx < a0) (hX : idx < X)
    (hm1 : (emit false o1 b1).mapM (repStep d' (some idx)) = .ok (emit true o1 b1))
    (hm2 : (emit false (o1 + P.sizes b1 + csz2 + 3) t).mapM (repStep d' (some idx)) = .ok (emit true (o1 + P.sizes b1 + csz2 + 3) t))
    (hm3 : (emit false (o1 + P.sizes b1 + csz2 + 3 + P.sizes t + 3) b2).mapM (repStep d' (some idx)) =
      .ok (emit true (o1 + P.sizes b1 + csz2 + 3 + P.sizes t + 3) b2)) :
    condDetectD d' (jzStmt pj cond a0 :: (emit false o1 b1 ++ jzStmt (o1 + P.sizes b1 + csz2) cond2 (o1 + P.sizes b1 + csz2 + 3 + P.sizes t + 3) ::
        (emit false (o1 + P.sizes b1 + csz2 + 3) t ++ jumpStmt (o1 + P.sizes b1 + csz2 + 3 + P.sizes t) X ::
          emit false (o1 + P.sizes b1 + csz2 + 3 + P.sizes t + 3) b2))) (some idx) =
      .ok (exitIf pj cond :: (tgtC o1 b1 ++ Node.stmt (o1 + P.sizes b1 + csz2) (.ifThen (o1 + P.sizes b1 + csz2) cond2
        (tgtC (o1 + P.sizes b1 + csz2 + 3) t ++ [exitRepeatStmt (o1 + P.sizes b1 + csz2 + 3 + P.sizes t)]) []) ::
        tgtC (o1 + P.sizes b1 + csz2 + 3 + P.sizes t + 3) b2)) :=
  bodyX k IH d' b1 t b2 csz2 cond cond2 pj o1 idx a0 X hw1 hwt hwf1 hwft hwf2 hno hd1 hdt hpj hidx ha0 hX hm1 hm2 hm3

/-! ### the two per-construct step lemmas for exits -/

/-- `if c then …; exit repeat end if` (exit last in a then-branch without else): the reconstructed if-list `ifl` ends with a jump
    leaving the loop, which becomes the `exit repeat` statement -/
theorem F4_step_exit_in_then (d n : Nat) (opos : Int) (cond : Node) (addr e : Int) (rest stmts s1 coll s2 ifl : List Node)
    (lp jpos jaddr : Int) (hx : addr ≤ e)
    (h1 : ifScan (.jz opos cond addr) (.ifThen opos cond [] []) opos addr stmts = .ok (s1, coll))
    (h2 : pyRemoveAll s1 coll = .ok s2) (h3 : breakDetect coll (some e) = .ok coll) (h4 : coll.length < n)
    (h5 : condDetectD d coll (some e) = .ok ifl) (hne : ifl.isEmpty = false)
    (h6 : pyGet ifl (-1) = .ok (.stmt lp (.jump jpos jaddr))) (hxe : e < jaddr) :
    condJzs d n (.jz opos cond addr :: rest) stmts (some e) =
      condJzs d n rest (finalizeIf opos (.ifThen opos cond (ifl.dropLast ++ [exitRepeatStmt jpos]) []) s2) (some e) :=
  condJzs_if_exit d n opos cond addr e rest stmts s1 coll s2 ifl lp jpos jaddr hx h1 h2 h3 h4 h5 hne h6 hxe

/-- `break_detect_in_statements`: an exit jump that is the second-to-last statement of a branch list is converted first -/
theorem F4_step_break_detect (init : List Node) (p jp ja : Int) (last : Node) (e : Int) (h : e < ja) :
    breakDetect (init ++ [.stmt p (.jump jp ja), last]) (some e) = .ok (init ++ [exitRepeatStmt jp, last]) :=
  breakDetect_convert init p jp ja last e h

/-! ## F2: the scan's bookkeeping over a list level -/

/-- the first loop of `condition_detect_in_statements` (`address`, `previous_st`, `in_else`) over the raw list of ANY well-formed
    skeleton collects exactly the jz operations of the ifs of that level, in order, whatever is nested inside them -/
theorem F2_scan (r : Option Int) (ps : List P) (o : Int) (s : ScanSt) (h : P.wfs ps = true) (hr : RB r (o + P.sizes ps))
    (hs : Neutral s o) : ∃ s', (emit true o ps).foldlM (scanStep r) s = .ok s' ∧ Neutral s' (o + P.sizes ps) ∧
      s'.jzs = s.jzs ++ jzsOf o ps :=
  scan_emit r ps o s h hr hs

/-- loop bodies are scanned once per enclosing `if`: on a reconstructed list the pass is the identity -/
theorem F2_rescan (d : Nat) (l : List Node) (r : Option Int) (h : CleanL d l) : condDetectD d l r = .ok l := clean_id d l r h

/-! ## the three control-flow instructions of the stack machine are the events -/

theorem stack_machine_events :
    (Gen.Opcodes.opcodes.lookup 0x93).map (·.impl) = some "FowardJumpOpcode" ∧
    (Gen.Opcodes.opcodes.lookup 0x95).map (·.impl) = some "ConditionalJumpOpcode" ∧
    (Gen.Opcodes.opcodes.lookup 0x54).map (·.impl) = some "JumpOpcode" := opcode_classes

/-! ## the positions and addresses of the events are those of `Spec.layoutStmts` -/

/-- `Abs cs ps`: `ps` is a statement-level view of the jump-free, exit-free control skeleton `cs` (same fragment sizes; a code
    fragment may be cut into any number of simple statements / statement-less pieces).  Then the laid-out code has the same size, … -/
theorem layout_size {cs : List Spec.CStmt} {ps : List P} (h : Abs cs ps) (te : Option Nat) :
    Spec.codeSize (Spec.layoutStmts te cs) = P.sizes ps := by
  rw [Spec.layoutStmts_size, abs_sizes h]

/-- … its forward jumps `95` / `93` (own address, target = own address + operand) are exactly the jz / jump statements of the
    event stream, in order, … -/
theorem layout_forward_jumps {cs : List Spec.CStmt} {ps : List P} (h : Abs cs ps) (te : Option Nat) (o : Nat) :
    (Spec.fwdJumps (Spec.layoutStmts te cs) o).map castP = evFwd (rawEv (o : Int) ps) :=
  abs_fwdJumps h te o

/-- … and its back jumps `54` (own address, target = own address − operand) exactly the back-jump events -/
theorem layout_back_jumps {cs : List Spec.CStmt} {ps : List P} (h : Abs cs ps) (te : Option Nat) (o : Nat) :
    (Spec.backJumps (Spec.layoutStmts te cs) o).map castP = evBack (rawEv (o : Int) ps) :=
  abs_backJumps h te o

/-! ## non-vacuity: a concrete nesting of depth four inside the class -/

private def cst (s : String) : Node := .leaf .const (.s (S s)) 0
private def lv (s : String) : Node := .leaf .localVar (.s (S s)) 0
private def putN (n : String) : Smp :=
  ⟨6, 4, .callFn (.s (S "put")) 0 (.loadList (S "arglist") 0 [cst n]) true false false .none⟩
private def cnd (n : String) : Node := .binary (S "lt") 0 (lv "c") (cst n)
private def preI : Smp := ⟨4, 2, .binary (S "assign") 0 (lv "i") (cst "1")⟩
private def incrI : Smp := ⟨7, 5, .binary (S "assign") 0 (lv "i") (.binary (S "add") 0 (cst "1") (lv "i"))⟩
private def condI : Node := .binary (S "lte") 0 (lv "i") (cst "9")
private def listL : Node := .loadList (S "list") 0 [cst "2", cst "1"]
private def condIn : Node :=
  .binary (S "lte") 0 (cst "1") (.callFn (.s (S "count")) 0 (.loadList (S "<arglist>") 0 [listL]) true false false .none)
private def bpIn : Smp :=
  ⟨10, 8, .binary (S "assign") 0 (lv "v") (.callFn (.s (S "getAt")) 0 (.loadList (S "<arglist>") 0 [cst "1", listL]) true false false .none)⟩

/-- `put 1 / repeat while c<2 / if c<3 then / repeat with i = 1 to 9 / put 4 / if c<5 then put 6 / end repeat / else put 7 /
     end if / put 8 / end repeat / repeat with v in [1,2] / put 9 / end repeat` -/
def example4 : List Src :=
  [ .simple (putN "1"),
    .loop .while_ 5 (cnd "2")
      [ .ifThen 5 (cnd "3")
          [ .loop (.with_ preI incrI) 5 condI [ .simple (putN "4"), .ifThen 5 (cnd "5") [ .simple (putN "6") ] [] ] ]
          [ .simple (putN "7") ],
        .simple (putN "8") ],
    .loop (.in_ 12 bpIn 3 2) 5 condIn [ .simple (putN "9") ] ]

/-- it is in the class (kernel evaluation of the decidable predicate) … -/
theorem example4_in_class : Src.oks none 92 example4 = true := by decide +kernel

/-- … so the theorem applies to it: 18 events, of which 3 back jumps, become 3 top-level statements with 6 simple statements -/
example : decompileFlow (rawEv 92 (lower example4)) = .ok (tgtL 92 example4) :=
  C03_partial_exit_free example4 92 example4_in_class
example : (rawEv 92 (lower example4)).length = 18 ∧ (tgtL 92 example4).length = 3 ∧ (Src.codes example4).length = 6 := by
  decide +kernel
example : P.wfs (lower example4) = true ∧ P.depths (lower example4) = 2 := by decide +kernel

/-- an if with an EMPTY then-branch (F133, repaired) is in the class of `condition_detect_reconstructs` -/
example : P.wfs [.ifThen 5 (cnd "2") [] [], .simple (putN "1")] = true := by decide +kernel

/-- non-vacuity of `Abs`: `repeat while c / if c then put 1 / put 2 / end repeat / put 3` as a control skeleton and its view -/
example : Abs
    [.loop [] [.op2 0x4c 0] [] [.ifThen [.op2 0x4c 6] [.code [.op2 0x41 1, .op2 0x42 1, .op2 0x57 0]] [],
        .code [.op2 0x41 2, .op2 0x42 1, .op2 0x57 0]] [] [], .code [.op2 0x41 3, .op2 0x42 1, .op2 0x57 0]]
    [.loop 2 (cnd "2") [.ifThen 2 (cnd "3") [.simple (putN "1")] [], .simple (putN "2")], .simple (putN "3")] := by
  have nj : ∀ n, Spec.NoJump [.op2 0x41 n, .op2 0x42 1, .op2 0x57 0] := by
    intro n i hi; simp at hi; rcases hi with rfl | rfl | rfl <;> rfl
  have nc : ∀ n, Spec.NoJump [.op2 0x4c n] := by intro n i hi; simp at hi; subst hi; rfl
  have fr : ∀ n s, Frag [.op2 0x41 n, .op2 0x42 1, .op2 0x57 0] [.simple (putN s)] := by
    intro n s
    refine ⟨nj n, by simp [P.sizes, P.size, putN, Spec.codeSize, Spec.Instr.size], ?_⟩
    intro x hx; simp at hx; subst hx; rfl
  have f0 : Frag [] [] := ⟨(fun i hi => by cases hi), rfl, (fun x hx => by cases hx)⟩
  have a1 : Abs [.code [.op2 0x41 1, .op2 0x42 1, .op2 0x57 0]] [.simple (putN "1")] :=
    Abs.code _ [.simple (putN "1")] [] [] (fr 1 "1") (by simp) Abs.nil
  have a2 : Abs [.code [.op2 0x41 2, .op2 0x42 1, .op2 0x57 0]] [.simple (putN "2")] :=
    Abs.code _ [.simple (putN "2")] [] [] (fr 2 "2") (by simp) Abs.nil
  have a3 : Abs [.code [.op2 0x41 3, .op2 0x42 1, .op2 0x57 0]] [.simple (putN "3")] :=
    Abs.code _ [.simple (putN "3")] [] [] (fr 3 "3") (by simp) Abs.nil
  have ai := Abs.ifThen [.op2 0x4c 6] (cnd "3") _ [] _ [] _ _ (nc 6) a1 Abs.nil a2
  exact Abs.loop [] [.op2 0x4c 0] [] _ [] [] (cnd "2") [] [] _ [] [] _ _ f0 (nc 0) f0 ai f0 f0 a3

/-! ### non-vacuity of the exit theorem -/

/-- `repeat while c<2 / put 1 / if c<3 then put 4; exit repeat end if / repeat with i = 1 to 9 / if c<5 then exit repeat end if /
     put 6 / end repeat / end repeat / put 7` : an exit loop nested behind the if-exit of an exit loop -/
def exampleX : List SrcX :=
  [ .loopX .while_ 5 (cnd "2") [ .simple (putN "1") ] 5 (cnd "3") [ .simple (putN "4") ]
      [ .loopX (.with_ preI incrI) 5 condI [] 5 (cnd "5") [] [ .simple (putN "6") ] ],
    .simple (putN "7") ]

theorem exampleX_in_class : SrcX.oks 92 exampleX = true := by decide +kernel

example : decompileFlow (rawEv 92 (lowerX exampleX)) = .ok (tgtL 92 (convX 92 exampleX)) :=
  C03_partial_with_exit exampleX 92 exampleX_in_class

example : (rawEv 92 (lowerX exampleX)).length = 14 ∧ (Src.codes (convX 92 exampleX)).length = 6 := by decide +kernel

/-- an `if` behind the if-exit in the same body (finding F24) is outside the class -/
example : SrcX.oks 92 [ .loopX .while_ 5 (cnd "2") [] 5 (cnd "3") [] [ .ifThen 5 (cnd "4") [ .simple (putN "1") ] [] ] ] = false := by
  decide +kernel

/-! ## the excluded coincidence -/

/-- `set i = 1 / repeat while i <= 9 / put 4 / set i = 1 + i / end repeat` -/
def whileLikeWith : List Src := [ .simple preI, .loop .while_ 5 condI [ .simple (putN "4"), .simple incrI ] ]
/-- `repeat with i = 1 to 9 / put 4 / end repeat` -/
def theWith : List Src := [ .loop (.with_ preI incrI) 5 condI [ .simple (putN "4") ] ]

/-- both lower to the same skeleton (for any fragments): the compile scheme is not injective here -/
theorem with_is_while (pre incr : Smp) (csz : Nat) (cond : Node) (body : List Src) :
    lower1 (.loop (.with_ pre incr) csz cond body) =
      lower1 (.simple pre) ++ lower1 (.loop .while_ csz cond (body ++ [.simple incr])) :=
  with_lowers_as_while pre incr csz cond body

/-- the `repeat while` form is outside the class, the `repeat with` form inside, its fragments are well-formed … -/
theorem witness_class : Src.oks none 92 whileLikeWith = false ∧ Src.oks none 92 theWith = true
    ∧ P.wfs (lower whileLikeWith) = true := by decide +kernel

/-- … and the model really returns the `repeat with` tree for the `repeat while` source: the full statement fails there -/
theorem full_witness : decompileFlow (rawEv 92 (lower whileLikeWith)) = .ok (tgtL 92 theWith)
    ∧ tgtL 92 theWith ≠ tgtL 92 whileLikeWith := by
  constructor
  · have h : lower whileLikeWith = lower theWith := by rfl
    rw [h]
    exact C03_partial_exit_free theWith 92 witness_class.2.1
  · intro h
    have : (tgtL 92 theWith).length = (tgtL 92 whileLikeWith).length := by rw [h]
    revert this
    decide +kernel

theorem C03Link_full_false : ¬ C03Link_full := by
  intro h
  have h1 := h whileLikeWith 92 witness_class.2.2
  rw [full_witness.1] at h1
  exact full_witness.2 (Except.ok.inj h1)

end DrxProps.C03Link
