import Drx.Vwsc
import Drx.VwscSpec
import DrxProofs.Py
namespace Drx.C08
open Drx Drx.Vwsc Drx.VwscLayout

/-- CHANNEL_PARSERS maps 20 to the Director-4 reader and 24 to the Director-5 reader, each with its own frame size -/
theorem channelParsers_spec :
    Gen.Score.channelParsers = [(20, "D4VwscChannelParser", 20), (24, "D5VwscChannelParser", 24)] := by decide

end Drx.C08
