/-
  C08 — score decoding applies frame deltas exactly, independent of how they are cut.
  Statements only; the proofs call DrxProofs/Vwsc*.lean.  Model: Drx/Vwsc.lean, Drx/VwscChannels.lean (+ generated
  Drx/Gen/ScoreLayouts.lean); spec objects and encoders: Drx/VwscSpec.lean.
-/
import Drx.Vwsc
import Drx.VwscSpec
import DrxProofs.Vwsc
import DrxProofs.VwscFields
import DrxProofs.VwscFrames
import DrxProofs.VwscSteps
namespace Drx.C08
open Drx Drx.Vwsc Drx.Vwsc.Spec Drx.VwscLayout

/-! ## the tie to the source: generated tables against the format -/

/-- CHANNEL_PARSERS maps 20 to the Director-4 reader and 24 to the Director-5 reader, each with its own frame size -/
theorem channelParsers_spec :
    Gen.Score.channelParsers = [(20, "D4VwscChannelParser", 20), (24, "D5VwscChannelParser", 24)] := by decide

/-- the six straight-line readers, as translated from the source on this run, read every byte of what they read exactly
    once, in increasing order (no gap, no overlap), and stay inside the frame -/
theorem layouts_tile :
    tiles Gen.Score.d4Main 0 20 = true ∧ tiles Gen.Score.d4Palette 0 18 = true ∧ tiles Gen.Score.d4Sprite 0 20 = true ∧
    tiles Gen.Score.d5Main 0 24 = true ∧ tiles Gen.Score.d5Palette 0 12 = true ∧ tiles Gen.Score.d5Sprite 0 24 = true := by
  decide

/-- offsets, widths and signedness of the fields that reach the output, against the format notes (20-byte layout) -/
theorem layout_d4_spec :
    Gen.Score.d4Sprite = [("spriteType", ⟨0, .s16, .raw⟩), ("foregroundColor", ⟨2, .u8, .raw⟩), ("backgroundColor", ⟨3, .u8, .raw⟩),
      ("flags", ⟨4, .u8, .raw⟩), ("ink_byte", ⟨5, .u8, .raw⟩), ("castId", ⟨6, .s16, .raw⟩), ("y", ⟨8, .s16, .raw⟩), ("x", ⟨10, .s16, .raw⟩),
      ("height", ⟨12, .s16, .raw⟩), ("width", ⟨14, .s16, .raw⟩), ("flag1", ⟨16, .s16, .raw⟩), ("flag2", ⟨18, .s16, .raw⟩)] ∧
    Gen.Score.d4Main_fps = ⟨4, .u8, .raw⟩ ∧ Gen.Score.d4Main_transition_id = ⟨5, .u8, .transition_name⟩ ∧
    Gen.Score.d4Main_sound1_cast = ⟨6, .s16, .raw⟩ ∧ Gen.Score.d4Main_sound2_cast = ⟨8, .s16, .raw⟩ ∧ Gen.Score.d4Main_script = ⟨16, .s16, .raw⟩ ∧
    Gen.Score.d4Palette_palette_id = ⟨0, .s16, .raw⟩ ∧ Gen.Score.d4Palette_cycles = ⟨8, .s16, .raw⟩ := by
  decide

/-- … and the 24-byte layout -/
theorem layout_d5_spec :
    Gen.Score.d5Sprite = [("unknown01", ⟨0, .u8, .raw⟩), ("ink_byte", ⟨1, .u8, .raw⟩), ("spriteType", ⟨2, .s16, .raw⟩), ("castId", ⟨4, .s16, .raw⟩),
      ("unknown02", ⟨6, .s16, .raw⟩), ("unknown03", ⟨8, .s16, .raw⟩), ("foregroundColor", ⟨10, .u8, .raw⟩), ("backgroundColor", ⟨11, .u8, .raw⟩),
      ("y", ⟨12, .s16, .raw⟩), ("x", ⟨14, .s16, .raw⟩), ("height", ⟨16, .s16, .raw⟩), ("width", ⟨18, .s16, .raw⟩), ("flag2", ⟨20, .s16, .raw⟩),
      ("flag1", ⟨22, .s16, .raw⟩)] ∧
    Gen.Score.d5Main_script = ⟨2, .s16, .raw⟩ ∧ Gen.Score.d5Main_sound1_cast = ⟨6, .s16, .raw⟩ ∧ Gen.Score.d5Main_sound2_cast = ⟨10, .s16, .raw⟩ ∧
    Gen.Score.d5Main_fps = ⟨20, .s16, .raw⟩ ∧ Gen.Score.d5Palette_palette_id = ⟨2, .s16, .raw⟩ ∧ Gen.Score.d5Palette_cycles = ⟨10, .s16, .raw⟩ := by
  decide

/-! ## decode = fold of the deltas -/

/-- **decode_is_fold** (data block). For every valid encoding — any layout, any channel count, any list of records, each
    `same` or any list of in-range non-empty byte ranges (overlapping, redundant, in any order) — the decoded frames are
    the fields of the successive channel states obtained by patching the zero buffer. -/
theorem decode_is_fold (f : ScoreFile) (h : f.Valid) :
    parseVwsc (serialise f) = expectedFrames f.lay (zeros f.bufSize) f.recs :=
  parseVwsc_serialise f h

/-- **decode_is_fold** through `parse_vwsc_file_data`: bare data block followed by any bytes, or wrapped in the DIR
    wrapper with any marker table and trailing bytes -/
theorem decode_is_fold_file (c : Container) (f : ScoreFile) (h : f.Valid) (hc : c.Valid (serialise f)) :
    parseVwscFile (c.apply (serialise f)) = expectedFrames f.lay (zeros f.bufSize) f.recs :=
  parseVwscFile_container c f h hc

/-- frame `k` (0-based) is the decoding of the zero buffer with the deltas of records `0..k` applied in order; a `same`
    record contributes no delta, so it repeats the previous frame — also in first position -/
theorem decode_frame_k (c : Container) (f : ScoreFile) (h : f.Valid) (hc : c.Valid (serialise f)) (frames : List Frame)
    (hp : parseVwscFile (c.apply (serialise f)) = .ok frames) (k : Nat) (hk : k < f.recs.length) :
    ∃ fr, frames[k]? = some fr ∧ parseChannels f.lay (applyAll (zeros f.bufSize) (f.recs.take (k + 1))) = .ok fr := by
  rw [decode_is_fold_file c f h hc, ← framesOf_eq_expected] at hp
  exact framesOf_getElem? f.lay _ f.recs frames hp k hk

/-- one frame per record -/
theorem decode_frame_count (c : Container) (f : ScoreFile) (h : f.Valid) (hc : c.Valid (serialise f)) (frames : List Frame)
    (hp : parseVwscFile (c.apply (serialise f)) = .ok frames) : frames.length = f.recs.length := by
  rw [decode_is_fold_file c f h hc, ← framesOf_eq_expected] at hp
  exact framesOf_length f.lay _ f.recs frames hp

/-- **encoding_independent**. Two valid encodings (different cuts, redundant ranges, overlaps, full rewrites, `same`
    versus explicit rewrites, different header words, wrapped or not) that denote the same buffer sequence decode to
    identical results. -/
theorem encoding_independent (c₁ c₂ : Container) (f₁ f₂ : ScoreFile) (h₁ : f₁.Valid) (h₂ : f₂.Valid)
    (hc₁ : c₁.Valid (serialise f₁)) (hc₂ : c₂.Valid (serialise f₂)) (hlay : f₁.lay = f₂.lay)
    (hseq : states (zeros f₁.bufSize) f₁.recs = states (zeros f₂.bufSize) f₂.recs) :
    parseVwscFile (c₁.apply (serialise f₁)) = parseVwscFile (c₂.apply (serialise f₂)) := by
  rw [decode_is_fold_file c₁ f₁ h₁ hc₁, decode_is_fold_file c₂ f₂ h₂ hc₂]
  unfold expectedFrames
  rw [hseq, hlay]

/-! ## fields -/

/-- **fields_roundtrip**, 20-byte layout: a channel buffer laid out as main ++ palette ++ sprites (any number of sprite
    channels, every field over its whole range) decodes to exactly the views of the records -/
theorem fields_roundtrip_d4 (fr : RawFrameD4) (h : fr.Valid) : parseChannels .d4 (encFrameD4 fr) = .ok (viewFrameD4 fr) :=
  parseChannels_d4 fr h

/-- **fields_roundtrip**, 24-byte layout -/
theorem fields_roundtrip_d5 (fr : RawFrameD5) (h : fr.Valid) : parseChannels .d5 (encFrameD5 fr) = .ok (viewFrameD5 fr) :=
  parseChannels_d5 fr h

/-- end to end, 20-byte layout: if the encoding denotes the buffers of the raw frames `raws`, the file decodes to their views -/
theorem decode_fields_d4 (c : Container) (f : ScoreFile) (h : f.Valid) (hc : c.Valid (serialise f)) (hl : f.lay = .d4)
    (raws : List RawFrameD4) (hr : ∀ r ∈ raws, r.Valid) (hseq : states (zeros f.bufSize) f.recs = raws.map encFrameD4) :
    parseVwscFile (c.apply (serialise f)) = .ok (raws.map viewFrameD4) := by
  rw [decode_is_fold_file c f h hc, ← framesOf_eq_expected, hl]
  -- decode each state: it is the layout of some valid raw frame
  have key : ∀ (raws : List RawFrameD4), (∀ r ∈ raws, r.Valid) → ∀ buf recs, states buf recs = raws.map encFrameD4 →
      framesOf .d4 buf recs = .ok (raws.map viewFrameD4) := by
    intro raws
    induction raws with
    | nil =>
      intro _ buf recs hs
      cases recs with
      | nil => rfl
      | cons r rs => simp [states] at hs
    | cons x xs ih =>
      intro hv buf recs hs
      cases recs with
      | nil => simp [states] at hs
      | cons r rs =>
        simp only [states, List.map_cons, List.cons.injEq] at hs
        obtain ⟨h1, h2⟩ := hs
        rw [h1] at h2
        simp only [framesOf, h1, parseChannels_d4 x (hv x (by simp)), List.map_cons]
        rw [ih (fun r hr' => hv r (by simp [hr'])) _ rs h2]
  exact key raws hr _ _ hseq

/-- end to end, 24-byte layout -/
theorem decode_fields_d5 (c : Container) (f : ScoreFile) (h : f.Valid) (hc : c.Valid (serialise f)) (hl : f.lay = .d5)
    (raws : List RawFrameD5) (hr : ∀ r ∈ raws, r.Valid) (hseq : states (zeros f.bufSize) f.recs = raws.map encFrameD5) :
    parseVwscFile (c.apply (serialise f)) = .ok (raws.map viewFrameD5) := by
  rw [decode_is_fold_file c f h hc, ← framesOf_eq_expected, hl]
  have key : ∀ (raws : List RawFrameD5), (∀ r ∈ raws, r.Valid) → ∀ buf recs, states buf recs = raws.map encFrameD5 →
      framesOf .d5 buf recs = .ok (raws.map viewFrameD5) := by
    intro raws
    induction raws with
    | nil =>
      intro _ buf recs hs
      cases recs with
      | nil => rfl
      | cons r rs => simp [states] at hs
    | cons x xs ih =>
      intro hv buf recs hs
      cases recs with
      | nil => simp [states] at hs
      | cons r rs =>
        simp only [states, List.map_cons, List.cons.injEq] at hs
        obtain ⟨h1, h2⟩ := hs
        rw [h1] at h2
        simp only [framesOf, h1, parseChannels_d5 x (hv x (by simp)), List.map_cons]
        rw [ih (fun r hr' => hv r (by simp [hr'])) _ rs h2]
  exact key raws hr _ _ hseq

/-! ## termination and work of the record loop (used by the C10 check through `drx_score steps`) -/

/-- The model of the record loop is defined without fuel (Lean accepts `recLoop` only with the proof that every record
    advances the index, which needs sizes >= 2: F35). On ANY byte string its counting twin makes at most one iteration per
    two input bytes. -/
theorem record_loop_bounded (d : Bytes) : (parseVwscSteps d).1.records ≤ d.length / 2 :=
  parseVwscSteps_records_le d

/-- the twin counts the loop that builds the result: on success its record count is the number of frames returned -/
theorem steps_twin_counts_frames (d : Bytes) (frames : List Frame) (h : parseVwsc d = .ok frames) :
    (parseVwscSteps d).1.records = frames.length :=
  parseVwscSteps_records_eq d frames h

/-! ## the hypotheses are satisfiable on non-trivial objects -/

/-- a 3-channel 20-byte score: leading `same`, overlapping + redundant ranges, `same` in the middle, a range ending at the last byte -/
def exFile : ScoreFile :=
  ⟨.d4, 3, 4, 0, -1, [.same, .deltas [(0, [0, 0, 0, 0, 12]), (3, [9, 9]), (46, [0, 7]), (4, [12])], .same, .deltas [(59, [255])]]⟩

/-- the same buffer sequence, cut differently: full rewrites and no `same` record -/
def exFile' : ScoreFile :=
  ⟨.d4, 3, 0, 5, 5, [.deltas [(7, [0])], .deltas [(0, applyAll (zeros 60) (exFile.recs.take 2))], .deltas [(4, [12]), (47, [7])],
    .deltas [(58, [0, 255])]]⟩

def exWrapper : Wrapper := ⟨0, 1, 2, 3, [10, 20], [1, 2, 3]⟩

example : exFile.Valid := by decide
example : exFile'.Valid := by decide
example : (Container.wrapped exWrapper).Valid (serialise exFile) := by decide
example : states (zeros exFile.bufSize) exFile.recs = states (zeros exFile'.bufSize) exFile'.recs := by decide
example : exFile.recs ≠ exFile'.recs := by decide

/-- so the two files decode identically, one wrapped and one bare with trailing bytes -/
example : parseVwscFile ((Container.wrapped exWrapper).apply (serialise exFile)) = parseVwscFile ((Container.bare [1, 2]).apply (serialise exFile')) :=
  encoding_independent _ _ exFile exFile' (by decide) (by decide) (by decide) trivial rfl (by decide)

def exSprite : RawSpriteD4 := ⟨16, 255, 0, 128, 0x48, 7, -1, 300, 32767, -32768, 0xFFFF, 0xC000⟩
def exFrame : RawFrameD4 :=
  ⟨⟨0, 0x85, 4, 12, 23, 7, 0, 0, 0, 0, 96, 0⟩, ⟨-101, 0, 0xA0, 30, 0, 5, 0, 0, 0, 0, 1, 2⟩, [exSprite, ⟨0, 0, 0, 0, 0, 0, 0, 0, 0, 0, 0, 0⟩]⟩

example : exFrame.Valid := by
  refine ⟨by decide, by decide, ?_⟩
  intro s hs
  simp only [exFrame, List.mem_cons, List.not_mem_nil, or_false] at hs
  rcases hs with rfl | rfl <;> decide

/-- the trails bit (bit 6 of the ink byte 0x48) and both flag bits are reported; the empty channel is reported empty -/
example : (viewFrameD4 exFrame).score.map (Option.map fun s => (s.inkType, s.trails, s.moveable, s.editable)) = [some (8, 1, true, true), none] := by
  decide

end Drx.C08
