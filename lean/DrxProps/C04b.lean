/-
  C04 (second part) — the text gap on the JavaScript side: rendering a token list of the JavaScript subset and lexing it again is
  the identity, the JavaScript printer's token lists are hazard-free, and so a printed expression reads back from its TEXT.
-/
import DrxProps.C04
import DrxProofs.SpecJsLex
namespace DrxProps.C04b
open Drx Drx.Spec

/-- rendering then lexing is the identity on hazard-free JavaScript token lists (`safeJToks`, decidable: identifiers are
    identifiers, string literals need no escape; every token is followed by a space, so no two tokens fuse) -/
theorem js_lex_render (ts : List JTok) (h : safeJToks ts = true) : lexJs (renderJToks ts) = some ts := lexJs_render ts h

/-- the printer's token lists are hazard-free for every tree whose names are identifiers and whose strings need no escape -/
theorem js_printer_is_hazard_free (e : JE) (h : okJ e = true) : safeJToks (prJ e) = true := prJ_safe e h

/-- the expression reader's fuel (24 per token) covers every printed expression -/
theorem js_fuel_bound (e : JE) : jfuel e ≤ 24 * (prJ e).length := jfuel_bound e

/-- **JavaScript expressions read back from text**: print, render to characters, read -/
theorem js_read_print_text (e : JE) (hf : JFrag e) (hs : okJ e = true) : readJsExpr (renderJToks (prJ e)) = some e := by
  unfold readJsExpr
  rw [lexJs_prJ e hs]
  have hb := jfuel_bound e
  have := C04.js_read_print_expr_whole e hf (24 * (prJ e).length + 16) (by omega)
  simp [this]

end DrxProps.C04b
