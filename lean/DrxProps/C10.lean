/-
  C10 — Every decoder terminates with work bounded by the size of its input.
  Lean side: (1) every loop of every model is defined WITHOUT fuel, so Lean's acceptance of the definitions
  (structural or well-founded recursion with the progress fact as the `decreasing_by` obligation) is itself the
  termination proof on every byte string; (2) counting twins give explicit iteration bounds.
  The real code's line counts and allocations are measured by harness/c10.py.
-/
import Drx.Riff
import DrxProofs.Riff
namespace Drx.C10
open Drx Drx.Riff

/-- the container walk makes at most one iteration per 8 bytes that remain, on ANY byte string -/
theorem walk_steps_linear (d : Bytes) (o : Order) (i : Nat) : 8 * walkSteps d o i ≤ (d.length - i) + 7 := by
  fun_induction walkSteps d o i with
  | case1 i h c hc =>  -- error inside the loop: one iteration
    omega
  | case2 i h c hc ih =>
    omega
  | case3 i h => omega

theorem parseRiff_steps_linear (d : Bytes) (off : Nat) (o : Order) : 8 * parseRiffSteps d off o ≤ d.length + 7 := by
  unfold parseRiffSteps
  split
  · omega
  · split
    · omega
    · split
      · omega
      · split
        · omega
        · split
          · omega
          · have := walk_steps_linear d o (off + 12); omega

end Drx.C10
