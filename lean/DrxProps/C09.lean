/-
  C09 — score timeline spans reproduce the per-frame table without loss.
  Statements only; proofs in DrxProofs/Score.lean.  Model: Drx/Score.lean (`vwscToScore`, exactly the two passes of
  vwsc.py vwsc_to_score); vocabulary of the statements: Drx/ScoreSpec.lean (`IsRunView` = ordered ∧ disjoint ∧ in range ∧
  covers every carrying cell exactly once with equal key and no empty cell ∧ maximal).
-/
import Drx.Score
import Drx.ScoreSpec
import DrxProofs.Score
import DrxProofs.VwscRect
namespace Drx.C09
open Drx Drx.Vwsc Drx.Score Drx.Score.Spec

/-- does span `sp` contain frame `f` (1-based)? -/
def spanCovers (f : Nat) (sp : Span) : Bool := decide (sp.startFrame ≤ f) && decide (f ≤ sp.endFrame)

/-! ## the conversion is total on decoded tables and keeps the table's dimensions -/

theorem total (frames : List Frame) (hr : Rectangular frames) :
    ∃ sc, vwscToScore frames = .ok sc ∧ sc.lastFrame = frames.length ∧ sc.lastChannel = channelsOf frames ∧
      sc.sprite.length = channelsOf frames ∧ sc.events = pass1 0 frames {} := by
  have hr' : ∀ f ∈ frames, (List.replicate (channelsOf frames) ([] : List Span)).length ≤ f.score.length := by
    intro f hf; simp only [List.length_replicate]
    have := hr f hf
    cases frames with
    | nil => simp at hf
    | cons f0 fs => simp only [channelsOf] at *; omega
  obtain ⟨out, h1, h2, _⟩ := pass2_spec 0 frames _ hr'
  refine ⟨⟨channelsOf frames, frames.length, pass1 0 frames {}, out⟩, ?_, rfl, rfl, by simpa using h2, rfl⟩
  rw [vwscToScore_eq, h1]

/-! ## sprites: the spans of a channel are the run-length view of its column -/

/-- **the main theorem** (by induction over the frames, invariant `IsRunView`): for every decoded table, every channel's span
    list, read through (startFrame, endFrame, 12 attributes), is the ordered, disjoint, lossless, maximal run-length view
    of that channel's column of cells; and every span has a consistent rectangle and the channel's `locZ` -/
theorem sprite_view (frames : List Frame) (sc : Score) (h : vwscToScore frames = .ok sc) (hr : Rectangular frames)
    (j : Nat) (S : List Span) (hS : sc.sprite[j]? = some S) :
    IsRunView ((column frames j).map (Option.map spriteAttrs)) (S.map spanRun) ∧ ∀ sp ∈ S, RectOk j sp := by
  have hr' : ∀ f ∈ frames, (List.replicate (channelsOf frames) ([] : List Span)).length ≤ f.score.length := by
    intro f hf; simp only [List.length_replicate]
    have := hr f hf
    cases frames with
    | nil => simp at hf
    | cons f0 fs => simp only [channelsOf] at *; omega
  obtain ⟨out, h1, h2, h3⟩ := pass2_spec 0 frames _ hr'
  have hsc : sc.sprite = out := by
    rw [vwscToScore_eq, h1] at h; cases h; rfl
  rw [hsc] at hS
  have hj : j < channelsOf frames := by
    have := (List.getElem?_eq_some_iff.mp hS).1
    rw [h2] at this; simpa using this
  have hrep : (List.replicate (channelsOf frames) ([] : List Span))[j]? = some [] := by
    simp [hj]
  have := h3 j [] hrep
  rw [this] at hS
  cases hS
  refine ⟨?_, chanFold_rect j 0 _ [] (by simp)⟩
  rw [chanFold_run]
  exact foldRuns_spec _

/-- **cover**: a cell that holds a sprite lies in exactly one span of its channel, and that span's 12 attributes are the cell's -/
theorem cover (frames : List Frame) (sc : Score) (h : vwscToScore frames = .ok sc) (hr : Rectangular frames)
    (i j : Nat) (f : Frame) (s : Sprite) (S : List Span)
    (hf : frames[i]? = some f) (hs : f.score[j]? = some (some s)) (hS : sc.sprite[j]? = some S) :
    (S.filter (spanCovers (i + 1))).map spanAttrs = [spriteAttrs s] := by
  have hv := (sprite_view frames sc h hr j S hS).1
  have hc : ((column frames j).map (Option.map spriteAttrs))[i]? = some (some (spriteAttrs s)) := by
    simp [column, hf, hs]
  have := hv.cover i _ hc
  rw [List.filter_map, List.map_map] at this
  exact this

/-- **no_empty**: no span covers an empty cell -/
theorem no_empty (frames : List Frame) (sc : Score) (h : vwscToScore frames = .ok sc) (hr : Rectangular frames)
    (i j : Nat) (f : Frame) (S : List Span)
    (hf : frames[i]? = some f) (hs : f.score[j]? = some none) (hS : sc.sprite[j]? = some S) :
    S.filter (spanCovers (i + 1)) = [] := by
  have hv := (sprite_view frames sc h hr j S hS).1
  have hc : ((column frames j).map (Option.map spriteAttrs))[i]? = some none := by
    simp [column, hf, hs]
  have := hv.cover i _ hc
  rw [List.filter_map, List.map_map] at this
  exact List.map_eq_nil_iff.mp this

/-- **ordered_disjoint**: the spans of a channel are non-empty frame ranges inside the table, each ending before the next begins -/
theorem ordered_disjoint (frames : List Frame) (sc : Score) (h : vwscToScore frames = .ok sc) (hr : Rectangular frames)
    (j : Nat) (S : List Span) (hS : sc.sprite[j]? = some S) :
    S.Pairwise (fun a b => a.endFrame < b.startFrame) ∧
    ∀ sp ∈ S, 1 ≤ sp.startFrame ∧ sp.startFrame ≤ sp.endFrame ∧ sp.endFrame ≤ frames.length := by
  have hv := (sprite_view frames sc h hr j S hS).1
  refine ⟨List.pairwise_map.mp hv.ordered, ?_⟩
  intro sp hsp
  have := hv.bounds (spanRun sp) (List.mem_map_of_mem hsp)
  simpa [column, spanRun] using this

/-- **maximal**: two consecutive spans of a channel are never both adjacent in time and equal in all 12 attributes -/
theorem maximal (frames : List Frame) (sc : Score) (h : vwscToScore frames = .ok sc) (hr : Rectangular frames)
    (j : Nat) (S : List Span) (hS : sc.sprite[j]? = some S) (k : Nat) (a b : Span)
    (ha : S[k]? = some a) (hb : S[k + 1]? = some b) (hadj : a.endFrame + 1 = b.startFrame) : spanAttrs a ≠ spanAttrs b := by
  have hv := (sprite_view frames sc h hr j S hS).1
  exact maxAsc_index (S.map spanRun) hv.maximal k (spanRun a) (spanRun b) (by simp [ha]) (by simp [hb]) hadj

/-- **rect**: `right − left = width`, `bottom − top = height`, `left = locH − ⌊width/2⌋`, `top = locV − ⌊height/2⌋`, `locZ = j+1` -/
theorem rect (frames : List Frame) (sc : Score) (h : vwscToScore frames = .ok sc) (hr : Rectangular frames)
    (j : Nat) (S : List Span) (hS : sc.sprite[j]? = some S) : ∀ sp ∈ S, RectOk j sp :=
  (sprite_view frames sc h hr j S hS).2

/-! ## events -/

/-- **events** (point events): tempo, script, palette and transition entries are exactly the carrying frames, in frame
    order, with the frame's 1-based number and value -/
theorem events_exact (frames : List Frame) (sc : Score) (h : vwscToScore frames = .ok sc) :
    sc.events.tempo = eventsFrom tempoOf 0 frames ∧ sc.events.script = eventsFrom scriptOf 0 frames ∧
    sc.events.palette = eventsFrom paletteOf 0 frames ∧ sc.events.transition = eventsFrom transitionOf 0 frames := by
  have he : sc.events = pass1 0 frames {} := by
    rw [vwscToScore_eq] at h
    split at h
    · cases h
    · cases h; rfl
  rw [he]
  exact ⟨by simpa using pass1_tempo 0 frames {}, by simpa using pass1_script 0 frames {},
    by simpa using pass1_palette 0 frames {}, by simpa using pass1_transition 0 frames {}⟩

/-- **events** (sounds): each sound list is the run-length view of what the frames carry in that sound channel —
    consecutive identical sounds are merged, and only those -/
theorem sounds_view (frames : List Frame) (sc : Score) (h : vwscToScore frames = .ok sc) :
    IsRunView (frames.map sound1Of) (sc.events.sound1.map sndRun) ∧ IsRunView (frames.map sound2Of) (sc.events.sound2.map sndRun) := by
  have he : sc.events = pass1 0 frames {} := by
    rw [vwscToScore_eq] at h
    split at h
    · cases h
    · cases h; rfl
  rw [he, pass1_sound1, pass1_sound2]
  exact ⟨foldRuns_spec _, foldRuns_spec _⟩

/-! ## the hypothesis `Rectangular` holds for everything the decoder of C08 returns -/

/-- whatever bytes `parse_vwsc_file_data` accepts, the frames it returns all have the same number of channels (they are
    decodings of one persistent buffer whose length never changes) -/
theorem decoded_tables_rectangular (d : Bytes) (frames : List Frame) (h : parseVwscFile d = .ok frames) : Rectangular frames :=
  parseVwscFile_rectangular d frames h

/-- hence `vwsc_to_score ∘ parse_vwsc_file_data` never fails in the second stage, and every clause above applies to its result -/
theorem decoded_tables_convert (d : Bytes) (frames : List Frame) (h : parseVwscFile d = .ok frames) :
    ∃ sc, vwscToScore frames = .ok sc ∧ sc.lastFrame = frames.length ∧ sc.sprite.length = channelsOf frames := by
  obtain ⟨sc, h1, h2, _, h4, _⟩ := total frames (decoded_tables_rectangular d frames h)
  exact ⟨sc, h1, h2, h4⟩

/-! ## the hypotheses are satisfiable on a non-trivial table -/

def spA : Sprite := ⟨1, 7, 255, 0, 8, none, 20, 10, 5, -3, 0, false, true⟩
def spB : Sprite := { spA with trails := 1 }
/-- sprite appears, changes one attribute (trails), vanishes for one frame, returns; sound 5 for two frames, a gap, again 5 -/
def exTable : List Frame :=
  [⟨some ⟨12, 5, 0, 0, .d4 "0".toList 0 0⟩, none, [some spA, none]⟩,
   ⟨some ⟨0, 5, 0, 96, .d5 0⟩, some ⟨0, [], -1, 0⟩, [some spA, none]⟩,
   ⟨none, none, [some spB, some spA]⟩,
   ⟨some ⟨0, 5, 0, 0, .d5 0⟩, none, [none, some spA]⟩,
   ⟨none, none, [some spB, none]⟩]

example : Rectangular exTable := by decide
example : (vwscToScore exTable).toOption.map (fun sc => (sc.sprite.map fun S => S.map fun sp => (sp.startFrame, sp.endFrame, sp.trails, sp.left, sp.right),
      sc.events.sound1.map fun s => (s.startFrame, s.endFrame), sc.events.tempo, sc.events.palette))
    = some ([[(1, 2, 0, 12, 9), (3, 3, 1, 12, 9), (5, 5, 1, 12, 9)], [(3, 4, 0, 12, 9)]], [(1, 2), (4, 4)], [(1, 12)], [(2, -1)]) := by
  rfl

end Drx.C09
