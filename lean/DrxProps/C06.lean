/-
  C06 — bitmap decoding reproduces every source pixel for a standard BMP reader.

  Spec objects, encoders and the BMP reader: lean/Drx/BitdSpec.lean.  Model of the decoders: lean/Drx/Bitd.lean.
  `bitd2bmp (callOf img data)` is the real entry point on a fresh process (C13 shows the process history is irrelevant).
-/
import Drx.BitdSpec
import DrxProofs.BitdWitness
import DrxProofs.BitdPack
namespace Drx.C06
open Drx Drx.Bitd Drx.Bitd.Spec

/-- the inputs the property quantifies over: a well-formed image that fits a BMP header, a valid encoding of its scan
    lines, and — because the format itself cannot tell them apart — no packed stream of exactly the raw length -/
def InQuantifier (i : Img) (p1 p2 : UInt8) (e : Enc) : Prop :=
  i.wf = true ∧ fitsHeader i = true ∧ validEnc i p1 p2 e = true ∧
  (e = .raw ∨ (serialise i p1 p2 e).length ≠ (serialise i p1 p2 .raw).length)

instance (i : Img) (p1 p2 : UInt8) (e : Enc) : Decidable (InQuantifier i p1 p2 e) := by
  unfold InQuantifier; exact inferInstance

/-- the BMP produced for an encoded image reads back as the canvas -/
def ReadsBack (i : Img) (p1 p2 : UInt8) (e : Enc) : Prop :=
  ∃ bmp, bitd2bmp (callOf i (serialise i p1 p2 e)) = .ok bmp ∧ readBmp bmp = some (canvas i)

/-- C06 at full strength: every image of depth 1, 8, 16 or 32, any geometry, raw or under any valid scan-line PackBits
    encoding reads back as its canvas, and any two encodings of one image give identical BMP bytes.
    (Not provable: `C06_witness_*` below.) -/
def C06_full : Prop :=
  (∀ i p1 p2 e, InQuantifier i p1 p2 e → ReadsBack i p1 p2 e) ∧
  (∀ i p1 p2 q1 q2 e e', InQuantifier i p1 p2 e → InQuantifier i q1 q2 e' →
    bitd2bmp (callOf i (serialise i p1 p2 e)) = bitd2bmp (callOf i (serialise i q1 q2 e')))

/-! ### 8 bits per pixel: all geometries, raw and every scan-line segmentation -/

/-- the bytes produced for an 8-bit image stored raw -/
theorem C06_8bit_raw_bytes (W H ox oy : Nat) (rows : List (List UInt8)) (p1 p2 : UInt8)
    (hq : InQuantifier ⟨W, H, ox, oy, .d8 rows⟩ p1 p2 .raw) :
    bitd2bmp (callOf ⟨W, H, ox, oy, .d8 rows⟩ (serialise ⟨W, H, ox, oy, .d8 rows⟩ p1 p2 .raw))
      = .ok (hdr8 W H ++ (fileRows1 (stride4 W) ox (W - ox) oy rows).flatten) :=
  bitd2bmp_8_raw W H ox oy rows p1 p2 hq.1 hq.2.1

/-- the bytes produced for an 8-bit image under any valid scan-line PackBits encoding: they do not depend on the
    segmentation, the choice of runs versus literals, or the alignment bytes -/
theorem C06_8bit_packed_bytes (W H ox oy : Nat) (rows : List (List UInt8)) (p1 p2 : UInt8) (opsRows : List (List Op))
    (hq : InQuantifier ⟨W, H, ox, oy, .d8 rows⟩ p1 p2 (.packed opsRows)) :
    bitd2bmp (callOf ⟨W, H, ox, oy, .d8 rows⟩ (serialise ⟨W, H, ox, oy, .d8 rows⟩ p1 p2 (.packed opsRows)))
      = .ok (hdr8 W H ++ ((fileRows1 (stride4 W) ox (W - ox) oy rows).flatten
              ++ zeros (((g8 W ox (stride4 W)).bw - stride4 W) * H))) := by
  obtain ⟨hwf, hfit, hv, hne⟩ := hq
  have hne' : (serialise ⟨W, H, ox, oy, .d8 rows⟩ p1 p2 (.packed opsRows)).length ≠ (serialise ⟨W, H, ox, oy, .d8 rows⟩ p1 p2 .raw).length := by
    rcases hne with h | h
    · cases h
    · exact h
  exact bitd2bmp_8_packed W H ox oy rows p1 p2 opsRows hwf hfit hv hne'

/-- C06, 8-bit images: raw storage and every valid scan-line PackBits encoding, every geometry, read back as the canvas -/
theorem C06_8bit_partial (W H ox oy : Nat) (rows : List (List UInt8)) (p1 p2 : UInt8) (e : Enc)
    (hq : InQuantifier ⟨W, H, ox, oy, .d8 rows⟩ p1 p2 e) : ReadsBack ⟨W, H, ox, oy, .d8 rows⟩ p1 p2 e := by
  obtain ⟨hox, hoy, hrows, hpix⟩ := wf8 W H ox oy rows hq.1
  have hfit := hq.2.1
  simp only [fitsHeader, decide_eq_true_eq] at hfit
  obtain ⟨hW, hH, _⟩ := fits_bounds W H hfit
  have hread := fun extra => read_bmp8 W H ox oy hox hoy hW hH rows hrows hpix p2 extra
  cases e with
  | raw =>
    refine ⟨_, C06_8bit_raw_bytes W H ox oy rows p1 p2 hq, ?_⟩
    have := hread []
    rw [fileRows1_evenPad _ _ _ _ _ _ hpix, List.append_nil] at this
    exact this
  | packed opsRows =>
    refine ⟨_, C06_8bit_packed_bytes W H ox oy rows p1 p2 opsRows hq, ?_⟩
    have := hread (zeros (((g8 W ox (stride4 W)).bw - stride4 W) * H))
    rw [fileRows1_evenPad _ _ _ _ _ _ hpix, List.append_assoc] at this
    exact this

example : InQuantifier ⟨5, 2, 1, 0, .d8 [[1, 2, 3, 4], [5, 5, 5, 5]]⟩ 0 0 (.packed [[.lit [1, 2, 3, 4]], [.run 2 5, .run 2 5]]) := by
  decide

/-- two valid PackBits encodings of one 8-bit image (any segmentations, any alignment bytes) give identical BMP bytes -/
theorem C06_8bit_identity_packed (W H ox oy : Nat) (rows : List (List UInt8)) (p1 p2 q1 q2 : UInt8) (a b : List (List Op))
    (ha : InQuantifier ⟨W, H, ox, oy, .d8 rows⟩ p1 p2 (.packed a)) (hb : InQuantifier ⟨W, H, ox, oy, .d8 rows⟩ q1 q2 (.packed b)) :
    bitd2bmp (callOf ⟨W, H, ox, oy, .d8 rows⟩ (serialise ⟨W, H, ox, oy, .d8 rows⟩ p1 p2 (.packed a)))
      = bitd2bmp (callOf ⟨W, H, ox, oy, .d8 rows⟩ (serialise ⟨W, H, ox, oy, .d8 rows⟩ q1 q2 (.packed b))) := by
  rw [C06_8bit_packed_bytes W H ox oy rows p1 p2 a ha, C06_8bit_packed_bytes W H ox oy rows q1 q2 b hb]

/-- the geometry class of finding F30b: canvas width a multiple of four and an odd number of image pixels per line -/
def F30bGeo (W ox : Nat) : Prop := W % 4 = 0 ∧ (W - ox) % 2 = 1

instance (W ox : Nat) : Decidable (F30bGeo W ox) := by unfold F30bGeo; exact inferInstance

/-- raw and packed storage of one 8-bit image give identical bytes outside the F30b geometry class -/
theorem C06_8bit_identity_raw_packed_partial (W H ox oy : Nat) (rows : List (List UInt8)) (p1 p2 q1 q2 : UInt8) (a : List (List Op))
    (hgeo : ¬ F30bGeo W ox)
    (hr : InQuantifier ⟨W, H, ox, oy, .d8 rows⟩ p1 p2 .raw) (ha : InQuantifier ⟨W, H, ox, oy, .d8 rows⟩ q1 q2 (.packed a)) :
    bitd2bmp (callOf ⟨W, H, ox, oy, .d8 rows⟩ (serialise ⟨W, H, ox, oy, .d8 rows⟩ p1 p2 .raw))
      = bitd2bmp (callOf ⟨W, H, ox, oy, .d8 rows⟩ (serialise ⟨W, H, ox, oy, .d8 rows⟩ q1 q2 (.packed a))) := by
  rw [C06_8bit_raw_bytes W H ox oy rows p1 p2 hr, C06_8bit_packed_bytes W H ox oy rows q1 q2 a ha]
  obtain ⟨hox, _, _, _⟩ := wf8 W H ox oy rows hr.1
  have hbw : (g8 W ox (stride4 W)).bw = stride4 W := by
    rw [g8_of_le W ox (stride4 W) hox]
    unfold F30bGeo at hgeo
    unfold stride4
    simp only
    split <;> split <;> omega
  rw [hbw, Nat.sub_self, Nat.zero_mul, zeros_zero, List.append_nil]

/-! ### the PackBits lemma -/

/-- reading what the encoder wrote gives back the bytes the operations stand for — for ALL lists of valid operations -/
theorem C06_packbits_unpack (ops : List Op) (hv : ∀ o ∈ ops, o.valid = true) : unpackBits (packed ops) = some (unpack ops) :=
  unpackBits_packed ops hv

/-- ... and the stream of a whole image reads back as the concatenation of its scan lines -/
theorem C06_packbits_rows (opsRows : List (List Op)) (rows : List Bytes) (hv : validRows opsRows rows = true) :
    unpackBits (packed opsRows.flatten) = some rows.flatten :=
  unpackBits_rows opsRows rows hv

example : unpackBits (packed [.lit [1, 2, 3], .run 5 9, .lit [4]]) = some [1, 2, 3, 9, 9, 9, 9, 9, 4] :=
  C06_packbits_unpack _ (by decide)

/-! ### 1 bit per pixel: all geometries, raw and every scan-line segmentation, any alignment bits -/

/-- the bytes produced for a 1-bit image do not depend on how it is stored -/
theorem C06_1bit_bytes (W H ox oy : Nat) (rows : List (List Bool)) (p1 p2 : UInt8) (e : Enc)
    (hq : InQuantifier ⟨W, H, ox, oy, .d1 rows⟩ p1 p2 e) :
    bitd2bmp (callOf ⟨W, H, ox, oy, .d1 rows⟩ (serialise ⟨W, H, ox, oy, .d1 rows⟩ p1 p2 e))
      = .ok (hdr1 W H ++ (fileRows1 (stride4 W) ox (W - ox) oy (rows.map fun r => r.map pxByte)).flatten) := by
  obtain ⟨hwf, hfit, hv, hne⟩ := hq
  cases e with
  | raw => exact bitd2bmp_1_raw W H ox oy rows p1 p2 hwf hfit
  | packed opsRows =>
    have hne' : (serialise ⟨W, H, ox, oy, .d1 rows⟩ p1 p2 (.packed opsRows)).length ≠ (serialise ⟨W, H, ox, oy, .d1 rows⟩ p1 p2 .raw).length := by
      rcases hne with h | h
      · cases h
      · exact h
    exact bitd2bmp_1_packed W H ox oy rows p1 p2 opsRows hwf hfit hv hne'

/-- C06, 1-bit images: raw storage and every valid scan-line PackBits encoding, every geometry -/
theorem C06_1bit_partial (W H ox oy : Nat) (rows : List (List Bool)) (p1 p2 : UInt8) (e : Enc)
    (hq : InQuantifier ⟨W, H, ox, oy, .d1 rows⟩ p1 p2 e) : ReadsBack ⟨W, H, ox, oy, .d1 rows⟩ p1 p2 e := by
  obtain ⟨hox, hoy, hrows, hpix⟩ := wf1 W H ox oy rows hq.1
  have hfit := hq.2.1
  simp only [fitsHeader, decide_eq_true_eq] at hfit
  obtain ⟨hW, hH, _⟩ := fits_bounds W H hfit
  refine ⟨_, C06_1bit_bytes W H ox oy rows p1 p2 e hq, ?_⟩
  have := read_bmp1 W H ox oy hox hoy hW hH rows hrows hpix []
  rw [List.append_nil] at this
  exact this

/-- any two encodings of one 1-bit image (raw or packed, any alignment bits) give identical BMP bytes -/
theorem C06_1bit_identity (W H ox oy : Nat) (rows : List (List Bool)) (p1 p2 q1 q2 : UInt8) (e e' : Enc)
    (h : InQuantifier ⟨W, H, ox, oy, .d1 rows⟩ p1 p2 e) (h' : InQuantifier ⟨W, H, ox, oy, .d1 rows⟩ q1 q2 e') :
    bitd2bmp (callOf ⟨W, H, ox, oy, .d1 rows⟩ (serialise ⟨W, H, ox, oy, .d1 rows⟩ p1 p2 e))
      = bitd2bmp (callOf ⟨W, H, ox, oy, .d1 rows⟩ (serialise ⟨W, H, ox, oy, .d1 rows⟩ q1 q2 e')) := by
  rw [C06_1bit_bytes W H ox oy rows p1 p2 e h, C06_1bit_bytes W H ox oy rows q1 q2 e' h']

example : InQuantifier ⟨13, 2, 1, 0, .d1 [[true, false, true, true, false, false, true, false, true, true, true, false],
                                           [false, false, false, false, false, false, false, false, true, true, true, true]]⟩ 0xFF 0xAA
    (.packed [[.lit [0xB2], .lit [0xEF]], [.lit [0x00, 0xFF]]]) := by decide

/-! ### 16 and 32 bits per pixel: all geometries, every valid scan-line PackBits encoding -/

/-- the bytes produced for a 16-bit image under any valid scan-line PackBits encoding (operations may span both byte
    planes), any registration offsets -/
theorem C06_16bit_packed_bytes (W H ox oy : Nat) (rows : List (List (UInt8 × UInt8))) (p1 p2 : UInt8) (opsRows : List (List Op))
    (hq : InQuantifier ⟨W, H, ox, oy, .d16 rows⟩ p1 p2 (.packed opsRows)) :
    bitd2bmp (callOf ⟨W, H, ox, oy, .d16 rows⟩ (serialise ⟨W, H, ox, oy, .d16 rows⟩ p1 p2 (.packed opsRows)))
      = .ok (bmp16 W H ox oy rows) := by
  obtain ⟨hwf, hfit, hv, hne⟩ := hq
  have hne' : (serialise ⟨W, H, ox, oy, .d16 rows⟩ p1 p2 (.packed opsRows)).length ≠ (serialise ⟨W, H, ox, oy, .d16 rows⟩ p1 p2 .raw).length := by
    rcases hne with h | h
    · cases h
    · exact h
  exact bitd2bmp_16_packed W H ox oy rows p1 p2 opsRows hwf hfit hv hne'

/-- the bytes produced for a 32-bit image under any valid scan-line PackBits encoding, any registration offsets -/
theorem C06_32bit_packed_bytes (W H ox oy : Nat) (rows : List (List Px32)) (p1 p2 : UInt8) (opsRows : List (List Op))
    (hq : InQuantifier ⟨W, H, ox, oy, .d32 rows⟩ p1 p2 (.packed opsRows)) :
    bitd2bmp (callOf ⟨W, H, ox, oy, .d32 rows⟩ (serialise ⟨W, H, ox, oy, .d32 rows⟩ p1 p2 (.packed opsRows)))
      = .ok (bmp24 W H ox oy rows) := by
  obtain ⟨hwf, hfit, hv, hne⟩ := hq
  have hne' : (serialise ⟨W, H, ox, oy, .d32 rows⟩ p1 p2 (.packed opsRows)).length ≠ (serialise ⟨W, H, ox, oy, .d32 rows⟩ p1 p2 .raw).length := by
    rcases hne with h | h
    · cases h
    · exact h
  exact bitd2bmp_32_packed W H ox oy rows p1 p2 opsRows hwf hfit hv hne'

/-- F34, the weaker clause that does hold: raw 16/32-bit storage is rejected with an error (NotImplementedError), it is never
    decoded into a wrong picture -/
theorem C06_hicolour_raw_rejected (i : Img) (p1 p2 : UInt8) (hq : InQuantifier i p1 p2 .raw) (hd : i.pix.depth = 16 ∨ i.pix.depth = 32) :
    bitd2bmp (callOf i (serialise i p1 p2 .raw)) = .error .notImpl := by
  obtain ⟨W, H, ox, oy, pix⟩ := i
  cases pix with
  | d1 rows => simp [Pixels.depth] at hd
  | d8 rows => simp [Pixels.depth] at hd
  | d16 rows => exact bitd2bmp_16_raw_rejected W H ox oy rows p1 p2 hq.1 hq.2.1
  | d32 rows => exact bitd2bmp_32_raw_rejected W H ox oy rows p1 p2 hq.1 hq.2.1

/-! ### the property on the supported class (`Spec.supportedB` = complement of the open finding F34) -/

/-- C06 (first clause) for every input the decidable predicate `supportedB` accepts: depth 1 and 8: raw and packed;
    depth 16 and 32: packed; every geometry (any canvas size and registration offsets), every valid scan-line
    segmentation -/
theorem C06_partial (i : Img) (p1 p2 : UInt8) (e : Enc) (hq : InQuantifier i p1 p2 e) (hs : supportedB i e = true) :
    ReadsBack i p1 p2 e := by
  obtain ⟨W, H, ox, oy, pix⟩ := i
  cases pix with
  | d1 rows => exact C06_1bit_partial W H ox oy rows p1 p2 e hq
  | d8 rows => exact C06_8bit_partial W H ox oy rows p1 p2 e hq
  | d16 rows =>
    cases e with
    | raw => rw [supportedB_d16_raw] at hs; cases hs
    | packed opsRows =>
      obtain ⟨hox, hoy, hrows, hpix⟩ := wf16 W H ox oy rows hq.1
      have hfit := hq.2.1
      simp only [fitsHeader, decide_eq_true_eq] at hfit
      obtain ⟨hW, hH, _⟩ := fits_bounds W H hfit
      exact ⟨_, C06_16bit_packed_bytes W H ox oy rows p1 p2 opsRows hq, read_bmp16 W H ox oy hox hoy hW hH rows hrows hpix⟩
  | d32 rows =>
    cases e with
    | raw => rw [supportedB_d32_raw] at hs; cases hs
    | packed opsRows =>
      obtain ⟨hox, hoy, hrows, hpix⟩ := wf32 W H ox oy rows hq.1
      have hfit := hq.2.1
      simp only [fitsHeader, decide_eq_true_eq] at hfit
      obtain ⟨hW, hH, _⟩ := fits_bounds W H hfit
      exact ⟨_, C06_32bit_packed_bytes W H ox oy rows p1 p2 opsRows hq, read_bmp24 W H ox oy hox hoy hW hH rows hrows hpix⟩

example : InQuantifier ⟨4, 3, 1, 1, .d16 [[(1, 2), (3, 4), (5, 6)], [(7, 7), (7, 7), (7, 8)]]⟩ 0 0
      (.packed [[.lit [1, 3, 5, 2], .lit [4], .lit [6]], [.run 5 7, .lit [8]]]) ∧
    supportedB ⟨4, 3, 1, 1, .d16 [[(1, 2), (3, 4), (5, 6)], [(7, 7), (7, 7), (7, 8)]]⟩
      (.packed [[.lit [1, 3, 5, 2], .lit [4], .lit [6]], [.run 5 7, .lit [8]]]) = true := by decide

/-- C06 (second clause) on the supported class: two encodings of one image give identical BMP bytes, unless one is raw,
    the other packed and the 8-bit geometry is in the F30b class -/
theorem C06_identity_partial (i : Img) (p1 p2 q1 q2 : UInt8) (e e' : Enc)
    (h : InQuantifier i p1 p2 e) (h' : InQuantifier i q1 q2 e') (hs : supportedB i e = true) (hs' : supportedB i e' = true)
    (hgeo : (e = .raw ↔ e' = .raw) ∨ i.pix.depth ≠ 8 ∨ ¬ F30bGeo i.W i.ox) :
    bitd2bmp (callOf i (serialise i p1 p2 e)) = bitd2bmp (callOf i (serialise i q1 q2 e')) := by
  obtain ⟨W, H, ox, oy, pix⟩ := i
  cases pix with
  | d1 rows => exact C06_1bit_identity W H ox oy rows p1 p2 q1 q2 e e' h h'
  | d8 rows =>
    cases e with
    | raw =>
      cases e' with
      | raw => rw [C06_8bit_raw_bytes W H ox oy rows p1 p2 h, C06_8bit_raw_bytes W H ox oy rows q1 q2 h']
      | packed b =>
        have hg : ¬ F30bGeo W ox := by
          rcases hgeo with hg | hg | hg
          · exact absurd (hg.mp rfl) (by simp)
          · exact absurd rfl hg
          · exact hg
        exact C06_8bit_identity_raw_packed_partial W H ox oy rows p1 p2 q1 q2 b hg h h'
    | packed a =>
      cases e' with
      | raw =>
        have hg : ¬ F30bGeo W ox := by
          rcases hgeo with hg | hg | hg
          · exact absurd (hg.mpr rfl) (by simp)
          · exact absurd rfl hg
          · exact hg
        exact (C06_8bit_identity_raw_packed_partial W H ox oy rows q1 q2 p1 p2 a hg h' h).symm
      | packed b => exact C06_8bit_identity_packed W H ox oy rows p1 p2 q1 q2 a b h h'
  | d16 rows =>
    cases e with
    | raw => rw [supportedB_d16_raw] at hs; cases hs
    | packed a =>
      cases e' with
      | raw => rw [supportedB_d16_raw] at hs'; cases hs'
      | packed b => rw [C06_16bit_packed_bytes W H ox oy rows p1 p2 a h, C06_16bit_packed_bytes W H ox oy rows q1 q2 b h']
  | d32 rows =>
    cases e with
    | raw => rw [supportedB_d32_raw] at hs; cases hs
    | packed a =>
      cases e' with
      | raw => rw [supportedB_d32_raw] at hs'; cases hs'
      | packed b => rw [C06_32bit_packed_bytes W H ox oy rows p1 p2 a h, C06_32bit_packed_bytes W H ox oy rows q1 q2 b h']

/-! ### negative registration offsets (`bitd2bmpI`: the entry point on integer offsets)

  A negative left offset widens the canvas by that amount (first statement of `bitd2bmp`, repair F94), a negative top
  offset heightens it (`fixPad`, in every decoder): the member is decoded exactly like the member that declares the
  enlarged canvas with offset 0, so everything above applies to it. -/

/-- for non-negative left offsets the integer entry point is the natural-number one -/
theorem C06_request_nonneg (r : Request) (h : 0 ≤ r.padW) :
    bitd2bmpI r = bitd2bmp { depth := r.depth, width := r.width, height := r.height, padW := r.padW.toNat, padH := r.padH,
                             palette := r.palette, clut := r.clut, fdata := r.fdata } := by
  unfold bitd2bmpI Request.normalise
  rw [if_neg (by omega)]

/-- a member whose record declares a canvas `k` columns narrower than the image and the left offset `-k` decodes to the
    same bytes as the image on its own canvas at offset 0 -/
theorem C06_negative_left_offset (i : Img) (hox : i.ox = 0) (k : Nat) (hk : k ≤ i.W) (data : Bytes) :
    bitd2bmpI { depth := i.pix.depth, width := i.W - k, height := i.H, padW := -(k : Int), padH := (i.oy : Int),
                palette := "systemMac", clut := [], fdata := data } = bitd2bmp (callOf i data) := by
  unfold bitd2bmpI Request.normalise callOf
  by_cases h0 : k = 0
  · subst h0
    simp only [Int.natCast_zero, Int.neg_zero, Int.lt_irrefl, if_false, Int.toNat_zero, Nat.sub_zero, hox]
  · have hneg : -(k : Int) < 0 := by omega
    have e : i.W - k + (-(k : Int)).natAbs = i.W := by omega
    simp only [hneg, if_true, e, hox]

/-- hence it reads back as the whole image (every depth and encoding `C06_partial` covers) -/
theorem C06_negative_left_offset_reads_back (i : Img) (p1 p2 : UInt8) (e : Enc) (hox : i.ox = 0) (k : Nat) (hk : k ≤ i.W)
    (hq : InQuantifier i p1 p2 e) (hs : supportedB i e = true) :
    ∃ bmp, bitd2bmpI { depth := i.pix.depth, width := i.W - k, height := i.H, padW := -(k : Int), padH := (i.oy : Int),
                       palette := "systemMac", clut := [], fdata := serialise i p1 p2 e } = .ok bmp ∧
           readBmp bmp = some (canvas i) := by
  rw [C06_negative_left_offset i hox k hk]
  exact C06_partial i p1 p2 e hq hs

example : ∃ bmp, bitd2bmpI ⟨8, 2, 1, -2, 0, "systemMac", [], serialise ⟨4, 1, 0, 0, .d8 [[1, 2, 3, 4]]⟩ 0 0 .raw⟩ = .ok bmp ∧ readBmp bmp = some (canvas ⟨4, 1, 0, 0, .d8 [[1, 2, 3, 4]]⟩) :=
  C06_negative_left_offset_reads_back ⟨4, 1, 0, 0, .d8 [[1, 2, 3, 4]]⟩ 0 0 .raw rfl 2 (by decide) (by decide) (by decide)

/-- the same for a negative top offset: a record that declares a canvas `k` rows lower than the image and the top offset
    `-k` decodes to the same bytes as the image on its own canvas at offset 0 -/
theorem C06_negative_top_offset (i : Img) (hoy : i.oy = 0) (k : Nat) (hk : k ≤ i.H) (data : Bytes) :
    bitd2bmp { callOf i data with height := i.H - k, padH := -(k : Int) } = bitd2bmp (callOf i data) := by
  have hfp : fixPad (callOf i data).height (callOf i data).padH = fixPad (i.H - k) (-(k : Int)) := by
    show fixPad i.H (i.oy : Int) = _
    rw [hoy, fixPad_neg i.H k hk]; rfl
  exact (bitd2bmp_fixPad (callOf i data) (i.H - k) (-(k : Int)) hfp).symm

theorem C06_negative_top_offset_reads_back (i : Img) (p1 p2 : UInt8) (e : Enc) (hoy : i.oy = 0) (k : Nat) (hk : k ≤ i.H)
    (hq : InQuantifier i p1 p2 e) (hs : supportedB i e = true) :
    ∃ bmp, bitd2bmp { callOf i (serialise i p1 p2 e) with height := i.H - k, padH := -(k : Int) } = .ok bmp ∧
           readBmp bmp = some (canvas i) := by
  rw [C06_negative_top_offset i hoy k hk]
  exact C06_partial i p1 p2 e hq hs

/-! ### the excluded classes really fail (each replayed on the real code: corpus/C06/open_*.json) -/

/-- F34: raw 16-bit storage -/
theorem C06_witness_F34 : InQuantifier ⟨1, 1, 0, 0, .d16 [[(1, 2)]]⟩ 0 0 .raw ∧ ¬ ReadsBack ⟨1, 1, 0, 0, .d16 [[(1, 2)]]⟩ 0 0 .raw := by
  refine ⟨by decide, ?_⟩
  rintro ⟨bmp, h, _⟩
  rw [w_f34] at h
  cases h

/-- F34: raw 32-bit storage -/
theorem C06_witness_F34_32 :
    InQuantifier ⟨1, 1, 0, 0, .d32 [[(9, 1, 2, 3)]]⟩ 0 0 .raw ∧ ¬ ReadsBack ⟨1, 1, 0, 0, .d32 [[(9, 1, 2, 3)]]⟩ 0 0 .raw := by
  refine ⟨by decide, ?_⟩
  rintro ⟨bmp, h, _⟩
  rw [w_f34_32] at h
  cases h

/-- F30b: raw and packed storage of one 8-bit image (canvas width 4, three pixels per line) differ in length -/
theorem C06_witness_F30b :
    InQuantifier ⟨4, 1, 1, 0, .d8 [[1, 2, 3]]⟩ 0 0 .raw ∧ InQuantifier ⟨4, 1, 1, 0, .d8 [[1, 2, 3]]⟩ 0 0 (.packed [[.lit [1, 2, 3, 0]]]) ∧
    bitd2bmp (callOf ⟨4, 1, 1, 0, .d8 [[1, 2, 3]]⟩ (serialise ⟨4, 1, 1, 0, .d8 [[1, 2, 3]]⟩ 0 0 .raw))
      ≠ bitd2bmp (callOf ⟨4, 1, 1, 0, .d8 [[1, 2, 3]]⟩ (serialise ⟨4, 1, 1, 0, .d8 [[1, 2, 3]]⟩ 0 0 (.packed [[.lit [1, 2, 3, 0]]]))) := by
  have hr : InQuantifier ⟨4, 1, 1, 0, .d8 [[1, 2, 3]]⟩ 0 0 .raw := by decide
  have hp : InQuantifier ⟨4, 1, 1, 0, .d8 [[1, 2, 3]]⟩ 0 0 (.packed [[.lit [1, 2, 3, 0]]]) := by decide
  refine ⟨hr, hp, ?_⟩
  rw [C06_8bit_raw_bytes 4 1 1 0 [[1, 2, 3]] 0 0 hr, C06_8bit_packed_bytes 4 1 1 0 [[1, 2, 3]] 0 0 [[.lit [1, 2, 3, 0]]] hp]
  intro h
  have h2 := congrArg (fun r => match r with | .ok b => b.length | .error _ => 0) h
  simp only [List.length_append, zeros_length] at h2
  have hbw : ((g8 4 1 (stride4 4)).bw - stride4 4) * 1 = 4 := by decide
  omega

/-- hence the full statement does not hold for the code as it is -/
theorem C06_full_fails : ¬ C06_full := by
  intro h
  exact C06_witness_F34.2 (h.1 _ _ _ _ C06_witness_F34.1)

end Drx.C06
