/-
  C06 — bitmap decoding reproduces every source pixel for a standard BMP reader.

  Spec objects, encoders and the BMP reader: lean/Drx/BitdSpec.lean.  Model of the decoders: lean/Drx/Bitd.lean.
  `bitd2bmp (callOf img data)` is the real entry point on a fresh process (C13 shows the process history is irrelevant).
-/
import Drx.BitdSpec
import DrxProofs.Bitd8Top
namespace Drx.C06
open Drx Drx.Bitd Drx.Bitd.Spec

/-- the inputs the property quantifies over: a well-formed image that fits a BMP header, a valid encoding of its scan
    lines, and — because the format itself cannot tell them apart — no packed stream of exactly the raw length -/
def InQuantifier (i : Img) (p1 p2 : UInt8) (e : Enc) : Prop :=
  i.wf = true ∧ fitsHeader i = true ∧ validEnc i p1 p2 e = true ∧
  (e = .raw ∨ (serialise i p1 p2 e).length ≠ (serialise i p1 p2 .raw).length)

instance (i : Img) (p1 p2 : UInt8) (e : Enc) : Decidable (InQuantifier i p1 p2 e) := by
  unfold InQuantifier; exact inferInstance

/-- the BMP produced for an encoded image reads back as the canvas -/
def ReadsBack (i : Img) (p1 p2 : UInt8) (e : Enc) : Prop :=
  ∃ bmp, bitd2bmp (callOf i (serialise i p1 p2 e)) = .ok bmp ∧ readBmp bmp = some (canvas i)

/-- C06 at full strength: every image of depth 1, 8, 16 or 32, any geometry, raw or under any valid scan-line PackBits
    encoding reads back as its canvas, and any two encodings of one image give identical BMP bytes.
    (Not provable: `C06_witness_*` below.) -/
def C06_full : Prop :=
  (∀ i p1 p2 e, InQuantifier i p1 p2 e → ReadsBack i p1 p2 e) ∧
  (∀ i p1 p2 q1 q2 e e', InQuantifier i p1 p2 e → InQuantifier i q1 q2 e' →
    bitd2bmp (callOf i (serialise i p1 p2 e)) = bitd2bmp (callOf i (serialise i q1 q2 e')))

/-! ### 8 bits per pixel: all geometries, raw and every scan-line segmentation -/

/-- the bytes produced for an 8-bit image stored raw -/
theorem C06_8bit_raw_bytes (W H ox oy : Nat) (rows : List (List UInt8)) (p1 p2 : UInt8)
    (hq : InQuantifier ⟨W, H, ox, oy, .d8 rows⟩ p1 p2 .raw) :
    bitd2bmp (callOf ⟨W, H, ox, oy, .d8 rows⟩ (serialise ⟨W, H, ox, oy, .d8 rows⟩ p1 p2 .raw))
      = .ok (hdr8 W H ++ (fileRows1 (stride4 W) ox (W - ox) oy rows).flatten) :=
  bitd2bmp_8_raw W H ox oy rows p1 p2 hq.1 hq.2.1

/-- the bytes produced for an 8-bit image under any valid scan-line PackBits encoding: they do not depend on the
    segmentation, the choice of runs versus literals, or the alignment bytes -/
theorem C06_8bit_packed_bytes (W H ox oy : Nat) (rows : List (List UInt8)) (p1 p2 : UInt8) (opsRows : List (List Op))
    (hq : InQuantifier ⟨W, H, ox, oy, .d8 rows⟩ p1 p2 (.packed opsRows)) :
    bitd2bmp (callOf ⟨W, H, ox, oy, .d8 rows⟩ (serialise ⟨W, H, ox, oy, .d8 rows⟩ p1 p2 (.packed opsRows)))
      = .ok (hdr8 W H ++ ((fileRows1 (stride4 W) ox (W - ox) oy rows).flatten
              ++ zeros (((g8 W ox (stride4 W)).bw - stride4 W) * H))) := by
  obtain ⟨hwf, hfit, hv, hne⟩ := hq
  have hne' : (serialise ⟨W, H, ox, oy, .d8 rows⟩ p1 p2 (.packed opsRows)).length ≠ (serialise ⟨W, H, ox, oy, .d8 rows⟩ p1 p2 .raw).length := by
    rcases hne with h | h
    · cases h
    · exact h
  exact bitd2bmp_8_packed W H ox oy rows p1 p2 opsRows hwf hfit hv hne'

/-- C06, 8-bit images: raw storage and every valid scan-line PackBits encoding, every geometry, read back as the canvas -/
theorem C06_8bit_partial (W H ox oy : Nat) (rows : List (List UInt8)) (p1 p2 : UInt8) (e : Enc)
    (hq : InQuantifier ⟨W, H, ox, oy, .d8 rows⟩ p1 p2 e) : ReadsBack ⟨W, H, ox, oy, .d8 rows⟩ p1 p2 e := by
  obtain ⟨hox, hoy, hrows, hpix⟩ := wf8 W H ox oy rows hq.1
  have hfit := hq.2.1
  simp only [fitsHeader, decide_eq_true_eq] at hfit
  obtain ⟨hW, hH, _⟩ := fits_bounds W H hfit
  have hread := fun extra => read_bmp8 W H ox oy hox hoy hW hH rows hrows hpix p2 extra
  cases e with
  | raw =>
    refine ⟨_, C06_8bit_raw_bytes W H ox oy rows p1 p2 hq, ?_⟩
    have := hread []
    rw [fileRows1_evenPad _ _ _ _ _ _ hpix, List.append_nil] at this
    exact this
  | packed opsRows =>
    refine ⟨_, C06_8bit_packed_bytes W H ox oy rows p1 p2 opsRows hq, ?_⟩
    have := hread (zeros (((g8 W ox (stride4 W)).bw - stride4 W) * H))
    rw [fileRows1_evenPad _ _ _ _ _ _ hpix, List.append_assoc] at this
    exact this

example : InQuantifier ⟨5, 2, 1, 0, .d8 [[1, 2, 3, 4], [5, 5, 5, 5]]⟩ 0 0 (.packed [[.lit [1, 2, 3, 4]], [.run 2 5, .run 2 5]]) := by
  decide

/-- two valid PackBits encodings of one 8-bit image (any segmentations, any alignment bytes) give identical BMP bytes -/
theorem C06_8bit_identity_packed (W H ox oy : Nat) (rows : List (List UInt8)) (p1 p2 q1 q2 : UInt8) (a b : List (List Op))
    (ha : InQuantifier ⟨W, H, ox, oy, .d8 rows⟩ p1 p2 (.packed a)) (hb : InQuantifier ⟨W, H, ox, oy, .d8 rows⟩ q1 q2 (.packed b)) :
    bitd2bmp (callOf ⟨W, H, ox, oy, .d8 rows⟩ (serialise ⟨W, H, ox, oy, .d8 rows⟩ p1 p2 (.packed a)))
      = bitd2bmp (callOf ⟨W, H, ox, oy, .d8 rows⟩ (serialise ⟨W, H, ox, oy, .d8 rows⟩ q1 q2 (.packed b))) := by
  rw [C06_8bit_packed_bytes W H ox oy rows p1 p2 a ha, C06_8bit_packed_bytes W H ox oy rows q1 q2 b hb]

/-- the geometry class of finding F30b: canvas width a multiple of four and an odd number of image pixels per line -/
def F30bGeo (W ox : Nat) : Prop := W % 4 = 0 ∧ (W - ox) % 2 = 1

instance (W ox : Nat) : Decidable (F30bGeo W ox) := by unfold F30bGeo; exact inferInstance

/-- raw and packed storage of one 8-bit image give identical bytes outside the F30b geometry class -/
theorem C06_8bit_identity_raw_packed_partial (W H ox oy : Nat) (rows : List (List UInt8)) (p1 p2 q1 q2 : UInt8) (a : List (List Op))
    (hgeo : ¬ F30bGeo W ox)
    (hr : InQuantifier ⟨W, H, ox, oy, .d8 rows⟩ p1 p2 .raw) (ha : InQuantifier ⟨W, H, ox, oy, .d8 rows⟩ q1 q2 (.packed a)) :
    bitd2bmp (callOf ⟨W, H, ox, oy, .d8 rows⟩ (serialise ⟨W, H, ox, oy, .d8 rows⟩ p1 p2 .raw))
      = bitd2bmp (callOf ⟨W, H, ox, oy, .d8 rows⟩ (serialise ⟨W, H, ox, oy, .d8 rows⟩ q1 q2 (.packed a))) := by
  rw [C06_8bit_raw_bytes W H ox oy rows p1 p2 hr, C06_8bit_packed_bytes W H ox oy rows q1 q2 a ha]
  obtain ⟨hox, _, _, _⟩ := wf8 W H ox oy rows hr.1
  have hbw : (g8 W ox (stride4 W)).bw = stride4 W := by
    rw [g8_of_le W ox (stride4 W) hox]
    unfold F30bGeo at hgeo
    unfold stride4
    simp only
    split <;> split <;> omega
  rw [hbw, Nat.sub_self, Nat.zero_mul, zeros_zero, List.append_nil]

end Drx.C06
