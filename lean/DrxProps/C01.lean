import Drx.Riff
import DrxProofs.Py
namespace Drx.C01
open Drx Drx.Riff

/-- FourCC ids are always four characters of the safe alphabet, whatever the bytes -/
theorem sanitize_safe (b : UInt8) : ' ' ≤ sanitize b ∧ sanitize b ≤ 'z' := by
  have h : ∀ n : Nat, n < 256 → (' ' ≤ sanitize (UInt8.ofNat n) ∧ sanitize (UInt8.ofNat n) ≤ 'z') := by decide +kernel
  have := h b.toNat (UInt8.toNat_lt b)
  simpa using this

end Drx.C01
