/-
  C01 — Container extraction returns exactly the bytes the memory map designates.
  Property theorems only; the spec objects/encoders (`SChunk`, `encMovie`, `encImap`, `encMmap`, `Genuine`)
  and the helper lemmas are in DrxProofs/Riff.lean; the model is Drx/Riff.lean.
-/
import Drx.Riff
import DrxProofs.Riff
import Drx.Gen.RiffConsts
namespace Drx.C01
open Drx Drx.Riff

/-! (a) FourCC: always four characters of the safe alphabet, whatever the four bytes are, in both orders -/

theorem fourcc_total (a b c d : UInt8) (o : Order) :
    ∃ s, parseChunkId [a, b, c, d] 0 o = .ok s ∧ s.length = 4 ∧ ∀ ch ∈ s, ' ' ≤ ch ∧ ch ≤ 'z' := by
  cases o
  · refine ⟨[sanitize a, sanitize b, sanitize c, sanitize d], by simp [parseChunkId, slice], rfl, ?_⟩
    intro ch h; simp at h; rcases h with rfl | rfl | rfl | rfl <;> exact sanitize_range _
  · refine ⟨[sanitize d, sanitize c, sanitize b, sanitize a], by simp [parseChunkId, slice], rfl, ?_⟩
    intro ch h; simp at h; rcases h with rfl | rfl | rfl | rfl <;> exact sanitize_range _

/-- little-endian reading of `[a,b,c,d]` is the big-endian reading of `[d,c,b,a]` -/
theorem fourcc_orders (a b c d : UInt8) :
    parseChunkId [a, b, c, d] 0 .le = parseChunkId [d, c, b, a] 0 .be := by
  simp [parseChunkId, slice]

/-- printable bytes are reported unchanged -/
theorem fourcc_printable (b : UInt8) (h : 0x20 ≤ b.toNat ∧ b.toNat ≤ 0x7a) : sanitize b = Char.ofNat b.toNat := by
  simp [sanitize, h]

/-! (b) the chunk walk partitions the movie: every chunk, in order, with exactly its payload; one loop
    iteration per chunk (no byte skipped or read twice); any prefix, both byte orders, any FourCC bytes,
    any payload length < 2^31 including 0 and odd lengths -/

theorem walk_partition (o : Order) (pre : Bytes) (len : Int) (hlen : In32 len)
    (cs : List SChunk) (hwf : ∀ c ∈ cs, c.WF) :
    parseRiff (encMovie o pre len cs) pre.length o = .ok (cs.map SChunk.view) :=
  parseRiff_encMovie o pre len hlen cs hwf

theorem walk_one_iteration_per_chunk (o : Order) (pre : Bytes) (cs : List SChunk) (hwf : ∀ c ∈ cs, c.WF) :
    walkSteps (pre ++ encChunks o cs) o pre.length = cs.length :=
  walkSteps_encChunks o cs hwf pre

/-- the spans `[offset_i, offset_i + 8 + len_i + len_i % 2)` tile the body: the encoded length is the sum of spans -/
theorem spans_tile (o : Order) (cs : List SChunk) (hwf : ∀ c ∈ cs, c.WF) :
    (encChunks o cs).length = (cs.map chunkSpan).sum := by
  induction cs with
  | nil => rfl
  | cons c cs ih =>
    simp only [encChunks, List.length_append, List.map_cons, List.sum_cons]
    rw [encChunk_length o c (hwf c (by simp)), ih (fun c' h => hwf c' (by simp [h]))]

/-! (c) offset lookup mirrors the walk -/

theorem offset_lookup_hit (before : List SChunk) (c : SChunk) (after : List SChunk) :
    getByOffset ((before ++ c :: after).map SChunk.view) (offsetAfter before) = .ok c.view := by
  have := getByOffsetAux_hit before c after 12
  unfold getByOffset offsetAfter
  rw [← this]; congr 1

theorem offset_lookup_miss (cs : List SChunk) (q : Int)
    (h : ∀ before c after, cs = before ++ c :: after → q ≠ (offsetAfter before : Int)) :
    getByOffset (cs.map SChunk.view) q = .error .index := by
  apply getByOffsetAux_miss
  intro pre c post hcs
  have := h pre c post hcs
  unfold offsetAfter at this
  intro e; apply this; rw [e]; push_cast; rfl

/-! (d) imap / mmap round trips over all field values -/

theorem imap_roundtrip (o : Order) (m : Imap) (last : Int) (h : m.WF) : parseImap (encImap o m last) o = .ok m :=
  parseImap_encImap o m last h

theorem mmap_roundtrip (o : Order) (h : SMmapHdr) (es : List SEntry) (tail : Bytes)
    (hh : h.WF) (hn : es.length < 2 ^ 31) (hwf : ∀ e ∈ es, e.WF) :
    parseMmap (encMmap o h es tail) o =
      .ok ⟨h.propertiesSize, h.resourceSize, h.maxCount, es.length, h.firstJunk, h.oldMap, h.firstFree, es.map SEntry.view⟩ :=
  parseMmap_encMmap o h es tail hh hn hwf

/-! (e) designated bytes: a map entry whose recorded offset is the absolute file position of a chunk (prefix
    included) is found, through the lookup at `offset - prefix`, with exactly that chunk's sanitised type and payload -/

theorem designated_bytes (o : Order) (pre : Bytes) (len : Int) (hlen : In32 len)
    (before : List SChunk) (c : SChunk) (after : List SChunk) (hwf : ∀ x ∈ before ++ c :: after, x.WF)
    (entryOffset : Int) (he : entryOffset = (pre.length : Int) + (offsetAfter before : Int)) :
    (parseRiff (encMovie o pre len (before ++ c :: after)) pre.length o).bind
        (fun chunks => getByOffset chunks (entryOffset - pre.length)) = .ok c.view := by
  rw [walk_partition o pre len hlen _ hwf]
  simp only [Except.bind]
  have : entryOffset - (pre.length : Int) = (offsetAfter before : Int) := by omega
  rw [this]; exact offset_lookup_hit before c after

/-! (f) the embedded-movie locator returns the first genuine header, whatever decoys precede it -/

theorem locator_first_genuine (b : Bytes) (p : Nat) (hg : Genuine b p) (hmin : ∀ q, q < p → ¬ Genuine b q) :
    findRiffInExe b = p :=
  findRiffInExe_first_genuine b p hg hmin

/-! (g) tie to the source: constants and struct formats REGENERATED from /repo on every run (harness/gen_riff.py) equal
    what the hand-written model reads (markers, the `iiihhii` / `hhiiiii` + `i i h h i` / `cccc` + `i` layouts) -/

theorem gen_markers :
    RIFX = Gen.RiffConsts.rifxFileFormat.toList ∧ MV93 = Gen.RiffConsts.mv93FileType.toList ∧
    XFIR = Gen.RiffConsts.rifxLeHeader.toList.map (fun c => UInt8.ofNat c.toNat) ∧
    VM39 = Gen.RiffConsts.mv93LeHeader.toList.map (fun c => UInt8.ofNat c.toNat) := by decide

theorem gen_formats :
    Gen.RiffConsts.imapFormats = ["iiihhii"] ∧ Gen.RiffConsts.mmapFormats = ["hhiiiii", "i", "i", "h", "h", "i"] ∧
    Gen.RiffConsts.chunkFormats = ["cccc", "i"] := by decide

/-! (h) the fixed-offset readers of the model ARE the generic reader over the field layouts regenerated from the
    Python source on every run (offset, width, signedness of every `struct.unpack` in imap.py / mmap.py) -/

theorem imap_reader_is_generated_layout (d : Bytes) (o : Order) :
    parseImap d o =
      (if d.length ≠ 24 then .error .struct else
       match Layout.readLayout o d 0 Gen.RiffLayouts.imap with
       | .ok [a, b, c, e, f, g, _] => .ok ⟨a, b, c, e, f, g⟩
       | .ok _ => .error .other
       | .error e => .error e) := parseImap_eq_layout d o

theorem mmap_entry_reader_is_generated_layout (d : Bytes) (off : Nat) (o : Order) :
    parseMmapEntry d off o =
      (match parseChunkId d off o with
       | .error e => .error e
       | .ok id =>
         match Layout.readLayout o d off Gen.RiffLayouts.mmapEntry with
         | .ok [size, offs, flag, unus, nxt] => .ok ⟨id, size, offs, flag, unus, nxt⟩
         | .ok _ => .error .other
         | .error e => .error e) := parseMmapEntry_eq_layout d off o

theorem mmap_header_reader_is_generated_layout (d : Bytes) (o : Order) :
    parseMmap d o =
      (if (slice d 0 24).length ≠ 24 then .error .struct else
       match Layout.readLayout o d 0 Gen.RiffLayouts.mmapHeader with
       | .ok [a, b, c, u, j, om, ff] =>
         (match parseMmapEntries d o u.toNat 24 with
          | .ok rs => .ok ⟨a, b, c, u, j, om, ff, rs⟩
          | .error e => .error e)
       | .ok _ => .error .other
       | .error e => .error e) := parseMmap_eq_layout d o

/-! ### non-vacuity: the hypotheses are met by concrete, non-trivial objects -/

def exChunks : List SChunk := [⟨[0x69, 0x6d, 0x61, 0x70], [1, 2, 3]⟩, ⟨[0x80, 0xff, 0x00, 0x7b], []⟩, ⟨[0x41, 0x42, 0x43, 0x44], [9]⟩]

instance (i : Int) : Decidable (In32 i) := by unfold In32; exact inferInstance
instance (i : Int) : Decidable (In16 i) := by unfold In16; exact inferInstance
instance (b : Bytes) (p : Nat) : Decidable (Genuine b p) := by unfold Genuine; exact inferInstance

theorem exChunks_wf : ∀ c ∈ exChunks, c.WF := by decide
example : parseRiff (encMovie .le [7, 7, 7] 100 exChunks) 3 .le = .ok (exChunks.map SChunk.view) :=
  walk_partition .le [7, 7, 7] 100 (by decide) exChunks exChunks_wf
example : (exChunks.map SChunk.view).map (·.id) = ["imap".toList, "____".toList, "ABCD".toList] := by decide
example : In32 (-1) ∧ In16 (-32768) := by decide
-- a decoy `XFIR` (without `39VM`) at 5, preceded by an overlapping partial decoy, the genuine header at 9
def exExe : Bytes := [0x58, 0x46, 0x58, 0x46, 0x49] ++ XFIR ++ XFIR ++ [0, 0, 0, 0] ++ VM39
theorem exExe_genuine : Genuine exExe 9 ∧ ∀ q, q < 9 → ¬ Genuine exExe q := by
  refine ⟨by decide, ?_⟩
  intro q hq
  have : q = 0 ∨ q = 1 ∨ q = 2 ∨ q = 3 ∨ q = 4 ∨ q = 5 ∨ q = 6 ∨ q = 7 ∨ q = 8 := by omega
  rcases this with rfl | rfl | rfl | rfl | rfl | rfl | rfl | rfl | rfl <;> decide
example : findRiffInExe exExe = 9 := locator_first_genuine exExe 9 exExe_genuine.1 exExe_genuine.2

end Drx.C01
