/-
  C18 — The extractor writes exactly the designated resources, inside its output folder.
  Model: Drx/Xtract.lean (`extractPlan` = which files riffxtract.main() writes into <out>/bin and how the run ends).
  What Lean cannot show (OS semantics of os.path.join / open('wb')) is observed by the harness with an audit hook.
-/
import Drx.Xtract
import DrxProofs.Xtract
import Drx.Gen.RiffConsts
namespace Drx.C18
open Drx Drx.Riff Drx.Xtract

/-! every planned file name is made of `[A-Za-z0-9\-_.]` only — whatever the FourCC bytes were -/

theorem names_safe (idx : Nat) (id : List Char) : ∀ c ∈ fileName idx id, IsSafe c :=
  fileName_safe idx id

/-- hence no path separator, no backslash, no NUL -/
theorem names_no_separator (idx : Nat) (id : List Char) :
    ∀ c ∈ fileName idx id, c ≠ '/' ∧ c ≠ '\\' ∧ c.toNat ≠ 0 :=
  fun c hc => (fileName_safe idx id c hc).not_sep

/-- a name starts with a decimal digit: it is non-empty and is neither `.` nor `..` nor a hidden or absolute path -/
theorem names_start_with_digit (idx : Nat) (id : List Char) :
    ∃ c rest, fileName idx id = c :: rest ∧ 48 ≤ c.toNat ∧ c.toNat ≤ 57 :=
  fileName_head_digit idx id

/-- two resources with different indices never share a file name (no resource overwrites another) -/
theorem names_injective (i j : Nat) (id1 id2 : List Char) (h1 : id1.length = 4) (h2 : id2.length = 4)
    (h : fileName i id1 = fileName j id2) : i = j :=
  fileName_injective i j id1 id2 h1 h2 h

/-- the plan is a function of the file bytes, the byte order and the `.EXE` suffix alone: a second run writes the same files -/
theorem plan_pure (isExe : Bool) (o : Order) (d d' : Bytes) (h : d = d') : extractPlan isExe o d = extractPlan isExe o d' := by
  rw [h]

/-- For every well-formed movie (any prefix, both byte orders, any FourCC bytes, payload lengths < 2^31): if chunk 0 is the
    imap, the imap points at the mmap chunk, and every map entry is either ignored (type RIFX/imap/mmap/free/junk or
    size <= 0) or designates a chunk of the movie by its absolute offset and type, then the run ends normally and writes
    exactly one file per non-ignored entry, named from the entry's index and the sanitised type, containing that chunk's payload. -/
theorem plan_exact (o : Order) (isExe : Bool) (pre : Bytes) (len : Int) (hlen : In32 len)
    (c0 : SChunk) (rest : List SChunk) (hwf : ∀ c ∈ c0 :: rest, c.WF)
    (im : Imap) (imLast : Int) (him : im.WF)
    (hc0id : c0.id.map sanitize = "imap".toList) (hc0 : c0.data = encImap o im imLast)
    (mBefore : List SChunk) (mc : SChunk) (mAfter : List SChunk) (hsplit : c0 :: rest = mBefore ++ mc :: mAfter)
    (himoff : im.offset = (pre.length : Int) + (offsetAfter mBefore : Int))
    (hmcid : mc.id.map sanitize = "mmap".toList)
    (hdr : SMmapHdr) (pairs : List (SEntry × Option SChunk)) (tail : Bytes) (hhdr : hdr.WF) (hn : pairs.length < 2 ^ 31)
    (hmcdata : mc.data = encMmap o hdr (pairs.map (·.1)) tail) (hewf : ∀ p ∈ pairs, p.1.WF)
    (hres : ∀ p ∈ pairs, Resolved (c0 :: rest) pre.length p)
    (hoff : (if isExe then findRiffInExe (encMovie o pre len (c0 :: rest)) else 0) = pre.length) :
    extractPlan isExe o (encMovie o pre len (c0 :: rest)) = ⟨expectedFiles pairs 0, .done⟩ := by
  unfold extractPlan
  simp only [hoff]
  rw [parseRiff_encMovie o pre len hlen _ hwf]
  simp only [List.map_cons]
  have h0 : (SChunk.view c0).id = "imap".toList := hc0id
  simp only [h0, ne_eq, not_true_eq_false, if_false]
  have h0d : (SChunk.view c0).data = encImap o im imLast := hc0
  rw [h0d, parseImap_encImap o im imLast him]
  simp only []
  have hlook : getByOffset (SChunk.view c0 :: List.map SChunk.view rest) (im.offset - (pre.length : Int)) = .ok mc.view := by
    have e : SChunk.view c0 :: List.map SChunk.view rest = (c0 :: rest).map SChunk.view := rfl
    rw [e, hsplit]
    have : im.offset - (pre.length : Int) = (offsetAfter mBefore : Int) := by omega
    rw [this]
    have := getByOffsetAux_hit mBefore mc mAfter 12
    unfold getByOffset offsetAfter
    rw [← this]; congr 1
  rw [hlook]
  simp only []
  have h1 : (SChunk.view mc).id = "mmap".toList := hmcid
  simp only [h1, ne_eq, not_true_eq_false, if_false]
  have h1d : (SChunk.view mc).data = encMmap o hdr (pairs.map (·.1)) tail := hmcdata
  rw [h1d, parseMmap_encMmap o hdr _ tail hhdr (by simpa using hn) (by
    intro e he; simp only [List.mem_map] at he; obtain ⟨p, hp, rfl⟩ := he; exact hewf p hp)]
  simp only [List.map_map]
  have e : SChunk.view c0 :: List.map SChunk.view rest = (c0 :: rest).map SChunk.view := rfl
  rw [e]
  have := saveLoop_spec (c0 :: rest) pre.length pairs hres 0 []
  simp only [List.reverse_nil, List.nil_append] at this
  rw [← this]
  rfl

/-- when the plan's names are pairwise distinct the final directory content is the plan itself (nothing is overwritten) -/
theorem finalDir_of_distinct (files : List (List Char × Bytes)) (h : (files.map (·.1)).Nodup) :
    finalDir files = files := by
  unfold finalDir
  suffices ∀ (acc : List (List Char × Bytes)), (∀ f ∈ files, ∀ g ∈ acc, g.1 ≠ f.1) →
      files.foldl (fun acc f => (acc.filter (fun g => g.1 ≠ f.1)) ++ [f]) acc = acc ++ files by
    simpa using this [] (by simp)
  induction files with
  | nil => intro acc _; simp
  | cons f fs ih =>
    intro acc hacc
    simp only [List.map_cons, List.nodup_cons] at h
    simp only [List.foldl_cons]
    have hf : acc.filter (fun g => g.1 ≠ f.1) = acc := by
      apply List.filter_eq_self.2
      intro g hg; simpa using hacc f (by simp) g hg
    rw [hf, ih h.2]
    · simp
    · intro f' hf' g hg
      simp only [List.mem_append, List.mem_singleton] at hg
      rcases hg with hg | rfl
      · exact hacc f' (by simp [hf']) g hg
      · intro e; apply h.1; rw [e]; exact List.mem_map_of_mem hf'

/-- tie to the source: the ignore list, the output sub-folder and the SAVE_ALL_BLOCKS switch regenerated from
    riffxtract.py on every run are what the model uses -/
theorem gen_constants :
    ignoreIds = Gen.RiffConsts.chunksToIgnore.map String.toList ∧ Gen.RiffConsts.bindir = "bin" ∧
    Gen.RiffConsts.saveAllBlocks = false ∧ Gen.RiffConsts.imapFileFormat = "imap" ∧ Gen.RiffConsts.mmapFileFormat = "mmap" := by decide

/-! ### non-vacuity -/

example : fileName 7 "../x".toList = "7..._x".toList := by
  rw [fileName_eq, dec]; decide
example : IsSafe 'a' ∧ ¬ IsSafe '/' ∧ ¬ IsSafe ' ' := by unfold IsSafe; decide

end Drx.C18
