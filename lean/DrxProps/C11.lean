/-
  C11 — Constants are rendered as literals that evaluate to the original value.
  Model: Drx/Lscr/Const.lean (parse_lrcr_crb, escape_string, Int1b/Int2b, unpack_float80, ConstantValue.generate_lingo /
  generate_js); readers (the meaning of "evaluates to"): Drx/Lscr/LitEval.lean, LitEvalFloat.lean; helper lemmas:
  DrxProofs/LscrConst.lean, LscrLingoStr.lean, LscrFloat.lean.
-/
import Drx.Lscr
import Drx.Lscr.LitEval
import DrxProofs.LscrConst
import DrxProofs.LscrLingoStr
import DrxProofs.LscrFloat
namespace Drx.C11
open Drx Drx.Lscr

/-- the Lingo literal of a stored constant -/
def lingoLit (c : Name) : Str := (constLingo c).str
/-- the JavaScript literal of a stored constant -/
def jsLit (c : Name) : Str := (constJs c).str

/-! ### the property at full strength -/

/-- strings: for every byte string, both literals evaluate to its Mac-Roman decoding -/
def StringOk (bs : Bytes) : Prop :=
  ∀ s, decodeText .macRoman bs = .ok s →
    evalLingoLit (lingoLit (.s (escapeString s))) = some s ∧ evalJsLit (jsLit (.s (escapeString s))) = some s

/-- C11 for strings at full strength. It does NOT hold (findings F15–F17: see the witnesses below); what holds is
    `js_string` for every byte string and `lingo_string_partial` on the decidable domain `LingoSafe`. -/
def C11_strings_full : Prop := ∀ bs : Bytes, StringOk bs

/-! ### tables -/

/-- every value of REPLACEMENT_CONSTANTS is non-empty (the replacement loop makes progress) -/
theorem repl_values_nonempty : ∀ kv ∈ replacementConstants, kv.2 ≠ [] := by decide

/-- REPLACEMENT_CONSTANTS as the model and the theorems below read it (regenerated from /repo each run): QUOTE first -/
theorem replacementConstants_eq : replacementConstants =
    [(S "QUOTE", S "\""), (S "BACKSPACE", S "\\x08"), (S "ENTER", S "\\x03"), (S "RETURN", S "\\r"), (S "TAB", S "\\t")] := by decide

/-- each named replacement denotes the character its escape sequence stands for -/
theorem replacement_values_agree : ∀ kv ∈ replacementConstants,
    evalLingoLit kv.1 = (jsStrBody (kv.2.flatMap jsQuote ++ ['"'])).map Prod.fst := by decide

/-- PREDEFINED_CONSTANTS: the whole-string table maps the stored text of a one-character (or empty) string to the named
    constant with that value -/
theorem predefined_values_agree : ∀ kv ∈ predefinedConstants,
    evalLingoLit kv.2 = (jsStrBody (kv.1.drop 1)).map Prod.fst ∨ (kv.1 = S "\"\"\"" ∧ evalLingoLit kv.2 = some ['"']) := by decide

/-! ### integers -/

/-- all 256 one-byte inline integers: sign extension, and both literals read back as the value -/
theorem int_inline_1b (p1 : Nat) (h : p1 < 256) :
    int1b p1 = toSigned 8 p1 ∧
    evalIntLit (lingoLit (.s (intStr (int1b p1)))) = some (toSigned 8 p1) ∧
    evalIntLit (jsLit (.s (intStr (int1b p1)))) = some (toSigned 8 p1) := by
  have e : int1b p1 = toSigned 8 p1 := by simp only [int1b, toSigned]; split <;> split <;> omega
  refine ⟨e, ?_, ?_⟩
  · rw [lingoLit, constLingo_intStr, Name.str, evalIntLit_intStr, e]
  · rw [jsLit, constJs_intStr, Name.str, evalIntLit_intStr, e]

/-- all 65536 two-byte inline integers -/
theorem int_inline_2b (p1 p2 : Nat) (h1 : p1 < 256) (h2 : p2 < 256) :
    int2b p1 p2 = toSigned 16 (p1 * 256 + p2) ∧
    evalIntLit (lingoLit (.s (intStr (int2b p1 p2)))) = some (toSigned 16 (p1 * 256 + p2)) ∧
    evalIntLit (jsLit (.s (intStr (int2b p1 p2)))) = some (toSigned 16 (p1 * 256 + p2)) := by
  have e : int2b p1 p2 = toSigned 16 (p1 * 256 + p2) := by simp only [int2b, toSigned]; split <;> split <;> omega
  refine ⟨e, ?_, ?_⟩
  · rw [lingoLit, constLingo_intStr, Name.str, evalIntLit_intStr, e]
  · rw [jsLit, constJs_intStr, Name.str, evalIntLit_intStr, e]

/-- pool integers (stored as `str(value)` by parse_lrcr_crb): every integer, in particular every 32-bit one -/
theorem int_pool (v : Int) :
    evalIntLit (lingoLit (.s (intStr v))) = some v ∧ evalIntLit (jsLit (.s (intStr v))) = some v := by
  constructor
  · rw [lingoLit, constLingo_intStr, Name.str, evalIntLit_intStr]
  · rw [jsLit, constJs_intStr, Name.str, evalIntLit_intStr]

example : evalIntLit (lingoLit (.s (intStr (int1b 200)))) = some (-56) := by
  have := (int_inline_1b 200 (by omega)).2.1; simpa [toSigned] using this

/-! ### strings: JavaScript -/

/-- the JavaScript literal evaluates to the decoded string for EVERY byte string -/
theorem js_string (bs : Bytes) (s : Str) (h : decodeText .macRoman bs = .ok s) :
    evalJsLit (jsLit (.s (escapeString s))) = some s :=
  evalJsLit_constJs s (decodeText_macRoman_small bs s h)

/-- the same for any text without characters above U+FFFF (what any of the table codecs can produce) -/
theorem js_string_text (s : Str) (hs : ∀ c ∈ s, c.toNat < 65536) : evalJsLit (jsLit (.s (escapeString s))) = some s :=
  evalJsLit_constJs s hs

example : evalJsLit (jsLit (.s (escapeString ['a', '"', '\\', '\t', Char.ofNat 8, Char.ofNat 0xE9]))) =
    some ['a', '"', '\\', '\t', Char.ofNat 8, Char.ofNat 0xE9] :=
  js_string_text _ (by decide)

/-! ### strings: Lingo -/

/-- bytes that are printable ASCII other than the backslash and the quote -/
def plainByte (b : UInt8) : Bool := 32 ≤ b.toNat && b.toNat < 127 && b.toNat != 92 && b.toNat != 34

/-- first partial result: text made of plain characters only (no quote, backslash, control or non-ASCII character) is
    written as one quoted literal, which Lingo reads back as the text — for every length -/
theorem lingo_string_plain (s : Str) (h : ∀ c ∈ s, plainChar c = true) :
    evalLingoLit (lingoLit (.s (escapeString s))) = some s := by
  have he : escapeString s = '"' :: (s ++ ['"']) := by simp [escapeString, unicodeEscape_plain s h]
  rw [lingoLit, he]
  cases hs : s with
  | nil => decide
  | cons c cs =>
    rw [← hs]
    have hq : startsWith ('"' :: (s ++ ['"'])) ['"'] = true := by simp [startsWith, List.isPrefixOf]
    simp only [constLingo, predefined_lookup_plain s h (by rw [hs]; simp), hq, if_true, replaceChars_plain s h, Name.str]
    exact evalLingoLit_quoted s (plain_ne_quote s h)

example : evalLingoLit (lingoLit (.s (escapeString (S "String constant")))) = some (S "String constant") :=
  lingo_string_plain _ (by decide)

/-- a safe byte decodes (Mac-Roman) to a safe character -/
theorem safeByte_safeChar : ∀ n, n < 256 → lingoSafeByte (UInt8.ofNat n) = true →
    (match decodeByte .macRoman (UInt8.ofNat n) with | some c => safeChar c | none => false) = true := by
  decide +kernel

theorem safeChars_of_LingoSafe (bs : Bytes) (hb : LingoSafe bs) (s : Str) (hd : decodeText .macRoman bs = .ok s) :
    ∀ c ∈ s, safeChar c = true := by
  simp only [decodeText] at hd
  refine mapM_all_mem (P := fun c => safeChar c = true) bs s ?_ hd
  intro b hbm c hc
  have hb0 : lingoSafeByte b = true := hb b hbm
  have hsb := safeByte_safeChar b.toNat (UInt8.toNat_lt b) (by simpa using hb0)
  simp only [UInt8.ofNat_toNat] at hsb
  split at hc
  · rename_i ch hdb
    cases hc
    rw [hdb] at hsb
    exact hsb
  · cases hc

/-- C11 for strings on the decidable domain `LingoSafe` (printable ASCII other than the backslash, BACKSPACE, ENTER, RETURN,
    TAB — the complement of findings F15–F17), for every length: BOTH literals evaluate to the string. -/
theorem lingo_string_partial (bs : Bytes) (hb : LingoSafe bs) : StringOk bs := by
  intro s hd
  exact ⟨evalLingoLit_constLingo_safe s (safeChars_of_LingoSafe bs hb s hd), js_string bs s hd⟩

/-- in terms of text: any string of safe characters -/
theorem lingo_string_safe_text (s : Str) (hs : ∀ c ∈ s, safeChar c = true) :
    evalLingoLit (lingoLit (.s (escapeString s))) = some s :=
  evalLingoLit_constLingo_safe s hs

/-- non-vacuity: quotes, all four named control characters, `& "` before a named character (the old F18 shape) -/
example : evalLingoLit (lingoLit (.s (escapeString (S "a\"b\t\r& \"" ++ [Char.ofNat 8, Char.ofNat 3] ++ S "\"\"")))) =
    some (S "a\"b\t\r& \"" ++ [Char.ofNat 8, Char.ofNat 3] ++ S "\"\"") :=
  lingo_string_safe_text _ (by decide)

example : LingoSafe [0x61, 0x22, 0x09, 0x08, 0x26, 0x20, 0x22, 0x0D] := by decide

/-! ### witnesses of the open findings (the full statement fails) -/

instance : DecidableEq (R Str) := fun a b =>
  match a, b with
  | .ok x, .ok y => if h : x = y then isTrue (by rw [h]) else isFalse (by intro e; cases e; exact h rfl)
  | .error x, .error y => if h : x = y then isTrue (by rw [h]) else isFalse (by intro e; cases e; exact h rfl)
  | .ok _, .error _ => isFalse (by intro e; cases e)
  | .error _, .ok _ => isFalse (by intro e; cases e)

theorem replLoop_none (k v n : Str) (idx : Nat) (h : pyFind n v idx (n.length - 1) = -1) :
    replLoop k v n idx (pyFind n v idx (n.length - 1)) = n := by
  rw [h]; exact replLoop_nonpos k v n idx (-1) (by decide)

/-- F15: a backslash is written doubled, Lingo reads two backslashes -/
theorem C11_witness_F15 : evalLingoLit (lingoLit (.s (escapeString ['\\']))) = some ['\\', '\\'] := by
  have he : escapeString ['\\'] = ['"', '\\', '\\', '"'] := by decide
  have hl : predefinedConstants.lookup ['"', '\\', '\\', '"'] = none := by decide
  have hr : replaceCharsWithLingoConstants ['"', '\\', '\\', '"'] = ['"', '\\', '\\', '"'] := by
    unfold replaceCharsWithLingoConstants
    rw [replacementConstants_value]
    simp only [List.foldl_cons, List.foldl_nil]
    rw [replLoop_none (S "QUOTE") (S "\"") ['"', '\\', '\\', '"'] 1 (by decide), replLoop_none (S "BACKSPACE") (S "\\x08") ['"', '\\', '\\', '"'] 1 (by decide),
      replLoop_none (S "ENTER") (S "\\x03") ['"', '\\', '\\', '"'] 1 (by decide), replLoop_none (S "RETURN") (S "\\r") ['"', '\\', '\\', '"'] 1 (by decide),
      replLoop_none (S "TAB") (S "\\t") ['"', '\\', '\\', '"'] 1 (by decide)]
  rw [lingoLit, he]
  simp only [constLingo, hl, hr, Name.str]
  decide

theorem C11_strings_full_fails_F15 : ¬ StringOk [92] := by
  intro h
  have hd : decodeText .macRoman [92] = .ok ['\\'] := by decide +kernel
  have := (h _ hd).1
  rw [C11_witness_F15] at this
  exact absurd this (by decide)

/-- F16: a byte above 0x7E (here 0x8E, é) appears as a Python escape inside the quotes -/
theorem C11_witness_F16 : evalLingoLit (lingoLit (.s (escapeString [Char.ofNat 0xE9]))) = some ['\\', 'x', 'e', '9'] := by
  have he : escapeString [Char.ofNat 0xE9] = ['"', '\\', 'x', 'e', '9', '"'] := by decide
  have hl : predefinedConstants.lookup ['"', '\\', 'x', 'e', '9', '"'] = none := by decide
  have hr : replaceCharsWithLingoConstants ['"', '\\', 'x', 'e', '9', '"'] = ['"', '\\', 'x', 'e', '9', '"'] := by
    unfold replaceCharsWithLingoConstants
    rw [replacementConstants_value]
    simp only [List.foldl_cons, List.foldl_nil]
    rw [replLoop_none (S "QUOTE") (S "\"") ['"', '\\', 'x', 'e', '9', '"'] 1 (by decide), replLoop_none (S "BACKSPACE") (S "\\x08") ['"', '\\', 'x', 'e', '9', '"'] 1 (by decide),
      replLoop_none (S "ENTER") (S "\\x03") ['"', '\\', 'x', 'e', '9', '"'] 1 (by decide), replLoop_none (S "RETURN") (S "\\r") ['"', '\\', 'x', 'e', '9', '"'] 1 (by decide),
      replLoop_none (S "TAB") (S "\\t") ['"', '\\', 'x', 'e', '9', '"'] 1 (by decide)]
  rw [lingoLit, he]
  simp only [constLingo, hl, hr, Name.str]
  decide

theorem C11_strings_full_fails_F16 : ¬ StringOk [0x8E] := by
  intro h
  have hd : decodeText .macRoman [0x8E] = .ok [Char.ofNat 0xE9] := by decide +kernel
  have := (h _ hd).1
  rw [C11_witness_F16] at this
  exact absurd this (by decide)

/-- F17: a literal backslash followed by `t` is taken for the TAB escape: `x\ty` is written `"x\" & TAB & "y"` -/
theorem C11_witness_F17 :
    evalLingoLit (lingoLit (.s (escapeString ['x', '\\', 't', 'y']))) = some ['x', '\\', '\t', 'y'] := by
  have he : escapeString ['x', '\\', 't', 'y'] = ['"', 'x', '\\', '\\', 't', 'y', '"'] := by decide
  have hl : predefinedConstants.lookup ['"', 'x', '\\', '\\', 't', 'y', '"'] = none := by decide
  have hr : replaceCharsWithLingoConstants ['"', 'x', '\\', '\\', 't', 'y', '"'] = S "\"x\\\" & TAB & \"y\"" := by
    unfold replaceCharsWithLingoConstants
    rw [replacementConstants_value]
    simp only [List.foldl_cons, List.foldl_nil]
    rw [replLoop_none (S "QUOTE") (S "\"") _ 1 (by decide), replLoop_none (S "BACKSPACE") (S "\\x08") _ 1 (by decide),
      replLoop_none (S "ENTER") (S "\\x03") _ 1 (by decide), replLoop_none (S "RETURN") (S "\\r") _ 1 (by decide)]
    have hp : pyFind ['"', 'x', '\\', '\\', 't', 'y', '"'] (S "\\t") 1 (['"', 'x', '\\', '\\', 't', 'y', '"'].length - 1) = 3 := by decide
    rw [hp, replLoop]
    have hstep : replStep (S "TAB") (S "\\t") ['"', 'x', '\\', '\\', 't', 'y', '"'] 3 = (S "\"x\\\" & TAB & \"y\"", 14) := by decide
    simp only [show ((3 : Int) > 0) from by decide, if_true, show (3 : Int).toNat = 3 from rfl, hstep]
    rw [dif_pos (by decide)]
    exact replLoop_none (S "TAB") (S "\\t") _ 14 (by decide)
  rw [lingoLit, he]
  simp only [constLingo, hl, hr, Name.str]
  decide

theorem C11_strings_full_false : ¬ C11_strings_full := fun h => C11_strings_full_fails_F15 (h _)

/-! ### floats

  An 80-bit extended constant with sign/exponent word `e` and mantissa `q` has the value ±q·2^(k−63), k = (e mod 2^15) − 16383.
  `unpack_float80` computes `(q*2.0)/(1<<64) * pow(2, k)` in double arithmetic — two roundings — and prints it with `'%s'`.  -/

/-- no hypothesis: whenever the nearest double of the value is not in the denormal range (`bitLen q − 53 + k − 63 ≥ −1074`),
    the two roundings of the Python expression give the correctly rounded value (or infinity, which prints as `inf`: F19) -/
theorem float80_correctly_rounded (q : Nat) (k : Int) (hq0 : q ≠ 0) (hq : q < 2 ^ 64) (hk : k ≤ 1023)
    (hn : -1074 ≤ (bitLen q : Int) - 53 + (k - 63)) : float80Value q k = .ok (roundDbl q (k - 63)) :=
  float80Value_normal hq0 hq k hk hn

/-- normal 80-bit values (explicit integer bit set): exactly the exponents −1022 … 1023 of normal doubles -/
theorem float80_normal_values (q : Nat) (k : Int) (hq63 : 2 ^ 63 ≤ q) (hq : q < 2 ^ 64) (h1 : -1022 ≤ k) (h2 : k ≤ 1023) :
    float80Value q k = .ok (roundDbl q (k - 63)) := by
  have hb : bitLen q = 64 := bitLen_of_range hq63 hq
  have hq0 : q ≠ 0 := by have := Nat.two_pow_pos 63; omega
  exact float80Value_normal hq0 hq k h2 (by rw [hb]; omega)

/-- **C11 for floats, partial** — hypothesis (a premise, not an axiom): `repr(float)` round-trips (`ReprRoundTrips`: the
    shortest-digits text of a finite double reads back as that double).  Then for every 80-bit constant whose nearest double
    `m·2^ex` is normal, the text `unpack_float80` returns reads back as exactly that double with the constant's sign.
    Outside this domain: zero prints `0.0` (right), the denormal range is finding F102, infinities / NaN / beyond the
    double range are finding F19. -/
theorem float_normal_partial (H : ReprRoundTrips) (e q : Nat) (he : e < 65536) (hq0 : q ≠ 0) (hq : q < 2 ^ 64)
    (k : Int) (hk' : k = ((if e ≥ 0x8000 then e - 0x8000 else e : Nat) : Int) - 16383) (hk : k ≤ 1023)
    (hn : -1074 ≤ (bitLen q : Int) - 53 + (k - 63)) (m : Nat) (ex : Int) (hfin : roundDbl q (k - 63) = .fin m ex) :
    ∃ t, unpackFloat80 (f80Bytes e q) = .ok t ∧ readDbl t = some (decide (e ≥ 0x8000), .fin m ex) :=
  unpackFloat80_normal H e q he hq0 hq k hk' hk hn m ex hfin

/-- the hypothesis holds on samples (checked on every run for thousands of doubles by `lscr readdbl`); here 0.1 and 2^-1022 -/
example : readDbl (reprDbl false (.fin 0x1999999999999a (-56))) = some (false, .fin 0x1999999999999a (-56)) := by decide +kernel
example : reprDbl false (.fin 0x1999999999999a (-56)) = S "0.1" := by decide +kernel

/-- F102: in the denormal range the second rounding is not exact — `bbcc 91cd311c52bafb59` (k = −1075): the value is above
    half of the smallest denormal (nearest double: 5e-324) but the computed product is 0.0 -/
theorem C11_witness_F102 : (float80Value 0x91cd311c52bafb59 (-1075)).toOption = some (.fin 0 (-1074)) ∧
    roundDbl 0x91cd311c52bafb59 (-1075 - 63) = .fin 1 (-1074) := by decide +kernel

end Drx.C11
