import Drx.Lscr
import Drx.Lscr.LitEval
namespace Drx.C11
open Drx Drx.Lscr

/-- every value of REPLACEMENT_CONSTANTS is non-empty (the replacement loop makes progress) -/
theorem repl_values_nonempty : ∀ kv ∈ replacementConstants, kv.2 ≠ [] := by decide

end Drx.C11
