/-
  C02 — decompiled Lingo denotes the compiled statements and expressions.
  Statements about the SPEC layer (compile scheme, reference reader, reference printer); the decompiler itself enters
  as an abstract function parameter `decompile` (the model lean/Drx/Lscr* is plugged in by the link theorems).
-/
import Drx.Spec.Compile
import Drx.Spec.LingoRead
import DrxProofs.SpecCompile
namespace DrxProps.C02
open Drx Drx.Spec

/-- The property at full strength: for every source script the scheme can compile, the text the decompiler emits for the
    compiled bytes reads (reference grammar) as that very script, and recompiling what was read with the same name table
    reproduces the original container byte for byte. -/
def C02_full (decompile : Bytes → Bytes → Option (List Char)) : Prop :=
  ∀ (o : Options) (s : Script) (c : Compiled), compile o s = .ok c →
    ∃ text, decompile c.lscr c.lnam = some text ∧ readLingo text = some s ∧
      (compile { o with pre := c.names } s).toOption.map (·.lscr) = some c.lscr

/-- L1: the instruction decoder inverts the scheme's instruction encoder (all opcode ranges, 1- and 2-byte operands) -/
theorem instr_roundtrip (is : List Instr) (h : ∀ i ∈ is, i.WF) : decodeInstrs (encodeInstrs is) = some is :=
  decode_encode is h

example : decodeInstrs (encodeInstrs [.op2 0x41 5, .op3 0x81 300, .op1 0x05, .op2 0x52 0, .op3 0x95 9, .op1 0x01])
    = some [.op2 0x41 5, .op3 0x81 300, .op1 0x05, .op2 0x52 0, .op3 0x95 9, .op1 0x01] := by
  apply instr_roundtrip; decide

/-- the encoded length is the sum of the instruction sizes (what every jump offset of the scheme is computed from) -/
theorem encoded_length (is : List Instr) : (encodeInstrs is).length = codeSize is := encodeInstrs_length is

end DrxProps.C02
