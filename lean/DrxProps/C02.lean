/-
  C02 — decompiled Lingo denotes the compiled statements and expressions.
  Statements about the SPEC layer (compile scheme, reference reader, reference printer); the decompiler itself enters
  as an abstract function parameter `decompile` (the model lean/Drx/Lscr* is plugged in by the link theorems).
-/
import Drx.Spec.Compile
import Drx.Spec.LingoRead
import DrxProofs.SpecCompile
import DrxProofs.SpecLingo
namespace DrxProps.C02
open Drx Drx.Spec

/-- The property at full strength: for every source script the scheme can compile, the text the decompiler emits for the
    compiled bytes reads (reference grammar) as that very script, and recompiling what was read with the same name table
    reproduces the original container byte for byte. -/
def C02_full (decompile : Bytes → Bytes → Option (List Char)) : Prop :=
  ∀ (o : Options) (s : Script) (c : Compiled), compile o s = .ok c →
    ∃ text, decompile c.lscr c.lnam = some text ∧ readLingo text = some s ∧
      (compile { o with pre := c.names } s).toOption.map (·.lscr) = some c.lscr

/-- L1: the instruction decoder inverts the scheme's instruction encoder (all opcode ranges, 1- and 2-byte operands) -/
theorem instr_roundtrip (is : List Instr) (h : ∀ i ∈ is, i.WF) : decodeInstrs (encodeInstrs is) = some is :=
  decode_encode is h

example : decodeInstrs (encodeInstrs [.op2 0x41 5, .op3 0x81 300, .op1 0x05, .op2 0x52 0, .op3 0x95 9, .op1 0x01])
    = some [.op2 0x41 5, .op3 0x81 300, .op1 0x05, .op2 0x52 0, .op3 0x95 9, .op1 0x01] := by
  apply instr_roundtrip; decide

/-- the encoded length is the sum of the instruction sizes (what every jump offset of the scheme is computed from) -/
theorem encoded_length (is : List Instr) : (encodeInstrs is).length = codeSize is := encodeInstrs_length is

/-! ### L6: the reference reader inverts the reference printer (unbounded: every expression tree of the fragment) -/

/-- 7(b), expression fragment (literals, symbols, variables of the four kinds, unary minus / not, all 19 binary operators — the 17
    infix ones fully parenthesised, `sprite a intersects|within b` as the prefix form —, `field`, function calls with any number of
    arguments, linear lists, chunk expressions `char a [to b] of s` (nested in any order); nesting depth and width unbounded): the token list the reference
    printer writes (fully parenthesised, as the decompiler prints) is read back by the reference reader as the same tree, at
    every precedence level and followed by anything that cannot continue an expression.
    `Frag env e` says that `env` classifies every identifier the way the tree does (a local is not declared global, a called
    name is not a variable, no identifier is a word of the grammar); `fuelOf e` is linear in the size of `e`. -/
theorem read_print_expr (env : Env) (e : Expr) (h : Frag env e) (lvl : Nat) (h1 : 1 ≤ lvl) (h5 : lvl ≤ 5)
    (rest : List Tok) (hf : Follow lvl rest) (hn : NoLp rest) (F : Nat) (hF : fuelOf e + 6 ≤ F) :
    pLevel env F lvl (prE e ++ rest) = some (e, rest) :=
  level_of_e5 env e rest (fuelOf e) (fun F' hF' => rp_e5 env e h rest hn F' hF') lvl h1 h5 hf F hF

/-- the whole-expression instance: `pExpr (prE e) = e` -/
theorem read_print_expr_whole (env : Env) (e : Expr) (h : Frag env e) (F : Nat) (hF : fuelOf e + 6 ≤ F) :
    pExpr env F (prE e) = some (e, []) := by
  have := read_print_expr env e h 1 (Nat.le_refl 1) (by omega) [] trivial trivial F hF
  simpa [pExpr] using this

/-- argument / element lists: `, a, b, c )` and `, a, b, c ]` -/
theorem read_print_args (env : Env) (es : List Expr) (h : FragL env es) (c : Tok) (hc : c = .p .rp ∨ c = .p .rb)
    (rest : List Tok) (F : Nat) (hF : fuelOfL es + 1 ≤ F) :
    pMore env F (prTail es ++ c :: rest) = some (es, c :: rest) :=
  rp_more env es h c hc rest F hF

/-- non-vacuity: `((a - (b - 1)) * f(-x, not (a = "s"), [sprite 1 within (x + 2), []], char 2 to (3 + 1) of word 1 of field x))` with `a` a parameter, `b` a global, `x` a local is in the fragment,
    so the theorem applies to it (and the reader indeed returns the tree) -/
example :
    let env : Env := { params := ["a".toList], globals := ["b".toList] }
    let e : Expr := .bin .mul (.bin .sub (.var .param "a".toList) (.bin .sub (.var .glob "b".toList) (.int 1)))
      (.call "f".toList [.un .neg (.var .loc "x".toList), .un .not (.bin .eq (.var .param "a".toList) (.str "s".toList)),
        .list [.bin .within (.int 1) (.bin .add (.var .loc "x".toList) (.int 2)), .list []],
        .chunk .char (.int 2) (.bin .add (.int 3) (.int 1)) (.chunk .word (.int 1) (.int 0) (.field (.var .loc "x".toList)))])
    Frag env e ∧ (pExpr env (fuelOf e + 6) (prE e)).map (·.1.toSX.render) = some e.toSX.render := by
  refine ⟨?_, by decide +kernel⟩
  simp only [Frag, FragL, PlainId]
  decide +kernel

/-! ### precedence facts of the reference reading (what makes a dropped parenthesis visible) -/

/-- read one expression from text (no variables declared: bare identifiers are locals) -/
def readExprText (s : String) : Option (List Char) :=
  (lex s.toList).bind fun ts => (pExpr {} (8 * ts.length + 8) ts).bind fun (e, r) => if r = [] then some e.toSX.render else none

def sxOf (e : Expr) : Option (List Char) := some e.toSX.render

private def va : Expr := .var .loc "a".toList
private def vb : Expr := .var .loc "b".toList
private def vc : Expr := .var .loc "c".toList

/-- binary operators are left-associative: `a - b - c` is `(a - b) - c` … -/
theorem sub_left_assoc : readExprText "a - b - c" = sxOf (.bin .sub (.bin .sub va vb) vc) := by decide +kernel

/-- … so dropping the parentheses of `a - (b - c)` changes what is read -/
theorem sub_paren_matters : readExprText "a - (b - c)" = sxOf (.bin .sub va (.bin .sub vb vc)) ∧
    readExprText "a - (b - c)" ≠ readExprText "a - b - c" := by decide +kernel

/-- level 4 (`*`) binds tighter than level 3 (`+`), which binds tighter than level 2 (`=`), which binds tighter than level 1 (`&`) -/
theorem levels : readExprText "a & b = c + a * b"
    = sxOf (.bin .concat va (.bin .eq vb (.bin .add vc (.bin .mul va vb)))) := by decide +kernel

/-- `and` / `or` sit on the multiplicative level: `a + b and c` is `a + (b and c)` -/
theorem and_binds_like_mul : readExprText "a + b and c" = sxOf (.bin .add va (.bin .and vb vc)) := by decide +kernel

/-- unary minus binds tighter than any binary operator -/
theorem neg_binds_tightest : readExprText "- a - b" = sxOf (.bin .sub (.un .neg va) vb) := by decide +kernel

/-- `--` starts a comment (F21): `a -- b` reads as just `a` -/
theorem double_minus_is_comment : readExprText "a -- b" = sxOf va := by decide +kernel

/-- the operand of `sprite … intersects` is a level-5 expression: `sprite a + 1 intersects b` is not Lingo -/
theorem sprite_operand_is_tight : readExprText "sprite a + 1 intersects b" = none ∧
    readExprText "sprite (a + 1) intersects b" = sxOf (.bin .intersects (.bin .add va (.int 1)) vb) := by decide +kernel

/-- `starts` is the operator; `start` (what the decompiler prints, F40) is not -/
theorem starts_not_start : readExprText "a starts b" = sxOf (.bin .starts va vb) ∧ readExprText "a start b" = none := by decide +kernel

end DrxProps.C02
