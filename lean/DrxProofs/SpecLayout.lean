/-
  The structured layout (`layoutStmts` = compileStructured of the C03 spec): sizes and nesting of jump targets.
-/
import Drx.Spec.Compile
import DrxProofs.SpecCompile
namespace Drx.Spec

/-- instruction lists without jump instructions (what the lowering of simple statements and expressions produces) -/
def Instr.isJump : Instr → Bool
  | .op3 b _ => b == 0x93 || b == 0x95
  | .op2 b _ => b == 0x54
  | _ => false

def NoJump (is : List Instr) : Prop := ∀ i ∈ is, i.isJump = false

mutual
/-- every straight-line fragment of the skeleton is jump-free -/
def CStmt.Straight : CStmt → Prop
  | .code is => NoJump is
  | .ifThen c t e => NoJump c ∧ CStmt.StraightL t ∧ CStmt.StraightL e
  | .loop pre c bp body incr post => NoJump pre ∧ NoJump c ∧ NoJump bp ∧ CStmt.StraightL body ∧ NoJump incr ∧ NoJump post
  | .exitRepeat => True
def CStmt.StraightL : List CStmt → Prop
  | [] => True
  | s :: ss => s.Straight ∧ CStmt.StraightL ss
end

/-- forward jumps of an instruction list placed at address `a`: (own address, target address) -/
def fwdJumps : List Instr → Nat → List (Nat × Nat)
  | [], _ => []
  | .op3 b x :: is, a => (if b = 0x93 ∨ b = 0x95 then [(a, a + x)] else []) ++ fwdJumps is (a + 3)
  | i :: is, a => fwdJumps is (a + i.size)

/-- back jumps: (own address, target address) -/
def backJumps : List Instr → Nat → List (Nat × Nat)
  | [], _ => []
  | .op2 b x :: is, a => (if b = 0x54 then [(a, a - x)] else []) ++ backJumps is (a + 2)
  | i :: is, a => backJumps is (a + i.size)

mutual
/-- addresses of the statement boundaries strictly inside a statement that starts at `o` -/
def bndStmt (o : Nat) : CStmt → List Nat
  | .code _ => []
  | .ifThen c t e =>
    let a := o + codeSize c + 3
    bndStmts a t ++ (if e.isEmpty then [] else bndStmts (a + CStmt.sizes t + 3) e)
  | .loop pre c bp body incr _ =>
    let h := o + codeSize pre
    let b := h + codeSize c + 3 + codeSize bp
    h :: bndStmts b body ++ [b + CStmt.sizes body + codeSize incr + 2]
  | .exitRepeat => []
/-- boundaries of a statement list starting at `o`: the start of every statement (at every nesting level) and the end of the list -/
def bndStmts (o : Nat) : List CStmt → List Nat
  | [] => [o]
  | s :: ss => o :: bndStmt o s ++ bndStmts (o + s.size) ss
end

theorem codeSize_singleton (i : Instr) : codeSize [i] = i.size := by simp [codeSize]
theorem codeSize_cons (i : Instr) (is : List Instr) : codeSize (i :: is) = i.size + codeSize is := rfl
theorem codeSize_nil : codeSize [] = 0 := rfl

mutual
theorem layoutStmt_size : ∀ (s : CStmt) (te : Option Nat), codeSize (layoutStmt te s) = s.size
  | .code is, te => by simp [layoutStmt, CStmt.size]
  | .ifThen c t e, te => by
    by_cases he : e.isEmpty
    · simp only [layoutStmt, if_pos he, CStmt.size, codeSize_append, codeSize_cons, codeSize_nil, List.cons_append, List.nil_append,
        List.append_assoc, Instr.size, layoutStmts_size t]
      omega
    · simp only [layoutStmt, if_neg he, CStmt.size, codeSize_append, codeSize_cons, codeSize_nil, List.cons_append, List.nil_append,
        List.append_assoc, Instr.size, layoutStmts_size t, layoutStmts_size e]
      omega
  | .loop pre c bp body incr post, te => by
    simp only [layoutStmt, CStmt.size, codeSize_append, codeSize_cons, codeSize_nil, List.cons_append, List.nil_append,
      List.append_assoc, Instr.size, layoutStmts_size body]
    omega
  | .exitRepeat, te => by simp [layoutStmt, CStmt.size, codeSize, Instr.size]
theorem layoutStmts_size : ∀ (ss : List CStmt) (te : Option Nat), codeSize (layoutStmts te ss) = CStmt.sizes ss
  | [], te => by simp [layoutStmts, CStmt.sizes, codeSize]
  | s :: ss, te => by
    simp only [layoutStmts, CStmt.sizes, codeSize_append, layoutStmt_size s, layoutStmts_size ss]
end

theorem fwdJumps_append (a b : List Instr) (o : Nat) : fwdJumps (a ++ b) o = fwdJumps a o ++ fwdJumps b (o + codeSize a) := by
  induction a generalizing o with
  | nil => simp [fwdJumps, codeSize]
  | cons i a ih =>
    cases i with
    | op1 x => simp [fwdJumps, codeSize, Instr.size, ih, Nat.add_assoc]
    | op2 x y => simp [fwdJumps, codeSize, Instr.size, ih, Nat.add_assoc]
    | op3 x y => simp [fwdJumps, codeSize, Instr.size, ih, Nat.add_assoc]

theorem fwdJumps_noJump (is : List Instr) (o : Nat) (h : NoJump is) : fwdJumps is o = [] := by
  induction is generalizing o with
  | nil => rfl
  | cons i is ih =>
    have hi : i.isJump = false := h i (by simp)
    have hr : NoJump is := fun j hj => h j (by simp [hj])
    cases i with
    | op1 x => simp [fwdJumps, ih _ hr]
    | op2 x y => simp [fwdJumps, ih _ hr]
    | op3 x y =>
      have : ¬ (x = 0x93 ∨ x = 0x95) := by
        intro hx
        rcases hx with hx | hx <;> simp [Instr.isJump, hx] at hi
      simp [fwdJumps, this, ih _ hr]

theorem start_mem_bndStmts (o : Nat) (ss : List CStmt) : o ∈ bndStmts o ss := by
  cases ss <;> simp [bndStmts]

theorem mem_bndStmts_cons (x o : Nat) (s : CStmt) (ss : List CStmt) :
    x ∈ bndStmts o (s :: ss) ↔ x = o ∨ x ∈ bndStmt o s ∨ x ∈ bndStmts (o + s.size) ss := by
  simp [bndStmts]

theorem mem_bndStmt_if (x o : Nat) (c : List Instr) (t e : List CStmt) :
    x ∈ bndStmt o (.ifThen c t e) ↔
      x ∈ bndStmts (o + codeSize c + 3) t ∨ (e.isEmpty = false ∧ x ∈ bndStmts (o + codeSize c + 3 + CStmt.sizes t + 3) e) := by
  cases h : e.isEmpty <;> simp [bndStmt, h]

theorem mem_bndStmt_loop (x o : Nat) (pre c bp : List Instr) (body : List CStmt) (incr post : List Instr) :
    x ∈ bndStmt o (.loop pre c bp body incr post) ↔
      x = o + codeSize pre ∨ x ∈ bndStmts (o + codeSize pre + codeSize c + 3 + codeSize bp) body
        ∨ x = o + codeSize pre + codeSize c + 3 + codeSize bp + CStmt.sizes body + codeSize incr + 2 := by
  simp [bndStmt]

/-- the forward jumps of an `if` without else: the conditional jump over the branch, then the branch's own -/
theorem fwdJumps_if1 (te : Option Nat) (c : List Instr) (t e : List CStmt) (o : Nat) (hc : NoJump c) (hE : e.isEmpty = true) :
    fwdJumps (layoutStmt te (.ifThen c t e)) o
      = (o + codeSize c, o + codeSize c + (3 + CStmt.sizes t)) :: fwdJumps (layoutStmts te t) (o + codeSize c + 3) := by
  simp only [layoutStmt, if_pos hE, List.append_assoc, List.cons_append, List.nil_append]
  rw [fwdJumps_append, fwdJumps_noJump c o hc]
  simp [fwdJumps]

theorem fwdJumps_if2 (te : Option Nat) (c : List Instr) (t e : List CStmt) (o : Nat) (hc : NoJump c) (hE : e.isEmpty = false) :
    fwdJumps (layoutStmt te (.ifThen c t e)) o
      = (o + codeSize c, o + codeSize c + (3 + CStmt.sizes t + 3))
          :: (fwdJumps (layoutStmts (te.map (· + 3 + CStmt.sizes e)) t) (o + codeSize c + 3)
          ++ (o + codeSize c + 3 + CStmt.sizes t, o + codeSize c + 3 + CStmt.sizes t + (3 + CStmt.sizes e))
          :: fwdJumps (layoutStmts te e) (o + codeSize c + 3 + CStmt.sizes t + 3)) := by
  have hE' : ¬ e.isEmpty = true := by simp [hE]
  simp only [layoutStmt, if_neg hE', List.append_assoc, List.cons_append, List.nil_append]
  rw [fwdJumps_append, fwdJumps_noJump c o hc]
  simp only [List.nil_append, fwdJumps]
  rw [fwdJumps_append, layoutStmts_size]
  simp [fwdJumps]

theorem fwdJumps_loop (te : Option Nat) (pre c bp : List Instr) (body : List CStmt) (incr post : List Instr) (o : Nat)
    (hpre : NoJump pre) (hc : NoJump c) (hbp : NoJump bp) (hincr : NoJump incr) (hpost : NoJump post) :
    fwdJumps (layoutStmt te (.loop pre c bp body incr post)) o
      = (o + codeSize pre + codeSize c,
          o + codeSize pre + codeSize c + (3 + (codeSize bp + CStmt.sizes body + codeSize incr) + 2))
        :: fwdJumps (layoutStmts (some (codeSize incr + 2)) body) (o + codeSize pre + codeSize c + 3 + codeSize bp) := by
  simp only [layoutStmt, List.append_assoc, List.cons_append, List.nil_append]
  rw [fwdJumps_append, fwdJumps_noJump pre o hpre, List.nil_append, fwdJumps_append, fwdJumps_noJump c _ hc, List.nil_append]
  simp only [fwdJumps]
  rw [fwdJumps_append, fwdJumps_noJump bp _ hbp, List.nil_append, fwdJumps_append, fwdJumps_append, fwdJumps_noJump incr _ hincr]
  simp only [fwdJumps, List.nil_append, fwdJumps_noJump post _ hpost, List.append_nil]
  simp

/-- where a forward jump of a laid-out statement may land: on a statement boundary inside it, on its end, or (exit repeat) on the
    address after the enclosing loop's back jump, which lies `d` bytes after the end when `toEnd = some d` -/
def TargetOKStmt (te : Option Nat) (o : Nat) (s : CStmt) (t : Nat) : Prop :=
  t ∈ bndStmt o s ∨ t = o + s.size ∨ ∃ d, te = some d ∧ t = o + s.size + d

def TargetOKStmts (te : Option Nat) (o : Nat) (ss : List CStmt) (t : Nat) : Prop :=
  t ∈ bndStmts o ss ∨ ∃ d, te = some d ∧ t = o + CStmt.sizes ss + d

theorem size_if (c : List Instr) (t e : List CStmt) :
    (CStmt.ifThen c t e).size = codeSize c + 3 + CStmt.sizes t + (if e.isEmpty then 0 else 3 + CStmt.sizes e) := by
  simp [CStmt.size]

theorem size_loop (pre c bp : List Instr) (body : List CStmt) (incr post : List Instr) :
    (CStmt.loop pre c bp body incr post).size
      = codeSize pre + codeSize c + 3 + codeSize bp + CStmt.sizes body + codeSize incr + 2 + codeSize post := by
  simp [CStmt.size]

mutual
theorem fwd_stmt : ∀ (s : CStmt) (te : Option Nat) (o : Nat), s.Straight →
    ∀ p ∈ fwdJumps (layoutStmt te s) o, TargetOKStmt te o s p.2
  | .code is, te, o, h => by
    intro p hp
    have : fwdJumps (layoutStmt te (.code is)) o = [] := by simpa [layoutStmt] using fwdJumps_noJump is o h
    rw [this] at hp; cases hp
  | .exitRepeat, te, o, _ => by
    intro p hp
    have e1 : fwdJumps (layoutStmt te .exitRepeat) o = [(o, o + (3 + te.getD 0))] := by simp [layoutStmt, fwdJumps]
    rw [e1, List.mem_singleton] at hp
    subst hp
    have hs : CStmt.exitRepeat.size = 3 := by simp [CStmt.size]
    cases te with
    | none => right; left; simp [hs]
    | some d => right; right; exact ⟨d, rfl, by simp [hs]; omega⟩
  | .ifThen c t e, te, o, h => by
    obtain ⟨hc, ht, he⟩ := h
    intro p hp
    cases hE : e.isEmpty with
    | true =>
      rw [fwdJumps_if1 te c t e o hc hE, List.mem_cons] at hp
      have hsz : (CStmt.ifThen c t e).size = codeSize c + 3 + CStmt.sizes t := by simp [size_if, hE]
      rcases hp with hp | hp
      · subst hp
        right; left
        show o + codeSize c + (3 + CStmt.sizes t) = o + (CStmt.ifThen c t e).size
        rw [hsz]; omega
      · rcases fwd_stmts t te (o + codeSize c + 3) ht p hp with ih | ⟨d, hd, ih⟩
        · left; exact (mem_bndStmt_if _ _ _ _ _).mpr (Or.inl ih)
        · right; right; exact ⟨d, hd, by rw [ih, hsz]; omega⟩
    | false =>
      rw [fwdJumps_if2 te c t e o hc hE, List.mem_cons, List.mem_append, List.mem_cons] at hp
      have hsz : (CStmt.ifThen c t e).size = codeSize c + 3 + CStmt.sizes t + (3 + CStmt.sizes e) := by simp [size_if, hE]
      rcases hp with hp | hp | hp | hp
      · -- the conditional jump lands on the first statement of the else branch
        subst hp
        left
        refine (mem_bndStmt_if _ _ _ _ _).mpr (Or.inr ⟨hE, ?_⟩)
        have := start_mem_bndStmts (o + codeSize c + 3 + CStmt.sizes t + 3) e
        have e2 : o + codeSize c + (3 + CStmt.sizes t + 3) = o + codeSize c + 3 + CStmt.sizes t + 3 := by omega
        show o + codeSize c + (3 + CStmt.sizes t + 3) ∈ _
        rw [e2]; exact this
      · rcases fwd_stmts t (te.map (· + 3 + CStmt.sizes e)) (o + codeSize c + 3) ht p hp with ih | ⟨d, hd, ih⟩
        · left; exact (mem_bndStmt_if _ _ _ _ _).mpr (Or.inl ih)
        · right; right
          cases te with
          | none => simp at hd
          | some d0 =>
            simp at hd
            exact ⟨d0, rfl, by rw [ih, hsz]; omega⟩
      · -- the else jump lands on the end of the statement
        subst hp
        right; left
        show o + codeSize c + 3 + CStmt.sizes t + (3 + CStmt.sizes e) = o + (CStmt.ifThen c t e).size
        rw [hsz]; omega
      · rcases fwd_stmts e te (o + codeSize c + 3 + CStmt.sizes t + 3) he p hp with ih | ⟨d, hd, ih⟩
        · left; exact (mem_bndStmt_if _ _ _ _ _).mpr (Or.inr ⟨hE, ih⟩)
        · right; right; exact ⟨d, hd, by rw [ih, hsz]; omega⟩
  | .loop pre c bp body incr post, te, o, h => by
    obtain ⟨hpre, hc, hbp, hbody, hincr, hpost⟩ := h
    intro p hp
    rw [fwdJumps_loop te pre c bp body incr post o hpre hc hbp hincr hpost, List.mem_cons] at hp
    left
    rcases hp with hp | hp
    · -- the loop's conditional jump lands just after the back jump
      subst hp
      refine (mem_bndStmt_loop _ _ _ _ _ _ _ _).mpr (Or.inr (Or.inr ?_))
      show o + codeSize pre + codeSize c + (3 + (codeSize bp + CStmt.sizes body + codeSize incr) + 2) = _
      omega
    · rcases fwd_stmts body (some (codeSize incr + 2)) (o + codeSize pre + codeSize c + 3 + codeSize bp) hbody p hp with ih | ⟨d, hd, ih⟩
      · exact (mem_bndStmt_loop _ _ _ _ _ _ _ _).mpr (Or.inr (Or.inl ih))
      · -- an exit repeat of this loop lands on the same address
        refine (mem_bndStmt_loop _ _ _ _ _ _ _ _).mpr (Or.inr (Or.inr ?_))
        simp at hd
        rw [ih]; omega
theorem fwd_stmts : ∀ (ss : List CStmt) (te : Option Nat) (o : Nat), CStmt.StraightL ss →
    ∀ p ∈ fwdJumps (layoutStmts te ss) o, TargetOKStmts te o ss p.2
  | [], te, o, _ => by
    intro p hp
    simp [layoutStmts, fwdJumps] at hp
  | s :: ss, te, o, h => by
    obtain ⟨hs, hss⟩ := h
    intro p hp
    have e1 : fwdJumps (layoutStmts te (s :: ss)) o
        = fwdJumps (layoutStmt (te.map (· + CStmt.sizes ss)) s) o ++ fwdJumps (layoutStmts te ss) (o + s.size) := by
      simp only [layoutStmts]
      rw [fwdJumps_append, layoutStmt_size]
    rw [e1, List.mem_append] at hp
    have hsz : CStmt.sizes (s :: ss) = s.size + CStmt.sizes ss := by simp [CStmt.sizes]
    rcases hp with hp | hp
    · rcases fwd_stmt s (te.map (· + CStmt.sizes ss)) o hs p hp with ih | ih | ⟨d, hd, ih⟩
      · left; exact (mem_bndStmts_cons _ _ _ _).mpr (Or.inr (Or.inl ih))
      · left; refine (mem_bndStmts_cons _ _ _ _).mpr (Or.inr (Or.inr ?_))
        rw [ih]; exact start_mem_bndStmts _ _
      · right
        cases te with
        | none => simp at hd
        | some d0 =>
          simp at hd
          exact ⟨d0, rfl, by rw [ih, hsz]; omega⟩
    · rcases fwd_stmts ss te (o + s.size) hss p hp with ih | ⟨d, hd, ih⟩
      · left; exact (mem_bndStmts_cons _ _ _ _).mpr (Or.inr (Or.inr ih))
      · right; exact ⟨d, hd, by rw [ih, hsz]; omega⟩
end

end Drx.Spec
