/-
  Every frame table `parse_vwsc_data` returns is rectangular: all frames are decodings of buffers of one length, and the
  number of sprite cells of a decoding depends on the buffer length only.  (Discharges the hypothesis of the C09 theorems
  for decoded tables.)
-/
import Drx.Vwsc
import Drx.ScoreSpec
namespace Drx.Vwsc
open Drx Drx.Score.Spec

theorem spriteLoop_length_congr (lay : Layout) :
    ∀ (n : Nat) (r1 r2 : Bytes) (l1 l2 : List (Option Sprite)), r1.length = n → r2.length = n →
      spriteLoop lay r1 = .ok l1 → spriteLoop lay r2 = .ok l2 → l1.length = l2.length := by
  intro n
  induction n using Nat.strongRecOn with
  | _ n ih =>
    intro r1 r2 l1 l2 h1 h2 e1 e2
    cases r1 with
    | nil =>
      have : r2 = [] := List.eq_nil_of_length_eq_zero (by simpa [← h1] using h2)
      subst this
      rw [e1] at e2; cases e2; rfl
    | cons a as =>
      cases r2 with
      | nil => simp at h1 h2; omega
      | cons b bs =>
        rw [spriteLoop.eq_def] at e1 e2
        simp only at e1 e2
        cases hs1 : readSprite lay (List.take lay.frameSize (a :: as)) with
        | error e => simp [hs1] at e1
        | ok s1 =>
          cases hs2 : readSprite lay (List.take lay.frameSize (b :: bs)) with
          | error e => simp [hs2] at e2
          | ok s2 =>
            simp only [hs1, hs2] at e1 e2
            cases hr1 : spriteLoop lay (List.drop lay.frameSize (a :: as)) with
            | error e => simp [hr1] at e1
            | ok t1 =>
              cases hr2 : spriteLoop lay (List.drop lay.frameSize (b :: bs)) with
              | error e => simp [hr2] at e2
              | ok t2 =>
                simp only [hr1, hr2, Except.ok.injEq] at e1 e2
                subst e1 e2
                have hp := lay.frameSize_pos
                have := ih ((a :: as).length - lay.frameSize) (by simp at h1 ⊢; omega) _ _ t1 t2
                  (by simp) (by simp [List.length_drop]; simp at h1 h2; omega) hr1 hr2
                simp [this]

theorem parseChannels_score_length (lay : Layout) (b1 b2 : Bytes) (f1 f2 : Frame) (hl : b1.length = b2.length)
    (h1 : parseChannels lay b1 = .ok f1) (h2 : parseChannels lay b2 = .ok f2) : f1.score.length = f2.score.length := by
  unfold parseChannels at h1 h2
  simp only [bind, Except.bind, pure, Except.pure] at h1 h2
  cases hm1 : readMain lay (slice b1 0 lay.frameSize) with
  | error e => simp [hm1] at h1
  | ok m1 =>
    cases hm2 : readMain lay (slice b2 0 lay.frameSize) with
    | error e => simp [hm2] at h2
    | ok m2 =>
      simp only [hm1, hm2] at h1 h2
      cases hp1 : readPalette lay (slice b1 lay.frameSize (lay.frameSize + lay.frameSize)) with
      | error e => simp [hp1] at h1
      | ok p1 =>
        cases hp2 : readPalette lay (slice b2 lay.frameSize (lay.frameSize + lay.frameSize)) with
        | error e => simp [hp2] at h2
        | ok p2 =>
          simp only [hp1, hp2] at h1 h2
          cases hs1 : spriteLoop lay (b1.drop (lay.frameSize + lay.frameSize)) with
          | error e => simp [hs1] at h1
          | ok s1 =>
            cases hs2 : spriteLoop lay (b2.drop (lay.frameSize + lay.frameSize)) with
            | error e => simp [hs2] at h2
            | ok s2 =>
              simp only [hs1, hs2, Except.ok.injEq] at h1 h2
              subst h1 h2
              exact spriteLoop_length_congr lay _ _ _ s1 s2 rfl (by simp [List.length_drop, hl]) hs1 hs2

theorem patch_length (buf : Bytes) (p n : Nat) (data b : Bytes) (h : patch buf p n data = .ok b) : b.length = buf.length := by
  induction n generalizing buf p data with
  | zero => simp [patch] at h; subst h; rfl
  | succ n ih =>
    cases data with
    | nil => simp [patch] at h
    | cons x xs =>
      simp only [patch] at h
      split at h
      · have := ih _ _ _ h; simpa using this
      · cases h

theorem deltaLoop_length (d buf : Bytes) (idx : Nat) (cs : Int) (it cp : Nat) (s : DState)
    (h : deltaLoop d buf idx cs it cp = .ok s) : s.buf.length = buf.length := by
  fun_induction deltaLoop d buf idx cs it cp with
  | case1 buf idx cs it cp hcs e he => simp at h
  | case2 buf idx cs it cp hcs ds hds hbr => cases h; rfl
  | case3 buf idx cs it cp hcs ds hds hbr e he => simp at h
  | case4 buf idx cs it cp hcs ds hds hbr off0 hoff deltaOffset n deltaData e he => simp at h
  | case5 buf idx cs it cp hcs ds hds hbr off0 hoff deltaOffset n deltaData buf' hp ih =>
    rw [ih h]; exact patch_length _ _ _ _ _ hp
  | case6 buf idx cs it cp hcs => cases h; rfl

/-- every frame the record loop returns is the decoding of some buffer as long as the initial one -/
theorem recLoop_frames (lay : Layout) (d : Bytes) (n : Nat) :
    ∀ (m : Nat) (buf : Bytes) (idx : Nat) (prev : Option Frame) (frames : List Frame), d.length - idx = m → buf.length = n →
      (∀ f, prev = some f → ∃ b : Bytes, b.length = n ∧ parseChannels lay b = .ok f) →
      recLoop lay d buf idx prev = .ok frames → ∀ f ∈ frames, ∃ b : Bytes, b.length = n ∧ parseChannels lay b = .ok f := by
  intro m
  induction m using Nat.strongRecOn with
  | _ m ih =>
    intro buf idx prev frames hm hb hprev h
    rw [recLoop.eq_def] at h
    split at h
    · rename_i hlt
      split at h
      · cases h
      · rename_i size hsz
        split at h
        · cases h
        · rename_i hge
          split at h
          · -- same
            rename_i h2
            cases hl : lastOr prev (fun _ => parseChannels lay buf) with
            | error e => simp [hl] at h
            | ok f0 =>
              simp only [hl] at h
              have hf0 : ∃ b : Bytes, b.length = n ∧ parseChannels lay b = .ok f0 := by
                cases prev with
                | none => exact ⟨buf, hb, by simpa [lastOr] using hl⟩
                | some p => simp [lastOr] at hl; subst hl; exact hprev p rfl
              cases hr : recLoop lay d buf (idx + 2) (some f0) with
              | error e => simp [hr] at h
              | ok fs =>
                simp only [hr, Except.ok.injEq] at h
                subst h
                intro f hf
                simp only [List.mem_cons] at hf
                rcases hf with rfl | hf
                · exact hf0
                · exact ih (d.length - (idx + 2)) (by omega) buf (idx + 2) (some f0) fs rfl hb
                    (by intro f' hf'; cases hf'; exact hf0) hr f hf
          · -- deltas
            rename_i hne
            split at h
            · cases h
            · rename_i s hd
              have hinv := deltaLoop_inv d buf (idx + 2) (size - 2) 0 0 s hd
              have hlen := deltaLoop_length d buf (idx + 2) (size - 2) 0 0 s hd
              cases hp : parseChannels lay s.buf with
              | error e => simp [hp] at h
              | ok f0 =>
                simp only [hp] at h
                have hf0 : ∃ b : Bytes, b.length = n ∧ parseChannels lay b = .ok f0 := ⟨s.buf, by rw [hlen, hb], hp⟩
                cases hr : recLoop lay d s.buf ((s.idx : Int) + s.cs).toNat (some f0) with
                | error e => simp [hr] at h
                | ok fs =>
                  simp only [hr, Except.ok.injEq] at h
                  subst h
                  intro f hf
                  simp only [List.mem_cons] at hf
                  rcases hf with rfl | hf
                  · exact hf0
                  · exact ih (d.length - ((s.idx : Int) + s.cs).toNat) (by omega) s.buf _ (some f0) fs rfl (by rw [hlen, hb])
                      (by intro f' hf'; cases hf'; exact hf0) hr f hf
    · cases h; intro f hf; simp at hf

/-- **decoded tables are rectangular** -/
theorem parseVwsc_rectangular (d : Bytes) (frames : List Frame) (h : parseVwsc d = .ok frames) : Rectangular frames := by
  unfold parseVwsc at h
  simp only [bind, Except.bind] at h
  cases hh : parseHeader d with
  | error e => simp [hh] at h
  | ok hd =>
    simp only [hh] at h
    have key := recLoop_frames hd.lay d (zeros (hd.channelCount * hd.frameSize).toNat).length _ _ 20 none frames rfl rfl
      (by intro f hf; cases hf) h
    intro f hf
    cases frames with
    | nil => simp at hf
    | cons f0 fs =>
      obtain ⟨b0, hb0, hp0⟩ := key f0 (by simp)
      obtain ⟨b, hb, hp⟩ := key f hf
      exact parseChannels_score_length hd.lay b b0 f f0 (by rw [hb, hb0]) hp hp0

theorem parseVwscFile_rectangular (d : Bytes) (frames : List Frame) (h : parseVwscFile d = .ok frames) : Rectangular frames := by
  unfold parseVwscFile at h
  simp only [bind, Except.bind] at h
  repeat' split at h
  all_goals first | (cases h; done) | exact parseVwsc_rectangular _ _ h | skip
  all_goals (simp only [pure, Except.pure, throw, throwThe, MonadExceptOf.throw] at h)
  all_goals first | (cases h; done) | exact parseVwsc_rectangular _ _ h | skip

end Drx.Vwsc
