/-
  J5 — statements: `set <variable> = e`, command calls (with `fn_call(...)` for handlers of the same script), `return [e]`.
    (a) the model's `Statement.generate_js` gives the line `indent ++ txS (toJsS s) ++ "\n"`   (js_stmt_emb, jsStmts_emb)
    (b) the spec lexer turns those lines into the tokens `prS` / `prBody`                       (lexS, lexBody)
    (c) the spec reader turns those tokens into the statements `toJsS s`                        (jStmt_prS, jBlock_prBody)
-/
import DrxProofs.LinkJsText
import DrxProofs.LinkJsLex
import DrxProofs.LinkJsFuel
namespace Drx.LinkJs
open Drx Drx.Lscr Drx.Gen Drx.Spec Drx.Link
set_option linter.unusedSimpArgs false
set_option linter.unusedVariables false

/-! ### (a) text -/

theorem endsWith_brace (t : Str) : endsWith t (S "}") = (t.getLast? == some '}') := by
  unfold endsWith List.isSuffixOf
  rw [← List.head?_reverse]
  cases t.reverse with
  | nil => rfl
  | cons c r =>
    simp only [S, List.head?_cons]
    show (['}'] : Str).reverse.isPrefixOf (c :: r) = _
    simp [List.isPrefixOf]
    by_cases h : c = '}'
    · subst h; rfl
    · have h' : ¬ '}' = c := fun e => h e.symm
      rw [beq_eq_false_iff_ne.mpr h, beq_eq_false_iff_ne.mpr h']

/-- the text does not end with a closing brace (a statement that does gets no `;`) -/
def LastOk (t : Str) : Prop := ∀ ch, t.getLast? = some ch → ch ≠ '}'

theorem LastOk.not_brace {t : Str} (h : LastOk t) : endsWith t (S "}") = false := by
  rw [endsWith_brace]
  cases hl : t.getLast? with
  | none => rfl
  | some ch =>
    have := h ch hl
    simp [this]

theorem lastOk_snoc (a : Str) (c : Char) (h : c ≠ '}') : LastOk (a ++ [c]) := by
  intro ch e; simp at e; subst e; exact h

theorem lastOk_append (a b : Str) (hb : b ≠ []) (h : LastOk b) : LastOk (a ++ b) := by
  intro ch e
  rw [List.getLast?_append] at e
  cases hl : b.getLast? with
  | none => exact absurd (List.getLast?_eq_none_iff.mp hl) hb
  | some x =>
    rw [hl] at e
    simp only [Option.some_or, Option.some.injEq] at e
    subst e; exact h x hl

theorem lastOk_all (t : Str) (h : ∀ c ∈ t, c ≠ '}') : LastOk t := fun ch e => h ch (List.mem_of_getLast? e)

theorem idChar_ne_brace (c : Char) (h : isJsIdChar c = true) : c ≠ '}' := by
  intro e; subst e; exact absurd h (by decide)

theorem jsIdLex_all (n : Spec.Name) (h : jsIdLex n = true) : n ≠ [] ∧ ∀ c ∈ n, isJsIdChar c = true := by
  cases n with
  | nil => simp [jsIdLex] at h
  | cons c cs =>
    simp only [jsIdLex, Bool.and_eq_true, List.all_eq_true] at h
    refine ⟨by simp, ?_⟩
    intro x hx
    rcases List.mem_cons.mp hx with hx | hx
    · subst hx; exact jsIdStart_idChar x h.1
    · exact h.2 x hx

theorem lastOk_id (n : Spec.Name) (h : jsIdLex n = true) : LastOk n :=
  lastOk_all n (fun c hc => idChar_ne_brace c ((jsIdLex_all n h).2 c hc))

theorem lastOk_natStr (k : Nat) : LastOk (natStr k) := by
  apply lastOk_all
  intro c hc
  have := (natStr_digits k).2
  rw [List.all_eq_true] at this
  exact idChar_ne_brace c (idChar_of_digit c (this c hc))

theorem lastOk_paren (a : Str) : LastOk (a ++ S ")") := lastOk_snoc a ')' (by decide)

/-- the text of a fragment expression never ends with `}` -/
theorem tx_last (c : JCtx) (e : Expr) (h : JsOkE e = true) : LastOk (txJ (toJsE c e)) := by
  cases e with
  | int k => simpa [toJsE, txJ] using lastOk_natStr k
  | str s =>
    have := lastOk_snoc (S "new LingoString(\"" ++ escQ s ++ S "\"") ')' (by decide)
    simpa [toJsE, txJ, S, List.append_assoc] using this
  | sym s =>
    have := lastOk_snoc (S "symbol('" ++ s ++ S "'") ')' (by decide)
    simpa [toJsE, jcall, txJ, txArgs, JE.needsParen, S, List.append_assoc] using this
  | var k n =>
    cases k with
    | loc =>
      simp only [JsOkE, Bool.or_eq_true, beq_iff_eq] at h
      by_cases hm : n = "me".toList
      · simp only [toJsE, hm, if_true, jid, txJ]; exact lastOk_id _ (by decide)
      · rcases h with h | h
        · exact absurd h hm
        · simp only [toJsE, hm, if_false, txJ]; exact lastOk_id n (jsIdOk_lex n h)
    | param =>
      simp only [JsOkE, Bool.or_eq_true, beq_iff_eq] at h
      by_cases hm : n = "me".toList
      · simp only [toJsE, hm, if_true, jid, txJ]; exact lastOk_id _ (by decide)
      · rcases h with h | h
        · exact absurd h hm
        · simp only [toJsE, hm, if_false, txJ]; exact lastOk_id n (jsIdOk_lex n h)
    | glob =>
      have hn : jsIdLex n = true := by simpa [JsOkE] using h
      simp only [toJsE, txJ]
      exact lastOk_append _ n (jsIdLex_all n hn).1 (lastOk_id n hn)
    | prop =>
      have hn : jsIdLex n = true := by simpa [JsOkE] using h
      simp only [toJsE, txJ]
      exact lastOk_append _ n (jsIdLex_all n hn).1 (lastOk_id n hn)
  | un op a => cases op <;> (simp only [toJsE, txJ]; exact lastOk_paren _)
  | field a => simp only [toJsE, jcall, txJ]; exact lastOk_paren _
  | list as => simp only [toJsE, jcall, txJ]; exact lastOk_paren _
  | call f as =>
    simp only [JsOkE, Bool.and_eq_true, Bool.not_eq_true'] at h
    obtain ⟨⟨⟨hid, hsp⟩, _⟩, _⟩ := h
    rw [toJsE, toJsCall_plain c f as _ hsp (jsIdOk_not_kw f hid "new" (by decide))]
    simp only [txJ]; exact lastOk_paren _
  | bin op a b =>
    cases hop : jsBinOp op with
    | some o => simp only [toJsE, hop, txJ]; exact lastOk_paren _
    | none =>
      cases hm : jsMethodOp op with
      | some m => simp only [toJsE, hop, hm, txJ]; exact lastOk_paren _
      | none => simp only [toJsE, hop, hm, txJ]; exact lastOk_paren _
  | _ => simp [JsOkE] at h

theorem tx_ne_nil (c : JCtx) (e : Expr) (h : JsOkE e = true) : txJ (toJsE c e) ≠ [] := by
  intro e0
  have := tx_special c e h
  rw [e0] at this; simp at this

/-! one step of `Statement.generate_js` -/

theorem js_stmt (p : Int) (code : Node) (ind : Nat) (t : Str) (h : js true false code ind = .ok (.s t))
    (hb : LastOk (if code.withResult then S "fn_call(" ++ t ++ S ")" else t)) :
    js true false (.stmt p code) ind =
      .ok (.s (indentOf ind ++ (if code.withResult then S "fn_call(" ++ t ++ S ")" else t) ++ S ";\n")) := by
  have := hb.not_brace
  simp only [js, h, bind, Except.bind, Name.asStr, pure, Except.pure, this, Bool.false_eq_true, if_false]

/-- assignment targets -/
theorem js_lv (c : JCtx) (lv : Expr) (hf : JsOkLv lv = true) (l : Node) (h : EmbLv lv l) (ind : Nat) :
    js true false l ind = .ok (.s (txJ (toJsE c lv))) := by
  cases lv with
  | var k v =>
    cases k with
    | loc =>
      have hk : JsOkE (.var .loc v) = true := by simp only [JsOkLv] at hf; simp [JsOkE, hf]
      exact js_emb c _ hk l h ind
    | param =>
      have hk : JsOkE (.var .param v) = true := by simp only [JsOkLv] at hf; simp [JsOkE, hf]
      exact js_emb c _ hk l h ind
    | glob =>
      have hk : JsOkE (.var .glob v) = true := by simpa [JsOkLv, JsOkE] using hf
      exact js_emb c _ hk l h ind
    | prop =>
      obtain ⟨p, q, rfl⟩ := h
      simp only [js, leafJs, bind, Except.bind, pure, Except.pure]
      simp [toJsE, jid, txJ, JE.needsParen, S, jsReceiver, Name.str, isAsciiDigit]
  | _ => simp [JsOkLv] at hf

theorem lv_ok (c : JCtx) (lv : Expr) (hf : JsOkLv lv = true) : txJ (toJsE c lv) ≠ [] ∧ LexOK (toJsE c lv) ∧ JFrag (toJsE c lv) := by
  cases lv with
  | var k v =>
    cases k with
    | loc =>
      have hk : JsOkE (.var .loc v) = true := by simp only [JsOkLv] at hf; simp [JsOkE, hf]
      exact ⟨tx_ne_nil c _ hk, toJsE_lexok c _ hk, toJsE_frag c _ (jsOk_src _ hk)⟩
    | param =>
      have hk : JsOkE (.var .param v) = true := by simp only [JsOkLv] at hf; simp [JsOkE, hf]
      exact ⟨tx_ne_nil c _ hk, toJsE_lexok c _ hk, toJsE_frag c _ (jsOk_src _ hk)⟩
    | glob =>
      have hk : JsOkE (.var .glob v) = true := by simpa [JsOkLv, JsOkE] using hf
      exact ⟨tx_ne_nil c _ hk, toJsE_lexok c _ hk, toJsE_frag c _ (jsOk_src _ hk)⟩
    | prop =>
      have hv : jsIdLex v = true := by simpa [JsOkLv] using hf
      refine ⟨by simp [toJsE, jid, txJ, S, JE.needsParen], ?_, ?_⟩
      · simp only [toJsE, LexOK]; exact ⟨lexok_jid "this" (by decide), hv⟩
      · exact toJsE_frag c _ trivial
  | _ => simp [JsOkLv] at hf

theorem listFn_return : listFn (S "return") = false := by decide

/-- `return` / `return e` -/
theorem js_call_return (p p' : Int) (nm : Str) (ops : List Node) (up it wr : Bool) (ind : Nat) (l : List Str)
    (hl : jsStrs true false ops ind = .ok l) :
    js true false (.callFn (.s (S "return")) p (.loadList nm p' ops) up it wr .none) ind =
      .ok (if commaJoinRev l = [] then .s (S "return") else .s (S "return " ++ commaJoinRev l)) := by
  have hn := callJsName_plain (S "return") it (.s (commaJoinRev l)) (by decide) (by decide) (by decide) (by decide) (by decide)
  have hme : ¬ (True ∧ (Lscr.Name.s (S "return") == Lscr.Name.s (S "me")) = true) := by decide
  have hcode : callJsCode (.s (S "return")) (.s (commaJoinRev l)) =
      .ok (if commaJoinRev l = [] then .s (S "return") else .s (S "return " ++ commaJoinRev l)) := by
    by_cases he : commaJoinRev l = []
    · simp [callJsCode, he, pure, Except.pure]
    · simp [callJsCode, he, Name.asStr, bind, Except.bind, pure, Except.pure]
  cases ops with
  | nil =>
    simp only [js, List.isEmpty_nil, if_true, hl, bind, Except.bind, pure, Except.pure, hn, hme, if_false, recvName, hcode]
  | cons x xs =>
    have hne : (x :: xs).isEmpty = false := rfl
    have hli : isListFn (.s (S "return")) = .ok false := by
      simp [isListFn, Name.asStr, bind, Except.bind, pure, Except.pure]; exact listFn_return
    simp only [js, hne, Bool.false_eq_true, if_false, hli, hl, bind, Except.bind, pure, Except.pure, hn, hme, recvName, hcode]

/-- **J5 (text)**: one statement line -/
theorem js_stmt_emb (hs : List Spec.Name) (hret : hs.contains (S "return") = false) (s : Stmt) (hf : JsOkS s = true) (n : Node)
    (h : EmbSJ hs s n) (ind : Nat) :
    js true false n ind = .ok (.s (indentOf ind ++ txS (toJsS { handlers := hs, inTell := false } s) ++ S "\n")) := by
  cases s with
  | set lv v =>
    obtain ⟨p, q, l, r, rfl, hl, hr⟩ := h
    simp only [JsOkS, Bool.and_eq_true] at hf
    have e1 := js_lv { handlers := hs, inTell := false } lv hf.1 l hl ind
    have e2 := js_emb { handlers := hs, inTell := false } v hf.2 r hr ind
    have e3 := js_assign true q l r ind _ _ e1 e2
    have hlast : LastOk (txJ (toJsE { handlers := hs, inTell := false } lv) ++ S " = " ++ txJ (toJsE { handlers := hs, inTell := false } v)) :=
      lastOk_append _ _ (tx_ne_nil _ v hf.2) (tx_last _ v hf.2)
    rw [js_stmt p _ ind _ e3 (by simpa [Node.withResult] using hlast)]
    simp [Node.withResult, toJsS, txS, S, List.append_assoc]
  | call f as =>
    obtain ⟨p, q, q', ops, rfl, hops⟩ := h
    by_cases hr : f = "return".toList
    · subst hr
      simp only [JsOkS, if_true] at hf
      have hwr : hs.contains "return".toList = false := hret
      rw [hwr]
      cases as with
      | nil =>
        simp only [EmbL] at hops; subst hops
        rw [List.reverse_nil]
        have hl : jsStrs true false ([] : List Node) ind = .ok [] := by simp [jsStrs]
        have e := js_call_return q q' (S "load_list") [] true false false ind [] hl
        simp only [commaJoinRev, List.reverse_nil, joinWith, if_true] at e
        change js true false (.callFn (.s "return".toList) q (.loadList (S "load_list") q' []) true false false .none) ind = _ at e
        rw [js_stmt p _ ind _ e (by simpa [Node.withResult] using lastOk_id (S "return") (by decide))]
        simp [Node.withResult, toJsS, toJsEs, txS, S]
      | cons e es =>
        cases es with
        | nil =>
          have he : JsOkE e = true := by simpa using hf
          obtain ⟨x, xs, rfl, hx, hxs⟩ := hops
          simp only [EmbL] at hxs; subst hxs
          have hrev : ([x] : List Node).reverse = [x] := rfl
          rw [hrev]
          have ex := js_emb { handlers := hs, inTell := false } e he x hx ind
          have hl : jsStrs true false [x] ind = .ok [txJ (toJsE { handlers := hs, inTell := false } e)] := by
            simp [jsStrs, ex, bind, Except.bind, pure, Except.pure, Name.str]
          have e2 := js_call_return q q' (S "load_list") [x] true false false ind _ hl
          have hne := tx_ne_nil { handlers := hs, inTell := false } e he
          simp only [commaJoinRev, List.reverse_cons, List.reverse_nil, List.nil_append, joinWith, hne, if_false] at e2
          change js true false (.callFn (.s "return".toList) q (.loadList (S "load_list") q' [x]) true false false .none) ind = _ at e2
          rw [js_stmt p _ ind _ e2 (by
            simpa [Node.withResult] using lastOk_append (S "return ") _ hne (tx_last _ e he))]
          simp [Node.withResult, toJsS, toJsEs, txS, S, List.append_assoc]
        | cons e2 es2 => simp at hf
    · have hr' : ¬ f = "return".toList := hr
      simp only [JsOkS, hr', if_false] at hf
      have hk : JsOkE (.call f as) = true := by simpa [JsOkE] using hf
      have ex := js_callnode { handlers := hs, inTell := false } f as hk (S "load_list") q q' (hs.contains f) ops hops ind
      have hlast : LastOk (if (Node.callFn (.s f) q (.loadList (S "load_list") q' ops.reverse) true false (hs.contains f) .none).withResult
          then S "fn_call(" ++ txJ (toJsE { handlers := hs, inTell := false } (.call f as)) ++ S ")"
          else txJ (toJsE { handlers := hs, inTell := false } (.call f as))) := by
        split
        · exact lastOk_paren _
        · exact tx_last _ _ hk
      rw [js_stmt p _ ind _ ex hlast]
      have hts : toJsS { handlers := hs, inTell := false } (.call f as) =
          if hs.contains f then JS.expr (jcall "fn_call" [toJsE { handlers := hs, inTell := false } (.call f as)])
          else JS.expr (toJsE { handlers := hs, inTell := false } (.call f as)) := by
        simp only [toJsS, hr', if_false, Bool.not_false, Bool.and_true]
      rw [hts]
      cases hc : hs.contains f
      · simp only [Node.withResult, hc, Bool.false_eq_true, if_false, txS]
        simp [S, List.append_assoc]
      · simp only [Node.withResult, hc, if_true, txS, jcall, txJ, txArgs, np_id, Bool.false_eq_true, if_false]
        simp [S, List.append_assoc]
  | exit =>
    obtain ⟨p, q, rfl⟩ := h
    have hn := callJsName_plain (S "exit") false (.s []) (by decide) (by decide) (by decide) (by decide) (by decide)
    have hme : ¬ (True ∧ (Lscr.Name.s (S "exit") == Lscr.Name.s (S "me")) = true) := by decide
    have e : js true false (.callFn (.s (S "exit")) q .none true false false .none) ind = .ok (.s (S "exit()")) := by
      simp only [js, hn, bind, Except.bind, hme, if_false, recvName, callJsCode_plain (S "exit") [] (by decide)]
      rfl
    have hlo : LastOk (S "exit()") := lastOk_paren (S "exit(")
    rw [js_stmt p _ ind _ e (by simpa [Node.withResult] using hlo)]
    simp [Node.withResult, toJsS, txS, jcall, txJ, txArgs, JE.needsParen, S]
  | _ => simp [JsOkS] at hf

/-- **J5 (text)**: a statement list -/
theorem jsStmts_emb (hs : List Spec.Name) (hret : hs.contains (S "return") = false) : ∀ (ss : List Stmt), JsOkSs ss = true →
    ∀ (ns : List Node), EmbSsJ hs ss ns → ∀ (ind : Nat),
    jsStmts true ns ind = .ok (txBody ind (toJsSs { handlers := hs, inTell := false } ss))
  | [], _, ns, h, ind => by
    simp only [EmbSsJ] at h; subst h; simp [jsStmts, toJsSs, txBody]
  | s :: ss, hf, ns, h, ind => by
    obtain ⟨x, xs, rfl, hx, hxs⟩ := h
    simp only [JsOkSs, Bool.and_eq_true] at hf
    have e1 := js_stmt_emb hs hret s hf.1 x hx ind
    have e2 := jsStmts_emb hs hret ss hf.2 xs hxs ind
    simp only [jsStmts, e1, e2, bind, Except.bind, Name.asStr, pure, Except.pure, toJsSs, txBody]

/-! ### (b) lexing -/

def LexOKS : JS → Prop
  | .expr e => LexOK e
  | .assign l r => LexOK l ∧ LexOK r
  | .ret [] => True
  | .ret [e] => LexOK e
  | .var n => jsIdLex n = true
  | _ => False

def LexOKSs : List JS → Prop
  | [] => True
  | s :: ss => LexOKS s ∧ LexOKSs ss

theorem lexS (s : JS) (h : LexOKS s) (rest : Str) : LexesTo (txS s) (prS s) rest := by
  cases s with
  | expr e =>
    have := (lexE e h _ (by headis)).append (lex_semi rest)
    simpa [txS, prS, S] using this
  | assign l r =>
    obtain ⟨hl, hr⟩ : LexOK l ∧ LexOK r := h
    have := (lexE l hl _ (by headis)).append ((lex_assign _).append ((lexE r hr _ (by headis)).append (lex_semi rest)))
    simpa [txS, prS, S] using this
  | ret es =>
    cases es with
    | nil =>
      have := (lex_id (S "return") (by decide) _ (by headis)).append (lex_semi rest)
      simpa [txS, prS, S] using this
    | cons e es =>
      cases es with
      | nil =>
        have he : LexOK e := h
        have := (lex_id (S "return") (by decide) _ (by headis)).append ((lex_space _).append ((lexE e he _ (by headis)).append (lex_semi rest)))
        simpa [txS, prS, S] using this
      | cons _ _ => exact absurd h (by simp [LexOKS])
  | var n =>
    have hn : jsIdLex n = true := h
    have := (lex_id (S "var") (by decide) _ (by headis)).append ((lex_space _).append ((lex_id n hn _ (by headis)).append (lex_semi rest)))
    simpa [txS, prS, S] using this
  | _ => exact absurd h (by simp [LexOKS])

theorem lexBody (ind : Nat) : ∀ (ss : List JS), LexOKSs ss → ∀ (rest : Str), LexesTo (txBody ind ss) (prBody ss) rest
  | [], _, rest => by simpa [txBody, prBody] using LexesTo.nil rest
  | s :: ss, h, rest => by
    obtain ⟨h1, h2⟩ : LexOKS s ∧ LexOKSs ss := h
    have := (lex_indent ind _).append ((lexS s h1 _).append ((lex_nl _).append (lexBody ind ss h2 rest)))
    simpa [txBody, prBody, S, List.append_assoc] using this

/-! ### (c) reading -/

theorem kw_ne (s : Spec.Name) (h : isJsKeyword s = false) (k : String) (hk : isJsKeyword k.toList = true) : s ≠ k.toList := by
  intro e; rw [e, hk] at h; cases h

theorem jStmt_assign (f : Nat) (s : Spec.Name) (r : List JTok) (h : isJsKeyword s = false) (l v : JE) (r1 r' : List JTok)
    (e1 : jExpr (10 * (r.length + 2)) (.id s :: r) = some (l, .p .assign :: r1))
    (e2 : jExpr (10 * (r.length + 2)) r1 = some (v, .p .semi :: r')) :
    jStmt (f + 1) (.id s :: r) = some (.assign l v, r') := by
  have h1 : ¬ s = "var".toList := kw_ne s h "var" (by decide)
  have h2 : ¬ s = "break".toList := kw_ne s h "break" (by decide)
  have h3 : ¬ s = "return".toList := kw_ne s h "return" (by decide)
  have h4 : ¬ s = "if".toList := kw_ne s h "if" (by decide)
  have h5 : ¬ s = "while".toList := kw_ne s h "while" (by decide)
  have h6 : ¬ s = "with".toList := kw_ne s h "with" (by decide)
  have h7 : ¬ s = "for".toList := kw_ne s h "for" (by decide)
  rw [jStmt.eq_def]
  simp only [h1, h2, h3, h4, h5, h6, h7, if_false, e1, e2]

theorem jStmt_expr (f : Nat) (s : Spec.Name) (r : List JTok) (h : isJsKeyword s = false) (e : JE) (r' : List JTok)
    (e1 : jExpr (10 * (r.length + 2)) (.id s :: r) = some (e, .p .semi :: r')) :
    jStmt (f + 1) (.id s :: r) = some (.expr e, r') := by
  have h1 : ¬ s = "var".toList := kw_ne s h "var" (by decide)
  have h2 : ¬ s = "break".toList := kw_ne s h "break" (by decide)
  have h3 : ¬ s = "return".toList := kw_ne s h "return" (by decide)
  have h4 : ¬ s = "if".toList := kw_ne s h "if" (by decide)
  have h5 : ¬ s = "while".toList := kw_ne s h "while" (by decide)
  have h6 : ¬ s = "with".toList := kw_ne s h "with" (by decide)
  have h7 : ¬ s = "for".toList := kw_ne s h "for" (by decide)
  rw [jStmt.eq_def]
  simp only [h1, h2, h3, h4, h5, h6, h7, if_false, e1]

theorem jStmt_var (f : Nat) (n : Spec.Name) (r : List JTok) :
    jStmt (f + 1) (.id "var".toList :: .id n :: .p .semi :: r) = some (.var n, r) := by
  rw [jStmt.eq_def]; simp

theorem jStmt_ret0 (f : Nat) (r : List JTok) : jStmt (f + 1) (.id "return".toList :: .p .semi :: r) = some (.ret [], r) := by
  rw [jStmt.eq_def]; simp

theorem jStmt_ret1 (f : Nat) (t : JTok) (ts r' : List JTok) (e : JE) (ht : t ≠ .p .semi)
    (e1 : jExpr (10 * (ts.length + 1 + 2)) (t :: ts) = some (e, .p .semi :: r')) :
    jStmt (f + 1) (.id "return".toList :: t :: ts) = some (.ret [e], r') := by
  rw [jStmt.eq_def]; simp [ht, e1]

/-- tokens that can start an expression are none of `;`, `}`, `)` -/
def TokStart (t : JTok) : Prop := t ≠ .p .semi ∧ t ≠ .p .rc ∧ t ≠ .p .rp

theorem start_wrap (o : JE) (X : List JTok) (h : ∃ t ts, prJ o = t :: ts ∧ TokStart t) :
    ∃ t ts, wrapRecv o (prJ o) ++ X = t :: ts ∧ TokStart t := by
  obtain ⟨t, ts, e, ht⟩ := h
  cases hp : o.needsParen with
  | true => exact ⟨.p .lp, prJ o ++ [.p .rp] ++ X, by simp [wrapRecv, hp], by simp [TokStart]⟩
  | false => exact ⟨t, ts ++ X, by simp [wrapRecv, hp, e], ht⟩

theorem prJ_start : ∀ (e : JE), JFrag e → ∃ t ts, prJ e = t :: ts ∧ TokStart t
  | .num _ _, _ => ⟨_, _, rfl, by simp [TokStart]⟩
  | .lstr _, _ => ⟨_, _, rfl, by simp [TokStart]⟩
  | .dstr _, _ => ⟨_, _, rfl, by simp [TokStart]⟩
  | .sstr _, _ => ⟨_, _, rfl, by simp [TokStart]⟩
  | .id _, _ => ⟨_, _, rfl, by simp [TokStart]⟩
  | .mem o n, h => by
    simpa [prJ, List.append_assoc] using start_wrap o [.p .dot, .id n] (prJ_start o h)
  | .idx o i, h => by
    simpa [prJ, List.append_assoc] using start_wrap o (.p .lb :: (prJ i ++ [.p .rb])) (prJ_start o h.1)
  | .call g as, h => by
    simpa [prJ, List.append_assoc] using start_wrap g (.p .lp :: (prJArgs as ++ [.p .rp])) (prJ_start g h.1)
  | .un op a, h => by
    obtain ⟨hop, _⟩ : (op = "-".toList ∨ op = "!".toList) ∧ JFrag a := h
    rcases hop with rfl | rfl
    · exact ⟨_, _, rfl, by unfold TokStart; decide⟩
    · exact ⟨_, _, rfl, by unfold TokStart; decide⟩
  | .bin _ _ _, _ => ⟨_, _, rfl, by simp [TokStart]⟩
  | .newLS _, h => absurd h (by simp [JFrag])
  | .spread _, h => absurd h (by simp [JFrag])

/-- the printed form starts with an identifier that is not a reserved word (so the statement reader takes it for an
    expression / assignment statement) -/
def StartsId (e : JE) : Prop := ∃ s ts, prJ e = .id s :: ts ∧ isJsKeyword s = false

theorem jfollow_assign (lvl : Nat) (r : List JTok) : JFollow lvl (.p .assign :: r) := by
  intro l _
  match l with
  | 0 => rfl
  | 1 => rfl
  | 2 => rfl
  | 3 => rfl
  | 4 => rfl
  | 5 => rfl
  | 6 => rfl
  | n + 7 => simp [jsBinOfTok]

/-- an expression after `return`: it starts with a token other than `;` and is read back with the fuel the statement reader
    passes (every tree of `JFrag`: `retOK_frag`; also the spread call of the wrapper functions) -/
def RetOK (e : JE) : Prop :=
  (∃ t ts, prJ e = t :: ts ∧ t ≠ .p .semi) ∧
  ∀ (rest : List JTok) (F : Nat), 10 * (prJ e).length ≤ F → jExpr F (prJ e ++ .p .semi :: rest) = some (e, .p .semi :: rest)

def ReadOKS : JS → Prop
  | .expr e => JFrag e ∧ StartsId e
  | .assign l r => JFrag l ∧ StartsId l ∧ JFrag r
  | .ret [] => True
  | .ret [e] => RetOK e
  | .var _ => True
  | _ => False

def ReadOKSs : List JS → Prop
  | [] => True
  | s :: ss => ReadOKS s ∧ ReadOKSs ss

/-- reading one expression followed by `;` / `=` with the fuel the statement reader passes -/
theorem jExpr_read (e : JE) (h : JFrag e) (R : List JTok) (hf : JFollow 1 R) (hp : NoPost R) (F : Nat)
    (hF : 10 * (prJ e).length ≤ F) : jExpr F (prJ e ++ R) = some (e, R) := by
  have := jW_le e h
  exact js_read_print_expr_t e h 1 (Nat.le_refl 1) (by omega) R hf hp F (by omega)

theorem retOK_frag (e : JE) (h : JFrag e) : RetOK e := by
  obtain ⟨t, ts, ht, hs⟩ := prJ_start e h
  exact ⟨⟨t, ts, ht, hs.1⟩, fun rest F hF =>
    jExpr_read e h (.p .semi :: rest) (jfollow_closer _ _ _ (Or.inr (Or.inr (Or.inr rfl)))) trivial F hF⟩

/-- **J5 (reading)**: the statement reader inverts `prS` -/
theorem jStmt_prS (s : JS) (h : ReadOKS s) (rest : List JTok) (f : Nat) : jStmt (f + 1) (prS s ++ rest) = some (s, rest) := by
  cases s with
  | expr e =>
    obtain ⟨hf, x, tl, hx, hk⟩ := h
    have e1 := jExpr_read e hf (.p .semi :: rest) (jfollow_closer _ _ _ (Or.inr (Or.inr (Or.inr rfl)))) trivial
      (10 * ((tl ++ .p .semi :: rest).length + 2)) (by rw [hx]; simp; omega)
    rw [hx] at e1
    have := jStmt_expr f x (tl ++ .p .semi :: rest) hk e rest (by simpa using e1)
    simpa [prS, hx] using this
  | assign l r =>
    obtain ⟨hl, ⟨x, tl, hx, hk⟩, hr⟩ := h
    have e1 := jExpr_read l hl (.p .assign :: (prJ r ++ .p .semi :: rest)) (jfollow_assign _ _) trivial
      (10 * ((tl ++ .p .assign :: (prJ r ++ .p .semi :: rest)).length + 2)) (by rw [hx]; simp; omega)
    have e2 := jExpr_read r hr (.p .semi :: rest) (jfollow_closer _ _ _ (Or.inr (Or.inr (Or.inr rfl)))) trivial
      (10 * ((tl ++ .p .assign :: (prJ r ++ .p .semi :: rest)).length + 2)) (by simp; omega)
    rw [hx] at e1
    have := jStmt_assign f x (tl ++ .p .assign :: (prJ r ++ .p .semi :: rest)) hk l r _ rest (by simpa using e1) e2
    simpa [prS, hx] using this
  | ret es =>
    cases es with
    | nil => simpa [prS] using jStmt_ret0 f rest
    | cons e es =>
      cases es with
      | nil =>
        obtain ⟨⟨t, ts, ht, hs⟩, hread⟩ : RetOK e := h
        have e1 := hread rest (10 * ((ts ++ .p .semi :: rest).length + 1 + 2)) (by rw [ht]; simp; omega)
        rw [ht] at e1
        have := jStmt_ret1 f t (ts ++ .p .semi :: rest) rest e hs (by simpa using e1)
        simpa [prS, ht] using this
      | cons _ _ => exact absurd h (by simp [ReadOKS])
  | var n => simpa [prS] using jStmt_var f n rest
  | _ => exact absurd h (by simp [ReadOKS])

theorem prS_head (s : JS) (h : ReadOKS s) : ∃ x tl, prS s = .id x :: tl := by
  cases s with
  | expr e => obtain ⟨_, x, tl, hx, _⟩ := h; exact ⟨x, tl ++ [.p .semi], by simp [prS, hx]⟩
  | assign l r => obtain ⟨_, ⟨x, tl, hx, _⟩, _⟩ := h; exact ⟨x, tl ++ .p .assign :: (prJ r ++ [.p .semi]), by simp [prS, hx]⟩
  | ret es =>
    cases es with
    | nil => exact ⟨_, _, rfl⟩
    | cons e es => exact ⟨_, _, rfl⟩
  | var n => exact ⟨_, _, rfl⟩
  | _ => exact absurd h (by simp [ReadOKS])

theorem jBlock_close (f : Nat) (r : List JTok) : jBlock (f + 1) (.p .rc :: r) = some ([], r) := by
  rw [jBlock.eq_def]

theorem jBlock_step (f : Nat) (x : Spec.Name) (tl r r' : List JTok) (s : JS) (ss : List JS)
    (h1 : jStmt f (.id x :: tl) = some (s, r)) (h2 : jBlock f r = some (ss, r')) :
    jBlock (f + 1) (.id x :: tl) = some (s :: ss, r') := by
  rw [jBlock.eq_def]
  simp only [h1, h2]

/-- **J5 (reading)**: a block body up to its closing brace -/
theorem jBlock_prBody : ∀ (ss : List JS), ReadOKSs ss → ∀ (rest : List JTok) (F : Nat), ss.length + 2 ≤ F →
    jBlock F (prBody ss ++ .p .rc :: rest) = some (ss, rest)
  | [], _, rest, F, hF => by
    obtain ⟨f, rfl⟩ : ∃ f, F = f + 1 := ⟨F - 1, by simp at hF; omega⟩
    simpa [prBody] using jBlock_close f rest
  | s :: ss, h, rest, F, hF => by
    obtain ⟨h1, h2⟩ : ReadOKS s ∧ ReadOKSs ss := h
    obtain ⟨f, rfl⟩ : ∃ f, F = f + 2 := ⟨F - 2, by simp at hF; omega⟩
    obtain ⟨x, tl, hx⟩ := prS_head s h1
    have e1 := jStmt_prS s h1 (prBody ss ++ .p .rc :: rest) f
    have e2 := jBlock_prBody ss h2 rest (f + 1) (by simp at hF; omega)
    rw [hx] at e1
    have := jBlock_step (f + 1) x (tl ++ (prBody ss ++ .p .rc :: rest)) _ rest s ss (by simpa using e1) e2
    simpa [prBody, hx, List.append_assoc] using this

end Drx.LinkJs
