/-
  J5 — statements: `set <variable> = e`, command calls (with `fn_call(...)` for handlers of the same script), `return [e]`.
    (a) the model's `Statement.generate_js` gives the line `indent ++ txS (toJsS s) ++ "\n"`   (js_stmt_emb, jsStmts_emb)
    (b) the spec lexer turns those lines into the tokens `prS` / `prBody`                       (lexS, lexBody)
    (c) the spec reader turns those tokens into the statements `toJsS s`                        (jStmt_prS, jBlock_prBody)
-/
import DrxProofs.LinkJsText
import DrxProofs.LinkJsLex
import DrxProofs.LinkJsFuel
import DrxProofs.LinkJsParen
namespace Drx.LinkJs
open Drx Drx.Lscr Drx.Gen Drx.Spec Drx.Link
set_option linter.unusedSimpArgs false
set_option linter.unusedVariables false

/-! ### (a) text -/

theorem endsWith_brace (t : Str) : endsWith t (S "}") = (t.getLast? == some '}') := by
  unfold endsWith List.isSuffixOf
  rw [← List.head?_reverse]
  cases t.reverse with
  | nil => rfl
  | cons c r =>
    simp only [S, List.head?_cons]
    show (['}'] : Str).reverse.isPrefixOf (c :: r) = _
    simp [List.isPrefixOf]
    by_cases h : c = '}'
    · subst h; rfl
    · have h' : ¬ '}' = c := fun e => h e.symm
      rw [beq_eq_false_iff_ne.mpr h, beq_eq_false_iff_ne.mpr h']

/-- the text does not end with a closing brace (a statement that does gets no `;`) -/
def LastOk (t : Str) : Prop := ∀ ch, t.getLast? = some ch → ch ≠ '}'

theorem LastOk.not_brace {t : Str} (h : LastOk t) : endsWith t (S "}") = false := by
  rw [endsWith_brace]
  cases hl : t.getLast? with
  | none => rfl
  | some ch =>
    have := h ch hl
    simp [this]

theorem lastOk_snoc (a : Str) (c : Char) (h : c ≠ '}') : LastOk (a ++ [c]) := by
  intro ch e; simp at e; subst e; exact h

theorem lastOk_append (a b : Str) (hb : b ≠ []) (h : LastOk b) : LastOk (a ++ b) := by
  intro ch e
  rw [List.getLast?_append] at e
  cases hl : b.getLast? with
  | none => exact absurd (List.getLast?_eq_none_iff.mp hl) hb
  | some x =>
    rw [hl] at e
    simp only [Option.some_or, Option.some.injEq] at e
    subst e; exact h x hl

theorem lastOk_all (t : Str) (h : ∀ c ∈ t, c ≠ '}') : LastOk t := fun ch e => h ch (List.mem_of_getLast? e)

theorem idChar_ne_brace (c : Char) (h : isJsIdChar c = true) : c ≠ '}' := by
  intro e; subst e; exact absurd h (by decide)

theorem jsIdLex_all (n : Spec.Name) (h : jsIdLex n = true) : n ≠ [] ∧ ∀ c ∈ n, isJsIdChar c = true := by
  cases n with
  | nil => simp [jsIdLex] at h
  | cons c cs =>
    simp only [jsIdLex, Bool.and_eq_true, List.all_eq_true] at h
    refine ⟨by simp, ?_⟩
    intro x hx
    rcases List.mem_cons.mp hx with hx | hx
    · subst hx; exact jsIdStart_idChar x h.1
    · exact h.2 x hx

theorem lastOk_id (n : Spec.Name) (h : jsIdLex n = true) : LastOk n :=
  lastOk_all n (fun c hc => idChar_ne_brace c ((jsIdLex_all n h).2 c hc))

theorem lastOk_natStr (k : Nat) : LastOk (natStr k) := by
  apply lastOk_all
  intro c hc
  have := (natStr_digits k).2
  rw [List.all_eq_true] at this
  exact idChar_ne_brace c (idChar_of_digit c (this c hc))

theorem lastOk_paren (a : Str) : LastOk (a ++ S ")") := lastOk_snoc a ')' (by decide)

/-- the text of a fragment expression never ends with `}` -/
theorem tx_last (c : JCtx) (e : Expr) (h : JsOkE e = true) : LastOk (txJ (toJsE c e)) := by
  cases e with
  | int k => simpa [toJsE, txJ] using lastOk_natStr k
  | str s =>
    have := lastOk_snoc (S "new LingoString(\"" ++ escQ s ++ S "\"") ')' (by decide)
    simpa [toJsE, txJ, S, List.append_assoc] using this
  | sym s =>
    have := lastOk_snoc (S "symbol('" ++ s ++ S "'") ')' (by decide)
    simpa [toJsE, jcall, txJ, txArgs, JE.needsParen, S, List.append_assoc] using this
  | var k n =>
    cases k with
    | loc =>
      simp only [JsOkE, Bool.or_eq_true, beq_iff_eq] at h
      by_cases hm : n = "me".toList
      · simp only [toJsE, hm, if_true, jid, txJ]; exact lastOk_id _ (by decide)
      · rcases h with h | h
        · exact absurd h hm
        · simp only [toJsE, hm, if_false, txJ]; exact lastOk_id n (jsIdOk_lex n h)
    | param =>
      simp only [JsOkE, Bool.or_eq_true, beq_iff_eq] at h
      by_cases hm : n = "me".toList
      · simp only [toJsE, hm, if_true, jid, txJ]; exact lastOk_id _ (by decide)
      · rcases h with h | h
        · exact absurd h hm
        · simp only [toJsE, hm, if_false, txJ]; exact lastOk_id n (jsIdOk_lex n h)
    | glob =>
      have hn : jsIdLex n = true := by simpa [JsOkE] using h
      simp only [toJsE, txJ]
      exact lastOk_append _ n (jsIdLex_all n hn).1 (lastOk_id n hn)
    | prop =>
      have hn : jsIdLex n = true := by simpa [JsOkE] using h
      simp only [toJsE, txJ]
      exact lastOk_append _ n (jsIdLex_all n hn).1 (lastOk_id n hn)
  | un op a => cases op <;> (simp only [toJsE, txJ]; exact lastOk_paren _)
  | field a => simp only [toJsE, jcall, txJ]; exact lastOk_paren _
  | list as => simp only [toJsE, jcall, txJ]; exact lastOk_paren _
  | call f as =>
    simp only [JsOkE, Bool.and_eq_true, Bool.not_eq_true'] at h
    obtain ⟨⟨⟨hid, hsp⟩, _⟩, _⟩ := h
    rw [toJsE, toJsCall_plain c f as _ hsp (jsIdOk_not_kw f hid "new" (by decide))]
    simp only [txJ]; exact lastOk_paren _
  | bin op a b =>
    cases hop : jsBinOp op with
    | some o => simp only [toJsE, hop, txJ]; exact lastOk_paren _
    | none =>
      cases hm : jsMethodOp op with
      | some m => simp only [toJsE, hop, hm, txJ]; exact lastOk_paren _
      | none => simp only [toJsE, hop, hm, txJ]; exact lastOk_paren _
  | plist as =>
    have : txJ (toJsE c (.plist as)) = (S "propList(" ++ txArgs (toJsEs c as)) ++ S ")" := by
      simp [toJsE, jcall, txJ, JE.needsParen, S]
    rw [this]; exact lastOk_paren _
  | oprop v o =>
    simp only [JsOkE, Bool.and_eq_true] at h
    simp only [toJsE, txJ]
    exact lastOk_append _ v (jsIdLex_all v h.1).1 (lastOk_id v h.1)
  | chunk k a b d =>
    simp only [toJsE, txJ]
    exact lastOk_snoc _ ']' (by decide)
  | the t k as =>
    match as, h with
    | [e], h =>
      rcases jsOkE_the t k e h with ⟨h1, _⟩ | ⟨op, r, ty, hs, hty, _, _, he⟩ | ⟨rfl, he⟩
      · cases t with
        | sound =>
          have hp := prop_lex tblSound (by decide) k
          simp only [toJsE, toJsEs, toJsThe, txJ]
          exact lastOk_append _ _ (jsIdLex_all _ hp).1 (lastOk_id _ hp)
        | sprite =>
          have hp := prop_lex tblSprite (by decide) k
          simp only [toJsE, toJsEs, toJsThe, txJ]
          exact lastOk_append _ _ (jsIdLex_all _ hp).1 (lastOk_id _ hp)
        | cast =>
          have hp := prop_lex tblCast (by decide) k
          simp only [toJsE, toJsEs, toJsThe, txJ]
          exact lastOk_append _ _ (jsIdLex_all _ hp).1 (lastOk_id _ hp)
        | video =>
          have hp := prop_lex tblVideo (by decide) k
          simp only [toJsE, toJsEs, toJsThe, txJ]
          exact lastOk_append _ _ (jsIdLex_all _ hp).1 (lastOk_id _ hp)
        | _ => simp [theTbl] at h1
      · rcases toJsE_strThe c t k e op r ty hs hty with ⟨_, e1⟩ | ⟨_, e1⟩
        · rw [e1]; simp only [txJ]; exact lastOk_snoc _ ']' (by decide)
        · rw [e1]; simp only [jmem, txJ]
          exact lastOk_append _ _ (by decide) (lastOk_id _ (by decide))
      · have hp := prop_lex tblCast (by decide) k
        rw [toJsE_fieldThe]
        simp only [txJ]
        exact lastOk_append _ _ (jsIdLex_all _ hp).1 (lastOk_id _ hp)
    | [], h =>
      cases t with
      | special =>
        have hk : k < 6 := by simpa [JsOkE] using h
        have hp := (special_owner k hk).2
        simp only [toJsE, toJsEs, toJsThe, hk, if_true, txJ]
        exact lastOk_append _ _ (jsIdLex_all _ hp).1 (lastOk_id _ hp)
      | _ => simp [JsOkE] at h
    | _ :: _ :: _, h => simp [JsOkE] at h
  | mcall o m as =>
    obtain ⟨x, _, hte, _, _⟩ := recvJsOk_spec c o m as (by simp only [JsOkE, Bool.and_eq_true] at h; exact h.1.1)
    rw [hte]; simp only [txJ]; exact lastOk_paren _
  | key v =>
    have hv : jsIdLex v = true := by simpa [JsOkE] using h
    by_cases hd : v = "date".toList ∨ v = "time".toList
    · simp only [toJsE, hd, if_true, txJ]; exact lastOk_paren _
    · simp only [toJsE, hd, if_false, txJ]
      exact lastOk_append _ v (jsIdLex_all v hv).1 (lastOk_id v hv)
  | _ => simp [JsOkE] at h

theorem tx_ne_nil (c : JCtx) (e : Expr) (h : JsOkE e = true) : txJ (toJsE c e) ≠ [] := by
  intro e0
  have := tx_special c e h
  rw [e0] at this; simp at this

/-! one step of `Statement.generate_js` -/

theorem js_stmt (p : Int) (code : Node) (ind : Nat) (t : Str) (h : js true false code ind = .ok (.s t))
    (hb : LastOk (if code.withResult then S "fn_call(" ++ t ++ S ")" else t)) :
    js true false (.stmt p code) ind =
      .ok (.s (indentOf ind ++ (if code.withResult then S "fn_call(" ++ t ++ S ")" else t) ++ S ";\n")) := by
  have := hb.not_brace
  simp only [js, h, bind, Except.bind, Name.asStr, pure, Except.pure, this, Bool.false_eq_true, if_false]

theorem jsOkLv_oprop (v : Spec.Name) (o : Expr) (hf : JsOkLv (.oprop v o) = true) : JsOkE (.oprop v o) = true := by
  cases o with
  | var k n =>
    cases k <;> (simp only [JsOkLv, Bool.and_eq_true] at hf; simp only [JsOkE, Bool.and_eq_true, Bool.or_eq_true])
    · exact ⟨hf.1, Or.inr hf.2⟩
    · exact ⟨hf.1, Or.inr hf.2⟩
    · exact hf
    · exact hf
  | _ => simp [JsOkLv] at hf

theorem jsOkLv_the (t : Tbl) (k : Nat) (as : List Expr) (hf : JsOkLv (.the t k as) = true) : JsOkE (.the t k as) = true := by
  match as, hf with
  | [e], hf => simp only [JsOkLv, Bool.and_eq_true] at hf; exact hf.2
  | [], hf =>
    cases t with
    | special => simpa [JsOkLv, JsOkE] using hf
    | _ => simp [JsOkLv] at hf
  | _ :: _ :: _, hf => simp [JsOkLv] at hf

/-- assignment targets -/
theorem js_lv (c : JCtx) (lv : Expr) (hf : JsOkLv lv = true) (l : Node) (h : EmbLv lv l) (ind : Nat) :
    js true false l ind = .ok (.s (txJ (toJsE c lv))) := by
  cases lv with
  | var k v =>
    cases k with
    | loc =>
      have hk : JsOkE (.var .loc v) = true := by simp only [JsOkLv] at hf; simp [JsOkE, hf]
      exact js_emb c _ hk l h ind
    | param =>
      have hk : JsOkE (.var .param v) = true := by simp only [JsOkLv] at hf; simp [JsOkE, hf]
      exact js_emb c _ hk l h ind
    | glob =>
      have hk : JsOkE (.var .glob v) = true := by simpa [JsOkLv, JsOkE] using hf
      exact js_emb c _ hk l h ind
    | prop =>
      obtain ⟨p, q, rfl⟩ := h
      simp only [js, leafJs, bind, Except.bind, pure, Except.pure]
      simp [toJsE, jid, txJ, JE.needsParen, S, jsReceiver, Name.str, isAsciiDigit]
  | oprop v o =>
    simp only [EmbLv] at h
    exact js_emb c _ (jsOkLv_oprop v o hf) l h ind
  | the t k as =>
    simp only [EmbLv] at h
    exact js_emb c _ (jsOkLv_the t k as hf) l h ind
  | _ => simp [JsOkLv] at hf

theorem lv_ok (c : JCtx) (lv : Expr) (hf : JsOkLv lv = true) : txJ (toJsE c lv) ≠ [] ∧ LexOK (toJsE c lv) ∧ JFrag (toJsE c lv) := by
  cases lv with
  | var k v =>
    cases k with
    | loc =>
      have hk : JsOkE (.var .loc v) = true := by simp only [JsOkLv] at hf; simp [JsOkE, hf]
      exact ⟨tx_ne_nil c _ hk, toJsE_lexok c _ hk, toJsE_fragJ c _ hk⟩
    | param =>
      have hk : JsOkE (.var .param v) = true := by simp only [JsOkLv] at hf; simp [JsOkE, hf]
      exact ⟨tx_ne_nil c _ hk, toJsE_lexok c _ hk, toJsE_fragJ c _ hk⟩
    | glob =>
      have hk : JsOkE (.var .glob v) = true := by simpa [JsOkLv, JsOkE] using hf
      exact ⟨tx_ne_nil c _ hk, toJsE_lexok c _ hk, toJsE_fragJ c _ hk⟩
    | prop =>
      have hv : jsIdLex v = true := by simpa [JsOkLv] using hf
      refine ⟨by simp [toJsE, jid, txJ, S, JE.needsParen], ?_, ?_⟩
      · simp only [toJsE, LexOK]; exact ⟨lexok_jid "this" (by decide), hv⟩
      · exact toJsE_frag c _ trivial
  | oprop v o =>
    have hk := jsOkLv_oprop v o hf
    exact ⟨tx_ne_nil c _ hk, toJsE_lexok c _ hk, toJsE_fragJ c _ hk⟩
  | the t k as =>
    have hk := jsOkLv_the t k as hf
    exact ⟨tx_ne_nil c _ hk, toJsE_lexok c _ hk, toJsE_fragJ c _ hk⟩
  | _ => simp [JsOkLv] at hf

/-! ### right-hand sides and `put` targets -/

theorem txRhs_frag (r : JE) (h : JFrag r) : txRhs r = txJ r := by
  cases r <;> first | rfl | exact absurd h (by simp [JFrag])

theorem prRhs_frag (r : JE) (h : JFrag r) : prRhs r = prJ r := by
  cases r <;> first | rfl | exact absurd h (by simp [JFrag])

/-- `SpAssignOperation.generate_js` -/
theorem js_spAssign (p : Int) (l r : Node) (mode : Str) (ind : Nat) (lt rt : Str)
    (hl : js true true l ind = .ok (.s lt)) (hr : js true false r ind = .ok (.s rt)) :
    js true false (.spAssign p l r mode) ind =
      .ok (.s (if mode = S "after" then lt ++ S " = new LingoString(" ++ lt ++ S " + " ++ rt ++ S ")"
               else if mode = S "before" then lt ++ S " = new LingoString(" ++ rt ++ S " + " ++ lt ++ S ")"
               else lt ++ S " = " ++ rt)) := by
  simp only [js, hl, hr, bind, Except.bind, pure, Except.pure, Name.str]
  split
  · rfl
  · split <;> rfl

theorem js_strOp_one_t (kind : Str) (p : Int) (start of_ : Node) (ind : Nat) (c a : Str)
    (hc : js true true of_ 0 = .ok (.s c)) (ha : js true false start 0 = .ok (.s a)) :
    js true true (.strOp kind p start .none of_) ind = .ok (.s (jsReceiver c ++ S "." ++ kind ++ S "[" ++ a ++ S "]")) := by
  simp only [js, Node.isNone, if_true, hc, ha, bind, Except.bind, pure, Except.pure, Name.str]

theorem js_strOp_range_t (kind : Str) (p : Int) (start stop of_ : Node) (ind : Nat) (c a b : Str) (hs : stop.isNone = false)
    (hc : js true true of_ 0 = .ok (.s c)) (ha : js true false start 0 = .ok (.s a)) (hb : js true false stop 0 = .ok (.s b)) :
    js true true (.strOp kind p start stop of_) ind =
      .ok (.s (jsReceiver c ++ S "." ++ kind ++ S "[range(" ++ a ++ S ", " ++ b ++ S ")]")) := by
  simp only [js, hs, Bool.false_eq_true, if_false, hc, ha, hb, bind, Except.bind, pure, Except.pure, Name.str]

theorem putTarget_chunk_range (c : JCtx) (k : ChunkKind) (a b d : Expr) (h : isZero b = false) :
    putTarget c (.chunk k a b d) = .idx (jmem (putTarget c d) k.tag) (jcall "range" [toJsE c a, toJsE c b]) := by
  cases b with
  | int n => cases n with
    | zero => simp [isZero] at h
    | succ n => simp [putTarget]
  | _ => simp [putTarget]

/-- the translation of a target is never parenthesised as a receiver, and its text starts like an identifier -/
theorem tg_head (c : JCtx) : ∀ (lv : Expr), JsOkTg lv = true →
    (putTarget c lv).needsParen = false ∧ (txJ (putTarget c lv)).head?.map special = some false
  | .chunk k a b d, h => by
    simp only [JsOkTg, Bool.and_eq_true] at h
    obtain ⟨hp, hh⟩ := tg_head c d h.2
    refine ⟨by simp only [putTarget]; rfl, ?_⟩
    simp only [putTarget, jmem, txJ, np_mem, hp, Bool.false_eq_true, if_false, List.append_assoc]
    exact head_append_some _ _ _ hh
  | .field e, _ => by
    refine ⟨rfl, ?_⟩
    simp [putTarget, jmem, jcall, txJ, JE.needsParen, S, special, isAsciiDigit]
  | .var .loc n, h => by
    simp only [JsOkTg, Bool.and_eq_true, bne_iff_ne, ne_eq] at h
    have hm : ¬ n = "me".toList := h.2
    simp only [putTarget, toJsE, hm, if_false, txJ]
    exact ⟨rfl, jsIdLex_head n (jsIdOk_lex n h.1)⟩
  | .var .param n, h => by
    simp only [JsOkTg, Bool.and_eq_true, bne_iff_ne, ne_eq] at h
    have hm : ¬ n = "me".toList := h.2
    simp only [putTarget, toJsE, hm, if_false, txJ]
    exact ⟨rfl, jsIdLex_head n (jsIdOk_lex n h.1)⟩
  | .var .prop n, _ => by
    refine ⟨rfl, ?_⟩
    simp [putTarget, toJsE, jid, txJ, JE.needsParen, S, special, isAsciiDigit]
  | .var .glob _, h => by simp [JsOkTg] at h
  | .int _, h => by simp [JsOkTg] at h
  | .float _ _, h => by simp [JsOkTg] at h
  | .str _, h => by simp [JsOkTg] at h
  | .sym _, h => by simp [JsOkTg] at h
  | .me, h => by simp [JsOkTg] at h
  | .bin _ _ _, h => by simp [JsOkTg] at h
  | .un _ _, h => by simp [JsOkTg] at h
  | .call _ _, h => by simp [JsOkTg] at h
  | .mcall _ _ _, h => by simp [JsOkTg] at h
  | .list _, h => by simp [JsOkTg] at h
  | .plist _, h => by simp [JsOkTg] at h
  | .the _ _ _, h => by simp [JsOkTg] at h
  | .key _, h => by simp [JsOkTg] at h
  | .movie _, h => by simp [JsOkTg] at h
  | .oprop _ _, h => by simp [JsOkTg] at h

theorem tg_receiver (c : JCtx) (lv : Expr) (h : JsOkTg lv = true) : jsReceiver (txJ (putTarget c lv)) = txJ (putTarget c lv) := by
  rw [jsReceiver_eq, (tg_head c lv h).2]; simp

/-- **target text**: `SpAssignOperation.target_js` (the field at the bottom of the chunk chain is addressed through `.text`) -/
theorem js_tg (c : JCtx) : ∀ (lv : Expr), JsOkTg lv = true → ∀ (l : Node), EmbTg lv l → ∀ (ind : Nat),
    js true true l ind = .ok (.s (txJ (putTarget c lv)))
  | .chunk k a b d, hf, l, h, ind => by
    simp only [EmbTg] at h
    obtain ⟨p, x, y, z, rfl, hx, hy, hz⟩ := h
    simp only [JsOkTg, Bool.and_eq_true] at hf
    have iha := js_emb c a hf.1.1 x hx 0
    have ihd := js_tg c d hf.2 z hz 0
    have hnp := (tg_head c d hf.2).1
    rcases hy with ⟨hz0, rfl⟩ | ⟨hz0, hy⟩
    · have hb0 := isZero_true b hz0
      subst hb0
      rw [js_strOp_one_t _ p x z ind _ _ ihd iha, tg_receiver c d hf.2]
      simp only [putTarget, jmem, txJ, np_mem, hnp, Bool.false_eq_true, if_false, List.append_assoc]
    · have ihb := js_emb c b hf.1.2 y hy 0
      rw [js_strOp_range_t _ p x y z ind _ _ _ (emb_isNone b y hy) ihd iha ihb, tg_receiver c d hf.2, putTarget_chunk_range c k a b d hz0]
      simp only [jmem, jcall, txJ, txArgs, np_mem, np_id, hnp, Bool.false_eq_true, if_false, List.append_assoc]
      simp [S, List.append_assoc]
  | .field e, hf, l, h, ind => by
    simp only [EmbTg, Emb] at h
    obtain ⟨p, x, rfl, hx⟩ := h
    have he : JsOkE e = true := by simpa [JsOkTg] using hf
    have ih := js_emb c e he x hx ind
    simp only [js, jsUnaOp_field, ih, bind, Except.bind, pure, Except.pure, Name.str, true_and, if_true]
    simp [putTarget, jmem, jcall, txJ, txArgs, JE.needsParen, S, List.append_assoc]
  | .var .loc n, hf, l, h, ind => by
    simp only [JsOkTg, Bool.and_eq_true] at hf
    have hk : JsOkE (.var .loc n) = true := by simp only [JsOkE, Bool.or_eq_true]; exact Or.inr hf.1
    have hl : Emb (.var .loc n) l := by simpa [EmbTg] using h
    obtain ⟨p, rfl⟩ := hl
    have := js_emb c (.var .loc n) hk (.leaf .localVar (.s n) p) ⟨p, rfl⟩ ind
    simp only [js] at this ⊢
    simpa [putTarget] using this
  | .var .param n, hf, l, h, ind => by
    simp only [JsOkTg, Bool.and_eq_true] at hf
    have hk : JsOkE (.var .param n) = true := by simp only [JsOkE, Bool.or_eq_true]; exact Or.inr hf.1
    have hl : Emb (.var .param n) l := by simpa [EmbTg] using h
    obtain ⟨p, rfl⟩ := hl
    have := js_emb c (.var .param n) hk (.leaf .paramName (.s n) p) ⟨p, rfl⟩ ind
    simp only [js] at this ⊢
    simpa [putTarget] using this
  | .var .prop n, hf, l, h, ind => by
    have hk : JsOkE (.var .prop n) = true := by simpa [JsOkTg, JsOkE] using hf
    have hl : Emb (.var .prop n) l := by simpa [EmbTg] using h
    obtain ⟨p, rfl⟩ := hl
    have := js_emb c (.var .prop n) hk (.leaf .definedProp (.s n) p) ⟨p, rfl⟩ ind
    simp only [js] at this ⊢
    simpa [putTarget] using this
  | .var .glob _, h, _, _, _ => by simp [JsOkTg] at h
  | .int _, h, _, _, _ => by simp [JsOkTg] at h
  | .float _ _, h, _, _, _ => by simp [JsOkTg] at h
  | .str _, h, _, _, _ => by simp [JsOkTg] at h
  | .sym _, h, _, _, _ => by simp [JsOkTg] at h
  | .me, h, _, _, _ => by simp [JsOkTg] at h
  | .bin _ _ _, h, _, _, _ => by simp [JsOkTg] at h
  | .un _ _, h, _, _, _ => by simp [JsOkTg] at h
  | .call _ _, h, _, _, _ => by simp [JsOkTg] at h
  | .mcall _ _ _, h, _, _, _ => by simp [JsOkTg] at h
  | .list _, h, _, _, _ => by simp [JsOkTg] at h
  | .plist _, h, _, _, _ => by simp [JsOkTg] at h
  | .the _ _ _, h, _, _, _ => by simp [JsOkTg] at h
  | .key _, h, _, _, _ => by simp [JsOkTg] at h
  | .movie _, h, _, _, _ => by simp [JsOkTg] at h
  | .oprop _ _, h, _, _, _ => by simp [JsOkTg] at h

theorem listFn_return : listFn (S "return") = false := by decide

/-- a target whose bottom is not a global is an ordinary image -/
theorem embTg_emb : ∀ (t : Expr), tgOk t = true → ∀ (l : Node), EmbTg t l → Emb t l
  | .chunk k a b d, h, l, hl => by
    simp only [tgOk] at h
    simp only [EmbTg] at hl
    obtain ⟨p, x, y, z, rfl, hx, hy, hz⟩ := hl
    exact ⟨p, x, y, z, rfl, hx, hy, embTg_emb d h z hz⟩
  | .var .glob _, h, _, _ => by simp [tgOk] at h
  | .var .loc _, _, _, hl => by simpa [EmbTg] using hl
  | .var .param _, _, _, hl => by simpa [EmbTg] using hl
  | .var .prop _, _, _, hl => by simpa [EmbTg] using hl
  | .int _, _, _, hl => by simpa [EmbTg] using hl
  | .float _ _, _, _, hl => by simpa [EmbTg] using hl
  | .str _, _, _, hl => by simpa [EmbTg] using hl
  | .sym _, _, _, hl => by simpa [EmbTg] using hl
  | .me, _, _, hl => by simpa [EmbTg] using hl
  | .bin _ _ _, _, _, hl => by simpa [EmbTg] using hl
  | .un _ _, _, _, hl => by simpa [EmbTg] using hl
  | .field _, _, _, hl => by simpa [EmbTg] using hl
  | .call _ _, _, _, hl => by simpa [EmbTg] using hl
  | .mcall _ _ _, _, _, hl => by simpa [EmbTg] using hl
  | .list _, _, _, hl => by simpa [EmbTg] using hl
  | .plist _, _, _, hl => by simpa [EmbTg] using hl
  | .the _ _ _, _, _, hl => by simpa [EmbTg] using hl
  | .key _, _, _, hl => by simpa [EmbTg] using hl
  | .movie _, _, _, hl => by simpa [EmbTg] using hl
  | .oprop _ _, _, _, hl => by simpa [EmbTg] using hl

/-- `return` / `return e` -/
theorem js_call_return (p p' : Int) (nm : Str) (ops : List Node) (up it wr : Bool) (ind : Nat) (l : List Str)
    (hl : jsStrs true false ops ind = .ok l) :
    js true false (.callFn (.s (S "return")) p (.loadList nm p' ops) up it wr .none) ind =
      .ok (if commaJoinRev l = [] then .s (S "return") else .s (S "return " ++ commaJoinRev l)) := by
  have hn := callJsName_plain (S "return") it (.s (commaJoinRev l)) (by decide) (by decide) (by decide) (by decide) (by decide)
  have hme : ¬ (True ∧ (Lscr.Name.s (S "return") == Lscr.Name.s (S "me")) = true) := by decide
  have hcode : callJsCode (.s (S "return")) (.s (commaJoinRev l)) =
      .ok (if commaJoinRev l = [] then .s (S "return") else .s (S "return " ++ commaJoinRev l)) := by
    by_cases he : commaJoinRev l = []
    · simp [callJsCode, he, pure, Except.pure]
    · simp [callJsCode, he, Name.asStr, bind, Except.bind, pure, Except.pure]
  cases ops with
  | nil =>
    simp only [js, List.isEmpty_nil, if_true, hl, bind, Except.bind, pure, Except.pure, hn, hme, if_false, recvName, hcode]
  | cons x xs =>
    have hne : (x :: xs).isEmpty = false := rfl
    have hli : isListFn (.s (S "return")) = .ok false := by
      simp [isListFn, Name.asStr, bind, Except.bind, pure, Except.pure]; exact listFn_return
    simp only [js, hne, Bool.false_eq_true, if_false, hli, hl, bind, Except.bind, pure, Except.pure, hn, hme, recvName, hcode]

/-- **J5 (text)**: one statement line -/
theorem js_stmt_emb (hs : List Spec.Name) (hret : hs.contains (S "return") = false) (s : Stmt) (hf : JsOkS s = true) (n : Node)
    (h : EmbSJ hs s n) (ind : Nat) :
    js true false n ind = .ok (.s (indentOf ind ++ txS (toJsS { handlers := hs, inTell := false } s) ++ S "\n")) := by
  cases s with
  | set lv v =>
    obtain ⟨p, q, l, r, rfl, hl, hr⟩ := h
    simp only [JsOkS, Bool.and_eq_true] at hf
    have e1 := js_lv { handlers := hs, inTell := false } lv hf.1 l hl ind
    have e2 := js_emb { handlers := hs, inTell := false } v hf.2 r hr ind
    have e3 := js_assign true q l r ind _ _ e1 e2
    have hlast : LastOk (txJ (toJsE { handlers := hs, inTell := false } lv) ++ S " = " ++ txJ (toJsE { handlers := hs, inTell := false } v)) :=
      lastOk_append _ _ (tx_ne_nil _ v hf.2) (tx_last _ v hf.2)
    rw [js_stmt p _ ind _ e3 (by simpa [Node.withResult] using hlast)]
    simp [Node.withResult, toJsS, txS, S, List.append_assoc, txRhs_frag _ (toJsE_fragJ { handlers := hs, inTell := false } v hf.2)]
  | call f as =>
    obtain ⟨p, q, q', ops, rfl, hops⟩ := h
    by_cases hr : f = "return".toList
    · subst hr
      simp only [JsOkS, if_true] at hf
      have hwr : hs.contains "return".toList = false := hret
      rw [hwr]
      cases as with
      | nil =>
        simp only [EmbL] at hops; subst hops
        rw [List.reverse_nil]
        have hl : jsStrs true false ([] : List Node) ind = .ok [] := by simp [jsStrs]
        have e := js_call_return q q' (S "load_list") [] true false false ind [] hl
        simp only [commaJoinRev, List.reverse_nil, joinWith, if_true] at e
        change js true false (.callFn (.s "return".toList) q (.loadList (S "load_list") q' []) true false false .none) ind = _ at e
        rw [js_stmt p _ ind _ e (by simpa [Node.withResult] using lastOk_id (S "return") (by decide))]
        simp [Node.withResult, toJsS, toJsEs, txS, S]
      | cons e es =>
        cases es with
        | nil =>
          have he : JsOkE e = true := by simpa using hf
          obtain ⟨x, xs, rfl, hx, hxs⟩ := hops
          simp only [EmbL] at hxs; subst hxs
          have hrev : ([x] : List Node).reverse = [x] := rfl
          rw [hrev]
          have ex := js_emb { handlers := hs, inTell := false } e he x hx ind
          have hl : jsStrs true false [x] ind = .ok [txJ (toJsE { handlers := hs, inTell := false } e)] := by
            simp [jsStrs, ex, bind, Except.bind, pure, Except.pure, Name.str]
          have e2 := js_call_return q q' (S "load_list") [x] true false false ind _ hl
          have hne := tx_ne_nil { handlers := hs, inTell := false } e he
          simp only [commaJoinRev, List.reverse_cons, List.reverse_nil, List.nil_append, joinWith, hne, if_false] at e2
          change js true false (.callFn (.s "return".toList) q (.loadList (S "load_list") q' [x]) true false false .none) ind = _ at e2
          rw [js_stmt p _ ind _ e2 (by
            simpa [Node.withResult] using lastOk_append (S "return ") _ hne (tx_last _ e he))]
          simp [Node.withResult, toJsS, toJsEs, txS, S, List.append_assoc]
        | cons e2 es2 => simp at hf
    · have hr' : ¬ f = "return".toList := hr
      simp only [JsOkS, hr', if_false] at hf
      have hk : JsOkE (.call f as) = true := by simpa [JsOkE] using hf
      have ex := js_callnode { handlers := hs, inTell := false } f as hk (S "load_list") q q' (hs.contains f) ops hops ind
      have hlast : LastOk (if (Node.callFn (.s f) q (.loadList (S "load_list") q' ops.reverse) true false (hs.contains f) .none).withResult
          then S "fn_call(" ++ txJ (toJsE { handlers := hs, inTell := false } (.call f as)) ++ S ")"
          else txJ (toJsE { handlers := hs, inTell := false } (.call f as))) := by
        split
        · exact lastOk_paren _
        · exact tx_last _ _ hk
      rw [js_stmt p _ ind _ ex hlast]
      have hts : toJsS { handlers := hs, inTell := false } (.call f as) =
          if hs.contains f then JS.expr (jcall "fn_call" [toJsE { handlers := hs, inTell := false } (.call f as)])
          else JS.expr (toJsE { handlers := hs, inTell := false } (.call f as)) := by
        simp only [toJsS, hr', if_false, Bool.not_false, Bool.and_true]
      rw [hts]
      cases hc : hs.contains f
      · simp only [Node.withResult, hc, Bool.false_eq_true, if_false, txS]
        simp [S, List.append_assoc]
      · simp only [Node.withResult, hc, if_true, txS, jcall, txJ, txArgs, np_id, Bool.false_eq_true, if_false]
        simp [S, List.append_assoc]
  | exit =>
    obtain ⟨p, q, rfl⟩ := h
    have hn := callJsName_plain (S "exit") false (.s []) (by decide) (by decide) (by decide) (by decide) (by decide)
    have hme : ¬ (True ∧ (Lscr.Name.s (S "exit") == Lscr.Name.s (S "me")) = true) := by decide
    have e : js true false (.callFn (.s (S "exit")) q .none true false false .none) ind = .ok (.s (S "exit()")) := by
      simp only [js, hn, bind, Except.bind, hme, if_false, recvName, callJsCode_plain (S "exit") [] (by decide)]
      rfl
    have hlo : LastOk (S "exit()") := lastOk_paren (S "exit(")
    rw [js_stmt p _ ind _ e (by simpa [Node.withResult] using hlo)]
    simp [Node.withResult, toJsS, txS, jcall, txJ, txArgs, JE.needsParen, S]
  | put m v lv =>
    simp only [EmbSJ] at h
    obtain ⟨p, q, l, r, rfl, hl, hr⟩ := h
    simp only [JsOkS, Bool.and_eq_true] at hf
    have e1 := js_tg { handlers := hs, inTell := false } lv hf.2 l hl ind
    have e2 := js_emb { handlers := hs, inTell := false } v hf.1 r hr ind
    have e3 := js_spAssign q l r m.tag.toList ind _ _ e1 e2
    have hfr := toJsE_fragJ { handlers := hs, inTell := false } v hf.1
    cases m with
    | into =>
      have hm1 : ¬ (PutMode.into.tag.toList = S "after") := by decide
      have hm2 : ¬ (PutMode.into.tag.toList = S "before") := by decide
      simp only [hm1, hm2, if_false] at e3
      have hlast : LastOk (txJ (putTarget { handlers := hs, inTell := false } lv) ++ S " = " ++ txJ (toJsE { handlers := hs, inTell := false } v)) :=
        lastOk_append _ _ (tx_ne_nil _ v hf.1) (tx_last _ v hf.1)
      rw [js_stmt p _ ind _ e3 (by simpa [Node.withResult] using hlast)]
      simp [Node.withResult, toJsS, txS, S, List.append_assoc, txRhs_frag _ hfr]
    | after =>
      have hm1 : PutMode.after.tag.toList = S "after" := by decide
      simp only [hm1, if_true] at e3
      rw [hm1]
      have hlast : LastOk (txJ (putTarget { handlers := hs, inTell := false } lv) ++ S " = new LingoString(" ++
          txJ (putTarget { handlers := hs, inTell := false } lv) ++ S " + " ++ txJ (toJsE { handlers := hs, inTell := false } v) ++ S ")") :=
        lastOk_paren _
      rw [js_stmt p _ ind _ e3 (by simpa [Node.withResult] using hlast)]
      simp [Node.withResult, toJsS, txS, txRhs, txBare, S, List.append_assoc]
    | before =>
      have hm2 : PutMode.before.tag.toList = S "before" := by decide
      have hne : ¬ (S "before" = S "after") := by decide
      simp only [hm2, hne, if_false, if_true] at e3
      rw [hm2]
      have hlast : LastOk (txJ (putTarget { handlers := hs, inTell := false } lv) ++ S " = new LingoString(" ++
          txJ (toJsE { handlers := hs, inTell := false } v) ++ S " + " ++ txJ (putTarget { handlers := hs, inTell := false } lv) ++ S ")") :=
        lastOk_paren _
      rw [js_stmt p _ ind _ e3 (by simpa [Node.withResult] using hlast)]
      simp [Node.withResult, toJsS, txS, txRhs, txBare, S, List.append_assoc]
  | mcall o m as =>
    simp only [JsOkS, JsOkE, Bool.and_eq_true] at hf
    obtain ⟨⟨hro, hm⟩, has⟩ := hf
    obtain ⟨x, ⟨hx1, hx2, hx3, hx4⟩, hte, hmr, hox⟩ := recvJsOk_spec { handlers := hs, inTell := false } o m as hro
    simp only [EmbSJ] at h
    obtain ⟨p, q, q', ps, rc, ops, nm, hnm, rfl, hops, hrc⟩ := h
    rw [hmr] at hnm
    simp only [Option.some.injEq] at hnm
    subst hnm
    have hrcn : rc = .none := by rcases hox with rfl | rfl <;> exact hrc
    subst hrcn
    have e1 := js_mcall_core { handlers := hs, inTell := false } x m as hx1 hx3 hx4 (S "load_list") q q' ps false ops ind
      (js_embL _ as has ops hops ind)
    have hlast : LastOk (txJ (JE.call (.id x) (jcall "symbol" [.sstr m] :: toJsEs { handlers := hs, inTell := false } as))) := by
      simp only [txJ]; exact lastOk_paren _
    rw [js_stmt p _ ind _ e1 (by simpa [Node.withResult] using hlast)]
    simp only [Node.withResult, toJsS, hte, txS, Bool.false_eq_true, if_false]
    simp [S, List.append_assoc]
  | delete t =>
    simp only [EmbSJ, EmbSH] at h
    obtain ⟨p, q, l, rfl, hl⟩ := h
    simp only [JsOkS, Bool.and_eq_true] at hf
    have ht : JsOkE t = true := hf.1
    have hl' : Emb t l := by first | exact hl | exact embTg_emb t hf.2 l hl
    have e1 := js_emb { handlers := hs, inTell := false } t ht l hl' ind
    have e2 := js_unary true (S "delete") q l ind (S "delete") _ rfl e1
    rw [js_stmt p _ ind _ e2 (by simpa [Node.withResult] using lastOk_paren (S "delete" ++ S "(" ++ txJ (toJsE { handlers := hs, inTell := false } t)))]
    simp [Node.withResult, toJsS, txS, jcall, txJ, txArgs, JE.needsParen, S, List.append_assoc]
  | hilite t =>
    simp only [EmbSJ, EmbSH] at h
    obtain ⟨p, q, l, rfl, hl⟩ := h
    simp only [JsOkS, Bool.and_eq_true] at hf
    have ht : JsOkE t = true := hf.1
    have hl' : Emb t l := by first | exact hl | exact embTg_emb t hf.2 l hl
    have e1 := js_emb { handlers := hs, inTell := false } t ht l hl' ind
    have e2 := js_unary true (S "hilite") q l ind (S "hilite") _ rfl e1
    rw [js_stmt p _ ind _ e2 (by simpa [Node.withResult] using lastOk_paren (S "hilite" ++ S "(" ++ txJ (toJsE { handlers := hs, inTell := false } t)))]
    simp [Node.withResult, toJsS, txS, jcall, txJ, txArgs, JE.needsParen, S, List.append_assoc]
  | _ => simp [JsOkS] at hf

/-! structured statements: `if`, `repeat while`, `repeat with` -/

/-- statements that are one line -/
def isSimpleJ : JS → Bool
  | .ifs .. => false
  | .while .. => false
  | .for3 .. => false
  | .forOf .. => false
  | _ => true

theorem txT_simple (ind : Nat) (s : JS) (h : isSimpleJ s = true) : txT ind s = indentOf ind ++ txS s ++ S "\n" := by
  cases s <;> first | rfl | (simp [isSimpleJ] at h)

theorem toJsS_simple (c : JCtx) (s : Stmt) (hf : JsOkS s = true) : isSimpleJ (toJsS c s) = true := by
  cases s with
  | set lv v => rfl
  | call f as =>
    simp only [toJsS]
    split
    · rfl
    · split <;> rfl
  | exit => rfl
  | delete t => rfl
  | hilite t => rfl
  | put m v lv => cases m <;> rfl
  | mcall o m as => rfl
  | _ => simp [JsOkS] at hf

theorem stripParens_group (x : Str) : stripParens (S "(" ++ x ++ S ")") = x := by
  have e : S "(" ++ x ++ S ")" = '(' :: (x ++ [')']) := by simp [S]
  rw [e]
  unfold Lscr.stripParens pySlice
  have h1 : ¬ ((1 : Int) < 0) := by omega
  have h2 : ((-1 : Int) < 0) := by omega
  have hn : ((('(' :: (x ++ [')'])).length : Nat) : Int) = (x.length : Int) + 2 := by simp; omega
  simp only [h1, h2, if_false, if_true, hn]
  have ea : (min (1 : Int) ((x.length : Int) + 2)).toNat = 1 := by omega
  have eb : (max (-1 + ((x.length : Int) + 2)) 0).toNat = x.length + 1 := by omega
  rw [ea, eb]
  simp

theorem endsWith_snoc_brace (t : Str) : endsWith (t ++ S "}") (S "}") = true := by
  rw [endsWith_brace]; simp [S]

/-- a statement whose code ends with `}` gets no semicolon -/
theorem js_stmt_brace (p : Int) (code : Node) (ind : Nat) (t : Str) (h : js true false code ind = .ok (.s (t ++ S "}")))
    (hw : code.withResult = false) :
    js true false (.stmt p code) ind = .ok (.s (indentOf ind ++ (t ++ S "}") ++ S "\n")) := by
  have := endsWith_snoc_brace t
  simp only [js, h, bind, Except.bind, Name.asStr, pure, Except.pure, hw, Bool.false_eq_true, if_false, this, if_true]

theorem embSsJ_isEmpty (hs : List Spec.Name) : ∀ (ss : List Stmt) (ns : List Node), EmbSsJ hs ss ns → ns.isEmpty = ss.isEmpty
  | [], ns, h => by simp only [EmbSsJ] at h; subst h; rfl
  | s :: ss, ns, h => by simp only [EmbSsJ] at h; obtain ⟨x, xs, rfl, _, _⟩ := h; rfl

theorem toJsSs_isEmpty (c : JCtx) (ss : List Stmt) : (toJsSs c ss).isEmpty = ss.isEmpty := by
  cases ss <;> rfl

theorem for_ne_while : ¬ (S "for" = S "while") := by decide

/-- the condition of `if` / `while`: the model's text for the image of `c`, in exactly one pair of parentheses -/
theorem js_cond (ctx : JCtx) (c : Expr) (hf : JsOkE c = true) (cn : Node) (hc : Emb c cn) :
    js true false cn 0 = .ok (.s (txJ (toJsE ctx c))) ∧
    (if isParenthesized (txJ (toJsE ctx c)) then txJ (toJsE ctx c) else S "(" ++ txJ (toJsE ctx c) ++ S ")") =
      S "(" ++ txBare (toJsE ctx c) ++ S ")" :=
  ⟨js_emb ctx c hf cn hc 0, cond_text _ (toJsE_lexok ctx c hf)⟩

mutual
/-- **J-text for trees**: one (possibly structured) statement -/
theorem js_tree (hs : List Spec.Name) (hret : hs.contains (S "return") = false) : ∀ (s : Stmt), JsOkT s = true → ∀ (n : Node),
    EmbSJ hs s n → ∀ (ind : Nat), js true false n ind = .ok (.s (txT ind (toJsS { handlers := hs, inTell := false } s)))
  | .set lv v, hf, n, h, ind => by
    simp only [JsOkT] at hf
    rw [js_stmt_emb hs hret (.set lv v) hf n h ind, txT_simple _ _ (toJsS_simple _ _ hf)]
  | .call f as, hf, n, h, ind => by
    simp only [JsOkT] at hf
    rw [js_stmt_emb hs hret (.call f as) hf n h ind, txT_simple _ _ (toJsS_simple _ _ hf)]
  | .exit, hf, n, h, ind => by
    rw [js_stmt_emb hs hret .exit rfl n h ind, txT_simple _ _ (toJsS_simple _ _ rfl)]
  | .ifThen c t e, hf, n, h, ind => by
    simp only [EmbSJ] at h
    obtain ⟨p, q, cn, ifs, els, rfl, hc, ht, he⟩ := h
    simp only [JsOkT, Bool.and_eq_true] at hf
    obtain ⟨⟨hfc, hft⟩, hfe⟩ := hf
    obtain ⟨e1, ec⟩ := js_cond { handlers := hs, inTell := false } c hfc cn hc
    have e2 := js_trees hs hret t hft ifs ht (ind + 1)
    have e3 := js_trees hs hret e hfe els he (ind + 1)
    have hemp := embSsJ_isEmpty hs e els he
    have hcode : js true false (.ifThen q cn ifs els) ind = .ok (.s ((S "if (" ++ txBare (toJsE { handlers := hs, inTell := false } c) ++ S ") {\n" ++
        txBody (ind + 1) (toJsSs { handlers := hs, inTell := false } t) ++
        (if e.isEmpty then [] else indentOf ind ++ S "} else {\n" ++ txBody (ind + 1) (toJsSs { handlers := hs, inTell := false } e)) ++
        indentOf ind) ++ S "}")) := by
      cases hee : e.isEmpty with
      | true =>
        rw [hee] at hemp
        simp only [js, e1, e2, hemp, if_true, bind, Except.bind, pure, Except.pure, Lscr.Name.asStr, ec]
        simp [S, List.append_assoc]
      | false =>
        rw [hee] at hemp
        simp only [js, e1, e2, e3, hemp, Bool.false_eq_true, if_false, bind, Except.bind, pure, Except.pure, Lscr.Name.asStr, ec]
        simp [S, List.append_assoc]
    rw [js_stmt_brace p _ ind _ hcode rfl]
    simp only [toJsS, txT, toJsSs_isEmpty]
    simp [S, List.append_assoc]
  | .repeatWhile c b, hf, n, h, ind => by
    simp only [EmbSJ] at h
    obtain ⟨p, rp, re, cn, body, rfl, hc, hb⟩ := h
    simp only [JsOkT, Bool.and_eq_true] at hf
    obtain ⟨hfc, hfb⟩ := hf
    obtain ⟨e1, ec⟩ := js_cond { handlers := hs, inTell := false } c hfc cn hc
    have e2 := js_trees hs hret b hfb body hb (ind + 1)
    have hcode : js true false (.repeat_ rp re cn body (S "while") .none (.s []) [] .none) ind =
        .ok (.s ((S "while (" ++ txBare (toJsE { handlers := hs, inTell := false } c) ++ S ") {\n" ++
          txBody (ind + 1) (toJsSs { handlers := hs, inTell := false } b) ++ indentOf ind) ++ S "}")) := by
      simp only [js, e1, e2, Node.isNone, if_true, bind, Except.bind, pure, Except.pure, Lscr.Name.asStr, ec]
      simp [S, List.append_assoc]
    rw [js_stmt_brace p _ ind _ hcode rfl]
    simp only [toJsS, txT]
    simp [S, List.append_assoc]
  | .repeatWith lv a b down body, hf, n, h, ind => by
    cases lv with
    | var k v =>
      cases k with
      | loc =>
        simp only [EmbSJ] at h
        obtain ⟨p, rp, re, cp, pv1, pv2, ra, rb, body', rfl, ha, hb, hbody⟩ := h
        simp only [JsOkT, Bool.and_eq_true] at hf
        obtain ⟨⟨⟨hv, hfa⟩, hfb⟩, hfbody⟩ := hf
        have hvk : JsOkE (.var .loc v) = true := by simp only [JsOkE, Bool.or_eq_true]; exact Or.inr hv
        have ea := js_emb { handlers := hs, inTell := false } a hfa ra ha 0
        have e3 := js_trees hs hret body hfbody body' hbody (ind + 1)
        have ev := js_emb { handlers := hs, inTell := false } (.var .loc v) hvk (.leaf .localVar (.s v) pv2) ⟨pv2, rfl⟩ 0
        have hnone : (Node.leaf Leaf.localVar (Name.s v) pv2).isNone = false := rfl
        generalize hlv : Node.leaf Leaf.localVar (Name.s v) pv2 = lvn at ev hnone ⊢
        cases down with
        | false =>
          have hcf : JsOkE (.bin .le (.var .loc v) b) = true := by rw [JsOkE, hvk, hfb]; rfl
          have hemb : Emb (.bin .le (.var .loc v) b) (.binary (S "lte") cp (.leaf .localVar (.s v) pv1) rb) := ⟨cp, _, rb, rfl, ⟨pv1, rfl⟩, hb⟩
          obtain ⟨e1, ec⟩ := js_cond { handlers := hs, inTell := false } _ hcf _ hemb
          have hbin : toJsE { handlers := hs, inTell := false } (.bin .le (.var .loc v) b) =
              .bin "<=".toList (toJsE { handlers := hs, inTell := false } (.var .loc v)) (toJsE { handlers := hs, inTell := false } b) := by
            simp [toJsE, jsBinOp]
          simp only [Bool.false_eq_true, if_false]
          generalize hcn : Node.binary (S "lte") cp (Node.leaf Leaf.localVar (Name.s v) pv1) rb = cn' at e1 ⊢
          have hcode : js true false (.repeat_ rp re cn' body' (S "for") ra (.s v) (S "+") lvn) ind =
              .ok (.s ((S "for(" ++ txJ (toJsE { handlers := hs, inTell := false } (.var .loc v)) ++ S " = " ++
                txJ (toJsE { handlers := hs, inTell := false } a) ++ S "; " ++
                txBare (toJsE { handlers := hs, inTell := false } (.bin .le (.var .loc v) b)) ++ S "; " ++
                txJ (toJsE { handlers := hs, inTell := false } (.var .loc v)) ++ S "++" ++ S ") {\n" ++
                txBody (ind + 1) (toJsSs { handlers := hs, inTell := false } body) ++ indentOf ind) ++ S "}")) := by
            simp only [js, e1, ev, ea, e3, hnone, for_ne_while, if_false, if_true, bind, Except.bind, pure, Except.pure, Lscr.Name.asStr,
              Lscr.Name.str, ec, stripParens_group, Bool.false_eq_true]
          rw [js_stmt_brace p _ ind _ hcode rfl, hbin]
          simp only [toJsS, txT, txBare]
          simp [S, List.append_assoc, txBare]
        | true =>
          have hcf : JsOkE (.bin .ge (.var .loc v) b) = true := by rw [JsOkE, hvk, hfb]; rfl
          have hemb : Emb (.bin .ge (.var .loc v) b) (.binary (S "gte") cp (.leaf .localVar (.s v) pv1) rb) := ⟨cp, _, rb, rfl, ⟨pv1, rfl⟩, hb⟩
          obtain ⟨e1, ec⟩ := js_cond { handlers := hs, inTell := false } _ hcf _ hemb
          have hbin : toJsE { handlers := hs, inTell := false } (.bin .ge (.var .loc v) b) =
              .bin ">=".toList (toJsE { handlers := hs, inTell := false } (.var .loc v)) (toJsE { handlers := hs, inTell := false } b) := by
            simp [toJsE, jsBinOp]
          simp only [if_true]
          generalize hcn : Node.binary (S "gte") cp (Node.leaf Leaf.localVar (Name.s v) pv1) rb = cn' at e1 ⊢
          have hs' : ¬ (S "-" = S "+") := by decide
          have hcode : js true false (.repeat_ rp re cn' body' (S "for") ra (.s v) (S "-") lvn) ind =
              .ok (.s ((S "for(" ++ txJ (toJsE { handlers := hs, inTell := false } (.var .loc v)) ++ S " = " ++
                txJ (toJsE { handlers := hs, inTell := false } a) ++ S "; " ++
                txBare (toJsE { handlers := hs, inTell := false } (.bin .ge (.var .loc v) b)) ++ S "; " ++
                txJ (toJsE { handlers := hs, inTell := false } (.var .loc v)) ++ S "--" ++ S ") {\n" ++
                txBody (ind + 1) (toJsSs { handlers := hs, inTell := false } body) ++ indentOf ind) ++ S "}")) := by
            simp only [js, e1, ev, ea, e3, hnone, for_ne_while, hs', if_false, if_true, bind, Except.bind, pure, Except.pure, Lscr.Name.asStr,
              Lscr.Name.str, ec, stripParens_group, Bool.false_eq_true]
          rw [js_stmt_brace p _ ind _ hcode rfl, hbin]
          simp only [toJsS, txT, txBare]
          simp [S, List.append_assoc, txBare]
      | _ => simp [JsOkT] at hf
    | _ => simp [JsOkT] at hf
  | .put m v lv, hf, n, h, ind => by
    simp only [JsOkT] at hf
    rw [js_stmt_emb hs hret (.put m v lv) hf n h ind, txT_simple _ _ (toJsS_simple _ _ hf)]
  | .delete t, hf, n, h, ind => by
    simp only [JsOkT] at hf
    rw [js_stmt_emb hs hret (.delete t) hf n h ind, txT_simple _ _ (toJsS_simple _ _ hf)]
  | .hilite t, hf, n, h, ind => by
    simp only [JsOkT] at hf
    rw [js_stmt_emb hs hret (.hilite t) hf n h ind, txT_simple _ _ (toJsS_simple _ _ hf)]
  | .mcall o m as, hf, n, h, ind => by
    simp only [JsOkT] at hf
    rw [js_stmt_emb hs hret (.mcall o m as) hf n h ind, txT_simple _ _ (toJsS_simple _ _ hf)]
  | .tell .., hf, _, _, _ => by simp [JsOkT] at hf
  | .repeatIn lv l body, hf, n, h, ind => by
    cases lv with
    | var k v =>
      cases k with
      | loc =>
        simp only [EmbSJ] at h
        obtain ⟨p, rp, re, pb, pk, pc, pl, pv, ln, body', rfl, hl, hbody⟩ := h
        simp only [JsOkT, Bool.and_eq_true] at hf
        obtain ⟨⟨hv, hfl⟩, hfbody⟩ := hf
        have hvk : JsOkE (.var .loc v) = true := by simp only [JsOkE, Bool.or_eq_true]; exact Or.inr hv
        have ea := js_emb { handlers := hs, inTell := false } l hfl ln hl 0
        have e3 := js_trees hs hret body hfbody body' hbody (ind + 1)
        have ev := js_emb { handlers := hs, inTell := false } (.var .loc v) hvk (.leaf .localVar (.s v) pv) ⟨pv, rfl⟩ 0
        have hnone : (Node.leaf Leaf.localVar (Name.s v) pv).isNone = false := rfl
        generalize hlv : Node.leaf Leaf.localVar (Name.s v) pv = lvn at ev hnone ⊢
        -- the condition `1 <= count(l)` is generated (and thrown away)
        have hcf : JsOkE (.bin .le (.int 1) (.call "count".toList [l])) = true := by
          have h1 : JsOkE (.call "count".toList [l]) = true := by
            have hc1 : jsIdOk "count".toList = true := by decide
            have hc2 : specialCall "count".toList = false := by decide
            have hc3 : listFn "count".toList = false := by decide
            simp only [JsOkE, JsOkL, hfl, hc1, hc2, hc3, Bool.and_true, Bool.false_and, Bool.not_false, Bool.true_and]
          rw [JsOkE, h1]; rfl
        have hemb : Emb (.bin .le (.int 1) (.call "count".toList [l]))
            (.binary (S "lte") pb (.leaf .const (.s (S "1")) pk)
              (.callFn (.s (S "count")) pc (.loadList (S "<load_list>") pl [ln]) true false false .none)) :=
          ⟨pb, _, _, rfl, ⟨pk, rfl⟩, ⟨pc, pl, false, [ln], rfl, ln, [], rfl, hl, rfl⟩⟩
        obtain ⟨e1, ec⟩ := js_cond { handlers := hs, inTell := false } _ hcf _ hemb
        generalize hcn : Node.binary (S "lte") pb (Node.leaf Leaf.const (Name.s (S "1")) pk)
          (Node.callFn (Name.s (S "count")) pc (Node.loadList (S "<load_list>") pl [ln]) true false false Node.none) = cn' at e1 ⊢
        have hne1 : ¬ (S "for_in" = S "while") := by decide
        have hne2 : ¬ (S "for_in" = S "for") := by decide
        have hcode : js true false (.repeat_ rp re cn' body' (S "for_in") ln (.s v) [] lvn) ind =
            .ok (.s ((S "for(" ++ txJ (toJsE { handlers := hs, inTell := false } (.var .loc v)) ++ S " of " ++
              txJ (toJsE { handlers := hs, inTell := false } l) ++ S ") {\n" ++
              txBody (ind + 1) (toJsSs { handlers := hs, inTell := false } body) ++ indentOf ind) ++ S "}")) := by
          simp only [js, e1, ev, ea, e3, hnone, hne1, hne2, if_false, if_true, bind, Except.bind, pure, Except.pure, Lscr.Name.asStr,
            Lscr.Name.str, Bool.false_eq_true]
        rw [js_stmt_brace p _ ind _ hcode rfl]
        simp only [toJsS, txT]
        simp [S, List.append_assoc]
      | _ => simp [JsOkT] at hf
    | _ => simp [JsOkT] at hf
  | .exitRepeat, hf, _, _, _ => by simp [JsOkT] at hf
/-- **J-text for trees**: a statement list -/
theorem js_trees (hs : List Spec.Name) (hret : hs.contains (S "return") = false) : ∀ (ss : List Stmt), JsOkTs ss = true →
    ∀ (ns : List Node), EmbSsJ hs ss ns → ∀ (ind : Nat),
    jsStmts true ns ind = .ok (txBody ind (toJsSs { handlers := hs, inTell := false } ss))
  | [], _, ns, h, ind => by
    simp only [EmbSsJ] at h; subst h; simp [jsStmts, toJsSs, txBody]
  | s :: ss, hf, ns, h, ind => by
    simp only [EmbSsJ] at h
    obtain ⟨x, xs, rfl, hx, hxs⟩ := h
    simp only [JsOkTs, Bool.and_eq_true] at hf
    have e1 := js_tree hs hret s hf.1 x hx ind
    have e2 := js_trees hs hret ss hf.2 xs hxs ind
    simp only [jsStmts, e1, e2, bind, Except.bind, Name.asStr, pure, Except.pure, toJsSs, txBody]
end

/-- flat bodies are structured bodies -/
theorem jsOkSs_Ts : ∀ (ss : List Stmt), JsOkSs ss = true → JsOkTs ss = true
  | [], _ => rfl
  | s :: ss, h => by
    simp only [JsOkSs, Bool.and_eq_true] at h
    simp only [JsOkTs, Bool.and_eq_true]
    refine ⟨?_, jsOkSs_Ts ss h.2⟩
    cases s <;> first | (simp [JsOkS] at h; done) | (simp only [JsOkT]; exact h.1) | rfl

/-- **J5 (text)**: a flat statement list -/
theorem jsStmts_emb (hs : List Spec.Name) (hret : hs.contains (S "return") = false) (ss : List Stmt) (hf : JsOkSs ss = true)
    (ns : List Node) (h : EmbSsJ hs ss ns) (ind : Nat) :
    jsStmts true ns ind = .ok (txBody ind (toJsSs { handlers := hs, inTell := false } ss)) :=
  js_trees hs hret ss (jsOkSs_Ts ss hf) ns h ind

/-! ### (b) lexing -/

mutual
def LexOKS : JS → Prop
  | .expr e => LexOK e
  | .assign l r => LexOK l ∧ LexOK r
  | .ret es => (match es with | [] => True | [e] => LexOK e | _ => False)
  | .var n => jsIdLex n = true
  | .ifs c t e => LexOK c ∧ LexOKSs t ∧ LexOKSs e
  | .while c b => LexOK c ∧ LexOKSs b
  | .for3 v a c _ b => LexOK v ∧ LexOK a ∧ LexOK c ∧ LexOKSs b
  | .forOf v l b => LexOK v ∧ LexOK l ∧ LexOKSs b
  | _ => False
def LexOKSs : List JS → Prop
  | [] => True
  | s :: ss => LexOKS s ∧ LexOKSs ss
end

theorem lex_inc (rest : Str) : LexesTo (S "++") [.p .inc] rest :=
  ⟨1, by decide, fun g acc _ => by simp [S, lexJsAux, isJsIdStart]⟩

theorem lex_dec (rest : Str) : LexesTo (S "--") [.p .dec] rest :=
  ⟨1, by decide, fun g acc _ => by simp [S, lexJsAux, isJsIdStart]⟩

/-- a condition without its outer parentheses -/
theorem lexBare (e : JE) (h : LexOK e) (rest : Str) (hs : SepAll rest) : LexesTo (txBare e) (prBare e) rest := by
  cases e with
  | bin op a b =>
    obtain ⟨hop, ha, hb⟩ : (jsOpInfo op).isSome = true ∧ LexOK a ∧ LexOK b := h
    obtain ⟨x, hx, rfl, htok⟩ := jsOpInfo_lex op hop
    have := (lexE a ha _ (by headis)).append ((lex_infix x hx _).append (lexE b hb rest (hs.sep b)))
    simpa [txBare, prBare, S, htok, List.append_assoc] using this
  | _ => exact lexE _ h rest (hs.sep _)

/-- a right-hand side -/
theorem lexRhs (r : JE) (h : LexOK r) (rest : Str) (hs : SepAll rest) : LexesTo (txRhs r) (prRhs r) rest := by
  cases r with
  | newLS e =>
    have he : LexOK e := h
    have := (lex_id (S "new") (by decide) _ (by headis)).append ((lex_space _).append
      ((lex_id (S "LingoString") (by decide) _ (by headis)).append ((lex_lp _).append ((lexBare e he _ (by headis)).append (lex_rp rest)))))
    simpa [txRhs, prRhs, S, List.append_assoc] using this
  | _ => exact lexE _ h rest (hs.sep _)

theorem lexSimple (s : JS) (h : LexOKS s) (hsim : isSimpleJ s = true) (rest : Str) : LexesTo (txS s) (prS s) rest := by
  cases s with
  | expr e =>
    have he : LexOK e := by simpa [LexOKS] using h
    have := (lexE e he _ (by headis)).append (lex_semi rest)
    simpa [txS, prS, S] using this
  | assign l r =>
    obtain ⟨hl, hr⟩ : LexOK l ∧ LexOK r := by simpa [LexOKS] using h
    have := (lexE l hl _ (by headis)).append ((lex_assign _).append ((lexRhs r hr _ (by headis)).append (lex_semi rest)))
    simpa [txS, prS, S] using this
  | ret es =>
    cases es with
    | nil =>
      have := (lex_id (S "return") (by decide) _ (by headis)).append (lex_semi rest)
      simpa [txS, prS, S] using this
    | cons e es =>
      cases es with
      | nil =>
        have he : LexOK e := by simpa [LexOKS] using h
        have := (lex_id (S "return") (by decide) _ (by headis)).append ((lex_space _).append ((lexE e he _ (by headis)).append (lex_semi rest)))
        simpa [txS, prS, S] using this
      | cons _ _ => exact absurd h (by simp [LexOKS])
  | var n =>
    have hn : jsIdLex n = true := by simpa [LexOKS] using h
    have := (lex_id (S "var") (by decide) _ (by headis)).append ((lex_space _).append ((lex_id n hn _ (by headis)).append (lex_semi rest)))
    simpa [txS, prS, S] using this
  | brk => exact absurd h (by simp [LexOKS])
  | ifs _ _ _ => simp [isSimpleJ] at hsim
  | «while» _ _ => simp [isSimpleJ] at hsim
  | for3 _ _ _ _ _ => simp [isSimpleJ] at hsim
  | forOf _ _ _ => simp [isSimpleJ] at hsim
  | «with» _ _ => exact absurd h (by simp [LexOKS])

mutual
theorem lexT (ind : Nat) : ∀ (s : JS), LexOKS s → ∀ (rest : Str), LexesTo (txT ind s) (prS s) rest
  | .ifs c t e, h, rest => by
    simp only [LexOKS] at h
    obtain ⟨hc, ht, he⟩ := h
    have hhead := fun (R : Str) => (lex_indent ind _).append ((lex_id (S "if") (by decide) _ (by headis)).append ((lex_space _).append ((lex_lp _).append
      ((lexBare c hc _ (by headis)).append ((lex_rp _).append ((lex_space _).append ((lex_lc _).append ((lex_nl _).append
      (lexBody (ind + 1) t ht R)))))))))
    cases hee : e.isEmpty with
    | true =>
      have := (hhead _).append ((lex_indent ind _).append ((lex_rc _).append (lex_nl rest)))
      simpa [txT, prS, hee, S, List.append_assoc] using this
    | false =>
      have := (hhead _).append ((lex_indent ind _).append ((lex_rc _).append ((lex_space _).append
        ((lex_id (S "else") (by decide) _ (by headis)).append ((lex_space _).append ((lex_lc _).append ((lex_nl _).append
        ((lexBody (ind + 1) e he _).append ((lex_indent ind _).append ((lex_rc _).append (lex_nl rest)))))))))))
      simpa [txT, prS, hee, S, List.append_assoc] using this
  | .while c b, h, rest => by
    simp only [LexOKS] at h
    obtain ⟨hc, hb⟩ := h
    have := (lex_indent ind _).append ((lex_id (S "while") (by decide) _ (by headis)).append ((lex_space _).append ((lex_lp _).append
      ((lexBare c hc _ (by headis)).append ((lex_rp _).append ((lex_space _).append ((lex_lc _).append ((lex_nl _).append
      ((lexBody (ind + 1) b hb _).append ((lex_indent ind _).append ((lex_rc _).append (lex_nl rest))))))))))))
    simpa [txT, prS, S, List.append_assoc] using this
  | .for3 v a c d b, h, rest => by
    simp only [LexOKS] at h
    obtain ⟨hv, ha, hc, hb⟩ := h
    have htail := (lex_rp _).append ((lex_space _).append ((lex_lc _).append ((lex_nl _).append
      ((lexBody (ind + 1) b hb _).append ((lex_indent ind _).append ((lex_rc _).append (lex_nl rest)))))))
    cases d with
    | false =>
      have := (lex_indent ind _).append ((lex_id (S "for") (by decide) _ (by headis)).append ((lex_lp _).append
        ((lexE v hv _ (by headis)).append ((lex_assign _).append ((lexE a ha _ (by headis)).append ((lex_semi _).append ((lex_space _).append
        ((lexBare c hc _ (by headis)).append ((lex_semi _).append ((lex_space _).append ((lexE v hv _ (by headis)).append
        ((lex_inc _).append htail))))))))))))
      simpa [txT, prS, S, List.append_assoc] using this
    | true =>
      have := (lex_indent ind _).append ((lex_id (S "for") (by decide) _ (by headis)).append ((lex_lp _).append
        ((lexE v hv _ (by headis)).append ((lex_assign _).append ((lexE a ha _ (by headis)).append ((lex_semi _).append ((lex_space _).append
        ((lexBare c hc _ (by headis)).append ((lex_semi _).append ((lex_space _).append ((lexE v hv _ (by headis)).append
        ((lex_dec _).append htail))))))))))))
      simpa [txT, prS, S, List.append_assoc] using this
  | .expr e, h, rest => by
    have := (lex_indent ind _).append ((lexSimple (.expr e) h rfl _).append (lex_nl rest))
    simpa [txT, S, List.append_assoc] using this
  | .assign l r, h, rest => by
    have := (lex_indent ind _).append ((lexSimple (.assign l r) h rfl _).append (lex_nl rest))
    simpa [txT, S, List.append_assoc] using this
  | .ret es, h, rest => by
    have := (lex_indent ind _).append ((lexSimple (.ret es) h rfl _).append (lex_nl rest))
    simpa [txT, S, List.append_assoc] using this
  | .var n, h, rest => by
    have := (lex_indent ind _).append ((lexSimple (.var n) h rfl _).append (lex_nl rest))
    simpa [txT, S, List.append_assoc] using this
  | .brk, h, _ => absurd h (by simp [LexOKS])
  | .forOf v l b, h, rest => by
    simp only [LexOKS] at h
    obtain ⟨hv, hl, hb⟩ := h
    have := (lex_indent ind _).append ((lex_id (S "for") (by decide) _ (by headis)).append ((lex_lp _).append
      ((lexE v hv _ (by headis)).append ((lex_space _).append ((lex_id (S "of") (by decide) _ (by headis)).append ((lex_space _).append
      ((lexE l hl _ (by headis)).append ((lex_rp _).append ((lex_space _).append ((lex_lc _).append ((lex_nl _).append
      ((lexBody (ind + 1) b hb _).append ((lex_indent ind _).append ((lex_rc _).append (lex_nl rest)))))))))))))))
    simpa [txT, prS, S, List.append_assoc] using this
  | .with _ _, h, _ => absurd h (by simp [LexOKS])
theorem lexBody (ind : Nat) : ∀ (ss : List JS), LexOKSs ss → ∀ (rest : Str), LexesTo (txBody ind ss) (prBody ss) rest
  | [], _, rest => by simpa [txBody, prBody] using LexesTo.nil rest
  | s :: ss, h, rest => by
    simp only [LexOKSs] at h
    obtain ⟨h1, h2⟩ := h
    have := (lexT ind s h1 _).append (lexBody ind ss h2 rest)
    simpa [txBody, prBody] using this
end

/-- a simple statement line (the form of the flat development) -/
theorem lexS (s : JS) (h : LexOKS s) (hsim : isSimpleJ s = true) (rest : Str) : LexesTo (txS s) (prS s) rest := lexSimple s h hsim rest

/-! ### (c) reading -/

theorem kw_ne (s : Spec.Name) (h : isJsKeyword s = false) (k : String) (hk : isJsKeyword k.toList = true) : s ≠ k.toList := by
  intro e; rw [e, hk] at h; cases h

theorem jStmt_assign (f : Nat) (s : Spec.Name) (r : List JTok) (h : isJsKeyword s = false) (l v : JE) (r1 r' : List JTok)
    (e1 : jExpr (10 * (r.length + 2)) (.id s :: r) = some (l, .p .assign :: r1))
    (e2 : jExpr (10 * (r.length + 2)) r1 = some (v, .p .semi :: r')) :
    jStmt (f + 1) (.id s :: r) = some (.assign l v, r') := by
  have h1 : ¬ s = "var".toList := kw_ne s h "var" (by decide)
  have h2 : ¬ s = "break".toList := kw_ne s h "break" (by decide)
  have h3 : ¬ s = "return".toList := kw_ne s h "return" (by decide)
  have h4 : ¬ s = "if".toList := kw_ne s h "if" (by decide)
  have h5 : ¬ s = "while".toList := kw_ne s h "while" (by decide)
  have h6 : ¬ s = "with".toList := kw_ne s h "with" (by decide)
  have h7 : ¬ s = "for".toList := kw_ne s h "for" (by decide)
  rw [jStmt.eq_def]
  simp only [h1, h2, h3, h4, h5, h6, h7, if_false, e1, e2]

theorem jStmt_expr (f : Nat) (s : Spec.Name) (r : List JTok) (h : isJsKeyword s = false) (e : JE) (r' : List JTok)
    (e1 : jExpr (10 * (r.length + 2)) (.id s :: r) = some (e, .p .semi :: r')) :
    jStmt (f + 1) (.id s :: r) = some (.expr e, r') := by
  have h1 : ¬ s = "var".toList := kw_ne s h "var" (by decide)
  have h2 : ¬ s = "break".toList := kw_ne s h "break" (by decide)
  have h3 : ¬ s = "return".toList := kw_ne s h "return" (by decide)
  have h4 : ¬ s = "if".toList := kw_ne s h "if" (by decide)
  have h5 : ¬ s = "while".toList := kw_ne s h "while" (by decide)
  have h6 : ¬ s = "with".toList := kw_ne s h "with" (by decide)
  have h7 : ¬ s = "for".toList := kw_ne s h "for" (by decide)
  rw [jStmt.eq_def]
  simp only [h1, h2, h3, h4, h5, h6, h7, if_false, e1]

theorem jStmt_var (f : Nat) (n : Spec.Name) (r : List JTok) :
    jStmt (f + 1) (.id "var".toList :: .id n :: .p .semi :: r) = some (.var n, r) := by
  rw [jStmt.eq_def]; simp

theorem jStmt_ret0 (f : Nat) (r : List JTok) : jStmt (f + 1) (.id "return".toList :: .p .semi :: r) = some (.ret [], r) := by
  rw [jStmt.eq_def]; simp

theorem jStmt_ret1 (f : Nat) (t : JTok) (ts r' : List JTok) (e : JE) (ht : t ≠ .p .semi)
    (e1 : jExpr (10 * (ts.length + 1 + 2)) (t :: ts) = some (e, .p .semi :: r')) :
    jStmt (f + 1) (.id "return".toList :: t :: ts) = some (.ret [e], r') := by
  rw [jStmt.eq_def]; simp [ht, e1]

/-- tokens that can start an expression are none of `;`, `}`, `)` -/
def TokStart (t : JTok) : Prop := t ≠ .p .semi ∧ t ≠ .p .rc ∧ t ≠ .p .rp

theorem start_wrap (o : JE) (X : List JTok) (h : ∃ t ts, prJ o = t :: ts ∧ TokStart t) :
    ∃ t ts, wrapRecv o (prJ o) ++ X = t :: ts ∧ TokStart t := by
  obtain ⟨t, ts, e, ht⟩ := h
  cases hp : o.needsParen with
  | true => exact ⟨.p .lp, prJ o ++ [.p .rp] ++ X, by simp [wrapRecv, hp], by simp [TokStart]⟩
  | false => exact ⟨t, ts ++ X, by simp [wrapRecv, hp, e], ht⟩

theorem prJ_start : ∀ (e : JE), JFrag e → ∃ t ts, prJ e = t :: ts ∧ TokStart t
  | .num _ _, _ => ⟨_, _, rfl, by simp [TokStart]⟩
  | .lstr _, _ => ⟨_, _, rfl, by simp [TokStart]⟩
  | .dstr _, _ => ⟨_, _, rfl, by simp [TokStart]⟩
  | .sstr _, _ => ⟨_, _, rfl, by simp [TokStart]⟩
  | .id _, _ => ⟨_, _, rfl, by simp [TokStart]⟩
  | .mem o n, h => by
    simpa [prJ, List.append_assoc] using start_wrap o [.p .dot, .id n] (prJ_start o h)
  | .idx o i, h => by
    simpa [prJ, List.append_assoc] using start_wrap o (.p .lb :: (prJ i ++ [.p .rb])) (prJ_start o h.1)
  | .call g as, h => by
    simpa [prJ, List.append_assoc] using start_wrap g (.p .lp :: (prJArgs as ++ [.p .rp])) (prJ_start g h.1)
  | .un op a, h => by
    obtain ⟨hop, _⟩ : (op = "-".toList ∨ op = "!".toList) ∧ JFrag a := h
    rcases hop with rfl | rfl
    · exact ⟨_, _, rfl, by unfold TokStart; decide⟩
    · exact ⟨_, _, rfl, by unfold TokStart; decide⟩
  | .bin _ _ _, _ => ⟨_, _, rfl, by simp [TokStart]⟩
  | .newLS _, h => absurd h (by simp [JFrag])
  | .spread _, h => absurd h (by simp [JFrag])

/-- the printed form starts with an identifier that is not a reserved word (so the statement reader takes it for an
    expression / assignment statement) -/
def StartsId (e : JE) : Prop := ∃ s ts, prJ e = .id s :: ts ∧ isJsKeyword s = false

theorem jfollow_assign (lvl : Nat) (r : List JTok) : JFollow lvl (.p .assign :: r) := by
  intro l _
  match l with
  | 0 => rfl
  | 1 => rfl
  | 2 => rfl
  | 3 => rfl
  | 4 => rfl
  | 5 => rfl
  | 6 => rfl
  | n + 7 => simp [jsBinOfTok]

/-- an expression after `return`: it starts with a token other than `;` and is read back with the fuel the statement reader
    passes (every tree of `JFrag`: `retOK_frag`; also the spread call of the wrapper functions) -/
def RetOK (e : JE) : Prop :=
  (∃ t ts, prJ e = t :: ts ∧ t ≠ .p .semi) ∧
  ∀ (rest : List JTok) (F : Nat), 10 * (prJ e).length ≤ F → jExpr F (prJ e ++ .p .semi :: rest) = some (e, .p .semi :: rest)

/-- right-hand sides the statement reader reads back: an expression of the reader fragment, or `new LingoString(a + b)` -/
def RhsOK (r : JE) : Prop := JFrag r ∨ ∃ a b, r = .newLS (.bin "+".toList a b) ∧ JFrag a ∧ JFrag b

mutual
def ReadOKS : JS → Prop
  | .expr e => JFrag e ∧ StartsId e
  | .assign l r => JFrag l ∧ StartsId l ∧ RhsOK r
  | .ret es => (match es with | [] => True | [e] => RetOK e | _ => False)
  | .var _ => True
  | .ifs c t e => JFrag c ∧ ReadOKSs t ∧ ReadOKSs e
  | .while c b => JFrag c ∧ ReadOKSs b
  | .for3 v a c _ b => JFrag v ∧ JFrag a ∧ JFrag c ∧ ReadOKSs b
  | .forOf v l b => JFrag v ∧ JFrag l ∧ ReadOKSs b
  | _ => False
def ReadOKSs : List JS → Prop
  | [] => True
  | s :: ss => ReadOKS s ∧ ReadOKSs ss
end

mutual
/-- fuel the statement reader needs beyond one unit: the nesting of blocks -/
def stW : JS → Nat
  | .ifs _ t e => ssW t + ssW e + 2
  | .while _ b => ssW b + 2
  | .for3 _ _ _ _ b => ssW b + 2
  | .forOf _ _ b => ssW b + 2
  | _ => 0
def ssW : List JS → Nat
  | [] => 0
  | s :: ss => stW s + ssW ss + 1
end

/-- reading one expression followed by `;` / `=` with the fuel the statement reader passes -/
theorem jExpr_read (e : JE) (h : JFrag e) (R : List JTok) (hf : JFollow 1 R) (hp : NoPost R) (F : Nat)
    (hF : 10 * (prJ e).length ≤ F) : jExpr F (prJ e ++ R) = some (e, R) := by
  have := jW_le e h
  exact js_read_print_expr_t e h 1 (Nat.le_refl 1) (by omega) R hf hp F (by omega)

theorem retOK_frag (e : JE) (h : JFrag e) : RetOK e := by
  obtain ⟨t, ts, ht, hs⟩ := prJ_start e h
  exact ⟨⟨t, ts, ht, hs.1⟩, fun rest F hF =>
    jExpr_read e h (.p .semi :: rest) (jfollow_closer _ _ _ (Or.inr (Or.inr (Or.inr rfl)))) trivial F hF⟩

/-- reading a condition printed without its outer parentheses, up to the closing `)` / `;` -/
theorem jExpr_bare (e : JE) (h : JFrag e) (cl : JTok) (hcl : cl = .p .rp ∨ cl = .p .semi) (R : List JTok) (F : Nat)
    (hF : 10 * (prBare e).length + 10 ≤ F) : jExpr F (prBare e ++ cl :: R) = some (e, cl :: R) := by
  have hclo : JCloser cl := by rcases hcl with rfl | rfl; exact Or.inl rfl; exact Or.inr (Or.inr (Or.inr rfl))
  cases e with
  | bin op a b =>
    obtain ⟨hop, ha, hb⟩ : (jsOpInfo op).isSome = true ∧ JFrag a ∧ JFrag b := h
    obtain ⟨y, hy⟩ := Option.isSome_iff_exists.mp hop
    obtain ⟨hy1, hy2⟩ := jsOpInfo_spec op y hy
    have hlv := jsOps_level y hy1
    have hA : ∀ F', jW a + 7 ≤ F' →
        jLevel F' (y.2.2 + 1) (prJ a ++ y.2.1 :: (prJ b ++ cl :: R)) = some (a, y.2.1 :: (prJ b ++ cl :: R)) := fun F' hF' =>
      jclimb _ _ a (jW a) (fun F'' hF'' => js_whole_t a ha _ (nopost_optok y hy1 _) F'' hF'') (6 - y.2.2) (y.2.2 + 1) (by omega) (by omega)
        (jfollow_optok y hy1 _) F' (by omega)
    have hB : ∀ F', jW b + 7 ≤ F' → jLevel F' (y.2.2 + 1) (prJ b ++ cl :: R) = some (b, cl :: R) := fun F' hF' =>
      jclimb _ _ b (jW b) (fun F'' hF'' => js_whole_t b hb _ (nopost_closer _ _ hclo) F'' hF'') (6 - y.2.2) (y.2.2 + 1) (by omega) (by omega)
        (jfollow_closer _ _ _ hclo) F' (by omega)
    have h1 := jW_le a ha
    have h2 := jW_le b hb
    have hin := jread_infix y hy1 a b (prJ a) (prJ b) (cl :: R) (jW a + jW b + 7)
      (fun F' hF' => hA F' (by omega)) (fun F' hF' => hB F' (by omega)) (jfollow_closer _ _ _ hclo)
      (y.2.2 - 1) 1 (by omega) (Nat.le_refl 1) F (by
        simp only [prBare, List.length_append, List.length_cons] at hF; omega)
    have htok : (jsOpTok op).getD (.p .plus) = y.2.1 := by
      have := jsOps_tok y hy1
      rw [hy2] at this; simp [this]
    rw [hy2] at hin
    simpa [prBare, jExpr, htok, List.append_assoc] using hin
  | _ =>
    exact jExpr_read _ h (cl :: R) (jfollow_closer _ _ _ hclo) (nopost_closer _ _ hclo) F (by simp only [prBare] at hF; omega)

/-- the printed form of a tree of the reader fragment never starts `"…" )` -/
theorem prJ_not_dstr_rp : ∀ (a : JE), JFrag a → ∀ (Y : List JTok), (∀ r, Y ≠ .p .rp :: r) → ∀ s r, prJ a ++ Y ≠ .dstr s :: .p .rp :: r
  | .num _ _, _, Y, _, s, r => by simp [prJ]
  | .lstr _, _, Y, _, s, r => by simp [prJ]
  | .sstr _, _, Y, _, s, r => by simp [prJ]
  | .id _, _, Y, _, s, r => by simp [prJ]
  | .dstr s', _, Y, hY, s, r => by
    simp only [prJ, List.singleton_append, ne_eq, List.cons.injEq, not_and]
    intro _ e; exact hY r e
  | .un op a, h, Y, _, s, r => by
    obtain ⟨hop, _⟩ : (op = "-".toList ∨ op = "!".toList) ∧ JFrag a := h
    rcases hop with rfl | rfl <;> simp [prJ, jsUnTok]
  | .bin _ _ _, _, Y, _, s, r => by simp [prJ]
  | .mem o n, h, Y, _, s, r => by
    have ho : JFrag o := h
    cases hp : o.needsParen with
    | true => simp [prJ, wrapRecv, hp]
    | false =>
      have := prJ_not_dstr_rp o ho ([.p .dot, .id n] ++ Y) (by simp) s r
      simpa [prJ, wrapRecv, hp, List.append_assoc] using this
  | .idx o i, h, Y, _, s, r => by
    have ho : JFrag o := h.1
    cases hp : o.needsParen with
    | true => simp [prJ, wrapRecv, hp]
    | false =>
      have := prJ_not_dstr_rp o ho (.p .lb :: (prJ i ++ [.p .rb]) ++ Y) (by simp) s r
      simpa [prJ, wrapRecv, hp, List.append_assoc] using this
  | .call g as, h, Y, _, s, r => by
    have hg : JFrag g := h.1
    cases hp : g.needsParen with
    | true => simp [prJ, wrapRecv, hp]
    | false =>
      have := prJ_not_dstr_rp g hg (.p .lp :: (prJArgs as ++ [.p .rp]) ++ Y) (by simp) s r
      simpa [prJ, wrapRecv, hp, List.append_assoc] using this
  | .newLS _, h, _, _, _, _ => absurd h (by simp [JFrag])
  | .spread _, h, _, _, _, _ => absurd h (by simp [JFrag])

/-- `new LingoString( <expression> )` whose argument is not a single string literal -/
theorem jU_newLS (f : Nat) (X R : List JTok) (e : JE) (x : JE × List JTok) (hX : ∀ s r, X ≠ .dstr s :: .p .rp :: r)
    (h1 : jLevel f 1 X = some (e, .p .rp :: R)) (h2 : jPostfix (f + 1) (.newLS e) R = some x) :
    jUnary (f + 2) (.id "new".toList :: .id "LingoString".toList :: .p .lp :: X) = some x := by
  have e : jPrimary (f + 1) (.id "new".toList :: .id "LingoString".toList :: .p .lp :: X) = some (.newLS e, R) := by
    rw [jPrimary.eq_def]
    simp only [if_true, h1]
  rw [jUnary.eq_def]
  simp only [e, h2]

/-- reading a right-hand side followed by `;` -/
theorem jExpr_rhs (r : JE) (h : RhsOK r) (rest : List JTok) (F : Nat) (hF : 10 * (prRhs r).length + 20 ≤ F) :
    jExpr F (prRhs r ++ .p .semi :: rest) = some (r, .p .semi :: rest) := by
  rcases h with h | ⟨a, b, rfl, ha, hb⟩
  · rw [prRhs_frag r h] at hF ⊢
    exact jExpr_read r h (.p .semi :: rest) (jfollow_closer _ _ _ (Or.inr (Or.inr (Or.inr rfl)))) trivial F (by omega)
  · have hfr : JFrag (.bin "+".toList a b) := ⟨by decide, ha, hb⟩
    have hsemi : JCloser (.p .semi) := Or.inr (Or.inr (Or.inr rfl))
    have hU : ∀ F', 10 * (prBare (JE.bin "+".toList a b)).length + 13 ≤ F' →
        jUnary F' (.id "new".toList :: .id "LingoString".toList :: .p .lp :: (prBare (.bin "+".toList a b) ++ .p .rp :: .p .semi :: rest)) =
          some (.newLS (.bin "+".toList a b), .p .semi :: rest) := by
      intro F' hF'
      obtain ⟨f, rfl⟩ : ∃ f, F' = f + 2 := ⟨F' - 2, by omega⟩
      have h1 := jExpr_bare (.bin "+".toList a b) hfr (.p .rp) (Or.inl rfl) (.p .semi :: rest) f (by omega)
      refine jU_newLS f _ _ _ _ ?_ h1 (jPostfix_stop f _ _ (nopost_closer _ _ hsemi))
      intro s r
      have := prJ_not_dstr_rp a ha ((jsOpTok "+".toList).getD (.p .plus) :: (prJ b ++ .p .rp :: .p .semi :: rest)) (by
        intro r e; simp only [List.cons.injEq] at e; exact absurd e.1 (by decide)) s r
      simpa [prBare, List.append_assoc] using this
    have := jclimb _ _ (.newLS (.bin "+".toList a b)) (10 * (prBare (JE.bin "+".toList a b)).length + 13) hU 6 1 (by omega) (by omega)
      (jfollow_closer _ _ _ hsemi) F (by simp only [prRhs, List.length_cons, List.length_append] at hF; omega)
    simpa [prRhs, jExpr, List.append_assoc] using this

theorem jfollow_inc (lvl : Nat) (r : List JTok) : JFollow lvl (.p .inc :: r) := by
  intro l _
  match l with
  | 0 => rfl | 1 => rfl | 2 => rfl | 3 => rfl | 4 => rfl | 5 => rfl | 6 => rfl
  | n + 7 => simp [jsBinOfTok]

theorem jfollow_dec (lvl : Nat) (r : List JTok) : JFollow lvl (.p .dec :: r) := by
  intro l _
  match l with
  | 0 => rfl | 1 => rfl | 2 => rfl | 3 => rfl | 4 => rfl | 5 => rfl | 6 => rfl
  | n + 7 => simp [jsBinOfTok]

/-- what follows an `if` block without `else` is not an `else {` -/
def NoElse (rest : List JTok) : Prop := ∀ r, rest ≠ .id "else".toList :: .p .lc :: r

/-! one-step lemmas of the statement reader for the three constructs -/

theorem jStmt_if (f : Nat) (r1 r2 r3 : List JTok) (c : JE) (tb : List JS)
    (e1 : jExpr (10 * (r1.length + 1 + 2)) r1 = some (c, .p .rp :: .p .lc :: r2))
    (e2 : jBlock f r2 = some (tb, r3)) (hne : NoElse r3) :
    jStmt (f + 1) (.id "if".toList :: .p .lp :: r1) = some (.ifs c tb [], r3) := by
  rw [jStmt.eq_def]
  simp only [List.length_cons, e1, e2, show ¬ ("if".toList = "var".toList) by decide, show ¬ ("if".toList = "break".toList) by decide,
      show ¬ ("if".toList = "return".toList) by decide, if_false, if_true]
  split
  · rename_i tb' e' r3' heq
    simp only [Option.some.injEq, Prod.mk.injEq] at heq
    obtain ⟨rfl, rfl⟩ := heq
    have : ¬ e' = "else".toList := fun he => hne r3' (by rw [he])
    simp only [this, if_false]
  · rename_i tb' r3' hno heq
    simp only [Option.some.injEq, Prod.mk.injEq] at heq
    obtain ⟨rfl, rfl⟩ := heq
    rfl
  · rename_i heq
    simp at heq

theorem jStmt_ifelse (f : Nat) (r1 r2 r3 r4 : List JTok) (c : JE) (tb eb : List JS)
    (e1 : jExpr (10 * (r1.length + 1 + 2)) r1 = some (c, .p .rp :: .p .lc :: r2))
    (e2 : jBlock f r2 = some (tb, .id "else".toList :: .p .lc :: r3)) (e3 : jBlock f r3 = some (eb, r4)) :
    jStmt (f + 1) (.id "if".toList :: .p .lp :: r1) = some (.ifs c tb eb, r4) := by
  rw [jStmt.eq_def]
  simp only [List.length_cons, e1, e2, e3, show ¬ ("if".toList = "var".toList) by decide, show ¬ ("if".toList = "break".toList) by decide,
      show ¬ ("if".toList = "return".toList) by decide, if_false, if_true]

theorem jStmt_while (f : Nat) (r1 r2 r3 : List JTok) (c : JE) (b : List JS)
    (e1 : jExpr (10 * (r1.length + 1 + 2)) r1 = some (c, .p .rp :: .p .lc :: r2))
    (e2 : jBlock f r2 = some (b, r3)) :
    jStmt (f + 1) (.id "while".toList :: .p .lp :: r1) = some (.while c b, r3) := by
  rw [jStmt.eq_def]
  simp only [List.length_cons, e1, e2, show ¬ ("while".toList = "var".toList) by decide, show ¬ ("while".toList = "break".toList) by decide,
      show ¬ ("while".toList = "return".toList) by decide, show ¬ ("while".toList = "if".toList) by decide, if_false, if_true]

theorem jStmt_for (f : Nat) (r1 r2 r3 r4 r5 r6 : List JTok) (v a c v2 : JE) (step : JTok) (d : Bool) (b : List JS)
    (e1 : jExpr (10 * (r1.length + 1 + 2)) r1 = some (v, .p .assign :: r2))
    (e2 : jExpr (10 * (r1.length + 1 + 2)) r2 = some (a, .p .semi :: r3))
    (e3 : jExpr (10 * (r1.length + 1 + 2)) r3 = some (c, .p .semi :: r4))
    (e4 : jExpr (10 * (r1.length + 1 + 2)) r4 = some (v2, step :: .p .rp :: .p .lc :: r5))
    (hstep : step = if d then JTok.p .dec else JTok.p .inc) (hv : v2 = v)
    (e5 : jBlock f r5 = some (b, r6)) :
    jStmt (f + 1) (.id "for".toList :: .p .lp :: r1) = some (.for3 v a c d b, r6) := by
  subst hv
  rw [jStmt.eq_def]
  cases d with
  | false =>
    subst hstep
    simp only [List.length_cons, e1, e2, e3, e4, e5, show ¬ ("for".toList = "var".toList) by decide, show ¬ ("for".toList = "break".toList) by decide,
      show ¬ ("for".toList = "return".toList) by decide, show ¬ ("for".toList = "if".toList) by decide,
      show ¬ ("for".toList = "while".toList) by decide, show ¬ ("for".toList = "with".toList) by decide, if_false, if_true, Bool.false_eq_true]
  | true =>
    subst hstep
    simp only [List.length_cons, e1, e2, e3, e4, e5, show ¬ ("for".toList = "var".toList) by decide, show ¬ ("for".toList = "break".toList) by decide,
      show ¬ ("for".toList = "return".toList) by decide, show ¬ ("for".toList = "if".toList) by decide,
      show ¬ ("for".toList = "while".toList) by decide, show ¬ ("for".toList = "with".toList) by decide, if_false, if_true,
      show ¬ (JTok.p JP.dec = JTok.p JP.inc) by decide]

theorem jfollow_id (lvl : Nat) (x : Spec.Name) (r : List JTok) : JFollow lvl (.id x :: r) := by
  intro l _
  match l with
  | 0 => rfl | 1 => rfl | 2 => rfl | 3 => rfl | 4 => rfl | 5 => rfl | 6 => rfl
  | n + 7 => simp [jsBinOfTok]

theorem jStmt_forof (f : Nat) (r1 r2 r3 r4 : List JTok) (v l : JE) (b : List JS)
    (e1 : jExpr (10 * (r1.length + 1 + 2)) r1 = some (v, .id "of".toList :: r2))
    (e2 : jExpr (10 * (r1.length + 1 + 2)) r2 = some (l, .p .rp :: .p .lc :: r3))
    (e3 : jBlock f r3 = some (b, r4)) :
    jStmt (f + 1) (.id "for".toList :: .p .lp :: r1) = some (.forOf v l b, r4) := by
  rw [jStmt.eq_def]
  simp only [List.length_cons, e1, e2, e3, show ¬ ("for".toList = "var".toList) by decide, show ¬ ("for".toList = "break".toList) by decide,
    show ¬ ("for".toList = "return".toList) by decide, show ¬ ("for".toList = "if".toList) by decide,
    show ¬ ("for".toList = "while".toList) by decide, show ¬ ("for".toList = "with".toList) by decide, if_false, if_true]

/-- **J5 (reading)**: the statement reader inverts `prS` on simple statements -/
theorem jStmt_prS (s : JS) (h : ReadOKS s) (hsim : isSimpleJ s = true) (rest : List JTok) (f : Nat) :
    jStmt (f + 1) (prS s ++ rest) = some (s, rest) := by
  cases s with
  | expr e =>
    obtain ⟨hf, x, tl, hx, hk⟩ : JFrag e ∧ StartsId e := by simpa [ReadOKS] using h
    have e1 := jExpr_read e hf (.p .semi :: rest) (jfollow_closer _ _ _ (Or.inr (Or.inr (Or.inr rfl)))) trivial
      (10 * ((tl ++ .p .semi :: rest).length + 2)) (by rw [hx]; simp; omega)
    rw [hx] at e1
    have := jStmt_expr f x (tl ++ .p .semi :: rest) hk e rest (by simpa using e1)
    simpa [prS, hx] using this
  | assign l r =>
    obtain ⟨hl, ⟨x, tl, hx, hk⟩, hr⟩ : JFrag l ∧ StartsId l ∧ RhsOK r := by simpa [ReadOKS] using h
    have e1 := jExpr_read l hl (.p .assign :: (prRhs r ++ .p .semi :: rest)) (jfollow_assign _ _) trivial
      (10 * ((tl ++ .p .assign :: (prRhs r ++ .p .semi :: rest)).length + 2)) (by rw [hx]; simp; omega)
    have e2 := jExpr_rhs r hr rest
      (10 * ((tl ++ .p .assign :: (prRhs r ++ .p .semi :: rest)).length + 2)) (by simp; omega)
    rw [hx] at e1
    have := jStmt_assign f x (tl ++ .p .assign :: (prRhs r ++ .p .semi :: rest)) hk l r _ rest (by simpa using e1) e2
    simpa [prS, hx] using this
  | ret es =>
    cases es with
    | nil => simpa [prS] using jStmt_ret0 f rest
    | cons e es =>
      cases es with
      | nil =>
        obtain ⟨⟨t, ts, ht, hs⟩, hread⟩ : RetOK e := by simpa [ReadOKS] using h
        have e1 := hread rest (10 * ((ts ++ .p .semi :: rest).length + 1 + 2)) (by rw [ht]; simp; omega)
        rw [ht] at e1
        have := jStmt_ret1 f t (ts ++ .p .semi :: rest) rest e hs (by simpa using e1)
        simpa [prS, ht] using this
      | cons _ _ => exact absurd h (by simp [ReadOKS])
  | var n => simpa [prS] using jStmt_var f n rest
  | brk => exact absurd h (by simp [ReadOKS])
  | ifs _ _ _ => simp [isSimpleJ] at hsim
  | «while» _ _ => simp [isSimpleJ] at hsim
  | for3 _ _ _ _ _ => simp [isSimpleJ] at hsim
  | forOf _ _ _ => simp [isSimpleJ] at hsim
  | «with» _ _ => exact absurd h (by simp [ReadOKS])

/-- every statement starts with an identifier token other than `else` -/
theorem prS_head (s : JS) (h : ReadOKS s) : ∃ x tl, prS s = .id x :: tl ∧ x ≠ "else".toList := by
  cases s with
  | expr e =>
    obtain ⟨_, x, tl, hx, hk⟩ : JFrag e ∧ StartsId e := by simpa [ReadOKS] using h
    exact ⟨x, tl ++ [.p .semi], by simp [prS, hx], fun e => by rw [e] at hk; exact absurd hk (by decide)⟩
  | assign l r =>
    obtain ⟨_, ⟨x, tl, hx, hk⟩, _⟩ : JFrag l ∧ StartsId l ∧ RhsOK r := by simpa [ReadOKS] using h
    exact ⟨x, tl ++ .p .assign :: (prRhs r ++ [.p .semi]), by simp [prS, hx], fun e => by rw [e] at hk; exact absurd hk (by decide)⟩
  | ret es =>
    cases es with
    | nil => exact ⟨_, _, rfl, by decide⟩
    | cons e es => exact ⟨_, _, rfl, by decide⟩
  | var n => exact ⟨_, _, rfl, by decide⟩
  | ifs c t e => exact ⟨_, _, rfl, by decide⟩
  | «while» c b => exact ⟨_, _, rfl, by decide⟩
  | for3 v a c d b => exact ⟨_, _, rfl, by decide⟩
  | forOf v l b => exact ⟨_, _, rfl, by decide⟩
  | _ => exact absurd h (by simp [ReadOKS])

theorem jBlock_close (f : Nat) (r : List JTok) : jBlock (f + 1) (.p .rc :: r) = some ([], r) := by
  rw [jBlock.eq_def]

theorem jBlock_step (f : Nat) (x : Spec.Name) (tl r r' : List JTok) (s : JS) (ss : List JS)
    (h1 : jStmt f (.id x :: tl) = some (s, r)) (h2 : jBlock f r = some (ss, r')) :
    jBlock (f + 1) (.id x :: tl) = some (s :: ss, r') := by
  rw [jBlock.eq_def]
  simp only [h1, h2]

theorem noElse_body (ss : List JS) (h : ReadOKSs ss) (rest : List JTok) : NoElse (prBody ss ++ .p .rc :: rest) := by
  intro r e
  cases ss with
  | nil => simp [prBody] at e
  | cons s ss =>
    simp only [ReadOKSs] at h
    obtain ⟨x, tl, hx, hne⟩ := prS_head s h.1
    simp only [prBody, hx, List.cons_append, List.cons.injEq, JTok.id.injEq] at e
    exact hne e.1

theorem prS_length (s : JS) (h : ReadOKS s) : 1 ≤ (prS s).length := by
  obtain ⟨x, tl, e, _⟩ := prS_head s h; rw [e]; simp

mutual
/-- **J5 (reading, trees)**: the statement reader inverts `prS`; `stW` = the block nesting below the statement -/
theorem jStmt_prT : ∀ (s : JS), ReadOKS s → ∀ (rest : List JTok) (f : Nat), stW s ≤ f → NoElse rest →
    jStmt (f + 1) (prS s ++ rest) = some (s, rest)
  | .ifs c t e, h, rest, f, hf, hne => by
    simp only [ReadOKS] at h
    obtain ⟨hc, ht, he⟩ := h
    simp only [stW] at hf
    cases hee : e.isEmpty with
    | true =>
      have he0 : e = [] := List.isEmpty_iff.mp hee
      subst he0
      have e1 := jExpr_bare c hc (.p .rp) (Or.inl rfl) (.p .lc :: (prBody t ++ .p .rc :: rest))
        (10 * ((prBare c ++ .p .rp :: .p .lc :: (prBody t ++ .p .rc :: rest)).length + 1 + 2)) (by simp; omega)
      have e2 := jBlock_prT t ht rest f (by omega)
      have := jStmt_if f (prBare c ++ .p .rp :: .p .lc :: (prBody t ++ .p .rc :: rest)) _ rest c t e1 e2 hne
      simpa [prS, List.append_assoc] using this
    | false =>
      have e1 := jExpr_bare c hc (.p .rp) (Or.inl rfl) (.p .lc :: (prBody t ++ .p .rc :: .id "else".toList :: .p .lc :: (prBody e ++ .p .rc :: rest)))
        (10 * ((prBare c ++ .p .rp :: .p .lc :: (prBody t ++ .p .rc :: .id "else".toList :: .p .lc :: (prBody e ++ .p .rc :: rest))).length + 1 + 2))
        (by simp; omega)
      have e2 := jBlock_prT t ht (.id "else".toList :: .p .lc :: (prBody e ++ .p .rc :: rest)) f (by omega)
      have e3 := jBlock_prT e he rest f (by omega)
      have := jStmt_ifelse f (prBare c ++ .p .rp :: .p .lc :: (prBody t ++ .p .rc :: .id "else".toList :: .p .lc :: (prBody e ++ .p .rc :: rest)))
        _ _ rest c t e e1 e2 e3
      simpa [prS, hee, List.append_assoc] using this
  | .while c b, h, rest, f, hf, _ => by
    simp only [ReadOKS] at h
    obtain ⟨hc, hb⟩ := h
    simp only [stW] at hf
    have e1 := jExpr_bare c hc (.p .rp) (Or.inl rfl) (.p .lc :: (prBody b ++ .p .rc :: rest))
      (10 * ((prBare c ++ .p .rp :: .p .lc :: (prBody b ++ .p .rc :: rest)).length + 1 + 2)) (by simp; omega)
    have e2 := jBlock_prT b hb rest f (by omega)
    have := jStmt_while f (prBare c ++ .p .rp :: .p .lc :: (prBody b ++ .p .rc :: rest)) _ rest c b e1 e2
    simpa [prS, List.append_assoc] using this
  | .for3 v a c d b, h, rest, f, hf, _ => by
    simp only [ReadOKS] at h
    obtain ⟨hv, ha, hc, hb⟩ := h
    simp only [stW] at hf
    have hlv := jW_le v hv
    have hla := jW_le a ha
    -- the token list after `for (`
    generalize hstep : (if d then JTok.p .dec else JTok.p .inc) = step
    let R5 := prBody b ++ .p .rc :: rest
    let R4 := prJ v ++ step :: .p .rp :: .p .lc :: R5
    let R3 := prBare c ++ .p .semi :: R4
    let R2 := prJ a ++ .p .semi :: R3
    let R1 := prJ v ++ .p .assign :: R2
    have hfst : JFollow 1 (step :: .p .rp :: .p .lc :: R5) := by
      rw [← hstep]; cases d
      · exact jfollow_inc _ _
      · exact jfollow_dec _ _
    have hnp : NoPost (step :: .p .rp :: .p .lc :: R5) := by
      rw [← hstep]; cases d <;> trivial
    have e1 : jExpr (10 * (R1.length + 1 + 2)) R1 = some (v, .p .assign :: R2) :=
      jExpr_read v hv (.p .assign :: R2) (jfollow_assign _ _) trivial _ (by simp [R1]; omega)
    have e2 : jExpr (10 * (R1.length + 1 + 2)) R2 = some (a, .p .semi :: R3) :=
      jExpr_read a ha (.p .semi :: R3) (jfollow_closer _ _ _ (Or.inr (Or.inr (Or.inr rfl)))) trivial _ (by simp [R1, R2]; omega)
    have e3 : jExpr (10 * (R1.length + 1 + 2)) R3 = some (c, .p .semi :: R4) :=
      jExpr_bare c hc (.p .semi) (Or.inr rfl) R4 _ (by simp [R1, R2, R3]; omega)
    have e4 : jExpr (10 * (R1.length + 1 + 2)) R4 = some (v, step :: .p .rp :: .p .lc :: R5) :=
      jExpr_read v hv _ hfst hnp _ (by simp [R1, R2, R3, R4]; omega)
    have e5 := jBlock_prT b hb rest f (by omega)
    have := jStmt_for f R1 R2 R3 R4 R5 rest v a c v step d b e1 e2 e3 e4 hstep.symm rfl e5
    simpa [prS, R1, R2, R3, R4, R5, hstep, List.append_assoc] using this
  | .expr e, h, rest, f, _, _ => jStmt_prS (.expr e) h rfl rest f
  | .assign l r, h, rest, f, _, _ => jStmt_prS (.assign l r) h rfl rest f
  | .ret es, h, rest, f, _, _ => jStmt_prS (.ret es) h rfl rest f
  | .var n, h, rest, f, _, _ => jStmt_prS (.var n) h rfl rest f
  | .brk, h, _, _, _, _ => absurd h (by simp [ReadOKS])
  | .forOf v l b, h, rest, f, hf, _ => by
    simp only [ReadOKS] at h
    obtain ⟨hv, hl, hb⟩ := h
    simp only [stW] at hf
    let R3 := prBody b ++ .p .rc :: rest
    let R2 := prJ l ++ .p .rp :: .p .lc :: R3
    let R1 := prJ v ++ .id "of".toList :: R2
    have e1 : jExpr (10 * (R1.length + 1 + 2)) R1 = some (v, .id "of".toList :: R2) :=
      jExpr_read v hv (.id "of".toList :: R2) (jfollow_id _ _ _) trivial _ (by simp [R1]; omega)
    have e2 : jExpr (10 * (R1.length + 1 + 2)) R2 = some (l, .p .rp :: .p .lc :: R3) :=
      jExpr_read l hl (.p .rp :: .p .lc :: R3) (jfollow_closer _ _ _ (Or.inl rfl)) trivial _ (by simp [R1, R2]; omega)
    have e3 := jBlock_prT b hb rest f (by omega)
    have := jStmt_forof f R1 R2 R3 rest v l b e1 e2 e3
    simpa [prS, R1, R2, R3, List.append_assoc] using this
  | .with _ _, h, _, _, _, _ => absurd h (by simp [ReadOKS])
/-- **J5 (reading, trees)**: a block body up to its closing brace -/
theorem jBlock_prT : ∀ (ss : List JS), ReadOKSs ss → ∀ (rest : List JTok) (F : Nat), ssW ss + 2 ≤ F →
    jBlock F (prBody ss ++ .p .rc :: rest) = some (ss, rest)
  | [], _, rest, F, hF => by
    obtain ⟨f, rfl⟩ : ∃ f, F = f + 1 := ⟨F - 1, by omega⟩
    simpa [prBody] using jBlock_close f rest
  | s :: ss, h, rest, F, hF => by
    simp only [ReadOKSs] at h
    obtain ⟨h1, h2⟩ := h
    simp only [ssW] at hF
    obtain ⟨f, rfl⟩ : ∃ f, F = f + 2 := ⟨F - 2, by omega⟩
    obtain ⟨x, tl, hx, _⟩ := prS_head s h1
    have e1 := jStmt_prT s h1 (prBody ss ++ .p .rc :: rest) f (by omega) (noElse_body ss h2 rest)
    have e2 := jBlock_prT ss h2 rest (f + 1) (by omega)
    rw [hx] at e1
    have := jBlock_step (f + 1) x (tl ++ (prBody ss ++ .p .rc :: rest)) _ rest s ss (by simpa using e1) e2
    simpa [prBody, hx, List.append_assoc] using this
end

/-- the translation of a flat body needs one unit of fuel per statement -/
theorem ssW_simple : ∀ (ss : List JS), (∀ s ∈ ss, isSimpleJ s = true) → ssW ss = ss.length
  | [], _ => rfl
  | s :: ss, h => by
    have h1 : stW s = 0 := by
      have := h s (by simp)
      cases s <;> first | rfl | (simp [isSimpleJ] at this)
    simp only [ssW, h1, ssW_simple ss (fun x hx => h x (by simp [hx])), List.length_cons]; omega

/-- **J5 (reading)**: a block body up to its closing brace -/
theorem jBlock_prBody (ss : List JS) (h : ReadOKSs ss) (rest : List JTok) (F : Nat) (hF : ssW ss + 2 ≤ F) :
    jBlock F (prBody ss ++ .p .rc :: rest) = some (ss, rest) := jBlock_prT ss h rest F hF

end Drx.LinkJs
