/-
  C03 link, layer F1c: one-step unfoldings of the model's well-founded control-flow functions (`condDetectD`, `condJzs`),
  with every intermediate result named by a hypothesis.  These are the per-construct lemmas with ABSTRACT bodies:
  whatever the recursive call returns for the collected branch (`ifl`, `el`) is what the `ifThen` node carries.
-/
import DrxProofs.LinkFlowPass
namespace Drx.LinkFlow
open Drx Drx.Lscr

/-- first loop of `condition_detect_in_statements`, part 1: the recursive call on the body of every repeat statement of the list -/
def mapRep (d : Nat) (stmts : List Node) (roEnd : Option Int) : R (List Node) :=
  match d with
  | 0 => if stmts.any isNestStmt then .error .other else .ok stmts
  | d' + 1 => stmts.mapM fun st =>
      match st with
      | .stmt p (.repeat_ rp re c body t s v sg vr) => do
        let body' ← condDetectD d' body (some re)
        pure (.stmt p (.repeat_ rp re c body' t s v sg vr))
      | .stmt p (.tell tp operand inner closed) => do
        let inner' ← condDetectD d' inner roEnd
        pure (.stmt p (.tell tp operand inner' closed))
      | x => pure x

theorem condDetectD_eq (d : Nat) (stmts : List Node) (r : Option Int) :
    condDetectD d stmts r =
      (mapRep d stmts r).bind fun s1 => (s1.foldlM (scanStep r) {}).bind fun sc => condJzs d stmts.length sc.jzs s1 r := by
  rw [condDetectD.eq_def]
  cases d with
  | zero =>
    simp only [mapRep]
    split <;> rfl
  | succ d' => rfl

theorem condJzs_nil (d n : Nat) (stmts : List Node) (r : Option Int) : condJzs d n [] stmts r = .ok stmts := by
  rw [condJzs.eq_def]

/-- header jump of a loop (its address lies beyond the loop's end): `if not cond then exit repeat` replaces the jz statement -/
theorem condJzs_exit (d n : Nat) (opos : Int) (cond : Node) (addr e : Int) (rest stmts stmts' : List Node) (he : e < addr)
    (h1 : replaceFirstCode (.jz opos cond addr) (.ifThen opos (.unary (S "not") opos cond) [exitRepeatStmt opos] []) stmts = .ok stmts') :
    condJzs d n (.jz opos cond addr :: rest) stmts (some e) = condJzs d n rest stmts' (some e) := by
  rw [condJzs.eq_def]
  simp only [he, decide_true, if_true, h1]
  rfl

/-- `e < addr` does not hold for the enclosing loop -/
def inLoop (r : Option Int) (addr : Int) : Prop := ∀ e, r = some e → addr ≤ e

theorem exitTest_false (r : Option Int) (addr : Int) (h : inLoop r addr) :
    (match r with | some e => decide (e < addr) | none => false) = false := by
  cases r with
  | none => rfl
  | some e => have := h e rfl; simp; omega

/-- one `if … end if` (no else): the statements in `[opos, addr)` become the if-list, the recursive call reconstructs it, its
    last statement is not a jump, and the finished node is put where the jz was -/
theorem condJzs_if (d n : Nat) (opos : Int) (cond : Node) (addr : Int) (r : Option Int) (rest stmts s1 coll s2 ifl : List Node)
    (lp : Int) (lc : Node)
    (hx : inLoop r addr)
    (h1 : ifScan (.jz opos cond addr) (.ifThen opos cond [] []) opos addr stmts = .ok (s1, coll))
    (h2 : pyRemoveAll s1 coll = .ok s2) (h3 : breakDetect coll r = .ok coll) (h4 : coll.length < n)
    (h5 : condDetectD d coll r = .ok ifl) (hne : ifl.isEmpty = false) (h6 : pyGet ifl (-1) = .ok (.stmt lp lc))
    (h7 : lc.cls ≠ .jump) :
    condJzs d n (.jz opos cond addr :: rest) stmts r =
      condJzs d n rest (finalizeIf opos (.ifThen opos cond ifl []) s2) r := by
  rw [condJzs.eq_def]
  cases r with
  | none =>
    simp only [h1, h2, h3, h4, h5, hne, h6, dite_true, bind, Except.bind]
    cases lc <;> first | (exact absurd rfl h7) | rfl
  | some e =>
    have hn : ¬ e < addr := by have := hx e rfl; omega
    simp only [hn, decide_false, h1, h2, h3, h4, h5, hne, h6, dite_true, bind, Except.bind]
    cases lc <;> first | (exact absurd rfl h7) | rfl

/-- one `if … end if` whose then-branch produced no statement (repaired F133): an empty if-then node -/
theorem condJzs_if_empty (d n : Nat) (opos : Int) (cond : Node) (addr : Int) (r : Option Int) (rest stmts s1 coll s2 : List Node)
    (hx : inLoop r addr)
    (h1 : ifScan (.jz opos cond addr) (.ifThen opos cond [] []) opos addr stmts = .ok (s1, coll))
    (h2 : pyRemoveAll s1 coll = .ok s2) (h3 : breakDetect coll r = .ok coll) (h4 : coll.length < n)
    (h5 : condDetectD d coll r = .ok []) :
    condJzs d n (.jz opos cond addr :: rest) stmts r =
      condJzs d n rest (finalizeIf opos (.ifThen opos cond [] []) s2) r := by
  rw [condJzs.eq_def]
  cases r with
  | none =>
    simp only [h1, h2, h3, h4, h5, dite_true, bind, Except.bind]
    rfl
  | some e =>
    have hn : ¬ e < addr := by have := hx e rfl; omega
    simp only [hn, decide_false, h1, h2, h3, h4, h5, dite_true, bind, Except.bind]
    rfl

/-- one `if … else … end if`: the if-list ends with the else jump `jump jpos jaddr`; the statements in `(jpos, jaddr)` become the
    else-list; the jump is dropped -/
theorem condJzs_ifelse (d n : Nat) (opos : Int) (cond : Node) (addr : Int) (r : Option Int)
    (rest stmts s1 coll s2 ifl s3 el : List Node) (lp jpos jaddr : Int)
    (hx : inLoop r addr)
    (h1 : ifScan (.jz opos cond addr) (.ifThen opos cond [] []) opos addr stmts = .ok (s1, coll))
    (h2 : pyRemoveAll s1 coll = .ok s2) (h3 : breakDetect coll r = .ok coll) (h4 : coll.length < n)
    (h5 : condDetectD d coll r = .ok ifl) (hne : ifl.isEmpty = false) (h6 : pyGet ifl (-1) = .ok (.stmt lp (.jump jpos jaddr)))
    (hxe : inLoop r jaddr)
    (h8 : pyRemoveAll s2 (elseScan jpos jaddr s2) = .ok s3)
    (h9 : breakDetect (elseScan jpos jaddr s2) r = .ok (elseScan jpos jaddr s2)) (h10 : (elseScan jpos jaddr s2).length < n)
    (h11 : condDetectD d (elseScan jpos jaddr s2) r = .ok el) :
    condJzs d n (.jz opos cond addr :: rest) stmts r =
      condJzs d n rest (finalizeIf opos (.ifThen opos cond ifl.dropLast el) s3) r := by
  rw [condJzs.eq_def]
  cases r with
  | none =>
    simp only [h1, h2, h3, h4, h5, hne, h6, h8, h9, h10, h11, dite_true, bind, Except.bind]
    rfl
  | some e =>
    have hn : ¬ e < addr := by have := hx e rfl; omega
    have hn2 : ¬ e < jaddr := by have := hxe e rfl; omega
    simp only [hn, hn2, decide_false, h1, h2, h3, h4, h5, hne, h6, h8, h9, h10, h11, dite_true, bind, Except.bind]
    rfl

/-! ### `exit repeat` (layer F4: the two step lemmas; no induction over programs with exits is proved) -/

/-- exit repeat as the end of a then-branch without else (fixture shape, path "exit repeat in else part" of
    condition_detect_in_statements): the reconstructed if-list ends with a jump that leaves the loop; it is replaced by an
    `exit repeat` statement and there is no else part -/
theorem condJzs_if_exit (d n : Nat) (opos : Int) (cond : Node) (addr e : Int) (rest stmts s1 coll s2 ifl : List Node)
    (lp jpos jaddr : Int) (hx : addr ≤ e)
    (h1 : ifScan (.jz opos cond addr) (.ifThen opos cond [] []) opos addr stmts = .ok (s1, coll))
    (h2 : pyRemoveAll s1 coll = .ok s2) (h3 : breakDetect coll (some e) = .ok coll) (h4 : coll.length < n)
    (h5 : condDetectD d coll (some e) = .ok ifl) (hne : ifl.isEmpty = false)
    (h6 : pyGet ifl (-1) = .ok (.stmt lp (.jump jpos jaddr))) (hxe : e < jaddr) :
    condJzs d n (.jz opos cond addr :: rest) stmts (some e) =
      condJzs d n rest (finalizeIf opos (.ifThen opos cond (ifl.dropLast ++ [exitRepeatStmt jpos]) []) s2) (some e) := by
  rw [condJzs.eq_def]
  have hn : ¬ e < addr := by omega
  simp only [hn, hxe, decide_false, decide_true, h1, h2, h3, h4, h5, hne, h6, dite_true, bind, Except.bind]
  rfl

/-- `break_detect_in_statements`: an exit jump as the second-to-last statement of an if- or else-list becomes an `exit repeat`
    statement before the list is scanned -/
theorem breakDetect_convert (init : List Node) (p jp ja : Int) (last : Node) (e : Int) (h : e < ja) :
    breakDetect (init ++ [.stmt p (.jump jp ja), last]) (some e) = .ok (init ++ [exitRepeatStmt jp, last]) := by
  unfold breakDetect
  have hl : ¬ (init ++ [Node.stmt p (.jump jp ja), last]).length < 2 := by simp
  simp only [hl, if_false, List.reverse_append, List.reverse_cons, List.reverse_nil, List.nil_append, List.cons_append, h, if_true,
    List.reverse_reverse]

end Drx.LinkFlow
