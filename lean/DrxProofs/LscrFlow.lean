/-
  Facts about the control-flow reconstruction (Drx/Lscr/Flow.lean) that justify its runtime guards.
    rewriteRepeat_weight   the guard `weightList r.stmts ≤ weightList body` in `loopWalk` never fails
-/
import Drx.Lscr.Flow
namespace Drx.Lscr
open Drx

theorem weightList_tail_le (x : Node) (l : List Node) : weightList l ≤ weightList (x :: l) := by
  simp only [weightList]; omega

theorem repeatWhile_weight {r r' : Ro} (h : repeatWhile r = .ok r') : weightList r'.stmts ≤ weightList r.stmts := by
  unfold repeatWhile at h
  split at h
  · cases h; exact Nat.le_refl _
  · rename_i st rest hst
    rw [hst]
    split at h
    · split at h
      · split at h
        · cases h; exact weightList_tail_le _ _
        · cases h; rw [hst]; exact Nat.le_refl _
      · cases h; rw [hst]; exact Nat.le_refl _
      · cases h
    · cases h; rw [hst]; exact Nat.le_refl _
    · cases h

theorem applyRepeatWith_weight {r r' : Ro} {p : Node} (h : applyRepeatWith r p = .ok r') :
    weightList r'.stmts ≤ weightList r.stmts := by
  unfold applyRepeatWith at h
  split at h
  · simp only [bind, Except.bind, pure, Except.pure] at h
    split at h
    · cases h
    · cases h; exact weightList_dropLast_le _
  · cases h

theorem applyRepeatWithIn_weight {r r' : Ro} (h : applyRepeatWithIn r = .ok r') :
    weightList r'.stmts ≤ weightList r.stmts := by
  unfold applyRepeatWithIn at h
  split at h
  · rename_i hst
    simp only [bind, Except.bind, pure, Except.pure] at h
    split at h
    · cases h
    · split at h
      · cases h
      · split at h
        · cases h
        · cases h; rw [hst]; exact weightList_tail_le _ _
  · cases h

/-- the loop body never grows under the three rewrites: the guard of `loopWalk` is always true -/
theorem rewriteRepeat_weight {r : Ro} {prev : Option Node} {r' : Ro} {rm : Bool}
    (h : rewriteRepeat r prev = .ok (r', rm)) : weightList r'.stmts ≤ weightList r.stmts := by
  unfold rewriteRepeat at h
  cases h1 : repeatWhile r with
  | error e => rw [h1] at h; cases h
  | ok r1 =>
    have w1 := repeatWhile_weight h1
    rw [h1] at h
    simp only [bind, Except.bind] at h
    cases hw : isRepeatWith r1 prev with
    | error e => rw [hw] at h; cases h
    | ok isWith =>
      rw [hw] at h
      simp only at h
      cases isWith with
      | true =>
        simp only [if_true] at h
        cases prev with
        | none => cases h
        | some p =>
          simp only at h
          cases h2 : applyRepeatWith r1 p with
          | error e => rw [h2] at h; cases h
          | ok r2 =>
            rw [h2] at h
            simp only [pure, Except.pure] at h
            have w2 := applyRepeatWith_weight h2
            cases hin : isRepeatWithIn r2 with
            | error e => rw [hin] at h; cases h
            | ok isIn =>
              rw [hin] at h
              cases isIn with
              | true =>
                simp only [if_true] at h
                cases h3 : applyRepeatWithIn r2 with
                | error e => rw [h3] at h; cases h
                | ok r3 =>
                  rw [h3] at h; simp only [Except.ok.injEq, Prod.mk.injEq] at h
                  obtain ⟨h, _⟩ := h; subst h
                  have w3 := applyRepeatWithIn_weight h3
                  omega
              | false =>
                simp only [Bool.false_eq_true, if_false, Except.ok.injEq, Prod.mk.injEq] at h
                obtain ⟨h, _⟩ := h; subst h
                omega
      | false =>
        simp only [Bool.false_eq_true, if_false, pure, Except.pure] at h
        cases hin : isRepeatWithIn r1 with
        | error e => rw [hin] at h; cases h
        | ok isIn =>
          rw [hin] at h
          cases isIn with
          | true =>
            simp only [if_true] at h
            cases h3 : applyRepeatWithIn r1 with
            | error e => rw [h3] at h; cases h
            | ok r3 =>
              rw [h3] at h; simp only [Except.ok.injEq, Prod.mk.injEq] at h
              obtain ⟨h, _⟩ := h; subst h
              have w3 := applyRepeatWithIn_weight h3
              omega
          | false =>
            simp only [Bool.false_eq_true, if_false, Except.ok.injEq, Prod.mk.injEq] at h
            obtain ⟨h, _⟩ := h; subst h
            omega

end Drx.Lscr
