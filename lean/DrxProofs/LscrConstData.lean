/-
  The running total of constant data (`declared` in `parse_lrcr_crb`, repairs F104 and F161): every completed round of the
  constant-record loop adds 4 + the number of bytes its data slice REALLY holds (see `crbStep`: `strdata.length`, not the length
  word) and leaves the total inside the file; so all string / float constants of a script together hold at most `len(file)` bytes
  of the file, whatever lengths, offsets and counts the records declare (negative lengths included).
-/
import DrxProofs.LscrSteps
namespace Drx.Lscr.Steps
open Drx Drx.Gen Drx.Lscr

macro "crb_decl_tail" h:ident : tactic => `(tactic| (
  simp only [bind, Except.bind, pure, Except.pure, throw, throwThe, MonadExceptOf.throw] at $h:ident
  repeat (any_goals (split at $h:ident))
  all_goals first
    | (cases $h:ident; done)
    | (simp only [Except.ok.injEq] at $h:ident; rw [← $h:ident]; dsimp only; omega)))

/-- a completed round never lowers the running total and leaves it inside the file -/
theorem crbStep_declared {codec : Codec} {d : Bytes} {conOff : Int} {st st' : CrbState} (h : crbStep codec d conOff st = .ok st')
    (h0 : st.declared ≤ d.length) : st.declared ≤ st'.declared ∧ st'.declared ≤ d.length := by
  unfold crbStep at h
  simp only at h
  by_cases hb : st.bpc = 8
  · simp only [hb, if_true] at h
    obtain ⟨t, _, h⟩ := bind_ok h
    simp only [pure_bind] at h
    obtain ⟨coff, _, h⟩ := bind_ok h
    crb_decl_tail h
  · simp only [hb, if_false] at h
    obtain ⟨t, _, h⟩ := bind_ok h
    by_cases ht : t = 0
    · simp only [ht, if_true] at h
      obtain ⟨t2, _, h⟩ := bind_ok h
      simp only [pure_bind] at h
      obtain ⟨coff, _, h⟩ := bind_ok h
      crb_decl_tail h
    · simp only [ht, if_false, pure_bind] at h
      obtain ⟨coff, _, h⟩ := bind_ok h
      crb_decl_tail h

/-- the whole loop, any number of declared records -/
theorem crbLoop_declared {codec : Codec} {d : Bytes} {conOff : Int} (n : Nat) {st st' : CrbState}
    (h : crbLoop codec d conOff n st = .ok st') (h0 : st.declared ≤ d.length) : st.declared ≤ st'.declared ∧ st'.declared ≤ d.length := by
  induction n generalizing st with
  | zero => simp only [crbLoop, Except.ok.injEq] at h; subst h; exact ⟨Nat.le_refl _, h0⟩
  | succ n ih =>
    simp only [crbLoop] at h
    cases hs : crbStep codec d conOff st with
    | error e => rw [hs] at h; cases h
    | ok s1 =>
      rw [hs] at h
      have a := crbStep_declared hs h0
      have b := ih (st := s1) h a.2
      exact ⟨Nat.le_trans a.1 b.1, b.2⟩

end Drx.Lscr.Steps
