/-
  L6m for STRUCTURED bodies: the model's `generate_lingo` on the nested tree that agent-link-flow's reconstruction theorem
  delivers (`EmbTs`, DrxProofs/LinkFlow2Tree.lean) prints `mSs` — `if … then / else / end if`, `repeat while`, `repeat with … to /
  down to`, nested to any depth with the indentation growing by one level per nesting.
-/
import DrxProofs.LinkText
import DrxProofs.LinkParse
import DrxProofs.LinkFlow2Link
namespace Drx.Link
open Drx Drx.Lscr Drx.Spec Drx.LinkFlow
set_option linter.unusedSimpArgs false
set_option linter.unusedVariables false

theorem embTs_isEmpty : ∀ (ss : List Stmt) (ns : List Node), EmbTs ss ns → ns.isEmpty = ss.isEmpty
  | [], ns, h => by simp only [EmbTs] at h; subst h; rfl
  | s :: ss, ns, h => by obtain ⟨x, xs, rfl, _, _⟩ := h; rfl

theorem for_ne_while : ¬ (S "for" = S "while") := by decide

mutual
theorem lingo_tree : ∀ (s : Stmt), FragX s = true → ∀ (n : Node), EmbT s n → ∀ (ind : Nat), lingo false n ind = .ok (.s (mS ind s))
  | .set lv v, hf, n, h, ind => by
    simp only [FragX] at hf
    exact lingo_stmt (.set lv v) hf n h ind
  | .call f as, hf, n, h, ind => by
    simp only [FragX] at hf
    exact lingo_stmt (.call f as) hf n h ind
  | .exit, hf, n, h, ind => lingo_stmt .exit rfl n h ind
  | .ifThen c t e, hf, n, h, ind => by
    obtain ⟨p, q, cn, ifs, els, rfl, hc, ht, he⟩ := h
    simp only [FragX, Bool.and_eq_true] at hf
    obtain ⟨⟨hfc, hft⟩, hfe⟩ := hf
    have e1 := lingo_emb c hfc cn hc 0
    have e2 := lingo_trees t hft ifs ht (ind + 1)
    have e3 := lingo_trees e hfe els he (ind + 1)
    have hemp := embTs_isEmpty e els he
    cases hee : e.isEmpty with
    | true =>
      rw [hee] at hemp
      simp only [lingo, e1, e2, hemp, if_true, bind, Except.bind, pure, Except.pure, Lscr.Name.asStr, Lscr.Name.str, mS, hee,
        List.append_nil, List.append_assoc]
    | false =>
      rw [hee] at hemp
      simp only [lingo, e1, e2, e3, hemp, Bool.false_eq_true, if_false, bind, Except.bind, pure, Except.pure, Lscr.Name.asStr,
        Lscr.Name.str, mS, hee, List.append_assoc]
  | .repeatWhile c b, hf, n, h, ind => by
    obtain ⟨p, rp, re, cn, body, rfl, hc, hb⟩ := h
    simp only [FragX, Bool.and_eq_true] at hf
    obtain ⟨hfc, hfb⟩ := hf
    have e1 := lingo_emb c hfc cn hc 0
    have e2 := lingo_trees b hfb body hb (ind + 1)
    simp only [lingo, e1, e2, if_true, bind, Except.bind, pure, Except.pure, Lscr.Name.asStr, Lscr.Name.str, mS, mCond,
      List.append_assoc]
  | .repeatWith v a b down body, hf, n, h, ind => by
    cases v with
    | var k v =>
      cases k with
      | loc =>
        simp only [EmbT] at h
        obtain ⟨p, rp, re, cp, pv1, pv2, ra, rb, body', rfl, ha, hb, hbody⟩ := h
        simp only [FragX, Bool.and_eq_true] at hf
        obtain ⟨⟨⟨_, hfa⟩, hfb⟩, hfbody⟩ := hf
        have e1 := lingo_emb a hfa ra ha 0
        have e2 := lingo_emb b hfb rb hb 0
        have e3 := lingo_trees body hfbody body' hbody (ind + 1)
        have ec : lingo false (.binary (cmpName down) cp (.leaf .localVar (.s v) pv1) rb) 0
            = .ok (.s (mE (.bin (if down then .ge else .le) (.var .loc v) b))) := by
          have hemb : Emb (.bin (if down then .ge else .le) (.var .loc v) b) (.binary (cmpName down) cp (.leaf .localVar (.s v) pv1) rb) := by
            cases down <;> exact ⟨cp, _, rb, rfl, ⟨pv1, rfl⟩, hb⟩
          exact lingo_emb _ (by cases down <;> simp [FragE, hfb, BinOp.isInfix] <;> simpa [FragX] using ‹_›) _ hemb 0
        have hr : lingoRight (.binary (cmpName down) cp (.leaf .localVar (.s v) pv1) rb) = lingo false rb 0 := by simp only [lingoRight]
        generalize hcn : Node.binary (cmpName down) cp (Node.leaf Leaf.localVar (Name.s v) pv1) rb = cn' at ec hr ⊢
        cases down with
        | false =>
          have hs : (S "+" = S "+") := rfl
          simp only [lingo, ec, hr, e1, e2, e3, for_ne_while, if_false, if_true, bind, Except.bind, pure, Except.pure,
            Lscr.Name.asStr, Lscr.Name.str, mS, mE, Bool.false_eq_true, List.append_assoc]
        | true =>
          have hs : ¬ (S "-" = S "+") := by decide
          simp only [lingo, ec, hr, e1, e2, e3, for_ne_while, hs, if_false, if_true, bind, Except.bind, pure, Except.pure,
            Lscr.Name.asStr, Lscr.Name.str, mS, mE, List.append_assoc]
      | _ => simp [FragX] at hf
    | _ => simp [FragX] at hf
  | .put m v lv, hf, n, h, ind => by
    simp only [FragX] at hf
    exact lingo_stmt (.put m v lv) hf n h ind
  | .delete t, hf, n, h, ind => by
    simp only [FragX] at hf
    exact lingo_stmt (.delete t) hf n h ind
  | .hilite t, hf, n, h, ind => by
    simp only [FragX] at hf
    exact lingo_stmt (.hilite t) hf n h ind
  | .mcall o m as, hf, n, h, ind => by
    simp only [FragX] at hf
    exact lingo_stmt (.mcall o m as) hf n h ind
  | .tell .., hf, _, _, _ => by simp [FragX] at hf
  | .repeatIn v l body, hf, n, h, ind => by
    cases v with
    | var k v =>
      cases k with
      | loc =>
        simp only [EmbT] at h
        obtain ⟨p, rp, re, pb, pk, pc, pl, pv, ln, body', rfl, hl, hbody⟩ := h
        simp only [FragX, Bool.and_eq_true] at hf
        obtain ⟨⟨_, hfl⟩, hfbody⟩ := hf
        have e1 := lingo_emb l hfl ln hl 0
        have e3 := lingo_trees body hfbody body' hbody (ind + 1)
        have hfc : FragE (.bin .le (.int 1) (.call "count".toList [l])) = true := by
          have hg : gvClash "count".toList [l] = false := by
            cases l <;> first | rfl | (simp only [gvClash]; decide)
          have hid : idOk "count".toList = true := by decide
          have hpc : plainCallName "count".toList = true := by decide
          simp only [FragE, FragL, hfl, Bool.and_true, Bool.and_eq_true, decide_eq_true_eq, Bool.not_eq_true', List.isEmpty_cons]
          repeat' constructor
          all_goals first | exact hid | exact hpc | exact hg | simp
        have ec : lingo false (.binary (S "lte") pb (.leaf .const (.s (S "1")) pk)
              (.callFn (.s (S "count")) pc (.loadList (S "<load_list>") pl [ln]) true false false .none)) 0
            = .ok (.s (mE (.bin .le (.int 1) (.call "count".toList [l])))) :=
          lingo_emb _ hfc _ ⟨pb, _, _, rfl, ⟨pk, rfl⟩, ⟨pc, pl, false, [ln], rfl, ⟨ln, [], rfl, hl, rfl⟩⟩⟩ 0
        generalize hcn : Node.binary (S "lte") pb (Node.leaf Leaf.const (Name.s (S "1")) pk)
          (Node.callFn (Name.s (S "count")) pc (Node.loadList (S "<load_list>") pl [ln]) true false false Node.none) = cn' at ec ⊢
        have h1 : ¬ (S "for_in" = S "while") := by decide
        have h2 : ¬ (S "for_in" = S "for") := by decide
        simp only [lingo, ec, e1, e3, h1, h2, if_false, bind, Except.bind, pure, Except.pure, Lscr.Name.asStr, Lscr.Name.str, mS, mE,
          List.append_assoc]
      | _ => simp [FragX] at hf
    | _ => simp [FragX] at hf
  | .exitRepeat, hf, _, _, _ => by simp [FragX] at hf
theorem lingo_trees : ∀ (ss : List Stmt), FragXs ss = true → ∀ (ns : List Node), EmbTs ss ns → ∀ (ind : Nat),
    lingoStmts ns ind = .ok (mSs ind ss)
  | [], _, ns, h, ind => by
    simp only [EmbTs] at h; subst h; simp [lingoStmts, mSs]
  | s :: ss, hf, ns, h, ind => by
    obtain ⟨x, xs, rfl, hx, hxs⟩ := h
    simp only [FragXs, Bool.and_eq_true] at hf
    have e1 := lingo_tree s hf.1 x hx ind
    have e2 := lingo_trees ss hf.2 xs hxs ind
    simp only [lingoStmts, e1, e2, bind, Except.bind, Lscr.Name.asStr, pure, Except.pure, mSs]
end

/-! ### handlers and scripts, parametric in the statement relation `F` of the container chain (`FuncRelg`, `ScriptRelg`) -/

theorem funcLingo_relg (F : Handler → List Node → Prop) (s : Spec.Script) (script : Lscr.Script) (hsg : script.globalVars = s.globals)
    (h : Handler) (f : FuncDef) (hr : FuncRelg F s.globals h f)
    (hF : ∀ fin, F h fin → lingoStmts fin 1 = .ok (mSs 1 h.body)) (hp : ∀ v ∈ h.params, idOk v = true) :
    funcLingo script f = .ok (mHandler s h) := by
  obtain ⟨ns, p, q, hst, hemb⟩ := hr.stmts
  have hgok : GvOk (s.globals ++ h.globalsUsed s.globals) f.globalVars := by
    obtain ⟨_, _, _, _, hok, _⟩ := hr.gvars; exact hok
  have hgs := gvars_names _ _ (GvOk_sorted _ _ hgok)
  have hsh := shown_globals s.globals h f.globalVars hr.gvars
  have hbody := hF ns hemb
  have hmap : (List.map Lscr.Name.str (List.map Lscr.Name.s h.params)) = h.params := by
    induction h.params with
    | nil => rfl
    | cons a as ih => simp [Lscr.Name.str, ih]
  have hemp : f.params.isEmpty = h.params.isEmpty := by
    have hlen : h.params.length = f.params.length := hr.params.length_eq
    cases hh : h.params <;> cases hf : f.params <;> simp_all
  unfold funcLingo
  simp only [exitNode] at hst
  simp only [params_names _ _ hr.params, hgs, bind, Except.bind, pure, Except.pure, hr.isMethod, Bool.false_eq_true, if_false, and_false,
    false_and, hst, bodyLingo_exit, hbody, hr.name, hmap, hemp, hsg]
  rw [shown_filter s.globals _ _ (fun v => rfl), hsh]
  have hgl : (List.map (fun g : Lscr.Name => indentOf 1 ++ S "global " ++ g.str ++ S "\n") (List.map Lscr.Name.s (hGlobalsSorted s h)))
      = List.map (fun g => indentOf 1 ++ S "global " ++ g ++ S "\n") (hGlobalsSorted s h) := by
    rw [List.map_map]; rfl
  have hie : (List.map Lscr.Name.s (hGlobalsSorted s h)).isEmpty = (hGlobalsSorted s h).isEmpty := by
    cases hGlobalsSorted s h <;> rfl
  show _ = Except.ok (mHandler s h)
  unfold mHandler mGlobalLines
  change (Except.ok _ : R Str) = _
  simp only [hGlobalsSorted] at hgl hie ⊢
  rw [hgl, hie]
  cases hps : h.params with
  | nil =>
    rw [glines_eq]
    simp [List.append_assoc]
  | cons a as =>
    have hne : (a :: as).isEmpty = false := rfl
    simp only [hne, Bool.false_eq_true, if_false]
    cases hx : (a :: as).getLast? with
    | none => simp at hx
    | some x =>
      have hxm : x ∈ h.params := by rw [hps]; exact List.mem_of_getLast? hx
      obtain ⟨c, hc1, hc2⟩ := idOk_last x (hp x hxm)
      have hj := joinWith_last (S ", ") (a :: as) x c hx hc1
      have hlast : (S " " ++ joinWith (S ", ") (a :: as)).getLast? = some c := by
        rw [List.getLast?_append, hj]; rfl
      rw [rstrip_last _ c hlast (idChar_not_space c hc2)]
      rw [glines_eq]
      simp [List.append_assoc]

theorem funcsLingo_relg (F : Handler → List Node → Prop) (s : Spec.Script) (t : Lscr.Script) (hsg : t.globalVars = s.globals) :
    ∀ (hs : List Handler) (fs : List FuncDef), All2 (FuncRelg F s.globals) hs fs →
    (∀ h ∈ hs, (∀ fin, F h fin → lingoStmts fin 1 = .ok (mSs 1 h.body)) ∧ ∀ v ∈ h.params, idOk v = true) → ∀ (first : Bool),
    funcsLingo t fs first = .ok (mHandlers s hs first) := by
  intro hs fs h
  induction h with
  | nil => intro _ _; rfl
  | @cons hd f hs fs hr _ ih =>
    intro hfr first
    obtain ⟨hb, hp⟩ := hfr hd (by simp)
    simp only [funcsLingo, funcLingo_relg F s t hsg hd f hr hb hp, ih (fun x hx => hfr x (by simp [hx])) false, bind, Except.bind, pure,
      Except.pure, mHandlers]

/-- **L6m, parametric**: the text of a script whose handlers are related by any statement relation that determines the body text -/
theorem lingoText_relg (F : Handler → List Node → Prop) (s : Spec.Script) (t : Lscr.Script) (hr : ScriptRelg F s t)
    (hfr : ∀ h ∈ s.handlers, (∀ fin, F h fin → lingoStmts fin 1 = .ok (mSs 1 h.body)) ∧ ∀ v ∈ h.params, idOk v = true) :
    lingoText t = .ok (mText s) := by
  have hf := funcsLingo_relg F s t hr.globs s.handlers t.functions hr.funcs hfr true
  unfold lingoText
  simp only [hf, bind, Except.bind, pure, Except.pure, hr.props, hr.globs, hr.fac, List.length_nil, Nat.lt_irrefl, if_false, and_true,
    gt_iff_lt, mText, List.append_nil]

/-- structured bodies: `F = Fsrc` (agent-link-flow's `EmbTs`) -/
theorem lingoText_structured (s : Spec.Script) (t : Lscr.Script) (hr : ScriptRelg Fsrc s t)
    (hfr : ∀ h ∈ s.handlers, FragXs h.body = true ∧ ∀ v ∈ h.params, idOk v = true) : lingoText t = .ok (mText s) :=
  lingoText_relg Fsrc s t hr (fun h hh => ⟨fun fin hfin => lingo_trees h.body (hfr h hh).1 fin hfin 1, (hfr h hh).2⟩)

end Drx.Link
