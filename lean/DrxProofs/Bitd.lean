/-
  Lemmas behind DrxProps/C13.lean: the writers over the shared buffer, state independence of every decoder.
-/
import Drx.Bitd
namespace Drx.Bitd
open Drx

/-- today's `writeBmpHeader` discards whatever the buffer held -/
theorem writeBmpHeader_reset (size off : Int) (b : Buf) :
    writeBmpHeader true size off b = writeBmpHeader true size off [] := by
  unfold writeBmpHeader
  rfl

theorem bind_hdr {β : Type} (size off : Int) (f : Unit → W β) (b b' : Buf) :
    (writeBmpHeader true size off >>= f) b = (writeBmpHeader true size off >>= f) b' := by
  show W.bind _ _ b = W.bind _ _ b'
  unfold W.bind
  rw [writeBmpHeader_reset size off b, writeBmpHeader_reset size off b']

theorem decode8_state_free (c : Call) (b b' : Buf) : decode8 true c b = decode8 true c b' := by
  unfold decode8
  exact bind_hdr _ _ _ b b'

theorem decode1_state_free (c : Call) (b b' : Buf) : decode1 true c b = decode1 true c b' := by
  unfold decode1
  exact bind_hdr _ _ _ b b'

theorem decode4_state_free (c : Call) (b b' : Buf) : decode4 true c b = decode4 true c b' := by
  unfold decode4
  exact bind_hdr _ _ _ b b'

theorem decode16_state_free (c : Call) (b b' : Buf) : decode16 true c b = decode16 true c b' := by
  unfold decode16
  exact bind_hdr _ _ _ b b'

theorem decode24_state_free (c : Call) (b b' : Buf) : decode24 true c b = decode24 true c b' := by
  unfold decode24
  exact bind_hdr _ _ _ b b'

instance {ε α : Type} [DecidableEq ε] [DecidableEq α] : DecidableEq (Except ε α) := fun a b =>
  match a, b with
  | .ok x, .ok y => if h : x = y then isTrue (by rw [h]) else isFalse (by intro e; cases e; exact h rfl)
  | .error x, .error y => if h : x = y then isTrue (by rw [h]) else isFalse (by intro e; cases e; exact h rfl)
  | .ok _, .error _ => isFalse (by intro e; cases e)
  | .error _, .ok _ => isFalse (by intro e; cases e)

/-- a writer that, when it succeeds, has handed the buffer out -/
def EndsEmpty (m : W Bytes) : Prop := ∀ b out, (m b).2 = .ok out → (m b).1 = []

theorem endsEmpty_get : EndsEmpty getBmpImage := by
  intro b out _; rfl

theorem endsEmpty_raise (e : Err) : EndsEmpty (raise e) := by
  intro b out h; simp [raise] at h

theorem endsEmpty_bind {α : Type} (x : W α) (f : α → W Bytes) (h : ∀ a, EndsEmpty (f a)) : EndsEmpty (x >>= f) := by
  intro b out ho
  change (W.bind x f b).2 = _ at ho
  show (W.bind x f b).1 = []
  unfold W.bind at ho ⊢
  rcases hx : x b with ⟨b', r⟩
  cases r with
  | error e => simp [hx] at ho
  | ok a => simp only [hx] at ho ⊢; exact h a b' out ho

theorem decode8_endsEmpty (r : Bool) (c : Call) : EndsEmpty (decode8 r c) := by
  unfold decode8
  split
  dsimp only
  refine endsEmpty_bind _ _ fun _ => ?_
  refine endsEmpty_bind _ _ fun _ => ?_
  refine endsEmpty_bind _ _ fun _ => ?_
  refine endsEmpty_bind _ _ fun _ => ?_
  refine endsEmpty_bind _ _ fun _ => ?_
  exact endsEmpty_get

theorem decode1_endsEmpty (r : Bool) (c : Call) : EndsEmpty (decode1 r c) := by
  unfold decode1
  split
  dsimp only
  refine endsEmpty_bind _ _ fun _ => ?_
  refine endsEmpty_bind _ _ fun _ => ?_
  refine endsEmpty_bind _ _ fun _ => ?_
  refine endsEmpty_bind _ _ fun _ => ?_
  refine endsEmpty_bind _ _ fun _ => ?_
  exact endsEmpty_get

theorem decode4_endsEmpty (r : Bool) (c : Call) : EndsEmpty (decode4 r c) := by
  unfold decode4
  split
  dsimp only
  refine endsEmpty_bind _ _ fun _ => ?_
  refine endsEmpty_bind _ _ fun _ => ?_
  refine endsEmpty_bind _ _ fun _ => ?_
  exact endsEmpty_raise _

theorem decode16_endsEmpty (r : Bool) (c : Call) : EndsEmpty (decode16 r c) := by
  unfold decode16
  split
  dsimp only
  refine endsEmpty_bind _ _ fun _ => ?_
  refine endsEmpty_bind _ _ fun _ => ?_
  refine endsEmpty_bind _ _ fun _ => ?_
  refine endsEmpty_bind _ _ fun _ => ?_
  exact endsEmpty_get

theorem decode24_endsEmpty (r : Bool) (c : Call) : EndsEmpty (decode24 r c) := by
  unfold decode24
  split
  dsimp only
  refine endsEmpty_bind _ _ fun _ => ?_
  refine endsEmpty_bind _ _ fun _ => ?_
  refine endsEmpty_bind _ _ fun _ => ?_
  refine endsEmpty_bind _ _ fun _ => ?_
  exact endsEmpty_get

theorem decodeClass_endsEmpty (cls : String) (r : Bool) (c : Call) : EndsEmpty (decodeClass cls r c) := by
  unfold decodeClass
  split
  · exact decode1_endsEmpty r c
  split
  · exact decode4_endsEmpty r c
  split
  · exact decode8_endsEmpty r c
  split
  · exact decode16_endsEmpty r c
  split
  · exact decode24_endsEmpty r c
  · exact endsEmpty_raise _

def knownClass (cls : String) : Bool :=
  cls = "Decoder1b" || cls = "Decoder4b" || cls = "Decoder8b" || cls = "Decoder16b" || cls = "Decoder24b"

/-- a decode by one of the five decoder classes does not look at the buffer it finds -/
theorem decodeClass_state_free (cls : String) (h : knownClass cls = true) (c : Call) (b b' : Buf) :
    decodeClass cls true c b = decodeClass cls true c b' := by
  unfold decodeClass
  split
  · exact decode1_state_free c b b'
  split
  · exact decode4_state_free c b b'
  split
  · exact decode8_state_free c b b'
  split
  · exact decode16_state_free c b b'
  split
  · exact decode24_state_free c b b'
  · simp_all [knownClass]

theorem lookupN_mem {β : Type} (k : Nat) (l : List (Nat × β)) (v : β) (h : lookupN k l = some v) : (k, v) ∈ l := by
  induction l with
  | nil => simp [lookupN] at h
  | cons p r ih =>
    obtain ⟨k', v'⟩ := p
    unfold lookupN at h
    split at h
    · simp_all
    · simp [ih h]

/-- every class named by the regenerated `DECODERS` table is one the model implements -/
theorem registry_classes_known : Gen.BitdTables.decoders.all (fun p => knownClass p.2) = true := by decide

theorem lookup_known (k : Nat) (cls : String) (h : lookupN k Gen.BitdTables.decoders = some cls) : knownClass cls = true := by
  have := List.all_eq_true.mp registry_classes_known _ (lookupN_mem _ _ _ h)
  simpa using this

end Drx.Bitd
