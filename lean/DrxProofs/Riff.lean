/-
  Spec side of C01 (movie = chunk list, encoder) and the lemmas behind DrxProps/C01.lean.
-/
import Drx.Riff
import Drx.RiffSpec
import Drx.Layout
import Drx.Gen.RiffLayouts
import DrxProofs.Py
namespace Drx.Riff
open Drx

theorem padBytes_length (n : Nat) : (padBytes n).length = n % 2 := by
  unfold padBytes; split <;> simp <;> omega

theorem encId_length (o : Order) (id : Bytes) : (encId o id).length = id.length := by
  cases o <;> simp [encId]

theorem encChunk_length (o : Order) (c : SChunk) (h : c.WF) : (encChunk o c).length = chunkSpan c := by
  simp [encChunk, encId_length, padBytes_length, chunkSpan, h.1]; omega

/-! ### slices -/

theorem slice_mid (a b c : List α) : slice (a ++ (b ++ c)) a.length (a.length + b.length) = b := by
  simp [slice]

theorem slice_mid' (a b c : List α) (i j : Nat) (hi : i = a.length) (hj : j = a.length + b.length) :
    slice (a ++ (b ++ c)) i j = b := by subst hi hj; exact slice_mid a b c

theorem pySlice_mid (a b c : List α) (i : Nat) (k : Int) (hi : i = a.length) (hk : k = b.length) :
    pySlice (a ++ (b ++ c)) (i : Int) ((i : Int) + k) = b := by
  subst hi hk
  have : ((a.length : Int) + (b.length : Int)) = ((a.length + b.length : Nat) : Int) := by simp
  rw [this, pySlice_nat, slice_mid]

/-! ### FourCC -/

theorem sanitize_range (b : UInt8) : ' ' ≤ sanitize b ∧ sanitize b ≤ 'z' := by
  have h : ∀ n : Nat, n < 256 → (' ' ≤ sanitize (UInt8.ofNat n) ∧ sanitize (UInt8.ofNat n) ≤ 'z') := by decide +kernel
  have := h b.toNat (UInt8.toNat_lt b)
  simpa using this

theorem parseChunkId_at (pre id rest : Bytes) (o : Order) (h : id.length = 4) :
    parseChunkId (pre ++ (encId o id ++ rest)) pre.length o = .ok (id.map sanitize) := by
  unfold parseChunkId
  have hs : slice (pre ++ (encId o id ++ rest)) pre.length (pre.length + 4) = encId o id :=
    slice_mid' _ _ _ _ _ rfl (by rw [encId_length, h])
  simp only [hs, encId_length, h, if_true]
  cases o <;> simp [encId, List.map_reverse]

/-! ### one chunk -/

theorem int_bounds_of_lt (n : Nat) (h : n < 2 ^ 31) :
    -((2 ^ (8 * 4 - 1) : Nat) : Int) ≤ (n : Int) ∧ (n : Int) < ((2 ^ (8 * 4 - 1) : Nat) : Int) := by
  have : (2 ^ (8 * 4 - 1) : Nat) = 2147483648 := by decide
  rw [this]; constructor <;> omega

theorem getS_len_at (pre : Bytes) (o : Order) (n : Nat) (rest : Bytes) (i : Nat) (hi : i = pre.length) (h : n < 2 ^ 31) :
    getS o 4 (pre ++ (encS o 4 (n : Int) ++ rest)) i = .ok (n : Int) := by
  unfold getS
  rw [slice_mid' _ _ _ _ _ hi (by simp [hi])]
  exact unpackS_encS o 4 (by decide) _ (int_bounds_of_lt n h).1 (int_bounds_of_lt n h).2

theorem parseChunk_at (pre rest : Bytes) (o : Order) (c : SChunk) (h : c.WF) :
    parseChunk (pre ++ (encChunk o c ++ rest)) pre.length o = .ok c.view := by
  unfold parseChunk encChunk
  have e1 : pre ++ ((encId o c.id ++ (encS o 4 ↑c.data.length ++ (c.data ++ padBytes c.data.length))) ++ rest)
      = pre ++ (encId o c.id ++ ((encS o 4 ↑c.data.length ++ (c.data ++ padBytes c.data.length)) ++ rest)) := by
    simp [List.append_assoc]
  rw [e1, parseChunkId_at _ _ _ _ h.1]
  have e2 : pre ++ (encId o c.id ++ ((encS o 4 ↑c.data.length ++ (c.data ++ padBytes c.data.length)) ++ rest))
      = (pre ++ encId o c.id) ++ (encS o 4 ↑c.data.length ++ ((c.data ++ padBytes c.data.length) ++ rest)) := by
    simp [List.append_assoc]
  rw [e2, getS_len_at _ _ _ _ _ (by simp [encId_length, h.1]) h.2]
  have e3 : (pre ++ encId o c.id) ++ (encS o 4 ↑c.data.length ++ ((c.data ++ padBytes c.data.length) ++ rest))
      = ((pre ++ encId o c.id) ++ encS o 4 ↑c.data.length) ++ (c.data ++ (padBytes c.data.length ++ rest)) := by
    simp [List.append_assoc]
  rw [e3]
  simp only [Except.bind, bind]
  rw [pySlice_mid _ _ _ _ _ (by simp [encId_length, h.1]) rfl]
  rfl

/-! ### the walk -/

theorem walk_encChunks (o : Order) (cs : List SChunk) (hwf : ∀ c ∈ cs, c.WF) (pre : Bytes) :
    walk (pre ++ encChunks o cs) o pre.length = .ok (cs.map SChunk.view) := by
  induction cs generalizing pre with
  | nil =>
    rw [walk]; simp [encChunks]
  | cons c cs ih =>
    have hc := hwf c (by simp)
    rw [walk]
    have hlen : pre.length < (pre ++ encChunks o (c :: cs)).length := by
      simp [encChunks, encChunk_length o c hc, chunkSpan]; omega
    simp only [hlen, dite_true]
    simp only [encChunks]
    rw [parseChunk_at pre _ o c hc]
    simp only [SChunk.view]
    have hnext : pre.length + 8 + c.data.length + c.data.length % 2 = (pre ++ encChunk o c).length := by
      simp [encChunk_length o c hc, chunkSpan]; omega
    rw [hnext]
    have := ih (fun c' hc' => hwf c' (by simp [hc'])) (pre ++ encChunk o c)
    rw [List.append_assoc] at this
    rw [this]
    simp [SChunk.view]

/-- the walk makes exactly one iteration per chunk: no byte is skipped or visited twice -/
theorem walkSteps_encChunks (o : Order) (cs : List SChunk) (hwf : ∀ c ∈ cs, c.WF) (pre : Bytes) :
    walkSteps (pre ++ encChunks o cs) o pre.length = cs.length := by
  induction cs generalizing pre with
  | nil =>
    rw [walkSteps]; simp [encChunks]
  | cons c cs ih =>
    have hc := hwf c (by simp)
    rw [walkSteps]
    have hlen : pre.length < (pre ++ encChunks o (c :: cs)).length := by
      simp [encChunks, encChunk_length o c hc, chunkSpan]; omega
    simp only [hlen, dite_true]
    simp only [encChunks]
    rw [parseChunk_at pre _ o c hc]
    simp only [SChunk.view]
    have hnext : pre.length + 8 + c.data.length + c.data.length % 2 = (pre ++ encChunk o c).length := by
      simp [encChunk_length o c hc, chunkSpan]; omega
    rw [hnext]
    have := ih (fun c' hc' => hwf c' (by simp [hc'])) (pre ++ encChunk o c)
    rw [List.append_assoc] at this
    rw [this]; simp; omega

end Drx.Riff

namespace Drx.Riff
open Drx

/-! ### whole movie: header + chunks behind an arbitrary prefix -/

theorem In32.bounds {i : Int} (h : In32 i) :
    -((2 ^ (8 * 4 - 1) : Nat) : Int) ≤ i ∧ i < ((2 ^ (8 * 4 - 1) : Nat) : Int) := by
  have : (2 ^ (8 * 4 - 1) : Nat) = 2147483648 := by decide
  rw [this]; exact h

theorem In16.bounds {i : Int} (h : In16 i) :
    -((2 ^ (8 * 2 - 1) : Nat) : Int) ≤ i ∧ i < ((2 ^ (8 * 2 - 1) : Nat) : Int) := by
  have : (2 ^ (8 * 2 - 1) : Nat) = 32768 := by decide
  rw [this]; exact h

theorem parseRiff_encMovie (o : Order) (pre : Bytes) (len : Int) (hlen : In32 len)
    (cs : List SChunk) (hwf : ∀ c ∈ cs, c.WF) :
    parseRiff (encMovie o pre len cs) pre.length o = .ok (cs.map SChunk.view) := by
  unfold parseRiff encMovie
  rw [parseChunkId_at pre RIFXb _ o rfl]
  have h1 : List.map sanitize RIFXb = RIFX := by decide
  simp only [h1, bind, Except.bind, ne_eq, not_true_eq_false, if_false]
  have e2 : pre ++ (encId o RIFXb ++ (encS o 4 len ++ (encId o MV93b ++ encChunks o cs)))
      = (pre ++ encId o RIFXb) ++ (encS o 4 len ++ (encId o MV93b ++ encChunks o cs)) := by
    simp [List.append_assoc]
  have g : getS o 4 ((pre ++ encId o RIFXb) ++ (encS o 4 len ++ (encId o MV93b ++ encChunks o cs))) (pre.length + 4) = .ok len := by
    unfold getS
    rw [slice_mid' _ _ _ _ _ (by simp [encId_length, RIFXb]) (by simp [encId_length, RIFXb])]
    exact unpackS_encS o 4 (by decide) _ hlen.bounds.1 hlen.bounds.2
  rw [e2, g]
  have e3 : (pre ++ encId o RIFXb) ++ (encS o 4 len ++ (encId o MV93b ++ encChunks o cs))
      = ((pre ++ encId o RIFXb) ++ encS o 4 len) ++ (encId o MV93b ++ encChunks o cs) := by
    simp [List.append_assoc]
  have hl : pre.length + 8 = ((pre ++ encId o RIFXb) ++ encS o 4 len).length := by
    simp [encId_length, RIFXb]
  simp only []
  rw [e3, hl, parseChunkId_at _ MV93b _ o rfl]
  have h2 : List.map sanitize MV93b = MV93 := by decide
  simp only [h2, ne_eq, not_true_eq_false, if_false]
  have e4 : ((pre ++ encId o RIFXb) ++ encS o 4 len) ++ (encId o MV93b ++ encChunks o cs)
      = (((pre ++ encId o RIFXb) ++ encS o 4 len) ++ encId o MV93b) ++ encChunks o cs := by
    simp [List.append_assoc]
  have hl2 : pre.length + 12 = (((pre ++ encId o RIFXb) ++ encS o 4 len) ++ encId o MV93b).length := by
    simp [encId_length, RIFXb, MV93b]
  rw [e4, hl2]
  exact walk_encChunks o cs hwf _

/-! ### offset lookup -/

/-- byte offset (relative to the movie start) of the chunk that follows the chunks `pre` -/
def offsetAfter (pre : List SChunk) : Nat := 12 + (pre.map chunkSpan).sum

theorem getByOffsetAux_hit (pre : List SChunk) (c : SChunk) (post : List SChunk) (s : Int) :
    getByOffsetAux ((pre ++ c :: post).map SChunk.view) s (s + ((pre.map chunkSpan).sum : Nat)) = .ok c.view := by
  induction pre generalizing s with
  | nil => simp [getByOffsetAux]
  | cons p pre ih =>
    simp only [List.cons_append, List.map_cons, getByOffsetAux, List.sum_cons]
    have hne : ¬ (s = s + ((chunkSpan p + (pre.map chunkSpan).sum : Nat) : Int)) := by
      unfold chunkSpan; omega
    simp only [hne, if_false]
    have := ih (s + 8 + (p.view.data.length : Int) + ((p.view.data.length % 2 : Nat) : Int))
    simp only [SChunk.view] at this ⊢
    rw [← this]
    congr 1
    unfold chunkSpan; push_cast; omega

theorem getByOffsetAux_miss (cs : List SChunk) (s q : Int)
    (h : ∀ pre c post, cs = pre ++ c :: post → q ≠ s + ((pre.map chunkSpan).sum : Nat)) :
    getByOffsetAux (cs.map SChunk.view) s q = .error .index := by
  induction cs generalizing s with
  | nil => simp [getByOffsetAux]
  | cons c cs ih =>
    simp only [List.map_cons, getByOffsetAux]
    have h0 := h [] c cs rfl
    simp only [List.map_nil, List.sum_nil, Int.natCast_zero, Int.add_zero] at h0
    have hne : ¬ (s = q) := fun e => h0 e.symm
    simp only [hne, if_false]
    apply ih
    intro pre c' post hcs
    have := h (c :: pre) c' post (by simp [hcs])
    simp only [List.map_cons, List.sum_cons] at this
    simp only [SChunk.view]
    intro e; apply this; rw [e]; unfold chunkSpan; push_cast; omega

end Drx.Riff

namespace Drx.Riff
open Drx

/-! ### fixed-layout records: peel fields off the front -/

theorem slice_skip (a b : List α) (i j : Nat) (h : a.length ≤ i) :
    slice (a ++ b) i j = slice b (i - a.length) (j - a.length) := by
  unfold slice
  have hd : List.drop i (a ++ b) = List.drop (i - a.length) b := by
    rw [List.drop_append, List.drop_of_length_le h]; simp
  rw [hd]; congr 1; omega

theorem getS_skip (o : Order) (k : Nat) (a b : Bytes) (off : Nat) (h : a.length ≤ off) :
    getS o k (a ++ b) off = getS o k b (off - a.length) := by
  unfold getS; rw [slice_skip _ _ _ _ h]; congr 2; omega

theorem getS_head (o : Order) (k : Nat) (hk : 0 < k) (v : Int) (rest : Bytes)
    (lo : -((2 ^ (8 * k - 1) : Nat) : Int) ≤ v) (hi : v < ((2 ^ (8 * k - 1) : Nat) : Int)) :
    getS o k (encS o k v ++ rest) 0 = .ok v := by
  unfold getS
  have : slice (encS o k v ++ rest) 0 (0 + k) = encS o k v := by simp [slice]
  rw [this]; exact unpackS_encS o k hk v lo hi

theorem getS4_head (o : Order) (v : Int) (rest : Bytes) (h : In32 v) : getS o 4 (encS o 4 v ++ rest) 0 = .ok v :=
  getS_head o 4 (by decide) v rest h.bounds.1 h.bounds.2

theorem getS2_head (o : Order) (v : Int) (rest : Bytes) (h : In16 v) : getS o 2 (encS o 2 v ++ rest) 0 = .ok v :=
  getS_head o 2 (by decide) v rest h.bounds.1 h.bounds.2

theorem parseChunkId_skip (o : Order) (a b : Bytes) (off : Nat) (h : a.length ≤ off) :
    parseChunkId (a ++ b) off o = parseChunkId b (off - a.length) o := by
  unfold parseChunkId; rw [slice_skip _ _ _ _ h]
  have : off + 4 - a.length = off - a.length + 4 := by omega
  rw [this]

theorem parseChunkId_head (o : Order) (id rest : Bytes) (h : id.length = 4) :
    parseChunkId (encId o id ++ rest) 0 o = .ok (id.map sanitize) := by
  have := parseChunkId_at [] id rest o h
  simpa using this

/-! ### imap -/

theorem parseImap_encImap (o : Order) (m : Imap) (last : Int) (h : m.WF) :
    parseImap (encImap o m last) o = .ok m := by
  obtain ⟨h1, h2, h3, h4, h5, h6⟩ := h
  unfold parseImap encImap
  simp only [List.length_append, encS_length, List.length_nil, ne_eq, not_true_eq_false, if_false,
    bind, Except.bind]
  rw [getS4_head o _ _ h1]
  simp only []
  rw [getS_skip _ _ _ _ _ (by simp), encS_length, getS4_head o _ _ h2]
  simp only []
  rw [getS_skip _ _ _ _ _ (by simp), encS_length, getS_skip _ _ _ _ _ (by simp), encS_length, getS4_head o _ _ h3]
  simp only []
  rw [getS_skip _ _ _ _ _ (by simp), encS_length, getS_skip _ _ _ _ _ (by simp), encS_length,
    getS_skip _ _ _ _ _ (by simp), encS_length, getS2_head o _ _ h4]
  simp only []
  rw [getS_skip _ _ _ _ _ (by simp), encS_length, getS_skip _ _ _ _ _ (by simp), encS_length,
    getS_skip _ _ _ _ _ (by simp), encS_length, getS_skip _ _ _ _ _ (by simp), encS_length, getS2_head o _ _ h5]
  simp only []
  rw [getS_skip _ _ _ _ _ (by simp), encS_length, getS_skip _ _ _ _ _ (by simp), encS_length,
    getS_skip _ _ _ _ _ (by simp), encS_length, getS_skip _ _ _ _ _ (by simp), encS_length,
    getS_skip _ _ _ _ _ (by simp), encS_length, getS4_head o _ _ h6]

end Drx.Riff

namespace Drx.Riff
open Drx

/-! ### mmap -/

theorem encEntry_length (o : Order) (e : SEntry) (h : e.WF) : (encEntry o e).length = 20 := by
  simp [encEntry, encId_length, h.1]

theorem parseMmapEntry_head (o : Order) (e : SEntry) (rest : Bytes) (h : e.WF) :
    parseMmapEntry (encEntry o e ++ rest) 0 o = .ok e.view := by
  obtain ⟨h0, h1, h2, h3, h4, h5⟩ := h
  unfold parseMmapEntry encEntry
  simp only [List.append_assoc, bind, Except.bind, Nat.zero_add]
  rw [parseChunkId_head o _ _ h0]
  simp only []
  rw [getS_skip _ _ _ _ _ (by simp [encId_length, h0]), encId_length, h0, getS4_head o _ _ h1]
  simp only []
  rw [getS_skip _ _ _ _ _ (by simp [encId_length, h0]), encId_length, h0,
    getS_skip _ _ _ _ _ (by simp), encS_length, getS4_head o _ _ h2]
  simp only []
  rw [getS_skip _ _ _ _ _ (by simp [encId_length, h0]), encId_length, h0,
    getS_skip _ _ _ _ _ (by simp), encS_length, getS_skip _ _ _ _ _ (by simp), encS_length, getS2_head o _ _ h3]
  simp only []
  rw [getS_skip _ _ _ _ _ (by simp [encId_length, h0]), encId_length, h0,
    getS_skip _ _ _ _ _ (by simp), encS_length, getS_skip _ _ _ _ _ (by simp), encS_length,
    getS_skip _ _ _ _ _ (by simp), encS_length, getS2_head o _ _ h4]
  simp only []
  rw [getS_skip _ _ _ _ _ (by simp [encId_length, h0]), encId_length, h0,
    getS_skip _ _ _ _ _ (by simp), encS_length, getS_skip _ _ _ _ _ (by simp), encS_length,
    getS_skip _ _ _ _ _ (by simp), encS_length, getS_skip _ _ _ _ _ (by simp), encS_length, getS4_head o _ _ h5]
  rfl

theorem parseMmapEntry_skip (o : Order) (a b : Bytes) (off : Nat) (h : a.length ≤ off) :
    parseMmapEntry (a ++ b) off o = parseMmapEntry b (off - a.length) o := by
  unfold parseMmapEntry
  rw [parseChunkId_skip _ _ _ _ h, getS_skip _ _ _ _ _ (by omega), getS_skip _ _ _ _ _ (by omega),
    getS_skip _ _ _ _ _ (by omega), getS_skip _ _ _ _ _ (by omega), getS_skip _ _ _ _ _ (by omega)]
  have e1 : off + 4 - a.length = off - a.length + 4 := by omega
  have e2 : off + 8 - a.length = off - a.length + 8 := by omega
  have e3 : off + 12 - a.length = off - a.length + 12 := by omega
  have e4 : off + 14 - a.length = off - a.length + 14 := by omega
  have e5 : off + 16 - a.length = off - a.length + 16 := by omega
  rw [e1, e2, e3, e4, e5]

theorem parseMmapEntries_enc (o : Order) (es : List SEntry) (hwf : ∀ e ∈ es, e.WF) (pre rest : Bytes) :
    parseMmapEntries (pre ++ (encEntries o es ++ rest)) o es.length pre.length = .ok (es.map SEntry.view) := by
  induction es generalizing pre with
  | nil => simp [parseMmapEntries]
  | cons e es ih =>
    have he := hwf e (by simp)
    simp only [List.length_cons, parseMmapEntries, encEntries, List.append_assoc, bind, Except.bind]
    rw [parseMmapEntry_skip _ _ _ _ (Nat.le_refl _), Nat.sub_self, parseMmapEntry_head o e _ he]
    simp only []
    have := ih (fun e' h' => hwf e' (by simp [h'])) (pre ++ encEntry o e)
    simp only [List.append_assoc, List.length_append, encEntry_length o e he] at this
    rw [this]
    simp

theorem parseMmap_encMmap (o : Order) (h : SMmapHdr) (es : List SEntry) (tail : Bytes)
    (hh : h.WF) (hn : es.length < 2 ^ 31) (hwf : ∀ e ∈ es, e.WF) :
    parseMmap (encMmap o h es tail) o =
      .ok ⟨h.propertiesSize, h.resourceSize, h.maxCount, es.length, h.firstJunk, h.oldMap, h.firstFree, es.map SEntry.view⟩ := by
  obtain ⟨h1, h2, h3, h4, h5, h6⟩ := hh
  have hcount : In32 (es.length : Int) := by constructor <;> omega
  unfold parseMmap
  have hl : (slice (encMmap o h es tail) 0 24).length = 24 := by
    simp [slice, encMmap]; omega
  simp only [hl, ne_eq, not_true_eq_false, if_false, bind, Except.bind]
  unfold encMmap
  rw [getS2_head o _ _ h1]
  simp only []
  rw [getS_skip _ _ _ _ _ (by simp), encS_length, getS2_head o _ _ h2]
  simp only []
  rw [getS_skip _ _ _ _ _ (by simp), encS_length, getS_skip _ _ _ _ _ (by simp), encS_length, getS4_head o _ _ h3]
  simp only []
  rw [getS_skip _ _ _ _ _ (by simp), encS_length, getS_skip _ _ _ _ _ (by simp), encS_length,
    getS_skip _ _ _ _ _ (by simp), encS_length, getS4_head o _ _ hcount]
  simp only []
  rw [getS_skip _ _ _ _ _ (by simp), encS_length, getS_skip _ _ _ _ _ (by simp), encS_length,
    getS_skip _ _ _ _ _ (by simp), encS_length, getS_skip _ _ _ _ _ (by simp), encS_length, getS4_head o _ _ h4]
  simp only []
  rw [getS_skip _ _ _ _ _ (by simp), encS_length, getS_skip _ _ _ _ _ (by simp), encS_length,
    getS_skip _ _ _ _ _ (by simp), encS_length, getS_skip _ _ _ _ _ (by simp), encS_length,
    getS_skip _ _ _ _ _ (by simp), encS_length, getS4_head o _ _ h5]
  simp only []
  rw [getS_skip _ _ _ _ _ (by simp), encS_length, getS_skip _ _ _ _ _ (by simp), encS_length,
    getS_skip _ _ _ _ _ (by simp), encS_length, getS_skip _ _ _ _ _ (by simp), encS_length,
    getS_skip _ _ _ _ _ (by simp), encS_length, getS_skip _ _ _ _ _ (by simp), encS_length, getS4_head o _ _ h6]
  simp only [Int.toNat_natCast]
  have e : encS o 2 h.propertiesSize ++ (encS o 2 h.resourceSize ++ (encS o 4 h.maxCount ++ (encS o 4 (es.length : Int) ++
      (encS o 4 h.firstJunk ++ (encS o 4 h.oldMap ++ (encS o 4 h.firstFree ++ (encEntries o es ++ tail)))))))
      = (encS o 2 h.propertiesSize ++ encS o 2 h.resourceSize ++ encS o 4 h.maxCount ++ encS o 4 (es.length : Int) ++
      encS o 4 h.firstJunk ++ encS o 4 h.oldMap ++ encS o 4 h.firstFree) ++ (encEntries o es ++ tail) := by
    simp [List.append_assoc]
  rw [e]
  have := parseMmapEntries_enc o es hwf (encS o 2 h.propertiesSize ++ encS o 2 h.resourceSize ++ encS o 4 h.maxCount ++
      encS o 4 (es.length : Int) ++ encS o 4 h.firstJunk ++ encS o 4 h.oldMap ++ encS o 4 h.firstFree) tail
  simp only [List.length_append, encS_length] at this
  rw [this]

end Drx.Riff

namespace Drx.Riff
open Drx

/-! ### the projector locator -/

theorem isPrefixB_iff_take (pat l : Bytes) : isPrefixB pat l = true ↔ l.take pat.length = pat := by
  induction pat generalizing l with
  | nil => simp [isPrefixB]
  | cons a as ih =>
    cases l with
    | nil => simp [isPrefixB]
    | cons b bs =>
      simp only [isPrefixB, Bool.and_eq_true, beq_iff_eq, List.length_cons, List.take_succ_cons, List.cons.injEq, ih]
      constructor
      · rintro ⟨h1, h2⟩; exact ⟨h1.symm, h2⟩
      · rintro ⟨h1, h2⟩; exact ⟨h1.symm, h2⟩

theorem findB_some_spec (pat l : Bytes) (i : Nat) (h : findB pat l = some i) :
    isPrefixB pat (l.drop i) = true ∧ ∀ j, j < i → isPrefixB pat (l.drop j) = false := by
  induction l generalizing i with
  | nil =>
    unfold findB at h
    split at h
    · simp at h; subst h
      refine ⟨?_, by intro j hj; omega⟩
      cases pat <;> simp_all [isPrefixB]
    · simp at h
  | cons b bs ih =>
    unfold findB at h
    split at h
    · simp at h; subst h
      exact ⟨by simpa, by intro j hj; omega⟩
    · rename_i hnot
      cases hf : findB pat bs with
      | none => simp [hf] at h
      | some k =>
        simp [hf] at h; subst h
        have ⟨h1, h2⟩ := ih k hf
        refine ⟨by simpa using h1, ?_⟩
        intro j hj
        cases j with
        | zero => simpa using hnot
        | succ j => simp only [List.drop_succ_cons]; exact h2 j (by omega)

theorem findB_none_spec (pat l : Bytes) (h : findB pat l = none) (hp : pat ≠ []) :
    ∀ j, isPrefixB pat (l.drop j) = false := by
  induction l with
  | nil =>
    intro j; cases pat with
    | nil => exact absurd rfl hp
    | cons a as => simp [isPrefixB]
  | cons b bs ih =>
    unfold findB at h
    split at h
    · simp at h
    · rename_i hnot
      cases hf : findB pat bs with
      | some k => simp [hf] at h
      | none =>
        intro j
        cases j with
        | zero => simpa using hnot
        | succ j => simp only [List.drop_succ_cons]; exact ih hf j

/-- if the pattern occurs at `j`, `find` returns the first occurrence, at or before `j` -/
theorem findB_of_occ (pat l : Bytes) (j : Nat) (hp : pat ≠ []) (h : isPrefixB pat (l.drop j) = true) :
    ∃ i, findB pat l = some i ∧ i ≤ j := by
  cases hf : findB pat l with
  | none => have := findB_none_spec pat l hf hp j; simp [this] at h
  | some i =>
    refine ⟨i, rfl, ?_⟩
    have ⟨_, h2⟩ := findB_some_spec pat l i hf
    by_cases hle : i ≤ j
    · exact hle
    · have := h2 j (by omega); simp [this] at h

theorem xfir_at_iff (b : Bytes) (p : Nat) : isPrefixB XFIR (b.drop p) = true ↔ slice b p (p + 4) = XFIR := by
  rw [isPrefixB_iff_take]; simp [slice, XFIR]

theorem slice_drop (b : Bytes) (p i j : Nat) : slice (b.drop p) i j = slice b (p + i) (p + j) := by
  unfold slice; rw [List.drop_drop]; congr 1; omega

theorem xfir_no_overlap (b : Bytes) (p q : Nat) (hp : isPrefixB XFIR (b.drop p) = true)
    (hq : isPrefixB XFIR (b.drop q) = true) (hlt : p < q) : p + 4 ≤ q := by
  rw [isPrefixB_iff_take] at hp hq
  by_cases h : p + 4 ≤ q
  · exact h
  · exfalso
    have hq' : q = p + 1 ∨ q = p + 2 ∨ q = p + 3 := by omega
    have hdp : b.drop p = XFIR ++ (b.drop p).drop 4 := by
      conv => lhs; rw [← List.take_append_drop 4 (b.drop p)]
      have : XFIR.length = 4 := rfl
      rw [this] at hp; rw [hp]
    have hl : XFIR.length = 4 := rfl
    rw [hl] at hq
    rcases hq' with rfl | rfl | rfl
    · have e : b.drop (p + 1) = (b.drop p).drop 1 := by rw [List.drop_drop]
      rw [e, hdp] at hq; simp [XFIR] at hq
    · have e : b.drop (p + 2) = (b.drop p).drop 2 := by rw [List.drop_drop]
      rw [e, hdp] at hq; simp [XFIR] at hq
    · have e : b.drop (p + 3) = (b.drop p).drop 3 := by rw [List.drop_drop]
      rw [e, hdp] at hq; simp [XFIR] at hq

theorem locate_aux (b : Bytes) (p : Nat) (hg : Genuine b p) (hmin : ∀ q, q < p → ¬ Genuine b q) :
    ∀ n k, p - k = n → k ≤ p → locate (b.drop k) k = p := by
  intro n
  induction n using Nat.strongRecOn with
  | _ n ih =>
    intro k hn hk
    have hocc : isPrefixB XFIR ((b.drop k).drop (p - k)) = true := by
      rw [List.drop_drop, show k + (p - k) = p by omega]; exact (xfir_at_iff b p).2 hg.1
    obtain ⟨i, hfi, hile⟩ := findB_of_occ XFIR (b.drop k) (p - k) (by decide) hocc
    have ⟨hi1, _⟩ := findB_some_spec XFIR (b.drop k) i hfi
    rw [List.drop_drop] at hi1
    rw [locate]
    split
    · rename_i hnone; rw [hnone] at hfi; cases hfi
    · rename_i idx hsome
      rw [hsome] at hfi; cases hfi
      simp only [List.drop_drop, slice_drop]
      by_cases heq : k + i = p
      · have : slice b (k + i + 8) (k + i + 12) = VM39 := by rw [heq]; exact hg.2
        simp only [this, if_true]; exact heq
      · have hlt : k + i < p := by omega
        have hng := hmin (k + i) hlt
        have hnv : ¬ slice b (k + i + 8) (k + i + 12) = VM39 := by
          intro hv; exact hng ⟨(xfir_at_iff b _).1 hi1, hv⟩
        simp only [hnv, if_false]
        have h4 : k + i + 4 ≤ p := xfir_no_overlap b (k + i) p hi1 ((xfir_at_iff b p).2 hg.1) hlt
        exact ih (p - (k + i + 4)) (by omega) (k + i + 4) rfl h4

theorem findRiffInExe_first_genuine (b : Bytes) (p : Nat) (hg : Genuine b p) (hmin : ∀ q, q < p → ¬ Genuine b q) :
    findRiffInExe b = p := by
  have := locate_aux b p hg hmin (p - 0) 0 rfl (Nat.zero_le _)
  simpa [findRiffInExe] using this

end Drx.Riff

namespace Drx.Riff
open Drx Drx.Layout

/-! ### hand-written readers = generic reader over the layouts regenerated from the source -/

theorem parseMmapEntry_eq_layout (d : Bytes) (off : Nat) (o : Order) :
    parseMmapEntry d off o =
      (match parseChunkId d off o with
       | .error e => .error e
       | .ok id =>
         match readLayout o d off Gen.RiffLayouts.mmapEntry with
         | .ok [size, offs, flag, unus, nxt] => .ok ⟨id, size, offs, flag, unus, nxt⟩
         | .ok _ => .error .other
         | .error e => .error e) := by
  unfold parseMmapEntry
  simp only [Gen.RiffLayouts.mmapEntry, readLayout, readField, if_true, bind, Except.bind]
  cases parseChunkId d off o with
  | error e => rfl
  | ok id =>
    simp only []
    cases getS o 4 d (off + 4) with
    | error e => rfl
    | ok a =>
      simp only []
      cases getS o 4 d (off + 8) with
      | error e => rfl
      | ok b =>
        simp only []
        cases getS o 2 d (off + 12) with
        | error e => rfl
        | ok c =>
          simp only []
          cases getS o 2 d (off + 14) with
          | error e => rfl
          | ok e' =>
            simp only []
            cases getS o 4 d (off + 16) with
            | error e => rfl
            | ok f => rfl

theorem getS_ok_of_length (o : Order) (k : Nat) (d : Bytes) (off : Nat) (h : off + k ≤ d.length) :
    ∃ v, getS o k d off = .ok v := by
  unfold getS unpackS
  have : (slice d off (off + k)).length = k := by simp [slice]; omega
  simp [this]

theorem parseImap_eq_layout (d : Bytes) (o : Order) :
    parseImap d o =
      (if d.length ≠ 24 then .error .struct else
       match readLayout o d 0 Gen.RiffLayouts.imap with
       | .ok [a, b, c, e, f, g, _] => .ok ⟨a, b, c, e, f, g⟩
       | .ok _ => .error .other
       | .error e => .error e) := by
  unfold parseImap
  by_cases hl : d.length = 24
  · simp only [hl, ne_eq, not_true_eq_false, if_false]
    simp only [Gen.RiffLayouts.imap, readLayout, readField, if_true, bind, Except.bind, Nat.zero_add]
    obtain ⟨v7, h7⟩ := getS_ok_of_length o 4 d 20 (by omega)
    cases getS o 4 d 0 with
    | error e => rfl
    | ok a =>
      simp only []
      cases getS o 4 d 4 with
      | error e => rfl
      | ok b =>
        simp only []
        cases getS o 4 d 8 with
        | error e => rfl
        | ok c =>
          simp only []
          cases getS o 2 d 12 with
          | error e => rfl
          | ok e' =>
            simp only []
            cases getS o 2 d 14 with
            | error e => rfl
            | ok f =>
              simp only []
              cases getS o 4 d 16 with
              | error e => rfl
              | ok g => simp only [h7]
  · simp [hl]

end Drx.Riff

namespace Drx.Riff
open Drx Drx.Layout

theorem parseMmap_eq_layout (d : Bytes) (o : Order) :
    parseMmap d o =
      (if (slice d 0 24).length ≠ 24 then .error .struct else
       match readLayout o d 0 Gen.RiffLayouts.mmapHeader with
       | .ok [a, b, c, u, j, om, ff] =>
         (match parseMmapEntries d o u.toNat 24 with
          | .ok rs => .ok ⟨a, b, c, u, j, om, ff, rs⟩
          | .error e => .error e)
       | .ok _ => .error .other
       | .error e => .error e) := by
  unfold parseMmap
  by_cases hl : (slice d 0 24).length = 24
  · simp only [hl, ne_eq, not_true_eq_false, if_false]
    simp only [Gen.RiffLayouts.mmapHeader, readLayout, readField, if_true, bind, Except.bind, Nat.zero_add]
    cases getS o 2 d 0 with
    | error e => rfl
    | ok a =>
      simp only []
      cases getS o 2 d 2 with
      | error e => rfl
      | ok b =>
        simp only []
        cases getS o 4 d 4 with
        | error e => rfl
        | ok c =>
          simp only []
          cases getS o 4 d 8 with
          | error e => rfl
          | ok u =>
            simp only []
            cases getS o 4 d 12 with
            | error e => rfl
            | ok j =>
              simp only []
              cases getS o 4 d 16 with
              | error e => rfl
              | ok om =>
                simp only []
                cases getS o 4 d 20 with
                | error e => rfl
                | ok ff =>
                  simp only []
                  cases parseMmapEntries d o u.toNat 24 <;> rfl
  · simp [hl]

end Drx.Riff
