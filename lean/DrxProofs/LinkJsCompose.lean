/-
  Composition with agent-link's chain (compile → bytes → model parse → tree related to the source by `ScriptRel`):
  the JavaScript the model emits for the compiled chunks reads as `toJs s`.
-/
import DrxProofs.LinkJsClass
import DrxProofs.LinkParse
namespace Drx.LinkJs
open Drx Drx.Lscr Drx.Gen Drx.Spec Drx.Link
set_option linter.unusedSimpArgs false
set_option linter.unusedVariables false

theorem leaves_bridge {cls : Leaf} {ns : List Str} {l : List Node} (h : Link.Leaves cls ns l) : LinkJs.Leaves cls ns l := by
  unfold Link.Leaves at h
  induction h with
  | nil => exact Leaves.nil
  | cons hx _ ih => exact Leaves.cons hx ih

/-- agent-link's statement relation (with `with_result` tracked) gives the one the JavaScript theorems use -/
theorem embSH_J (hs : List Spec.Name) (s : Stmt) (n : Node) (h : EmbSH hs s n) : EmbSJ hs s n := by
  cases s with
  | set lv v => obtain ⟨p, q, l, r, rfl, hl, hr⟩ := h; exact ⟨p, q, l, r, rfl, hl, EmbH.toEmb hs v r hr⟩
  | call f as => obtain ⟨p, q, q', ops, rfl, hops⟩ := h; exact ⟨p, q, q', ops, rfl, EmbLH.toEmbL hs as ops hops⟩
  | exit => exact h
  | put m v lv => obtain ⟨p, q, l, r, rfl, hl, hr⟩ := h; exact ⟨p, q, l, r, rfl, hl, EmbH.toEmb hs v r hr⟩
  | mcall o m as =>
    obtain ⟨p, q, q', ps, rc, ops, nm, hnm, rfl, hops, hrc⟩ := h
    exact ⟨p, q, q', ps, rc, ops, nm, hnm, rfl, EmbLH.toEmbL hs as ops hops, hrc⟩
  | _ => first | (simp [EmbSH] at h; done) | (simp only [EmbSJ]; exact h)

theorem embSsH_J (hs : List Spec.Name) : ∀ (ss : List Stmt) (ns : List Node), EmbSsH hs ss ns → EmbSsJ hs ss ns
  | [], _, h => h
  | s :: ss, _, h => by
    obtain ⟨x, xs, rfl, hx, hxs⟩ := h
    exact ⟨x, xs, rfl, embSH_J hs s x hx, embSsH_J hs ss xs hxs⟩

theorem funcRel_J (hs G : List Spec.Name) (h : Handler) (f : FuncDef) (hr : FuncRel hs G h f) : FuncRelJ hs h f := by
  obtain ⟨ns, p, q, hst, hemb⟩ := hr.stmts
  exact ⟨hr.name, leaves_bridge hr.params, leaves_bridge hr.locals, ns, p, q, hst, embSsH_J hs h.body ns hemb⟩

theorem all2_rel2 (hs G : List Spec.Name) {hl : List Handler} {fs : List FuncDef} (h : All2 (FuncRel hs G) hl fs) :
    Rel2 (FuncRelJ hs) hl fs := by
  induction h with
  | nil => exact Rel2.nil
  | cons hx _ ih => exact Rel2.cons (funcRel_J _ _ _ _ hx) ih

theorem scriptRel_J (s : Spec.Script) (t : Lscr.Script) (hr : ScriptRel s t) : ScriptRelJ s t :=
  ⟨hr.props, hr.fac, all2_rel2 _ _ hr.funcs⟩

theorem toSigned16_small (n : Nat) (h : n < 32768) : toSigned 16 (n % 65536) = (n : Int) := by
  have e : n % 65536 = n := Nat.mod_eq_of_lt (by omega)
  rw [e]
  unfold toSigned
  have : n < 2 ^ (16 - 1) := by simpa using h
  simp only [this, if_true]

/-- **C04 on the fragment, model-instantiated**: for every source script of the fragment (plain scripts and property scripts) and
    every successful compilation, the model parses the chunks and its `generate_js_code` returns a text that the reader of the
    JavaScript subset reads as exactly the tree `toJs` assigns to the source -/
theorem js_link (o : Options) (s : Spec.Script) (c : Compiled) (hf : JsLinkScript s = true) (hnum : o.scrNum < 32768)
    (hcmp : compile o s = .ok c) (hasc : ∀ n ∈ c.names, asciiName n = true) (hlen : c.names.length < 32768) :
    ∃ text, modelGenJs c.lscr c.lnam = some text ∧ readJs text = some (toJs o.scrNum s) := by
  simp only [JsLinkScript, Bool.and_eq_true] at hf
  obtain ⟨hfrag, hok⟩ := hf
  obtain ⟨t, hp, hr, hsn⟩ := parse_link o s c hfrag hcmp hasc hlen
  have hfac : s.factory = [] := by
    have := hfrag; simp only [FragScript, Bool.and_eq_true, List.isEmpty_iff] at this; exact this.1.1.1
  have hres : ∃ text, jsText t = .ok text ∧ readJs text = some (toJs o.scrNum s) := by
    by_cases hprops : s.props = []
    · exact jsText_plain o.scrNum s t (scriptRel_J s t hr) hfac hprops hok
    · exact jsText_class o.scrNum s t (scriptRel_J s t hr) hfac hprops hok (by rw [hsn, toSigned16_small _ hnum])
  obtain ⟨text, h1, h2⟩ := hres
  refine ⟨text, ?_, h2⟩
  simp only [modelGenJs, hp, genJs, h1]

end Drx.LinkJs
