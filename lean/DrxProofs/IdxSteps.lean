/-
  Bounds for the counting twins of Drx/IdxSteps.lean (C10 support): a round that completes has consumed input, so the number
  of rounds is linear in the input length whatever counts the input declares.
-/
import Drx.IdxSteps
import DrxProofs.Py
import DrxProofs.Fields
namespace Drx
open Drx.Idx Drx.IdxSteps

/-! ### a successful read lies inside the data -/

theorem slice_length (d : List α) (a b : Nat) : (slice d a b).length = min (b - a) (d.length - a) := by
  simp [slice, List.length_take, List.length_drop]

theorem getS_ok_le {o : Order} {k : Nat} {d : Bytes} {i : Nat} {v : Int} (hk : 0 < k) (h : getS o k d i = .ok v) : i + k ≤ d.length := by
  unfold getS unpackS at h
  split at h
  · rename_i hl
    rw [slice_length] at hl
    omega
  · cases h

theorem getU_ok_le {o : Order} {k : Nat} {d : Bytes} {i : Nat} {v : Nat} (hk : 0 < k) (h : getU o k d i = .ok v) : i + k ≤ d.length := by
  unfold getU unpackU at h
  split at h
  · rename_i hl
    rw [slice_length] at hl
    omega
  · cases h

theorem byteAt_ok_lt {d : Bytes} {i : Nat} {b : UInt8} (h : byteAt d i = .ok b) : i < d.length := by
  unfold byteAt at h
  rcases Nat.lt_or_ge i d.length with hl | hl
  · exact hl
  · rw [List.getElem?_eq_none hl] at h; cases h

theorem parseChunkId_ok_le {d : Bytes} {pos : Nat} {o : Order} {id : List Char} (h : Riff.parseChunkId d pos o = .ok id) :
    pos + 4 ≤ d.length := by
  unfold Riff.parseChunkId at h
  simp only at h
  split at h
  · rename_i hl
    rw [slice_length] at hl
    omega
  · cases h

theorem pySlice_length (d : List α) (a b : Int) :
    (pySlice d a b).length =
      min ((if b < 0 then max (b + d.length) 0 else min b d.length).toNat - (if a < 0 then max (a + d.length) 0 else min a d.length).toNat)
          (d.length - (if a < 0 then max (a + d.length) 0 else min a d.length).toNat) := by
  simp [pySlice, List.length_take, List.length_drop]

theorem pySlice_length_le (d : List α) (a b : Int) : (pySlice d a b).length ≤ d.length := by
  rw [pySlice_length]; omega

/-- a k-byte field read at an integer position succeeds only inside `-len ≤ i` and `i + k ≤ len` -/
theorem pySlice_field {d : List α} {i : Int} {k : Nat} (hk : 0 < k) (h : (pySlice d i (i + k)).length = k) :
    -(d.length : Int) ≤ i ∧ i + k ≤ d.length := by
  rw [pySlice_length] at h
  by_cases h1 : i < 0 <;> by_cases h2 : i + (k : Int) < 0 <;> simp only [h1, h2, if_true, if_false] at h <;> omega

theorem getSI_ok_range {o : Order} {k : Nat} {d : Bytes} {i : Int} {v : Int} (hk : 0 < k) (h : getSI o k d i = .ok v) :
    -(d.length : Int) ≤ i ∧ i + k ≤ d.length := by
  unfold getSI unpackS at h
  split at h
  · rename_i hl; exact pySlice_field hk hl
  · cases h

theorem getUI_ok_range {o : Order} {k : Nat} {d : Bytes} {i : Int} {v : Nat} (hk : 0 < k) (h : getUI o k d i = .ok v) :
    -(d.length : Int) ≤ i ∧ i + k ≤ d.length := by
  unfold getUI unpackU at h
  split at h
  · rename_i hl; exact pySlice_field hk hl
  · cases h

theorem byteAtI_ok_range {d : Bytes} {i : Int} {b : UInt8} (h : byteAtI d i = .ok b) : -(d.length : Int) ≤ i ∧ i < d.length := by
  unfold byteAtI at h
  by_cases hi : i < 0
  · simp only [hi, ↓reduceIte] at h
    by_cases hj : i + (d.length : Int) < 0
    · simp [hj] at h
    · simp only [hj, ↓reduceIte] at h
      have := byteAt_ok_lt h
      omega
  · simp only [hi, ↓reduceIte] at h
    have := byteAt_ok_lt h
    omega

/-! ### key, cas -/

theorem keySteps_bound (o : Order) (d : Bytes) (n indx : Nat) : 12 * keySteps o d n indx ≤ (d.length - indx) + 12 := by
  induction n generalizing indx with
  | zero => simp [keySteps]
  | succ n ih =>
    unfold keySteps
    split
    · rename_i h1 h2 h3
      have := parseChunkId_ok_le h3
      have := ih (indx + 12)
      omega
    · omega

theorem parseKeySteps_bound (o : Order) (d : Bytes) : 12 * parseKeySteps o d ≤ d.length + 12 := by
  unfold parseKeySteps
  split
  · have := keySteps_bound o d (‹Int› - 1).toNat 12; omega
  · omega

theorem casSteps_bound (d : Bytes) (i : Nat) : 4 * casSteps d i ≤ d.length - i := by
  fun_induction casSteps d i with
  | case1 i h e he => omega
  | case2 i h v hv ih => omega
  | case3 i h => omega

/-! ### lctx -/

/-- what is left of the data when reading from integer position `i` (positions before `-len` cannot be read at all) -/
def leftFrom (d : Bytes) (i : Int) : Nat := if -(d.length : Int) ≤ i then ((d.length : Int) - i).toNat else 0

theorem leftFrom_le (d : Bytes) (i : Int) : leftFrom d i ≤ 2 * d.length := by
  unfold leftFrom; split <;> omega

theorem lctxSteps_bound (d : Bytes) (n : Nat) (indx : Int) : 12 * lctxSteps d n indx ≤ leftFrom d indx + 12 := by
  induction n generalizing indx with
  | zero => simp [lctxSteps]
  | succ n ih =>
    unfold lctxSteps
    split
    · rename_i h1 h2 h3
      have a := getUI_ok_range (by decide) h1
      have c := getSI_ok_range (by decide) h3
      have := ih (indx + 12)
      have hlo : -(d.length : Int) ≤ indx := a.1
      have hlo' : -(d.length : Int) ≤ indx + 12 := by omega
      unfold leftFrom at this ⊢
      simp only [hlo, hlo', if_true] at this ⊢
      omega
    · omega

/-! ### lnam -/

theorem lnamSteps_bound (dec : Dec) (d : Bytes) (n indx : Nat) :
    (lnamSteps dec d n indx).1 ≤ (d.length - indx) + 1 ∧ (lnamSteps dec d n indx).2 ≤ d.length - indx := by
  induction n generalizing indx with
  | zero => simp [lnamSteps]
  | succ n ih =>
    unfold lnamSteps
    split
    · simp
    · rename_i nb hb
      have hlt := byteAt_ok_lt hb
      simp only
      have hsl : (slice d (indx + 1) (indx + 1 + nb.toNat)).length ≤ d.length - (indx + 1) := by rw [slice_length]; omega
      have hsl2 : (slice d (indx + 1) (indx + 1 + nb.toNat)).length ≤ nb.toNat := by rw [slice_length]; omega
      split
      · simp only; omega
      · have := ih (indx + 1 + nb.toNat)
        simp only
        omega

/-! ### vwlb -/

theorem vwlbSteps_rounds (dec : Dec) (d : Bytes) (m n indx : Nat) : 4 * (vwlbSteps dec d m n indx).1 ≤ (d.length - indx) + 4 := by
  induction n generalizing indx with
  | zero => simp [vwlbSteps]
  | succ n ih =>
    unfold vwlbSteps
    split
    · rename_i h1 h2 h3
      have := getU_ok_le (by decide) h3
      split
      · simp only; omega
      · simp only
        split
        · simp only; omega
        · have := ih (indx + 4)
          simp only
          omega
    · simp only; omega

/-- the labels are consecutive pieces of the data: together they are no longer than what lies behind the first one -/
theorem vwlbSteps_bytes (dec : Dec) (d : Bytes) (m n indx : Nat) :
    (∀ e, getU .be 2 d (indx + 2) = .error e → (vwlbSteps dec d m n indx).2 = 0) ∧
    (∀ s, getU .be 2 d (indx + 2) = .ok s → (vwlbSteps dec d m n indx).2 ≤ d.length - min d.length (m + s)) := by
  induction n generalizing indx with
  | zero => simp [vwlbSteps]
  | succ n ih =>
    unfold vwlbSteps
    constructor
    · intro e he
      rw [he]
      split <;> simp_all
    · intro s hs
      rw [hs]
      split
      · rename_i fr s' en h1 h2 h3
        have hss : s' = s := by cases h2; rfl
        subst hss
        split
        · simp
        · rename_i hmono
          have hsl : (slice d (m + s') (m + en)).length = min (en - s') (d.length - (m + s')) := by rw [slice_length]; congr 1; omega
          simp only
          split
          · simp only; rw [hsl]; omega
          · have hnext : getU Order.be 2 d (indx + 4 + 2) = .ok en := by
              have : indx + 4 + 2 = indx + 6 := by omega
              rw [this]; exact h3
            have := (ih (indx + 4)).2 en hnext
            simp only
            rw [hsl]
            omega
      · simp

/-! ### stxt -/

theorem runReads_range {d : Bytes} {idx : Int} (h : runReads d idx = true) : -(d.length : Int) ≤ idx ∧ idx + 20 ≤ d.length := by
  unfold runReads at h
  simp only [Bool.and_eq_true] at h
  obtain ⟨⟨⟨⟨⟨⟨⟨⟨⟨⟨⟨⟨⟨h0, _⟩, _⟩, _⟩, _⟩, _⟩, _⟩, _⟩, _⟩, _⟩, _⟩, _⟩, _⟩, h19⟩ := h
  cases ha : getSI Order.be 2 d idx with
  | error e => simp [ha, Except.toBool] at h0
  | ok v =>
    cases hb : byteAtI d (idx + 19) with
    | error e => simp [hb, Except.toBool] at h19
    | ok b =>
      have := getSI_ok_range (by decide) ha
      have := byteAtI_ok_range hb
      omega

theorem runSteps_bound (nf : Nat) (d : Bytes) (n : Nat) (idx : Int) :
    20 * (runSteps nf d n idx).1 ≤ leftFrom d idx + 20 ∧ (runSteps nf d n idx).2 ≤ nf * (runSteps nf d n idx).1 := by
  induction n generalizing idx with
  | zero => simp [runSteps]
  | succ n ih =>
    unfold runSteps
    split
    · rename_i h
      have hr := runReads_range h
      have := ih (idx + 20)
      have hlo : -(d.length : Int) ≤ idx := hr.1
      have hlo' : -(d.length : Int) ≤ idx + 20 := by omega
      unfold leftFrom at this ⊢
      simp only [hlo, hlo', if_true] at this ⊢
      refine ⟨by omega, ?_⟩
      rw [Nat.mul_add]
      omega
    · simp only
      refine ⟨by omega, ?_⟩
      split <;> simp

/-! ### fmap -/

theorem metaSteps_bound (hd : Bytes) (n idx : Nat) : 8 * metaSteps hd n idx ≤ (hd.length - idx) + 8 := by
  induction n generalizing idx with
  | zero => simp [metaSteps]
  | succ n ih =>
    unfold metaSteps
    split
    · rename_i h1 h2 h3
      have := getS_ok_le (by decide) h3
      have := ih (idx + 8)
      omega
    · omega

theorem metaLoop_ok (hd : Bytes) (n idx : Nat) (l : List (Int × Int)) (h : Fmap.metaLoop hd n idx = .ok l) :
    l.length = n ∧ 8 * n ≤ hd.length - idx := by
  induction n generalizing idx l with
  | zero => simp [Fmap.metaLoop] at h; subst h; simp
  | succ n ih =>
    unfold Fmap.metaLoop at h
    cases h1 : getS Order.be 4 hd idx with
    | error e => simp [h1, bind, Except.bind] at h
    | ok a =>
      cases h2 : getS Order.be 2 hd (idx + 4) with
      | error e => simp [h1, h2, bind, Except.bind] at h
      | ok b =>
        cases h3 : getS Order.be 2 hd (idx + 6) with
        | error e => simp [h1, h2, h3, bind, Except.bind] at h
        | ok c =>
          cases h4 : Fmap.metaLoop hd n (idx + 8) with
          | error e => simp [h1, h2, h3, h4, bind, Except.bind] at h
          | ok r =>
            simp only [h1, h2, h3, h4, bind, Except.bind, Except.ok.injEq] at h
            subst h
            have := ih (idx + 8) r h4
            have := getS_ok_le (by decide) h3
            simp only [List.length_cons]
            omega

theorem fontSteps_bound (dec : Fmap.Dec) (bd : Bytes) (n : Nat) (ms : List (Int × Int)) (acc : Nat) (hacc : acc ≤ bd.length) :
    (fontSteps dec bd n ms acc).1 ≤ ms.length + 1 ∧ (fontSteps dec bd n ms acc).2 ≤ (bd.length - acc) + bd.length := by
  induction n generalizing ms acc with
  | zero => simp [fontSteps]
  | succ n ih =>
    cases ms with
    | nil => simp [fontSteps]
    | cons m ms =>
      obtain ⟨disp, fid⟩ := m
      unfold fontSteps
      split
      · simp
      · rename_i nchars hn
        have hL := pySlice_length_le bd (disp + 4) (disp + 4 + nchars)
        simp only
        split
        · simp only [List.length_cons]; omega
        · rename_i hfit
          split
          · simp only [List.length_cons]; omega
          · have := ih ms (acc + (pySlice bd (disp + 4) (disp + 4 + nchars)).length) (by omega)
            simp only [List.length_cons]
            omega

/-! ### whole readers -/

theorem parseCasSteps_bound (d : Bytes) : 4 * parseCasSteps d ≤ d.length := by
  have := casSteps_bound d 0; unfold parseCasSteps; omega

theorem lctxSteps_linear (d : Bytes) (n : Nat) (indx : Int) : 12 * lctxSteps d n indx ≤ 2 * d.length + 12 := by
  have := lctxSteps_bound d n indx
  have := leftFrom_le d indx
  omega

theorem parseLctxSteps_bound (d : Bytes) : 12 * parseLctxSteps d ≤ 2 * d.length + 12 := by
  unfold parseLctxSteps
  split
  · exact lctxSteps_linear d _ _
  · omega

theorem lnamSteps_linear (dec : Dec) (d : Bytes) (n : Nat) :
    (lnamSteps dec d n 20).1 ≤ d.length + 1 ∧ (lnamSteps dec d n 20).2 ≤ d.length := by
  have := lnamSteps_bound dec d n 20; omega

theorem parseLnamSteps_bound (dec : Dec) (d : Bytes) : (parseLnamSteps dec d).1 ≤ d.length + 1 ∧ (parseLnamSteps dec d).2 ≤ d.length := by
  unfold parseLnamSteps
  split
  · split
    · simp
    · exact lnamSteps_linear dec d _
  · simp

theorem parseVwlbSteps_bound (dec : Dec) (d : Bytes) : 4 * (parseVwlbSteps dec d).1 ≤ d.length + 4 ∧ (parseVwlbSteps dec d).2 ≤ d.length := by
  unfold parseVwlbSteps
  split
  · rename_i n _
    have r := vwlbSteps_rounds dec d (2 + 4 * (n + 1)).toNat n.toNat 2
    have b := vwlbSteps_bytes dec d (2 + 4 * (n + 1)).toNat n.toNat 2
    refine ⟨by omega, ?_⟩
    cases h : getU Order.be 2 d (2 + 2) with
    | error e => rw [b.1 e h]; omega
    | ok s => have := b.2 s h; omega
  · simp

theorem runSteps_linear (nf : Nat) (d : Bytes) (n : Nat) (idx : Int) :
    20 * (runSteps nf d n idx).1 ≤ 2 * d.length + 20 ∧ (runSteps nf d n idx).2 ≤ nf * (runSteps nf d n idx).1 := by
  have := runSteps_bound nf d n idx
  have := leftFrom_le d idx
  omega

theorem parseStxtSteps_bound (dec : Fmap.Dec) (nf : Nat) (d : Bytes) :
    20 * (parseStxtSteps dec nf d).1 ≤ 2 * d.length + 20 ∧ (parseStxtSteps dec nf d).2 ≤ nf * (parseStxtSteps dec nf d).1 := by
  unfold parseStxtSteps
  split
  · split
    · simp
    · split
      · exact runSteps_linear nf d _ _
      · simp
  · simp

/-- the two loops of the font map on arbitrary header / name areas no longer than `L` -/
theorem fmapLoops_bound (dec : Fmap.Dec) (hd bd : Bytes) (nfonts cap L : Nat) (hh : hd.length ≤ L) (hb : bd.length ≤ L) :
    8 * (match Fmap.metaLoop hd cap 28 with
         | .error _ => (metaSteps hd cap 28, 0)
         | .ok metadata => (metaSteps hd cap 28 + (fontSteps dec bd nfonts metadata 0).1, (fontSteps dec bd nfonts metadata 0).2)).1
      ≤ 2 * L + 16 ∧
    (match Fmap.metaLoop hd cap 28 with
         | .error _ => (metaSteps hd cap 28, 0)
         | .ok metadata => (metaSteps hd cap 28 + (fontSteps dec bd nfonts metadata 0).1, (fontSteps dec bd nfonts metadata 0).2)).2
      ≤ 2 * L := by
  have hm := metaSteps_bound hd cap 28
  split
  · simp only; omega
  · rename_i metadata hmeta
    have hk := metaLoop_ok _ _ _ _ hmeta
    have hf := fontSteps_bound dec bd nfonts metadata 0 (Nat.zero_le _)
    simp only
    omega

theorem parseFmapSteps_bound (dec : Fmap.Dec) (d : Bytes) :
    8 * (parseFmapSteps dec d).1 ≤ 2 * d.length + 16 ∧ (parseFmapSteps dec d).2 ≤ 2 * d.length := by
  unfold parseFmapSteps
  split
  · split
    · simp
    · simp only
      split
      · exact fmapLoops_bound dec _ _ _ _ d.length (pySlice_length_le d _ _) (pySlice_length_le d _ _)
      · simp
  · simp

end Drx
