/-
  C06: the BMP reader applied to "header ++ rows ++ surplus", and the header fields the decoders write.
-/
import DrxProofs.BitdHdr
namespace Drx.Bitd
open Drx Drx.Bitd.Spec

theorem slice_append_of_le {α : Type} (a b : List α) (i j : Nat) (h : j ≤ a.length) : slice (a ++ b) i j = slice a i j := by
  unfold slice
  rw [List.drop_append]
  by_cases hi : i ≤ a.length
  · have : i - a.length = 0 := by omega
    rw [this, List.drop_zero, List.take_append]
    have : j - i - (a.drop i).length = 0 := by simp [List.length_drop]; omega
    rw [this]; simp
  · have h1 : j - i = 0 := by omega
    rw [h1]; simp

theorem leField_append (a b : Bytes) (off k : Nat) (h : off + k ≤ a.length) : leField (a ++ b) off k = leField a off k := by
  unfold leField
  rw [slice_append_of_le a b off (off + k) h]

theorem takeRows_flatten (stride : Nat) (extra : Bytes) :
    ∀ (rows : List Bytes), (∀ r ∈ rows, r.length = stride) → takeRows stride rows.length (rows.flatten ++ extra) = some rows := by
  intro rows
  induction rows with
  | nil => intro _; rfl
  | cons r rs ih =>
    intro hl
    have hr : r.length = stride := hl r (by simp)
    simp only [List.length_cons, List.flatten_cons, List.append_assoc]
    unfold takeRows
    have h1 : ¬ ((r ++ (rs.flatten ++ extra)).length < stride) := by simp; omega
    simp only [h1, if_false]
    have h2 : (r ++ (rs.flatten ++ extra)).drop stride = rs.flatten ++ extra := by
      rw [← hr]; simp
    have h3 : (r ++ (rs.flatten ++ extra)).take stride = r := by
      rw [← hr]; simp
    rw [h2, ih (fun r' h => hl r' (by simp [h])), h3]

/-- a BMP whose header fields say (offset = header length, W, H, 1 plane, bpp) followed by `H` rows of the aligned
    stride (and anything after them) reads as those rows, last row first -/
theorem readBmp_rows (hdr : Bytes) (W H bpp : Nat) (rows : List Bytes) (extra : Bytes)
    (h54 : 54 ≤ hdr.length) (hBM : slice hdr 0 2 = [0x42, 0x4D])
    (hoff : leField hdr 10 4 = some hdr.length) (hw : leField hdr 18 4 = some W) (hh : leField hdr 22 4 = some H)
    (hpl : leField hdr 26 2 = some 1) (hbpp : leField hdr 28 2 = some bpp)
    (hW : W < 2147483648) (hH : H < 2147483648) (hb : bpp = 8 ∨ bpp = 16 ∨ bpp = 24)
    (hrows : rows.length = H) (hl : ∀ r ∈ rows, r.length = (W * bpp + 31) / 32 * 4) :
    readBmp (hdr ++ rows.flatten ++ extra) = some (rows.reverse.map fun r => pixelsOf (bpp / 8) W r) := by
  unfold readBmp
  have hlen : ¬ ((hdr ++ rows.flatten ++ extra).length < 54 ∨ slice (hdr ++ rows.flatten ++ extra) 0 2 ≠ [0x42, 0x4D]) := by
    rw [List.append_assoc, slice_append_of_le _ _ _ _ (by omega), hBM]
    simp; omega
  rw [if_neg hlen]
  rw [List.append_assoc, leField_append _ _ 10 4 (by omega), leField_append _ _ 18 4 (by omega),
    leField_append _ _ 22 4 (by omega), leField_append _ _ 26 2 (by omega), leField_append _ _ 28 2 (by omega),
    hoff, hw, hh, hpl, hbpp]
  simp only
  have hc : ¬ (W ≥ 2147483648 ∨ H ≥ 2147483648 ∨ 1 ≠ 1 ∨ ¬ (bpp = 8 ∨ bpp = 16 ∨ bpp = 24)) := by
    simp; omega
  rw [if_neg hc]
  have hd : (hdr ++ (rows.flatten ++ extra)).drop hdr.length = rows.flatten ++ extra := by simp
  rw [hd, ← hrows, takeRows_flatten _ extra rows hl]

/-! ### the fields of the headers the decoders write -/

theorem leNat_encS_nat (k n : Nat) (h : n < 256 ^ k) : leNat (encS .le k (n : Int)) = n := by
  unfold encS
  have e : ofSigned (8 * k) (n : Int) = n := by
    unfold ofSigned
    have hp : (2 ^ (8 * k) : Nat) = 256 ^ k := by rw [pow256]
    rw [hp]
    have : ((n : Int) % ((256 ^ k : Nat) : Int)) = (n : Int) := Int.emod_eq_of_lt (by omega) (by omega)
    rw [this]; simp
  rw [e]
  exact ordNat_encOrd_of_lt .le k n h

theorem leField_drop (A B : Bytes) (off k : Nat) (h : A.length = off) : leField (A ++ B) off k = leField B 0 k := by
  unfold leField slice
  subst h
  simp

theorem leField_head (x post : Bytes) (k : Nat) (h : x.length = k) : leField (x ++ post) 0 k = some (leNat x) := by
  unfold leField slice
  subst h
  simp

/-- the fields a reader uses, in `file header ++ 40-byte info header ++ anything` -/
theorem hdr40_fields (size : Int) (off W H bpp nc : Nat) (rest : Bytes)
    (hoff : off < 2147483648) (hW : W < 2147483648) (hH : H < 2147483648) (hb : bpp < 32768) :
    slice (fileHdr size (off : Int) ++ (info40 W H bpp nc ++ rest)) 0 2 = [0x42, 0x4D] ∧
    leField (fileHdr size (off : Int) ++ (info40 W H bpp nc ++ rest)) 10 4 = some off ∧
    leField (fileHdr size (off : Int) ++ (info40 W H bpp nc ++ rest)) 18 4 = some W ∧
    leField (fileHdr size (off : Int) ++ (info40 W H bpp nc ++ rest)) 22 4 = some H ∧
    leField (fileHdr size (off : Int) ++ (info40 W H bpp nc ++ rest)) 26 2 = some 1 ∧
    leField (fileHdr size (off : Int) ++ (info40 W H bpp nc ++ rest)) 28 2 = some bpp := by
  have e4 : ∀ n : Nat, n < 2147483648 → leNat (encS .le 4 (n : Int)) = n := fun n h => leNat_encS_nat 4 n (by omega)
  have e2 : ∀ n : Nat, n < 32768 → leNat (encS .le 2 (n : Int)) = n := fun n h => leNat_encS_nat 2 n (by omega)
  refine ⟨?_, ?_, ?_, ?_, ?_, ?_⟩
  · unfold fileHdr; simp [slice]
  · -- offset field: bytes 10..14 of the file header
    have : fileHdr size (off : Int) ++ (info40 W H bpp nc ++ rest)
        = ([0x42, 0x4D] ++ (encS .le 4 size ++ encS .le 2 0 ++ encS .le 2 0)) ++ (encS .le 4 (off : Int) ++ (info40 W H bpp nc ++ rest)) := by
      unfold fileHdr; simp [List.append_assoc]
    rw [this, leField_drop _ _ 10 4 (by simp), leField_head _ _ 4 (by simp), e4 off hoff]
  · have : fileHdr size (off : Int) ++ (info40 W H bpp nc ++ rest)
        = (fileHdr size (off : Int) ++ encS .le 4 40) ++ (encS .le 4 (W : Int) ++ (encS .le 4 (H : Int) ++ (encS .le 2 1 ++ (encS .le 2 (bpp : Int) ++
            (encS .le 4 0 ++ (encS .le 4 0 ++ (encS .le 4 0 ++ (encS .le 4 0 ++ (encS .le 4 (nc : Int) ++ (encS .le 4 (nc : Int) ++ rest)))))))))) := by
      unfold info40; simp [List.append_assoc]
    rw [this, leField_drop _ _ 18 4 (by simp [fileHdr_length]), leField_head _ _ 4 (by simp), e4 W hW]
  · have : fileHdr size (off : Int) ++ (info40 W H bpp nc ++ rest)
        = (fileHdr size (off : Int) ++ (encS .le 4 40 ++ encS .le 4 (W : Int))) ++ (encS .le 4 (H : Int) ++ (encS .le 2 1 ++ (encS .le 2 (bpp : Int) ++
            (encS .le 4 0 ++ (encS .le 4 0 ++ (encS .le 4 0 ++ (encS .le 4 0 ++ (encS .le 4 (nc : Int) ++ (encS .le 4 (nc : Int) ++ rest))))))))) := by
      unfold info40; simp [List.append_assoc]
    rw [this, leField_drop _ _ 22 4 (by simp [fileHdr_length]), leField_head _ _ 4 (by simp), e4 H hH]
  · have : fileHdr size (off : Int) ++ (info40 W H bpp nc ++ rest)
        = (fileHdr size (off : Int) ++ (encS .le 4 40 ++ (encS .le 4 (W : Int) ++ encS .le 4 (H : Int)))) ++ (encS .le 2 ((1 : Nat) : Int) ++ (encS .le 2 (bpp : Int) ++
            (encS .le 4 0 ++ (encS .le 4 0 ++ (encS .le 4 0 ++ (encS .le 4 0 ++ (encS .le 4 (nc : Int) ++ (encS .le 4 (nc : Int) ++ rest)))))))) := by
      unfold info40; simp [List.append_assoc]
    rw [this, leField_drop _ _ 26 2 (by simp [fileHdr_length]), leField_head _ _ 2 (by simp), e2 1 (by omega)]
  · have : fileHdr size (off : Int) ++ (info40 W H bpp nc ++ rest)
        = (fileHdr size (off : Int) ++ (encS .le 4 40 ++ (encS .le 4 (W : Int) ++ (encS .le 4 (H : Int) ++ encS .le 2 1)))) ++ (encS .le 2 (bpp : Int) ++
            (encS .le 4 0 ++ (encS .le 4 0 ++ (encS .le 4 0 ++ (encS .le 4 0 ++ (encS .le 4 (nc : Int) ++ (encS .le 4 (nc : Int) ++ rest))))))) := by
      unfold info40; simp [List.append_assoc]
    rw [this, leField_drop _ _ 28 2 (by simp [fileHdr_length]), leField_head _ _ 2 (by simp), e2 bpp hb]

end Drx.Bitd
