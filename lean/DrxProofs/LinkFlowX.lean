/-
  C03 link, layer F4 (restricted class): loops that contain, directly in their body, one `if c then …; exit repeat end if`
  with no further `if` behind it in the same body.  `condition_detect` turns the exit jump into an `exit repeat` statement at the
  end of the then-branch, so the result is the nesting of the EXIT-FREE skeleton `convX` in which the exit is an ordinary
  statement; `loop_detect` then works as in the exit-free theorem.
-/
import DrxProofs.LinkFlowLayout
namespace Drx.LinkFlow
open Drx Drx.Lscr

theorem lower1_loop_hdr (h : Hdr) (csz : Nat) (cond : Node) (body : List Src) :
    lower1 (.loop h csz cond body) = h.pre ++ [.loop csz cond (h.inn ++ (lower body ++ h.out))] ++ h.post := by
  cases h <;> simp [lower1, Hdr.pre, Hdr.inn, Hdr.out, Hdr.post]

theorem lowerX_cons (x : SrcX) (xs : List SrcX) : lowerX (x :: xs) = lowerX1 x ++ lowerX xs := by simp only [lowerX]
theorem convX_cons (o : Int) (x : SrcX) (xs : List SrcX) : convX o (x :: xs) = convX1 o x :: convX (o + P.sizes (lowerX1 x)) xs := by
  simp only [convX]

theorem nsts_lowerX1_pos (x : SrcX) : P.nsts (lowerX1 x) ≠ 0 := by
  cases x with
  | simple s => simp [lowerX1, P.nsts, P.nst]
  | ifThen csz cond t e => simp [lowerX1, P.nsts, P.nst]
  | loop h csz cond body => simp [lowerX1, nsts_append, P.nsts, P.nst]
  | loopX h csz cond b1 csz2 cond2 t b2 => simp [lowerX1, nsts_append, P.nsts, P.nst]

theorem lowerX_eq_nil (ss : List SrcX) : lowerX ss = [] ↔ ss = [] := by
  constructor
  · intro h
    cases ss with
    | nil => rfl
    | cons x xs =>
      have := nsts_lowerX1_pos x
      rw [lowerX_cons] at h
      have h1 : lowerX1 x = [] := (List.append_eq_nil_iff.1 h).1
      rw [h1] at this
      simp [P.nsts] at this
  · rintro rfl; simp [lowerX]

theorem convX_eq_nil (o : Int) (ss : List SrcX) : convX o ss = [] ↔ ss = [] := by
  cases ss <;> simp [convX]

theorem tgtC_congr {o o' : Int} (ps : List P) (h : o = o') : tgtC o ps = tgtC o' ps := by rw [h]

theorem rawLoopX_congr {s s' i i' : Int} {B B' : List Node} (h1 : s = s') (h2 : i = i') (h3 : B = B') :
    Node.stmt i (rawLoop s i B) = Node.stmt i' (rawLoop s' i' B') := by rw [h1, h2, h3]

/-- at statement level a loop with an if-exit reconstructs like the loop whose `if` ends with an `exit repeat` STATEMENT -/
theorem tgtC1_loopX_eq (o : Int) (csz : Nat) (cond : Node) (B1 : List P) (csz2 : Nat) (cond2 : Node) (T B2 : List P) :
    tgtC1 o (.loopX csz cond B1 csz2 cond2 T B2) =
      tgtC1 o (.loop csz cond (B1 ++ (.ifThen csz2 cond2 (T ++ [.simple (exitSmpAt (o + csz + 3 + P.sizes B1 + csz2 + 3 + P.sizes T))]) [] :: B2))) ∧
    (P.loopX csz cond B1 csz2 cond2 T B2).size =
      (P.loop csz cond (B1 ++ (.ifThen csz2 cond2 (T ++ [.simple (exitSmpAt (o + csz + 3 + P.sizes B1 + csz2 + 3 + P.sizes T))]) [] :: B2))).size := by
  have hs : P.sizes (B1 ++ (.ifThen csz2 cond2 (T ++ [.simple (exitSmpAt (o + csz + 3 + P.sizes B1 + csz2 + 3 + P.sizes T))]) [] :: B2)) =
      P.sizes B1 + (csz2 + 3 + P.sizes T + 3) + P.sizes B2 := by
    simp [sizes_append, P.sizes, P.size, exitSmpAt]; omega
  constructor
  · simp only [tgtC1, tgtC_append, tgtC, List.append_nil, List.cons_append, List.nil_append]
    rw [hs]
    refine cons_congr (rawLoopX_congr rfl (by push_cast; omega) (cons_congr rfl (append_congr rfl (cons_congr ?_ ?_)))) rfl
    · simp [exitSmpAt, exitRepeatStmt]
    · exact tgtC_congr _ (by simp only [P.sizes, P.size, sizes_append, List.isEmpty_nil, if_true, exitSmpAt]; push_cast; omega)
  · simp only [P.size, hs]

/-- two skeleton lists reconstruct alike at address `o` and have the same size -/
def PEqAt (o : Int) (ps ps' : List P) : Prop := tgtC o ps = tgtC o ps' ∧ P.sizes ps = P.sizes ps'

theorem PEqAt.refl (o : Int) (ps : List P) : PEqAt o ps ps := ⟨rfl, rfl⟩

theorem PEqAt.trans {o : Int} {a b c : List P} (h1 : PEqAt o a b) (h2 : PEqAt o b c) : PEqAt o a c :=
  ⟨h1.1.trans h2.1, h1.2.trans h2.2⟩

theorem PEqAt.append {o : Int} {a a' b b' : List P} (h1 : PEqAt o a a') (h2 : PEqAt (o + P.sizes a) b b') :
    PEqAt o (a ++ b) (a' ++ b') := by
  constructor
  · rw [tgtC_append, tgtC_append, h1.1, ← h1.2, h2.1]
  · rw [sizes_append, sizes_append, h1.2, h2.2]

theorem PEqAt.single {o : Int} {x x' : P} (h1 : tgtC1 o x = tgtC1 o x') (h2 : x.size = x'.size) : PEqAt o [x] [x'] := by
  constructor
  · simp only [tgtC, List.append_nil, h1]
  · simp only [P.sizes, h2]

theorem PEqAt.if_ {o : Int} (csz : Nat) (cond : Node) {T T' : List P} (h : PEqAt (o + csz + 3) T T') :
    PEqAt o [.ifThen csz cond T []] [.ifThen csz cond T' []] :=
  PEqAt.single (by simp only [tgtC1, h.1, h.2]) (by simp only [P.size, h.2])

theorem PEqAt.ifelse {o : Int} (csz : Nat) (cond : Node) {T T' E E' : List P} (h : PEqAt (o + csz + 3) T T')
    (he : PEqAt (o + csz + 3 + P.sizes T + 3) E E') (hemp : E.isEmpty = E'.isEmpty) :
    PEqAt o [.ifThen csz cond T E] [.ifThen csz cond T' E'] :=
  PEqAt.single (by simp only [tgtC1, h.1, ← h.2, he.1]) (by simp only [P.size, h.2, he.2, hemp])

theorem PEqAt.loop_ {o : Int} (csz : Nat) (cond : Node) {X X' : List P} (h : PEqAt (o + csz + 3) X X') :
    PEqAt o [.loop csz cond X] [.loop csz cond X'] :=
  PEqAt.single (by simp only [tgtC1, h.1, h.2]) (by simp only [P.size, h.2])

theorem PEqAt.loopX_ (o : Int) (csz : Nat) (cond : Node) (B1 : List P) (csz2 : Nat) (cond2 : Node) (T B2 : List P) :
    PEqAt o [.loopX csz cond B1 csz2 cond2 T B2]
      [.loop csz cond (B1 ++ (.ifThen csz2 cond2 (T ++ [.simple (exitSmpAt (o + csz + 3 + P.sizes B1 + csz2 + 3 + P.sizes T))]) [] :: B2))] :=
  PEqAt.single (tgtC1_loopX_eq o csz cond B1 csz2 cond2 T B2).1 (tgtC1_loopX_eq o csz cond B1 csz2 cond2 T B2).2

theorem PEqAt.cast {o o' : Int} {a b : List P} (h : PEqAt o a b) (e : o = o') : PEqAt o' a b := by rw [← e]; exact h

mutual
theorem convX1_spec : (x : SrcX) → ∀ (o : Int), PEqAt o (lowerX1 x) (lower1 (convX1 o x))
  | .simple s, o => by simp only [lowerX1, convX1, lower1]; exact PEqAt.refl _ _
  | .ifThen csz cond t e, o => by
    have ht := convX_spec t (o + csz + 3)
    have he := convX_spec e (o + csz + 3 + P.sizes (lowerX t) + 3)
    have hemp : (lowerX e).isEmpty = (lower (convX (o + csz + 3 + P.sizes (lowerX t) + 3) e)).isEmpty := by
      by_cases hh : e = []
      · subst hh; simp [lowerX, convX, lower]
      · have a1 : lowerX e ≠ [] := fun h => hh ((lowerX_eq_nil e).1 h)
        have a2 : lower (convX (o + csz + 3 + P.sizes (lowerX t) + 3) e) ≠ [] := fun h =>
          hh ((convX_eq_nil _ e).1 ((lower_eq_nil _).1 h))
        cases h1 : lowerX e <;> cases h2 : lower (convX (o + csz + 3 + P.sizes (lowerX t) + 3) e) <;> simp_all
    simp only [lowerX1, convX1, lower1]
    exact PEqAt.ifelse csz cond ht he hemp
  | .loop h csz cond body, o => by
    have hb := convX_spec body (o + P.sizes h.pre + csz + 3 + P.sizes h.inn)
    simp only [lowerX1, convX1, lower1_loop_hdr]
    refine PEqAt.append (PEqAt.append (PEqAt.refl _ _) (PEqAt.loop_ csz cond ?_)) (PEqAt.refl _ _)
    exact PEqAt.append (PEqAt.refl _ _) (PEqAt.append (hb.cast (by omega)) (PEqAt.refl _ _))
  | .loopX h csz cond b1 csz2 cond2 t b2, o => by
    have h1 := convX_spec b1 (o + P.sizes h.pre + csz + 3 + P.sizes h.inn)
    have ht := convX_spec t (o + P.sizes h.pre + csz + 3 + P.sizes h.inn + P.sizes (lowerX b1) + csz2 + 3)
    have h2 := convX_spec b2 (o + P.sizes h.pre + csz + 3 + P.sizes h.inn + P.sizes (lowerX b1) + csz2 + 3 + P.sizes (lowerX t) + 3)
    simp only [lowerX1, convX1, lower1_loop_hdr]
    refine PEqAt.append (PEqAt.append (PEqAt.refl _ _) ?_) (PEqAt.refl _ _)
    refine (PEqAt.loopX_ _ csz cond _ csz2 cond2 _ _).trans (PEqAt.loop_ csz cond ?_)
    -- the two body lists
    have hq : (o + (P.sizes h.pre : Int) + csz + 3 + P.sizes (h.inn ++ lowerX b1) + csz2 + 3 + P.sizes (lowerX t)) =
        o + P.sizes h.pre + csz + 3 + P.sizes h.inn + P.sizes (lowerX b1) + csz2 + 3 + P.sizes (lowerX t) := by
      rw [sizes_append]; push_cast; omega
    rw [hq]
    have eL : h.inn ++ lowerX b1 ++ (P.ifThen csz2 cond2 (lowerX t ++ [P.simple (exitSmpAt (o + P.sizes h.pre + csz + 3 + P.sizes h.inn + P.sizes (lowerX b1) + csz2 + 3 + P.sizes (lowerX t)))]) [] ::
          (lowerX b2 ++ h.out)) =
        h.inn ++ (lowerX b1 ++ ([P.ifThen csz2 cond2 (lowerX t ++ [P.simple (exitSmpAt (o + P.sizes h.pre + csz + 3 + P.sizes h.inn + P.sizes (lowerX b1) + csz2 + 3 + P.sizes (lowerX t)))]) []] ++
          (lowerX b2 ++ h.out))) := by simp
    have eR : h.inn ++ (lower (convX (o + P.sizes h.pre + csz + 3 + P.sizes h.inn) b1 ++
          Src.ifThen csz2 cond2 (convX (o + P.sizes h.pre + csz + 3 + P.sizes h.inn + P.sizes (lowerX b1) + csz2 + 3) t ++
            [Src.simple (exitSmpAt (o + P.sizes h.pre + csz + 3 + P.sizes h.inn + P.sizes (lowerX b1) + csz2 + 3 + P.sizes (lowerX t)))]) [] ::
          convX (o + P.sizes h.pre + csz + 3 + P.sizes h.inn + P.sizes (lowerX b1) + csz2 + 3 + P.sizes (lowerX t) + 3) b2) ++ h.out) =
        h.inn ++ (lower (convX (o + P.sizes h.pre + csz + 3 + P.sizes h.inn) b1) ++
          ([P.ifThen csz2 cond2 (lower (convX (o + P.sizes h.pre + csz + 3 + P.sizes h.inn + P.sizes (lowerX b1) + csz2 + 3) t) ++
            [P.simple (exitSmpAt (o + P.sizes h.pre + csz + 3 + P.sizes h.inn + P.sizes (lowerX b1) + csz2 + 3 + P.sizes (lowerX t)))]) []] ++
          (lower (convX (o + P.sizes h.pre + csz + 3 + P.sizes h.inn + P.sizes (lowerX b1) + csz2 + 3 + P.sizes (lowerX t) + 3) b2) ++ h.out))) := by
      simp [lower_append, lower, lower1]
    rw [eL, eR]
    have hT : PEqAt (o + P.sizes h.pre + csz + 3 + P.sizes h.inn + P.sizes (lowerX b1) + csz2 + 3)
        (lowerX t ++ [P.simple (exitSmpAt (o + P.sizes h.pre + csz + 3 + P.sizes h.inn + P.sizes (lowerX b1) + csz2 + 3 + P.sizes (lowerX t)))])
        (lower (convX (o + P.sizes h.pre + csz + 3 + P.sizes h.inn + P.sizes (lowerX b1) + csz2 + 3) t) ++
          [P.simple (exitSmpAt (o + P.sizes h.pre + csz + 3 + P.sizes h.inn + P.sizes (lowerX b1) + csz2 + 3 + P.sizes (lowerX t)))]) :=
      PEqAt.append ht (PEqAt.refl _ _)
    have hI := PEqAt.if_ (o := o + P.sizes h.pre + csz + 3 + P.sizes h.inn + P.sizes (lowerX b1)) csz2 cond2 hT
    refine PEqAt.append (PEqAt.refl _ _) (PEqAt.append (h1.cast (by omega)) (PEqAt.append (hI.cast (by omega))
      (PEqAt.append (h2.cast ?_) (PEqAt.refl _ _))))
    simp only [P.sizes, P.size, sizes_append, List.isEmpty_nil, if_true, exitSmpAt]
    push_cast; omega
theorem convX_spec : (ss : List SrcX) → ∀ (o : Int), PEqAt o (lowerX ss) (lower (convX o ss))
  | [], o => by simp only [lowerX, convX, lower]; exact PEqAt.refl _ _
  | x :: xs, o => by
    rw [lowerX_cons, convX_cons, lower_cons]
    exact PEqAt.append (convX1_spec x o) (convX_spec xs (o + P.sizes (lowerX1 x)))
end

theorem condDetect_emit (ps : List P) (o : Int) (h : P.wfs ps = true) : condDetect (emit false o ps) = .ok (tgtC o ps) := by
  unfold condDetect
  have := mainAt ps false (cdDepthL (emit false o ps)) o none [] [] [] h (by rw [emit_depth o ps h]; exact Nat.le_refl _)
    HdrOK.none (Or.inl rfl) (fun e he => by cases he)
  simpa using this

/-- **reconstruction with `exit repeat`** (restricted class): the decompiler's passes on the events of a program whose loops may
    contain one `if … exit repeat end if` directly in their body yield the nesting of the exit-free skeleton `convX` in which the
    exit is the last statement of that then-branch -/
theorem reconstructX (ss : List SrcX) (o : Int) (h : SrcX.oks o ss = true) :
    decompileFlow (rawEv o (lowerX ss)) = .ok (tgtL o (convX o ss)) := by
  simp only [SrcX.oks, Bool.and_eq_true] at h
  obtain ⟨hwf, hcls⟩ := h
  unfold decompileFlow
  rw [runEv_rawEv _ o hwf]
  show (condDetect (emit false o (lowerX ss))).bind loopDetect = _
  rw [condDetect_emit _ o hwf, (convX_spec ss o).1]
  exact loopDetect_tgtC _ o hcls

end Drx.LinkFlow
