/-
  J6 — handlers and the script wrappers of codegen/js.py, plain scripts first (`function name(a, b) { … }` per handler).
-/
import DrxProofs.LinkJsStmt
namespace Drx.LinkJs
open Drx Drx.Lscr Drx.Gen Drx.Spec Drx.Link
set_option linter.unusedSimpArgs false
set_option linter.unusedVariables false

/-! ### the translation of fragment statements is lexically well formed and readable -/

theorem startsId_id (n : Spec.Name) (h : isJsKeyword n = false) : StartsId (.id n) := ⟨n, [], rfl, h⟩

theorem startsId_mem_jid (x : String) (n : Spec.Name) (h : isJsKeyword x.toList = false) : StartsId (.mem (jid x) n) :=
  ⟨x.toList, [.p .dot, .id n], by simp [prJ, jid, wrapRecv, JE.needsParen], h⟩

theorem startsId_call_id (f : Spec.Name) (as : List JE) (h : isJsKeyword f = false) : StartsId (.call (.id f) as) :=
  ⟨f, .p .lp :: (prJArgs as ++ [.p .rp]), by simp [prJ, wrapRecv, JE.needsParen], h⟩

theorem jsIdOk_nonkw (n : Spec.Name) (h : jsIdOk n = true) : isJsKeyword n = false := by
  simp only [jsIdOk, Bool.and_eq_true, Bool.not_eq_true'] at h; exact h.2

theorem lv_startsId (c : JCtx) (lv : Expr) (hf : JsOkLv lv = true) : StartsId (toJsE c lv) := by
  cases lv with
  | var k v =>
    cases k with
    | loc =>
      have hv : jsIdOk v = true := by simpa [JsOkLv] using hf
      by_cases hm : v = "me".toList
      · simp only [toJsE, hm, if_true, jid]; exact startsId_id _ (by decide)
      · simp only [toJsE, hm, if_false]; exact startsId_id v (jsIdOk_nonkw v hv)
    | param =>
      have hv : jsIdOk v = true := by simpa [JsOkLv] using hf
      by_cases hm : v = "me".toList
      · simp only [toJsE, hm, if_true, jid]; exact startsId_id _ (by decide)
      · simp only [toJsE, hm, if_false]; exact startsId_id v (jsIdOk_nonkw v hv)
    | glob => simp only [toJsE]; exact startsId_mem_jid "_global" v (by decide)
    | prop => simp only [toJsE]; exact startsId_mem_jid "this" v (by decide)
  | oprop v o =>
    cases o with
    | var k n =>
      cases k <;> simp only [JsOkLv, Bool.and_eq_true] at hf
      · by_cases hm : n = "me".toList
        · simp only [toJsE, hm, if_true]
          exact ⟨"this".toList, [.p .dot, .id v], by simp [prJ, jid, wrapRecv, JE.needsParen], by decide⟩
        · simp only [toJsE, hm, if_false]
          exact ⟨n, [.p .dot, .id v], by simp [prJ, wrapRecv, JE.needsParen], jsIdOk_nonkw n hf.2⟩
      · by_cases hm : n = "me".toList
        · simp only [toJsE, hm, if_true]
          exact ⟨"this".toList, [.p .dot, .id v], by simp [prJ, jid, wrapRecv, JE.needsParen], by decide⟩
        · simp only [toJsE, hm, if_false]
          exact ⟨n, [.p .dot, .id v], by simp [prJ, wrapRecv, JE.needsParen], jsIdOk_nonkw n hf.2⟩
      · simp only [toJsE]
        exact ⟨"_global".toList, [.p .dot, .id n, .p .dot, .id v], by simp [prJ, jid, wrapRecv, JE.needsParen], by decide⟩
      · simp only [toJsE]
        exact ⟨"this".toList, [.p .dot, .id n, .p .dot, .id v], by simp [prJ, jid, wrapRecv, JE.needsParen], by decide⟩
    | _ => simp [JsOkLv] at hf
  | the t k as =>
    match as, hf with
    | [e], hf =>
      simp only [JsOkLv, Bool.and_eq_true] at hf
      have hk := hf.1
      cases t with
      | sound =>
        exact ⟨"sound".toList, .p .lp :: (prJArgs [toJsE c e] ++ [.p .rp, .p .dot, .id ((tblLookupIdx tblSound k).getD "UNKNOWN".toList)]),
          by simp [toJsE, toJsEs, toJsThe, jcall, prJ, wrapRecv, JE.needsParen], by decide⟩
      | sprite =>
        exact ⟨"sprite".toList, .p .lp :: (prJArgs [toJsE c e] ++ [.p .rp, .p .dot, .id ((tblLookupIdx tblSprite k).getD "UNKNOWN".toList)]),
          by simp [toJsE, toJsEs, toJsThe, jcall, prJ, wrapRecv, JE.needsParen], by decide⟩
      | cast =>
        exact ⟨"member".toList, .p .lp :: (prJArgs [toJsE c e] ++ [.p .rp, .p .dot, .id ((tblLookupIdx tblCast k).getD "UNKNOWN".toList)]),
          by simp [toJsE, toJsEs, toJsThe, jcall, prJ, wrapRecv, JE.needsParen], by decide⟩
      | video =>
        exact ⟨"member".toList, .p .lp :: (prJArgs [toJsE c e] ++ [.p .rp, .p .dot, .id ((tblLookupIdx tblVideo k).getD "UNKNOWN".toList)]),
          by simp [toJsE, toJsEs, toJsThe, jcall, prJ, wrapRecv, JE.needsParen], by decide⟩
      | _ => simp [theTbl] at hk
    | [], hf =>
      cases t with
      | special =>
        have hk : k < 6 := by simpa [JsOkLv] using hf
        simp only [toJsE, toJsEs, toJsThe, hk, if_true]
        exact startsId_mem_jid "_system" _ (by decide)
      | _ => simp [JsOkLv] at hf
    | _ :: _ :: _, hf => simp [JsOkLv] at hf
  | _ => simp [JsOkLv] at hf

/-- the translation of a `put` target: lexically well formed, in the reader fragment, starting with a non-reserved identifier -/
theorem tg_ok (c : JCtx) : ∀ (lv : Expr), JsOkTg lv = true →
    LexOK (putTarget c lv) ∧ JFrag (putTarget c lv) ∧ StartsId (putTarget c lv)
  | .chunk k a b d, h => by
    simp only [JsOkTg, Bool.and_eq_true] at h
    obtain ⟨l1, l2, x, tl, hx, hk⟩ := tg_ok c d h.2
    have hnp := (tg_head c d h.2).1
    have la := toJsE_lexok c a h.1.1
    have lb := toJsE_lexok c b h.1.2
    have fa := toJsE_fragJ c a h.1.1
    have fb := toJsE_fragJ c b h.1.2
    have hkt : jsIdLex k.tag.toList = true := by cases k <;> decide
    refine ⟨?_, ?_, ?_⟩
    · simp only [putTarget, jmem, LexOK]
      refine ⟨⟨l1, hkt⟩, ?_⟩
      split
      · exact la
      · simp only [jcall, LexOK, LexOKL]; exact ⟨by decide, la, lb, trivial⟩
    · simp only [putTarget, jmem, JFrag]
      refine ⟨l2, ?_⟩
      split
      · exact fa
      · simp only [jcall, JFrag, JFragL]; exact ⟨by decide, fa, fb, trivial⟩
    · have hshape : ∃ Y, prJ (putTarget c (.chunk k a b d)) = prJ (putTarget c d) ++ Y := by
        simp only [putTarget, jmem, prJ, wrapRecv, np_mem, hnp, Bool.false_eq_true, if_false, List.append_assoc]
        exact ⟨_, rfl⟩
      obtain ⟨Y, hY⟩ := hshape
      exact ⟨x, tl ++ Y, by rw [hY, hx]; rfl, hk⟩
  | .field e, h => by
    have he : JsOkE e = true := by simpa [JsOkTg] using h
    refine ⟨?_, ?_, ?_⟩
    · simp only [putTarget, jmem, jcall, LexOK, LexOKL]; exact ⟨⟨by decide, toJsE_lexok c e he, trivial⟩, by decide⟩
    · simp only [putTarget, jmem, jcall, JFrag, JFragL]; exact ⟨by decide, toJsE_fragJ c e he, trivial⟩
    · exact ⟨"field".toList, .p .lp :: (prJArgs [toJsE c e] ++ [.p .rp, .p .dot, .id "text".toList]),
        by simp [putTarget, jmem, jcall, prJ, wrapRecv, JE.needsParen], by decide⟩
  | .var .loc n, h => by
    simp only [JsOkTg, Bool.and_eq_true, bne_iff_ne, ne_eq] at h
    have hm : ¬ n = "me".toList := h.2
    have hk : JsOkE (.var .loc n) = true := by simp only [JsOkE, Bool.or_eq_true]; exact Or.inr h.1
    have e : putTarget c (.var .loc n) = toJsE c (.var .loc n) := rfl
    rw [e]
    refine ⟨toJsE_lexok c _ hk, toJsE_fragJ c _ hk, ?_⟩
    simp only [toJsE, hm, if_false]; exact startsId_id n (jsIdOk_nonkw n h.1)
  | .var .param n, h => by
    simp only [JsOkTg, Bool.and_eq_true, bne_iff_ne, ne_eq] at h
    have hm : ¬ n = "me".toList := h.2
    have hk : JsOkE (.var .param n) = true := by simp only [JsOkE, Bool.or_eq_true]; exact Or.inr h.1
    have e : putTarget c (.var .param n) = toJsE c (.var .param n) := rfl
    rw [e]
    refine ⟨toJsE_lexok c _ hk, toJsE_fragJ c _ hk, ?_⟩
    simp only [toJsE, hm, if_false]; exact startsId_id n (jsIdOk_nonkw n h.1)
  | .var .prop n, h => by
    have hk : JsOkE (.var .prop n) = true := by simpa [JsOkTg, JsOkE] using h
    have e : putTarget c (.var .prop n) = toJsE c (.var .prop n) := rfl
    rw [e]
    refine ⟨toJsE_lexok c _ hk, toJsE_fragJ c _ hk, ?_⟩
    simp only [toJsE]; exact startsId_mem_jid "this" n (by decide)
  | .var .glob _, h => by simp [JsOkTg] at h
  | .int _, h => by simp [JsOkTg] at h
  | .float _ _, h => by simp [JsOkTg] at h
  | .str _, h => by simp [JsOkTg] at h
  | .sym _, h => by simp [JsOkTg] at h
  | .me, h => by simp [JsOkTg] at h
  | .bin _ _ _, h => by simp [JsOkTg] at h
  | .un _ _, h => by simp [JsOkTg] at h
  | .call _ _, h => by simp [JsOkTg] at h
  | .mcall _ _ _, h => by simp [JsOkTg] at h
  | .list _, h => by simp [JsOkTg] at h
  | .plist _, h => by simp [JsOkTg] at h
  | .the _ _ _, h => by simp [JsOkTg] at h
  | .key _, h => by simp [JsOkTg] at h
  | .movie _, h => by simp [JsOkTg] at h
  | .oprop _ _, h => by simp [JsOkTg] at h

theorem toJsS_ok (hs : List Spec.Name) (s : Stmt) (hf : JsOkS s = true) :
    LexOKS (toJsS { handlers := hs, inTell := false } s) ∧ ReadOKS (toJsS { handlers := hs, inTell := false } s) := by
  cases s with
  | set lv v =>
    simp only [JsOkS, Bool.and_eq_true] at hf
    obtain ⟨_, l1, l2⟩ := lv_ok { handlers := hs, inTell := false } lv hf.1
    exact ⟨⟨l1, toJsE_lexok _ v hf.2⟩, ⟨l2, lv_startsId _ lv hf.1, Or.inl (toJsE_fragJ _ v hf.2)⟩⟩
  | call f as =>
    by_cases hr : f = "return".toList
    · subst hr
      simp only [JsOkS, if_true] at hf
      cases as with
      | nil => simp [toJsS, toJsEs, LexOKS, ReadOKS]
      | cons e es =>
        cases es with
        | nil =>
          have he : JsOkE e = true := by simpa using hf
          simp only [toJsS, if_true, toJsEs, LexOKS, ReadOKS]
          exact ⟨toJsE_lexok _ e he, retOK_frag _ (toJsE_fragJ _ e he)⟩
        | cons _ _ => simp at hf
    · have hr' : ¬ f = "return".toList := hr
      simp only [JsOkS, hr', if_false] at hf
      have hk : JsOkE (.call f as) = true := by simpa [JsOkE] using hf
      simp only [Bool.and_eq_true, Bool.not_eq_true'] at hf
      obtain ⟨⟨⟨hid, hsp⟩, _⟩, _⟩ := hf
      have hlex := toJsE_lexok { handlers := hs, inTell := false } (.call f as) hk
      have hfr := toJsE_fragJ { handlers := hs, inTell := false } (.call f as) hk
      have hts : toJsS { handlers := hs, inTell := false } (.call f as) =
          if hs.contains f then JS.expr (jcall "fn_call" [toJsE { handlers := hs, inTell := false } (.call f as)])
          else JS.expr (toJsE { handlers := hs, inTell := false } (.call f as)) := by
        simp only [toJsS, hr', if_false, Bool.not_false, Bool.and_true]
      rw [hts]
      cases hs.contains f
      · simp only [Bool.false_eq_true, if_false, LexOKS, ReadOKS]
        refine ⟨hlex, hfr, ?_⟩
        rw [toJsE, toJsCall_plain _ f as _ hsp (jsIdOk_not_kw f hid "new" (by decide))]
        exact startsId_call_id f _ (jsIdOk_nonkw f hid)
      · simp only [if_true, LexOKS, ReadOKS, jcall, LexOK, LexOKL, JFrag, JFragL]
        exact ⟨⟨by decide, hlex, trivial⟩, ⟨by decide, hfr, trivial⟩, startsId_call_id _ _ (by decide)⟩
  | exit =>
    simp only [toJsS, jcall, LexOKS, ReadOKS, LexOK, LexOKL, JFrag, JFragL]
    exact ⟨⟨by decide, trivial⟩, ⟨by decide, trivial⟩, startsId_call_id _ _ (by decide)⟩
  | put m v lv =>
    simp only [JsOkS, Bool.and_eq_true] at hf
    obtain ⟨t1, t2, t3⟩ := tg_ok { handlers := hs, inTell := false } lv hf.2
    have v1 := toJsE_lexok { handlers := hs, inTell := false } v hf.1
    have v2 := toJsE_fragJ { handlers := hs, inTell := false } v hf.1
    cases m with
    | into => simp only [toJsS, LexOKS, ReadOKS]; exact ⟨⟨t1, v1⟩, ⟨t2, t3, Or.inl v2⟩⟩
    | after =>
      simp only [toJsS, LexOKS, ReadOKS, LexOK]
      exact ⟨⟨t1, by decide, t1, v1⟩, ⟨t2, t3, Or.inr ⟨_, _, rfl, t2, v2⟩⟩⟩
    | before =>
      simp only [toJsS, LexOKS, ReadOKS, LexOK]
      exact ⟨⟨t1, by decide, v1, t1⟩, ⟨t2, t3, Or.inr ⟨_, _, rfl, v2, t2⟩⟩⟩
  | mcall o m as =>
    have hk : JsOkE (.mcall o m as) = true := by simpa [JsOkS] using hf
    have hlex := toJsE_lexok { handlers := hs, inTell := false } (.mcall o m as) hk
    have hfr := toJsE_fragJ { handlers := hs, inTell := false } (.mcall o m as) hk
    simp only [JsOkE, Bool.and_eq_true] at hk
    obtain ⟨x, ⟨hx1, _, _, _⟩, hte, _, _⟩ := recvJsOk_spec { handlers := hs, inTell := false } o m as hk.1.1
    simp only [toJsS, LexOKS, ReadOKS]
    refine ⟨hlex, hfr, ?_⟩
    rw [hte]
    exact startsId_call_id x _ (jsIdOk_nonkw x hx1)
  | delete t =>
    simp only [JsOkS, Bool.and_eq_true] at hf
    have ht : JsOkE t = true := hf.1
    simp only [toJsS, jcall, LexOKS, ReadOKS, LexOK, LexOKL, JFrag, JFragL]
    exact ⟨⟨by decide, toJsE_lexok _ t ht, trivial⟩, ⟨by decide, toJsE_fragJ _ t ht, trivial⟩, startsId_call_id _ _ (by decide)⟩
  | hilite t =>
    simp only [JsOkS, Bool.and_eq_true] at hf
    have ht : JsOkE t = true := hf.1
    simp only [toJsS, jcall, LexOKS, ReadOKS, LexOK, LexOKL, JFrag, JFragL]
    exact ⟨⟨by decide, toJsE_lexok _ t ht, trivial⟩, ⟨by decide, toJsE_fragJ _ t ht, trivial⟩, startsId_call_id _ _ (by decide)⟩
  | _ => simp [JsOkS] at hf

theorem toJsSs_ok (hs : List Spec.Name) : ∀ (ss : List Stmt), JsOkSs ss = true →
    LexOKSs (toJsSs { handlers := hs, inTell := false } ss) ∧ ReadOKSs (toJsSs { handlers := hs, inTell := false } ss)
  | [], _ => by simp [toJsSs, LexOKSs, ReadOKSs]
  | s :: ss, h => by
    simp only [JsOkSs, Bool.and_eq_true] at h
    obtain ⟨a1, a2⟩ := toJsS_ok hs s h.1
    obtain ⟨b1, b2⟩ := toJsSs_ok hs ss h.2
    simp only [toJsSs, LexOKSs, ReadOKSs]
    exact ⟨⟨a1, b1⟩, ⟨a2, b2⟩⟩

mutual
/-- the translation of a (possibly structured) fragment statement is lexically well formed and readable -/
theorem toJsT_ok (hs : List Spec.Name) : ∀ (s : Stmt), JsOkT s = true →
    LexOKS (toJsS { handlers := hs, inTell := false } s) ∧ ReadOKS (toJsS { handlers := hs, inTell := false } s)
  | .set lv v, hf => by simp only [JsOkT] at hf; exact toJsS_ok hs _ hf
  | .call f as, hf => by simp only [JsOkT] at hf; exact toJsS_ok hs _ hf
  | .exit, _ => toJsS_ok hs .exit rfl
  | .ifThen c t e, hf => by
    simp only [JsOkT, Bool.and_eq_true] at hf
    obtain ⟨⟨hc, ht⟩, he⟩ := hf
    obtain ⟨t1, t2⟩ := toJsTs_ok hs t ht
    obtain ⟨e1, e2⟩ := toJsTs_ok hs e he
    simp only [toJsS, LexOKS, ReadOKS]
    exact ⟨⟨toJsE_lexok _ c hc, t1, e1⟩, ⟨toJsE_fragJ _ c hc, t2, e2⟩⟩
  | .repeatWhile c b, hf => by
    simp only [JsOkT, Bool.and_eq_true] at hf
    obtain ⟨hc, hb⟩ := hf
    obtain ⟨b1, b2⟩ := toJsTs_ok hs b hb
    simp only [toJsS, LexOKS, ReadOKS]
    exact ⟨⟨toJsE_lexok _ c hc, b1⟩, ⟨toJsE_fragJ _ c hc, b2⟩⟩
  | .repeatWith lv a b down body, hf => by
    cases lv with
    | var k v =>
      cases k with
      | loc =>
        simp only [JsOkT, Bool.and_eq_true] at hf
        obtain ⟨⟨⟨hv, ha⟩, hb⟩, hbody⟩ := hf
        have hvk : JsOkE (.var .loc v) = true := by simp only [JsOkE, Bool.or_eq_true]; exact Or.inr hv
        obtain ⟨b1, b2⟩ := toJsTs_ok hs body hbody
        have lv1 := toJsE_lexok { handlers := hs, inTell := false } _ hvk
        have lv2 := toJsE_fragJ { handlers := hs, inTell := false } _ hvk
        have lb1 := toJsE_lexok { handlers := hs, inTell := false } b hb
        have lb2 := toJsE_fragJ { handlers := hs, inTell := false } b hb
        simp only [toJsS, LexOKS, ReadOKS]
        refine ⟨⟨lv1, toJsE_lexok _ a ha, ?_, b1⟩, ⟨lv2, toJsE_fragJ _ a ha, ?_, b2⟩⟩
        · cases down
          · exact ⟨by decide, lv1, lb1⟩
          · exact ⟨by decide, lv1, lb1⟩
        · cases down
          · exact ⟨by decide, lv2, lb2⟩
          · exact ⟨by decide, lv2, lb2⟩
      | _ => simp [JsOkT] at hf
    | _ => simp [JsOkT] at hf
  | .put m v lv, hf => by simp only [JsOkT] at hf; exact toJsS_ok hs _ hf
  | .delete t, hf => by simp only [JsOkT] at hf; exact toJsS_ok hs _ hf
  | .hilite t, hf => by simp only [JsOkT] at hf; exact toJsS_ok hs _ hf
  | .mcall o m as, hf => by simp only [JsOkT] at hf; exact toJsS_ok hs _ hf
  | .tell .., hf => by simp [JsOkT] at hf
  | .repeatIn lv l body, hf => by
    cases lv with
    | var k v =>
      cases k with
      | loc =>
        simp only [JsOkT, Bool.and_eq_true] at hf
        obtain ⟨⟨hv, hl⟩, hbody⟩ := hf
        have hvk : JsOkE (.var .loc v) = true := by simp only [JsOkE, Bool.or_eq_true]; exact Or.inr hv
        obtain ⟨b1, b2⟩ := toJsTs_ok hs body hbody
        simp only [toJsS, LexOKS, ReadOKS]
        exact ⟨⟨toJsE_lexok _ _ hvk, toJsE_lexok _ l hl, b1⟩, ⟨toJsE_fragJ _ _ hvk, toJsE_fragJ _ l hl, b2⟩⟩
      | _ => simp [JsOkT] at hf
    | _ => simp [JsOkT] at hf
  | .exitRepeat, hf => by simp [JsOkT] at hf
theorem toJsTs_ok (hs : List Spec.Name) : ∀ (ss : List Stmt), JsOkTs ss = true →
    LexOKSs (toJsSs { handlers := hs, inTell := false } ss) ∧ ReadOKSs (toJsSs { handlers := hs, inTell := false } ss)
  | [], _ => by simp [toJsSs, LexOKSs, ReadOKSs]
  | s :: ss, h => by
    simp only [JsOkTs, Bool.and_eq_true] at h
    obtain ⟨a1, a2⟩ := toJsT_ok hs s h.1
    obtain ⟨b1, b2⟩ := toJsTs_ok hs ss h.2
    simp only [toJsSs, LexOKSs, ReadOKSs]
    exact ⟨⟨a1, b1⟩, ⟨a2, b2⟩⟩
end

/-- the translation of a flat body is a list of simple statements -/
theorem toJsSs_simple (c : JCtx) : ∀ (ss : List Stmt), JsOkSs ss = true → ∀ s ∈ toJsSs c ss, isSimpleJ s = true
  | [], _, s, hs => by simp [toJsSs] at hs
  | x :: xs, h, s, hs => by
    simp only [JsOkSs, Bool.and_eq_true] at h
    simp only [toJsSs, List.mem_cons] at hs
    rcases hs with rfl | hs
    · exact toJsS_simple c x h.1
    · exact toJsSs_simple c xs h.2 s hs

theorem toJsSs_length (c : JCtx) : ∀ (l : List Stmt), (toJsSs c l).length = l.length
  | [] => rfl
  | x :: xs => by simp [toJsSs, toJsSs_length c xs]

/-! ### one handler as a plain function: text -/

/-- the final `exit` statement every compiled handler ends with (not printed by the wrappers) -/
def exitStmt (p q : Int) : Node := .stmt p (.callFn (.s (S "exit")) q .none true false false .none)

/-- the nodes of a table of names (`fn.parameters`, `fn.local_vars`) -/
inductive Leaves (cls : Leaf) : List Str → List Node → Prop
  | nil : Leaves cls [] []
  | cons {n : Str} {x : Node} {ns : List Str} {l : List Node} : (∃ p, x = Node.leaf cls (.s n) p) → Leaves cls ns l → Leaves cls (n :: ns) (x :: l)

/-- what the container layer establishes about one parsed handler, as far as the JavaScript wrappers read it -/
structure FuncRelJ (hs : List Spec.Name) (h : Handler) (f : FuncDef) : Prop where
  name : f.name = h.name
  params : Leaves .paramName h.params f.params
  locals : Leaves .localVar h.locals f.localVars
  stmts : ∃ ns p q, f.stmts = ns ++ [exitStmt p q] ∧ EmbSsJ hs h.body ns

theorem leaves_names {cls : Leaf} {ns : List Str} {l : List Node} (h : Leaves cls ns l) :
    l.mapM (fun p => p.name) = .ok (ns.map Lscr.Name.s) := by
  induction h with
  | nil => rfl
  | cons hx _ ih =>
    obtain ⟨p, rfl⟩ := hx
    rename_i n0 _ _ _
    have e : (Node.leaf cls (.s n0) p).name = .ok (.s n0) := rfl
    simp only [List.mapM_cons, e, ih, bind, Except.bind, pure, Except.pure, List.map_cons]

theorem leaves_isEmpty {cls : Leaf} {ns : List Str} {l : List Node} (h : Leaves cls ns l) : l.isEmpty = ns.isEmpty := by
  cases h <;> rfl

theorem bodyJs_exit (ns : List Node) (p q : Int) (ind : Nat) : bodyJs (ns ++ [exitStmt p q]) ind = jsStmts true ns ind := by
  unfold bodyJs bodyStmts endsWithExit exitStmt
  simp [Node.name, Except.map, bind, Except.bind, pure, Except.pure]

theorem map_str_s (l : List Str) : (l.map Lscr.Name.s).map Lscr.Name.str = l := by
  induction l with
  | nil => rfl
  | cons a as ih => simp [Lscr.Name.str, ih]

theorem txArgs_ids : ∀ (ns : List Spec.Name), txArgs (ns.map JE.id) = joinWith (S ", ") ns
  | [] => rfl
  | [n] => by simp [txArgs, txJ, joinWith]
  | n :: n2 :: ns => by
    have := txArgs_ids (n2 :: ns)
    simp only [List.map_cons, txArgs, txJ, joinWith] at this ⊢
    rw [this]

theorem txBody_vars (ind : Nat) (ns : List Spec.Name) :
    (ns.map fun n => indentOf ind ++ S "var " ++ n ++ S ";\n").flatten = txBody ind (ns.map JS.var) := by
  induction ns with
  | nil => rfl
  | cons n ns ih =>
    simp only [List.map_cons, List.flatten_cons, ih, txBody, txT, txS]
    simp [S, List.append_assoc]

theorem jsLocals_rel (f : FuncDef) (locals : List Spec.Name) (h : Leaves .localVar locals f.localVars) (ind : Nat) :
    jsLocals f ind = .ok (txBody ind (locals.map JS.var) ++ (if locals.isEmpty then [] else S "\n")) := by
  unfold jsLocals
  simp only [leaves_names h, bind, Except.bind, pure, Except.pure, leaves_isEmpty h]
  have : ((locals.map Lscr.Name.s).map fun n => indentOf ind ++ S "var " ++ n.str ++ S ";\n") =
      (locals.map fun n => indentOf ind ++ S "var " ++ n ++ S ";\n") := by
    simp [List.map_map, Function.comp_def, Lscr.Name.str]
  rw [this, txBody_vars]
  cases locals.isEmpty <;> simp

theorem filter_me : ∀ (params : List Spec.Name),
    ((params.map Lscr.Name.s).filter fun n => !(n == Lscr.Name.s (S "me"))) = (params.filter (· ≠ "me".toList)).map Lscr.Name.s
  | [] => rfl
  | a :: as => by
    have ih := filter_me as
    by_cases ha : a = "me".toList
    · subst ha
      have e1 : (Lscr.Name.s "me".toList == Lscr.Name.s (S "me")) = true := by decide
      simp only [List.map_cons, List.filter_cons, e1, Bool.not_true, Bool.false_eq_true, if_false, ih, ne_eq, not_true_eq_false, decide_false]
    · have e1 : (Lscr.Name.s a == Lscr.Name.s (S "me")) = false := by
        rw [beq_eq_false_iff_ne]; intro e; injection e with e; exact ha e
      simp only [List.map_cons, List.filter_cons, e1, Bool.not_false, if_true, ih, ne_eq, ha, not_false_eq_true, decide_true]

theorem jsParams_rel (f : FuncDef) (params : List Spec.Name) (h : Leaves .paramName params f.params) (skip : Bool) :
    jsParams f skip = .ok (joinWith (S ", ") (if skip then params.filter (· ≠ "me".toList) else params)) := by
  unfold jsParams
  simp only [leaves_names h, bind, Except.bind, pure, Except.pure]
  cases skip with
  | false => simp only [Bool.false_eq_true, if_false, map_str_s]
  | true =>
    simp only [if_true]
    have := filter_me params
    rw [this, map_str_s]

/-- statements that are not `var` declarations -/
def NoVar : JS → Prop
  | .var _ => False
  | _ => True

theorem varCount_vars (ns : List Spec.Name) (ss : List JS) (h : ∀ s ∈ ss.head?, NoVar s) :
    varCount (ns.map JS.var ++ ss) = ns.length := by
  induction ns with
  | nil =>
    cases ss with
    | nil => rfl
    | cons s ss =>
      have := h s (by simp)
      cases s <;> first | rfl | exact absurd this (by simp [NoVar])
  | cons n ns ih => simp [varCount, ih]

theorem txFuncBody_vars (ind : Nat) (ns : List Spec.Name) (ss : List JS) (h : ∀ s ∈ ss.head?, NoVar s) :
    txFuncBody ind (ns.map JS.var ++ ss) = txBody ind (ns.map JS.var) ++ (if ns.isEmpty then [] else S "\n") ++ txBody ind ss := by
  unfold txFuncBody
  rw [varCount_vars ns ss h]
  have hl : (ns.map JS.var).length = ns.length := by simp
  have e1 : (ns.map JS.var ++ ss).take ns.length = ns.map JS.var := by
    rw [← hl]; exact List.take_left
  have e2 : (ns.map JS.var ++ ss).drop ns.length = ss := by
    rw [← hl]; exact List.drop_left
  rw [e1, e2]
  cases ns <;> simp

theorem toJsS_noVar (c : JCtx) (s : Stmt) (hf : JsOkT s = true) : NoVar (toJsS c s) := by
  cases s with
  | set lv v => cases lv <;> trivial
  | call f as =>
    simp only [toJsS]
    split
    · simp [NoVar]
    · split <;> simp [NoVar]
  | exit => simp [toJsS, NoVar]
  | ifThen c t e => simp [toJsS, NoVar]
  | repeatWhile c b => simp [toJsS, NoVar]
  | repeatWith v a b d body => simp [toJsS, NoVar]
  | repeatIn v l body => simp [toJsS, NoVar]
  | delete t => simp [toJsS, NoVar]
  | hilite t => simp [toJsS, NoVar]
  | put m v lv => cases m <;> simp [toJsS, NoVar]
  | mcall o m as => simp [toJsS, NoVar]
  | _ => simp [JsOkT] at hf

theorem toJsSs_head_noVar (c : JCtx) (ss : List Stmt) (hf : JsOkTs ss = true) : ∀ s ∈ (toJsSs c ss).head?, NoVar s := by
  cases ss with
  | nil => intro s hs; simp [toJsSs] at hs
  | cons x xs =>
    simp only [JsOkTs, Bool.and_eq_true] at hf
    intro s hs
    simp only [toJsSs, List.head?_cons, Option.mem_def, Option.some.injEq] at hs
    subst hs; exact toJsS_noVar c x hf.1

/-- **J6 (text, plain scripts)**: one handler -/
theorem commonFuncJs_rel (hs : List Spec.Name) (hret : hs.contains (S "return") = false) (h : Handler) (f : FuncDef)
    (hr : FuncRelJ hs h f) (hok : JsOkH h = true) : commonFuncJs f = .ok (txFunc (toJsFunc hs false h)) := by
  simp only [JsOkH, Bool.and_eq_true] at hok
  obtain ⟨⟨⟨hname, _⟩, _⟩, hbody⟩ := hok
  obtain ⟨ns, p, q, hst, hemb⟩ := hr.stmts
  have hnew : ¬ h.name = S "new" := jsIdOk_not_kw h.name hname "new" (by decide)
  have hnew' : ¬ (h.name = "new".toList ∧ (!false) = true) := fun e => hnew e.1
  have hb := js_trees hs hret h.body hbody ns hemb 1
  have hj := jsParams_rel f h.params hr.params false
  simp only [Bool.false_eq_true, if_false] at hj
  unfold commonFuncJs
  simp only [hj, jsLocals_rel f h.locals hr.locals 1, hst, bodyJs_exit, hb, hr.name, hnew, if_false, bind, Except.bind, pure, Except.pure,
    leaves_isEmpty hr.params]
  have hps : (if h.params.isEmpty = true then ([] : Str) else joinWith (S ", ") h.params) = joinWith (S ", ") h.params := by
    cases hp : h.params with
    | nil => rfl
    | cons a as => rfl
  have hgoal : ∀ (X Y : Str → R Str), (∀ z, X z = Y z) →
      (if h.params.isEmpty = true then X [] else Y (joinWith (S ", ") h.params)) = Y (joinWith (S ", ") h.params) := by
    intro X Y hxy
    cases hp : h.params with
    | nil => simp [hxy]; rfl
    | cons a as => rfl
  rw [hgoal (fun z => Except.ok (S "function " ++ h.name ++ S "(" ++ z ++ S ") {\n" ++
      (txBody 1 (List.map JS.var h.locals) ++ if h.locals.isEmpty = true then [] else S "\n") ++
      txBody 1 (toJsSs { handlers := hs, inTell := false } h.body) ++ S "}\n")) _ (fun z => rfl)]
  simp only [txFunc, toJsFunc, hnew', if_false, Bool.false_eq_true, txArgs_ids,
    txFuncBody_vars 1 h.locals _ (toJsSs_head_noVar _ h.body hbody)]
  simp [S, List.append_assoc]

/-- two lists related entry by entry -/
inductive Rel2 {α β : Type} (R : α → β → Prop) : List α → List β → Prop
  | nil : Rel2 R [] []
  | cons {a : α} {b : β} {as : List α} {bs : List β} : R a b → Rel2 R as bs → Rel2 R (a :: as) (b :: bs)

/-- **J6 (text, plain scripts)**: the handler list -/
theorem commonFuncsJs_rel (hs : List Spec.Name) (hret : hs.contains (S "return") = false) : ∀ (hl : List Handler) (fs : List FuncDef),
    Rel2 (FuncRelJ hs) hl fs → JsOkHs hl = true → ∀ (first : Bool),
    commonFuncsJs fs first = .ok (txFuncs (hl.map (toJsFunc hs false)) first)
  | [], _, h, _, first => by cases h; rfl
  | x :: xs, _, h, hok, first => by
    cases h with
    | cons hx hxs =>
      simp only [JsOkHs, Bool.and_eq_true] at hok
      have e1 := commonFuncJs_rel hs hret x _ hx hok.1
      have e2 := commonFuncsJs_rel hs hret xs _ hxs hok.2 false
      simp only [commonFuncsJs, e1, e2, bind, Except.bind, pure, Except.pure, List.map_cons, txFuncs]

/-! ### lexing a function -/

structure LexOKF (f : JFunc) : Prop where
  name : jsIdLex f.name = true
  params : LexOKL f.params
  body : LexOKSs f.body

theorem prBody_append (a b : List JS) : prBody (a ++ b) = prBody a ++ prBody b := by
  induction a with
  | nil => rfl
  | cons x xs ih => simp [prBody, ih, List.append_assoc]

theorem lexOKSs_take (b : List JS) (k : Nat) (h : LexOKSs b) : LexOKSs (b.take k) ∧ LexOKSs (b.drop k) := by
  induction b generalizing k with
  | nil => simp [LexOKSs]
  | cons x xs ih =>
    cases k with
    | zero => exact ⟨trivial, h⟩
    | succ k =>
      obtain ⟨h1, h2⟩ : LexOKS x ∧ LexOKSs xs := h
      exact ⟨⟨h1, (ih k h2).1⟩, (ih k h2).2⟩

theorem lexFuncBody (ind : Nat) (b : List JS) (h : LexOKSs b) (rest : Str) : LexesTo (txFuncBody ind b) (prBody b) rest := by
  obtain ⟨h1, h2⟩ := lexOKSs_take b (varCount b) h
  have hb : prBody b = prBody (b.take (varCount b)) ++ prBody (b.drop (varCount b)) := by
    rw [← prBody_append, List.take_append_drop]
  rw [hb]
  unfold txFuncBody
  by_cases hv : varCount b = 0
  · have := (lexBody ind _ h1 _).append (lexBody ind _ h2 rest)
    simpa [hv] using this
  · have := (lexBody ind _ h1 _).append ((lex_nl _).append (lexBody ind _ h2 rest))
    simpa [hv, S, List.append_assoc] using this

theorem lexFunc (f : JFunc) (h : LexOKF f) (rest : Str) : LexesTo (txFunc f) (prTop (.func f)) rest := by
  have := (lex_id (S "function") (by decide) _ (by headis)).append ((lex_space _).append ((lex_id f.name h.name _ (by headis)).append
    ((lex_lp _).append ((lexArgs f.params h.params _ (by headis)).append ((lex_rp _).append ((lex_space _).append ((lex_lc _).append
    ((lex_nl _).append ((lexFuncBody 1 f.body h.body _).append ((lex_rc _).append (lex_nl rest)))))))))))
  simpa [txFunc, prTop, prMethod, S, List.append_assoc] using this

theorem lexFuncs : ∀ (fs : List JFunc), (∀ f ∈ fs, LexOKF f) → ∀ (first : Bool) (rest : Str),
    LexesTo (txFuncs fs first) (prProg (fs.map JTop.func)) rest
  | [], _, _, rest => by simpa [txFuncs, prProg] using LexesTo.nil rest
  | f :: fs, h, first, rest => by
    have h1 := lexFunc f (h f (by simp))
    have h2 := lexFuncs fs (fun g hg => h g (by simp [hg])) false rest
    cases first with
    | true =>
      have := (h1 _).append h2
      simpa [txFuncs, prProg] using this
    | false =>
      have := (lex_nl _).append ((h1 _).append h2)
      simpa [txFuncs, prProg, S] using this

/-! ### reading a function -/

theorem jParams_ids : ∀ (ns : List Spec.Name) (r : List JTok), jParams (prJArgs (ns.map JE.id) ++ .p .rp :: r) = some (ns.map JE.id, r)
  | [], r => by simp [prJArgs, jParams]
  | [n], r => by simp [prJArgs, prJ, jParams]
  | n :: n2 :: ns, r => by
    have ih := jParams_ids (n2 :: ns) r
    simp only [List.map_cons] at ih ⊢
    rw [prJArgs_cons2]
    simp only [prJ, List.singleton_append, List.cons_append]
    rw [jParams.eq_def]
    simp [ih]

structure ReadOKF (f : JFunc) : Prop where
  name : isJsKeyword f.name = false
  params : ∀ r, jParams (prJArgs f.params ++ .p .rp :: r) = some (f.params, r)
  body : ReadOKSs f.body

theorem jMethod_prMethod (f : JFunc) (h : ReadOKF f) (r : List JTok) (F : Nat) (hF : ssW f.body + 2 ≤ F) :
    jMethod F (prMethod f ++ r) = some (f, r) := by
  have e1 := h.params (.p .lc :: (prBody f.body ++ .p .rc :: r))
  have e2 := jBlock_prBody f.body h.body r F hF
  have : prMethod f ++ r = .id f.name :: .p .lp :: (prJArgs f.params ++ .p .rp :: .p .lc :: (prBody f.body ++ .p .rc :: r)) := by
    simp [prMethod, List.append_assoc]
  rw [this]
  simp only [jMethod, h.name, Bool.false_eq_true, if_false, e1, e2]

theorem jTops_funcs (F : Nat) : ∀ (fs : List JFunc), (∀ f ∈ fs, ReadOKF f ∧ ssW f.body + 2 ≤ F) → ∀ (k : Nat), fs.length + 1 ≤ k →
    jTops F k (prProg (fs.map JTop.func)) = some (fs.map JTop.func)
  | [], _, k, hk => by
    obtain ⟨k', rfl⟩ : ∃ k', k = k' + 1 := ⟨k - 1, by simp at hk; omega⟩
    simp [prProg, jTops]
  | f :: fs, h, k, hk => by
    obtain ⟨k', rfl⟩ : ∃ k', k = k' + 1 := ⟨k - 1, by simp at hk; omega⟩
    obtain ⟨h1, h2⟩ := h f (by simp)
    have e1 := jMethod_prMethod f h1 (prProg (fs.map JTop.func)) F h2
    have e2 := jTops_funcs F fs (fun g hg => h g (by simp [hg])) k' (by simp at hk; omega)
    have : prProg ((f :: fs).map JTop.func) = .id "function".toList :: (prMethod f ++ prProg (fs.map JTop.func)) := by
      simp [prProg, prTop]
    rw [this]
    simp only [jTops, if_true, e1, e2, Option.map_some, List.map_cons]

/-! ### the translation of a fragment handler -/

theorem lexOKL_ids : ∀ (ns : List Spec.Name), (ns.all fun p => jsIdOk p) = true → LexOKL (ns.map JE.id)
  | [], _ => trivial
  | n :: ns, h => by
    simp only [List.all_cons, Bool.and_eq_true] at h
    exact ⟨jsIdOk_lex n h.1, lexOKL_ids ns h.2⟩

theorem lexOKSs_append : ∀ (a b : List JS), LexOKSs a → LexOKSs b → LexOKSs (a ++ b)
  | [], _, _, hb => hb
  | x :: xs, b, ha, hb => ⟨ha.1, lexOKSs_append xs b ha.2 hb⟩

theorem readOKSs_append : ∀ (a b : List JS), ReadOKSs a → ReadOKSs b → ReadOKSs (a ++ b)
  | [], _, _, hb => hb
  | x :: xs, b, ha, hb => ⟨ha.1, readOKSs_append xs b ha.2 hb⟩

theorem vars_ok : ∀ (ns : List Spec.Name), (ns.all fun p => jsIdOk p) = true →
    LexOKSs (ns.map JS.var) ∧ ReadOKSs (ns.map JS.var)
  | [], _ => ⟨trivial, trivial⟩
  | n :: ns, h => by
    simp only [List.all_cons, Bool.and_eq_true] at h
    obtain ⟨a, b⟩ := vars_ok ns h.2
    exact ⟨⟨jsIdOk_lex n h.1, a⟩, ⟨trivial, b⟩⟩

theorem toJsFunc_ok (hs : List Spec.Name) (h : Handler) (hok : JsOkH h = true) :
    LexOKF (toJsFunc hs false h) ∧ ReadOKF (toJsFunc hs false h) := by
  simp only [JsOkH, Bool.and_eq_true] at hok
  obtain ⟨⟨⟨hname, hparams⟩, hlocals⟩, hbody⟩ := hok
  have hnew' : ¬ (h.name = "new".toList ∧ (!false) = true) := fun e => jsIdOk_not_kw h.name hname "new" (by decide) e.1
  obtain ⟨v1, v2⟩ := vars_ok h.locals hlocals
  obtain ⟨b1, b2⟩ := toJsTs_ok hs h.body hbody
  constructor
  · refine ⟨?_, ?_, ?_⟩
    · simp only [toJsFunc, hnew', if_false]; exact jsIdOk_lex _ hname
    · simp only [toJsFunc, Bool.false_eq_true, if_false]; exact lexOKL_ids _ hparams
    · simp only [toJsFunc]; exact lexOKSs_append _ _ v1 b1
  · refine ⟨?_, ?_, ?_⟩
    · simp only [toJsFunc, hnew', if_false]; exact jsIdOk_nonkw _ hname
    · intro r; simp only [toJsFunc, Bool.false_eq_true, if_false]; exact jParams_ids h.params r
    · simp only [toJsFunc]; exact readOKSs_append _ _ v2 b2

theorem lexOKL_ids' : ∀ (ns : List Spec.Name), (∀ n ∈ ns, jsIdOk n = true) → LexOKL (ns.map JE.id)
  | [], _ => trivial
  | n :: ns, h => ⟨jsIdOk_lex n (h n (by simp)), lexOKL_ids' ns (fun x hx => h x (by simp [hx]))⟩

/-- the same for a method of a class (`inClass`: the receiver parameter `me` is dropped, `new` is not renamed) -/
theorem toJsFunc_ok_c (hs : List Spec.Name) (h : Handler) (hok : JsOkH h = true) :
    LexOKF (toJsFunc hs true h) ∧ ReadOKF (toJsFunc hs true h) := by
  simp only [JsOkH, Bool.and_eq_true] at hok
  obtain ⟨⟨⟨hname, hparams⟩, hlocals⟩, hbody⟩ := hok
  have hnew' : ¬ (h.name = "new".toList ∧ (!true) = true) := fun e => by simp at e
  obtain ⟨v1, v2⟩ := vars_ok h.locals hlocals
  obtain ⟨b1, b2⟩ := toJsTs_ok hs h.body hbody
  have hp : ∀ n ∈ h.params.filter (· ≠ "me".toList), jsIdOk n = true := by
    intro n hn
    rw [List.all_eq_true] at hparams
    exact hparams n (List.mem_filter.mp hn).1
  constructor
  · refine ⟨?_, ?_, ?_⟩
    · simp only [toJsFunc, hnew', if_false]; exact jsIdOk_lex _ hname
    · simp only [toJsFunc, if_true]; exact lexOKL_ids' _ hp
    · simp only [toJsFunc]; exact lexOKSs_append _ _ v1 b1
  · refine ⟨?_, ?_, ?_⟩
    · simp only [toJsFunc, hnew', if_false]; exact jsIdOk_nonkw _ hname
    · intro r; simp only [toJsFunc, if_true]; exact jParams_ids _ r
    · simp only [toJsFunc]; exact readOKSs_append _ _ v2 b2

mutual
theorem stW_le : ∀ (s : JS), ReadOKS s → stW s + 1 ≤ (prS s).length
  | .ifs c t e, h => by
    simp only [ReadOKS] at h
    have h1 := ssW_le t h.2.1
    have h2 := ssW_le e h.2.2
    cases e with
    | nil => simp only [stW, ssW, prS, List.isEmpty_nil, if_true, List.length_cons, List.length_append, List.length_nil]; omega
    | cons x xs =>
      simp only [stW, prS, List.isEmpty_cons, Bool.false_eq_true, if_false, List.length_cons, List.length_append, List.length_nil] at h2 ⊢
      omega
  | .while c b, h => by
    simp only [ReadOKS] at h
    have h1 := ssW_le b h.2
    simp only [stW, prS, List.length_cons, List.length_append, List.length_nil]; omega
  | .for3 v a c d b, h => by
    simp only [ReadOKS] at h
    have h1 := ssW_le b h.2.2.2
    simp only [stW, prS, List.length_cons, List.length_append, List.length_nil]; omega
  | .expr e, h => by have := prS_length _ h; simp only [stW]; omega
  | .assign l r, h => by have := prS_length _ h; simp only [stW]; omega
  | .ret es, h => by have := prS_length _ h; simp only [stW]; omega
  | .var n, h => by have := prS_length _ h; simp only [stW]; omega
  | .brk, h => absurd h (by simp [ReadOKS])
  | .forOf v l b, h => by
    simp only [ReadOKS] at h
    have h1 := ssW_le b h.2.2
    simp only [stW, prS, List.length_cons, List.length_append, List.length_nil]; omega
  | .with _ _, h => absurd h (by simp [ReadOKS])
theorem ssW_le : ∀ (b : List JS), ReadOKSs b → ssW b ≤ (prBody b).length
  | [], _ => by simp [ssW]
  | s :: ss, h => by
    simp only [ReadOKSs] at h
    have := stW_le s h.1
    have := ssW_le ss h.2
    simp only [ssW, prBody, List.length_append]; omega
end

theorem prBody_length (b : List JS) (h : ReadOKSs b) : ssW b ≤ (prBody b).length := ssW_le b h

theorem prTop_func_length (f : JFunc) (h : ReadOKF f) : ssW f.body + 1 ≤ (prTop (.func f)).length := by
  have := prBody_length f.body h.body
  simp only [prTop, prMethod, List.length_cons, List.length_append, List.length_nil]; omega

theorem prProg_length (fs : List JFunc) (h : ∀ f ∈ fs, ReadOKF f) :
    fs.length ≤ (prProg (fs.map JTop.func)).length ∧ ∀ f ∈ fs, ssW f.body ≤ (prProg (fs.map JTop.func)).length := by
  induction fs with
  | nil => simp [prProg]
  | cons g gs ih =>
    obtain ⟨i1, i2⟩ := ih (fun f hf => h f (by simp [hf]))
    have hg := prTop_func_length g (h g (by simp))
    have e : prProg ((g :: gs).map JTop.func) = prTop (.func g) ++ prProg (gs.map JTop.func) := by simp [prProg]
    rw [e]
    refine ⟨by simp only [List.length_cons, List.length_append]; omega, ?_⟩
    intro f hf
    rcases List.mem_cons.mp hf with rfl | hf
    · simp only [List.length_append]; omega
    · have := i2 f hf; simp only [List.length_append]; omega

/-- **J6 (reading, plain scripts)**: lexing and parsing the text of a function list -/
theorem readJs_funcs (fs : List JFunc) (h : ∀ f ∈ fs, LexOKF f ∧ ReadOKF f) : readJs (txFuncs fs true) = some (fs.map JTop.func) := by
  have hl := (lexFuncs fs (fun f hf => (h f hf).1) true []).whole
  obtain ⟨l1, l2⟩ := prProg_length fs (fun f hf => (h f hf).2)
  unfold readJs
  rw [hl]
  simp only [Option.bind_some, parseJsProg]
  exact jTops_funcs _ fs (fun f hf => ⟨(h f hf).2, by have := l2 f hf; omega⟩) _ (by omega)

/-! ### plain scripts -/

/-- what the container layer establishes about a parsed plain script -/
structure ScriptRelJ (s : Spec.Script) (t : Lscr.Script) : Prop where
  props : t.properties = s.props
  fac : t.factoryName = []
  funcs : Rel2 (FuncRelJ (s.handlers.map (·.name))) s.handlers t.functions

theorem names_no_return : ∀ (hl : List Handler), JsOkHs hl = true → (hl.map (·.name)).contains (S "return") = false
  | [], _ => rfl
  | h :: hl, hok => by
    simp only [JsOkHs, Bool.and_eq_true] at hok
    have ih := names_no_return hl hok.2
    have hn : jsIdOk h.name = true := by
      have := hok.1; simp only [JsOkH, Bool.and_eq_true] at this; exact this.1.1.1
    have hne : h.name ≠ S "return" := jsIdOk_not_kw h.name hn "return" (by decide)
    simp only [List.map_cons, List.contains_cons, Bool.or_eq_false_iff, beq_eq_false_iff_ne, ne_eq]
    exact ⟨fun e => hne e.symm, ih⟩

/-- **J6, plain scripts (no properties, no factory)**: the model's `generate_js_code` returns a text that the spec reader
    reads as exactly `toJs s` -/
theorem jsText_plain (n : Nat) (s : Spec.Script) (t : Lscr.Script) (hr : ScriptRelJ s t) (hfac : s.factory = []) (hprops : s.props = [])
    (hok : JsOkHs s.handlers = true) :
    ∃ text, jsText t = .ok text ∧ readJs text = some (toJs n s) := by
  have hret := names_no_return s.handlers hok
  have htext := commonFuncsJs_rel (s.handlers.map (·.name)) hret s.handlers t.functions hr.funcs hok true
  refine ⟨txFuncs (s.handlers.map (toJsFunc (s.handlers.map (·.name)) false)) true, ?_, ?_⟩
  · unfold jsText
    rw [hr.fac, hr.props, hprops]
    simpa using htext
  · have hall : ∀ f ∈ s.handlers.map (toJsFunc (s.handlers.map (·.name)) false), LexOKF f ∧ ReadOKF f := by
      intro f hf
      obtain ⟨h, hh, rfl⟩ := List.mem_map.mp hf
      have : JsOkH h = true := by
        have : ∀ (l : List Handler), JsOkHs l = true → ∀ x ∈ l, JsOkH x = true := by
          intro l; induction l with
          | nil => intro _ x hx; cases hx
          | cons a as ih =>
            intro hl x hx
            simp only [JsOkHs, Bool.and_eq_true] at hl
            rcases List.mem_cons.mp hx with rfl | hx
            · exact hl.1
            · exact ih hl.2 x hx
        exact this _ hok h hh
      exact toJsFunc_ok _ h this
    rw [readJs_funcs _ hall]
    have hf' : ¬ s.factory ≠ [] := by simp [hfac]
    have hp' : ¬ s.props ≠ [] := by simp [hprops]
    simp only [toJs, hf', hp', if_false, List.map_map, Function.comp_def]

end Drx.LinkJs
