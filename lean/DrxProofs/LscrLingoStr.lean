/-
  Property C11, Lingo string literals: `replace_chars_with_lingo_constants` (the five `replLoop` passes) turns the stored
  text of a string made of safe characters into an expression that Lingo reads back as the string.

  Method: the reader `lrun (some J)` reads an intermediate text in which the escape sequences in `J` still stand for their
  characters. The QUOTE pass produces a text that `lrun (some J0)` accepts with the right value; every later pass removes one
  escape from `J` without changing the value; `lrun (some [])` accepts only texts without a backslash inside a string, on
  which it is Lingo's own reader `lrun none`.
-/
import Drx.Lscr
import Drx.Lscr.LitEval
import DrxProofs.LscrConst
namespace Drx.Lscr
open Drx

/-! ### the scanner: basic facts -/

def LM.alive (m : LM) : Prop := m.q ≠ .X

theorem lstep_dead (e : Option (List Str)) (o : Str) (c : Char) : lstep e ⟨.X, o⟩ c = ⟨.X, o⟩ := by simp [lstep]

theorem lrun_dead (e : Option (List Str)) (o : Str) (s : Str) : lrun e ⟨.X, o⟩ s = ⟨.X, o⟩ := by
  induction s with
  | nil => rfl
  | cons c cs ih => rw [lrun_cons, lstep_dead, ih]

theorem lfinal_dead (o : Str) : lfinal ⟨.X, o⟩ = none := rfl

/-- a run that ends in acceptance was alive after every prefix -/
theorem alive_of_accept (e : Option (List Str)) (m : LM) (s : Str) (t : Str) (h : lfinal (lrun e m s) = some t) : m.q ≠ .X := by
  intro hq
  obtain ⟨q, o⟩ := m
  simp only at hq
  subst hq
  rw [lrun_dead] at h
  simp [lfinal] at h

/-- the escape sequences of the table, and what the proofs need to know about a set `J` of them -/
structure EscSet (J : List Str) : Prop where
  noBackslash : ∀ e ∈ J, '\\' ∉ e
  noQuote : ∀ e ∈ J, '"' ∉ e
  nonempty : ∀ e ∈ J, e ≠ []
  prefixFree : ∀ a ∈ J, ∀ b ∈ J, a.isPrefixOf b = true → a = b
  inTable : ∀ e ∈ J, (escTable.lookup e).isSome = true

def J0 : List Str := [['x', '0', '8'], ['x', '0', '3'], ['r'], ['t']]
def J1 : List Str := [['x', '0', '3'], ['r'], ['t']]
def J2 : List Str := [['r'], ['t']]
def J3 : List Str := [['t']]

theorem escSet_J0 : EscSet J0 := ⟨by decide, by decide, by decide, by decide, by decide⟩
theorem escSet_J1 : EscSet J1 := ⟨by decide, by decide, by decide, by decide, by decide⟩
theorem escSet_J2 : EscSet J2 := ⟨by decide, by decide, by decide, by decide, by decide⟩
theorem escSet_J3 : EscSet J3 := ⟨by decide, by decide, by decide, by decide, by decide⟩
theorem escSet_nil : EscSet [] := ⟨by simp, by simp, by simp, by simp, by simp⟩

/-! ### escape sequences -/

theorem lstep_E (J : List Str) (p o : Str) (c : Char) :
    lstep (some J) ⟨.E p, o⟩ c =
      if p ++ [c] ∈ J then
        (match escTable.lookup (p ++ [c]) with
         | some d => ⟨.S, o ++ [d]⟩
         | none => ⟨.X, o⟩)
      else if J.any (fun e => (p ++ [c]).isPrefixOf e) then ⟨.E (p ++ [c]), o⟩ else ⟨.X, o⟩ := by
  simp only [lstep]
  by_cases h1 : p ++ [c] ∈ J
  · simp only [h1, if_true]
  · simp only [h1, if_false]
    by_cases h2 : J.any (fun e => (p ++ [c]).isPrefixOf e) = true
    · simp only [h2, if_true]
    · have : J.any (fun e => (p ++ [c]).isPrefixOf e) = false := by simpa using h2
      simp only [this, Bool.false_eq_true, if_false]

/-- reading the rest of an escape sequence of `J` from inside it ends in the string with the character appended -/
theorem lrun_escape (J : List Str) (hJ : EscSet J) (e : Str) (he : e ∈ J) (d : Char) (hd : escTable.lookup e = some d) :
    ∀ (q p o : Str), p ++ q = e → q ≠ [] → lrun (some J) ⟨.E p, o⟩ q = ⟨.S, o ++ [d]⟩ := by
  intro q
  induction q with
  | nil => intro p o _ h; exact absurd rfl h
  | cons c cs ih =>
    intro p o hpq _
    rw [lrun_cons, lstep_E]
    by_cases hcs : cs = []
    · subst hcs
      have : p ++ [c] = e := by simpa using hpq
      simp only [this, he, if_true, hd, lrun_nil]
    · have hpre : (p ++ [c]) ++ cs = e := by simpa using hpq
      have hnot : p ++ [c] ∉ J := by
        intro hm
        have hpf : (p ++ [c]).isPrefixOf e = true := by
          rw [List.isPrefixOf_iff_prefix]; exact ⟨cs, hpre⟩
        have := hJ.prefixFree _ hm _ he hpf
        rw [← hpre] at this
        have hl := congrArg List.length this
        simp only [List.length_append] at hl
        exact hcs (List.eq_nil_of_length_eq_zero (by omega))
      have hany : J.any (fun x => (p ++ [c]).isPrefixOf x) = true := by
        rw [List.any_eq_true]
        exact ⟨e, he, by rw [List.isPrefixOf_iff_prefix]; exact ⟨cs, hpre⟩⟩
      simp only [hnot, if_false, hany, if_true]
      exact ih (p ++ [c]) o hpre hcs

/-- a backslash and an escape sequence of `J`, read inside a string -/
theorem lrun_backslash_escape (J : List Str) (hJ : EscSet J) (e : Str) (he : e ∈ J) (d : Char) (hd : escTable.lookup e = some d) (o : Str) :
    lrun (some J) ⟨.S, o⟩ ('\\' :: e) = ⟨.S, o ++ [d]⟩ := by
  rw [lrun_cons]
  have : lstep (some J) ⟨.S, o⟩ '\\' = ⟨.E [], o⟩ := by simp [lstep]
  rw [this]
  exact lrun_escape J hJ e he d hd e [] o rfl (hJ.nonempty e he)

/-- if the scanner is inside an escape sequence and the text is accepted in the end, then some sequence of `J` is being read -/
theorem escape_completes (J : List Str) : ∀ (r p o t : Str), lfinal (lrun (some J) ⟨.E p, o⟩ r) = some t →
    ∃ e ∈ J, p <+: e ∧ e <+: p ++ r := by
  intro r
  induction r with
  | nil => intro p o t h; simp [lrun, lfinal] at h
  | cons c cs ih =>
    intro p o t h
    rw [lrun_cons, lstep_E] at h
    by_cases hm : p ++ [c] ∈ J
    · exact ⟨p ++ [c], hm, ⟨[c], rfl⟩, ⟨cs, by simp⟩⟩
    · simp only [hm, if_false] at h
      by_cases hany : J.any (fun x => (p ++ [c]).isPrefixOf x) = true
      · simp only [hany, if_true] at h
        obtain ⟨e, he, hp1, hp2⟩ := ih (p ++ [c]) o t h
        refine ⟨e, he, ?_, ?_⟩
        · exact List.IsPrefix.trans ⟨[c], rfl⟩ hp1
        · simpa using hp2
      · have hany' : J.any (fun x => (p ++ [c]).isPrefixOf x) = false := by simpa using hany
        simp only [hany', Bool.false_eq_true, if_false] at h
        rw [lrun_dead] at h
        simp [lfinal] at h

end Drx.Lscr
