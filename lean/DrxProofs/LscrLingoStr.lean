/-
  Property C11, Lingo string literals: `replace_chars_with_lingo_constants` (the five `replLoop` passes) turns the stored
  text of a string made of safe characters into an expression that Lingo reads back as the string.

  Method: the reader `lrun (some J)` reads an intermediate text in which the escape sequences in `J` still stand for their
  characters. The QUOTE pass produces a text that `lrun (some J0)` accepts with the right value; every later pass removes one
  escape from `J` without changing the value; `lrun (some [])` accepts only texts without a backslash inside a string, on
  which it is Lingo's own reader `lrun none`.
-/
import Drx.Lscr
import Drx.Lscr.LitEval
import DrxProofs.LscrConst
namespace Drx.Lscr
open Drx

/-! ### the scanner: basic facts -/

def LM.alive (m : LM) : Prop := m.q ≠ .X

theorem lstep_dead (e : Option (List Str)) (o : Str) (c : Char) : lstep e ⟨.X, o⟩ c = ⟨.X, o⟩ := by simp [lstep]

theorem lrun_dead (e : Option (List Str)) (o : Str) (s : Str) : lrun e ⟨.X, o⟩ s = ⟨.X, o⟩ := by
  induction s with
  | nil => rfl
  | cons c cs ih => rw [lrun_cons, lstep_dead, ih]

theorem lfinal_dead (o : Str) : lfinal ⟨.X, o⟩ = none := rfl

/-- a run that ends in acceptance was alive after every prefix -/
theorem alive_of_accept (e : Option (List Str)) (m : LM) (s : Str) (t : Str) (h : lfinal (lrun e m s) = some t) : m.q ≠ .X := by
  intro hq
  obtain ⟨q, o⟩ := m
  simp only at hq
  subst hq
  rw [lrun_dead] at h
  simp [lfinal] at h

/-- the escape sequences of the table, and what the proofs need to know about a set `J` of them -/
structure EscSet (J : List Str) : Prop where
  noBackslash : ∀ e ∈ J, '\\' ∉ e
  noQuote : ∀ e ∈ J, '"' ∉ e
  nonempty : ∀ e ∈ J, e ≠ []
  prefixFree : ∀ a ∈ J, ∀ b ∈ J, a.isPrefixOf b = true → a = b
  inTable : ∀ e ∈ J, (escTable.lookup e).isSome = true

def J0 : List Str := [['x', '0', '8'], ['x', '0', '3'], ['r'], ['t']]
def J1 : List Str := [['x', '0', '3'], ['r'], ['t']]
def J2 : List Str := [['r'], ['t']]
def J3 : List Str := [['t']]

theorem escSet_J0 : EscSet J0 := ⟨by decide, by decide, by decide, by decide, by decide⟩
theorem escSet_J1 : EscSet J1 := ⟨by decide, by decide, by decide, by decide, by decide⟩
theorem escSet_J2 : EscSet J2 := ⟨by decide, by decide, by decide, by decide, by decide⟩
theorem escSet_J3 : EscSet J3 := ⟨by decide, by decide, by decide, by decide, by decide⟩
theorem escSet_nil : EscSet [] := ⟨by simp, by simp, by simp, by simp, by simp⟩

/-! ### escape sequences -/

theorem lstep_E (J : List Str) (p o : Str) (c : Char) :
    lstep (some J) ⟨.E p, o⟩ c =
      if p ++ [c] ∈ J then
        (match escTable.lookup (p ++ [c]) with
         | some d => ⟨.S, o ++ [d]⟩
         | none => ⟨.X, o⟩)
      else if J.any (fun e => (p ++ [c]).isPrefixOf e) then ⟨.E (p ++ [c]), o⟩ else ⟨.X, o⟩ := by
  simp only [lstep]
  by_cases h1 : p ++ [c] ∈ J
  · simp only [h1, if_true]
    rfl
  · simp only [h1, if_false]

/-- reading the rest of an escape sequence of `J` from inside it ends in the string with the character appended -/
theorem lrun_escape (J : List Str) (hJ : EscSet J) (e : Str) (he : e ∈ J) (d : Char) (hd : escTable.lookup e = some d) :
    ∀ (q p o : Str), p ++ q = e → q ≠ [] → lrun (some J) ⟨.E p, o⟩ q = ⟨.S, o ++ [d]⟩ := by
  intro q
  induction q with
  | nil => intro p o _ h; exact absurd rfl h
  | cons c cs ih =>
    intro p o hpq _
    rw [lrun_cons, lstep_E]
    by_cases hcs : cs = []
    · subst hcs
      have : p ++ [c] = e := by simpa using hpq
      simp only [this, he, if_true, hd, lrun_nil]
    · have hpre : (p ++ [c]) ++ cs = e := by simpa using hpq
      have hnot : p ++ [c] ∉ J := by
        intro hm
        have hpf : (p ++ [c]).isPrefixOf e = true := by
          rw [List.isPrefixOf_iff_prefix]; exact ⟨cs, hpre⟩
        have := hJ.prefixFree _ hm _ he hpf
        rw [← hpre] at this
        have hl := congrArg List.length this
        simp only [List.length_append] at hl
        exact hcs (List.eq_nil_of_length_eq_zero (by omega))
      have hany : J.any (fun x => (p ++ [c]).isPrefixOf x) = true := by
        rw [List.any_eq_true]
        exact ⟨e, he, by rw [List.isPrefixOf_iff_prefix]; exact ⟨cs, hpre⟩⟩
      simp only [hnot, if_false, hany, if_true]
      exact ih (p ++ [c]) o hpre hcs

/-- a backslash and an escape sequence of `J`, read inside a string -/
theorem lrun_backslash_escape (J : List Str) (hJ : EscSet J) (e : Str) (he : e ∈ J) (d : Char) (hd : escTable.lookup e = some d) (o : Str) :
    lrun (some J) ⟨.S, o⟩ ('\\' :: e) = ⟨.S, o ++ [d]⟩ := by
  rw [lrun_cons]
  have : lstep (some J) ⟨.S, o⟩ '\\' = ⟨.E [], o⟩ := by simp [lstep]
  rw [this]
  exact lrun_escape J hJ e he d hd e [] o rfl (hJ.nonempty e he)

/-- if the scanner is inside an escape sequence and the text is accepted in the end, then some sequence of `J` is being read -/
theorem escape_completes (J : List Str) : ∀ (r p o t : Str), lfinal (lrun (some J) ⟨.E p, o⟩ r) = some t →
    ∃ e ∈ J, p <+: e ∧ e <+: p ++ r := by
  intro r
  induction r with
  | nil => intro p o t h; simp [lrun, lfinal] at h
  | cons c cs ih =>
    intro p o t h
    rw [lrun_cons, lstep_E] at h
    by_cases hm : p ++ [c] ∈ J
    · exact ⟨p ++ [c], hm, ⟨[c], rfl⟩, ⟨cs, by simp⟩⟩
    · simp only [hm, if_false] at h
      by_cases hany : J.any (fun x => (p ++ [c]).isPrefixOf x) = true
      · simp only [hany, if_true] at h
        obtain ⟨e, he, hp1, hp2⟩ := ih (p ++ [c]) o t h
        refine ⟨e, he, ?_, ?_⟩
        · exact List.IsPrefix.trans ⟨[c], rfl⟩ hp1
        · simpa using hp2
      · have hany' : J.any (fun x => (p ++ [c]).isPrefixOf x) = false := by simpa using hany
        simp only [hany', Bool.false_eq_true, if_false] at h
        rw [lrun_dead] at h
        simp [lfinal] at h

/-! ### one escape pass: the scanner with and without the escape that is being replaced -/

/-- the escape set after the pass for `e` -/
def dropEsc (J : List Str) (e : Str) : List Str := J.filter (· ≠ e)

theorem mem_dropEsc (J : List Str) (e x : Str) : x ∈ dropEsc J e ↔ x ∈ J ∧ x ≠ e := by
  simp [dropEsc]

/-- outside an escape sequence a step does not look at the escape set -/
theorem lstep_same (J J' : List Str) (m : LM) (c : Char) (h : ∀ p, m.q ≠ .E p) :
    lstep (some J') m c = lstep (some J) m c := by
  obtain ⟨q, o⟩ := m
  cases q with
  | E p => exact absurd rfl (h p)
  | _ => simp [lstep]

/-- a backslash can only be read inside a string -/
theorem backslash_needs_S (J : List Str) (hJ : EscSet J) (m : LM) (r t : Str)
    (h : lfinal (lrun (some J) m ('\\' :: r)) = some t) : m.q = .S := by
  obtain ⟨q, o⟩ := m
  rw [lrun_cons] at h
  cases q with
  | S => rfl
  | T => simp [lstep, isIdentStart] at h; rw [lrun_dead] at h; simp [lfinal] at h
  | N acc =>
    have : lstep (some J) ⟨.N acc, o⟩ '\\' = ⟨.X, o⟩ := by simp [lstep, isIdentChar]
    rw [this, lrun_dead] at h; simp [lfinal] at h
  | A k =>
    have : lstep (some J) ⟨.A k, o⟩ '\\' = ⟨.X, o⟩ := by simp [lstep]
    rw [this, lrun_dead] at h; simp [lfinal] at h
  | X => rw [lstep_dead, lrun_dead] at h; simp [lfinal] at h
  | E p =>
    rw [lstep_E] at h
    have h1 : p ++ ['\\'] ∉ J := fun hm => hJ.noBackslash _ hm (by simp)
    have h2 : J.any (fun e => (p ++ ['\\']).isPrefixOf e) = false := by
      rw [List.any_eq_false]
      intro e he hp
      rw [List.isPrefixOf_iff_prefix] at hp
      obtain ⟨s, hs⟩ := hp
      exact hJ.noBackslash e he (by rw [← hs]; simp)
    simp only [h1, if_false, h2, Bool.false_eq_true] at h
    rw [lrun_dead] at h; simp [lfinal] at h

/-- one character that is not the start of an occurrence of the escape being replaced: both scanners move alike -/
theorem esc_step (J : List Str) (hJ : EscSet J) (e : Str) (he : e ∈ J) (m : LM) (c : Char) (r t : Str)
    (hrun : lfinal (lrun (some J) m (c :: r)) = some t)
    (hI3 : ∀ p, m.q = .E p → ¬ e <+: p ++ c :: r)
    (hnm : m.q = .S → c = '\\' → ¬ e <+: r) :
    lstep (some (dropEsc J e)) m c = lstep (some J) m c ∧
      (∀ p, (lstep (some J) m c).q = .E p → ¬ e <+: p ++ r) := by
  obtain ⟨q, o⟩ := m
  rw [lrun_cons] at hrun
  cases q with
  | E p =>
    have hI := hI3 p rfl
    rw [lstep_E, lstep_E]
    rw [lstep_E] at hrun
    by_cases hm : p ++ [c] ∈ J
    · have hne : p ++ [c] ≠ e := by
        intro heq; apply hI; rw [← heq]; exact ⟨r, by simp⟩
      have hm' : p ++ [c] ∈ dropEsc J e := (mem_dropEsc J e _).2 ⟨hm, hne⟩
      simp only [hm, hm', if_true]
      refine ⟨trivial, ?_⟩
      intro p' hq
      cases hl : escTable.lookup (p ++ [c]) <;> simp [hl] at hq
    · simp only [hm, if_false] at hrun ⊢
      have hm' : p ++ [c] ∉ dropEsc J e := fun h => hm ((mem_dropEsc J e _).1 h).1
      simp only [hm', if_false]
      by_cases hany : J.any (fun x => (p ++ [c]).isPrefixOf x) = true
      · simp only [hany, if_true] at hrun ⊢
        obtain ⟨e', he', hp1, hp2⟩ := escape_completes J r (p ++ [c]) o t hrun
        have hne : e' ≠ e := by
          intro heq; subst heq; apply hI; simpa using hp2
        have hany' : (dropEsc J e).any (fun x => (p ++ [c]).isPrefixOf x) = true := by
          rw [List.any_eq_true]
          exact ⟨e', (mem_dropEsc J e e').2 ⟨he', hne⟩, by rw [List.isPrefixOf_iff_prefix]; exact hp1⟩
        simp only [hany', if_true]
        refine ⟨trivial, ?_⟩
        intro p' hq
        simp only [LQ.E.injEq] at hq
        subst hq
        simpa using hI
      · have hany0 : J.any (fun x => (p ++ [c]).isPrefixOf x) = false := by simpa using hany
        simp only [hany0, Bool.false_eq_true, if_false] at hrun
        rw [lrun_dead] at hrun; simp [lfinal] at hrun
  | S =>
    refine ⟨lstep_same J _ _ c (by intro p; simp), ?_⟩
    intro p hq
    by_cases hc : c = '\\'
    · subst hc
      have : lstep (some J) ⟨.S, o⟩ '\\' = ⟨.E [], o⟩ := by simp [lstep]
      rw [this] at hq
      simp only [LQ.E.injEq] at hq
      subst hq
      simpa using hnm rfl rfl
    · exfalso
      by_cases hq2 : c = '"'
      · subst hq2; simp [lstep] at hq
      · simp [lstep, hc, hq2] at hq
  | T =>
    refine ⟨lstep_same J _ _ c (by intro p; simp), ?_⟩
    intro p hq
    exfalso
    simp only [lstep] at hq
    split at hq <;> (try split at hq) <;> simp at hq
  | N acc =>
    refine ⟨lstep_same J _ _ c (by intro p; simp), ?_⟩
    intro p hq
    exfalso
    simp only [lstep] at hq
    split at hq
    · simp at hq
    · split at hq
      · split at hq <;> simp at hq
      · simp at hq
  | A k =>
    refine ⟨lstep_same J _ _ c (by intro p; simp), ?_⟩
    intro p hq
    exfalso
    simp only [lstep] at hq
    split at hq <;> (try split at hq) <;> (try split at hq) <;> simp at hq
  | X =>
    refine ⟨lstep_same J _ _ c (by intro p; simp), ?_⟩
    intro p hq
    simp [lstep] at hq

theorem findFrom_limit (s p : Str) (k limit : Nat) (h : k + p.length > limit) : findFrom s p k limit = none := by
  unfold findFrom; simp [h]

/-- what `str.find` (as `findFrom`) does on the rest of the text, seen by the two scanners: either the escape does not occur any
    more and the scanner without it reads the rest like the scanner with it, or the first occurrence is found, inside a string -/
theorem esc_scan (J : List Str) (hJ : EscSet J) (e : Str) (he : e ∈ J) (d : Char) (hd : escTable.lookup e = some d)
    (t : Str) (limit : Nat) :
    ∀ (rest : Str) (m : LM) (k : Nat),
      lfinal (lrun (some J) m rest) = some t →
      (∀ p, m.q = .E p → ¬ e <+: p ++ rest) →
      k + rest.length = limit + 1 →
      match findFrom rest ('\\' :: e) k limit with
      | none => lrun (some (dropEsc J e)) m rest = lrun (some J) m rest
      | some p => ∃ a B, rest = a ++ ('\\' :: e) ++ B ∧ p = k + a.length ∧
          lrun (some (dropEsc J e)) m a = lrun (some J) m a ∧ (lrun (some J) m a).q = .S := by
  intro rest
  induction rest with
  | nil =>
    intro m k _ _ hk
    rw [findFrom]
    have : k + ('\\' :: e).length > limit := by simp at hk ⊢; omega
    simp [this, lrun]
  | cons c r ih =>
    intro m k hrun hI3 hk
    rw [findFrom]
    -- the step lemma, once we know that no occurrence starts here
    have step (hnm : m.q = .S → c = '\\' → ¬ e <+: r) := esc_step J hJ e he m c r t hrun hI3 hnm
    have hrun' : lfinal (lrun (some J) (lstep (some J) m c) r) = some t := by rw [lrun_cons] at hrun; exact hrun
    by_cases hlim : k + ('\\' :: e).length > limit
    · simp only [hlim, if_true]
      -- too close to the end for an occurrence: the text would end inside the string
      have hnm : m.q = .S → c = '\\' → ¬ e <+: r := by
        intro hS hc hpre
        obtain ⟨s, hs⟩ := hpre
        have hl : r.length = e.length + s.length := by rw [← hs]; simp
        have hs0 : s = [] := by
          apply List.eq_nil_of_length_eq_zero
          simp only [List.length_cons] at hk hlim
          omega
        subst hs0
        simp only [List.append_nil] at hs
        subst hs; subst hc
        obtain ⟨q, o⟩ := m
        simp only at hS; subst hS
        rw [lrun_backslash_escape J hJ e he d hd] at hrun
        simp [lfinal] at hrun
      obtain ⟨h1, h2⟩ := step hnm
      have hk' : k + 1 + r.length = limit + 1 := by simp only [List.length_cons] at hk; omega
      have := ih (lstep (some J) m c) (k + 1) hrun' h2 hk'
      have hnone : findFrom r ('\\' :: e) (k + 1) limit = none :=
        findFrom_limit r _ (k + 1) limit (by omega)
      rw [hnone] at this
      simp only at this
      rw [lrun_cons, lrun_cons, h1, this]
    · simp only [hlim, if_false]
      by_cases hpre : (('\\' :: e).isPrefixOf (c :: r)) = true
      · simp only [hpre, if_true]
        rw [List.isPrefixOf_iff_prefix] at hpre
        obtain ⟨B, hB⟩ := hpre
        refine ⟨[], B, by simpa using hB.symm, by simp, rfl, ?_⟩
        have hc : c = '\\' := by
          have := congrArg List.head? hB; simpa using this.symm
        subst hc
        simpa [lrun] using backslash_needs_S J hJ m r t hrun
      · have hpre' : (('\\' :: e).isPrefixOf (c :: r)) = false := (Bool.not_eq_true _).mp hpre
        simp only [hpre', Bool.false_eq_true, if_false]
        have hnm : m.q = .S → c = '\\' → ¬ e <+: r := by
          intro _ hc hp
          subst hc
          apply hpre
          rw [List.isPrefixOf_iff_prefix]
          obtain ⟨s, hs⟩ := hp
          exact ⟨s, by rw [← hs]; simp⟩
        obtain ⟨h1, h2⟩ := step hnm
        have hk' : k + 1 + r.length = limit + 1 := by simp only [List.length_cons] at hk; omega
        have := ih (lstep (some J) m c) (k + 1) hrun' h2 hk'
        cases hf : findFrom r ('\\' :: e) (k + 1) limit with
        | none =>
          rw [hf] at this
          simp only at this ⊢
          rw [lrun_cons, lrun_cons, h1, this]
        | some p =>
          rw [hf] at this
          simp only at this ⊢
          obtain ⟨a, B, hr, hp, hrunA, hS⟩ := this
          refine ⟨c :: a, B, by rw [hr]; simp, by simp; omega, ?_, ?_⟩
          · rw [lrun_cons, lrun_cons, h1, hrunA]
          · rw [lrun_cons]; exact hS

end Drx.Lscr
