/-
  Property C11, Lingo string literals: `replace_chars_with_lingo_constants` (the five `replLoop` passes) turns the stored
  text of a string made of safe characters into an expression that Lingo reads back as the string.

  Method: the reader `lrun (some J)` reads an intermediate text in which the escape sequences in `J` still stand for their
  characters. The QUOTE pass produces a text that `lrun (some J0)` accepts with the right value; every later pass removes one
  escape from `J` without changing the value; `lrun (some [])` accepts only texts without a backslash inside a string, on
  which it is Lingo's own reader `lrun none`.
-/
import Drx.Lscr
import Drx.Lscr.LitEval
import DrxProofs.LscrConst
namespace Drx.Lscr
open Drx

/-! ### the scanner: basic facts -/

def LM.alive (m : LM) : Prop := m.q ≠ .X

theorem lstep_dead (e : Option (List Str)) (o : Str) (c : Char) : lstep e ⟨.X, o⟩ c = ⟨.X, o⟩ := by simp [lstep]

theorem lrun_dead (e : Option (List Str)) (o : Str) (s : Str) : lrun e ⟨.X, o⟩ s = ⟨.X, o⟩ := by
  induction s with
  | nil => rfl
  | cons c cs ih => rw [lrun_cons, lstep_dead, ih]

theorem lfinal_dead (o : Str) : lfinal ⟨.X, o⟩ = none := rfl

/-- a run that ends in acceptance was alive after every prefix -/
theorem alive_of_accept (e : Option (List Str)) (m : LM) (s : Str) (t : Str) (h : lfinal (lrun e m s) = some t) : m.q ≠ .X := by
  intro hq
  obtain ⟨q, o⟩ := m
  simp only at hq
  subst hq
  rw [lrun_dead] at h
  simp [lfinal] at h

/-- the escape sequences of the table, and what the proofs need to know about a set `J` of them -/
structure EscSet (J : List Str) : Prop where
  noBackslash : ∀ e ∈ J, '\\' ∉ e
  noQuote : ∀ e ∈ J, '"' ∉ e
  nonempty : ∀ e ∈ J, e ≠ []
  prefixFree : ∀ a ∈ J, ∀ b ∈ J, a.isPrefixOf b = true → a = b
  inTable : ∀ e ∈ J, (escTable.lookup e).isSome = true

def J0 : List Str := [['x', '0', '8'], ['x', '0', '3'], ['r'], ['t']]
def J1 : List Str := [['x', '0', '3'], ['r'], ['t']]
def J2 : List Str := [['r'], ['t']]
def J3 : List Str := [['t']]

theorem escSet_J0 : EscSet J0 := ⟨by decide, by decide, by decide, by decide, by decide⟩
theorem escSet_J1 : EscSet J1 := ⟨by decide, by decide, by decide, by decide, by decide⟩
theorem escSet_J2 : EscSet J2 := ⟨by decide, by decide, by decide, by decide, by decide⟩
theorem escSet_J3 : EscSet J3 := ⟨by decide, by decide, by decide, by decide, by decide⟩
theorem escSet_nil : EscSet [] := ⟨by simp, by simp, by simp, by simp, by simp⟩

/-! ### escape sequences -/

theorem lstep_E (J : List Str) (p o : Str) (c : Char) :
    lstep (some J) ⟨.E p, o⟩ c =
      if p ++ [c] ∈ J then
        (match escTable.lookup (p ++ [c]) with
         | some d => ⟨.S, o ++ [d]⟩
         | none => ⟨.X, o⟩)
      else if J.any (fun e => (p ++ [c]).isPrefixOf e) then ⟨.E (p ++ [c]), o⟩ else ⟨.X, o⟩ := by
  simp only [lstep]
  by_cases h1 : p ++ [c] ∈ J
  · simp only [h1, if_true]
    rfl
  · simp only [h1, if_false]

/-- reading the rest of an escape sequence of `J` from inside it ends in the string with the character appended -/
theorem lrun_escape (J : List Str) (hJ : EscSet J) (e : Str) (he : e ∈ J) (d : Char) (hd : escTable.lookup e = some d) :
    ∀ (q p o : Str), p ++ q = e → q ≠ [] → lrun (some J) ⟨.E p, o⟩ q = ⟨.S, o ++ [d]⟩ := by
  intro q
  induction q with
  | nil => intro p o _ h; exact absurd rfl h
  | cons c cs ih =>
    intro p o hpq _
    rw [lrun_cons, lstep_E]
    by_cases hcs : cs = []
    · subst hcs
      have : p ++ [c] = e := by simpa using hpq
      simp only [this, he, if_true, hd, lrun_nil]
    · have hpre : (p ++ [c]) ++ cs = e := by simpa using hpq
      have hnot : p ++ [c] ∉ J := by
        intro hm
        have hpf : (p ++ [c]).isPrefixOf e = true := by
          rw [List.isPrefixOf_iff_prefix]; exact ⟨cs, hpre⟩
        have := hJ.prefixFree _ hm _ he hpf
        rw [← hpre] at this
        have hl := congrArg List.length this
        simp only [List.length_append] at hl
        exact hcs (List.eq_nil_of_length_eq_zero (by omega))
      have hany : J.any (fun x => (p ++ [c]).isPrefixOf x) = true := by
        rw [List.any_eq_true]
        exact ⟨e, he, by rw [List.isPrefixOf_iff_prefix]; exact ⟨cs, hpre⟩⟩
      simp only [hnot, if_false, hany, if_true]
      exact ih (p ++ [c]) o hpre hcs

/-- a backslash and an escape sequence of `J`, read inside a string -/
theorem lrun_backslash_escape (J : List Str) (hJ : EscSet J) (e : Str) (he : e ∈ J) (d : Char) (hd : escTable.lookup e = some d) (o : Str) :
    lrun (some J) ⟨.S, o⟩ ('\\' :: e) = ⟨.S, o ++ [d]⟩ := by
  rw [lrun_cons]
  have : lstep (some J) ⟨.S, o⟩ '\\' = ⟨.E [], o⟩ := by simp [lstep]
  rw [this]
  exact lrun_escape J hJ e he d hd e [] o rfl (hJ.nonempty e he)

/-- if the scanner is inside an escape sequence and the text is accepted in the end, then some sequence of `J` is being read -/
theorem escape_completes (J : List Str) : ∀ (r p o t : Str), lfinal (lrun (some J) ⟨.E p, o⟩ r) = some t →
    ∃ e ∈ J, p <+: e ∧ e <+: p ++ r := by
  intro r
  induction r with
  | nil => intro p o t h; simp [lrun, lfinal] at h
  | cons c cs ih =>
    intro p o t h
    rw [lrun_cons, lstep_E] at h
    by_cases hm : p ++ [c] ∈ J
    · exact ⟨p ++ [c], hm, ⟨[c], rfl⟩, ⟨cs, by simp⟩⟩
    · simp only [hm, if_false] at h
      by_cases hany : J.any (fun x => (p ++ [c]).isPrefixOf x) = true
      · simp only [hany, if_true] at h
        obtain ⟨e, he, hp1, hp2⟩ := ih (p ++ [c]) o t h
        refine ⟨e, he, ?_, ?_⟩
        · exact List.IsPrefix.trans ⟨[c], rfl⟩ hp1
        · simpa using hp2
      · have hany' : J.any (fun x => (p ++ [c]).isPrefixOf x) = false := by simpa using hany
        simp only [hany', Bool.false_eq_true, if_false] at h
        rw [lrun_dead] at h
        simp [lfinal] at h

/-! ### one escape pass: the scanner with and without the escape that is being replaced -/

/-- the escape set after the pass for `e` -/
def dropEsc (J : List Str) (e : Str) : List Str := J.filter (· ≠ e)

theorem mem_dropEsc (J : List Str) (e x : Str) : x ∈ dropEsc J e ↔ x ∈ J ∧ x ≠ e := by
  simp [dropEsc]

/-- outside an escape sequence a step does not look at the escape set -/
theorem lstep_same (J J' : List Str) (m : LM) (c : Char) (h : ∀ p, m.q ≠ .E p) :
    lstep (some J') m c = lstep (some J) m c := by
  obtain ⟨q, o⟩ := m
  cases q with
  | E p => exact absurd rfl (h p)
  | _ => simp [lstep]

/-- a backslash can only be read inside a string -/
theorem backslash_needs_S (J : List Str) (hJ : EscSet J) (m : LM) (r t : Str)
    (h : lfinal (lrun (some J) m ('\\' :: r)) = some t) : m.q = .S := by
  obtain ⟨q, o⟩ := m
  rw [lrun_cons] at h
  cases q with
  | S => rfl
  | T => simp [lstep, isIdentStart] at h; rw [lrun_dead] at h; simp [lfinal] at h
  | N acc =>
    have : lstep (some J) ⟨.N acc, o⟩ '\\' = ⟨.X, o⟩ := by simp [lstep, isIdentChar]
    rw [this, lrun_dead] at h; simp [lfinal] at h
  | A k =>
    have : lstep (some J) ⟨.A k, o⟩ '\\' = ⟨.X, o⟩ := by simp [lstep]
    rw [this, lrun_dead] at h; simp [lfinal] at h
  | X => rw [lstep_dead, lrun_dead] at h; simp [lfinal] at h
  | E p =>
    rw [lstep_E] at h
    have h1 : p ++ ['\\'] ∉ J := fun hm => hJ.noBackslash _ hm (by simp)
    have h2 : J.any (fun e => (p ++ ['\\']).isPrefixOf e) = false := by
      rw [List.any_eq_false]
      intro e he hp
      rw [List.isPrefixOf_iff_prefix] at hp
      obtain ⟨s, hs⟩ := hp
      exact hJ.noBackslash e he (by rw [← hs]; simp)
    simp only [h1, if_false, h2, Bool.false_eq_true] at h
    rw [lrun_dead] at h; simp [lfinal] at h

/-- one character that is not the start of an occurrence of the escape being replaced: both scanners move alike -/
theorem esc_step (J : List Str) (hJ : EscSet J) (e : Str) (he : e ∈ J) (m : LM) (c : Char) (r t : Str)
    (hrun : lfinal (lrun (some J) m (c :: r)) = some t)
    (hI3 : ∀ p, m.q = .E p → ¬ e <+: p ++ c :: r)
    (hnm : m.q = .S → c = '\\' → ¬ e <+: r) :
    lstep (some (dropEsc J e)) m c = lstep (some J) m c ∧
      (∀ p, (lstep (some J) m c).q = .E p → ¬ e <+: p ++ r) := by
  obtain ⟨q, o⟩ := m
  rw [lrun_cons] at hrun
  cases q with
  | E p =>
    have hI := hI3 p rfl
    rw [lstep_E, lstep_E]
    rw [lstep_E] at hrun
    by_cases hm : p ++ [c] ∈ J
    · have hne : p ++ [c] ≠ e := by
        intro heq; apply hI; rw [← heq]; exact ⟨r, by simp⟩
      have hm' : p ++ [c] ∈ dropEsc J e := (mem_dropEsc J e _).2 ⟨hm, hne⟩
      simp only [hm, hm', if_true]
      refine ⟨trivial, ?_⟩
      intro p' hq
      cases hl : escTable.lookup (p ++ [c]) <;> simp [hl] at hq
    · simp only [hm, if_false] at hrun ⊢
      have hm' : p ++ [c] ∉ dropEsc J e := fun h => hm ((mem_dropEsc J e _).1 h).1
      simp only [hm', if_false]
      by_cases hany : J.any (fun x => (p ++ [c]).isPrefixOf x) = true
      · simp only [hany, if_true] at hrun ⊢
        obtain ⟨e', he', hp1, hp2⟩ := escape_completes J r (p ++ [c]) o t hrun
        have hne : e' ≠ e := by
          intro heq; subst heq; apply hI; simpa using hp2
        have hany' : (dropEsc J e).any (fun x => (p ++ [c]).isPrefixOf x) = true := by
          rw [List.any_eq_true]
          exact ⟨e', (mem_dropEsc J e e').2 ⟨he', hne⟩, by rw [List.isPrefixOf_iff_prefix]; exact hp1⟩
        simp only [hany', if_true]
        refine ⟨trivial, ?_⟩
        intro p' hq
        simp only [LQ.E.injEq] at hq
        subst hq
        simpa using hI
      · have hany0 : J.any (fun x => (p ++ [c]).isPrefixOf x) = false := by simpa using hany
        simp only [hany0, Bool.false_eq_true, if_false] at hrun
        rw [lrun_dead] at hrun; simp [lfinal] at hrun
  | S =>
    refine ⟨lstep_same J _ _ c (by intro p; simp), ?_⟩
    intro p hq
    by_cases hc : c = '\\'
    · subst hc
      have : lstep (some J) ⟨.S, o⟩ '\\' = ⟨.E [], o⟩ := by simp [lstep]
      rw [this] at hq
      simp only [LQ.E.injEq] at hq
      subst hq
      simpa using hnm rfl rfl
    · exfalso
      by_cases hq2 : c = '"'
      · subst hq2; simp [lstep] at hq
      · simp [lstep, hc, hq2] at hq
  | T =>
    refine ⟨lstep_same J _ _ c (by intro p; simp), ?_⟩
    intro p hq
    exfalso
    simp only [lstep] at hq
    split at hq <;> (try split at hq) <;> simp at hq
  | N acc =>
    refine ⟨lstep_same J _ _ c (by intro p; simp), ?_⟩
    intro p hq
    exfalso
    simp only [lstep] at hq
    split at hq
    · simp at hq
    · split at hq
      · split at hq <;> simp at hq
      · simp at hq
  | A k =>
    refine ⟨lstep_same J _ _ c (by intro p; simp), ?_⟩
    intro p hq
    exfalso
    simp only [lstep] at hq
    split at hq <;> (try split at hq) <;> (try split at hq) <;> simp at hq
  | X =>
    refine ⟨lstep_same J _ _ c (by intro p; simp), ?_⟩
    intro p hq
    simp [lstep] at hq

theorem findFrom_limit (s p : Str) (k limit : Nat) (h : k + p.length > limit) : findFrom s p k limit = none := by
  unfold findFrom; simp [h]

/-- what `str.find` (as `findFrom`) does on the rest of the text, seen by the two scanners: either the escape does not occur any
    more and the scanner without it reads the rest like the scanner with it, or the first occurrence is found, inside a string -/
theorem esc_scan (J : List Str) (hJ : EscSet J) (e : Str) (he : e ∈ J) (d : Char) (hd : escTable.lookup e = some d)
    (t : Str) (limit : Nat) :
    ∀ (rest : Str) (m : LM) (k : Nat),
      lfinal (lrun (some J) m rest) = some t →
      (∀ p, m.q = .E p → ¬ e <+: p ++ rest) →
      k + rest.length = limit + 1 →
      match findFrom rest ('\\' :: e) k limit with
      | none => lrun (some (dropEsc J e)) m rest = lrun (some J) m rest
      | some p => ∃ a B, rest = a ++ ('\\' :: e) ++ B ∧ p = k + a.length ∧
          lrun (some (dropEsc J e)) m a = lrun (some J) m a ∧ (lrun (some J) m a).q = .S := by
  intro rest
  induction rest with
  | nil =>
    intro m k _ _ hk
    rw [findFrom]
    have : k + ('\\' :: e).length > limit := by simp at hk ⊢; omega
    simp [this, lrun]
  | cons c r ih =>
    intro m k hrun hI3 hk
    rw [findFrom]
    -- the step lemma, once we know that no occurrence starts here
    have step (hnm : m.q = .S → c = '\\' → ¬ e <+: r) := esc_step J hJ e he m c r t hrun hI3 hnm
    have hrun' : lfinal (lrun (some J) (lstep (some J) m c) r) = some t := by rw [lrun_cons] at hrun; exact hrun
    by_cases hlim : k + ('\\' :: e).length > limit
    · simp only [hlim, if_true]
      -- too close to the end for an occurrence: the text would end inside the string
      have hnm : m.q = .S → c = '\\' → ¬ e <+: r := by
        intro hS hc hpre
        obtain ⟨s, hs⟩ := hpre
        have hl : r.length = e.length + s.length := by rw [← hs]; simp
        have hs0 : s = [] := by
          apply List.eq_nil_of_length_eq_zero
          simp only [List.length_cons] at hk hlim
          omega
        subst hs0
        simp only [List.append_nil] at hs
        subst hs; subst hc
        obtain ⟨q, o⟩ := m
        simp only at hS; subst hS
        rw [lrun_backslash_escape J hJ e he d hd] at hrun
        simp [lfinal] at hrun
      obtain ⟨h1, h2⟩ := step hnm
      have hk' : k + 1 + r.length = limit + 1 := by simp only [List.length_cons] at hk; omega
      have := ih (lstep (some J) m c) (k + 1) hrun' h2 hk'
      have hnone : findFrom r ('\\' :: e) (k + 1) limit = none :=
        findFrom_limit r _ (k + 1) limit (by omega)
      rw [hnone] at this
      simp only at this
      rw [lrun_cons, lrun_cons, h1, this]
    · simp only [hlim, if_false]
      by_cases hpre : (('\\' :: e).isPrefixOf (c :: r)) = true
      · simp only [hpre, if_true]
        rw [List.isPrefixOf_iff_prefix] at hpre
        obtain ⟨B, hB⟩ := hpre
        refine ⟨[], B, by simpa using hB.symm, by simp, rfl, ?_⟩
        have hc : c = '\\' := by
          have := congrArg List.head? hB; simpa using this.symm
        subst hc
        simpa [lrun] using backslash_needs_S J hJ m r t hrun
      · have hpre' : (('\\' :: e).isPrefixOf (c :: r)) = false := (Bool.not_eq_true _).mp hpre
        simp only [hpre', Bool.false_eq_true, if_false]
        have hnm : m.q = .S → c = '\\' → ¬ e <+: r := by
          intro _ hc hp
          subst hc
          apply hpre
          rw [List.isPrefixOf_iff_prefix]
          obtain ⟨s, hs⟩ := hp
          exact ⟨s, by rw [← hs]; simp⟩
        obtain ⟨h1, h2⟩ := step hnm
        have hk' : k + 1 + r.length = limit + 1 := by simp only [List.length_cons] at hk; omega
        have := ih (lstep (some J) m c) (k + 1) hrun' h2 hk'
        cases hf : findFrom r ('\\' :: e) (k + 1) limit with
        | none =>
          rw [hf] at this
          simp only at this ⊢
          rw [lrun_cons, lrun_cons, h1, this]
        | some p =>
          rw [hf] at this
          simp only at this ⊢
          obtain ⟨a, B, hr, hp, hrunA, hS⟩ := this
          refine ⟨c :: a, B, by rw [hr]; simp, by simp; omega, ?_, ?_⟩
          · rw [lrun_cons, lrun_cons, h1, hrunA]
          · rw [lrun_cons]; exact hS

/-! ### the text that a replacement step inserts, read by the scanner -/

/-- a name of the `lingoNamed` table, as the replacement loop writes it -/
structure NameOk (k : Str) (val : Str) : Prop where
  lookup : lingoNamed.lookup k = some val
  start : ∃ c cs, k = c :: cs ∧ isIdentStart c = true
  chars : ∀ c ∈ k, isIdentChar c = true

theorem lrun_ident (X : Option (List Str)) (acc o : Str) : ∀ (ks : Str), (∀ c ∈ ks, isIdentChar c = true) →
    lrun X ⟨.N acc, o⟩ ks = ⟨.N (acc ++ ks), o⟩ := by
  intro ks
  induction ks generalizing acc with
  | nil => intro _; simp [lrun]
  | cons c cs ih =>
    intro h
    rw [lrun_cons]
    have hc : isIdentChar c = true := h c (by simp)
    have : lstep X ⟨.N acc, o⟩ c = ⟨.N (acc ++ [c]), o⟩ := by simp [lstep, hc]
    rw [this, ih (acc ++ [c]) (fun x hx => h x (by simp [hx]))]
    simp

/-- a name read where a term is expected -/
theorem lrun_name (X : Option (List Str)) (k val o : Str) (hk : NameOk k val) : lrun X ⟨.T, o⟩ k = ⟨.N k, o⟩ := by
  obtain ⟨c, cs, hk1, hk2⟩ := hk.start
  subst hk1
  rw [lrun_cons]
  have hq : c ≠ '"' := by intro e; subst e; simp [isIdentStart] at hk2
  have : lstep X ⟨.T, o⟩ c = ⟨.N [c], o⟩ := by simp [lstep, hq, hk2]
  rw [this, lrun_ident X [c] o cs (fun x hx => hk.chars x (by simp [hx]))]
  simp

theorem lfinal_name (k val o : Str) (hk : NameOk k val) : lfinal ⟨.N k, o⟩ = some (o ++ val) := by
  simp [lfinal, hk.lookup]

/-- `" & "` closes the string and asks for the next term -/
theorem lrun_close_amp (X : Option (List Str)) (o : Str) : lrun X ⟨.S, o⟩ (S "\" & ") = ⟨.T, o⟩ := by
  cases X <;> simp [lrun, lstep, S]

/-- ` & "` after a name: the name's value is appended and a new string opens -/
theorem lrun_amp_open (X : Option (List Str)) (k val o : Str) (hk : NameOk k val) : lrun X ⟨.N k, o⟩ (S " & \"") = ⟨.S, o ++ val⟩ := by
  have h1 : lstep X ⟨.N k, o⟩ ' ' = ⟨.A 1, o ++ val⟩ := by
    simp [lstep, isIdentChar, hk.lookup]
  have : S " & \"" = ' ' :: '&' :: ' ' :: ['"'] := by decide
  rw [this, lrun_cons, h1]
  simp [lrun, lstep]

/-- the state before a quote that opened a string -/
theorem before_open_quote (X : Option (List Str)) (hX : ∀ J, X = some J → ∀ e ∈ J, '"' ∉ e) (m : LM) (o : Str)
    (h : lstep X m '"' = ⟨.S, o⟩) : m = ⟨.T, o⟩ := by
  obtain ⟨q, o'⟩ := m
  cases q with
  | T => simp [lstep] at h; subst h; rfl
  | S => simp [lstep] at h
  | E p =>
    cases X with
    | none => simp [lstep] at h
    | some J =>
      rw [lstep_E] at h
      split at h
      · rename_i hm
        exact absurd (by simp) (hX J rfl _ hm)
      · split at h <;> simp at h
  | N acc => simp [lstep, isIdentChar] at h
  | A k => simp only [lstep] at h; split at h <;> (try split at h) <;> (try split at h) <;> simp at h
  | X => simp [lstep] at h

/-! ### one replacement step -/

theorem replStep_eq (k v A B : Str) : replStep k v (A ++ v ++ B) A.length =
    ((if endsWith A (S "& \"") then A.take (A.length - 1) else A ++ S "\" & ") ++ k ++ (if B = S "\"" then [] else S " & \"" ++ B),
     (if endsWith A (S "& \"") then A.length - 1 else A.length + 4) + k.length + (if B = S "\"" then 0 else 4)) := by
  have h1 : (A ++ v ++ B).take A.length = A := by simp [List.append_assoc]
  have h2 : (A ++ v ++ B).drop (A.length + v.length) = B := by
    have : A.length + v.length = (A ++ v).length := by simp
    rw [this, List.drop_left]
  unfold replStep
  simp only [h1, h2]
  by_cases c1 : endsWith A (S "& \"") = true <;> by_cases c2 : B = S "\"" <;> simp [c1, c2]

/-- the text before the resumption index after a step, and what is left to scan -/
theorem replStep_split (k v A B : Str) :
    let r := replStep k v (A ++ v ++ B) A.length
    r.1.take r.2 = (if endsWith A (S "& \"") then A.take (A.length - 1) else A ++ S "\" & ") ++ k ++ (if B = S "\"" then [] else S " & \"") ∧
    r.1.drop r.2 = (if B = S "\"" then [] else B) := by
  intro r
  have hr : r = replStep k v (A ++ v ++ B) A.length := rfl
  rw [replStep_eq] at hr
  rw [hr]
  by_cases c1 : endsWith A (S "& \"") = true <;> by_cases c2 : B = S "\""
  · have hl : (A.take (A.length - 1)).length = A.length - 1 := by simp
    simp only [c1, c2, if_true, List.append_nil, Nat.add_zero]
    constructor
    · have : A.length - 1 + k.length = (A.take (A.length - 1) ++ k).length := by simp
      rw [this, List.take_length]
    · have : A.length - 1 + k.length = (A.take (A.length - 1) ++ k).length := by simp
      rw [this, List.drop_length]
  · have hl : (A.take (A.length - 1)).length = A.length - 1 := by simp
    simp only [c1, c2, if_true, if_false]
    have e : A.length - 1 + k.length + 4 = (A.take (A.length - 1) ++ k ++ S " & \"").length := by
      simp [S]; omega
    rw [e, ← List.append_assoc, List.take_left, List.drop_left]
    exact ⟨rfl, rfl⟩
  · have c1' : endsWith A (S "& \"") = false := by simpa using c1
    simp only [c1', c2, Bool.false_eq_true, if_false, if_true, List.append_nil, Nat.add_zero]
    have e : A.length + 4 + k.length = (A ++ S "\" & " ++ k).length := by simp [S]; omega
    rw [e, List.take_length, List.drop_length]
    exact ⟨rfl, rfl⟩
  · have c1' : endsWith A (S "& \"") = false := by simpa using c1
    simp only [c1', c2, Bool.false_eq_true, if_false]
    have e : A.length + 4 + k.length + 4 = (A ++ S "\" & " ++ k ++ S " & \"").length := by simp [S]; omega
    rw [e, ← List.append_assoc, List.take_left, List.drop_left]
    exact ⟨rfl, rfl⟩

theorem endsWith_quote_split (A : Str) (h : endsWith A (S "& \"") = true) : A = A.take (A.length - 1) ++ ['"'] := by
  unfold endsWith at h
  rw [List.isSuffixOf_iff_suffix] at h
  obtain ⟨pre, hp⟩ := h
  have hS : S "& \"" = ['&', ' ', '"'] := by decide
  rw [hS] at hp
  subst hp
  have : (pre ++ ['&', ' ', '"']).length - 1 = (pre ++ ['&', ' ']).length := by simp
  rw [this]
  have e : pre ++ ['&', ' ', '"'] = (pre ++ ['&', ' ']) ++ ['"'] := by simp
  rw [e, List.take_left]

/-- the scanner state after the text a replacement step leaves before its resumption index -/
theorem step_state (X : Option (List Str)) (hX : ∀ J, X = some J → ∀ e ∈ J, '"' ∉ e) (k val : Str) (hk : NameOk k val)
    (A B o : Str) (hA : lrun X linit A = ⟨.S, o⟩) :
    lrun X linit ((if endsWith A (S "& \"") then A.take (A.length - 1) else A ++ S "\" & ") ++ k ++
        (if B = S "\"" then [] else S " & \"")) =
      (if B = S "\"" then ⟨.N k, o⟩ else ⟨.S, o ++ val⟩) := by
  have tailRun : ∀ m0 : LM, m0 = ⟨.T, o⟩ →
      lrun X m0 (k ++ (if B = S "\"" then [] else S " & \"")) = (if B = S "\"" then ⟨.N k, o⟩ else ⟨.S, o ++ val⟩) := by
    intro m0 hm0
    subst hm0
    rw [lrun_append, lrun_name X k val o hk]
    by_cases c2 : B = S "\""
    · simp [c2, lrun]
    · simp only [c2, if_false]
      exact lrun_amp_open X k val o hk
  by_cases c1 : endsWith A (S "& \"") = true
  · simp only [c1, if_true]
    have hsplit := endsWith_quote_split A c1
    have hT : lrun X linit (A.take (A.length - 1)) = ⟨.T, o⟩ := by
      apply before_open_quote X hX
      have : lrun X linit A = lstep X (lrun X linit (A.take (A.length - 1))) '"' := by
        conv => lhs; rw [hsplit]
        rw [lrun_append]; rfl
      rw [← this]; exact hA
    rw [List.append_assoc, lrun_append, hT]
    exact tailRun _ rfl
  · have c1' : endsWith A (S "& \"") = false := by simpa using c1
    simp only [c1', Bool.false_eq_true, if_false]
    rw [List.append_assoc, List.append_assoc, lrun_append, hA, lrun_append, lrun_close_amp]
    exact tailRun _ rfl

theorem replStep_idx_bounds (k v A B : Str) (hk : k ≠ []) :
    1 ≤ (replStep k v (A ++ v ++ B) A.length).2 ∧
    (replStep k v (A ++ v ++ B) A.length).2 ≤ (replStep k v (A ++ v ++ B) A.length).1.length := by
  rw [replStep_eq]
  have hkl : 0 < k.length := List.length_pos_iff.mpr hk
  have l1 : (S "\" & ").length = 4 := by decide
  have l2 : (S " & \"").length = 4 := by decide
  by_cases c1 : endsWith A (S "& \"") = true <;> by_cases c2 : B = S "\""
  · simp only [c1, c2, if_true, List.length_append, List.length_take, List.length_nil]; omega
  · simp only [c1, c2, if_true, if_false, List.length_append, List.length_take, l2]; omega
  · have c1' : endsWith A (S "& \"") = false := by simpa using c1
    simp only [c1', c2, Bool.false_eq_true, if_true, if_false, List.length_append, l1, List.length_nil]; omega
  · have c1' : endsWith A (S "& \"") = false := by simpa using c1
    simp only [c1', c2, Bool.false_eq_true, if_false, List.length_append, l1, l2]; omega

theorem pyFind_eq (n v : Str) (idx : Nat) (h1 : 1 ≤ idx) (h2 : idx ≤ n.length) :
    pyFind n v idx (n.length - 1) =
      match findFrom (n.drop idx) v idx (n.length - 1) with
      | some k => (k : Int)
      | none => -1 := by
  unfold pyFind
  have : min (n.length - 1) n.length = n.length - 1 := by omega
  have h3 : ¬ idx > n.length := by omega
  simp only [this, h3, if_false]
  rfl

/-- one escape pass: the text read with the escape set `J` and the rewritten text read without `e` have the same value -/
theorem esc_pass (J : List Str) (hJ : EscSet J) (e : Str) (he : e ∈ J) (d : Char) (hd : escTable.lookup e = some d)
    (k : Str) (hk : NameOk k [d]) (t : Str) :
    ∀ (N : Nat) (n : Str) (idx : Nat), n.length - idx = N → 1 ≤ idx → idx ≤ n.length →
      (∃ m, lrun (some (dropEsc J e)) linit (n.take idx) = m ∧ lrun (some J) linit (n.take idx) = m ∧
            lfinal (lrun (some J) m (n.drop idx)) = some t ∧ (∀ p, m.q = .E p → ¬ e <+: p ++ n.drop idx)) →
      lfinal (lrun (some (dropEsc J e)) linit
        (replLoop k ('\\' :: e) n idx (pyFind n ('\\' :: e) idx (n.length - 1)))) = some t := by
  intro N
  induction N using Nat.strongRecOn with
  | _ N ih =>
    intro n idx hN h1 h2 ⟨m, hm', hm, hrun, hI3⟩
    have hJ' : ∀ J0, some (dropEsc J e) = some J0 → ∀ x ∈ J0, '"' ∉ x := by
      intro J0 h x hx; cases h; exact hJ.noQuote x ((mem_dropEsc J e x).1 hx).1
    have hJq : ∀ J0, some J = some J0 → ∀ x ∈ J0, '"' ∉ x := by
      intro J0 h x hx; cases h; exact hJ.noQuote x hx
    have hlen : idx + (n.drop idx).length = n.length - 1 + 1 := by simp [List.length_drop]; omega
    have scan := esc_scan J hJ e he d hd t (n.length - 1) (n.drop idx) m idx hrun hI3 hlen
    rw [pyFind_eq n _ idx h1 h2]
    cases hf : findFrom (n.drop idx) ('\\' :: e) idx (n.length - 1) with
    | none =>
      rw [hf] at scan
      simp only at scan ⊢
      rw [replLoop_nonpos _ _ _ _ _ (by decide)]
      have : n = n.take idx ++ n.drop idx := (List.take_append_drop idx n).symm
      rw [this, lrun_append, hm', scan]
      exact hrun
    | some p =>
      rw [hf] at scan
      simp only at scan ⊢
      obtain ⟨a, B, hrest, hp, hrunA, hS⟩ := scan
      -- the text as A ++ v ++ B with |A| = p
      have hn : n = (n.take idx ++ a) ++ ('\\' :: e) ++ B := by
        have : n = n.take idx ++ n.drop idx := (List.take_append_drop idx n).symm
        rw [hrest] at this
        simpa [List.append_assoc] using this
      have hAlen : (n.take idx ++ a).length = p := by
        simp only [List.length_append, List.length_take]; omega
      generalize hA : n.take idx ++ a = A at hn hAlen
      obtain ⟨o, hmA⟩ : ∃ o, lrun (some J) m a = ⟨.S, o⟩ := by
        cases hx : lrun (some J) m a with
        | mk q o => rw [hx] at hS; simp only at hS; subst hS; exact ⟨o, rfl⟩
      have hAJ : lrun (some J) linit A = ⟨.S, o⟩ := by rw [← hA, lrun_append, hm, hmA]
      have hAJ' : lrun (some (dropEsc J e)) linit A = ⟨.S, o⟩ := by rw [← hA, lrun_append, hm', hrunA, hmA]
      have hrunB : lfinal (lrun (some J) ⟨.S, o ++ [d]⟩ B) = some t := by
        have : n.drop idx = a ++ (('\\' :: e) ++ B) := by rw [hrest]; simp [List.append_assoc]
        rw [this, lrun_append, hmA, lrun_append, lrun_backslash_escape J hJ e he d hd] at hrun
        exact hrun
      -- unfold one iteration of the loop
      rw [replLoop]
      have hpos : ((p : Nat) : Int) > 0 := by omega
      have hguard : idx ≤ ((p : Nat) : Int).toNat ∧ ((p : Nat) : Int).toNat + ('\\' :: e).length ≤ n.length ∧ 0 < ('\\' :: e).length := by
        refine ⟨by simp; omega, ?_, by simp⟩
        have := congrArg List.length hn
        simp only [List.length_append, Int.toNat_natCast] at this ⊢
        omega
      simp only [hpos, if_true, hguard, and_self, dite_true, Int.toNat_natCast]
      -- the recursive call
      have hnp : replStep k ('\\' :: e) n p = replStep k ('\\' :: e) (A ++ ('\\' :: e) ++ B) A.length := by
        rw [← hn, hAlen]
      rw [hnp]
      have hkne : k ≠ [] := by obtain ⟨c, cs, hk1, _⟩ := hk.start; rw [hk1]; simp
      obtain ⟨hb1, hb2⟩ := replStep_idx_bounds k ('\\' :: e) A B hkne
      obtain ⟨hsp1, hsp2⟩ := replStep_split k ('\\' :: e) A B
      have hdec := replStep_dec k ('\\' :: e) n p idx (by omega) (by
        have := congrArg List.length hn
        simp only [List.length_append] at this ⊢; omega) (by simp)
      rw [hnp] at hdec
      have hguard2 : idx ≤ p ∧ p + ('\\' :: e).length ≤ n.length ∧ True := by
        refine ⟨by omega, ?_, trivial⟩
        have := congrArg List.length hn
        simp only [List.length_append] at this ⊢
        omega
      rw [dif_pos hguard2]
      apply ih _ (by rw [← hN]; exact hdec) _ _ rfl hb1 hb2
      refine ⟨if B = S "\"" then ⟨.N k, o⟩ else ⟨.S, o ++ [d]⟩, ?_, ?_, ?_, ?_⟩
      · rw [hsp1]; exact step_state _ hJ' k [d] hk A B o hAJ'
      · rw [hsp1]; exact step_state _ hJq k [d] hk A B o hAJ
      · rw [hsp2]
        by_cases c2 : B = S "\""
        · simp only [c2, if_true, lrun_nil]
          rw [lfinal_name k [d] o hk]
          rw [c2] at hrunB
          have : S "\"" = ['"'] := by decide
          rw [this] at hrunB
          simpa [lrun, lstep, lfinal] using hrunB
        · simp only [c2, if_false]; exact hrunB
      · intro p' hq
        by_cases c2 : B = S "\"" <;> simp [c2] at hq

/-- the pass for one escape, started like `replace_chars_with_lingo_constants` starts it (index 1) -/
theorem esc_pass_top (J : List Str) (hJ : EscSet J) (e : Str) (he : e ∈ J) (d : Char) (hd : escTable.lookup e = some d)
    (k : Str) (hk : NameOk k [d]) (t n : Str) (h : lfinal (lrun (some J) linit n) = some t) :
    lfinal (lrun (some (dropEsc J e)) linit (replLoop k ('\\' :: e) n 1 (pyFind n ('\\' :: e) 1 (n.length - 1)))) = some t := by
  cases n with
  | nil => simp [lrun, lfinal, linit] at h
  | cons c r =>
    apply esc_pass J hJ e he d hd k hk t _ (c :: r) 1 rfl (by omega) (by simp)
    refine ⟨lstep (some J) linit c, ?_, ?_, ?_, ?_⟩
    · simp only [List.take_succ_cons, List.take_zero]
      rw [lrun_cons, lrun_nil]
      exact lstep_same J _ linit c (by intro p; simp [linit])
    · simp only [List.take_succ_cons, List.take_zero]; rfl
    · simpa [lrun_cons] using h
    · intro p hq
      exfalso
      simp only [lstep, linit] at hq
      split at hq <;> (try split at hq) <;> simp at hq

/-! ### the QUOTE pass -/

/-- characters for which the Lingo literal is right: printable ASCII other than the backslash, BACKSPACE, ENTER, RETURN, TAB -/
def safeChar (c : Char) : Bool :=
  (32 ≤ c.toNat && c.toNat < 127 && c != '\\') || c.toNat == 8 || c.toNat == 3 || c.toNat == 13 || c.toNat == 9

theorem char_of_toNat (c : Char) (n : Nat) (h : c.toNat = n) (hv : n.isValidChar) : c = Char.ofNat n := by
  apply Char.ext
  simp only [Char.ofNat, hv, dite_true, Char.ofNatAux]
  have : c.val.toNat = n := h
  apply UInt32.toNat_inj.mp
  simp [this]

/-- the escape of a safe character other than the quote, read inside a string, gives the character back -/
theorem lrun_safe_char (c : Char) (o : Str) (hs : safeChar c = true) (hq : c ≠ '"') :
    lrun (some J0) ⟨.S, o⟩ (unicodeEscapeChar c) = ⟨.S, o ++ [c]⟩ ∧ '"' ∉ unicodeEscapeChar c := by
  simp only [safeChar, Bool.or_eq_true, Bool.and_eq_true, decide_eq_true_eq, bne_iff_ne, ne_eq, beq_iff_eq] at hs
  rcases hs with (((⟨⟨h1, h2⟩, h3⟩ | h8) | h3') | h13) | h9
  · have ht : c ≠ '\t' := by intro e; subst e; simp at h1
    have hn : c ≠ '\n' := by intro e; subst e; simp at h1
    have hr : c ≠ '\r' := by intro e; subst e; simp at h1
    have he : unicodeEscapeChar c = [c] := by simp [unicodeEscapeChar, h3, ht, hn, hr, h1, h2]
    rw [he]
    refine ⟨?_, by simp; exact fun e => hq e.symm⟩
    simp [lrun, lstep, hq, h3]
  · have : c = Char.ofNat 8 := char_of_toNat c 8 h8 (by decide)
    subst this
    refine ⟨?_, by decide⟩
    have : unicodeEscapeChar (Char.ofNat 8) = '\\' :: ['x', '0', '8'] := by decide
    rw [this]
    exact lrun_backslash_escape J0 escSet_J0 _ (by decide) _ (by decide) o
  · have : c = Char.ofNat 3 := char_of_toNat c 3 h3' (by decide)
    subst this
    refine ⟨?_, by decide⟩
    have : unicodeEscapeChar (Char.ofNat 3) = '\\' :: ['x', '0', '3'] := by decide
    rw [this]
    exact lrun_backslash_escape J0 escSet_J0 _ (by decide) _ (by decide) o
  · have : c = '\r' := char_of_toNat c 13 h13 (by decide)
    subst this
    refine ⟨?_, by decide⟩
    have : unicodeEscapeChar '\r' = '\\' :: ['r'] := by decide
    rw [this]
    exact lrun_backslash_escape J0 escSet_J0 _ (by decide) _ (by decide) o
  · have : c = '\t' := char_of_toNat c 9 h9 (by decide)
    subst this
    refine ⟨?_, by decide⟩
    have : unicodeEscapeChar '\t' = '\\' :: ['t'] := by decide
    rw [this]
    exact lrun_backslash_escape J0 escSet_J0 _ (by decide) _ (by decide) o

/-- the escaped form of safe text without quotes, read inside a string -/
theorem lrun_safe_text (s : Str) (o : Str) (hs : ∀ c ∈ s, safeChar c = true) (hq : ∀ c ∈ s, c ≠ '"') :
    lrun (some J0) ⟨.S, o⟩ (unicodeEscape s) = ⟨.S, o ++ s⟩ ∧ (∀ x ∈ unicodeEscape s, x ≠ '"') := by
  induction s generalizing o with
  | nil => simp [unicodeEscape, lrun]
  | cons c cs ih =>
    obtain ⟨h1, h2⟩ := lrun_safe_char c o (hs c (by simp)) (hq c (by simp))
    obtain ⟨h3, h4⟩ := ih (o ++ [c]) (fun x hx => hs x (by simp [hx])) (fun x hx => hq x (by simp [hx]))
    simp only [unicodeEscape, List.flatMap_cons] at h3 h4 ⊢
    constructor
    · rw [lrun_append, h1, h3]; simp
    · intro x hx
      simp only [List.mem_append] at hx
      rcases hx with hx | hx
      · intro e; subst e; exact h2 hx
      · exact h4 x hx

theorem findFrom_hit (s p : Str) (k limit : Nat) (h1 : k + p.length ≤ limit) (h2 : p.isPrefixOf s = true) :
    findFrom s p k limit = some k := by
  unfold findFrom
  have : ¬ k + p.length > limit := by omega
  simp [this, h2]

theorem findFrom_skip_eq (t rest : Str) (c : Char) (v : Str) (k limit : Nat) (ht : ∀ x ∈ t, x ≠ c) :
    findFrom (t ++ rest) (c :: v) k limit = findFrom rest (c :: v) (k + t.length) limit := by
  induction t generalizing k with
  | nil => simp
  | cons x xs ih =>
    rw [List.cons_append, findFrom]
    by_cases hl : k + (c :: v).length > limit
    · simp only [hl, if_true]
      exact (findFrom_limit _ _ _ _ (by simp at hl ⊢; omega)).symm
    · have hx : x ≠ c := ht x (by simp)
      have hp : ((c :: v).isPrefixOf (x :: (xs ++ rest))) = false := by
        simp [List.isPrefixOf]; intro e; exact absurd e.symm hx
      simp only [hl, if_false, hp, Bool.false_eq_true]
      rw [ih (k + 1) (fun y hy => ht y (by simp [hy]))]
      congr 1
      simp; omega

theorem replLoop_at_end (k v n : Str) (hv : v ≠ []) : replLoop k v n n.length (pyFind n v n.length (n.length - 1)) = n := by
  apply replLoop_nonpos
  unfold pyFind
  have h1 : ¬ n.length > n.length := by omega
  simp only [h1, if_false, List.drop_length]
  have hvl : 0 < v.length := List.length_pos_iff.mpr hv
  rw [findFrom_limit [] v n.length _ (by omega)]
  decide

/-- split a text at its first quote -/
theorem split_first_quote (s : Str) : (∀ c ∈ s, c ≠ '"') ∨ ∃ s1 s2, s = s1 ++ '"' :: s2 ∧ ∀ c ∈ s1, c ≠ '"' := by
  induction s with
  | nil => left; simp
  | cons c cs ih =>
    by_cases hc : c = '"'
    · right; exact ⟨[], cs, by simp [hc], by simp⟩
    · rcases ih with h | ⟨s1, s2, h1, h2⟩
      · left; intro x hx; simp only [List.mem_cons] at hx; rcases hx with rfl | hx; exact hc; exact h x hx
      · right
        refine ⟨c :: s1, s2, by simp [h1], ?_⟩
        intro x hx; simp only [List.mem_cons] at hx; rcases hx with rfl | hx; exact hc; exact h2 x hx

theorem unicodeEscape_append (a b : Str) : unicodeEscape (a ++ b) = unicodeEscape a ++ unicodeEscape b := by
  simp [unicodeEscape]

theorem unicodeEscape_quote_cons (s : Str) : unicodeEscape ('"' :: s) = '"' :: unicodeEscape s := by
  have : unicodeEscapeChar '"' = ['"'] := by decide
  simp [unicodeEscape, this]

theorem unicodeEscapeChar_ne_nil (c : Char) : unicodeEscapeChar c ≠ [] := by
  unfold unicodeEscapeChar
  by_cases h1 : c = '\\' <;> simp only [h1, if_true, if_false]
  · simp
  by_cases h2 : c = '\t' <;> simp only [h2, if_true, if_false]
  · simp
  by_cases h3 : c = '\n' <;> simp only [h3, if_true, if_false]
  · simp
  by_cases h4 : c = '\r' <;> simp only [h4, if_true, if_false]
  · simp
  by_cases h5 : 32 ≤ c.toNat ∧ c.toNat < 127 <;> simp only [h5, if_true, if_false]
  · simp
  by_cases h6 : c.toNat < 256 <;> simp only [h6, if_true, if_false]
  · simp
  by_cases h7 : c.toNat < 65536 <;> simp only [h7, if_true, if_false] <;> simp

theorem nameOk_QUOTE : NameOk (S "QUOTE") ['"'] :=
  ⟨by decide, ⟨'Q', S "UOTE", by decide, by decide⟩, by decide⟩

/-- the QUOTE pass: from `P ++ escaped(s') ++ "` with the scanner inside a string after `P`, to a text that the scanner with
    all four escapes accepts, with the value so far followed by `s'` -/
theorem quote_pass : ∀ (N : Nat) (P s' o : Str),
    (P ++ unicodeEscape s' ++ ['"']).length - P.length = N → 1 ≤ P.length →
    (∀ c ∈ s', safeChar c = true) → lrun (some J0) linit P = ⟨.S, o⟩ →
    lfinal (lrun (some J0) linit
      (replLoop (S "QUOTE") ['"'] (P ++ unicodeEscape s' ++ ['"']) P.length
        (pyFind (P ++ unicodeEscape s' ++ ['"']) ['"'] P.length ((P ++ unicodeEscape s' ++ ['"']).length - 1)))) = some (o ++ s') := by
  intro N
  induction N using Nat.strongRecOn with
  | _ N ih =>
    intro P s' o hN hP hsafe hPS
    have hJq : ∀ J, some J0 = some J → ∀ x ∈ J, '"' ∉ x := by
      intro J h x hx; cases h; exact escSet_J0.noQuote x hx
    have hlenn : P.length ≤ (P ++ unicodeEscape s' ++ ['"']).length := by simp
    rw [pyFind_eq _ _ _ hP hlenn]
    have hdrop : (P ++ unicodeEscape s' ++ ['"']).drop P.length = unicodeEscape s' ++ ['"'] := by
      rw [List.append_assoc, List.drop_left]
    rw [hdrop]
    have hlim : (P ++ unicodeEscape s' ++ ['"']).length - 1 = P.length + (unicodeEscape s').length := by simp
    rcases split_first_quote s' with hnq | ⟨s1, s2, hs, hs1⟩
    · -- no quote left: nothing is found, the text is final
      obtain ⟨hrun, hnoq⟩ := lrun_safe_text s' o hsafe hnq
      rw [findFrom_skip_eq _ _ _ _ _ _ hnoq, findFrom_limit _ _ _ _ (by rw [hlim]; simp)]
      simp only
      rw [replLoop_nonpos _ _ _ _ _ (by decide)]
      rw [List.append_assoc, lrun_append, hPS, lrun_append, hrun]
      simp [lrun, lstep, lfinal]
    · -- first quote after the safe, quote-free text s1
      subst hs
      have hsafe1 : ∀ c ∈ s1, safeChar c = true := fun c hc => hsafe c (by simp [hc])
      have hsafe2 : ∀ c ∈ s2, safeChar c = true := fun c hc => hsafe c (by simp [hc])
      obtain ⟨hrun1, hnoq1⟩ := lrun_safe_text s1 o hsafe1 hs1
      have hE : unicodeEscape (s1 ++ '"' :: s2) = unicodeEscape s1 ++ '"' :: unicodeEscape s2 := by
        rw [unicodeEscape_append, unicodeEscape_quote_cons]
      rw [hE] at hlim hN ⊢
      have hfind : findFrom (unicodeEscape s1 ++ '"' :: unicodeEscape s2 ++ ['"']) ['"'] P.length
          ((P ++ (unicodeEscape s1 ++ '"' :: unicodeEscape s2) ++ ['"']).length - 1) = some (P.length + (unicodeEscape s1).length) := by
        rw [List.append_assoc, findFrom_skip_eq _ _ _ _ _ _ hnoq1]
        apply findFrom_hit
        · simp; omega
        · simp [List.isPrefixOf]
      rw [hfind]
      simp only
      -- the text as A ++ v ++ B
      generalize hA : P ++ unicodeEscape s1 = A
      generalize hB : unicodeEscape s2 ++ ['"'] = B
      have hn : P ++ (unicodeEscape s1 ++ '"' :: unicodeEscape s2) ++ ['"'] = A ++ ['"'] ++ B := by
        rw [← hA, ← hB]; simp [List.append_assoc]
      have hAl : P.length + (unicodeEscape s1).length = A.length := by rw [← hA]; simp
      rw [hn] at hN
      rw [hn, hAl] at *
      have hAS : lrun (some J0) linit A = ⟨.S, o ++ s1⟩ := by rw [← hA, lrun_append, hPS, hrun1]
      rw [replLoop]
      have hpos : ((A.length : Nat) : Int) > 0 := by
        have : 1 ≤ A.length := by rw [← hA]; simp; omega
        omega
      have hguard : P.length ≤ ((A.length : Nat) : Int).toNat ∧ ((A.length : Nat) : Int).toNat + ['"'].length ≤ (A ++ ['"'] ++ B).length ∧ 0 < ['"'].length := by
        refine ⟨by simp; rw [← hA]; simp, by simp, by simp⟩
      rw [if_pos hpos, dif_pos hguard]
      simp only [Int.toNat_natCast]
      obtain ⟨hb1, hb2⟩ := replStep_idx_bounds (S "QUOTE") ['"'] A B (by decide)
      obtain ⟨hsp1, hsp2⟩ := replStep_split (S "QUOTE") ['"'] A B
      have hst := step_state (some J0) hJq (S "QUOTE") ['"'] nameOk_QUOTE A B (o ++ s1) hAS
      have hdec := replStep_dec (S "QUOTE") ['"'] (A ++ ['"'] ++ B) A.length P.length (by rw [← hA]; simp) (by simp) (by simp)
      generalize hr : replStep (S "QUOTE") ['"'] (A ++ ['"'] ++ B) A.length = r at *
      have hr1 : r.1 = r.1.take r.2 ++ r.1.drop r.2 := (List.take_append_drop _ _).symm
      have hr2 : (r.1.take r.2).length = r.2 := by simp [List.length_take]; omega
      by_cases c2 : B = S "\""
      · -- the quote was the last character: the loop stops at the end of the text
        simp only [c2, if_true] at hsp1 hsp2 hst
        have hs2 : s2 = [] := by
          have : unicodeEscape s2 = [] := by
            have hB' := hB; rw [c2] at hB'
            have : S "\"" = ['"'] := by decide
            rw [this] at hB'
            have hl := congrArg List.length hB'
            simp at hl
            exact hl
          cases s2 with
          | nil => rfl
          | cons c cs =>
            exfalso
            simp only [unicodeEscape, List.flatMap_cons] at this
            have hne : unicodeEscapeChar c ≠ [] := unicodeEscapeChar_ne_nil c
            exact hne (List.append_eq_nil_iff.mp this).1
        have hidx : r.2 = r.1.length := by
          have : r.1.drop r.2 = [] := hsp2
          have := congrArg List.length this
          simp [List.length_drop] at this
          omega
        rw [hidx, replLoop_at_end _ _ _ (by decide)]
        have : r.1 = r.1.take r.2 := by
          conv => lhs; rw [hr1, hsp2]
          simp
        rw [this, hsp1, hst, lfinal_name _ _ _ nameOk_QUOTE, hs2]
        simp
      · -- more text follows: the loop goes on with the rest
        simp only [c2, if_false] at hsp1 hsp2 hst
        have hshape : r.1 = r.1.take r.2 ++ unicodeEscape s2 ++ ['"'] := by
          conv => lhs; rw [hr1, hsp2, ← hB]
          simp [List.append_assoc]
        have hres := ih (r.1.length - r.2) (by rw [← hN]; exact hdec) (r.1.take r.2) s2 (o ++ s1 ++ ['"'])
          (by rw [← hshape, hr2]) (by rw [hr2]; exact hb1) hsafe2 (by rw [hsp1]; exact hst)
        rw [← hshape, hr2] at hres
        rw [hres]
        simp [List.append_assoc]

/-! ### putting the five passes together -/

/-- a text accepted when no escape sequence is allowed has no backslash inside a string: Lingo reads it the same way -/
theorem plain_of_no_escapes : ∀ (n : Str) (m : LM) (t : Str), lfinal (lrun (some []) m n) = some t → lfinal (lrun none m n) = some t := by
  intro n
  induction n with
  | nil => intro m t h; simpa [lrun] using h
  | cons c r ih =>
    intro m t h
    rw [lrun_cons] at h ⊢
    obtain ⟨q, o⟩ := m
    cases q with
    | E p =>
      rw [lstep_E] at h
      simp at h
      rw [lrun_dead] at h; simp [lfinal] at h
    | S =>
      by_cases hc : c = '\\'
      · subst hc
        have : lstep (some []) ⟨.S, o⟩ '\\' = ⟨.E [], o⟩ := by simp [lstep]
        rw [this] at h
        cases r with
        | nil => simp [lrun, lfinal] at h
        | cons c' r' =>
          rw [lrun_cons, lstep_E] at h
          simp at h
          rw [lrun_dead] at h; simp [lfinal] at h
      · have : lstep (some []) ⟨.S, o⟩ c = lstep none ⟨.S, o⟩ c := by
          by_cases hq : c = '"' <;> simp [lstep, hc, hq]
        rw [this] at h
        exact ih _ t h
    | T => exact ih _ t (by simpa [lstep] using h)
    | N acc => exact ih _ t (by simpa [lstep] using h)
    | A k => exact ih _ t (by simpa [lstep] using h)
    | X => exact ih _ t (by simpa [lstep] using h)

theorem nameOk_BACKSPACE : NameOk (S "BACKSPACE") [Char.ofNat 8] := ⟨by decide, ⟨'B', S "ACKSPACE", by decide, by decide⟩, by decide⟩
theorem nameOk_ENTER : NameOk (S "ENTER") [Char.ofNat 3] := ⟨by decide, ⟨'E', S "NTER", by decide, by decide⟩, by decide⟩
theorem nameOk_RETURN : NameOk (S "RETURN") ['\r'] := ⟨by decide, ⟨'R', S "ETURN", by decide, by decide⟩, by decide⟩
theorem nameOk_TAB : NameOk (S "TAB") ['\t'] := ⟨by decide, ⟨'T', S "AB", by decide, by decide⟩, by decide⟩

theorem dropEsc_J0 : dropEsc J0 ['x', '0', '8'] = J1 := by decide
theorem dropEsc_J1 : dropEsc J1 ['x', '0', '3'] = J2 := by decide
theorem dropEsc_J2 : dropEsc J2 ['r'] = J3 := by decide
theorem dropEsc_J3 : dropEsc J3 ['t'] = [] := by decide

/-- the five passes on the stored text of a string of safe characters -/
theorem replaceChars_safe (s : Str) (hs : ∀ c ∈ s, safeChar c = true) :
    evalLingoLit (replaceCharsWithLingoConstants ('"' :: (unicodeEscape s ++ ['"']))) = some s := by
  unfold replaceCharsWithLingoConstants
  rw [replacementConstants_value]
  simp only [List.foldl_cons, List.foldl_nil]
  have e1 : S "\"" = ['"'] := by decide
  have e2 : S "\\x08" = '\\' :: ['x', '0', '8'] := by decide
  have e3 : S "\\x03" = '\\' :: ['x', '0', '3'] := by decide
  have e4 : S "\\r" = '\\' :: ['r'] := by decide
  have e5 : S "\\t" = '\\' :: ['t'] := by decide
  rw [e1, e2, e3, e4, e5]
  -- QUOTE
  have hq := quote_pass _ ['"'] s [] rfl (by simp) hs (by simp [lrun, lstep, linit])
  have hform : (['"'] : Str) ++ unicodeEscape s ++ ['"'] = '"' :: (unicodeEscape s ++ ['"']) := by simp
  rw [hform] at hq
  simp only [List.length_singleton, List.nil_append] at hq
  generalize replLoop (S "QUOTE") ['"'] ('"' :: (unicodeEscape s ++ ['"'])) 1
    (pyFind ('"' :: (unicodeEscape s ++ ['"'])) ['"'] 1 (('"' :: (unicodeEscape s ++ ['"'])).length - 1)) = n1 at hq ⊢
  -- BACKSPACE, ENTER, RETURN, TAB
  have h2 := esc_pass_top J0 escSet_J0 ['x', '0', '8'] (by decide) (Char.ofNat 8) (by decide) _ nameOk_BACKSPACE s n1 hq
  rw [dropEsc_J0] at h2
  generalize replLoop (S "BACKSPACE") ('\\' :: ['x', '0', '8']) n1 1 (pyFind n1 ('\\' :: ['x', '0', '8']) 1 (n1.length - 1)) = n2 at h2 ⊢
  have h3 := esc_pass_top J1 escSet_J1 ['x', '0', '3'] (by decide) (Char.ofNat 3) (by decide) _ nameOk_ENTER s n2 h2
  rw [dropEsc_J1] at h3
  generalize replLoop (S "ENTER") ('\\' :: ['x', '0', '3']) n2 1 (pyFind n2 ('\\' :: ['x', '0', '3']) 1 (n2.length - 1)) = n3 at h3 ⊢
  have h4 := esc_pass_top J2 escSet_J2 ['r'] (by decide) '\r' (by decide) _ nameOk_RETURN s n3 h3
  rw [dropEsc_J2] at h4
  generalize replLoop (S "RETURN") ('\\' :: ['r']) n3 1 (pyFind n3 ('\\' :: ['r']) 1 (n3.length - 1)) = n4 at h4 ⊢
  have h5 := esc_pass_top J3 escSet_J3 ['t'] (by decide) '\t' (by decide) _ nameOk_TAB s n4 h4
  rw [dropEsc_J3] at h5
  exact plain_of_no_escapes _ _ _ h5

/-! ### whole-string constants (PREDEFINED_CONSTANTS) and the final statement -/

theorem unicodeEscape_eq_nil (s : Str) (h : unicodeEscape s = []) : s = [] := by
  cases s with
  | nil => rfl
  | cons c cs =>
    exfalso
    simp only [unicodeEscape, List.flatMap_cons] at h
    exact unicodeEscapeChar_ne_nil c (List.append_eq_nil_iff.mp h).1

theorem quote_mem_escape (s : Str) (h : '"' ∈ s) : '"' ∈ unicodeEscape s := by
  induction s with
  | nil => simp at h
  | cons c cs ih =>
    simp only [unicodeEscape, List.flatMap_cons, List.mem_append] at ih ⊢
    simp only [List.mem_cons] at h
    rcases h with h | h
    · left; rw [← h]; decide
    · right; exact ih h

/-- safe text whose stored form is a given quote-free text is what the scanner reads from that text -/
theorem safe_of_escape_eq (s body : Str) (val : Str) (hs : ∀ c ∈ s, safeChar c = true) (hb : unicodeEscape s = body)
    (hq : '"' ∉ body) (hv : lrun (some J0) ⟨.S, []⟩ body = ⟨.S, val⟩) : s = val := by
  have hnq : ∀ c ∈ s, c ≠ '"' := by
    intro c hc e; subst e; exact hq (hb ▸ quote_mem_escape s hc)
  have := (lrun_safe_text s [] hs hnq).1
  rw [hb, hv] at this
  simpa using (LM.mk.inj this).2.symm

theorem escape_eq_quote (s : Str) (hs : ∀ c ∈ s, safeChar c = true) (hb : unicodeEscape s = ['"']) : s = ['"'] := by
  cases s with
  | nil => simp [unicodeEscape] at hb
  | cons c cs =>
    simp only [unicodeEscape, List.flatMap_cons] at hb
    have hne := unicodeEscapeChar_ne_nil c
    have hlen := congrArg List.length hb
    simp only [List.length_append, List.length_singleton] at hlen
    have hl1 : (unicodeEscapeChar c).length = 1 := by
      have : 0 < (unicodeEscapeChar c).length := List.length_pos_iff.mpr hne
      omega
    have hcs : List.flatMap unicodeEscapeChar cs = [] := List.eq_nil_of_length_eq_zero (by omega)
    have hcs' : cs = [] := unicodeEscape_eq_nil cs hcs
    subst hcs'
    rw [hcs, List.append_nil] at hb
    by_cases hc : c = '"'
    · rw [hc]
    · exfalso
      have := (lrun_safe_char c [] (hs c (by simp)) hc).2
      rw [hb] at this
      simp at this

/-- C11 for Lingo string literals on the safe domain: the literal written for a string of safe characters (any length)
    evaluates to the string -/
theorem evalLingoLit_constLingo_safe (s : Str) (hs : ∀ c ∈ s, safeChar c = true) :
    evalLingoLit (constLingo (.s (escapeString s))).str = some s := by
  have hn : escapeString s = '"' :: (unicodeEscape s ++ ['"']) := rfl
  rw [hn]
  simp only [constLingo]
  cases hl : predefinedConstants.lookup ('"' :: (unicodeEscape s ++ ['"'])) with
  | none =>
    have hq : startsWith ('"' :: (unicodeEscape s ++ ['"'])) ['"'] = true := by simp [startsWith, List.isPrefixOf]
    simp only [hq, if_true, Name.str]
    exact replaceChars_safe s hs
  | some c =>
    simp only [Name.str]
    rw [predefinedConstants_value] at hl
    simp only [List.lookup] at hl
    -- which key was it?
    split at hl
    · rename_i heq
      have hE : unicodeEscape s = [] := by
        have := eq_of_beq heq
        have h2 : S "\"\"" = ['"', '"'] := by decide
        rw [h2] at this
        simp at this
        exact this
      have := unicodeEscape_eq_nil s hE
      subst this
      cases hl; decide
    · split at hl
      · rename_i _ heq
        have hE : unicodeEscape s = ['\\', 'x', '0', '8'] := by
          have := eq_of_beq heq
          have h2 : S "\"\\x08\"" = '"' :: (['\\', 'x', '0', '8'] ++ ['"']) := by decide
          rw [h2] at this
          exact List.append_cancel_right (List.cons_eq_cons.mp this).2
        have := safe_of_escape_eq s _ [Char.ofNat 8] hs hE (by decide) (by decide)
        subst this
        cases hl; decide
      · split at hl
        · rename_i _ _ heq
          have hE : unicodeEscape s = ['\\', 'x', '0', '3'] := by
            have := eq_of_beq heq
            have h2 : S "\"\\x03\"" = '"' :: (['\\', 'x', '0', '3'] ++ ['"']) := by decide
            rw [h2] at this
            exact List.append_cancel_right (List.cons_eq_cons.mp this).2
          have := safe_of_escape_eq s _ [Char.ofNat 3] hs hE (by decide) (by decide)
          subst this
          cases hl; decide
        · split at hl
          · rename_i _ _ _ heq
            have hE : unicodeEscape s = ['"'] := by
              have := eq_of_beq heq
              have h2 : S "\"\"\"" = '"' :: (['"'] ++ ['"']) := by decide
              rw [h2] at this
              exact List.append_cancel_right (List.cons_eq_cons.mp this).2
            have := escape_eq_quote s hs hE
            subst this
            cases hl; decide
          · split at hl
            · rename_i _ _ _ _ heq
              have hE : unicodeEscape s = ['\\', 'r'] := by
                have := eq_of_beq heq
                have h2 : S "\"\\r\"" = '"' :: (['\\', 'r'] ++ ['"']) := by decide
                rw [h2] at this
                exact List.append_cancel_right (List.cons_eq_cons.mp this).2
              have := safe_of_escape_eq s _ ['\r'] hs hE (by decide) (by decide)
              subst this
              cases hl; decide
            · split at hl
              · rename_i _ _ _ _ _ heq
                have hE : unicodeEscape s = ['\\', 't'] := by
                  have := eq_of_beq heq
                  have h2 : S "\"\\t\"" = '"' :: (['\\', 't'] ++ ['"']) := by decide
                  rw [h2] at this
                  exact List.append_cancel_right (List.cons_eq_cons.mp this).2
                have := safe_of_escape_eq s _ ['\t'] hs hE (by decide) (by decide)
                subst this
                cases hl; decide
              · simp at hl

end Drx.Lscr
