/-
  F160 layer — `_is_parenthesized` (model: `Lscr.isParenthesized`, the scan `parenScan`) on the text of a JavaScript expression
  tree: the text is ONE parenthesised group exactly when the tree is an infix operation.
    Bal t            scanning `t` outside a string literal at a depth ≥ 1 returns to the same state (parentheses balanced,
                     string literals closed, no parenthesis of `t` closes an outer one)
    bal_txJ          every tree with lexically well-formed leaves has a balanced text
    isParen_txJ      `isParenthesized (txJ e) = isBinJ e`
-/
import DrxProofs.LinkJsLex
import DrxProofs.LinkJsText
namespace Drx.LinkJs
open Drx Drx.Lscr Drx.Gen Drx.Spec Drx.Link
set_option linter.unusedSimpArgs false
set_option linter.unusedVariables false

/-- scanning `t` outside a string literal at depth `d ≥ 1` leaves depth and quote state unchanged -/
def Bal (t : Str) : Prop := ∀ (d : Int), 1 ≤ d → ∀ rest, parenScan (t ++ rest) d none = parenScan rest d none

theorem Bal.nil : Bal [] := fun _ _ _ => rfl

theorem Bal.append {a b : Str} (ha : Bal a) (hb : Bal b) : Bal (a ++ b) := by
  intro d hd rest
  rw [List.append_assoc, ha d hd, hb d hd]

/-- characters the scan does not look at (outside a literal) -/
def plainCh (c : Char) : Bool := c != '"' && c != '\'' && c != '(' && c != ')'

theorem scan_plain (c : Char) (h : plainCh c = true) (r : Str) (d : Int) : parenScan (c :: r) d none = parenScan r d none := by
  simp only [plainCh, Bool.and_eq_true, bne_iff_ne, ne_eq] at h
  obtain ⟨⟨⟨h1, h2⟩, h3⟩, h4⟩ := h
  rw [parenScan]
  simp [h1, h2, h3, h4]

theorem Bal.plain (t : Str) (h : t.all plainCh = true) : Bal t := by
  intro d hd rest
  induction t with
  | nil => rfl
  | cons c cs ih =>
    simp only [List.all_cons, Bool.and_eq_true] at h
    rw [List.cons_append, scan_plain c h.1, ih h.2]

theorem Bal.paren {t : Str} (h : Bal t) : Bal (S "(" ++ t ++ S ")") := by
  intro d hd rest
  have e : S "(" ++ t ++ S ")" ++ rest = '(' :: (t ++ (')' :: rest)) := by simp [S]
  rw [e, parenScan]
  simp only [show ¬ (('(' : Char) = '"' ∨ ('(' : Char) = '\'') by decide, if_false, if_true]
  rw [h (d + 1) (by omega), parenScan]
  have hne : ¬ (d + 1 - 1 = 0) := by omega
  have hd' : d + 1 - 1 = d := by omega
  simp only [show ¬ ((')' : Char) = '"' ∨ (')' : Char) = '\'') by decide, show ¬ ((')' : Char) = '(') by decide, if_false, if_true]
  rw [if_neg hne, hd']

/-! ### string literals -/

theorem scanq_plain (q c : Char) (r : Str) (d : Int) (h1 : c ≠ '\\') (h2 : c ≠ q) :
    parenScan (c :: r) d (some q) = parenScan r d (some q) := by
  rw [parenScan.eq_def]; simp [h1, h2]

theorem scanq_esc (q x : Char) (r : Str) (d : Int) : parenScan ('\\' :: x :: r) d (some q) = parenScan r d (some q) := by
  rw [parenScan.eq_def]; simp

theorem scanq_close (q : Char) (r : Str) (d : Int) (h : q ≠ '\\') : parenScan (q :: r) d (some q) = parenScan r d none := by
  rw [parenScan.eq_def]; simp [h]

theorem hexDigit_plainq : ∀ k, k < 16 → hexDigit k ≠ '\\' ∧ hexDigit k ≠ '"' := by decide

/-- one character of a string constant as the translator writes it between double quotes is passed over -/
theorem scanq_char (c : Char) (hc : c.toNat < 65536) (rest : Str) (d : Int) :
    parenScan ((unicodeEscapeChar c).flatMap jsQuote ++ rest) d (some '"') = parenScan rest d (some '"') := by
  unfold unicodeEscapeChar
  by_cases h1 : c = '\\'
  · subst h1; simp only [if_true]; exact scanq_esc _ _ _ _
  · by_cases h2 : c = '\t'
    · subst h2; simp only [h1, if_false, if_true]; exact scanq_esc _ _ _ _
    · by_cases h3 : c = '\n'
      · subst h3; simp only [h1, h2, if_false, if_true]; exact scanq_esc _ _ _ _
      · by_cases h4 : c = '\r'
        · subst h4; simp only [h1, h2, h3, if_false, if_true]; exact scanq_esc _ _ _ _
        · simp only [h1, h2, h3, h4, if_false]
          by_cases hp : 32 ≤ c.toNat ∧ c.toNat < 127
          · simp only [hp, and_self, if_true]
            by_cases hq : c = '"'
            · subst hq; exact scanq_esc _ _ _ _
            · simp only [List.flatMap_cons, List.flatMap_nil, jsQuote, hq, if_false, List.append_nil, List.cons_append, List.nil_append]
              exact scanq_plain _ c rest d h1 hq
          · simp only [hp, if_false]
            by_cases h8 : c.toNat < 256
            · simp only [h8, if_true, Lscr.hex2]
              have e1 := jsQuote_hexDigit (c.toNat / 16 % 16) (Nat.mod_lt _ (by omega))
              have e2 := jsQuote_hexDigit (c.toNat % 16) (Nat.mod_lt _ (by omega))
              have p1 := hexDigit_plainq (c.toNat / 16 % 16) (Nat.mod_lt _ (by omega))
              have p2 := hexDigit_plainq (c.toNat % 16) (Nat.mod_lt _ (by omega))
              have q1 : jsQuote '\\' = ['\\'] := by decide
              have q2 : jsQuote 'x' = ['x'] := by decide
              simp only [List.flatMap_cons, List.flatMap_nil, q1, q2, e1, e2, List.append_nil, List.cons_append, List.nil_append]
              rw [scanq_esc, scanq_plain _ _ _ _ p1.1 p1.2, scanq_plain _ _ _ _ p2.1 p2.2]
            · have hlt : c.toNat < 65536 := hc
              simp only [h8, hlt, if_false, if_true, hex4l]
              have e1 := jsQuote_hexDigit (c.toNat / 4096 % 16) (Nat.mod_lt _ (by omega))
              have e2 := jsQuote_hexDigit (c.toNat / 256 % 16) (Nat.mod_lt _ (by omega))
              have e3 := jsQuote_hexDigit (c.toNat / 16 % 16) (Nat.mod_lt _ (by omega))
              have e4 := jsQuote_hexDigit (c.toNat % 16) (Nat.mod_lt _ (by omega))
              have p1 := hexDigit_plainq (c.toNat / 4096 % 16) (Nat.mod_lt _ (by omega))
              have p2 := hexDigit_plainq (c.toNat / 256 % 16) (Nat.mod_lt _ (by omega))
              have p3 := hexDigit_plainq (c.toNat / 16 % 16) (Nat.mod_lt _ (by omega))
              have p4 := hexDigit_plainq (c.toNat % 16) (Nat.mod_lt _ (by omega))
              have q1 : jsQuote '\\' = ['\\'] := by decide
              have q2 : jsQuote 'u' = ['u'] := by decide
              simp only [List.flatMap_cons, List.flatMap_nil, q1, q2, e1, e2, e3, e4, List.append_nil, List.cons_append, List.nil_append]
              rw [scanq_esc, scanq_plain _ _ _ _ p1.1 p1.2, scanq_plain _ _ _ _ p2.1 p2.2, scanq_plain _ _ _ _ p3.1 p3.2,
                scanq_plain _ _ _ _ p4.1 p4.2]

theorem scanq_escQ (s rest : Str) (hs : strOk s = true) (d : Int) :
    parenScan (escQ s ++ '"' :: rest) d (some '"') = parenScan rest d none := by
  rw [escQ_eq]
  induction s with
  | nil => simp only [unicodeEscape, List.flatMap_nil, List.nil_append]; exact scanq_close _ _ _ (by decide)
  | cons c cs ih =>
    simp only [strOk, List.all_cons, Bool.and_eq_true, decide_eq_true_eq] at hs
    have := ih (by simpa [strOk] using hs.2)
    simp only [unicodeEscape, List.flatMap_cons, List.flatMap_append, List.append_assoc] at this ⊢
    rw [scanq_char c hs.1, this]

theorem Bal.dstr (s : Str) (hs : strOk s = true) : Bal (S "\"" ++ escQ s ++ S "\"") := by
  intro d hd rest
  have e : S "\"" ++ escQ s ++ S "\"" ++ rest = '"' :: (escQ s ++ '"' :: rest) := by simp [S]
  rw [e, parenScan]
  simp only [true_or, if_true]
  exact scanq_escQ s rest hs d

theorem scanq_sstr (s rest : Str) (hs : sstrOk s = true) (d : Int) :
    parenScan (s ++ '\'' :: rest) d (some '\'') = parenScan rest d none := by
  induction s with
  | nil => exact scanq_close _ _ _ (by decide)
  | cons c cs ih =>
    simp only [sstrOk, List.all_cons, Bool.and_eq_true, bne_iff_ne, ne_eq] at hs
    rw [List.cons_append, scanq_plain _ c _ d hs.1.1.2 hs.1.1.1]
    exact ih (by simpa [sstrOk] using hs.2)

theorem Bal.sstr (s : Str) (hs : sstrOk s = true) : Bal (S "'" ++ s ++ S "'") := by
  intro d hd rest
  have e : S "'" ++ s ++ S "'" ++ rest = '\'' :: (s ++ '\'' :: rest) := by simp [S]
  rw [e, parenScan]
  simp only [or_true, if_true]
  exact scanq_sstr s rest hs d

/-! ### identifiers, numbers, operators -/

theorem idChar_plain (c : Char) (h : isJsIdChar c = true) : plainCh c = true := by
  simp only [plainCh, Bool.and_eq_true, bne_iff_ne, ne_eq]
  refine ⟨⟨⟨?_, ?_⟩, ?_⟩, ?_⟩ <;> (intro e; subst e; exact absurd h (by decide))

theorem Bal.id (n : Spec.Name) (h : jsIdLex n = true) : Bal n := by
  apply Bal.plain
  rw [List.all_eq_true]
  intro c hc
  exact idChar_plain c ((jsIdLex_all' n h) c hc)
where
  jsIdLex_all' (n : Spec.Name) (h : jsIdLex n = true) : ∀ c ∈ n, isJsIdChar c = true := by
    cases n with
    | nil => simp [jsIdLex] at h
    | cons c cs =>
      simp only [jsIdLex, Bool.and_eq_true, List.all_eq_true] at h
      intro x hx
      rcases List.mem_cons.mp hx with hx | hx
      · subst hx; exact jsIdStart_idChar x h.1
      · exact h.2 x hx

theorem Bal.natStr (k : Nat) : Bal (natStr k) := by
  apply Bal.plain
  rw [List.all_eq_true]
  intro c hc
  have := (natStr_digits k).2
  rw [List.all_eq_true] at this
  exact idChar_plain c (idChar_of_digit c (this c hc))

theorem jsOps_plain : ∀ x ∈ jsOps, x.1.all plainCh = true := by decide

theorem Bal.op (op : Spec.Name) (h : (jsOpInfo op).isSome = true) : Bal op := by
  obtain ⟨y, hy⟩ := Option.isSome_iff_exists.mp h
  obtain ⟨hy1, hy2⟩ := jsOpInfo_spec op y hy
  rw [← hy2]
  exact Bal.plain _ (jsOps_plain y hy1)

/-! ### trees -/

theorem Bal.recv {o : JE} (h : Bal (txJ o)) : Bal (if o.needsParen then S "(" ++ txJ o ++ S ")" else txJ o) := by
  split
  · exact h.paren
  · exact h

mutual
/-- the text of every lexically well-formed tree is balanced -/
theorem bal_txJ : ∀ (e : JE), LexOK e → Bal (txJ e)
  | .num d _, _ => by simpa [txJ] using Bal.natStr d
  | .lstr s, h => by
    have hs : strOk s = true := h
    have := (Bal.plain (S "new LingoString") (by decide)).append (Bal.dstr s hs).paren
    simpa [txJ, S, List.append_assoc] using this
  | .dstr s, h => by
    have hs : strOk s = true := h
    simpa [txJ] using Bal.dstr s hs
  | .sstr s, h => by
    have hs : sstrOk s = true := h
    simpa [txJ] using Bal.sstr s hs
  | .id n, h => by
    have hn : jsIdLex n = true := h
    simpa [txJ] using Bal.id n hn
  | .mem o n, h => by
    obtain ⟨ho, hn⟩ : LexOK o ∧ jsIdLex n = true := h
    have := ((bal_txJ o ho).recv.append (Bal.plain (S ".") (by decide))).append (Bal.id n hn)
    simpa [txJ] using this
  | .idx o i, h => by
    obtain ⟨ho, hi⟩ : LexOK o ∧ LexOK i := h
    have := (((bal_txJ o ho).recv.append (Bal.plain (S "[") (by decide))).append (bal_txJ i hi)).append (Bal.plain (S "]") (by decide))
    simpa [txJ] using this
  | .call f as, h => by
    obtain ⟨hf, has⟩ : LexOK f ∧ LexOKL as := h
    have := (bal_txJ f hf).recv.append (bal_txArgs as has).paren
    simpa [txJ, List.append_assoc] using this
  | .newLS e, h => by
    have he : LexOK e := h
    have := (Bal.plain (S "new LingoString") (by decide)).append (bal_txJ e he).paren
    simpa [txJ, S, List.append_assoc] using this
  | .un op a, h => by
    obtain ⟨hop, ha⟩ : (op = "-".toList ∨ op = "!".toList) ∧ LexOK a := h
    have hpl : Bal op := by rcases hop with rfl | rfl <;> exact Bal.plain _ (by decide)
    have := hpl.append (bal_txJ a ha).paren
    simpa [txJ, List.append_assoc] using this
  | .bin op a b, h => by
    obtain ⟨hop, ha, hb⟩ : (jsOpInfo op).isSome = true ∧ LexOK a ∧ LexOK b := h
    have := (((((bal_txJ a ha).append (Bal.plain (S " ") (by decide))).append (Bal.op op hop)).append (Bal.plain (S " ") (by decide))).append
      (bal_txJ b hb)).paren
    simpa [txJ, List.append_assoc] using this
  | .spread n, h => by
    have hn : jsIdLex n = true := h
    have := (Bal.plain (S "...") (by decide)).append (Bal.id n hn)
    simpa [txJ] using this
theorem bal_txArgs : ∀ (es : List JE), LexOKL es → Bal (txArgs es)
  | [], _ => by simpa [txArgs] using Bal.nil
  | [e], h => by simpa [txArgs] using bal_txJ e h.1
  | e :: e2 :: es, h => by
    have := ((bal_txJ e h.1).append (Bal.plain (S ", ") (by decide))).append (bal_txArgs (e2 :: es) h.2)
    simpa [txArgs] using this
end

/-- the text without the outer parentheses of an infix operation -/
theorem bal_txBare (e : JE) (h : LexOK e) : Bal (txBare e) := by
  cases e with
  | bin op a b =>
    obtain ⟨hop, ha, hb⟩ : (jsOpInfo op).isSome = true ∧ LexOK a ∧ LexOK b := h
    have := ((((bal_txJ a ha).append (Bal.plain (S " ") (by decide))).append (Bal.op op hop)).append (Bal.plain (S " ") (by decide))).append
      (bal_txJ b hb)
    simpa [txBare, List.append_assoc] using this
  | _ => exact bal_txJ _ h

/-! ### `isParenthesized` -/

/-- a balanced text in one pair of parentheses, followed by `rest`: the scan stops at the closing parenthesis -/
theorem isParen_group (t rest : Str) (h : Bal t) : isParenthesized (S "(" ++ t ++ S ")" ++ rest) = rest.isEmpty := by
  have e : S "(" ++ t ++ S ")" ++ rest = '(' :: (t ++ (')' :: rest)) := by simp [S]
  rw [e]
  unfold isParenthesized
  have hs : startsWith ('(' :: (t ++ (')' :: rest))) (S "(") = true := by simp [startsWith, S, List.isPrefixOf]
  rw [hs, Bool.true_and, parenScan]
  simp only [show ¬ (('(' : Char) = '"' ∨ ('(' : Char) = '\'') by decide, if_false, if_true]
  rw [h (0 + 1) (by omega), parenScan]
  simp only [show ¬ ((')' : Char) = '"' ∨ (')' : Char) = '\'') by decide, show ¬ ((')' : Char) = '(') by decide, if_false, if_true]
  simp

theorem isParen_head (c : Char) (r : Str) (h : c ≠ '(') : isParenthesized (c :: r) = false := by
  unfold isParenthesized
  have : startsWith (c :: r) (S "(") = false := by
    simp [startsWith, S, List.isPrefixOf]
    intro e; exact absurd e.symm h
  rw [this, Bool.false_and]

theorem txJ_bin_eq (op : Spec.Name) (a b : JE) : txJ (.bin op a b) = S "(" ++ txBare (.bin op a b) ++ S ")" := by
  simp [txJ, txBare, List.append_assoc]

/-- the text of a tree followed by something, or of a tree that is no infix operation, is not one parenthesised group -/
theorem notParen : ∀ (e : JE), LexOK e → ∀ (rest : Str), (rest ≠ [] ∨ isBinJ e = false) → isParenthesized (txJ e ++ rest) = false
  | .bin op a b, h, rest, hr => by
    have hne : rest ≠ [] := by rcases hr with hr | hr; exact hr; simp [isBinJ] at hr
    rw [txJ_bin_eq, isParen_group _ rest (bal_txBare _ h)]
    cases rest with
    | nil => exact absurd rfl hne
    | cons _ _ => rfl
  | .num d k, _, rest, _ => by
    have := natStr_special d
    cases hn : natStr d with
    | nil => rw [hn] at this; simp at this
    | cons c r =>
      rw [hn] at this
      simp only [txJ, hn, List.cons_append]
      refine isParen_head c _ ?_
      intro e; subst e; simp [special, isAsciiDigit] at this
  | .lstr s, _, rest, _ => by simp only [txJ, S]; exact isParen_head _ _ (by decide)
  | .dstr s, _, rest, _ => by simp only [txJ, S]; exact isParen_head _ _ (by decide)
  | .sstr s, _, rest, _ => by simp only [txJ, S]; exact isParen_head _ _ (by decide)
  | .newLS e, _, rest, _ => by simp only [txJ, S]; exact isParen_head _ _ (by decide)
  | .spread n, _, rest, _ => by simp only [txJ, S]; exact isParen_head _ _ (by decide)
  | .id n, h, rest, _ => by
    have hn : jsIdLex n = true := h
    cases n with
    | nil => simp [jsIdLex] at hn
    | cons c cs =>
      simp only [jsIdLex, Bool.and_eq_true] at hn
      simp only [txJ, List.cons_append]
      refine isParen_head c _ ?_
      intro e; subst e; exact absurd hn.1 (by decide)
  | .un op a, h, rest, _ => by
    obtain ⟨hop, _⟩ : (op = "-".toList ∨ op = "!".toList) ∧ LexOK a := h
    rcases hop with rfl | rfl <;> (simp only [txJ, S]; exact isParen_head _ _ (by decide))
  | .mem o n, h, rest, _ => by
    obtain ⟨ho, hn⟩ : LexOK o ∧ jsIdLex n = true := h
    simp only [txJ]
    split
    · have := isParen_group (txJ o) (S "." ++ n ++ rest) (bal_txJ o ho)
      simp only [List.append_assoc] at this ⊢
      rw [this]; simp [S]
    · have := notParen o ho (S "." ++ n ++ rest) (Or.inl (by simp [S]))
      simpa [List.append_assoc] using this
  | .idx o i, h, rest, _ => by
    obtain ⟨ho, hi⟩ : LexOK o ∧ LexOK i := h
    simp only [txJ]
    split
    · have := isParen_group (txJ o) (S "[" ++ txJ i ++ S "]" ++ rest) (bal_txJ o ho)
      simp only [List.append_assoc] at this ⊢
      rw [this]; simp [S]
    · have := notParen o ho (S "[" ++ txJ i ++ S "]" ++ rest) (Or.inl (by simp [S]))
      simpa [List.append_assoc] using this
  | .call f as, h, rest, _ => by
    obtain ⟨hf, has⟩ : LexOK f ∧ LexOKL as := h
    simp only [txJ]
    split
    · have := isParen_group (txJ f) (S "(" ++ txArgs as ++ S ")" ++ rest) (bal_txJ f hf)
      simp only [List.append_assoc] at this ⊢
      rw [this]; simp [S]
    · have := notParen f hf (S "(" ++ txArgs as ++ S ")" ++ rest) (Or.inl (by simp [S]))
      simpa [List.append_assoc] using this

/-- **F160 on trees**: `_is_parenthesized` holds of the text of a tree exactly when the tree is an infix operation -/
theorem isParen_txJ (e : JE) (h : LexOK e) : isParenthesized (txJ e) = isBinJ e := by
  cases hb : isBinJ e with
  | false => simpa using notParen e h [] (Or.inr hb)
  | true =>
    cases e with
    | bin op a b =>
      have := isParen_group (txBare (.bin op a b)) [] (bal_txBare _ h)
      rw [txJ_bin_eq]
      simpa using this
    | _ => simp [isBinJ] at hb

/-- the condition as `IfThenOperation` / `RepeatOperation.generate_js` write it: always in exactly one pair of parentheses -/
theorem cond_text (e : JE) (h : LexOK e) :
    (if isParenthesized (txJ e) then txJ e else S "(" ++ txJ e ++ S ")") = S "(" ++ txBare e ++ S ")" := by
  rw [isParen_txJ e h]
  cases e with
  | bin op a b => simp only [isBinJ, if_true]; exact txJ_bin_eq op a b
  | _ => simp [isBinJ, txBare]

end Drx.LinkJs
