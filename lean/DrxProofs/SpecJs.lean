/-
  The JavaScript-subset reader inverts the reference printer of expressions:  jLevel (prJ e ++ rest) = some (e, rest).
-/
import Drx.Spec.JsRead
namespace Drx.Spec

/-- the 13 infix operators of the subset: (text, token, level) -/
def jsOps : List (Name × JTok × Nat) :=
  [("||".toList, .p .or, 1), ("&&".toList, .p .and, 2), ("==".toList, .p .eq, 3), ("!=".toList, .p .ne, 3),
   ("<".toList, .p .lt, 4), ("<=".toList, .p .le, 4), (">".toList, .p .gt, 4), (">=".toList, .p .ge, 4),
   ("+".toList, .p .plus, 5), ("-".toList, .p .minus, 5), ("*".toList, .p .star, 6), ("/".toList, .p .slash, 6), ("%".toList, .p .pct, 6)]

def jsOpInfo (op : Name) : Option (Name × JTok × Nat) := jsOps.find? fun x => x.1 == op

theorem jsOps_own : ∀ x ∈ jsOps, jsBinOfTok x.2.2 x.2.1 = some x.1 := by decide
theorem jsOps_other : ∀ x ∈ jsOps, ∀ l, l < 8 → l ≠ x.2.2 → jsBinOfTok l x.2.1 = none := by decide
theorem jsOps_tok : ∀ x ∈ jsOps, jsOpTok x.1 = some x.2.1 := by decide
theorem jsOps_level : ∀ x ∈ jsOps, 1 ≤ x.2.2 ∧ x.2.2 ≤ 6 := by decide

theorem jsBinOfTok_ge7 (l : Nat) (t : JTok) (h : 7 ≤ l) : jsBinOfTok l t = none := by
  match l, h with
  | n + 7, _ => simp [jsBinOfTok]

theorem jsOpInfo_spec (op : Name) (x : Name × JTok × Nat) (h : jsOpInfo op = some x) : x ∈ jsOps ∧ x.1 = op := by
  unfold jsOpInfo at h
  have h1 := List.mem_of_find?_eq_some h
  have h2 := List.find?_some h
  exact ⟨h1, by simpa using h2⟩

/-- nothing that follows can continue an expression at level ≥ lvl -/
def JFollow (lvl : Nat) : List JTok → Prop
  | [] => True
  | t :: _ => ∀ l, lvl ≤ l → jsBinOfTok l t = none

/-- nothing that follows continues a postfix chain -/
def NoPost : List JTok → Prop
  | .p .dot :: _ => False
  | .p .lb :: _ => False
  | .p .lp :: _ => False
  | _ => True

def JCloser (t : JTok) : Prop := t = .p .rp ∨ t = .p .comma ∨ t = .p .rb ∨ t = .p .semi

theorem jsBinOfTok_closer (l : Nat) (t : JTok) (h : JCloser t) : jsBinOfTok l t = none := by
  rcases h with h | h | h | h <;> subst h <;>
  · match l with
    | 0 => rfl
    | 1 => rfl
    | 2 => rfl
    | 3 => rfl
    | 4 => rfl
    | 5 => rfl
    | 6 => rfl
    | n + 7 => simp [jsBinOfTok]

theorem jfollow_closer (lvl : Nat) (t : JTok) (r : List JTok) (h : JCloser t) : JFollow lvl (t :: r) :=
  fun l _ => jsBinOfTok_closer l t h

theorem nopost_closer (t : JTok) (r : List JTok) (h : JCloser t) : NoPost (t :: r) := by
  rcases h with h | h | h | h <;> subst h <;> trivial

theorem jLoop_stop (f lvl : Nat) (a : JE) (rest : List JTok) (h : JFollow lvl rest) :
    jLoop (f + 1) lvl a rest = some (a, rest) := by
  cases rest with
  | nil => simp [jLoop]
  | cons t r =>
    have : jsBinOfTok lvl t = none := h lvl (Nat.le_refl _)
    simp [jLoop, this]

theorem jPostfix_stop (f : Nat) (e : JE) (rest : List JTok) (h : NoPost rest) : jPostfix (f + 1) e rest = some (e, rest) := by
  rcases rest with _ | ⟨t, r⟩
  · simp [jPostfix]
  · cases t with
    | p x => cases x <;> simp_all [jPostfix, NoPost]
    | id s => simp [jPostfix]
    | num a b => simp [jPostfix]
    | dstr s => simp [jPostfix]
    | sstr s => simp [jPostfix]

/-- from the unary level (7) up to `lvl` -/
theorem jclimb (ts rest : List JTok) (e : JE) (B : Nat)
    (h7 : ∀ F, B ≤ F → jUnary F ts = some (e, rest)) :
    ∀ (k lvl : Nat), lvl + k = 7 → 1 ≤ lvl → JFollow lvl rest → ∀ F, B + k + 1 ≤ F → jLevel F lvl ts = some (e, rest) := by
  intro k
  induction k with
  | zero =>
    intro lvl hl _ _ F hF
    obtain ⟨f, rfl⟩ : ∃ f, F = f + 1 := ⟨F - 1, by omega⟩
    have h : lvl ≥ 7 := by omega
    simp only [jLevel, h, if_true]
    exact h7 f (by omega)
  | succ k ih =>
    intro lvl hl h1 hfol F hF
    obtain ⟨f, rfl⟩ : ∃ f, F = f + 1 := ⟨F - 1, by omega⟩
    have h : ¬ lvl ≥ 7 := by omega
    have hfol' : JFollow (lvl + 1) rest := by
      cases rest with
      | nil => trivial
      | cons t r => exact fun l hl' => hfol l (by omega)
    have := ih (lvl + 1) (by omega) (by omega) hfol' f (by omega)
    simp only [jLevel, h, if_false, this]
    obtain ⟨f', rfl⟩ : ∃ f', f = f' + 1 := ⟨f - 1, by omega⟩
    exact jLoop_stop f' lvl e rest hfol

theorem jU_id (f : Nat) (n : Name) (R : List JTok) (x : JE × List JTok) (hk : isJsKeyword n = false) (hn : n ≠ "new".toList)
    (h : jPostfix (f + 1) (.id n) R = some x) : jUnary (f + 2) (.id n :: R) = some x := by
  have hn' : ¬ n = ['n', 'e', 'w'] := hn
  simp only [jUnary, jPrimary]
  simp [hn', hk, h]

theorem jU_num (f : Nat) (d s : Nat) (R : List JTok) (x : JE × List JTok)
    (h : jPostfix (f + 1) (.num d s) R = some x) : jUnary (f + 2) (.num d s :: R) = some x := by
  simp [jUnary, jPrimary, h]

theorem jU_dstr (f : Nat) (s : Name) (R : List JTok) (x : JE × List JTok)
    (h : jPostfix (f + 1) (.dstr s) R = some x) : jUnary (f + 2) (.dstr s :: R) = some x := by
  simp [jUnary, jPrimary, h]

theorem jU_sstr (f : Nat) (s : Name) (R : List JTok) (x : JE × List JTok)
    (h : jPostfix (f + 1) (.sstr s) R = some x) : jUnary (f + 2) (.sstr s :: R) = some x := by
  simp [jUnary, jPrimary, h]

theorem jU_lstr (f : Nat) (s : Name) (R : List JTok) (x : JE × List JTok)
    (h : jPostfix (f + 1) (.lstr s) R = some x) :
    jUnary (f + 2) (.id "new".toList :: .id "LingoString".toList :: .p .lp :: .dstr s :: .p .rp :: R) = some x := by
  simp [jUnary, jPrimary, h]

theorem jU_paren (f : Nat) (X R : List JTok) (e : JE) (x : JE × List JTok)
    (h1 : jLevel f 1 X = some (e, .p .rp :: R)) (h2 : jPostfix (f + 1) e R = some x) :
    jUnary (f + 2) (.p .lp :: X) = some x := by
  simp [jUnary, jPrimary, h1, h2]

theorem jU_neg (f : Nat) (X r : List JTok) (e : JE) (h : jUnary f X = some (e, r)) :
    jUnary (f + 1) (.p .minus :: X) = some (.un "-".toList e, r) := by
  simp [jUnary, h]

theorem jU_bang (f : Nat) (X r : List JTok) (e : JE) (h : jUnary f X = some (e, r)) :
    jUnary (f + 1) (.p .bang :: X) = some (.un "!".toList e, r) := by
  simp [jUnary, h]

theorem jP_mem (f : Nat) (e : JE) (n : Name) (R : List JTok) (x : JE × List JTok)
    (h : jPostfix f (.mem e n) R = some x) : jPostfix (f + 1) e (.p .dot :: .id n :: R) = some x := by
  simp [jPostfix, h]

theorem jP_idx (f : Nat) (e i : JE) (X R : List JTok) (x : JE × List JTok)
    (h1 : jLevel f 1 X = some (i, .p .rb :: R)) (h2 : jPostfix f (.idx e i) R = some x) :
    jPostfix (f + 1) e (.p .lb :: X) = some x := by
  simp [jPostfix, h1, h2]

theorem jP_call (f : Nat) (e : JE) (as : List JE) (X R : List JTok) (x : JE × List JTok)
    (h1 : jArgs f X = some (as, R)) (h2 : jPostfix f (.call e as) R = some x) :
    jPostfix (f + 1) e (.p .lp :: X) = some x := by
  simp [jPostfix, h1, h2]

/-- reading `a op b` at every level up to the operator's own -/
theorem jread_infix (x : Name × JTok × Nat) (hx : x ∈ jsOps) (a b : JE) (ta tb R : List JTok) (B : Nat)
    (ha : ∀ F, B ≤ F → jLevel F (x.2.2 + 1) (ta ++ x.2.1 :: (tb ++ R)) = some (a, x.2.1 :: (tb ++ R)))
    (hb : ∀ F, B ≤ F → jLevel F (x.2.2 + 1) (tb ++ R) = some (b, R))
    (hR : JFollow 1 R) :
    ∀ (k lvl : Nat), lvl + k = x.2.2 → 1 ≤ lvl → ∀ F, B + k + 3 ≤ F →
      jLevel F lvl (ta ++ x.2.1 :: (tb ++ R)) = some (.bin x.1 a b, R) := by
  have hlv := jsOps_level x hx
  have folR : ∀ lvl, 1 ≤ lvl → JFollow lvl R := by
    intro lvl h1
    cases R with
    | nil => trivial
    | cons t r => exact fun l hl => hR l (by omega)
  intro k
  induction k with
  | zero =>
    intro lvl hl h1 F hF
    obtain ⟨f, rfl⟩ : ∃ f, F = f + 1 := ⟨F - 1, by omega⟩
    have hl' : lvl = x.2.2 := by omega
    subst hl'
    have h : ¬ x.2.2 ≥ 7 := by omega
    simp only [jLevel, h, if_false, ha f (by omega)]
    obtain ⟨f', rfl⟩ : ∃ f', f = f' + 1 := ⟨f - 1, by omega⟩
    simp only [jLoop, jsOps_own x hx, hb f' (by omega)]
    obtain ⟨f'', rfl⟩ : ∃ f'', f' = f'' + 1 := ⟨f' - 1, by omega⟩
    exact jLoop_stop f'' x.2.2 (.bin x.1 a b) R (folR _ hlv.1)
  | succ k ih =>
    intro lvl hl h1 F hF
    obtain ⟨f, rfl⟩ : ∃ f, F = f + 1 := ⟨F - 1, by omega⟩
    have h : ¬ lvl ≥ 7 := by omega
    simp only [jLevel, h, if_false, ih (lvl + 1) (by omega) (by omega) f (by omega)]
    obtain ⟨f', rfl⟩ : ∃ f', f = f' + 1 := ⟨f - 1, by omega⟩
    exact jLoop_stop f' lvl (.bin x.1 a b) R (folR _ h1)

theorem jfollow_optok (x : Name × JTok × Nat) (hx : x ∈ jsOps) (r : List JTok) : JFollow (x.2.2 + 1) (x.2.1 :: r) := by
  intro l hl
  by_cases h8 : l < 8
  · exact jsOps_other x hx l h8 (by omega)
  · exact jsBinOfTok_ge7 l _ (by omega)

theorem nopost_optok : ∀ x ∈ jsOps, ∀ r : List JTok, NoPost (x.2.1 :: r) := by
  intro x hx r
  have : x.2.1 ≠ .p .dot ∧ x.2.1 ≠ .p .lb ∧ x.2.1 ≠ .p .lp := by
    revert x; decide
  obtain ⟨h1, h2, h3⟩ := this
  cases hh : x.2.1 with
  | p y => cases y <;> simp_all [NoPost]
  | id s => trivial
  | num a b => trivial
  | dstr s => trivial
  | sstr s => trivial

mutual
/-- the expression fragment of the round-trip theorem: everything the translator emits in expressions except `new LingoString(a + b)`
    and the spread of the wrapper functions -/
def JFrag : JE → Prop
  | .num _ _ => True
  | .lstr _ => True
  | .dstr _ => True
  | .sstr _ => True
  | .id n => isJsKeyword n = false ∧ n ≠ "new".toList
  | .mem o _ => JFrag o
  | .idx o i => JFrag o ∧ JFrag i
  | .call f as => JFrag f ∧ JFragL as
  | .un op a => (op = "-".toList ∨ op = "!".toList) ∧ JFrag a
  | .bin op a b => (jsOpInfo op).isSome = true ∧ JFrag a ∧ JFrag b
  | .newLS _ => False
  | .spread _ => False
def JFragL : List JE → Prop
  | [] => True
  | e :: es => JFrag e ∧ JFragL es
end

mutual
def jfuel : JE → Nat
  | .mem o _ => jfuel o + 12
  | .idx o i => jfuel o + jfuel i + 24
  | .call f as => jfuel f + jfuelL as + 24
  | .un _ a => jfuel a + 24
  | .bin _ a b => jfuel a + jfuel b + 40
  | _ => 12
def jfuelL : List JE → Nat
  | [] => 0
  | e :: es => jfuel e + jfuelL es + 24
end

/-- `-(a)` / `!(a)` from the reading of `a` inside the parentheses -/
theorem jread_un (op : Name) (hop : op = "-".toList ∨ op = "!".toList) (a : JE) (ta R : List JTok) (B : Nat)
    (ha : ∀ F, B ≤ F → jLevel F 1 (ta ++ .p .rp :: R) = some (a, .p .rp :: R)) (hR : NoPost R) :
    ∀ F, B + 3 ≤ F → jUnary F ((jsUnTok op).getD (.p .bang) :: .p .lp :: (ta ++ .p .rp :: R)) = some (.un op a, R) := by
  intro F hF
  obtain ⟨f, rfl⟩ : ∃ f, F = f + 3 := ⟨F - 3, by omega⟩
  have inner : jUnary (f + 2) (.p .lp :: (ta ++ .p .rp :: R)) = some (a, R) :=
    jU_paren f _ R a (a, R) (ha f (by omega)) (jPostfix_stop f a R hR)
  rcases hop with h | h
  · subst h
    have : (jsUnTok "-".toList).getD (.p .bang) = .p .minus := by decide
    rw [this]; exact jU_neg (f + 2) _ R a inner
  · subst h
    have : (jsUnTok "!".toList).getD (.p .bang) = .p .bang := by decide
    rw [this]; exact jU_bang (f + 2) _ R a inner

theorem wrapRecv_of_not (o : JE) (ts : List JTok) (h : o.needsParen = false) : wrapRecv o ts = ts := by simp [wrapRecv, h]
theorem wrapRecv_of (o : JE) (ts : List JTok) (h : o.needsParen = true) : wrapRecv o ts = .p .lp :: ts ++ [.p .rp] := by simp [wrapRecv, h]

theorem prJArgs_cons2 (e e2 : JE) (es : List JE) : prJArgs (e :: e2 :: es) = prJ e ++ .p .comma :: prJArgs (e2 :: es) := by
  simp [prJArgs]

theorem jArgs_one (f : Nat) (t : JTok) (ts r : List JTok) (e : JE) (ht : t ≠ .p .rp)
    (h : jLevel f 1 (t :: ts) = some (e, .p .rp :: r)) : jArgs (f + 1) (t :: ts) = some ([e], r) := by
  unfold jArgs
  split
  · rename_i heq; cases heq
  · rename_i heq; injection heq with h1 _; exact absurd h1 ht
  · rename_i f' heq _
    have : f = f' := by omega
    subst this
    simp [h]

theorem jArgs_more (f : Nat) (t : JTok) (ts r r' : List JTok) (e e2 : JE) (es : List JE) (ht : t ≠ .p .rp)
    (h : jLevel f 1 (t :: ts) = some (e, .p .comma :: r)) (h2 : jArgs f r = some (e2 :: es, r')) :
    jArgs (f + 1) (t :: ts) = some (e :: e2 :: es, r') := by
  unfold jArgs
  split
  · rename_i heq; cases heq
  · rename_i heq; injection heq with h1 _; exact absurd h1 ht
  · rename_i f' heq _
    have : f = f' := by omega
    subst this
    simp [h, h2]

/-- the first token of a printed expression is not a closing parenthesis -/
def JHeadOk : List JTok → Prop
  | [] => False
  | t :: _ => t ≠ .p .rp

theorem jheadok_append (a b : List JTok) (h : JHeadOk a) : JHeadOk (a ++ b) := by
  cases a with
  | nil => exact absurd h (by simp [JHeadOk])
  | cons t ts => exact h

theorem jheadok_wrap (o : JE) (ts : List JTok) (h : JHeadOk ts) : JHeadOk (wrapRecv o ts) := by
  unfold wrapRecv
  split
  · simp [JHeadOk]
  · exact h

theorem prJ_head : ∀ (e : JE), JFrag e → JHeadOk (prJ e)
  | .num _ _, _ => by simp [prJ, JHeadOk]
  | .lstr _, _ => by simp [prJ, JHeadOk]
  | .dstr _, _ => by simp [prJ, JHeadOk]
  | .sstr _, _ => by simp [prJ, JHeadOk]
  | .id _, _ => by simp [prJ, JHeadOk]
  | .mem o n, h => by
    have ho : JFrag o := h
    simpa [prJ] using jheadok_append _ _ (jheadok_wrap o _ (prJ_head o ho))
  | .idx o i, h => by
    have ho : JFrag o := h.1
    simpa [prJ] using jheadok_append _ _ (jheadok_wrap o _ (prJ_head o ho))
  | .call g as, h => by
    have hg : JFrag g := h.1
    simpa [prJ] using jheadok_append _ _ (jheadok_wrap g _ (prJ_head g hg))
  | .un op a, h => by
    obtain ⟨hop, _⟩ : (op = "-".toList ∨ op = "!".toList) ∧ JFrag a := h
    rcases hop with h1 | h1 <;> subst h1 <;> simp [prJ, JHeadOk] <;> decide
  | .bin _ _ _, _ => by simp [prJ, JHeadOk]
  | .newLS _, h => absurd h (by simp [JFrag])
  | .spread _, h => absurd h (by simp [JFrag])

mutual
/-- continuation form: parsing the receiver-position print of `e` and then continuing the postfix chain from `e` -/
theorem js_cont : ∀ (e : JE), JFrag e → ∀ (R : List JTok) (x : JE × List JTok) (B : Nat),
    (∀ F, B ≤ F → jPostfix F e R = some x) → ∀ F, B + jfuel e ≤ F → jUnary F (wrapRecv e (prJ e) ++ R) = some x
  | .num d s, _, R, x, B, hp, F, hF => by
    obtain ⟨f, rfl⟩ : ∃ f, F = f + 4 := ⟨F - 4, by simp [jfuel] at hF; omega⟩
    have hl : jLevel (f + 2) 1 ([JTok.num d s] ++ .p .rp :: R) = some (.num d s, .p .rp :: R) :=
      jclimb _ _ (.num d s) 2 (fun F' hF' => by
        obtain ⟨f', rfl⟩ : ∃ f', F' = f' + 2 := ⟨F' - 2, by omega⟩
        exact jU_num f' d s _ _ (jPostfix_stop f' _ _ (nopost_closer _ _ (Or.inl rfl)))) 6 1 (by omega) (by omega)
        (jfollow_closer _ _ _ (Or.inl rfl)) (f + 2) (by simp [jfuel] at hF; omega)
    have := jU_paren (f + 2) _ R (.num d s) x hl (hp (f + 3) (by simp [jfuel] at hF; omega))
    simpa [wrapRecv, JE.needsParen, prJ] using this
  | .lstr s, _, R, x, B, hp, F, hF => by
    obtain ⟨f, rfl⟩ : ∃ f, F = f + 2 := ⟨F - 2, by simp [jfuel] at hF; omega⟩
    simpa [wrapRecv, JE.needsParen, prJ] using jU_lstr f s R x (hp (f + 1) (by simp [jfuel] at hF; omega))
  | .dstr s, _, R, x, B, hp, F, hF => by
    obtain ⟨f, rfl⟩ : ∃ f, F = f + 2 := ⟨F - 2, by simp [jfuel] at hF; omega⟩
    simpa [wrapRecv, JE.needsParen, prJ] using jU_dstr f s R x (hp (f + 1) (by simp [jfuel] at hF; omega))
  | .sstr s, _, R, x, B, hp, F, hF => by
    obtain ⟨f, rfl⟩ : ∃ f, F = f + 2 := ⟨F - 2, by simp [jfuel] at hF; omega⟩
    simpa [wrapRecv, JE.needsParen, prJ] using jU_sstr f s R x (hp (f + 1) (by simp [jfuel] at hF; omega))
  | .id n, h, R, x, B, hp, F, hF => by
    obtain ⟨hk, hn⟩ : isJsKeyword n = false ∧ n ≠ "new".toList := h
    obtain ⟨f, rfl⟩ : ∃ f, F = f + 2 := ⟨F - 2, by simp [jfuel] at hF; omega⟩
    simpa [wrapRecv, JE.needsParen, prJ] using jU_id f n R x hk hn (hp (f + 1) (by simp [jfuel] at hF; omega))
  | .mem o n, h, R, x, B, hp, F, hF => by
    have ho : JFrag o := h
    have := js_cont o ho (.p .dot :: .id n :: R) x (B + 1)
      (fun F' hF' => by
        obtain ⟨f', rfl⟩ : ∃ f', F' = f' + 1 := ⟨F' - 1, by omega⟩
        exact jP_mem f' o n R x (hp f' (by omega))) F (by simp [jfuel] at hF; omega)
    simpa [wrapRecv, JE.needsParen, prJ] using this
  | .idx o i, h, R, x, B, hp, F, hF => by
    obtain ⟨ho, hi⟩ : JFrag o ∧ JFrag i := h
    have hI : ∀ F', jfuel i + 10 ≤ F' → jLevel F' 1 (prJ i ++ .p .rb :: R) = some (i, .p .rb :: R) := fun F' hF' =>
      jclimb _ _ i (jfuel i + 2) (fun F'' hF'' => js_whole i hi _ (nopost_closer _ _ (Or.inr (Or.inr (Or.inl rfl)))) F'' hF'') 6 1 (by omega) (by omega)
        (jfollow_closer _ _ _ (Or.inr (Or.inr (Or.inl rfl)))) F' (by omega)
    have := js_cont o ho (.p .lb :: (prJ i ++ .p .rb :: R)) x (B + jfuel i + 11)
      (fun F' hF' => by
        obtain ⟨f', rfl⟩ : ∃ f', F' = f' + 1 := ⟨F' - 1, by omega⟩
        exact jP_idx f' o i _ R x (hI f' (by omega)) (hp f' (by omega))) F (by simp [jfuel] at hF; omega)
    simpa [wrapRecv, JE.needsParen, prJ] using this
  | .call g as, h, R, x, B, hp, F, hF => by
    obtain ⟨hg, has⟩ : JFrag g ∧ JFragL as := h
    have hA : ∀ F', jfuelL as + 1 ≤ F' → jArgs F' (prJArgs as ++ .p .rp :: R) = some (as, R) := fun F' hF' => js_args as has R F' hF'
    have := js_cont g hg (.p .lp :: (prJArgs as ++ .p .rp :: R)) x (B + jfuelL as + 2)
      (fun F' hF' => by
        obtain ⟨f', rfl⟩ : ∃ f', F' = f' + 1 := ⟨F' - 1, by omega⟩
        exact jP_call f' g as _ R x (hA f' (by omega)) (hp f' (by omega))) F (by simp [jfuel] at hF; omega)
    simpa [wrapRecv, JE.needsParen, prJ] using this
  | .un op a, h, R, x, B, hp, F, hF => by
    obtain ⟨hop, ha⟩ : (op = "-".toList ∨ op = "!".toList) ∧ JFrag a := h
    obtain ⟨f, rfl⟩ : ∃ f, F = f + 2 := ⟨F - 2, by simp [jfuel] at hF; omega⟩
    have hA : ∀ F', jfuel a + 10 ≤ F' → jLevel F' 1 (prJ a ++ .p .rp :: (.p .rp :: R)) = some (a, .p .rp :: (.p .rp :: R)) := fun F' hF' =>
      jclimb _ _ a (jfuel a + 2) (fun F'' hF'' => js_whole a ha _ (nopost_closer _ _ (Or.inl rfl)) F'' hF'') 6 1 (by omega) (by omega)
        (jfollow_closer _ _ _ (Or.inl rfl)) F' (by omega)
    have hU := jread_un op hop a (prJ a) (.p .rp :: R) (jfuel a + 10) hA (nopost_closer _ _ (Or.inl rfl))
    have hl : jLevel f 1 ((jsUnTok op).getD (.p .bang) :: .p .lp :: (prJ a ++ .p .rp :: (.p .rp :: R))) = some (.un op a, .p .rp :: R) :=
      jclimb _ _ (.un op a) (jfuel a + 13) hU 6 1 (by omega) (by omega) (jfollow_closer _ _ _ (Or.inl rfl)) f (by simp [jfuel] at hF; omega)
    have := jU_paren f _ R (.un op a) x hl (hp (f + 1) (by simp [jfuel] at hF; omega))
    simpa [wrapRecv, JE.needsParen, prJ] using this
  | .bin op a b, h, R, x, B, hp, F, hF => by
    obtain ⟨hop, ha, hb⟩ : (jsOpInfo op).isSome = true ∧ JFrag a ∧ JFrag b := h
    obtain ⟨y, hy⟩ := Option.isSome_iff_exists.mp hop
    obtain ⟨hy1, hy2⟩ := jsOpInfo_spec op y hy
    obtain ⟨f, rfl⟩ : ∃ f, F = f + 2 := ⟨F - 2, by simp [jfuel] at hF; omega⟩
    have hlv := jsOps_level y hy1
    have hA : ∀ F', jfuel a + 10 ≤ F' →
        jLevel F' (y.2.2 + 1) (prJ a ++ y.2.1 :: (prJ b ++ .p .rp :: R)) = some (a, y.2.1 :: (prJ b ++ .p .rp :: R)) := fun F' hF' =>
      jclimb _ _ a (jfuel a + 2) (fun F'' hF'' => js_whole a ha _ (nopost_optok y hy1 _) F'' hF'') (6 - y.2.2) (y.2.2 + 1) (by omega) (by omega)
        (jfollow_optok y hy1 _) F' (by omega)
    have hB : ∀ F', jfuel b + 10 ≤ F' → jLevel F' (y.2.2 + 1) (prJ b ++ .p .rp :: R) = some (b, .p .rp :: R) := fun F' hF' =>
      jclimb _ _ b (jfuel b + 2) (fun F'' hF'' => js_whole b hb _ (nopost_closer _ _ (Or.inl rfl)) F'' hF'') (6 - y.2.2) (y.2.2 + 1) (by omega) (by omega)
        (jfollow_closer _ _ _ (Or.inl rfl)) F' (by omega)
    have hin := jread_infix y hy1 a b (prJ a) (prJ b) (.p .rp :: R) (jfuel a + jfuel b + 10)
      (fun F' hF' => hA F' (by omega)) (fun F' hF' => hB F' (by omega)) (jfollow_closer _ _ _ (Or.inl rfl))
      (y.2.2 - 1) 1 (by omega) (Nat.le_refl 1) f (by simp [jfuel] at hF; omega)
    have htok : (jsOpTok op).getD (.p .plus) = y.2.1 := by
      have := jsOps_tok y hy1
      rw [hy2] at this; simp [this]
    rw [hy2] at hin
    have := jU_paren f _ R (.bin op a b) x hin (hp (f + 1) (by simp [jfuel] at hF; omega))
    simpa [wrapRecv, JE.needsParen, prJ, htok] using this
  | .newLS _, h, _, _, _, _, _, _ => absurd h (by simp [JFrag])
  | .spread _, h, _, _, _, _, _, _ => absurd h (by simp [JFrag])
/-- the unary level reads the plain print of `e` back when no postfix operator follows -/
theorem js_whole : ∀ (e : JE), JFrag e → ∀ (R : List JTok), NoPost R → ∀ F, jfuel e + 2 ≤ F → jUnary F (prJ e ++ R) = some (e, R)
  | .num d s, _, R, hR, F, hF => by
    obtain ⟨f, rfl⟩ : ∃ f, F = f + 2 := ⟨F - 2, by omega⟩
    simpa [prJ] using jU_num f d s R _ (jPostfix_stop f _ R hR)
  | .un op a, h, R, hR, F, hF => by
    obtain ⟨hop, ha⟩ : (op = "-".toList ∨ op = "!".toList) ∧ JFrag a := h
    have hA : ∀ F', jfuel a + 10 ≤ F' → jLevel F' 1 (prJ a ++ .p .rp :: R) = some (a, .p .rp :: R) := fun F' hF' =>
      jclimb _ _ a (jfuel a + 2) (fun F'' hF'' => js_whole a ha _ (nopost_closer _ _ (Or.inl rfl)) F'' hF'') 6 1 (by omega) (by omega)
        (jfollow_closer _ _ _ (Or.inl rfl)) F' (by omega)
    have := jread_un op hop a (prJ a) R (jfuel a + 10) hA hR F (by simp [jfuel] at hF; omega)
    simpa [prJ] using this
  | .lstr s, h, R, hR, F, hF => by
    have := js_cont (.lstr s) h R (.lstr s, R) 1 (fun F' hF' => by
      obtain ⟨f', rfl⟩ : ∃ f', F' = f' + 1 := ⟨F' - 1, by omega⟩
      exact jPostfix_stop f' _ R hR) F (by omega)
    simpa [wrapRecv, JE.needsParen] using this
  | .dstr s, h, R, hR, F, hF => by
    have := js_cont (.dstr s) h R (.dstr s, R) 1 (fun F' hF' => by
      obtain ⟨f', rfl⟩ : ∃ f', F' = f' + 1 := ⟨F' - 1, by omega⟩
      exact jPostfix_stop f' _ R hR) F (by omega)
    simpa [wrapRecv, JE.needsParen] using this
  | .sstr s, h, R, hR, F, hF => by
    have := js_cont (.sstr s) h R (.sstr s, R) 1 (fun F' hF' => by
      obtain ⟨f', rfl⟩ : ∃ f', F' = f' + 1 := ⟨F' - 1, by omega⟩
      exact jPostfix_stop f' _ R hR) F (by omega)
    simpa [wrapRecv, JE.needsParen] using this
  | .id n, h, R, hR, F, hF => by
    have := js_cont (.id n) h R (.id n, R) 1 (fun F' hF' => by
      obtain ⟨f', rfl⟩ : ∃ f', F' = f' + 1 := ⟨F' - 1, by omega⟩
      exact jPostfix_stop f' _ R hR) F (by omega)
    simpa [wrapRecv, JE.needsParen] using this
  | .mem o n, h, R, hR, F, hF => by
    have := js_cont (.mem o n) h R (.mem o n, R) 1 (fun F' hF' => by
      obtain ⟨f', rfl⟩ : ∃ f', F' = f' + 1 := ⟨F' - 1, by omega⟩
      exact jPostfix_stop f' _ R hR) F (by omega)
    simpa [wrapRecv, JE.needsParen] using this
  | .idx o i, h, R, hR, F, hF => by
    have := js_cont (.idx o i) h R (.idx o i, R) 1 (fun F' hF' => by
      obtain ⟨f', rfl⟩ : ∃ f', F' = f' + 1 := ⟨F' - 1, by omega⟩
      exact jPostfix_stop f' _ R hR) F (by omega)
    simpa [wrapRecv, JE.needsParen] using this
  | .call g as, h, R, hR, F, hF => by
    have := js_cont (.call g as) h R (.call g as, R) 1 (fun F' hF' => by
      obtain ⟨f', rfl⟩ : ∃ f', F' = f' + 1 := ⟨F' - 1, by omega⟩
      exact jPostfix_stop f' _ R hR) F (by omega)
    simpa [wrapRecv, JE.needsParen] using this
  | .bin op a b, h, R, hR, F, hF => by
    have := js_cont (.bin op a b) h R (.bin op a b, R) 1 (fun F' hF' => by
      obtain ⟨f', rfl⟩ : ∃ f', F' = f' + 1 := ⟨F' - 1, by omega⟩
      exact jPostfix_stop f' _ R hR) F (by omega)
    simpa [wrapRecv, JE.needsParen] using this
  | .newLS _, h, _, _, _, _ => absurd h (by simp [JFrag])
  | .spread _, h, _, _, _, _ => absurd h (by simp [JFrag])
/-- argument lists up to and including the closing parenthesis -/
theorem js_args : ∀ (es : List JE), JFragL es → ∀ (R : List JTok) (F : Nat), jfuelL es + 1 ≤ F →
    jArgs F (prJArgs es ++ .p .rp :: R) = some (es, R)
  | [], _, R, F, hF => by
    obtain ⟨f, rfl⟩ : ∃ f, F = f + 1 := ⟨F - 1, by omega⟩
    simp [prJArgs, jArgs]
  | [e], h, R, F, hF => by
    obtain ⟨he, _⟩ : JFrag e ∧ JFragL [] := h
    obtain ⟨f, rfl⟩ : ∃ f, F = f + 1 := ⟨F - 1, by omega⟩
    have hE : jLevel f 1 (prJ e ++ .p .rp :: R) = some (e, .p .rp :: R) :=
      jclimb _ _ e (jfuel e + 2) (fun F'' hF'' => js_whole e he _ (nopost_closer _ _ (Or.inl rfl)) F'' hF'') 6 1 (by omega) (by omega)
        (jfollow_closer _ _ _ (Or.inl rfl)) f (by simp [jfuelL] at hF; omega)
    have hh := prJ_head e he
    cases hpe : prJ e with
    | nil => rw [hpe] at hh; exact absurd hh (by simp [JHeadOk])
    | cons t ts =>
      rw [hpe] at hh hE
      simpa [prJArgs, hpe] using jArgs_one f t _ R e hh (by simpa using hE)
  | e :: e2 :: es, h, R, F, hF => by
    obtain ⟨he, hes⟩ : JFrag e ∧ JFragL (e2 :: es) := h
    obtain ⟨f, rfl⟩ : ∃ f, F = f + 1 := ⟨F - 1, by omega⟩
    have hE : jLevel f 1 (prJ e ++ .p .comma :: (prJArgs (e2 :: es) ++ .p .rp :: R)) = some (e, .p .comma :: (prJArgs (e2 :: es) ++ .p .rp :: R)) :=
      jclimb _ _ e (jfuel e + 2) (fun F'' hF'' => js_whole e he _ (nopost_closer _ _ (Or.inr (Or.inl rfl))) F'' hF'') 6 1 (by omega) (by omega)
        (jfollow_closer _ _ _ (Or.inr (Or.inl rfl))) f (by simp [jfuelL] at hF; omega)
    have hRest := js_args (e2 :: es) hes R f (by simp [jfuelL] at hF ⊢; omega)
    have hh := prJ_head e he
    cases hpe : prJ e with
    | nil => rw [hpe] at hh; exact absurd hh (by simp [JHeadOk])
    | cons t ts =>
      rw [hpe] at hh hE
      rw [prJArgs_cons2, hpe]
      simpa using jArgs_more f t _ _ R e e2 es hh (by simpa using hE) hRest
end

/-! ### the translation of Lingo expressions lands in the fragment: `JFrag (toJsE c e)` -/

abbrev OkId (n : Name) : Prop := isJsKeyword n = false ∧ n ≠ "new".toList

/-- a function name the translator passes through unchanged -/
def PlainCall (f : Name) : Prop :=
  OkId f ∧ f ≠ "birth".toList ∧ f ≠ "go".toList ∧ f ≠ "cast".toList ∧ f ≠ "continue".toList

mutual
/-- source expressions of the theorem: everything except factory method calls and the built-in `the … of <object>` tables -/
def JsSrc : Expr → Prop
  | .int _ => True
  | .float _ _ => True
  | .str _ => True
  | .sym _ => True
  | .me => True
  | .var .loc n => n = "me".toList ∨ OkId n
  | .var .param n => n = "me".toList ∨ OkId n
  | .var .glob _ => True
  | .var .prop _ => True
  | .un _ a => JsSrc a
  | .bin _ a b => JsSrc a ∧ JsSrc b
  | .field a => JsSrc a
  | .call f as => PlainCall f ∧ JsSrcL as
  | .list as => JsSrcL as
  | .plist as => JsSrcL as
  | .key _ => True
  | .movie _ => True
  | .oprop _ o => JsSrc o
  | .chunk _ a b d => JsSrc a ∧ JsSrc b ∧ JsSrc d
  | .mcall _ _ _ => False
  | .the _ _ _ => False
def JsSrcL : List Expr → Prop
  | [] => True
  | e :: es => JsSrc e ∧ JsSrcL es
end

theorem okId_lookup (t : List (String × String)) (d : String) (n : Name)
    (ht : ∀ x ∈ t, OkId x.2.toList) (hd : OkId d.toList) : OkId (lookupObj t n d).toList := by
  unfold lookupObj
  split
  · rename_i x hx
    exact ht x (List.mem_of_find?_eq_some hx)
  · exact hd

theorem keyObj_ok : ∀ x ∈ keyObj, OkId x.2.toList := by decide +kernel
theorem movieObj_ok : ∀ x ∈ movieObj, OkId x.2.toList := by decide +kernel

theorem jsBinOp_info (op : BinOp) (o : String) (h : jsBinOp op = some o) : (jsOpInfo o.toList).isSome = true := by
  cases op <;> simp [jsBinOp] at h <;> subst h <;> decide +kernel

theorem jfrag_jid (x : String) (h : OkId x.toList) : JFrag (jid x) := by
  simp only [jid, JFrag]; exact h

mutual
theorem toJsE_frag (c : JCtx) : ∀ (e : Expr), JsSrc e → JFrag (toJsE c e)
  | .int _, _ => by simp [toJsE, JFrag]
  | .float _ _, _ => by simp [toJsE, JFrag]
  | .str _, _ => by simp [toJsE, JFrag]
  | .sym n, _ => by
    have : OkId "symbol".toList := by decide +kernel
    simp only [toJsE, jcall, JFrag, JFragL]; exact ⟨this, trivial, trivial⟩
  | .me, _ => by
    have : OkId "this".toList := by decide +kernel
    simp only [toJsE]; exact jfrag_jid "this" this
  | .var .loc n, h => by
    have hthis : OkId "this".toList := by decide +kernel
    by_cases hm : n = "me".toList
    · simp only [toJsE, hm, if_true]; exact jfrag_jid "this" hthis
    · rcases (h : n = "me".toList ∨ OkId n) with h1 | h1
      · exact absurd h1 hm
      · simp only [toJsE, hm, if_false, JFrag]; exact h1
  | .var .param n, h => by
    have hthis : OkId "this".toList := by decide +kernel
    by_cases hm : n = "me".toList
    · simp only [toJsE, hm, if_true]; exact jfrag_jid "this" hthis
    · rcases (h : n = "me".toList ∨ OkId n) with h1 | h1
      · exact absurd h1 hm
      · simp only [toJsE, hm, if_false, JFrag]; exact h1
  | .var .glob n, _ => by
    have : OkId "_global".toList := by decide +kernel
    simp only [toJsE, JFrag]; exact jfrag_jid "_global" this
  | .var .prop n, _ => by
    have : OkId "this".toList := by decide +kernel
    simp only [toJsE, JFrag]; exact jfrag_jid "this" this
  | .un .neg a, h => by
    have := toJsE_frag c a h
    simp only [toJsE, JFrag]; exact ⟨Or.inl trivial, this⟩
  | .un .not a, h => by
    have := toJsE_frag c a h
    simp only [toJsE, JFrag]; exact ⟨Or.inr trivial, this⟩
  | .field a, h => by
    have := toJsE_frag c a h
    have hf : OkId "field".toList := by decide +kernel
    simp only [toJsE, jcall, JFrag, JFragL]; exact ⟨hf, this, trivial⟩
  | .bin op a b, h => by
    obtain ⟨ha, hb⟩ : JsSrc a ∧ JsSrc b := h
    have fa := toJsE_frag c a ha
    have fb := toJsE_frag c b hb
    have hs : OkId "sprite".toList := by decide +kernel
    cases hop : jsBinOp op with
    | some o =>
      simp only [toJsE, hop, JFrag]
      exact ⟨jsBinOp_info op o hop, fa, fb⟩
    | none =>
      cases hm : jsMethodOp op with
      | some m => simp only [toJsE, hop, hm, jmem, JFrag, JFragL]; exact ⟨fa, fb, trivial⟩
      | none =>
        simp only [toJsE, hop, hm, jmem, jcall, JFrag, JFragL]
        exact ⟨⟨hs, fa, trivial⟩, ⟨hs, fb, trivial⟩, trivial⟩
  | .call f as, h => by
    obtain ⟨⟨hok, h1, h2, h3, h4⟩, has⟩ : PlainCall f ∧ JsSrcL as := h
    have hnew : f ≠ "new".toList := hok.2
    have fas := toJsEs_frag c as has
    simp only [toJsE, toJsCall, h1, hnew, h2, h3, h4, if_false, JFrag]
    exact ⟨hok, fas⟩
  | .list as, h => by
    have fas := toJsEs_frag c as h
    have hl : OkId "list".toList := by decide +kernel
    simp only [toJsE, jcall, JFrag]; exact ⟨hl, fas⟩
  | .plist as, h => by
    have fas := toJsEs_frag c as h
    have hl : OkId "propList".toList := by decide +kernel
    simp only [toJsE, jcall, JFrag]; exact ⟨hl, fas⟩
  | .key n, _ => by
    have hsys : OkId "_system".toList := by decide +kernel
    have hkey : OkId "_key".toList := by decide +kernel
    by_cases hd : n = "date".toList ∨ n = "time".toList
    · simp only [toJsE, hd, if_true, jmem, jid, JFrag, JFragL]; exact ⟨hsys, trivial, trivial⟩
    · simp only [toJsE, hd, if_false, JFrag]
      exact jfrag_jid _ (okId_lookup keyObj "_key" n keyObj_ok hkey)
  | .movie n, _ => by
    have hthis : OkId "this".toList := by decide +kernel
    simp only [toJsE, JFrag]
    exact jfrag_jid _ (okId_lookup movieObj "this" n movieObj_ok hthis)
  | .oprop n o, h => by
    have := toJsE_frag c o h
    simp only [toJsE, JFrag]; exact this
  | .chunk k a b d, h => by
    obtain ⟨ha, hb, hd⟩ : JsSrc a ∧ JsSrc b ∧ JsSrc d := h
    have fa := toJsE_frag c a ha
    have fb := toJsE_frag c b hb
    have fd := toJsE_frag c d hd
    have hr : OkId "range".toList := by decide +kernel
    simp only [toJsE, jmem, JFrag]
    refine ⟨fd, ?_⟩
    split
    · exact fa
    · simp only [jcall, JFrag, JFragL]; exact ⟨hr, fa, fb, trivial⟩
  | .mcall _ _ _, h => absurd h (by simp [JsSrc])
  | .the _ _ _, h => absurd h (by simp [JsSrc])
theorem toJsEs_frag (c : JCtx) : ∀ (es : List Expr), JsSrcL es → JFragL (toJsEs c es)
  | [], _ => by simp [toJsEs, JFragL]
  | e :: es, h => by
    obtain ⟨he, hes⟩ : JsSrc e ∧ JsSrcL es := h
    simp only [toJsEs, JFragL]
    exact ⟨toJsE_frag c e he, toJsEs_frag c es hes⟩
end

end Drx.Spec
