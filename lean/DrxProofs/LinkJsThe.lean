/-
  `the P of <one object>` inside `JsOkE`: the three families (built-in tables of sprite / cast / sound, the counting and last-chunk
  forms, field properties) and what `toJs` makes of the last two (shared by the text, lexing and reading layers).
-/
import Drx.LinkJs
namespace Drx.LinkJs
open Drx Drx.Lscr Drx.Gen Drx.Spec Drx.Link
set_option linter.unusedSimpArgs false
set_option linter.unusedVariables false

/-- the three families of `the P of <one object>` inside `JsOkE` -/
theorem jsOkE_the (t : Tbl) (k : Nat) (e : Expr) (h : JsOkE (.the t k [e]) = true) :
    ((theTbl t).isSome = true ∧ idxJsOk e = true) ∨
    (∃ op r ty, strThe t k = some (op, r) ∧ chunkTy r = some ty ∧ theTbl t = none ∧ t ≠ .field ∧ JsOkE e = true) ∨
    (t = .field ∧ JsOkE e = true) := by
  simp only [JsOkE, Bool.or_eq_true, Bool.and_eq_true, decide_eq_true_eq] at h
  rcases h with (⟨h1, h2⟩ | ⟨h1, h2⟩) | ⟨h1, h2⟩
  · left
    refine ⟨?_, h2⟩
    cases ht : theTbl t with
    | none => rw [ht] at h1; simp at h1
    | some x => rfl
  · right; left
    cases hs : strThe t k with
    | none => rw [hs] at h1; simp at h1
    | some x =>
      obtain ⟨op, r⟩ := x
      rw [hs] at h1
      simp only at h1
      obtain ⟨ty, hty⟩ := Option.isSome_iff_exists.mp h1
      refine ⟨op, r, ty, rfl, hty, ?_, ?_, h2⟩
      · cases t <;> first | rfl | (simp [strThe] at hs)
      · intro e'; subst e'; simp [strThe] at hs
  · exact Or.inr (Or.inr ⟨h1, h2⟩)

/-- the translation of `the number of <chunk>s of e` / `the last <chunk> of e` -/
theorem toJsE_strThe (c : JCtx) (t : Tbl) (k : Nat) (e : Expr) (op : Str) (r : Nat) (ty : Str) (hs : strThe t k = some (op, r))
    (hty : chunkTy r = some ty) :
    (op = S "last" ∧ toJsE c (.the t k [e]) = .idx (.mem (toJsE c e) ty) (.dstr "last".toList)) ∨
    (op = S "number" ∧ toJsE c (.the t k [e]) = jmem (.mem (toJsE c e) ty) "length") := by
  have hck : ∀ r, chunkTy r = some ty → ((ChunkKind.ofRank r).map (·.tag) |>.getD "UNKNOWN").toList = ty := by
    intro r hr
    unfold chunkTy at hr
    cases ho : ChunkKind.ofRank r with
    | none => rw [ho] at hr; simp at hr
    | some ck => rw [ho] at hr; simp only [Option.map_some, Option.some.injEq] at hr; simp [hr]
  cases t <;> simp only [strThe, Option.some.injEq, Prod.mk.injEq, reduceCtorEq] at hs
  · -- special
    split at hs
    · simp only [Option.some.injEq, Prod.mk.injEq] at hs
      obtain ⟨rfl, rfl⟩ := hs
      left
      refine ⟨rfl, ?_⟩
      simp only [toJsE, toJsEs, toJsThe]
      rw [hck _ hty]
    · cases hs
  · -- numChunks
    obtain ⟨rfl, rfl⟩ := hs
    right
    refine ⟨rfl, ?_⟩
    simp only [toJsE, toJsEs, toJsThe]
    rw [hck _ hty]

theorem toJsE_fieldThe (c : JCtx) (k : Nat) (e : Expr) :
    toJsE c (.the .field k [e]) = .mem (jcall "field" [toJsE c e]) (nameOrUnknown tblCast k) := by
  simp [toJsE, toJsEs, toJsThe, nameOrUnknown]

/-! ### the owner of a function-like property (`66 n`): `ast.operation.KNOWN_PROPERTIES` (regenerated) ⇄ the spec's `keyObj` -/

def okIs (r : R Str) (v : Str) : Bool := match r with | .ok o => o == v | .error _ => false

theorem okIs_eq {r : R Str} {v : Str} (h : okIs r v = true) : r = .ok v := by
  cases r with
  | ok o => simp only [okIs, beq_iff_eq] at h; rw [h]
  | error e => simp [okIs] at h

theorem kpo_of_keyObj' : ∀ x ∈ keyObj, okIs (dictGet PropTables.knownPropertiesOperation x.1.toList) x.2.toList = true := by decide +kernel
theorem kpo_of_keyObj : ∀ x ∈ keyObj, dictGet PropTables.knownPropertiesOperation x.1.toList = .ok x.2.toList :=
  fun x hx => okIs_eq (kpo_of_keyObj' x hx)
theorem keyObj_of_kpo : ∀ x ∈ PropTables.knownPropertiesOperation, lookupObj keyObj x.1.toList "_key" = x.2 := by decide +kernel

/-- the two tables name the same owner for EVERY property name (`_key` when it is in neither) -/
theorem key_owner (v : Str) :
    (match dictGet PropTables.knownPropertiesOperation v with | .ok o => o | .error _ => S "_key") = (lookupObj keyObj v "_key").toList := by
  cases hd : dictGet PropTables.knownPropertiesOperation v with
  | ok o =>
    unfold dictGet at hd
    cases hf : PropTables.knownPropertiesOperation.find? (fun kv => kv.1.toList == v) with
    | none => rw [hf] at hd; cases hd
    | some kv =>
      rw [hf] at hd
      simp only [Except.ok.injEq] at hd
      have hv : kv.1.toList = v := by simpa using List.find?_some hf
      have := keyObj_of_kpo kv (List.mem_of_find?_eq_some hf)
      rw [hv] at this
      simp only [this, hd]
  | error e =>
    simp only
    unfold lookupObj
    cases hf : keyObj.find? (fun x => x.1.toList == v) with
    | none => rfl
    | some x =>
      have hv : x.1.toList = v := by simpa using List.find?_some hf
      have := kpo_of_keyObj x (List.mem_of_find?_eq_some hf)
      rw [hv, hd] at this
      cases this

theorem keyObj_lex : (keyObj.all fun x => jsIdLex x.2.toList) = true := by decide +kernel

theorem key_owner_lex (v : Str) : jsIdLex (lookupObj keyObj v "_key").toList = true := by
  unfold lookupObj
  cases hf : keyObj.find? (fun x => x.1.toList == v) with
  | none => decide
  | some x =>
    have := keyObj_lex
    rw [List.all_eq_true] at this
    exact this x (List.mem_of_find?_eq_some hf)

/-- the six movie properties of `5c 00` belong to `_system` in `ast.variable.KNOWN_PROPERTIES` (regenerated) -/
theorem special_owner' : ∀ k, k < 6 →
    (okIs (dictGet PropTables.knownPropertiesVariable (nameOrUnknown tblSpecial k)) (S "_system") && jsIdLex (nameOrUnknown tblSpecial k)) = true := by
  decide +kernel
theorem special_owner (k : Nat) (hk : k < 6) :
    dictGet PropTables.knownPropertiesVariable (nameOrUnknown tblSpecial k) = .ok (S "_system") ∧
    jsIdLex (nameOrUnknown tblSpecial k) = true := by
  have := special_owner' k hk
  simp only [Bool.and_eq_true] at this
  exact ⟨okIs_eq this.1, this.2⟩

/-- what `recvJsOk` gives: the receiver is a local / parameter `n`, and the translation of the method call -/
theorem recvJsOk_spec (c : JCtx) (o : Expr) (m : Spec.Name) (as : List Expr) (h : recvJsOk o = true) :
    ∃ n, (jsIdOk n = true ∧ n ≠ "me".toList ∧ specialCall n = false ∧ listFn n = false) ∧
      toJsE c (.mcall o m as) = .call (.id n) (jcall "symbol" [.sstr m] :: toJsEs c as) ∧
      mcallRecv o = some n ∧ (o = .var .loc n ∨ o = .var .param n) := by
  cases o with
  | var k n =>
    cases k with
    | loc =>
      simp only [recvJsOk, Bool.and_eq_true, bne_iff_ne, ne_eq, Bool.not_eq_true'] at h
      have hm : ¬ n = "me".toList := h.1.1.2
      refine ⟨n, ⟨h.1.1.1, hm, h.1.2, h.2⟩, ?_, rfl, Or.inl rfl⟩
      have hm' : ¬ n = ['m', 'e'] := hm
      simp [toJsE, isMeExpr, hm']
    | param =>
      simp only [recvJsOk, Bool.and_eq_true, bne_iff_ne, ne_eq, Bool.not_eq_true'] at h
      have hm : ¬ n = "me".toList := h.1.1.2
      refine ⟨n, ⟨h.1.1.1, hm, h.1.2, h.2⟩, ?_, rfl, Or.inr rfl⟩
      have hm' : ¬ n = ['m', 'e'] := hm
      simp [toJsE, isMeExpr, hm']
    | _ => simp [recvJsOk] at h
  | _ => simp [recvJsOk] at h

end Drx.LinkJs
