/-
  C08 fields_roundtrip: each of the six channel readers, run on the byte layout of a raw record (Drx.Vwsc.Spec.enc*),
  reports exactly the record's view; one small lemma per field read (the generated offsets `Drx.Gen.Score.*` against the
  position of the field in the spec encoder), then the reader.  Text produced by harness/tools/gen_vwsc_fields_proof.py.
-/
import Drx.Vwsc
import Drx.VwscSpec
import DrxProofs.Py
import DrxProofs.Vwsc
set_option linter.unusedVariables false
namespace Drx.Vwsc
open Drx Drx.Vwsc.Spec Drx.VwscLayout

@[simp] theorem encU16_length (n : Nat) : (encU16 n).length = 2 := by simp [encU16]

theorem toSigned16_mod (n : Nat) (h : n < 65536) : toSigned 16 n % 65536 = (n : Int) := by
  unfold toSigned
  split <;> omega

/-- a signed 16-bit field laid out after `a` is read back by a generated field descriptor with that offset -/
theorem raw_s16_at (p : Post) (a c : Bytes) (v : Int) (h : In16 v) (off : Nat) (hoff : off = a.length) :
    (⟨off, .s16, p⟩ : Fld).raw (a ++ (encS .be 2 v ++ c)) = .ok v := by
  simp only [Fld.raw]; exact getS2_at a c v h off hoff

theorem raw_u16_at (p : Post) (a c : Bytes) (n : Nat) (h : n < 65536) (off : Nat) (hoff : off = a.length) :
    (⟨off, .s16, p⟩ : Fld).raw (a ++ (encU16 n ++ c)) = .ok (toSigned 16 n) := by
  simp only [Fld.raw, getS]
  rw [slice_mid a _ c off (off + 2) hoff (by simp [hoff])]
  simp [unpackS, encU16, ordNat_encOrd_of_lt .be 2 n (by omega)]

theorem raw_u8_at (p : Post) (a c : Bytes) (b : UInt8) (off : Nat) (hoff : off = a.length) :
    (⟨off, .u8, p⟩ : Fld).raw (a ++ (b :: c)) = .ok (b2i b) := by
  subst hoff; simp [Fld.raw, byteAt, b2i, Except.map]

theorem int_of_raw (f : Fld) (d : Bytes) (h : f.post = .raw) : f.int d = f.raw d := by
  unfold Fld.int; rw [h]

/-! ### d4ReadMain -/

theorem encMainD4_length (s : RawMainD4) (h : s.Valid) : (encMainD4 s).length = 20 := by
  simp [encMainD4]

theorem d4Main_r_flags (s : RawMainD4) (h : s.Valid) : Gen.Score.d4Main_flags.raw (encMainD4 s) = .ok (s.flags) := by
  have e : encMainD4 s = ([]) ++ (encS .be 2 s.flags ++ ([s.transDuration] ++ [s.transChunk] ++ [s.fps] ++ [s.transition] ++ encS .be 2 s.sound1 ++ encS .be 2 s.sound2 ++ encS .be 2 s.soundFlags ++ encS .be 2 s.unknown1 ++ encS .be 2 s.unknown2 ++ encS .be 2 s.script ++ encS .be 2 s.unknown3)) := by simp [encMainD4, List.append_assoc]
  rw [e]; exact raw_s16_at _ _ _ _ (h.1) _ (by simp)

theorem d4Main_r_transition_duration (s : RawMainD4) (h : s.Valid) : Gen.Score.d4Main_transition_duration.raw (encMainD4 s) = .ok (b2i s.transDuration) := by
  have e : encMainD4 s = (encS .be 2 s.flags) ++ (s.transDuration :: ([s.transChunk] ++ [s.fps] ++ [s.transition] ++ encS .be 2 s.sound1 ++ encS .be 2 s.sound2 ++ encS .be 2 s.soundFlags ++ encS .be 2 s.unknown1 ++ encS .be 2 s.unknown2 ++ encS .be 2 s.script ++ encS .be 2 s.unknown3)) := by simp [encMainD4, List.append_assoc]
  rw [e]; exact raw_u8_at _ _ _ _ _ (by simp)

theorem d4Main_r_transition_chunk_size (s : RawMainD4) (h : s.Valid) : Gen.Score.d4Main_transition_chunk_size.raw (encMainD4 s) = .ok (b2i s.transChunk) := by
  have e : encMainD4 s = (encS .be 2 s.flags ++ [s.transDuration]) ++ (s.transChunk :: ([s.fps] ++ [s.transition] ++ encS .be 2 s.sound1 ++ encS .be 2 s.sound2 ++ encS .be 2 s.soundFlags ++ encS .be 2 s.unknown1 ++ encS .be 2 s.unknown2 ++ encS .be 2 s.script ++ encS .be 2 s.unknown3)) := by simp [encMainD4, List.append_assoc]
  rw [e]; exact raw_u8_at _ _ _ _ _ (by simp)

theorem d4Main_r_fps (s : RawMainD4) (h : s.Valid) : Gen.Score.d4Main_fps.raw (encMainD4 s) = .ok (b2i s.fps) := by
  have e : encMainD4 s = (encS .be 2 s.flags ++ [s.transDuration] ++ [s.transChunk]) ++ (s.fps :: ([s.transition] ++ encS .be 2 s.sound1 ++ encS .be 2 s.sound2 ++ encS .be 2 s.soundFlags ++ encS .be 2 s.unknown1 ++ encS .be 2 s.unknown2 ++ encS .be 2 s.script ++ encS .be 2 s.unknown3)) := by simp [encMainD4, List.append_assoc]
  rw [e]; exact raw_u8_at _ _ _ _ _ (by simp)

theorem d4Main_r_transition_id (s : RawMainD4) (h : s.Valid) : Gen.Score.d4Main_transition_id.raw (encMainD4 s) = .ok (b2i s.transition) := by
  have e : encMainD4 s = (encS .be 2 s.flags ++ [s.transDuration] ++ [s.transChunk] ++ [s.fps]) ++ (s.transition :: (encS .be 2 s.sound1 ++ encS .be 2 s.sound2 ++ encS .be 2 s.soundFlags ++ encS .be 2 s.unknown1 ++ encS .be 2 s.unknown2 ++ encS .be 2 s.script ++ encS .be 2 s.unknown3)) := by simp [encMainD4, List.append_assoc]
  rw [e]; exact raw_u8_at _ _ _ _ _ (by simp)

theorem d4Main_r_sound1_cast (s : RawMainD4) (h : s.Valid) : Gen.Score.d4Main_sound1_cast.raw (encMainD4 s) = .ok (s.sound1) := by
  have e : encMainD4 s = (encS .be 2 s.flags ++ [s.transDuration] ++ [s.transChunk] ++ [s.fps] ++ [s.transition]) ++ (encS .be 2 s.sound1 ++ (encS .be 2 s.sound2 ++ encS .be 2 s.soundFlags ++ encS .be 2 s.unknown1 ++ encS .be 2 s.unknown2 ++ encS .be 2 s.script ++ encS .be 2 s.unknown3)) := by simp [encMainD4, List.append_assoc]
  rw [e]; exact raw_s16_at _ _ _ _ (h.2.1) _ (by simp)

theorem d4Main_r_sound2_cast (s : RawMainD4) (h : s.Valid) : Gen.Score.d4Main_sound2_cast.raw (encMainD4 s) = .ok (s.sound2) := by
  have e : encMainD4 s = (encS .be 2 s.flags ++ [s.transDuration] ++ [s.transChunk] ++ [s.fps] ++ [s.transition] ++ encS .be 2 s.sound1) ++ (encS .be 2 s.sound2 ++ (encS .be 2 s.soundFlags ++ encS .be 2 s.unknown1 ++ encS .be 2 s.unknown2 ++ encS .be 2 s.script ++ encS .be 2 s.unknown3)) := by simp [encMainD4, List.append_assoc]
  rw [e]; exact raw_s16_at _ _ _ _ (h.2.2.1) _ (by simp)

theorem d4Main_r_sound_flags (s : RawMainD4) (h : s.Valid) : Gen.Score.d4Main_sound_flags.raw (encMainD4 s) = .ok (s.soundFlags) := by
  have e : encMainD4 s = (encS .be 2 s.flags ++ [s.transDuration] ++ [s.transChunk] ++ [s.fps] ++ [s.transition] ++ encS .be 2 s.sound1 ++ encS .be 2 s.sound2) ++ (encS .be 2 s.soundFlags ++ (encS .be 2 s.unknown1 ++ encS .be 2 s.unknown2 ++ encS .be 2 s.script ++ encS .be 2 s.unknown3)) := by simp [encMainD4, List.append_assoc]
  rw [e]; exact raw_s16_at _ _ _ _ (h.2.2.2.1) _ (by simp)

theorem d4Main_r_unknown1 (s : RawMainD4) (h : s.Valid) : Gen.Score.d4Main_unknown1.raw (encMainD4 s) = .ok (s.unknown1) := by
  have e : encMainD4 s = (encS .be 2 s.flags ++ [s.transDuration] ++ [s.transChunk] ++ [s.fps] ++ [s.transition] ++ encS .be 2 s.sound1 ++ encS .be 2 s.sound2 ++ encS .be 2 s.soundFlags) ++ (encS .be 2 s.unknown1 ++ (encS .be 2 s.unknown2 ++ encS .be 2 s.script ++ encS .be 2 s.unknown3)) := by simp [encMainD4, List.append_assoc]
  rw [e]; exact raw_s16_at _ _ _ _ (h.2.2.2.2.1) _ (by simp)

theorem d4Main_r_unknown2 (s : RawMainD4) (h : s.Valid) : Gen.Score.d4Main_unknown2.raw (encMainD4 s) = .ok (s.unknown2) := by
  have e : encMainD4 s = (encS .be 2 s.flags ++ [s.transDuration] ++ [s.transChunk] ++ [s.fps] ++ [s.transition] ++ encS .be 2 s.sound1 ++ encS .be 2 s.sound2 ++ encS .be 2 s.soundFlags ++ encS .be 2 s.unknown1) ++ (encS .be 2 s.unknown2 ++ (encS .be 2 s.script ++ encS .be 2 s.unknown3)) := by simp [encMainD4, List.append_assoc]
  rw [e]; exact raw_s16_at _ _ _ _ (h.2.2.2.2.2.1) _ (by simp)

theorem d4Main_r_script (s : RawMainD4) (h : s.Valid) : Gen.Score.d4Main_script.raw (encMainD4 s) = .ok (s.script) := by
  have e : encMainD4 s = (encS .be 2 s.flags ++ [s.transDuration] ++ [s.transChunk] ++ [s.fps] ++ [s.transition] ++ encS .be 2 s.sound1 ++ encS .be 2 s.sound2 ++ encS .be 2 s.soundFlags ++ encS .be 2 s.unknown1 ++ encS .be 2 s.unknown2) ++ (encS .be 2 s.script ++ (encS .be 2 s.unknown3)) := by simp [encMainD4, List.append_assoc]
  rw [e]; exact raw_s16_at _ _ _ _ (h.2.2.2.2.2.2.1) _ (by simp)

theorem d4Main_r_unknown3 (s : RawMainD4) (h : s.Valid) : Gen.Score.d4Main_unknown3.raw (encMainD4 s) = .ok (s.unknown3) := by
  have e : encMainD4 s = (encS .be 2 s.flags ++ [s.transDuration] ++ [s.transChunk] ++ [s.fps] ++ [s.transition] ++ encS .be 2 s.sound1 ++ encS .be 2 s.sound2 ++ encS .be 2 s.soundFlags ++ encS .be 2 s.unknown1 ++ encS .be 2 s.unknown2 ++ encS .be 2 s.script) ++ (encS .be 2 s.unknown3 ++ ([])) := by simp [encMainD4, List.append_assoc]
  rw [e]; exact raw_s16_at _ _ _ _ (h.2.2.2.2.2.2.2) _ (by simp)

theorem d4Main_check_of (d : Bytes) (v_flags v_transition_duration v_transition_chunk_size v_fps v_transition_id v_sound1_cast v_sound2_cast v_sound_flags v_unknown1 v_unknown2 v_script v_unknown3 : Int) (f_flags : Gen.Score.d4Main_flags.raw d = .ok v_flags) (f_transition_duration : Gen.Score.d4Main_transition_duration.raw d = .ok v_transition_duration) (f_transition_chunk_size : Gen.Score.d4Main_transition_chunk_size.raw d = .ok v_transition_chunk_size) (f_fps : Gen.Score.d4Main_fps.raw d = .ok v_fps) (f_transition_id : Gen.Score.d4Main_transition_id.raw d = .ok v_transition_id) (f_sound1_cast : Gen.Score.d4Main_sound1_cast.raw d = .ok v_sound1_cast) (f_sound2_cast : Gen.Score.d4Main_sound2_cast.raw d = .ok v_sound2_cast) (f_sound_flags : Gen.Score.d4Main_sound_flags.raw d = .ok v_sound_flags) (f_unknown1 : Gen.Score.d4Main_unknown1.raw d = .ok v_unknown1) (f_unknown2 : Gen.Score.d4Main_unknown2.raw d = .ok v_unknown2) (f_script : Gen.Score.d4Main_script.raw d = .ok v_script) (f_unknown3 : Gen.Score.d4Main_unknown3.raw d = .ok v_unknown3) :
    checkAll Gen.Score.d4Main d = .ok () := by
  simp only [Gen.Score.d4Main, checkAll, f_flags, f_transition_duration, f_transition_chunk_size, f_fps, f_transition_id, f_sound1_cast, f_sound2_cast, f_sound_flags, f_unknown1, f_unknown2, f_script, f_unknown3, bind, Except.bind]

theorem d4Main_check (s : RawMainD4) (h : s.Valid) : checkAll Gen.Score.d4Main (encMainD4 s) = .ok () :=
  d4Main_check_of _ _ _ _ _ _ _ _ _ _ _ _ _ (d4Main_r_flags s h) (d4Main_r_transition_duration s h) (d4Main_r_transition_chunk_size s h) (d4Main_r_fps s h) (d4Main_r_transition_id s h) (d4Main_r_sound1_cast s h) (d4Main_r_sound2_cast s h) (d4Main_r_sound_flags s h) (d4Main_r_unknown1 s h) (d4Main_r_unknown2 s h) (d4Main_r_script s h) (d4Main_r_unknown3 s h)

theorem d4ReadMain_of (d : Bytes) (v_transition_duration v_transition_chunk_size v_fps v_transition_id v_sound1_cast v_sound2_cast v_script : Int) (hc : checkAll Gen.Score.d4Main d = .ok ()) (f_transition_duration : Gen.Score.d4Main_transition_duration.raw d = .ok v_transition_duration) (f_transition_chunk_size : Gen.Score.d4Main_transition_chunk_size.raw d = .ok v_transition_chunk_size) (f_fps : Gen.Score.d4Main_fps.raw d = .ok v_fps) (f_transition_id : Gen.Score.d4Main_transition_id.raw d = .ok v_transition_id) (f_sound1_cast : Gen.Score.d4Main_sound1_cast.raw d = .ok v_sound1_cast) (f_sound2_cast : Gen.Score.d4Main_sound2_cast.raw d = .ok v_sound2_cast) (f_script : Gen.Score.d4Main_script.raw d = .ok v_script) :
    d4ReadMain d = .ok (if v_fps ≠ 0 ∨ v_sound1_cast ≠ 0 ∨ v_sound2_cast ≠ 0 ∨ v_script ≠ 0 then some ⟨v_fps, v_sound1_cast, v_sound2_cast, v_script, .d4 (transitionName v_transition_id) v_transition_chunk_size (v_transition_duration % 128)⟩ else none) := by
  simp only [d4ReadMain, hc, int_of_raw _ _ (rfl : Gen.Score.d4Main_transition_duration.post = .raw), f_transition_duration, int_of_raw _ _ (rfl : Gen.Score.d4Main_transition_chunk_size.post = .raw), f_transition_chunk_size, int_of_raw _ _ (rfl : Gen.Score.d4Main_fps.post = .raw), f_fps, f_transition_id, int_of_raw _ _ (rfl : Gen.Score.d4Main_sound1_cast.post = .raw), f_sound1_cast, int_of_raw _ _ (rfl : Gen.Score.d4Main_sound2_cast.post = .raw), f_sound2_cast, int_of_raw _ _ (rfl : Gen.Score.d4Main_script.post = .raw), f_script, bind, Except.bind, pure, Except.pure]
  split <;> rfl

theorem d4ReadMain_enc (s : RawMainD4) (h : s.Valid) : d4ReadMain (encMainD4 s) = .ok (viewMainD4 s) := by
  rw [d4ReadMain_of _ _ _ _ _ _ _ _ (d4Main_check s h) (d4Main_r_transition_duration s h) (d4Main_r_transition_chunk_size s h) (d4Main_r_fps s h) (d4Main_r_transition_id s h) (d4Main_r_sound1_cast s h) (d4Main_r_sound2_cast s h) (d4Main_r_script s h)]
  simp only [viewMainD4]

/-! ### d4ReadPalette -/

theorem encPalD4_length (s : RawPalD4) (h : s.Valid) : (encPalD4 s).length = 20 := by
  simp [encPalD4]

theorem d4Palette_r_palette_id (s : RawPalD4) (h : s.Valid) : Gen.Score.d4Palette_palette_id.raw (encPalD4 s) = .ok (s.paletteId) := by
  have e : encPalD4 s = ([]) ++ (encS .be 2 s.paletteId ++ (encS .be 2 s.unknown2 ++ [s.opcode] ++ [s.fps] ++ encS .be 2 s.unknown4 ++ encS .be 2 s.cycles ++ encS .be 2 s.unknown6 ++ encS .be 2 s.unknown7 ++ encS .be 2 s.unknown8 ++ encS .be 2 s.unknown9 ++ [s.pad0] ++ [s.pad1])) := by simp [encPalD4, List.append_assoc]
  rw [e]; exact raw_s16_at _ _ _ _ (h.1) _ (by simp)

theorem d4Palette_r_unknown2 (s : RawPalD4) (h : s.Valid) : Gen.Score.d4Palette_unknown2.raw (encPalD4 s) = .ok (s.unknown2) := by
  have e : encPalD4 s = (encS .be 2 s.paletteId) ++ (encS .be 2 s.unknown2 ++ ([s.opcode] ++ [s.fps] ++ encS .be 2 s.unknown4 ++ encS .be 2 s.cycles ++ encS .be 2 s.unknown6 ++ encS .be 2 s.unknown7 ++ encS .be 2 s.unknown8 ++ encS .be 2 s.unknown9 ++ [s.pad0] ++ [s.pad1])) := by simp [encPalD4, List.append_assoc]
  rw [e]; exact raw_s16_at _ _ _ _ (h.2.1) _ (by simp)

theorem d4Palette_r_operation_code (s : RawPalD4) (h : s.Valid) : Gen.Score.d4Palette_operation_code.raw (encPalD4 s) = .ok (b2i s.opcode) := by
  have e : encPalD4 s = (encS .be 2 s.paletteId ++ encS .be 2 s.unknown2) ++ (s.opcode :: ([s.fps] ++ encS .be 2 s.unknown4 ++ encS .be 2 s.cycles ++ encS .be 2 s.unknown6 ++ encS .be 2 s.unknown7 ++ encS .be 2 s.unknown8 ++ encS .be 2 s.unknown9 ++ [s.pad0] ++ [s.pad1])) := by simp [encPalD4, List.append_assoc]
  rw [e]; exact raw_u8_at _ _ _ _ _ (by simp)

theorem d4Palette_r_fps (s : RawPalD4) (h : s.Valid) : Gen.Score.d4Palette_fps.raw (encPalD4 s) = .ok (b2i s.fps) := by
  have e : encPalD4 s = (encS .be 2 s.paletteId ++ encS .be 2 s.unknown2 ++ [s.opcode]) ++ (s.fps :: (encS .be 2 s.unknown4 ++ encS .be 2 s.cycles ++ encS .be 2 s.unknown6 ++ encS .be 2 s.unknown7 ++ encS .be 2 s.unknown8 ++ encS .be 2 s.unknown9 ++ [s.pad0] ++ [s.pad1])) := by simp [encPalD4, List.append_assoc]
  rw [e]; exact raw_u8_at _ _ _ _ _ (by simp)

theorem d4Palette_r_unknown4 (s : RawPalD4) (h : s.Valid) : Gen.Score.d4Palette_unknown4.raw (encPalD4 s) = .ok (s.unknown4) := by
  have e : encPalD4 s = (encS .be 2 s.paletteId ++ encS .be 2 s.unknown2 ++ [s.opcode] ++ [s.fps]) ++ (encS .be 2 s.unknown4 ++ (encS .be 2 s.cycles ++ encS .be 2 s.unknown6 ++ encS .be 2 s.unknown7 ++ encS .be 2 s.unknown8 ++ encS .be 2 s.unknown9 ++ [s.pad0] ++ [s.pad1])) := by simp [encPalD4, List.append_assoc]
  rw [e]; exact raw_s16_at _ _ _ _ (h.2.2.1) _ (by simp)

theorem d4Palette_r_cycles (s : RawPalD4) (h : s.Valid) : Gen.Score.d4Palette_cycles.raw (encPalD4 s) = .ok (s.cycles) := by
  have e : encPalD4 s = (encS .be 2 s.paletteId ++ encS .be 2 s.unknown2 ++ [s.opcode] ++ [s.fps] ++ encS .be 2 s.unknown4) ++ (encS .be 2 s.cycles ++ (encS .be 2 s.unknown6 ++ encS .be 2 s.unknown7 ++ encS .be 2 s.unknown8 ++ encS .be 2 s.unknown9 ++ [s.pad0] ++ [s.pad1])) := by simp [encPalD4, List.append_assoc]
  rw [e]; exact raw_s16_at _ _ _ _ (h.2.2.2.1) _ (by simp)

theorem d4Palette_r_unknown6 (s : RawPalD4) (h : s.Valid) : Gen.Score.d4Palette_unknown6.raw (encPalD4 s) = .ok (s.unknown6) := by
  have e : encPalD4 s = (encS .be 2 s.paletteId ++ encS .be 2 s.unknown2 ++ [s.opcode] ++ [s.fps] ++ encS .be 2 s.unknown4 ++ encS .be 2 s.cycles) ++ (encS .be 2 s.unknown6 ++ (encS .be 2 s.unknown7 ++ encS .be 2 s.unknown8 ++ encS .be 2 s.unknown9 ++ [s.pad0] ++ [s.pad1])) := by simp [encPalD4, List.append_assoc]
  rw [e]; exact raw_s16_at _ _ _ _ (h.2.2.2.2.1) _ (by simp)

theorem d4Palette_r_unknown7 (s : RawPalD4) (h : s.Valid) : Gen.Score.d4Palette_unknown7.raw (encPalD4 s) = .ok (s.unknown7) := by
  have e : encPalD4 s = (encS .be 2 s.paletteId ++ encS .be 2 s.unknown2 ++ [s.opcode] ++ [s.fps] ++ encS .be 2 s.unknown4 ++ encS .be 2 s.cycles ++ encS .be 2 s.unknown6) ++ (encS .be 2 s.unknown7 ++ (encS .be 2 s.unknown8 ++ encS .be 2 s.unknown9 ++ [s.pad0] ++ [s.pad1])) := by simp [encPalD4, List.append_assoc]
  rw [e]; exact raw_s16_at _ _ _ _ (h.2.2.2.2.2.1) _ (by simp)

theorem d4Palette_r_unknown8 (s : RawPalD4) (h : s.Valid) : Gen.Score.d4Palette_unknown8.raw (encPalD4 s) = .ok (s.unknown8) := by
  have e : encPalD4 s = (encS .be 2 s.paletteId ++ encS .be 2 s.unknown2 ++ [s.opcode] ++ [s.fps] ++ encS .be 2 s.unknown4 ++ encS .be 2 s.cycles ++ encS .be 2 s.unknown6 ++ encS .be 2 s.unknown7) ++ (encS .be 2 s.unknown8 ++ (encS .be 2 s.unknown9 ++ [s.pad0] ++ [s.pad1])) := by simp [encPalD4, List.append_assoc]
  rw [e]; exact raw_s16_at _ _ _ _ (h.2.2.2.2.2.2.1) _ (by simp)

theorem d4Palette_r_unknown9 (s : RawPalD4) (h : s.Valid) : Gen.Score.d4Palette_unknown9.raw (encPalD4 s) = .ok (s.unknown9) := by
  have e : encPalD4 s = (encS .be 2 s.paletteId ++ encS .be 2 s.unknown2 ++ [s.opcode] ++ [s.fps] ++ encS .be 2 s.unknown4 ++ encS .be 2 s.cycles ++ encS .be 2 s.unknown6 ++ encS .be 2 s.unknown7 ++ encS .be 2 s.unknown8) ++ (encS .be 2 s.unknown9 ++ ([s.pad0] ++ [s.pad1])) := by simp [encPalD4, List.append_assoc]
  rw [e]; exact raw_s16_at _ _ _ _ (h.2.2.2.2.2.2.2) _ (by simp)

theorem d4Palette_check_of (d : Bytes) (v_palette_id v_unknown2 v_operation_code v_fps v_unknown4 v_cycles v_unknown6 v_unknown7 v_unknown8 v_unknown9 : Int) (f_palette_id : Gen.Score.d4Palette_palette_id.raw d = .ok v_palette_id) (f_unknown2 : Gen.Score.d4Palette_unknown2.raw d = .ok v_unknown2) (f_operation_code : Gen.Score.d4Palette_operation_code.raw d = .ok v_operation_code) (f_fps : Gen.Score.d4Palette_fps.raw d = .ok v_fps) (f_unknown4 : Gen.Score.d4Palette_unknown4.raw d = .ok v_unknown4) (f_cycles : Gen.Score.d4Palette_cycles.raw d = .ok v_cycles) (f_unknown6 : Gen.Score.d4Palette_unknown6.raw d = .ok v_unknown6) (f_unknown7 : Gen.Score.d4Palette_unknown7.raw d = .ok v_unknown7) (f_unknown8 : Gen.Score.d4Palette_unknown8.raw d = .ok v_unknown8) (f_unknown9 : Gen.Score.d4Palette_unknown9.raw d = .ok v_unknown9) :
    checkAll Gen.Score.d4Palette d = .ok () := by
  simp only [Gen.Score.d4Palette, checkAll, f_palette_id, f_unknown2, f_operation_code, f_fps, f_unknown4, f_cycles, f_unknown6, f_unknown7, f_unknown8, f_unknown9, bind, Except.bind]

theorem d4Palette_check (s : RawPalD4) (h : s.Valid) : checkAll Gen.Score.d4Palette (encPalD4 s) = .ok () :=
  d4Palette_check_of _ _ _ _ _ _ _ _ _ _ _ (d4Palette_r_palette_id s h) (d4Palette_r_unknown2 s h) (d4Palette_r_operation_code s h) (d4Palette_r_fps s h) (d4Palette_r_unknown4 s h) (d4Palette_r_cycles s h) (d4Palette_r_unknown6 s h) (d4Palette_r_unknown7 s h) (d4Palette_r_unknown8 s h) (d4Palette_r_unknown9 s h)

theorem d4ReadPalette_of (d : Bytes) (v_palette_id v_operation_code v_fps v_cycles : Int) (hc : checkAll Gen.Score.d4Palette d = .ok ()) (f_palette_id : Gen.Score.d4Palette_palette_id.raw d = .ok v_palette_id) (f_operation_code : Gen.Score.d4Palette_operation_code.raw d = .ok v_operation_code) (f_fps : Gen.Score.d4Palette_fps.raw d = .ok v_fps) (f_cycles : Gen.Score.d4Palette_cycles.raw d = .ok v_cycles) :
    d4ReadPalette d = .ok (if v_palette_id ≠ 0 then some ⟨v_fps, operationName v_operation_code, v_palette_id, v_cycles⟩ else none) := by
  simp only [d4ReadPalette, hc, int_of_raw _ _ (rfl : Gen.Score.d4Palette_palette_id.post = .raw), f_palette_id, int_of_raw _ _ (rfl : Gen.Score.d4Palette_operation_code.post = .raw), f_operation_code, int_of_raw _ _ (rfl : Gen.Score.d4Palette_fps.post = .raw), f_fps, int_of_raw _ _ (rfl : Gen.Score.d4Palette_cycles.post = .raw), f_cycles, bind, Except.bind, pure, Except.pure]
  split <;> rfl

theorem d4ReadPalette_enc (s : RawPalD4) (h : s.Valid) : d4ReadPalette (encPalD4 s) = .ok (viewPalD4 s) := by
  rw [d4ReadPalette_of _ _ _ _ _ (d4Palette_check s h) (d4Palette_r_palette_id s h) (d4Palette_r_operation_code s h) (d4Palette_r_fps s h) (d4Palette_r_cycles s h)]
  simp only [viewPalD4]

/-! ### d4ReadSprite -/

theorem encSpriteD4_length (s : RawSpriteD4) (h : s.Valid) : (encSpriteD4 s).length = 20 := by
  simp [encSpriteD4]

theorem d4Sprite_r_spriteType (s : RawSpriteD4) (h : s.Valid) : Gen.Score.d4Sprite_spriteType.raw (encSpriteD4 s) = .ok (s.spriteType) := by
  have e : encSpriteD4 s = ([]) ++ (encS .be 2 s.spriteType ++ ([s.fg] ++ [s.bg] ++ [s.flags] ++ [s.ink] ++ encS .be 2 s.castId ++ encS .be 2 s.y ++ encS .be 2 s.x ++ encS .be 2 s.height ++ encS .be 2 s.width ++ encU16 s.flag1 ++ encU16 s.flag2)) := by simp [encSpriteD4, List.append_assoc]
  rw [e]; exact raw_s16_at _ _ _ _ (h.1) _ (by simp)

theorem d4Sprite_r_foregroundColor (s : RawSpriteD4) (h : s.Valid) : Gen.Score.d4Sprite_foregroundColor.raw (encSpriteD4 s) = .ok (b2i s.fg) := by
  have e : encSpriteD4 s = (encS .be 2 s.spriteType) ++ (s.fg :: ([s.bg] ++ [s.flags] ++ [s.ink] ++ encS .be 2 s.castId ++ encS .be 2 s.y ++ encS .be 2 s.x ++ encS .be 2 s.height ++ encS .be 2 s.width ++ encU16 s.flag1 ++ encU16 s.flag2)) := by simp [encSpriteD4, List.append_assoc]
  rw [e]; exact raw_u8_at _ _ _ _ _ (by simp)

theorem d4Sprite_r_backgroundColor (s : RawSpriteD4) (h : s.Valid) : Gen.Score.d4Sprite_backgroundColor.raw (encSpriteD4 s) = .ok (b2i s.bg) := by
  have e : encSpriteD4 s = (encS .be 2 s.spriteType ++ [s.fg]) ++ (s.bg :: ([s.flags] ++ [s.ink] ++ encS .be 2 s.castId ++ encS .be 2 s.y ++ encS .be 2 s.x ++ encS .be 2 s.height ++ encS .be 2 s.width ++ encU16 s.flag1 ++ encU16 s.flag2)) := by simp [encSpriteD4, List.append_assoc]
  rw [e]; exact raw_u8_at _ _ _ _ _ (by simp)

theorem d4Sprite_r_flags (s : RawSpriteD4) (h : s.Valid) : Gen.Score.d4Sprite_flags.raw (encSpriteD4 s) = .ok (b2i s.flags) := by
  have e : encSpriteD4 s = (encS .be 2 s.spriteType ++ [s.fg] ++ [s.bg]) ++ (s.flags :: ([s.ink] ++ encS .be 2 s.castId ++ encS .be 2 s.y ++ encS .be 2 s.x ++ encS .be 2 s.height ++ encS .be 2 s.width ++ encU16 s.flag1 ++ encU16 s.flag2)) := by simp [encSpriteD4, List.append_assoc]
  rw [e]; exact raw_u8_at _ _ _ _ _ (by simp)

theorem d4Sprite_r_ink_byte (s : RawSpriteD4) (h : s.Valid) : Gen.Score.d4Sprite_ink_byte.raw (encSpriteD4 s) = .ok (b2i s.ink) := by
  have e : encSpriteD4 s = (encS .be 2 s.spriteType ++ [s.fg] ++ [s.bg] ++ [s.flags]) ++ (s.ink :: (encS .be 2 s.castId ++ encS .be 2 s.y ++ encS .be 2 s.x ++ encS .be 2 s.height ++ encS .be 2 s.width ++ encU16 s.flag1 ++ encU16 s.flag2)) := by simp [encSpriteD4, List.append_assoc]
  rw [e]; exact raw_u8_at _ _ _ _ _ (by simp)

theorem d4Sprite_r_castId (s : RawSpriteD4) (h : s.Valid) : Gen.Score.d4Sprite_castId.raw (encSpriteD4 s) = .ok (s.castId) := by
  have e : encSpriteD4 s = (encS .be 2 s.spriteType ++ [s.fg] ++ [s.bg] ++ [s.flags] ++ [s.ink]) ++ (encS .be 2 s.castId ++ (encS .be 2 s.y ++ encS .be 2 s.x ++ encS .be 2 s.height ++ encS .be 2 s.width ++ encU16 s.flag1 ++ encU16 s.flag2)) := by simp [encSpriteD4, List.append_assoc]
  rw [e]; exact raw_s16_at _ _ _ _ (h.2.1) _ (by simp)

theorem d4Sprite_r_y (s : RawSpriteD4) (h : s.Valid) : Gen.Score.d4Sprite_y.raw (encSpriteD4 s) = .ok (s.y) := by
  have e : encSpriteD4 s = (encS .be 2 s.spriteType ++ [s.fg] ++ [s.bg] ++ [s.flags] ++ [s.ink] ++ encS .be 2 s.castId) ++ (encS .be 2 s.y ++ (encS .be 2 s.x ++ encS .be 2 s.height ++ encS .be 2 s.width ++ encU16 s.flag1 ++ encU16 s.flag2)) := by simp [encSpriteD4, List.append_assoc]
  rw [e]; exact raw_s16_at _ _ _ _ (h.2.2.1) _ (by simp)

theorem d4Sprite_r_x (s : RawSpriteD4) (h : s.Valid) : Gen.Score.d4Sprite_x.raw (encSpriteD4 s) = .ok (s.x) := by
  have e : encSpriteD4 s = (encS .be 2 s.spriteType ++ [s.fg] ++ [s.bg] ++ [s.flags] ++ [s.ink] ++ encS .be 2 s.castId ++ encS .be 2 s.y) ++ (encS .be 2 s.x ++ (encS .be 2 s.height ++ encS .be 2 s.width ++ encU16 s.flag1 ++ encU16 s.flag2)) := by simp [encSpriteD4, List.append_assoc]
  rw [e]; exact raw_s16_at _ _ _ _ (h.2.2.2.1) _ (by simp)

theorem d4Sprite_r_height (s : RawSpriteD4) (h : s.Valid) : Gen.Score.d4Sprite_height.raw (encSpriteD4 s) = .ok (s.height) := by
  have e : encSpriteD4 s = (encS .be 2 s.spriteType ++ [s.fg] ++ [s.bg] ++ [s.flags] ++ [s.ink] ++ encS .be 2 s.castId ++ encS .be 2 s.y ++ encS .be 2 s.x) ++ (encS .be 2 s.height ++ (encS .be 2 s.width ++ encU16 s.flag1 ++ encU16 s.flag2)) := by simp [encSpriteD4, List.append_assoc]
  rw [e]; exact raw_s16_at _ _ _ _ (h.2.2.2.2.1) _ (by simp)

theorem d4Sprite_r_width (s : RawSpriteD4) (h : s.Valid) : Gen.Score.d4Sprite_width.raw (encSpriteD4 s) = .ok (s.width) := by
  have e : encSpriteD4 s = (encS .be 2 s.spriteType ++ [s.fg] ++ [s.bg] ++ [s.flags] ++ [s.ink] ++ encS .be 2 s.castId ++ encS .be 2 s.y ++ encS .be 2 s.x ++ encS .be 2 s.height) ++ (encS .be 2 s.width ++ (encU16 s.flag1 ++ encU16 s.flag2)) := by simp [encSpriteD4, List.append_assoc]
  rw [e]; exact raw_s16_at _ _ _ _ (h.2.2.2.2.2.1) _ (by simp)

theorem d4Sprite_r_flag1 (s : RawSpriteD4) (h : s.Valid) : Gen.Score.d4Sprite_flag1.raw (encSpriteD4 s) = .ok (toSigned 16 s.flag1) := by
  have e : encSpriteD4 s = (encS .be 2 s.spriteType ++ [s.fg] ++ [s.bg] ++ [s.flags] ++ [s.ink] ++ encS .be 2 s.castId ++ encS .be 2 s.y ++ encS .be 2 s.x ++ encS .be 2 s.height ++ encS .be 2 s.width) ++ (encU16 s.flag1 ++ (encU16 s.flag2)) := by simp [encSpriteD4, List.append_assoc]
  rw [e]; exact raw_u16_at _ _ _ _ (h.2.2.2.2.2.2.1) _ (by simp)

theorem d4Sprite_r_flag2 (s : RawSpriteD4) (h : s.Valid) : Gen.Score.d4Sprite_flag2.raw (encSpriteD4 s) = .ok (toSigned 16 s.flag2) := by
  have e : encSpriteD4 s = (encS .be 2 s.spriteType ++ [s.fg] ++ [s.bg] ++ [s.flags] ++ [s.ink] ++ encS .be 2 s.castId ++ encS .be 2 s.y ++ encS .be 2 s.x ++ encS .be 2 s.height ++ encS .be 2 s.width ++ encU16 s.flag1) ++ (encU16 s.flag2 ++ ([])) := by simp [encSpriteD4, List.append_assoc]
  rw [e]; exact raw_u16_at _ _ _ _ (h.2.2.2.2.2.2.2) _ (by simp)

theorem d4Sprite_check_of (d : Bytes) (v_spriteType v_foregroundColor v_backgroundColor v_flags v_ink_byte v_castId v_y v_x v_height v_width v_flag1 v_flag2 : Int) (f_spriteType : Gen.Score.d4Sprite_spriteType.raw d = .ok v_spriteType) (f_foregroundColor : Gen.Score.d4Sprite_foregroundColor.raw d = .ok v_foregroundColor) (f_backgroundColor : Gen.Score.d4Sprite_backgroundColor.raw d = .ok v_backgroundColor) (f_flags : Gen.Score.d4Sprite_flags.raw d = .ok v_flags) (f_ink_byte : Gen.Score.d4Sprite_ink_byte.raw d = .ok v_ink_byte) (f_castId : Gen.Score.d4Sprite_castId.raw d = .ok v_castId) (f_y : Gen.Score.d4Sprite_y.raw d = .ok v_y) (f_x : Gen.Score.d4Sprite_x.raw d = .ok v_x) (f_height : Gen.Score.d4Sprite_height.raw d = .ok v_height) (f_width : Gen.Score.d4Sprite_width.raw d = .ok v_width) (f_flag1 : Gen.Score.d4Sprite_flag1.raw d = .ok v_flag1) (f_flag2 : Gen.Score.d4Sprite_flag2.raw d = .ok v_flag2) :
    checkAll Gen.Score.d4Sprite d = .ok () := by
  simp only [Gen.Score.d4Sprite, checkAll, f_spriteType, f_foregroundColor, f_backgroundColor, f_flags, f_ink_byte, f_castId, f_y, f_x, f_height, f_width, f_flag1, f_flag2, bind, Except.bind]

theorem d4Sprite_check (s : RawSpriteD4) (h : s.Valid) : checkAll Gen.Score.d4Sprite (encSpriteD4 s) = .ok () :=
  d4Sprite_check_of _ _ _ _ _ _ _ _ _ _ _ _ _ (d4Sprite_r_spriteType s h) (d4Sprite_r_foregroundColor s h) (d4Sprite_r_backgroundColor s h) (d4Sprite_r_flags s h) (d4Sprite_r_ink_byte s h) (d4Sprite_r_castId s h) (d4Sprite_r_y s h) (d4Sprite_r_x s h) (d4Sprite_r_height s h) (d4Sprite_r_width s h) (d4Sprite_r_flag1 s h) (d4Sprite_r_flag2 s h)

theorem d4ReadSprite_of (d : Bytes) (v_spriteType v_foregroundColor v_backgroundColor v_flags v_ink_byte v_castId v_y v_x v_height v_width v_flag2 : Int) (hc : checkAll Gen.Score.d4Sprite d = .ok ()) (f_spriteType : Gen.Score.d4Sprite_spriteType.raw d = .ok v_spriteType) (f_foregroundColor : Gen.Score.d4Sprite_foregroundColor.raw d = .ok v_foregroundColor) (f_backgroundColor : Gen.Score.d4Sprite_backgroundColor.raw d = .ok v_backgroundColor) (f_flags : Gen.Score.d4Sprite_flags.raw d = .ok v_flags) (f_ink_byte : Gen.Score.d4Sprite_ink_byte.raw d = .ok v_ink_byte) (f_castId : Gen.Score.d4Sprite_castId.raw d = .ok v_castId) (f_y : Gen.Score.d4Sprite_y.raw d = .ok v_y) (f_x : Gen.Score.d4Sprite_x.raw d = .ok v_x) (f_height : Gen.Score.d4Sprite_height.raw d = .ok v_height) (f_width : Gen.Score.d4Sprite_width.raw d = .ok v_width) (f_flag2 : Gen.Score.d4Sprite_flag2.raw d = .ok v_flag2) :
    d4ReadSprite d = .ok (if v_castId > 0 then some ⟨v_spriteType, v_castId, v_foregroundColor, v_backgroundColor, v_ink_byte % 64, some v_flags, v_y, v_x, v_height, v_width, v_ink_byte / 64 % 2, v_flag2 % 65536 / 32768 % 2 ≠ 0, v_flag2 % 65536 / 16384 % 2 ≠ 0⟩ else none) := by
  simp only [d4ReadSprite, hc, int_of_raw _ _ (rfl : Gen.Score.d4Sprite_spriteType.post = .raw), f_spriteType, int_of_raw _ _ (rfl : Gen.Score.d4Sprite_foregroundColor.post = .raw), f_foregroundColor, int_of_raw _ _ (rfl : Gen.Score.d4Sprite_backgroundColor.post = .raw), f_backgroundColor, int_of_raw _ _ (rfl : Gen.Score.d4Sprite_flags.post = .raw), f_flags, int_of_raw _ _ (rfl : Gen.Score.d4Sprite_ink_byte.post = .raw), f_ink_byte, int_of_raw _ _ (rfl : Gen.Score.d4Sprite_castId.post = .raw), f_castId, int_of_raw _ _ (rfl : Gen.Score.d4Sprite_y.post = .raw), f_y, int_of_raw _ _ (rfl : Gen.Score.d4Sprite_x.post = .raw), f_x, int_of_raw _ _ (rfl : Gen.Score.d4Sprite_height.post = .raw), f_height, int_of_raw _ _ (rfl : Gen.Score.d4Sprite_width.post = .raw), f_width, int_of_raw _ _ (rfl : Gen.Score.d4Sprite_flag2.post = .raw), f_flag2, bind, Except.bind, pure, Except.pure]
  split <;> rfl

theorem d4ReadSprite_enc (s : RawSpriteD4) (h : s.Valid) : d4ReadSprite (encSpriteD4 s) = .ok (viewSpriteD4 s) := by
  rw [d4ReadSprite_of _ _ _ _ _ _ _ _ _ _ _ _ (d4Sprite_check s h) (d4Sprite_r_spriteType s h) (d4Sprite_r_foregroundColor s h) (d4Sprite_r_backgroundColor s h) (d4Sprite_r_flags s h) (d4Sprite_r_ink_byte s h) (d4Sprite_r_castId s h) (d4Sprite_r_y s h) (d4Sprite_r_x s h) (d4Sprite_r_height s h) (d4Sprite_r_width s h) (d4Sprite_r_flag2 s h)]
  simp only [viewSpriteD4, toSigned16_mod s.flag2 (h.2.2.2.2.2.2.2)]

/-! ### d5ReadMain -/

theorem encMainD5_length (s : RawMainD5) (h : s.Valid) : (encMainD5 s).length = 24 := by
  simp [encMainD5]

theorem d5Main_r_unknown01 (s : RawMainD5) (h : s.Valid) : Gen.Score.d5Main_unknown01.raw (encMainD5 s) = .ok (s.unknown01) := by
  have e : encMainD5 s = ([]) ++ (encS .be 2 s.unknown01 ++ (encS .be 2 s.script ++ encS .be 2 s.unknown03 ++ encS .be 2 s.sound1 ++ encS .be 2 s.unknown05 ++ encS .be 2 s.sound2 ++ encS .be 2 s.unknown07 ++ encS .be 2 s.transCast ++ encS .be 2 s.unknown08 ++ encS .be 2 s.unknown09 ++ encS .be 2 s.fps ++ encS .be 2 s.unknown10)) := by simp [encMainD5, List.append_assoc]
  rw [e]; exact raw_s16_at _ _ _ _ (h.1) _ (by simp)

theorem d5Main_r_script (s : RawMainD5) (h : s.Valid) : Gen.Score.d5Main_script.raw (encMainD5 s) = .ok (s.script) := by
  have e : encMainD5 s = (encS .be 2 s.unknown01) ++ (encS .be 2 s.script ++ (encS .be 2 s.unknown03 ++ encS .be 2 s.sound1 ++ encS .be 2 s.unknown05 ++ encS .be 2 s.sound2 ++ encS .be 2 s.unknown07 ++ encS .be 2 s.transCast ++ encS .be 2 s.unknown08 ++ encS .be 2 s.unknown09 ++ encS .be 2 s.fps ++ encS .be 2 s.unknown10)) := by simp [encMainD5, List.append_assoc]
  rw [e]; exact raw_s16_at _ _ _ _ (h.2.1) _ (by simp)

theorem d5Main_r_unknown03 (s : RawMainD5) (h : s.Valid) : Gen.Score.d5Main_unknown03.raw (encMainD5 s) = .ok (s.unknown03) := by
  have e : encMainD5 s = (encS .be 2 s.unknown01 ++ encS .be 2 s.script) ++ (encS .be 2 s.unknown03 ++ (encS .be 2 s.sound1 ++ encS .be 2 s.unknown05 ++ encS .be 2 s.sound2 ++ encS .be 2 s.unknown07 ++ encS .be 2 s.transCast ++ encS .be 2 s.unknown08 ++ encS .be 2 s.unknown09 ++ encS .be 2 s.fps ++ encS .be 2 s.unknown10)) := by simp [encMainD5, List.append_assoc]
  rw [e]; exact raw_s16_at _ _ _ _ (h.2.2.1) _ (by simp)

theorem d5Main_r_sound1_cast (s : RawMainD5) (h : s.Valid) : Gen.Score.d5Main_sound1_cast.raw (encMainD5 s) = .ok (s.sound1) := by
  have e : encMainD5 s = (encS .be 2 s.unknown01 ++ encS .be 2 s.script ++ encS .be 2 s.unknown03) ++ (encS .be 2 s.sound1 ++ (encS .be 2 s.unknown05 ++ encS .be 2 s.sound2 ++ encS .be 2 s.unknown07 ++ encS .be 2 s.transCast ++ encS .be 2 s.unknown08 ++ encS .be 2 s.unknown09 ++ encS .be 2 s.fps ++ encS .be 2 s.unknown10)) := by simp [encMainD5, List.append_assoc]
  rw [e]; exact raw_s16_at _ _ _ _ (h.2.2.2.1) _ (by simp)

theorem d5Main_r_unknown05 (s : RawMainD5) (h : s.Valid) : Gen.Score.d5Main_unknown05.raw (encMainD5 s) = .ok (s.unknown05) := by
  have e : encMainD5 s = (encS .be 2 s.unknown01 ++ encS .be 2 s.script ++ encS .be 2 s.unknown03 ++ encS .be 2 s.sound1) ++ (encS .be 2 s.unknown05 ++ (encS .be 2 s.sound2 ++ encS .be 2 s.unknown07 ++ encS .be 2 s.transCast ++ encS .be 2 s.unknown08 ++ encS .be 2 s.unknown09 ++ encS .be 2 s.fps ++ encS .be 2 s.unknown10)) := by simp [encMainD5, List.append_assoc]
  rw [e]; exact raw_s16_at _ _ _ _ (h.2.2.2.2.1) _ (by simp)

theorem d5Main_r_sound2_cast (s : RawMainD5) (h : s.Valid) : Gen.Score.d5Main_sound2_cast.raw (encMainD5 s) = .ok (s.sound2) := by
  have e : encMainD5 s = (encS .be 2 s.unknown01 ++ encS .be 2 s.script ++ encS .be 2 s.unknown03 ++ encS .be 2 s.sound1 ++ encS .be 2 s.unknown05) ++ (encS .be 2 s.sound2 ++ (encS .be 2 s.unknown07 ++ encS .be 2 s.transCast ++ encS .be 2 s.unknown08 ++ encS .be 2 s.unknown09 ++ encS .be 2 s.fps ++ encS .be 2 s.unknown10)) := by simp [encMainD5, List.append_assoc]
  rw [e]; exact raw_s16_at _ _ _ _ (h.2.2.2.2.2.1) _ (by simp)

theorem d5Main_r_unknown07 (s : RawMainD5) (h : s.Valid) : Gen.Score.d5Main_unknown07.raw (encMainD5 s) = .ok (s.unknown07) := by
  have e : encMainD5 s = (encS .be 2 s.unknown01 ++ encS .be 2 s.script ++ encS .be 2 s.unknown03 ++ encS .be 2 s.sound1 ++ encS .be 2 s.unknown05 ++ encS .be 2 s.sound2) ++ (encS .be 2 s.unknown07 ++ (encS .be 2 s.transCast ++ encS .be 2 s.unknown08 ++ encS .be 2 s.unknown09 ++ encS .be 2 s.fps ++ encS .be 2 s.unknown10)) := by simp [encMainD5, List.append_assoc]
  rw [e]; exact raw_s16_at _ _ _ _ (h.2.2.2.2.2.2.1) _ (by simp)

theorem d5Main_r_transition_cast_id (s : RawMainD5) (h : s.Valid) : Gen.Score.d5Main_transition_cast_id.raw (encMainD5 s) = .ok (s.transCast) := by
  have e : encMainD5 s = (encS .be 2 s.unknown01 ++ encS .be 2 s.script ++ encS .be 2 s.unknown03 ++ encS .be 2 s.sound1 ++ encS .be 2 s.unknown05 ++ encS .be 2 s.sound2 ++ encS .be 2 s.unknown07) ++ (encS .be 2 s.transCast ++ (encS .be 2 s.unknown08 ++ encS .be 2 s.unknown09 ++ encS .be 2 s.fps ++ encS .be 2 s.unknown10)) := by simp [encMainD5, List.append_assoc]
  rw [e]; exact raw_s16_at _ _ _ _ (h.2.2.2.2.2.2.2.1) _ (by simp)

theorem d5Main_r_unknown08 (s : RawMainD5) (h : s.Valid) : Gen.Score.d5Main_unknown08.raw (encMainD5 s) = .ok (s.unknown08) := by
  have e : encMainD5 s = (encS .be 2 s.unknown01 ++ encS .be 2 s.script ++ encS .be 2 s.unknown03 ++ encS .be 2 s.sound1 ++ encS .be 2 s.unknown05 ++ encS .be 2 s.sound2 ++ encS .be 2 s.unknown07 ++ encS .be 2 s.transCast) ++ (encS .be 2 s.unknown08 ++ (encS .be 2 s.unknown09 ++ encS .be 2 s.fps ++ encS .be 2 s.unknown10)) := by simp [encMainD5, List.append_assoc]
  rw [e]; exact raw_s16_at _ _ _ _ (h.2.2.2.2.2.2.2.2.1) _ (by simp)

theorem d5Main_r_unknown09 (s : RawMainD5) (h : s.Valid) : Gen.Score.d5Main_unknown09.raw (encMainD5 s) = .ok (s.unknown09) := by
  have e : encMainD5 s = (encS .be 2 s.unknown01 ++ encS .be 2 s.script ++ encS .be 2 s.unknown03 ++ encS .be 2 s.sound1 ++ encS .be 2 s.unknown05 ++ encS .be 2 s.sound2 ++ encS .be 2 s.unknown07 ++ encS .be 2 s.transCast ++ encS .be 2 s.unknown08) ++ (encS .be 2 s.unknown09 ++ (encS .be 2 s.fps ++ encS .be 2 s.unknown10)) := by simp [encMainD5, List.append_assoc]
  rw [e]; exact raw_s16_at _ _ _ _ (h.2.2.2.2.2.2.2.2.2.1) _ (by simp)

theorem d5Main_r_fps (s : RawMainD5) (h : s.Valid) : Gen.Score.d5Main_fps.raw (encMainD5 s) = .ok (s.fps) := by
  have e : encMainD5 s = (encS .be 2 s.unknown01 ++ encS .be 2 s.script ++ encS .be 2 s.unknown03 ++ encS .be 2 s.sound1 ++ encS .be 2 s.unknown05 ++ encS .be 2 s.sound2 ++ encS .be 2 s.unknown07 ++ encS .be 2 s.transCast ++ encS .be 2 s.unknown08 ++ encS .be 2 s.unknown09) ++ (encS .be 2 s.fps ++ (encS .be 2 s.unknown10)) := by simp [encMainD5, List.append_assoc]
  rw [e]; exact raw_s16_at _ _ _ _ (h.2.2.2.2.2.2.2.2.2.2.1) _ (by simp)

theorem d5Main_r_unknown10 (s : RawMainD5) (h : s.Valid) : Gen.Score.d5Main_unknown10.raw (encMainD5 s) = .ok (s.unknown10) := by
  have e : encMainD5 s = (encS .be 2 s.unknown01 ++ encS .be 2 s.script ++ encS .be 2 s.unknown03 ++ encS .be 2 s.sound1 ++ encS .be 2 s.unknown05 ++ encS .be 2 s.sound2 ++ encS .be 2 s.unknown07 ++ encS .be 2 s.transCast ++ encS .be 2 s.unknown08 ++ encS .be 2 s.unknown09 ++ encS .be 2 s.fps) ++ (encS .be 2 s.unknown10 ++ ([])) := by simp [encMainD5, List.append_assoc]
  rw [e]; exact raw_s16_at _ _ _ _ (h.2.2.2.2.2.2.2.2.2.2.2) _ (by simp)

theorem d5Main_check_of (d : Bytes) (v_unknown01 v_script v_unknown03 v_sound1_cast v_unknown05 v_sound2_cast v_unknown07 v_transition_cast_id v_unknown08 v_unknown09 v_fps v_unknown10 : Int) (f_unknown01 : Gen.Score.d5Main_unknown01.raw d = .ok v_unknown01) (f_script : Gen.Score.d5Main_script.raw d = .ok v_script) (f_unknown03 : Gen.Score.d5Main_unknown03.raw d = .ok v_unknown03) (f_sound1_cast : Gen.Score.d5Main_sound1_cast.raw d = .ok v_sound1_cast) (f_unknown05 : Gen.Score.d5Main_unknown05.raw d = .ok v_unknown05) (f_sound2_cast : Gen.Score.d5Main_sound2_cast.raw d = .ok v_sound2_cast) (f_unknown07 : Gen.Score.d5Main_unknown07.raw d = .ok v_unknown07) (f_transition_cast_id : Gen.Score.d5Main_transition_cast_id.raw d = .ok v_transition_cast_id) (f_unknown08 : Gen.Score.d5Main_unknown08.raw d = .ok v_unknown08) (f_unknown09 : Gen.Score.d5Main_unknown09.raw d = .ok v_unknown09) (f_fps : Gen.Score.d5Main_fps.raw d = .ok v_fps) (f_unknown10 : Gen.Score.d5Main_unknown10.raw d = .ok v_unknown10) :
    checkAll Gen.Score.d5Main d = .ok () := by
  simp only [Gen.Score.d5Main, checkAll, f_unknown01, f_script, f_unknown03, f_sound1_cast, f_unknown05, f_sound2_cast, f_unknown07, f_transition_cast_id, f_unknown08, f_unknown09, f_fps, f_unknown10, bind, Except.bind]

theorem d5Main_check (s : RawMainD5) (h : s.Valid) : checkAll Gen.Score.d5Main (encMainD5 s) = .ok () :=
  d5Main_check_of _ _ _ _ _ _ _ _ _ _ _ _ _ (d5Main_r_unknown01 s h) (d5Main_r_script s h) (d5Main_r_unknown03 s h) (d5Main_r_sound1_cast s h) (d5Main_r_unknown05 s h) (d5Main_r_sound2_cast s h) (d5Main_r_unknown07 s h) (d5Main_r_transition_cast_id s h) (d5Main_r_unknown08 s h) (d5Main_r_unknown09 s h) (d5Main_r_fps s h) (d5Main_r_unknown10 s h)

theorem d5ReadMain_of (d : Bytes) (v_script v_sound1_cast v_sound2_cast v_transition_cast_id v_fps : Int) (hc : checkAll Gen.Score.d5Main d = .ok ()) (f_script : Gen.Score.d5Main_script.raw d = .ok v_script) (f_sound1_cast : Gen.Score.d5Main_sound1_cast.raw d = .ok v_sound1_cast) (f_sound2_cast : Gen.Score.d5Main_sound2_cast.raw d = .ok v_sound2_cast) (f_transition_cast_id : Gen.Score.d5Main_transition_cast_id.raw d = .ok v_transition_cast_id) (f_fps : Gen.Score.d5Main_fps.raw d = .ok v_fps) :
    d5ReadMain d = .ok (if v_fps ≠ 0 ∨ v_sound1_cast ≠ 0 ∨ v_sound2_cast ≠ 0 ∨ v_script ≠ 0 then some ⟨v_fps, v_sound1_cast, v_sound2_cast, v_script, .d5 v_transition_cast_id⟩ else none) := by
  simp only [d5ReadMain, hc, int_of_raw _ _ (rfl : Gen.Score.d5Main_script.post = .raw), f_script, int_of_raw _ _ (rfl : Gen.Score.d5Main_sound1_cast.post = .raw), f_sound1_cast, int_of_raw _ _ (rfl : Gen.Score.d5Main_sound2_cast.post = .raw), f_sound2_cast, int_of_raw _ _ (rfl : Gen.Score.d5Main_transition_cast_id.post = .raw), f_transition_cast_id, int_of_raw _ _ (rfl : Gen.Score.d5Main_fps.post = .raw), f_fps, bind, Except.bind, pure, Except.pure]
  split <;> rfl

theorem d5ReadMain_enc (s : RawMainD5) (h : s.Valid) : d5ReadMain (encMainD5 s) = .ok (viewMainD5 s) := by
  rw [d5ReadMain_of _ _ _ _ _ _ (d5Main_check s h) (d5Main_r_script s h) (d5Main_r_sound1_cast s h) (d5Main_r_sound2_cast s h) (d5Main_r_transition_cast_id s h) (d5Main_r_fps s h)]
  simp only [viewMainD5]

/-! ### d5ReadPalette -/

theorem encPalD5_length (s : RawPalD5) (h : s.Valid) : (encPalD5 s).length = 24 := by
  simp [encPalD5, h.2.2.2.2.2]

theorem d5Palette_r_unknown01 (s : RawPalD5) (h : s.Valid) : Gen.Score.d5Palette_unknown01.raw (encPalD5 s) = .ok (s.unknown01) := by
  have e : encPalD5 s = ([]) ++ (encS .be 2 s.unknown01 ++ (encS .be 2 s.paletteId ++ [s.fps] ++ [s.opcode] ++ encS .be 2 s.unknown02 ++ encS .be 2 s.unknown03 ++ encS .be 2 s.cycles ++ s.pad)) := by simp [encPalD5, List.append_assoc]
  rw [e]; exact raw_s16_at _ _ _ _ (h.1) _ (by simp)

theorem d5Palette_r_palette_id (s : RawPalD5) (h : s.Valid) : Gen.Score.d5Palette_palette_id.raw (encPalD5 s) = .ok (s.paletteId) := by
  have e : encPalD5 s = (encS .be 2 s.unknown01) ++ (encS .be 2 s.paletteId ++ ([s.fps] ++ [s.opcode] ++ encS .be 2 s.unknown02 ++ encS .be 2 s.unknown03 ++ encS .be 2 s.cycles ++ s.pad)) := by simp [encPalD5, List.append_assoc]
  rw [e]; exact raw_s16_at _ _ _ _ (h.2.1) _ (by simp)

theorem d5Palette_r_fps (s : RawPalD5) (h : s.Valid) : Gen.Score.d5Palette_fps.raw (encPalD5 s) = .ok (b2i s.fps) := by
  have e : encPalD5 s = (encS .be 2 s.unknown01 ++ encS .be 2 s.paletteId) ++ (s.fps :: ([s.opcode] ++ encS .be 2 s.unknown02 ++ encS .be 2 s.unknown03 ++ encS .be 2 s.cycles ++ s.pad)) := by simp [encPalD5, List.append_assoc]
  rw [e]; exact raw_u8_at _ _ _ _ _ (by simp)

theorem d5Palette_r_operation_code (s : RawPalD5) (h : s.Valid) : Gen.Score.d5Palette_operation_code.raw (encPalD5 s) = .ok (b2i s.opcode) := by
  have e : encPalD5 s = (encS .be 2 s.unknown01 ++ encS .be 2 s.paletteId ++ [s.fps]) ++ (s.opcode :: (encS .be 2 s.unknown02 ++ encS .be 2 s.unknown03 ++ encS .be 2 s.cycles ++ s.pad)) := by simp [encPalD5, List.append_assoc]
  rw [e]; exact raw_u8_at _ _ _ _ _ (by simp)

theorem d5Palette_r_unknown02 (s : RawPalD5) (h : s.Valid) : Gen.Score.d5Palette_unknown02.raw (encPalD5 s) = .ok (s.unknown02) := by
  have e : encPalD5 s = (encS .be 2 s.unknown01 ++ encS .be 2 s.paletteId ++ [s.fps] ++ [s.opcode]) ++ (encS .be 2 s.unknown02 ++ (encS .be 2 s.unknown03 ++ encS .be 2 s.cycles ++ s.pad)) := by simp [encPalD5, List.append_assoc]
  rw [e]; exact raw_s16_at _ _ _ _ (h.2.2.1) _ (by simp)

theorem d5Palette_r_unknown03 (s : RawPalD5) (h : s.Valid) : Gen.Score.d5Palette_unknown03.raw (encPalD5 s) = .ok (s.unknown03) := by
  have e : encPalD5 s = (encS .be 2 s.unknown01 ++ encS .be 2 s.paletteId ++ [s.fps] ++ [s.opcode] ++ encS .be 2 s.unknown02) ++ (encS .be 2 s.unknown03 ++ (encS .be 2 s.cycles ++ s.pad)) := by simp [encPalD5, List.append_assoc]
  rw [e]; exact raw_s16_at _ _ _ _ (h.2.2.2.1) _ (by simp)

theorem d5Palette_r_cycles (s : RawPalD5) (h : s.Valid) : Gen.Score.d5Palette_cycles.raw (encPalD5 s) = .ok (s.cycles) := by
  have e : encPalD5 s = (encS .be 2 s.unknown01 ++ encS .be 2 s.paletteId ++ [s.fps] ++ [s.opcode] ++ encS .be 2 s.unknown02 ++ encS .be 2 s.unknown03) ++ (encS .be 2 s.cycles ++ (s.pad)) := by simp [encPalD5, List.append_assoc]
  rw [e]; exact raw_s16_at _ _ _ _ (h.2.2.2.2.1) _ (by simp)

theorem d5Palette_check_of (d : Bytes) (v_unknown01 v_palette_id v_fps v_operation_code v_unknown02 v_unknown03 v_cycles : Int) (f_unknown01 : Gen.Score.d5Palette_unknown01.raw d = .ok v_unknown01) (f_palette_id : Gen.Score.d5Palette_palette_id.raw d = .ok v_palette_id) (f_fps : Gen.Score.d5Palette_fps.raw d = .ok v_fps) (f_operation_code : Gen.Score.d5Palette_operation_code.raw d = .ok v_operation_code) (f_unknown02 : Gen.Score.d5Palette_unknown02.raw d = .ok v_unknown02) (f_unknown03 : Gen.Score.d5Palette_unknown03.raw d = .ok v_unknown03) (f_cycles : Gen.Score.d5Palette_cycles.raw d = .ok v_cycles) :
    checkAll Gen.Score.d5Palette d = .ok () := by
  simp only [Gen.Score.d5Palette, checkAll, f_unknown01, f_palette_id, f_fps, f_operation_code, f_unknown02, f_unknown03, f_cycles, bind, Except.bind]

theorem d5Palette_check (s : RawPalD5) (h : s.Valid) : checkAll Gen.Score.d5Palette (encPalD5 s) = .ok () :=
  d5Palette_check_of _ _ _ _ _ _ _ _ (d5Palette_r_unknown01 s h) (d5Palette_r_palette_id s h) (d5Palette_r_fps s h) (d5Palette_r_operation_code s h) (d5Palette_r_unknown02 s h) (d5Palette_r_unknown03 s h) (d5Palette_r_cycles s h)

theorem d5ReadPalette_of (d : Bytes) (v_palette_id v_fps v_operation_code v_cycles : Int) (hc : checkAll Gen.Score.d5Palette d = .ok ()) (f_palette_id : Gen.Score.d5Palette_palette_id.raw d = .ok v_palette_id) (f_fps : Gen.Score.d5Palette_fps.raw d = .ok v_fps) (f_operation_code : Gen.Score.d5Palette_operation_code.raw d = .ok v_operation_code) (f_cycles : Gen.Score.d5Palette_cycles.raw d = .ok v_cycles) :
    d5ReadPalette d = .ok (if v_palette_id ≠ 0 then some ⟨v_fps, operationName v_operation_code, v_palette_id, v_cycles⟩ else none) := by
  simp only [d5ReadPalette, hc, int_of_raw _ _ (rfl : Gen.Score.d5Palette_palette_id.post = .raw), f_palette_id, int_of_raw _ _ (rfl : Gen.Score.d5Palette_fps.post = .raw), f_fps, int_of_raw _ _ (rfl : Gen.Score.d5Palette_operation_code.post = .raw), f_operation_code, int_of_raw _ _ (rfl : Gen.Score.d5Palette_cycles.post = .raw), f_cycles, bind, Except.bind, pure, Except.pure]
  split <;> rfl

theorem d5ReadPalette_enc (s : RawPalD5) (h : s.Valid) : d5ReadPalette (encPalD5 s) = .ok (viewPalD5 s) := by
  rw [d5ReadPalette_of _ _ _ _ _ (d5Palette_check s h) (d5Palette_r_palette_id s h) (d5Palette_r_fps s h) (d5Palette_r_operation_code s h) (d5Palette_r_cycles s h)]
  simp only [viewPalD5]

/-! ### d5ReadSprite -/

theorem encSpriteD5_length (s : RawSpriteD5) (h : s.Valid) : (encSpriteD5 s).length = 24 := by
  simp [encSpriteD5]

theorem d5Sprite_r_unknown01 (s : RawSpriteD5) (h : s.Valid) : Gen.Score.d5Sprite_unknown01.raw (encSpriteD5 s) = .ok (b2i s.unknown01) := by
  have e : encSpriteD5 s = ([]) ++ (s.unknown01 :: ([s.ink] ++ encS .be 2 s.spriteType ++ encS .be 2 s.castId ++ encS .be 2 s.unknown02 ++ encS .be 2 s.unknown03 ++ [s.fg] ++ [s.bg] ++ encS .be 2 s.y ++ encS .be 2 s.x ++ encS .be 2 s.height ++ encS .be 2 s.width ++ encU16 s.flag2 ++ encU16 s.flag1)) := by simp [encSpriteD5, List.append_assoc]
  rw [e]; exact raw_u8_at _ _ _ _ _ (by simp)

theorem d5Sprite_r_ink_byte (s : RawSpriteD5) (h : s.Valid) : Gen.Score.d5Sprite_ink_byte.raw (encSpriteD5 s) = .ok (b2i s.ink) := by
  have e : encSpriteD5 s = ([s.unknown01]) ++ (s.ink :: (encS .be 2 s.spriteType ++ encS .be 2 s.castId ++ encS .be 2 s.unknown02 ++ encS .be 2 s.unknown03 ++ [s.fg] ++ [s.bg] ++ encS .be 2 s.y ++ encS .be 2 s.x ++ encS .be 2 s.height ++ encS .be 2 s.width ++ encU16 s.flag2 ++ encU16 s.flag1)) := by simp [encSpriteD5, List.append_assoc]
  rw [e]; exact raw_u8_at _ _ _ _ _ (by simp)

theorem d5Sprite_r_spriteType (s : RawSpriteD5) (h : s.Valid) : Gen.Score.d5Sprite_spriteType.raw (encSpriteD5 s) = .ok (s.spriteType) := by
  have e : encSpriteD5 s = ([s.unknown01] ++ [s.ink]) ++ (encS .be 2 s.spriteType ++ (encS .be 2 s.castId ++ encS .be 2 s.unknown02 ++ encS .be 2 s.unknown03 ++ [s.fg] ++ [s.bg] ++ encS .be 2 s.y ++ encS .be 2 s.x ++ encS .be 2 s.height ++ encS .be 2 s.width ++ encU16 s.flag2 ++ encU16 s.flag1)) := by simp [encSpriteD5, List.append_assoc]
  rw [e]; exact raw_s16_at _ _ _ _ (h.1) _ (by simp)

theorem d5Sprite_r_castId (s : RawSpriteD5) (h : s.Valid) : Gen.Score.d5Sprite_castId.raw (encSpriteD5 s) = .ok (s.castId) := by
  have e : encSpriteD5 s = ([s.unknown01] ++ [s.ink] ++ encS .be 2 s.spriteType) ++ (encS .be 2 s.castId ++ (encS .be 2 s.unknown02 ++ encS .be 2 s.unknown03 ++ [s.fg] ++ [s.bg] ++ encS .be 2 s.y ++ encS .be 2 s.x ++ encS .be 2 s.height ++ encS .be 2 s.width ++ encU16 s.flag2 ++ encU16 s.flag1)) := by simp [encSpriteD5, List.append_assoc]
  rw [e]; exact raw_s16_at _ _ _ _ (h.2.1) _ (by simp)

theorem d5Sprite_r_unknown02 (s : RawSpriteD5) (h : s.Valid) : Gen.Score.d5Sprite_unknown02.raw (encSpriteD5 s) = .ok (s.unknown02) := by
  have e : encSpriteD5 s = ([s.unknown01] ++ [s.ink] ++ encS .be 2 s.spriteType ++ encS .be 2 s.castId) ++ (encS .be 2 s.unknown02 ++ (encS .be 2 s.unknown03 ++ [s.fg] ++ [s.bg] ++ encS .be 2 s.y ++ encS .be 2 s.x ++ encS .be 2 s.height ++ encS .be 2 s.width ++ encU16 s.flag2 ++ encU16 s.flag1)) := by simp [encSpriteD5, List.append_assoc]
  rw [e]; exact raw_s16_at _ _ _ _ (h.2.2.1) _ (by simp)

theorem d5Sprite_r_unknown03 (s : RawSpriteD5) (h : s.Valid) : Gen.Score.d5Sprite_unknown03.raw (encSpriteD5 s) = .ok (s.unknown03) := by
  have e : encSpriteD5 s = ([s.unknown01] ++ [s.ink] ++ encS .be 2 s.spriteType ++ encS .be 2 s.castId ++ encS .be 2 s.unknown02) ++ (encS .be 2 s.unknown03 ++ ([s.fg] ++ [s.bg] ++ encS .be 2 s.y ++ encS .be 2 s.x ++ encS .be 2 s.height ++ encS .be 2 s.width ++ encU16 s.flag2 ++ encU16 s.flag1)) := by simp [encSpriteD5, List.append_assoc]
  rw [e]; exact raw_s16_at _ _ _ _ (h.2.2.2.1) _ (by simp)

theorem d5Sprite_r_foregroundColor (s : RawSpriteD5) (h : s.Valid) : Gen.Score.d5Sprite_foregroundColor.raw (encSpriteD5 s) = .ok (b2i s.fg) := by
  have e : encSpriteD5 s = ([s.unknown01] ++ [s.ink] ++ encS .be 2 s.spriteType ++ encS .be 2 s.castId ++ encS .be 2 s.unknown02 ++ encS .be 2 s.unknown03) ++ (s.fg :: ([s.bg] ++ encS .be 2 s.y ++ encS .be 2 s.x ++ encS .be 2 s.height ++ encS .be 2 s.width ++ encU16 s.flag2 ++ encU16 s.flag1)) := by simp [encSpriteD5, List.append_assoc]
  rw [e]; exact raw_u8_at _ _ _ _ _ (by simp)

theorem d5Sprite_r_backgroundColor (s : RawSpriteD5) (h : s.Valid) : Gen.Score.d5Sprite_backgroundColor.raw (encSpriteD5 s) = .ok (b2i s.bg) := by
  have e : encSpriteD5 s = ([s.unknown01] ++ [s.ink] ++ encS .be 2 s.spriteType ++ encS .be 2 s.castId ++ encS .be 2 s.unknown02 ++ encS .be 2 s.unknown03 ++ [s.fg]) ++ (s.bg :: (encS .be 2 s.y ++ encS .be 2 s.x ++ encS .be 2 s.height ++ encS .be 2 s.width ++ encU16 s.flag2 ++ encU16 s.flag1)) := by simp [encSpriteD5, List.append_assoc]
  rw [e]; exact raw_u8_at _ _ _ _ _ (by simp)

theorem d5Sprite_r_y (s : RawSpriteD5) (h : s.Valid) : Gen.Score.d5Sprite_y.raw (encSpriteD5 s) = .ok (s.y) := by
  have e : encSpriteD5 s = ([s.unknown01] ++ [s.ink] ++ encS .be 2 s.spriteType ++ encS .be 2 s.castId ++ encS .be 2 s.unknown02 ++ encS .be 2 s.unknown03 ++ [s.fg] ++ [s.bg]) ++ (encS .be 2 s.y ++ (encS .be 2 s.x ++ encS .be 2 s.height ++ encS .be 2 s.width ++ encU16 s.flag2 ++ encU16 s.flag1)) := by simp [encSpriteD5, List.append_assoc]
  rw [e]; exact raw_s16_at _ _ _ _ (h.2.2.2.2.1) _ (by simp)

theorem d5Sprite_r_x (s : RawSpriteD5) (h : s.Valid) : Gen.Score.d5Sprite_x.raw (encSpriteD5 s) = .ok (s.x) := by
  have e : encSpriteD5 s = ([s.unknown01] ++ [s.ink] ++ encS .be 2 s.spriteType ++ encS .be 2 s.castId ++ encS .be 2 s.unknown02 ++ encS .be 2 s.unknown03 ++ [s.fg] ++ [s.bg] ++ encS .be 2 s.y) ++ (encS .be 2 s.x ++ (encS .be 2 s.height ++ encS .be 2 s.width ++ encU16 s.flag2 ++ encU16 s.flag1)) := by simp [encSpriteD5, List.append_assoc]
  rw [e]; exact raw_s16_at _ _ _ _ (h.2.2.2.2.2.1) _ (by simp)

theorem d5Sprite_r_height (s : RawSpriteD5) (h : s.Valid) : Gen.Score.d5Sprite_height.raw (encSpriteD5 s) = .ok (s.height) := by
  have e : encSpriteD5 s = ([s.unknown01] ++ [s.ink] ++ encS .be 2 s.spriteType ++ encS .be 2 s.castId ++ encS .be 2 s.unknown02 ++ encS .be 2 s.unknown03 ++ [s.fg] ++ [s.bg] ++ encS .be 2 s.y ++ encS .be 2 s.x) ++ (encS .be 2 s.height ++ (encS .be 2 s.width ++ encU16 s.flag2 ++ encU16 s.flag1)) := by simp [encSpriteD5, List.append_assoc]
  rw [e]; exact raw_s16_at _ _ _ _ (h.2.2.2.2.2.2.1) _ (by simp)

theorem d5Sprite_r_width (s : RawSpriteD5) (h : s.Valid) : Gen.Score.d5Sprite_width.raw (encSpriteD5 s) = .ok (s.width) := by
  have e : encSpriteD5 s = ([s.unknown01] ++ [s.ink] ++ encS .be 2 s.spriteType ++ encS .be 2 s.castId ++ encS .be 2 s.unknown02 ++ encS .be 2 s.unknown03 ++ [s.fg] ++ [s.bg] ++ encS .be 2 s.y ++ encS .be 2 s.x ++ encS .be 2 s.height) ++ (encS .be 2 s.width ++ (encU16 s.flag2 ++ encU16 s.flag1)) := by simp [encSpriteD5, List.append_assoc]
  rw [e]; exact raw_s16_at _ _ _ _ (h.2.2.2.2.2.2.2.1) _ (by simp)

theorem d5Sprite_r_flag2 (s : RawSpriteD5) (h : s.Valid) : Gen.Score.d5Sprite_flag2.raw (encSpriteD5 s) = .ok (toSigned 16 s.flag2) := by
  have e : encSpriteD5 s = ([s.unknown01] ++ [s.ink] ++ encS .be 2 s.spriteType ++ encS .be 2 s.castId ++ encS .be 2 s.unknown02 ++ encS .be 2 s.unknown03 ++ [s.fg] ++ [s.bg] ++ encS .be 2 s.y ++ encS .be 2 s.x ++ encS .be 2 s.height ++ encS .be 2 s.width) ++ (encU16 s.flag2 ++ (encU16 s.flag1)) := by simp [encSpriteD5, List.append_assoc]
  rw [e]; exact raw_u16_at _ _ _ _ (h.2.2.2.2.2.2.2.2.1) _ (by simp)

theorem d5Sprite_r_flag1 (s : RawSpriteD5) (h : s.Valid) : Gen.Score.d5Sprite_flag1.raw (encSpriteD5 s) = .ok (toSigned 16 s.flag1) := by
  have e : encSpriteD5 s = ([s.unknown01] ++ [s.ink] ++ encS .be 2 s.spriteType ++ encS .be 2 s.castId ++ encS .be 2 s.unknown02 ++ encS .be 2 s.unknown03 ++ [s.fg] ++ [s.bg] ++ encS .be 2 s.y ++ encS .be 2 s.x ++ encS .be 2 s.height ++ encS .be 2 s.width ++ encU16 s.flag2) ++ (encU16 s.flag1 ++ ([])) := by simp [encSpriteD5, List.append_assoc]
  rw [e]; exact raw_u16_at _ _ _ _ (h.2.2.2.2.2.2.2.2.2) _ (by simp)

theorem d5Sprite_check_of (d : Bytes) (v_unknown01 v_ink_byte v_spriteType v_castId v_unknown02 v_unknown03 v_foregroundColor v_backgroundColor v_y v_x v_height v_width v_flag2 v_flag1 : Int) (f_unknown01 : Gen.Score.d5Sprite_unknown01.raw d = .ok v_unknown01) (f_ink_byte : Gen.Score.d5Sprite_ink_byte.raw d = .ok v_ink_byte) (f_spriteType : Gen.Score.d5Sprite_spriteType.raw d = .ok v_spriteType) (f_castId : Gen.Score.d5Sprite_castId.raw d = .ok v_castId) (f_unknown02 : Gen.Score.d5Sprite_unknown02.raw d = .ok v_unknown02) (f_unknown03 : Gen.Score.d5Sprite_unknown03.raw d = .ok v_unknown03) (f_foregroundColor : Gen.Score.d5Sprite_foregroundColor.raw d = .ok v_foregroundColor) (f_backgroundColor : Gen.Score.d5Sprite_backgroundColor.raw d = .ok v_backgroundColor) (f_y : Gen.Score.d5Sprite_y.raw d = .ok v_y) (f_x : Gen.Score.d5Sprite_x.raw d = .ok v_x) (f_height : Gen.Score.d5Sprite_height.raw d = .ok v_height) (f_width : Gen.Score.d5Sprite_width.raw d = .ok v_width) (f_flag2 : Gen.Score.d5Sprite_flag2.raw d = .ok v_flag2) (f_flag1 : Gen.Score.d5Sprite_flag1.raw d = .ok v_flag1) :
    checkAll Gen.Score.d5Sprite d = .ok () := by
  simp only [Gen.Score.d5Sprite, checkAll, f_unknown01, f_ink_byte, f_spriteType, f_castId, f_unknown02, f_unknown03, f_foregroundColor, f_backgroundColor, f_y, f_x, f_height, f_width, f_flag2, f_flag1, bind, Except.bind]

theorem d5Sprite_check (s : RawSpriteD5) (h : s.Valid) : checkAll Gen.Score.d5Sprite (encSpriteD5 s) = .ok () :=
  d5Sprite_check_of _ _ _ _ _ _ _ _ _ _ _ _ _ _ _ (d5Sprite_r_unknown01 s h) (d5Sprite_r_ink_byte s h) (d5Sprite_r_spriteType s h) (d5Sprite_r_castId s h) (d5Sprite_r_unknown02 s h) (d5Sprite_r_unknown03 s h) (d5Sprite_r_foregroundColor s h) (d5Sprite_r_backgroundColor s h) (d5Sprite_r_y s h) (d5Sprite_r_x s h) (d5Sprite_r_height s h) (d5Sprite_r_width s h) (d5Sprite_r_flag2 s h) (d5Sprite_r_flag1 s h)

theorem d5ReadSprite_of (d : Bytes) (v_ink_byte v_spriteType v_castId v_foregroundColor v_backgroundColor v_y v_x v_height v_width v_flag2 : Int) (hc : checkAll Gen.Score.d5Sprite d = .ok ()) (f_ink_byte : Gen.Score.d5Sprite_ink_byte.raw d = .ok v_ink_byte) (f_spriteType : Gen.Score.d5Sprite_spriteType.raw d = .ok v_spriteType) (f_castId : Gen.Score.d5Sprite_castId.raw d = .ok v_castId) (f_foregroundColor : Gen.Score.d5Sprite_foregroundColor.raw d = .ok v_foregroundColor) (f_backgroundColor : Gen.Score.d5Sprite_backgroundColor.raw d = .ok v_backgroundColor) (f_y : Gen.Score.d5Sprite_y.raw d = .ok v_y) (f_x : Gen.Score.d5Sprite_x.raw d = .ok v_x) (f_height : Gen.Score.d5Sprite_height.raw d = .ok v_height) (f_width : Gen.Score.d5Sprite_width.raw d = .ok v_width) (f_flag2 : Gen.Score.d5Sprite_flag2.raw d = .ok v_flag2) :
    d5ReadSprite d = .ok (if v_castId > 0 then some ⟨v_spriteType, v_castId, v_foregroundColor, v_backgroundColor, v_ink_byte % 64, none, v_y, v_x, v_height, v_width, v_ink_byte / 64 % 2, v_flag2 % 65536 / 32768 % 2 ≠ 0, v_flag2 % 65536 / 16384 % 2 ≠ 0⟩ else none) := by
  simp only [d5ReadSprite, hc, int_of_raw _ _ (rfl : Gen.Score.d5Sprite_ink_byte.post = .raw), f_ink_byte, int_of_raw _ _ (rfl : Gen.Score.d5Sprite_spriteType.post = .raw), f_spriteType, int_of_raw _ _ (rfl : Gen.Score.d5Sprite_castId.post = .raw), f_castId, int_of_raw _ _ (rfl : Gen.Score.d5Sprite_foregroundColor.post = .raw), f_foregroundColor, int_of_raw _ _ (rfl : Gen.Score.d5Sprite_backgroundColor.post = .raw), f_backgroundColor, int_of_raw _ _ (rfl : Gen.Score.d5Sprite_y.post = .raw), f_y, int_of_raw _ _ (rfl : Gen.Score.d5Sprite_x.post = .raw), f_x, int_of_raw _ _ (rfl : Gen.Score.d5Sprite_height.post = .raw), f_height, int_of_raw _ _ (rfl : Gen.Score.d5Sprite_width.post = .raw), f_width, int_of_raw _ _ (rfl : Gen.Score.d5Sprite_flag2.post = .raw), f_flag2, bind, Except.bind, pure, Except.pure]
  split <;> rfl

theorem d5ReadSprite_enc (s : RawSpriteD5) (h : s.Valid) : d5ReadSprite (encSpriteD5 s) = .ok (viewSpriteD5 s) := by
  rw [d5ReadSprite_of _ _ _ _ _ _ _ _ _ _ _ (d5Sprite_check s h) (d5Sprite_r_ink_byte s h) (d5Sprite_r_spriteType s h) (d5Sprite_r_castId s h) (d5Sprite_r_foregroundColor s h) (d5Sprite_r_backgroundColor s h) (d5Sprite_r_y s h) (d5Sprite_r_x s h) (d5Sprite_r_height s h) (d5Sprite_r_width s h) (d5Sprite_r_flag2 s h)]
  simp only [viewSpriteD5, toSigned16_mod s.flag2 (h.2.2.2.2.2.2.2.2.1)]

end Drx.Vwsc
