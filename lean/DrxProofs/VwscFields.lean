/-
  C08 fields_roundtrip: each of the six channel readers, run on the byte layout of a raw record, reports exactly the
  record's view; a whole channel buffer decodes to the views of its records.
-/
import Drx.Vwsc
import Drx.VwscSpec
import DrxProofs.Py
import DrxProofs.Vwsc
namespace Drx.Vwsc
open Drx Drx.Vwsc.Spec Drx.VwscLayout

theorem encS2_pair (v : Int) : ∃ a b, encS .be 2 v = [a, b] :=
  ⟨UInt8.ofNat (ofSigned 16 v / 256 % 256), UInt8.ofNat (ofSigned 16 v % 256), by simp [encS, encOrd, encBE]⟩
theorem encU16_pair (n : Nat) : ∃ a b, encU16 n = [a, b] :=
  ⟨UInt8.ofNat (n / 256 % 256), UInt8.ofNat (n % 256), by simp [encU16, encOrd, encBE]⟩

theorem unpack_pair {v : Int} {a b : UInt8} (e : encS .be 2 v = [a, b]) (h : In16 v) : unpackS .be 2 [a, b] = .ok v := by
  rw [← e]; exact unpackS_encS .be 2 (by decide) v (in16_b h).1 (in16_b h).2

theorem unpack_pairU {n : Nat} {a b : UInt8} (e : encU16 n = [a, b]) (h : n < 65536) :
    unpackS .be 2 [a, b] = .ok (toSigned 16 n) := by
  rw [← e]; simp [unpackS, encU16, ordNat_encOrd_of_lt .be 2 n (by omega)]

theorem toSigned16_mod (n : Nat) (h : n < 65536) : toSigned 16 n % 65536 = (n : Int) := by
  unfold toSigned
  split <;> omega

set_option maxRecDepth 8000 in
theorem d4ReadSprite_bytes (a0 b0 fg bg flags ink a1 b1 a2 b2 a3 b3 a4 b4 a5 b5 a6 b6 a7 b7 : UInt8) (v0 v1 v2 v3 v4 v5 v6 v7 : Int)
    (u0 : unpackS .be 2 [a0, b0] = .ok v0) (u1 : unpackS .be 2 [a1, b1] = .ok v1) (u2 : unpackS .be 2 [a2, b2] = .ok v2)
    (u3 : unpackS .be 2 [a3, b3] = .ok v3) (u4 : unpackS .be 2 [a4, b4] = .ok v4) (u5 : unpackS .be 2 [a5, b5] = .ok v5)
    (u6 : unpackS .be 2 [a6, b6] = .ok v6) (u7 : unpackS .be 2 [a7, b7] = .ok v7) :
    d4ReadSprite [a0, b0, fg, bg, flags, ink, a1, b1, a2, b2, a3, b3, a4, b4, a5, b5, a6, b6, a7, b7]
      = .ok (if v1 > 0 then
          some ⟨v0, v1, b2i fg, b2i bg, b2i ink % 64, some (b2i flags), v2, v3, v4, v5, b2i ink / 64 % 2,
                v7 % 65536 / 32768 % 2 ≠ 0, v7 % 65536 / 16384 % 2 ≠ 0⟩
        else none) := by
  simp [d4ReadSprite, checkAll, Gen.Score.d4Sprite, Gen.Score.d4Sprite_spriteType, Gen.Score.d4Sprite_foregroundColor,
    Gen.Score.d4Sprite_backgroundColor, Gen.Score.d4Sprite_flags, Gen.Score.d4Sprite_ink_byte, Gen.Score.d4Sprite_castId,
    Gen.Score.d4Sprite_y, Gen.Score.d4Sprite_x, Gen.Score.d4Sprite_height, Gen.Score.d4Sprite_width, Gen.Score.d4Sprite_flag1,
    Gen.Score.d4Sprite_flag2, Fld.int, Fld.raw, getS, slice, byteAt, u0, u1, u2, u3, u4, u5, u6, u7, bind, Except.bind,
    Except.map, b2i, pure, Except.pure]
  split <;> rfl

theorem d4ReadSprite_enc (s : RawSpriteD4) (h : s.Valid) : d4ReadSprite (encSpriteD4 s) = .ok (viewSpriteD4 s) := by
  obtain ⟨h0, h1, h2, h3, h4, h5, h6, h7⟩ := h
  obtain ⟨a0, b0, e0⟩ := encS2_pair s.spriteType
  obtain ⟨a1, b1, e1⟩ := encS2_pair s.castId
  obtain ⟨a2, b2, e2⟩ := encS2_pair s.y
  obtain ⟨a3, b3, e3⟩ := encS2_pair s.x
  obtain ⟨a4, b4, e4⟩ := encS2_pair s.height
  obtain ⟨a5, b5, e5⟩ := encS2_pair s.width
  obtain ⟨a6, b6, e6⟩ := encU16_pair s.flag1
  obtain ⟨a7, b7, e7⟩ := encU16_pair s.flag2
  simp only [encSpriteD4, e0, e1, e2, e3, e4, e5, e6, e7, List.cons_append, List.nil_append]
  rw [d4ReadSprite_bytes _ _ _ _ _ _ _ _ _ _ _ _ _ _ _ _ _ _ _ _ _ _ _ _ _ _ _ _ (unpack_pair e0 h0) (unpack_pair e1 h1) (unpack_pair e2 h2)
    (unpack_pair e3 h3) (unpack_pair e4 h4) (unpack_pair e5 h5) (unpack_pairU e6 h6) (unpack_pairU e7 h7)]
  simp only [viewSpriteD4, toSigned16_mod s.flag2 h7]

end Drx.Vwsc
