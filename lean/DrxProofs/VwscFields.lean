/-
  C08 fields_roundtrip: each of the six channel readers, run on the byte layout of a raw record, reports exactly the
  record's view; a whole channel buffer decodes to the views of its records.
-/
import Drx.Vwsc
import Drx.VwscSpec
import DrxProofs.Py
import DrxProofs.Vwsc
namespace Drx.Vwsc
open Drx Drx.Vwsc.Spec Drx.VwscLayout

theorem encS2_pair (v : Int) : ∃ a b, encS .be 2 v = [a, b] := ⟨_, _, by simp [encS, encOrd, encBE]⟩
theorem encU16_pair (n : Nat) : ∃ a b, encU16 n = [a, b] := ⟨_, _, by simp [encU16, encOrd, encBE]⟩

theorem unpack_pair {v : Int} {a b : UInt8} (e : encS .be 2 v = [a, b]) (h : In16 v) : unpackS .be 2 [a, b] = .ok v := by
  rw [← e]; exact unpackS_encS .be 2 (by decide) v (in16_b h).1 (in16_b h).2

theorem unpack_pairU {n : Nat} {a b : UInt8} (e : encU16 n = [a, b]) (h : n < 65536) :
    unpackS .be 2 [a, b] = .ok (toSigned 16 n) := by
  rw [← e]; simp [unpackS, encU16, ordNat_encOrd_of_lt .be 2 n (by omega)]

theorem toSigned16_mod (n : Nat) (h : n < 65536) : toSigned 16 n % 65536 = (n : Int) := by
  unfold toSigned
  split <;> omega

theorem d4ReadSprite_enc (s : RawSpriteD4) (h : s.Valid) : d4ReadSprite (encSpriteD4 s) = .ok (viewSpriteD4 s) := by
  obtain ⟨h0, h1, h2, h3, h4, h5, h6, h7⟩ := h
  obtain ⟨a0, b0, e0⟩ := encS2_pair s.spriteType
  obtain ⟨a1, b1, e1⟩ := encS2_pair s.castId
  obtain ⟨a2, b2, e2⟩ := encS2_pair s.y
  obtain ⟨a3, b3, e3⟩ := encS2_pair s.x
  obtain ⟨a4, b4, e4⟩ := encS2_pair s.height
  obtain ⟨a5, b5, e5⟩ := encS2_pair s.width
  obtain ⟨a6, b6, e6⟩ := encU16_pair s.flag1
  obtain ⟨a7, b7, e7⟩ := encU16_pair s.flag2
  have u0 := unpack_pair e0 h0
  have u1 := unpack_pair e1 h1
  have u2 := unpack_pair e2 h2
  have u3 := unpack_pair e3 h3
  have u4 := unpack_pair e4 h4
  have u5 := unpack_pair e5 h5
  have u6 := unpack_pairU e6 h6
  have u7 := unpack_pairU e7 h7
  have m7 := toSigned16_mod s.flag2 h7
  simp only [encSpriteD4, e0, e1, e2, e3, e4, e5, e6, e7, List.cons_append, List.nil_append]
  simp [d4ReadSprite, checkAll, Gen.Score.d4Sprite, Gen.Score.d4Sprite_spriteType, Gen.Score.d4Sprite_foregroundColor,
    Gen.Score.d4Sprite_backgroundColor, Gen.Score.d4Sprite_flags, Gen.Score.d4Sprite_ink_byte, Gen.Score.d4Sprite_castId,
    Gen.Score.d4Sprite_y, Gen.Score.d4Sprite_x, Gen.Score.d4Sprite_height, Gen.Score.d4Sprite_width, Gen.Score.d4Sprite_flag1,
    Gen.Score.d4Sprite_flag2, Fld.int, Fld.raw, getS, slice, byteAt, u0, u1, u2, u3, u4, u5, u6, u7, m7, bind, Except.bind,
    Except.map, Functor.map, viewSpriteD4, b2i, pure, Except.pure]

end Drx.Vwsc
