/-
  Helper lemmas for the iteration bounds of the cast loops (C10 support).
-/
import Drx.CastSteps
import DrxProofs.Py
namespace Drx.Cast
open Drx

theorem slice_length_le (l : List α) (a b : Nat) : (slice l a b).length ≤ b - a := by
  simp [slice]; omega

theorem slice_length (l : List α) (a b : Nat) : (slice l a b).length = min (b - a) (l.length - a) := by
  simp [slice]

theorem unpackS_ok_len (o : Order) (k : Nat) (s : Bytes) (v : Int) (h : unpackS o k s = .ok v) : s.length = k := by
  unfold unpackS at h
  by_cases hl : s.length = k
  · exact hl
  · simp [hl] at h

theorem unpackU_ok_len (o : Order) (k : Nat) (s : Bytes) (v : Nat) (h : unpackU o k s = .ok v) : s.length = k := by
  unfold unpackU at h
  by_cases hl : s.length = k
  · exact hl
  · simp [hl] at h

/-- a successful read lies inside the data -/
theorem readField_ok_size (k : FK) (d : Bytes) (off : Nat) (v : Int) (h : readField k d off = .ok v) :
    off + k.size ≤ d.length := by
  cases k with
  | u8 =>
    simp only [readField, byteAt] at h
    cases hd : d[off]? with
    | none => simp [hd] at h
    | some b =>
      have := (List.getElem?_eq_some_iff.mp hd).1
      simp only [FK.size]; omega
  | s16 =>
    simp only [readField, getS] at h
    have hl := unpackS_ok_len _ _ _ _ h
    rw [slice_length] at hl; simp only [FK.size]; omega
  | s32 =>
    simp only [readField, getS] at h
    have hl := unpackS_ok_len _ _ _ _ h
    rw [slice_length] at hl; simp only [FK.size]; omega
  | u32 =>
    simp only [readField, getU] at h
    cases hu : unpackU .be 4 (slice d off (off + 4)) with
    | error e => simp [hu] at h
    | ok n =>
      have hl := unpackU_ok_len _ _ _ _ hu
      rw [slice_length] at hl; simp only [FK.size]; omega

/-- the rounds of a read loop are paid for by the data that is left, whatever count was declared -/
theorem readNSteps_bound (k : FK) (n : Nat) (d : Bytes) (off : Nat) :
    readNSteps k n d off * k.size ≤ (d.length - off) + k.size := by
  induction n generalizing off with
  | zero => simp [readNSteps]
  | succ n ih =>
    simp only [readNSteps]
    cases hr : readField k d off with
    | error e => simp
    | ok v =>
      have hs := readField_ok_size k d off v hr
      have := ih (off + k.size)
      simp only
      rw [Nat.add_mul, Nat.one_mul]
      generalize readNSteps k n d (off + k.size) * k.size = x at *
      omega

theorem readNSteps_le_declared (k : FK) (n : Nat) (d : Bytes) (off : Nat) : readNSteps k n d off ≤ n := by
  induction n generalizing off with
  | zero => simp [readNSteps]
  | succ n ih =>
    simp only [readNSteps]
    cases readField k d off with
    | error e => simp
    | ok v => have := ih (off + k.size); simp only; omega

/-- a read loop that completes has consumed `n * size` bytes of data and made exactly `n` rounds -/
theorem readN_ok (k : FK) (n : Nat) (d : Bytes) (off : Nat) (vs : List Int) (h : readN k n d off = .ok vs) :
    vs.length = n ∧ n * k.size ≤ d.length - off ∧ readNSteps k n d off = n := by
  induction n generalizing off vs with
  | zero => simp [readN] at h; subst h; simp [readNSteps]
  | succ n ih =>
    simp only [readN] at h
    cases hr : readField k d off with
    | error e => simp [hr] at h
    | ok v =>
      simp only [hr] at h
      cases hn : readN k n d (off + k.size) with
      | error e => simp [hn] at h
      | ok ws =>
        simp only [hn, Except.ok.injEq] at h
        subst h
        obtain ⟨h1, h2, h3⟩ := ih (off + k.size) ws hn
        have hs := readField_ok_size k d off v hr
        refine ⟨by simp [h1], ?_, by simp [readNSteps, hr, h3]; omega⟩
        rw [Nat.add_mul, Nat.one_mul]
        generalize n * k.size = x at *
        omega

theorem collectSteps_eq (offs : List Int) : collectSteps offs = offs.length - 1 := by
  induction offs with
  | nil => rfl
  | cons a t ih =>
    cases t with
    | nil => rfl
    | cons b t' => simp only [collectSteps, ih, List.length_cons]; omega

/-- the slices of the structure loop are disjoint pieces of the data after the running index -/
theorem collectExtras_bytes (b : Bytes) (offs : List Int) (idx : Nat) :
    (collectExtras b offs idx).flatten.length ≤ b.length - idx := by
  induction offs generalizing idx with
  | nil => simp [collectExtras]
  | cons o0 t ih =>
    cases t with
    | nil => simp [collectExtras]
    | cons o1 rest =>
      simp only [collectExtras]
      split
      · have := ih (idx + (o1 - o0).toNat)
        simp only [List.flatten_cons, List.length_append, slice_length]
        omega
      · have := ih idx
        simpa using this

theorem nameBytes_le (extras : List Bytes) : nameBytes extras ≤ 255 := by
  unfold nameBytes
  split
  · next n cs _ =>
    have := slice_length_le (n :: cs) 1 (n.toNat + 1)
    have := UInt8.toNat_lt n
    omega
  · omega

theorem mem_flatten_length (e : Bytes) (l : List Bytes) (h : e ∈ l) : e.length ≤ l.flatten.length := by
  induction l with
  | nil => simp at h
  | cons x xs ih =>
    simp only [List.mem_cons] at h
    simp only [List.flatten_cons, List.length_append]
    rcases h with rfl | h
    · omega
    · have := ih h; omega

theorem nameBytes_le_extras (extras : List Bytes) : nameBytes extras ≤ extras.flatten.length := by
  cases extras with
  | nil => simp [nameBytes]
  | cons a t =>
    cases t with
    | nil => simp [nameBytes]
    | cons e t2 =>
      cases e with
      | nil => simp [nameBytes]
      | cons n cs =>
        have h1 := slice_length (n :: cs) 1 (n.toNat + 1)
        have h2 := mem_flatten_length (n :: cs) (a :: (n :: cs) :: t2) (by simp)
        simp only [nameBytes, h1]
        simp only [List.length_cons] at h2 ⊢
        omega

theorem pySlice_length_le (l : List α) (a b : Int) : (pySlice l a b).length ≤ l.length := by
  unfold pySlice
  simp only [List.length_take, List.length_drop]
  omega

theorem structD4_basic_le (d : Bytes) (st : CastStruct) (h : structD4 d = .ok st) : st.basic.length ≤ d.length := by
  unfold structD4 at h
  simp only [bind, Except.bind] at h
  repeat' (split at h)
  all_goals (try (cases h))
  all_goals (try (simp only; exact pySlice_length_le _ _ _))
  all_goals simp

theorem structD5_basic_le (d : Bytes) (st : CastStruct) (h : structD5 d = .ok st) : st.basic.length ≤ d.length := by
  unfold structD5 at h
  simp only [bind, Except.bind] at h
  repeat' (split at h)
  all_goals (try (cases h))
  all_goals (try (simp only; exact pySlice_length_le _ _ _))
  all_goals simp

/-- the info block: all three loops together, on ANY bytes -/
theorem parseBasicSteps_bound (b : Bytes) :
    4 * (parseBasicSteps b).total ≤ 3 * b.length + 8 ∧
    (parseBasicSteps b).extrasBytes ≤ b.length ∧ (parseBasicSteps b).nameBytes ≤ 255 ∧
    (parseBasicSteps b).nameBytes ≤ b.length := by
  unfold parseBasicSteps
  by_cases h0 : b.length = 0
  · simp [h0, BasicSteps.total]
  simp only [h0, if_false]
  cases hp : basicPrefix b with
  | none => simp [BasicSteps.total]
  | some ns =>
    dsimp only
    have b1 := readNSteps_bound .s32 ((ns - 0x14) / 4).toNat b 20
    simp only [FK.size] at b1
    cases hvs : readN .s32 ((ns - 0x14) / 4).toNat b 20 with
    | error e => simp only [BasicSteps.total]; omega
    | ok vs =>
      obtain ⟨_, c1, e1⟩ := readN_ok .s32 _ b 20 vs hvs
      simp only [FK.size] at c1
      dsimp only
      cases hn : getS .be 2 b (20 + 4 * ((ns - 0x14) / 4).toNat) with
      | error e => simp only [BasicSteps.total]; omega
      | ok nstruct =>
        dsimp only
        by_cases hpos : nstruct > 0
        · simp only [hpos, if_true]
          have b2 := readNSteps_bound .s32 (nstruct.toNat + 1) b (20 + 4 * ((ns - 0x14) / 4).toNat + 2)
          simp only [FK.size] at b2
          cases hoffs : readN .s32 (nstruct.toNat + 1) b (20 + 4 * ((ns - 0x14) / 4).toNat + 2) with
          | error e => simp only [BasicSteps.total]; omega
          | ok offs =>
            obtain ⟨l2, c2, e2⟩ := readN_ok .s32 _ b _ offs hoffs
            simp only [FK.size] at c2
            have hx := collectExtras_bytes b offs (20 + 4 * ((ns - 0x14) / 4).toNat + 2 + 4 * (nstruct.toNat + 1))
            have hn1 := nameBytes_le (collectExtras b offs (20 + 4 * ((ns - 0x14) / 4).toNat + 2 + 4 * (nstruct.toNat + 1)))
            have hn2 := nameBytes_le_extras (collectExtras b offs (20 + 4 * ((ns - 0x14) / 4).toNat + 2 + 4 * (nstruct.toNat + 1)))
            simp only [BasicSteps.total, collectSteps_eq, l2, e1, e2]
            omega
        · simp only [hpos, if_false, BasicSteps.total]; omega

theorem castSteps_bound (d : Bytes) :
    4 * (castSteps d).total ≤ 3 * d.length + 8 ∧
    (castSteps d).extrasBytes ≤ d.length ∧ (castSteps d).nameBytes ≤ 255 ∧ (castSteps d).nameBytes ≤ d.length := by
  unfold castSteps
  split
  · simp [BasicSteps.total]
  · next w _ =>
    split
    · simp [BasicSteps.total]
    · next st hst =>
      have hb := parseBasicSteps_bound st.basic
      have hl : st.basic.length ≤ d.length := by
        by_cases hw : w / 256 ≠ 0
        · rw [if_pos hw] at hst; exact structD4_basic_le d st hst
        · rw [if_neg hw] at hst; exact structD5_basic_le d st hst
      omega

end Drx.Cast
