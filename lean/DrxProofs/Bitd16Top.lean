/-
  C06, 16 bits per pixel, end to end (zero offsets, operations confined to a byte plane).
-/
import DrxProofs.Bitd16
namespace Drx.Bitd
open Drx Drx.Bitd.Spec

theorem slice_flatten_uniform (s : Nat) (L : List Bytes) (y a b : Nat) (hl : ∀ r ∈ L, r.length = s) (hy : y < L.length)
    (hab : a ≤ b) (hb : b ≤ s) : slice L.flatten (y * s + a) (y * s + b) = slice L[y] a b := by
  unfold slice
  have hd := drop_flatten_uniform s L y hl hy
  have hr : L[y].length = s := hl _ (List.getElem_mem hy)
  rw [← List.drop_drop, hd, List.drop_append]
  have e1 : a - L[y].length = 0 := by omega
  have e2 : y * s + b - (y * s + a) = b - a := by omega
  rw [e1, e2, List.drop_zero, List.take_append_of_le_length (by simp [List.length_drop]; omega)]

theorem flatMap_range' {β : Type} (f : Bytes → List β) (g : Nat → List β) :
    ∀ (L : List Bytes) (k : Nat), (∀ i (h : i < L.length), g (k + i) = f L[i]) → (List.range' k L.length).flatMap g = L.flatMap f := by
  intro L
  induction L with
  | nil => intro k _; rfl
  | cons a L ih =>
    intro k h
    simp only [List.length_cons, List.range'_succ, List.flatMap_cons]
    have h0 := h 0 (by simp)
    simp only [Nat.add_zero, List.getElem_cons_zero] at h0
    rw [h0, ih (k + 1) (fun i hi => by have := h (i + 1) (by simp; omega); simpa [Nat.add_assoc, Nat.add_comm 1] using this)]

/-- one BMP row of a planar 16-bit line of `w` pixels placed at column `ox` of a row of `stride` bytes -/
def bmpRow16 (stride ox w : Nat) (line : Bytes) : Bytes :=
  zeros (2 * ox) ++ interleave2 (line.drop w) (line.take w) ++ zeros (stride - 2 * ox - 2 * w)

/-- the de-interleave loop on a buffer of planar lines -/
theorem deint16_lines (w cw ch ox : Nat) (hw : 0 < w) (L : List Bytes) (hl : ∀ r ∈ L, r.length = 2 * w) :
    deint16 L.flatten w L.length cw ch ox
      = L.flatMap (bmpRow16 (2 * cw + (2 * cw) % 4) ox w) ++ zeros ((2 * cw + (2 * cw) % 4) * (ch - L.length)) := by
  unfold deint16
  have hw0 : ¬ (w = 0) := by omega
  simp only [hw0, if_false]
  congr 1
  rw [List.range_eq_range']
  apply flatMap_range'
  intro i hi
  simp only [Nat.zero_add]
  rw [slice_flatten_uniform (2 * w) L i w (2 * w) hl hi (by omega) (by omega)]
  have e0 : slice L.flatten (i * (2 * w)) (i * (2 * w) + w) = slice L.flatten (i * (2 * w) + 0) (i * (2 * w) + w) := rfl
  rw [e0, slice_flatten_uniform (2 * w) L i 0 w hl hi (by omega) (by omega)]
  have hr : L[i].length = 2 * w := hl _ (List.getElem_mem hi)
  have s1 : slice L[i] w (2 * w) = L[i].drop w := by
    unfold slice; rw [List.take_of_length_le (by simp [List.length_drop]; omega)]
  have s2 : slice L[i] 0 w = L[i].take w := by unfold slice; simp
  rw [s1, s2]
  rfl

theorem interleave2_pairs (r : List (UInt8 × UInt8)) :
    interleave2 (r.map (·.2)) (r.map (·.1)) = r.flatMap fun p => [p.2, p.1] := by
  induction r with
  | nil => rfl
  | cons p r ih => simp [interleave2, ih]

theorem flatMap_pairs_length (a : List (UInt8 × UInt8)) : (a.flatMap fun p => [p.2, p.1]).length = 2 * a.length := by
  induction a with
  | nil => rfl
  | cons p a ih => rw [List.flatMap_cons, List.length_append, ih]; simp; omega

theorem pixelsOf_two (r : List (UInt8 × UInt8)) (rest : Bytes) :
    pixelsOf 2 r.length ((r.flatMap fun p => [p.2, p.1]) ++ rest) = r.map fun p => [p.2, p.1] := by
  induction r with
  | nil => rfl
  | cons p r ih => simp [pixelsOf, ih]

/-- the 27 trailing words of the 124-byte header -/
def tail124 : Bytes := v5tail.flatMap (encOrd .le 4)

theorem packTail124 : packAll packU32 v5tail = .ok (tail124 ++ []) := by decide +kernel

def info124 (wd ht : Int) (bpp : Nat) : Bytes :=
  encS .le 4 124 ++ (encS .le 4 wd ++ (encS .le 4 ht ++ [])) ++ (encS .le 2 1 ++ (encS .le 2 (bpp : Int) ++ [])) ++ (tail124 ++ [])

theorem c124 : I32 124 := by unfold I32; omega

theorem info124_p1 (wd ht : Int) (hW : I32 wd) (hH : I32 ht) :
   packAll packI32 [124, wd, ht] = .ok (encS .le 4 124 ++ (encS .le 4 wd ++ (encS .le 4 ht ++ []))) :=
  packAll_cons _ _ _ _ _ (packI32_ok _ c124) (packAll_cons _ _ _ _ _ (packI32_ok _ hW) (packAll_cons _ _ _ _ _ (packI32_ok _ hH) (packAll_nil _)))

theorem writeInfoHeader124_ok (wd ht : Int) (bpp : Nat) (hW : I32 wd) (hH : I32 ht) (hb : bpp < 32768) (b : Buf) :
    writeInfoHeader124 wd ht bpp b = (b ++ info124 wd ht bpp, .ok ()) := by
  unfold writeInfoHeader124
  rw [info124_p1 _ _ hW hH, info40_p2 _ hb, packTail124]
  rfl

theorem tail124_length : tail124.length = 108 := by decide +kernel

theorem info124_length (wd ht : Int) (bpp : Nat) : (info124 wd ht bpp).length = 124 := by
  simp [info124, tail124_length]

/-- the fields a reader uses, for any info header that starts with size, width, height, planes, bit count -/
theorem hdrGen_fields (size hs : Int) (off W H bpp : Nat) (rest : Bytes)
    (hoff : off < 2147483648) (hW : W < 2147483648) (hH : H < 2147483648) (hb : bpp < 32768) :
    let hdr := fileHdr size (off : Int) ++ (encS .le 4 hs ++ (encS .le 4 (W : Int) ++ (encS .le 4 (H : Int) ++ (encS .le 2 1 ++ (encS .le 2 (bpp : Int) ++ rest)))))
    slice hdr 0 2 = [0x42, 0x4D] ∧ leField hdr 10 4 = some off ∧ leField hdr 18 4 = some W ∧ leField hdr 22 4 = some H ∧
    leField hdr 26 2 = some 1 ∧ leField hdr 28 2 = some bpp := by
  intro hdr
  have e4 : ∀ n : Nat, n < 2147483648 → leNat (encS .le 4 (n : Int)) = n := fun n h => leNat_encS_nat 4 n (by omega)
  have e2 : ∀ n : Nat, n < 32768 → leNat (encS .le 2 (n : Int)) = n := fun n h => leNat_encS_nat 2 n (by omega)
  refine ⟨?_, ?_, ?_, ?_, ?_, ?_⟩
  · show slice (fileHdr size (off : Int) ++ _) 0 2 = _
    unfold fileHdr; simp [slice]
  · have : hdr = ([0x42, 0x4D] ++ (encS .le 4 size ++ encS .le 2 0 ++ encS .le 2 0)) ++ (encS .le 4 (off : Int) ++
        (encS .le 4 hs ++ (encS .le 4 (W : Int) ++ (encS .le 4 (H : Int) ++ (encS .le 2 1 ++ (encS .le 2 (bpp : Int) ++ rest)))))) := by
      show fileHdr size (off : Int) ++ _ = _
      unfold fileHdr; simp [List.append_assoc]
    rw [this, leField_drop _ _ 10 4 (by simp), leField_head _ _ 4 (by simp), e4 off hoff]
  · have : hdr = (fileHdr size (off : Int) ++ encS .le 4 hs) ++ (encS .le 4 (W : Int) ++ (encS .le 4 (H : Int) ++ (encS .le 2 1 ++ (encS .le 2 (bpp : Int) ++ rest)))) := by
      show fileHdr size (off : Int) ++ _ = _
      simp [List.append_assoc]
    rw [this, leField_drop _ _ 18 4 (by simp [fileHdr_length]), leField_head _ _ 4 (by simp), e4 W hW]
  · have : hdr = (fileHdr size (off : Int) ++ (encS .le 4 hs ++ encS .le 4 (W : Int))) ++ (encS .le 4 (H : Int) ++ (encS .le 2 1 ++ (encS .le 2 (bpp : Int) ++ rest))) := by
      show fileHdr size (off : Int) ++ _ = _
      simp [List.append_assoc]
    rw [this, leField_drop _ _ 22 4 (by simp [fileHdr_length]), leField_head _ _ 4 (by simp), e4 H hH]
  · have : hdr = (fileHdr size (off : Int) ++ (encS .le 4 hs ++ (encS .le 4 (W : Int) ++ encS .le 4 (H : Int)))) ++ (encS .le 2 ((1 : Nat) : Int) ++ (encS .le 2 (bpp : Int) ++ rest)) := by
      show fileHdr size (off : Int) ++ _ = _
      simp [List.append_assoc]
    rw [this, leField_drop _ _ 26 2 (by simp [fileHdr_length]), leField_head _ _ 2 (by simp), e2 1 (by omega)]
  · have : hdr = (fileHdr size (off : Int) ++ (encS .le 4 hs ++ (encS .le 4 (W : Int) ++ (encS .le 4 (H : Int) ++ encS .le 2 1)))) ++ (encS .le 2 (bpp : Int) ++ rest) := by
      show fileHdr size (off : Int) ++ _ = _
      simp [List.append_assoc]
    rw [this, leField_drop _ _ 28 2 (by simp [fileHdr_length]), leField_head _ _ 2 (by simp), e2 bpp hb]

/-- the 138 bytes in front of the pixel area of a 16-bit image -/
def hdr16 (W H : Nat) : Bytes :=
  fileHdr ((W * H * 2 + 124 + 14 : Nat) : Int) ((124 + 14 : Nat) : Int) ++ info124 W H 16

theorem hdr16_length (W H : Nat) : (hdr16 W H).length = 138 := by
  unfold hdr16
  simp only [List.length_append, fileHdr_length, info124_length]

theorem hdr16_shape (W H : Nat) : hdr16 W H = fileHdr ((W * H * 2 + 124 + 14 : Nat) : Int) ((124 + 14 : Nat) : Int) ++
    (encS .le 4 124 ++ (encS .le 4 (W : Int) ++ (encS .le 4 (H : Int) ++ (encS .le 2 1 ++ (encS .le 2 ((16 : Nat) : Int) ++ (tail124 ++ [])))))) := by
  unfold hdr16 info124
  simp [List.append_assoc]

theorem decode16_eval (c : Call) (oy : Nat) (hoy : c.padH = (oy : Int))
    (hW : c.width < 2147483648) (hH : c.height < 2147483648) (hsize : c.width * c.height * 2 + 138 < 2147483648) (bmp : Bytes) (b : Buf)
    (hbmp : (if (c.fdata.length : Int) = (((c.width : Int) - c.padW) * 2) * ((c.height : Int) - oy)
      then (.error .notImpl : R Bytes) else compressed16 c.fdata c.width c.height c.padW oy) = .ok bmp) :
    decode16 true c b = ([], .ok (hdr16 c.width c.height ++ bmp)) := by
  unfold decode16
  rw [hoy, fixPad_nat]
  dsimp only
  rw [bind_ok _ _ _ _ _ (writeBmpHeader_ok _ _ (i32_nat _ (by omega)) (i32_nat _ (by omega)) b)]
  rw [bind_ok _ _ _ _ _ (writeInfoHeader124_ok _ _ 16 (i32_nat _ hW) (i32_nat _ hH) (by omega) _)]
  rw [hbmp]
  unfold hdr16
  rfl

theorem bind_err {α β : Type} (x : W α) (f : α → W β) (b b' : Buf) (e : Err) (h : x b = (b', .error e)) :
    (x >>= f) b = (b', .error e) := by
  show W.bind x f b = _
  unfold W.bind
  rw [h]

/-- `Decoder16b.decode` when the raw-size test fires -/
theorem decode16_raw (c : Call) (oy : Nat) (hoy : c.padH = (oy : Int))
    (hW : c.width < 2147483648) (hH : c.height < 2147483648) (hsize : c.width * c.height * 2 + 138 < 2147483648) (b : Buf)
    (htest : (c.fdata.length : Int) = (((c.width : Int) - c.padW) * 2) * ((c.height : Int) - oy)) :
    (decode16 true c b).2 = .error .notImpl := by
  unfold decode16
  rw [hoy, fixPad_nat]
  dsimp only
  rw [bind_ok _ _ _ _ _ (writeBmpHeader_ok _ _ (i32_nat _ (by omega)) (i32_nat _ (by omega)) b)]
  rw [bind_ok _ _ _ _ _ (writeInfoHeader124_ok _ _ 16 (i32_nat _ hW) (i32_nat _ hH) (by omega) _)]
  rw [if_pos htest]
  rfl

theorem decodeClass_16 : decodeClass "Decoder16b" = decode16 := by
  funext r c
  unfold decodeClass
  have h1 : ¬ ("Decoder16b" = "Decoder1b") := by decide
  have h2 : ¬ ("Decoder16b" = "Decoder4b") := by decide
  have h3 : ¬ ("Decoder16b" = "Decoder8b") := by decide
  rw [if_neg h1, if_neg h2, if_neg h3, if_pos rfl]

theorem lookup_16 : lookupN 16 Gen.BitdTables.decoders = some "Decoder16b" := by decide

theorem decode16_eta (c : Call) (pal : String) : decode16 true { c with palette := pal } (DecState.init c.depth)
    = decode16 true { c with palette := pal } [] := rfl

theorem bitd2bmp_16 (c : Call) (hd : c.depth = 16) : bitd2bmp c = (decode16 true { c with palette := paletteName c } []).2 := by
  have hl : lookupN c.depth Gen.BitdTables.decoders = some "Decoder16b" := by rw [hd]; exact lookup_16
  unfold bitd2bmp
  rw [decodeStep_snd true _ c _ hl, decodeClass_16]
  exact congrArg Prod.snd (decode16_eta c (paletteName c))

/-! ### reading rows of `k`-byte pixels -/

theorem pixelsOf_append (k : Nat) : ∀ (a b : Nat) (X Y : Bytes), X.length = k * a →
    pixelsOf k (a + b) (X ++ Y) = pixelsOf k a X ++ pixelsOf k b Y := by
  intro a
  induction a with
  | zero =>
    intro b X Y h
    have : X = [] := List.eq_nil_of_length_eq_zero (by simpa using h)
    subst this
    simp [pixelsOf]
  | succ a ih =>
    intro b X Y h
    have e : a + 1 + b = (a + b) + 1 := by omega
    rw [e]
    simp only [pixelsOf]
    have hk : k ≤ X.length := by rw [h, Nat.mul_succ]; omega
    have e1 : (X ++ Y).take k = X.take k := by rw [List.take_append_of_le_length hk]
    have e2 : (X ++ Y).drop k = X.drop k ++ Y := by rw [List.drop_append_of_le_length hk]
    rw [e1, e2, ih b (X.drop k) Y (by rw [List.length_drop, h, Nat.mul_succ]; omega)]
    rfl

theorem pixelsOf_zeros (k : Nat) : ∀ (n : Nat) (rest : Bytes), pixelsOf k n (zeros (k * n) ++ rest) = List.replicate n (zeros k) := by
  intro n
  induction n with
  | zero => intro rest; rfl
  | succ n ih =>
    intro rest
    have e : zeros (k * (n + 1)) = zeros k ++ zeros (k * n) := by rw [← zeros_add]; congr 1; rw [Nat.mul_succ]; omega
    rw [e, List.append_assoc]
    simp only [pixelsOf]
    have e1 : (zeros k ++ (zeros (k * n) ++ rest)).take k = zeros k := by
      rw [List.take_append_of_le_length (by simp), List.take_of_length_le (by simp)]
    have e2 : (zeros k ++ (zeros (k * n) ++ rest)).drop k = zeros (k * n) ++ rest := by
      rw [List.drop_append_of_le_length (by simp), List.drop_of_length_le (by simp), List.nil_append]
    rw [e1, e2, ih rest, List.replicate_succ]

/-- the file rows of a canvas of `k`-byte pixels: image rows (bottom-up) then `oy` empty rows -/
def fileRowsK (stride oy : Nat) (imgRows : List Bytes) : List Bytes := imgRows ++ List.replicate oy (zeros stride)

theorem read_fileRowsK {α : Type} (k stride W ox oy : Nat) (hox : ox ≤ W) (hst : k * W ≤ stride) (pix : List α)
    (row : α → Bytes) (px : α → List Bytes)
    (hrow : ∀ a ∈ pix, ∃ body, body.length = k * (W - ox) ∧ pixelsOf k (W - ox) (body ++ zeros (stride - k * ox - k * (W - ox))) = px a ∧
              row a = zeros (k * ox) ++ body ++ zeros (stride - k * ox - k * (W - ox))) :
    (fileRowsK stride oy (pix.reverse.map row)).reverse.map (fun r => pixelsOf k W r)
      = List.replicate oy (List.replicate W (zeros k)) ++ pix.map (fun a => List.replicate ox (zeros k) ++ px a) := by
  unfold fileRowsK
  rw [List.reverse_append, List.map_append, List.reverse_replicate, List.map_replicate]
  congr 1
  · congr 1
    have : zeros stride = zeros (k * W) ++ zeros (stride - k * W) := by rw [← zeros_add]; congr 1; omega
    rw [this, pixelsOf_zeros]
  · rw [← List.map_reverse, List.reverse_reverse, List.map_map]
    apply List.map_congr_left
    intro a ha
    obtain ⟨body, hlen, hpx, hr⟩ := hrow a ha
    simp only [Function.comp]
    rw [hr, List.append_assoc]
    have e : pixelsOf k W (zeros (k * ox) ++ (body ++ zeros (stride - k * ox - k * (W - ox))))
        = pixelsOf k (ox + (W - ox)) (zeros (k * ox) ++ (body ++ zeros (stride - k * ox - k * (W - ox)))) := by
      congr 1; omega
    rw [e, pixelsOf_append k ox (W - ox) (zeros (k * ox)) _ (by simp)]
    have := pixelsOf_zeros k ox []
    rw [List.append_nil] at this
    rw [this, hpx]

theorem fileRowsK_flatten (stride oy : Nat) (imgRows : List Bytes) :
    (fileRowsK stride oy imgRows).flatten = imgRows.flatten ++ zeros (stride * oy) := by
  unfold fileRowsK
  rw [List.flatten_append, flatten_replicate_zeros, Nat.mul_comm]

/-! ### 16 bit -/

/-- the planar scan lines of a 16-bit image -/
def lines16 (rows : List (List (UInt8 × UInt8))) : List Bytes := rows.map fun r => r.map (·.1) ++ r.map (·.2)

theorem stride16_ge (W : Nat) : 2 * W ≤ 2 * W + (2 * W) % 4 := by omega

theorem compressed16_spec (W H ox oy : Nat) (hox : ox < W) (hoy : oy < H) (opsRows : List (List Op)) (rows : List Bytes)
    (hv : validRows opsRows rows = true) (hn : rows.length = H - oy) (hl : ∀ r ∈ rows, r.length = 2 * (W - ox)) :
    compressed16 (packed opsRows.flatten) W H ox oy
      = .ok ((fileRowsK (2 * W + (2 * W) % 4) oy (rows.reverse.map (bmpRow16 (2 * W + (2 * W) % 4) ox (W - ox)))).flatten) := by
  unfold compressed16
  simp only
  have hz : zeros (2 * (W - ox) * (H - oy)) = zeros ((H - oy - 1 + 1) * (2 * (W - ox))) ++ [] := by
    rw [List.append_nil]; congr 1
    have : H - oy - 1 + 1 = H - oy := by omega
    rw [this]; exact Nat.mul_comm _ _
  have hstart : RowStart (2 * (W - ox)) 0 (((H - oy : Nat) : Int) - 1) (H - oy - 1) := Or.inl ⟨rfl, by omega⟩
  have := loop16_rows (2 * (W - ox)) (by omega) opsRows rows (H - oy - 1) [] 0 (((H - oy : Nat) : Int) - 1) hstart hv (by omega) hl
  rw [hz, this]
  simp only [List.append_nil]
  have hL : ∀ r ∈ rows.reverse, r.length = 2 * (W - ox) := fun r h => hl r (by simpa using h)
  have hd := deint16_lines (W - ox) W H ox (by omega) rows.reverse hL
  rw [List.length_reverse, hn] at hd
  have e : H - (H - oy) = oy := by omega
  rw [hd, fileRowsK_flatten, List.flatMap_def, e]

theorem bmpRow16_line (stride ox : Nat) (r : List (UInt8 × UInt8)) :
    bmpRow16 stride ox r.length (r.map (·.1) ++ r.map (·.2))
      = zeros (2 * ox) ++ (r.flatMap fun p => [p.2, p.1]) ++ zeros (stride - 2 * ox - 2 * r.length) := by
  unfold bmpRow16
  have e1 : (r.map (·.1) ++ r.map (·.2)).drop r.length = r.map (·.2) := by
    rw [List.drop_append]; simp
  have e2 : (r.map (·.1) ++ r.map (·.2)).take r.length = r.map (·.1) := by
    rw [List.take_append]; simp [List.take_of_length_le]
  rw [e1, e2, interleave2_pairs]

theorem wf16 (W H ox oy : Nat) (rows : List (List (UInt8 × UInt8))) (h : (Img.mk W H ox oy (.d16 rows)).wf = true) :
    ox ≤ W ∧ oy ≤ H ∧ rows.length = H - oy ∧ ∀ r ∈ rows, r.length = W - ox := by
  simp only [Img.wf, Pixels.shapeOk, Img.w, Img.h, Bool.and_eq_true, decide_eq_true_eq, beq_iff_eq, List.all_eq_true] at h
  exact ⟨h.1.1, h.1.2, h.2.1, h.2.2⟩

/-- the explicit BMP of a 16-bit image -/
def bmp16 (W H ox oy : Nat) (rows : List (List (UInt8 × UInt8))) : Bytes :=
  hdr16 W H ++ (fileRowsK (2 * W + (2 * W) % 4) oy ((lines16 rows).reverse.map (bmpRow16 (2 * W + (2 * W) % 4) ox (W - ox)))).flatten

/-- ... reads back as the canvas, for every geometry -/
theorem read_bmp16 (W H ox oy : Nat) (hox : ox ≤ W) (hoy : oy ≤ H) (hW : W < 2147483648) (hH : H < 2147483648)
    (rows : List (List (UInt8 × UInt8))) (hrows : rows.length = H - oy) (hpix : ∀ r ∈ rows, r.length = W - ox) :
    readBmp (bmp16 W H ox oy rows) = some (canvas ⟨W, H, ox, oy, .d16 rows⟩) := by
  unfold bmp16
  have hf := hdrGen_fields ((W * H * 2 + 124 + 14 : Nat) : Int) 124 (124 + 14) W H 16 (tail124 ++ []) (by omega) hW hH (by omega)
  simp only at hf
  rw [← hdr16_shape] at hf
  have hlen : (hdr16 W H).length = 124 + 14 := hdr16_length W H
  have hrowlen : ∀ r ∈ fileRowsK (2 * W + (2 * W) % 4) oy ((lines16 rows).reverse.map (bmpRow16 (2 * W + (2 * W) % 4) ox (W - ox))),
      r.length = (W * 16 + 31) / 32 * 4 := by
    intro r hr
    simp only [fileRowsK, lines16, List.mem_append, List.mem_map, List.mem_reverse, List.mem_replicate] at hr
    rcases hr with ⟨l, ⟨a, ha, rfl⟩, rfl⟩ | ⟨_, rfl⟩
    · have := hpix a ha
      rw [← this, bmpRow16_line]
      simp only [List.length_append, zeros_length, flatMap_pairs_length]
      omega
    · simp; omega
  have hcount : (fileRowsK (2 * W + (2 * W) % 4) oy ((lines16 rows).reverse.map (bmpRow16 (2 * W + (2 * W) % 4) ox (W - ox)))).length = H := by
    simp [fileRowsK, lines16, hrows]; omega
  have := readBmp_rows (hdr16 W H) W H 16 _ [] (by rw [hlen]; omega) hf.1 (by rw [hlen]; exact hf.2.1) hf.2.2.1 hf.2.2.2.1
    hf.2.2.2.2.1 hf.2.2.2.2.2 hW hH (Or.inr (Or.inl rfl)) hcount hrowlen
  rw [List.append_nil] at this
  rw [this]
  have e16 : (16 : Nat) / 8 = 2 := rfl
  rw [e16]
  unfold lines16
  rw [← List.map_reverse, List.map_map]
  rw [read_fileRowsK 2 (2 * W + (2 * W) % 4) W ox oy hox (by omega) rows _ (fun r => r.map fun p => [p.2, p.1])]
  · unfold canvas canvasRows
    simp only [Pixels.bytesPerPixel, List.map_map]
    rfl
  · intro a ha
    have hal := hpix a ha
    refine ⟨a.flatMap fun p => [p.2, p.1], by rw [flatMap_pairs_length, hal], ?_, ?_⟩
    · rw [← hal]; exact pixelsOf_two a _
    · simp only [Function.comp]
      rw [← hal, bmpRow16_line]

/-- 16 bit, PackBits storage: every geometry, every valid scan-line segmentation -/
theorem bitd2bmp_16_packed (W H ox oy : Nat) (rows : List (List (UInt8 × UInt8))) (p1 p2 : UInt8) (opsRows : List (List Op))
    (hwf : (Img.mk W H ox oy (.d16 rows)).wf = true) (hfit : fitsHeader (Img.mk W H ox oy (.d16 rows)) = true)
    (hv : validEnc ⟨W, H, ox, oy, .d16 rows⟩ p1 p2 (.packed opsRows) = true)
    (hne : (serialise ⟨W, H, ox, oy, .d16 rows⟩ p1 p2 (.packed opsRows)).length ≠ (serialise ⟨W, H, ox, oy, .d16 rows⟩ p1 p2 .raw).length) :
    bitd2bmp (callOf ⟨W, H, ox, oy, .d16 rows⟩ (serialise ⟨W, H, ox, oy, .d16 rows⟩ p1 p2 (.packed opsRows))) = .ok (bmp16 W H ox oy rows) := by
  obtain ⟨hox, hoy, hrows, hpix⟩ := wf16 W H ox oy rows hwf
  simp only [fitsHeader, decide_eq_true_eq] at hfit
  obtain ⟨hW, hH, hWH⟩ := fits_bounds W H hfit
  have hv' : validRows opsRows (lines16 rows) = true := hv
  have hraw : ∀ r ∈ lines16 rows, r.length = 2 * (W - ox) := by
    intro r hr
    simp only [lines16, List.mem_map] at hr
    obtain ⟨a, ha, rfl⟩ := hr
    simp [hpix a ha]; omega
  have hlen : (lines16 rows).flatten.length = 2 * (W - ox) * (H - oy) := by
    rw [length_flatten_uniform _ _ hraw]; simp [lines16, hrows]
  have hne' : (packed opsRows.flatten).length ≠ 2 * (W - ox) * (H - oy) := by
    rw [← hlen]; exact hne
  have hpos : ox < W ∧ oy < H := by
    refine ⟨Nat.lt_of_not_le ?_, Nat.lt_of_not_le ?_⟩
    · intro hle
      have h0 : W - ox = 0 := by omega
      apply hne'
      have : packed opsRows.flatten = [] := validRows_all_empty opsRows _ hv' (by
        intro r hr
        have := hraw r hr
        rw [h0] at this
        exact List.eq_nil_of_length_eq_zero this)
      rw [this, h0]; simp
    · intro hle
      have h0 : H - oy = 0 := by omega
      apply hne'
      have : rows = [] := List.eq_nil_of_length_eq_zero (by omega)
      subst this
      have : packed opsRows.flatten = [] := validRows_all_empty opsRows _ hv' (by simp [lines16])
      rw [this, h0]; simp
  rw [bitd2bmp_16 _ rfl]
  have hspec := compressed16_spec W H ox oy hpos.1 hpos.2 opsRows (lines16 rows) hv' (by simp [lines16, hrows]) hraw
  rw [decode16_eval { callOf ⟨W, H, ox, oy, .d16 rows⟩ (serialise ⟨W, H, ox, oy, .d16 rows⟩ p1 p2 (.packed opsRows)) with
      palette := paletteName (callOf ⟨W, H, ox, oy, .d16 rows⟩ (serialise ⟨W, H, ox, oy, .d16 rows⟩ p1 p2 (.packed opsRows))) } oy rfl hW hH
    (by show W * H * 2 + 138 < 2147483648; omega) _ []
    (by
      show (if (((packed opsRows.flatten).length : Nat) : Int) = (((W : Int) - (ox : Int)) * 2) * ((H : Int) - (oy : Int))
        then (.error .notImpl : R Bytes) else compressed16 (packed opsRows.flatten) W H ox oy) = _
      have : ¬ ((((packed opsRows.flatten).length : Nat) : Int) = (((W : Int) - (ox : Int)) * 2) * ((H : Int) - (oy : Int))) := by
        intro h
        apply hne'
        have e : (((W : Int) - (ox : Int)) * 2) * ((H : Int) - (oy : Int)) = ((2 * (W - ox) * (H - oy) : Nat) : Int) := by
          have ewi : ((W : Int) - (ox : Int)) = ((W - ox : Nat) : Int) := by omega
          have ehi : ((H : Int) - (oy : Int)) = ((H - oy : Nat) : Int) := by omega
          rw [ewi, ehi, Int.natCast_mul, Int.natCast_mul, Int.mul_comm ((W - ox : Nat) : Int) 2]; rfl
        rw [e] at h
        exact Int.ofNat_inj.mp h
      rw [if_neg this]
      exact hspec)]
  rfl

/-- raw 16-bit storage is rejected (NotImplementedError), never decoded into a wrong picture -/
theorem bitd2bmp_16_raw_rejected (W H ox oy : Nat) (rows : List (List (UInt8 × UInt8))) (p1 p2 : UInt8)
    (hwf : (Img.mk W H ox oy (.d16 rows)).wf = true) (hfit : fitsHeader (Img.mk W H ox oy (.d16 rows)) = true) :
    bitd2bmp (callOf ⟨W, H, ox, oy, .d16 rows⟩ (serialise ⟨W, H, ox, oy, .d16 rows⟩ p1 p2 .raw)) = .error .notImpl := by
  obtain ⟨hox, hoy, hrows, hpix⟩ := wf16 W H ox oy rows hwf
  simp only [fitsHeader, decide_eq_true_eq] at hfit
  obtain ⟨hW, hH, hWH⟩ := fits_bounds W H hfit
  have hraw : ∀ r ∈ lines16 rows, r.length = 2 * (W - ox) := by
    intro r hr
    simp only [lines16, List.mem_map] at hr
    obtain ⟨a, ha, rfl⟩ := hr
    simp [hpix a ha]; omega
  have hlen : (lines16 rows).flatten.length = 2 * (W - ox) * (H - oy) := by
    rw [length_flatten_uniform _ _ hraw]; simp [lines16, hrows]
  rw [bitd2bmp_16 _ rfl]
  exact decode16_raw { callOf ⟨W, H, ox, oy, .d16 rows⟩ (serialise ⟨W, H, ox, oy, .d16 rows⟩ p1 p2 .raw) with
      palette := paletteName (callOf ⟨W, H, ox, oy, .d16 rows⟩ (serialise ⟨W, H, ox, oy, .d16 rows⟩ p1 p2 .raw)) } oy rfl hW hH
    (by show W * H * 2 + 138 < 2147483648; omega) []
    (by
      show (((lines16 rows).flatten.length : Nat) : Int) = (((W : Int) - (ox : Int)) * 2) * ((H : Int) - (oy : Int))
      have ewi : ((W : Int) - (ox : Int)) = ((W - ox : Nat) : Int) := by omega
      have ehi : ((H : Int) - (oy : Int)) = ((H - oy : Nat) : Int) := by omega
      rw [hlen, ewi, ehi, Int.natCast_mul, Int.natCast_mul, Int.mul_comm ((W - ox : Nat) : Int) 2]; rfl)

end Drx.Bitd
