/-
  Generic readers over generated field lists, in the shape the hand-written models have (a chain of binds), so that
  "hand-written reader = generic reader over the GENERATED layout" is (nearly) definitional.
  `readK` is `Layout.readLayout` in continuation-passing form (`readK_eq`); `readKB` additionally reads width-1 unsigned
  fields the way `int(buf[i])` does (IndexError instead of struct.error).
-/
import Drx.Py
import Drx.Layout
namespace Drx.Layout
open Drx

def readK (o : Order) (d : Bytes) (base : Nat) : List Field → (List Int → R α) → R α
  | [], k => k []
  | f :: fs, k => (readField o d base f).bind fun v => readK o d base fs fun vs => k (v :: vs)

theorem readK_eq (o : Order) (d : Bytes) (base : Nat) (fs : List Field) (k : List Int → R α) :
    readK o d base fs k = (readLayout o d base fs).bind k := by
  induction fs generalizing k with
  | nil => rfl
  | cons f fs ih =>
    simp only [readK, readLayout, ih]
    cases readField o d base f with
    | error e => rfl
    | ok v =>
      simp only [Except.bind]
      cases readLayout o d base fs with
      | error e => rfl
      | ok vs => rfl

/-- `int(buf[i])` for width-1 unsigned fields, `struct.unpack` for everything else -/
def readFieldB (o : Order) (d : Bytes) (base : Nat) (f : Field) : R Int :=
  if f.width = 1 ∧ f.signed = false then (byteAt d (base + f.off)).bind fun b => .ok (b.toNat : Int)
  else readField o d base f

def readKB (o : Order) (d : Bytes) (base : Nat) : List Field → (List Int → R α) → R α
  | [], k => k []
  | f :: fs, k => (readFieldB o d base f).bind fun v => readKB o d base fs fun vs => k (v :: vs)

end Drx.Layout

namespace Drx.Layout
open Drx

theorem readKB_byte (o : Order) (d : Bytes) (base : Nat) (nm : String) (off : Nat) (fs : List Field) (k : List Int → R α) :
    readKB o d base (⟨nm, off, 1, false⟩ :: fs) k
      = (byteAt d (base + off)).bind fun b => readKB o d base fs fun vs => k ((b.toNat : Int) :: vs) := by
  simp only [readKB, readFieldB, and_self, ↓reduceIte]
  cases byteAt d (base + off) <;> rfl

theorem readKB_signed (o : Order) (d : Bytes) (base : Nat) (nm : String) (off w : Nat) (fs : List Field) (k : List Int → R α) :
    readKB o d base (⟨nm, off, w, true⟩ :: fs) k
      = (getS o w d (base + off)).bind fun v => readKB o d base fs fun vs => k (v :: vs) := by
  simp [readKB, readFieldB, readField]

theorem readKB_nil (o : Order) (d : Bytes) (base : Nat) (k : List Int → R α) : readKB o d base [] k = k [] := rfl

end Drx.Layout
