/-
  C03 link, byte level (part 6): the final tree `tgtL` of an embedded structured program is the image `EmbTs` of the SOURCE
  statements in the model's AST: if-then nodes with the condition and both branches, `repeat while` nodes, `repeat with` nodes
  (`type = for`) carrying start value, bound (in the condition), variable name, sign and loop variable, `repeat with … in` nodes
  (`type = for_in`, the list as start value) — nested as in the source.
-/
import DrxProofs.LinkFlow2Class
namespace Drx.LinkFlow
open Drx Drx.Lscr Drx.Spec Drx.Link

mutual
/-- the image of a structured source statement in the model's AST (positions free), extending agent-link's `EmbS` -/
def EmbT : Stmt → Node → Prop
  | .ifThen c t e, n => ∃ p q cn ifs els, n = .stmt p (.ifThen q cn ifs els) ∧ Emb c cn ∧ EmbTs t ifs ∧ EmbTs e els
  | .repeatWhile c b, n => ∃ p rp re cn body,
      n = .stmt p (.repeat_ rp re cn body (S "while") .none (.s []) [] .none) ∧ Emb c cn ∧ EmbTs b body
  | .repeatWith (.var .loc v) a b down body, n => ∃ p rp re cp pv1 pv2 ra rb body',
      n = .stmt p (.repeat_ rp re (.binary (cmpName down) cp (.leaf .localVar (.s v) pv1) rb) body' (S "for") ra (.s v)
        (if down then S "-" else S "+") (.leaf .localVar (.s v) pv2)) ∧ Emb a ra ∧ Emb b rb ∧ EmbTs body body'
  | .repeatIn (.var .loc v) l body, n => ∃ p rp re pb pk pc pl pv ln body',
      n = .stmt p (.repeat_ rp re (.binary (S "lte") pb (.leaf .const (.s (S "1")) pk)
          (.callFn (.s (S "count")) pc (.loadList (S "<load_list>") pl [ln]) true false false .none))
        body' (S "for_in") ln (.s v) [] (.leaf .localVar (.s v) pv)) ∧ Emb l ln ∧ EmbTs body body'
  | s, n => EmbS s n
def EmbTs : List Stmt → List Node → Prop
  | [], ns => ns = []
  | s :: ss, ns => ∃ x xs, ns = x :: xs ∧ EmbT s x ∧ EmbTs ss xs
end

theorem embS_pos (s : Stmt) (p p' : Int) (c : Node) (h : EmbS s (.stmt p c)) : EmbS s (.stmt p' c) := by
  cases s with
  | set lv v =>
    simp only [EmbS] at h ⊢
    obtain ⟨p0, q, l, r, he, h1, h2⟩ := h
    cases he
    exact ⟨p', q, l, r, rfl, h1, h2⟩
  | call f as =>
    simp only [EmbS] at h ⊢
    obtain ⟨p0, q, q', wr, ops, he, h1⟩ := h
    cases he
    exact ⟨p', q, q', wr, ops, rfl, h1⟩
  | exit =>
    simp only [EmbS] at h ⊢
    obtain ⟨p0, q, he⟩ := h
    cases he
    exact ⟨p', q, rfl⟩
  | put m v lv =>
    simp only [EmbS] at h ⊢
    obtain ⟨p0, q, l, r, he, h1, h2⟩ := h
    cases he
    exact ⟨p', q, l, r, rfl, h1, h2⟩
  | delete t =>
    simp only [EmbS] at h ⊢
    obtain ⟨p0, q, l, he, h1⟩ := h
    cases he
    exact ⟨p', q, l, rfl, h1⟩
  | hilite t =>
    simp only [EmbS] at h ⊢
    obtain ⟨p0, q, l, he, h1⟩ := h
    cases he
    exact ⟨p', q, l, rfl, h1⟩
  | mcall o m as =>
    simp only [EmbS] at h ⊢
    obtain ⟨p0, q, q', ps, rc, ops, nm, hnm, he, h1⟩ := h
    cases he
    exact ⟨p', q, q', ps, rc, ops, nm, hnm, rfl, h1⟩
  | _ => simp [EmbS] at h

/-- the components `withParts` extracts from the three header pieces of an embedded `repeat with` -/
theorem withParts_emb (v : Spec.Name) (down : Bool) (p1 p2 p3 p4 p5 pv1 pv2 pv3 pv4 : Int) (ra rb : Node) :
    withParts (.binary (cmpName down) p1 (.leaf .localVar (.s v) pv1) rb)
      (.binary (S "assign") p2 (.leaf .localVar (.s v) pv2) ra)
      (.binary (S "assign") p3 (.leaf .localVar (.s v) pv3)
        (.binary (S "add") p4 (.leaf .const (.s (stepStr down)) p5) (.leaf .localVar (.s v) pv4))) =
      some (.leaf .localVar (.s v) pv2, ra, .s v, if down then S "-" else S "+") := by
  cases down <;> simp [withParts, Node.name, cmpName, stepStr] <;> decide

mutual
theorem embT_tgtL1 : (s : Stmt) → (x : Src) → EmbSrc1 s x → ∀ (o : Int), ∃ n, tgtL1 o x = [n] ∧ EmbT s n
  | .ifThen c t e, x, h, o => by
    obtain ⟨csz, cn, t', e', rfl, hc, ht, he⟩ := h
    exact ⟨_, rfl, _, _, _, _, _, rfl, hc, embT_tgtL t t' ht _, embT_tgtL e e' he _⟩
  | .repeatWhile c b, x, h, o => by
    obtain ⟨csz, cn, b', rfl, hc, hb⟩ := h
    exact ⟨_, rfl, _, _, _, _, _, rfl, hc, embT_tgtL b b' hb _⟩
  | .repeatWith (.var .loc v) a b down body, x, h, o => by
    obtain ⟨pre, incr, csz, body', p1, p2, p3, p4, p5, pv1, pv2, pv3, pv4, ra, rb, rfl, ho1, ho2, hc1, hc2, ha, hb, hbody⟩ := h
    have hparts := withParts_emb v down p1 p2 p3 p4 p5 pv1 pv2 pv3 pv4 ra rb
    rw [← hc1, ← hc2] at hparts
    simp only [tgtL1, hparts]
    exact ⟨_, rfl, _, _, _, _, _, _, _, _, _, rfl, ha, hb, embT_tgtL body body' hbody _⟩
  | .set lv v, x, h, o => by
    obtain ⟨sm, p, rfl, _, he, _⟩ := h
    exact ⟨_, rfl, embS_pos _ p _ _ he⟩
  | .call f as, x, h, o => by
    obtain ⟨sm, p, rfl, _, he, _⟩ := h
    exact ⟨_, rfl, embS_pos _ p _ _ he⟩
  | .exit, x, h, o => by
    obtain ⟨sm, p, rfl, _, he, _⟩ := h
    exact ⟨_, rfl, embS_pos _ p _ _ he⟩
  | .put m v lv, x, h, o => by
    obtain ⟨sm, p, rfl, _, he, _⟩ := h
    exact ⟨_, rfl, embS_pos _ p _ _ he⟩
  | .delete t, x, h, o => by
    obtain ⟨sm, p, rfl, _, he, _⟩ := h
    exact ⟨_, rfl, embS_pos _ p _ _ he⟩
  | .hilite t, x, h, o => by
    obtain ⟨sm, p, rfl, _, he, _⟩ := h
    exact ⟨_, rfl, embS_pos _ p _ _ he⟩
  | .mcall o m as, x, h, _ => by
    obtain ⟨sm, p, rfl, _, he, _⟩ := h
    exact ⟨_, rfl, embS_pos _ p _ _ he⟩
  | .tell .., x, h, _ => by obtain ⟨sm, p, rfl, ho, he, hp⟩ := h; exact absurd he (by simp [EmbS])
  | .repeatIn (.var .loc v) l body, x, h, o => by
    obtain ⟨presz, bp, incrsz, postsz, csz, body', pb, pk, pc, pl, ps, pg, pl2, pv, ln, rfl, ho, hc, hl, hb⟩ := h
    have hparts := inParts_emb l ln hl v pb pk pc pl ps pg pl2 pv
    rw [← hc] at hparts
    simp only [tgtL1, hparts]
    exact ⟨_, rfl, _, _, _, _, _, _, _, _, _, _, rfl, hl, embT_tgtL body body' hb _⟩
  | .repeatIn (.int _) .., x, h, _ => by obtain ⟨sm, p, rfl, ho, he, hp⟩ := h; exact absurd he (by simp [EmbS])
  | .exitRepeat, x, h, _ => by obtain ⟨sm, p, rfl, ho, he, hp⟩ := h; exact absurd he (by simp [EmbS])
  | .repeatWith (.int _) .., x, h, _ => by obtain ⟨sm, p, rfl, ho, he, hp⟩ := h; exact absurd he (by simp [EmbS])
theorem embT_tgtL : (ss : List Stmt) → (xs : List Src) → EmbSrc ss xs → ∀ (o : Int), EmbTs ss (tgtL o xs)
  | [], xs, h, o => by
    have : xs = [] := h
    subst this
    simp [tgtL, EmbTs]
  | s :: ss, xs, h, o => by
    obtain ⟨y, ys, rfl, h1, h2⟩ := h
    obtain ⟨n, hn, hT⟩ := embT_tgtL1 s y h1 o
    rw [tgtL_cons, hn]
    exact ⟨n, _, rfl, hT, embT_tgtL ss ys h2 _⟩
end

end Drx.LinkFlow
