/-
  C07: the hand-written readers of lean/Drx/Snd.lean ARE the generic fixed-layout reader (Drx/Layout.lean) over the field
  lists regenerated from format.py / bufferCmd.py on every run (Drx/Gen/SndLayouts.lean): a changed offset, width or
  signedness in the Python source breaks one of these kernel-checked equalities.
-/
import Drx.Snd
import Drx.Layout
import Drx.Gen.SndLayouts
import DrxProofs.Snd
namespace Drx.Snd
open Drx Drx.Layout

/-- case split on one read: the error branch closes by computation, the ok branch continues -/
macro "rd " t:term : tactic => `(tactic| (cases $t:term; rfl; try simp only []))

theorem parseSndFmt_eq_layout (d : Bytes) :
    parseSndFmt d =
      (match readLayout .be d 0 Gen.SndLayouts.fmtWord with
       | .error e => .error e
       | .ok [ft] => if ft = 1 then parseSndFmt1 d else if ft = 2 then parseSndFmt2 d else .error .value
       | .ok _ => .error .other) := by
  unfold parseSndFmt
  simp only [Gen.SndLayouts.fmtWord, readLayout, readField, if_true, bind, Except.bind, Nat.zero_add]
  rd (getS .be 2 d 0)

theorem parseSndCommands_eq_layout (d : Bytes) (idx : Nat) :
    parseSndCommands d idx =
      (match readLayout .be d idx Gen.SndLayouts.commandsCount with
       | .error e => .error e
       | .ok [n] => parseCmds d n.toNat (idx + Gen.SndLayouts.commandsLoopStart)
       | .ok _ => .error .other) := by
  unfold parseSndCommands
  simp only [Gen.SndLayouts.commandsCount, Gen.SndLayouts.commandsLoopStart, readLayout, readField, if_true, bind, Except.bind, Nat.add_zero]
  rd (getS .be 2 d idx)

theorem parseCmds_eq_layout (d : Bytes) (n idx : Nat) :
    parseCmds d (n + 1) idx =
      (match readLayout .be d idx Gen.SndLayouts.commandRecord with
       | .error e => .error e
       | .ok [c, p1, p2] =>
         (match parseCmds d n (idx + Gen.SndLayouts.commandRecordSize) with
          | .error e => .error e
          | .ok rest => .ok (⟨if c < 0 then (0xFFFF + c) + 1 else c, p1, p2⟩ :: rest))
       | .ok _ => .error .other) := by
  rw [parseCmds]
  simp only [Gen.SndLayouts.commandRecord, Gen.SndLayouts.commandRecordSize, readLayout, readField, if_true, bind, Except.bind, Nat.add_zero]
  rd (getS .be 2 d idx)
  rd (getS .be 2 d (idx + 2))
  rd (getS .be 4 d (idx + 4))
  rd (parseCmds d n (idx + 8))

theorem parseDataTypes_eq_layout (d : Bytes) (n idx : Nat) :
    parseDataTypes d (n + 1) idx =
      (match readLayout .be d idx Gen.SndLayouts.dataTypeRecord with
       | .error e => .error e
       | .ok [t, o] =>
         (match parseDataTypes d n (idx + Gen.SndLayouts.dataTypeRecordSize) with
          | .error e => .error e
          | .ok (rest, e) => .ok (⟨t, o⟩ :: rest, e))
       | .ok _ => .error .other) := by
  rw [parseDataTypes]
  simp only [Gen.SndLayouts.dataTypeRecord, Gen.SndLayouts.dataTypeRecordSize, readLayout, readField, if_true, bind, Except.bind, Nat.add_zero]
  rd (getS .be 2 d idx)
  rd (getS .be 4 d (idx + 2))
  rd (parseDataTypes d n (idx + 6))

theorem parseSndFmt1_eq_layout (d : Bytes) :
    parseSndFmt1 d =
      (match readLayout .be d 0 Gen.SndLayouts.fmt1Prefix with
       | .error e => .error e
       | .ok [n] =>
         (match parseDataTypes d n.toNat Gen.SndLayouts.fmt1LoopStart with
          | .error e => .error e
          | .ok (dts, idx) =>
            match parseSndCommands d idx with
            | .error e => .error e
            | .ok cmds => .ok ⟨1, dts, -1, cmds⟩)
       | .ok _ => .error .other) := by
  unfold parseSndFmt1
  simp only [Gen.SndLayouts.fmt1Prefix, Gen.SndLayouts.fmt1LoopStart, readLayout, readField, if_true, bind, Except.bind, Nat.zero_add]
  rd (getS .be 2 d 2)
  rd (parseDataTypes d _ 4)
  rd (parseSndCommands d _)

theorem parseSndFmt2_eq_layout (d : Bytes) :
    parseSndFmt2 d =
      (match readLayout .be d 0 Gen.SndLayouts.fmt2Prefix with
       | .error e => .error e
       | .ok [rc] =>
         (match parseSndCommands d Gen.SndLayouts.fmt2CommandsAt with
          | .error e => .error e
          | .ok cmds => .ok ⟨2, [], rc, cmds⟩)
       | .ok _ => .error .other) := by
  unfold parseSndFmt2
  simp only [Gen.SndLayouts.fmt2Prefix, Gen.SndLayouts.fmt2CommandsAt, readLayout, readField, if_true, bind, Except.bind, Nat.zero_add]
  rd (getS .be 2 d 2)
  rd (parseSndCommands d 4)

/-- `_get_frames`' header part written over the generated layouts (common 22 bytes, extended tail, sizes) -/
def soundHeaderL (s : St) (n : Nat) (d : Bytes) : R (St × Int × Int) :=
  match readLayout .be d n Gen.SndLayouts.soundHeaderCommon with
  | .error e => .error e
  | .ok [samplePtr, tbd, rateInt, _, _, _] =>
    (match pyIndex d ((n : Int) + 20) with
     | .error e => .error e
     | .ok encode =>
       match pyIndex d ((n : Int) + 21) with
       | .error e => .error e
       | .ok baseFrequency =>
         if samplePtr ≠ 0 then .error .value else
         if baseFrequency.toNat ≠ Gen.SndCommands.MIDDLE_C then .error .value else
         if encode.toNat = Gen.SndCommands.STANDARD then
           (if s.channels = 0 then .error .other else .ok (⟨s.channels, s.bits, rateInt⟩, (n : Int) + Gen.SndLayouts.standardSize, tbd))
         else if encode.toNat = Gen.SndCommands.EXTENDED then
           (match readLayout .be d n Gen.SndLayouts.extendedTail with
            | .error e => .error e
            | .ok [numFrames, _, _, _, bps, _, _, _, _] => .ok (⟨tbd, bps, rateInt⟩, (n : Int) + Gen.SndLayouts.extendedSize, numFrames * tbd)
            | .ok _ => .error .other)
         else .error .value)
  | .ok _ => .error .other

theorem soundHeader_eq_layout (s : St) (n : Nat) (d : Bytes) : soundHeader s (n : Int) d = soundHeaderL s n d := by
  have c4 : ((n : Int) + 4) = ((n + 4 : Nat) : Int) := by omega
  have c8 : ((n : Int) + 8) = ((n + 8 : Nat) : Int) := by omega
  have c10 : ((n : Int) + 10) = ((n + 10 : Nat) : Int) := by omega
  have c12 : ((n : Int) + 12) = ((n + 12 : Nat) : Int) := by omega
  have c16 : ((n : Int) + 16) = ((n + 16 : Nat) : Int) := by omega
  have c22 : ((n : Int) + 22) = ((n + 22 : Nat) : Int) := by omega
  have c36 : ((n : Int) + 36) = ((n + 36 : Nat) : Int) := by omega
  have c40 : ((n : Int) + 40) = ((n + 40 : Nat) : Int) := by omega
  have c44 : ((n : Int) + 44) = ((n + 44 : Nat) : Int) := by omega
  have c48 : ((n : Int) + 48) = ((n + 48 : Nat) : Int) := by omega
  have c50 : ((n : Int) + 50) = ((n + 50 : Nat) : Int) := by omega
  have c52 : ((n : Int) + 52) = ((n + 52 : Nat) : Int) := by omega
  have c56 : ((n : Int) + 56) = ((n + 56 : Nat) : Int) := by omega
  have c60 : ((n : Int) + 60) = ((n + 60 : Nat) : Int) := by omega
  have g0 := getSI_nat 4 d n
  have g4 := getSI_nat 4 d (n + 4)
  have g8 := getUI_nat 2 d (n + 8)
  have g10 := getSI_nat 2 d (n + 10)
  have g12 := getSI_nat 4 d (n + 12)
  have g16 := getSI_nat 4 d (n + 16)
  have g22 := getSI_nat 4 d (n + 22)
  have g36 := getSI_nat 4 d (n + 36)
  have g40 := getSI_nat 4 d (n + 40)
  have g44 := getSI_nat 4 d (n + 44)
  have g48 := getSI_nat 2 d (n + 48)
  have g50 := getSI_nat 2 d (n + 50)
  have g52 := getSI_nat 4 d (n + 52)
  have g56 := getSI_nat 4 d (n + 56)
  have g60 := getSI_nat 4 d (n + 60)
  rw [← c4] at g4; rw [← c8] at g8; rw [← c10] at g10; rw [← c12] at g12; rw [← c16] at g16; rw [← c22] at g22
  rw [← c36] at g36; rw [← c40] at g40; rw [← c44] at g44; rw [← c48] at g48; rw [← c50] at g50; rw [← c52] at g52
  rw [← c56] at g56; rw [← c60] at g60
  unfold soundHeader soundHeaderL
  simp only [g0, g4, g8, g10, g12, g16, g22, g36, g40, g44, g48, g50, g52, g56, g60,
    Gen.SndLayouts.soundHeaderCommon, Gen.SndLayouts.extendedTail, Gen.SndLayouts.standardSize, Gen.SndLayouts.extendedSize,
    readLayout, readField, if_true, Bool.false_eq_true, if_false, bind, Except.bind, Nat.add_zero]
  rd (getS .be 4 d n)
  rd (getS .be 4 d (n + 4))
  rd (getU .be 2 d (n + 8))
  rd (getS .be 2 d (n + 10))
  rd (getS .be 4 d (n + 12))
  rd (getS .be 4 d (n + 16))
  rd (pyIndex d ((n : Int) + 20))
  rd (pyIndex d ((n : Int) + 21))
  split
  · rfl
  · split
    · rfl
    · split
      · rfl
      · split
        · rd (getS .be 4 d (n + 22))
          rd (getS .be 4 d (n + 36))
          rd (getS .be 4 d (n + 40))
          rd (getS .be 4 d (n + 44))
          rd (getS .be 2 d (n + 48))
          rd (getS .be 2 d (n + 50))
          rd (getS .be 4 d (n + 52))
          rd (getS .be 4 d (n + 56))
          rd (getS .be 4 d (n + 60))
          rfl
        · rfl

end Drx.Snd
