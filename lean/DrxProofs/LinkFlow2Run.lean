/-
  C03 link, byte level (part 3): **the structured stack lemma**.  Running the laid-out code of a structured statement list of the
  fragment `FragTs` through the model's opcode step (`Link.runIs`) appends exactly the raw statement list `emit false a (lower src)`
  of a source skeleton `src` that carries the nodes of agent-link's stack lemma (L2) / statement lemma (L3); the back jumps go
  through the model's `jumpBack`.
-/
import DrxProofs.LinkFlow2Frag
import DrxProofs.LinkFlow2Exec
import DrxProofs.SpecWithLike
namespace Drx.LinkFlow
open Drx Drx.Lscr Drx.Spec Drx.Link

/-- L3 with the POSITION of the appended statement (inside the fragment's address range) -/
def StmtPos : Prop :=
  ∀ (s : Stmt), FragS s = true → ∀ (c : Spec.Ctx), c.inTell = false → ∀ (s0 s1 : St) (cs : List CStmt),
    lowerStmt c s s0 = .ok (cs, s1) →
    Ext s0 s1 ∧ ∃ code, cs = [.code code] ∧ (∀ i ∈ code, i.opc ≠ 153) ∧
    ∀ (sF : St) (ctx : Lscr.Ctx), Ext s1 sF → Rel c sF ctx → ∀ (G : List Spec.Name), (∀ g ∈ s.vars .glob, g ∈ G) →
      (∀ v ∈ s.vars .prop, ctx.props.contains v = true) →
      ∀ (a : Nat) (st : PState), st.bpc = 6 → GvOk G st.gvars →
        ∃ (p : Int) (cd : Node) (gv' : List Node), (a : Int) ≤ p ∧ p < ((a + codeSize code : Nat) : Int) ∧
          EmbS s (.stmt p cd) ∧ PlainStmt (.stmt p cd) ∧ GvNext G st.gvars gv' ∧
          runIs ctx a code st = .ok { st with stmts := st.stmts ++ [.stmt p cd], gvars := gv' }

/-- … which is what agent-link's `stmt_lemma` (with `StmtIn`) provides -/
theorem stmtPos : StmtPos := by
  intro s hf c hT s0 s1 cs h
  obtain ⟨hext, code, rfl, hop, hrun⟩ := stmt_lemma s hf c hT s0 s1 cs h
  refine ⟨hext, code, rfl, hop, ?_⟩
  intro sF ctx hF hrel G hG hP a st hb hgv
  obtain ⟨n, gv', hemb, hplain, ⟨p, cd, rfl, hp1, hp2⟩, hgv', hr⟩ := hrun sF ctx hF hrel G hG hP a st hb hgv
  exact ⟨p, cd, gv', hp1, hp2, EmbSH.toEmbS _ _ _ hemb, hplain, hgv', hr⟩

theorem plain_simpleCode {p : Int} {c : Node} (h : PlainStmt (.stmt p c)) : simpleCode c = true := by
  cases h <;> rfl

theorem layoutStmts_single (te : Option Nat) (x : CStmt) :
    layoutStmts te [x] = layoutStmt (te.map (· + CStmt.sizes [])) x := by
  simp [layoutStmts]

theorem Src.size_eq (x : Src) : x.size = P.sizes (lower1 x) := rfl

theorem lower_cons' (x : Src) (xs : List Src) : lower (x :: xs) = lower1 x ++ lower xs := by simp only [lower]

theorem emit_append (ld : Bool) (o : Int) (a b : List P) : emit ld o (a ++ b) = emit ld o a ++ emit ld (o + P.sizes a) b := by
  induction a generalizing o with
  | nil => simp [emit, P.sizes]
  | cons x a ih =>
    have e : o + (x.size : Int) + (P.sizes a : Int) = o + ((x.size + P.sizes a : Nat) : Int) := by push_cast; omega
    simp only [List.cons_append, emit, P.sizes, ih, List.append_assoc, e]

/-- what one statement / statement list contributes -/
def RunsAs (G : List Spec.Name) (ctx : Lscr.Ctx) (code : List Instr) (a : Nat) (st : PState) (ps : List P) : Prop :=
  ∃ gv', GvNext G st.gvars gv' ∧ runIs ctx a code st = .ok { st with stmts := st.stmts ++ emit false (a : Int) ps, gvars := gv' }

theorem fragT_simple {s : Stmt} (h : FragT s = true) (h1 : ∀ c t e, s ≠ .ifThen c t e) (h2 : ∀ c b, s ≠ .repeatWhile c b)
    (h3 : ∀ v a b d body, s ≠ .repeatWith v a b d body) (h4 : ∀ v l body, s ≠ .repeatIn v l body) : FragS s = true := by
  cases s with
  | set lv v => simp only [FragT, Bool.and_eq_true] at h; exact h.1
  | call f as => simpa [FragT] using h
  | exit => rfl
  | put m v lv => simpa [FragT] using h
  | delete t => simpa [FragT] using h
  | hilite t => simpa [FragT] using h
  | mcall o m as => simpa [FragT] using h
  | ifThen c t e => exact absurd rfl (h1 c t e)
  | repeatWhile c b => exact absurd rfl (h2 c b)
  | repeatWith v a b d body => exact absurd rfl (h3 v a b d body)
  | repeatIn v l body => exact absurd rfl (h4 v l body)
  | _ => simp [FragT] at h

theorem embSrc1_simple {s : Stmt} (h1 : ∀ c t e, s ≠ .ifThen c t e) (h2 : ∀ c b, s ≠ .repeatWhile c b)
    (h3 : ∀ v a b d body, s ≠ .repeatWith v a b d body) (h4 : ∀ v l body, s ≠ .repeatIn v l body) (x : Src) :
    EmbSrc1 s x ↔ ∃ (sm : Smp) (p : Int), x = .simple sm ∧ sm.off < sm.sz ∧ EmbS s (.stmt p sm.code) ∧ PlainStmt (.stmt p sm.code) := by
  cases s with
  | ifThen c t e => exact absurd rfl (h1 c t e)
  | repeatWhile c b => exact absurd rfl (h2 c b)
  | repeatWith v a b d body => exact absurd rfl (h3 v a b d body)
  | repeatIn v l body => exact absurd rfl (h4 v l body)
  | _ => simp only [EmbSrc1]

/-- the simple-statement case, from L3 with positions -/
theorem struct_simple (hpos : StmtPos) (s : Stmt) (hf : FragS s = true) (hshape : ∀ x, EmbSrc1 s x ↔
      ∃ (sm : Smp) (p : Int), x = .simple sm ∧ sm.off < sm.sz ∧ EmbS s (.stmt p sm.code) ∧ PlainStmt (.stmt p sm.code))
    (c : Spec.Ctx) (hT : c.inTell = false) (s0 s1 : St) (cs : List CStmt) (h : lowerStmt c s s0 = .ok (cs, s1)) :
    Ext s0 s1 ∧ cs ≠ [] ∧ (∀ te, ∀ i ∈ layoutStmts te cs, i.opc ≠ 153) ∧
    ∀ (sF : St) (ctx : Lscr.Ctx), Ext s1 sF → Rel c sF ctx → ∀ (G : List Spec.Name), (∀ g ∈ s.vars .glob, g ∈ G) →
      (∀ v ∈ s.vars .prop, ctx.props.contains v = true) →
      ∀ (te : Option Nat) (a : Nat) (st : PState), st.bpc = 6 → GvOk G st.gvars → AllS (fun p _ => p < (a : Int)) st.stmts →
        ∃ x, EmbSrc1 s x ∧ x.size = CStmt.sizes cs ∧ RunsAs G ctx (layoutStmts te cs) a st (lower1 x) := by
  obtain ⟨hext, code, rfl, hop, hrun⟩ := hpos s hf c hT s0 s1 cs h
  refine ⟨hext, by simp, ?_, ?_⟩
  · intro te i hi
    simp only [layoutStmts, layoutStmt, List.append_nil] at hi
    exact hop i hi
  intro sF ctx hF hrel G hG hP te a st hb hgv _
  obtain ⟨p, cd, gv', hp1, hp2, hemb, hplain, hgv', hr⟩ := hrun sF ctx hF hrel G hG hP a st hb hgv
  have hoff : ((p - (a : Int)).toNat : Int) = p - a := by omega
  refine ⟨.simple ⟨codeSize code, (p - (a : Int)).toNat, cd⟩, (hshape _).2 ⟨_, p, rfl, by simp only; omega, hemb, hplain⟩, ?_, gv', hgv', ?_⟩
  · simp [Src.size, lower1, P.sizes, P.size, CStmt.sizes, CStmt.size]
  · simp only [layoutStmts, layoutStmt, List.append_nil, lower1, emit, emit1, hoff]
    rw [hr]
    have e : (a : Int) + (p - (a : Int)) = p := by omega
    rw [e]

/-! ### the skeleton of an embedded program is well-formed -/

theorem wfs_append' (a b : List P) : P.wfs (a ++ b) = (P.wfs a && P.wfs b) := wfs_append a b

mutual
theorem embSrc1_wf : (s : Stmt) → (x : Src) → EmbSrc1 s x → P.wfs (lower1 x) = true ∧ P.nsts (lower1 x) ≠ 0
  | .ifThen c t e, x, h => by
    obtain ⟨csz, cn, t', e', rfl, _, ht, he⟩ := h
    have h1 := embSrc_wf t t' ht
    have h2 := embSrc_wf e e' he
    refine ⟨?_, nsts_lower1_pos _⟩
    simp only [lower1, P.wfs, Bool.and_true]
    refine wf_if.2 ⟨h1.1, h2.1, ?_⟩
    by_cases hh : e' = []
    · exact Or.inl ((lower_eq_nil e').2 hh)
    · exact Or.inr (nsts_lower_pos e' hh)
  | .repeatWhile c b, x, h => by
    obtain ⟨csz, cn, b', rfl, _, hb⟩ := h
    have h1 := embSrc_wf b b' hb
    exact ⟨by simp [lower1, P.wfs, P.wf, h1.1], nsts_lower1_pos _⟩
  | .repeatWith (.var .loc v) a b down body, x, h => by
    obtain ⟨pre, incr, csz, body', p1, p2, p3, p4, p5, pv1, pv2, pv3, pv4, ra, rb, rfl, ho1, ho2, hc1, hc2, _, _, hb⟩ := h
    have h1 := embSrc_wf body body' hb
    refine ⟨?_, nsts_lower1_pos _⟩
    simp [lower1, P.wfs, P.wf, h1.1, wfs_append, ho1, ho2, hc1, hc2, simpleCode, Node.cls]
  | .set lv v, x, h => by
    obtain ⟨sm, p, rfl, ho, _, hp⟩ := h
    exact ⟨by simp [lower1, P.wfs, P.wf, ho, plain_simpleCode hp], nsts_lower1_pos _⟩
  | .call f as, x, h => by
    obtain ⟨sm, p, rfl, ho, _, hp⟩ := h
    exact ⟨by simp [lower1, P.wfs, P.wf, ho, plain_simpleCode hp], nsts_lower1_pos _⟩
  | .exit, x, h => by
    obtain ⟨sm, p, rfl, ho, _, hp⟩ := h
    exact ⟨by simp [lower1, P.wfs, P.wf, ho, plain_simpleCode hp], nsts_lower1_pos _⟩
  | .put .., x, h => by
    obtain ⟨sm, p, rfl, ho, _, hp⟩ := h
    exact ⟨by simp [lower1, P.wfs, P.wf, ho, plain_simpleCode hp], nsts_lower1_pos _⟩
  | .delete .., x, h => by
    obtain ⟨sm, p, rfl, ho, _, hp⟩ := h
    exact ⟨by simp [lower1, P.wfs, P.wf, ho, plain_simpleCode hp], nsts_lower1_pos _⟩
  | .hilite .., x, h => by
    obtain ⟨sm, p, rfl, ho, _, hp⟩ := h
    exact ⟨by simp [lower1, P.wfs, P.wf, ho, plain_simpleCode hp], nsts_lower1_pos _⟩
  | .mcall .., x, h => by
    obtain ⟨sm, p, rfl, ho, _, hp⟩ := h
    exact ⟨by simp [lower1, P.wfs, P.wf, ho, plain_simpleCode hp], nsts_lower1_pos _⟩
  | .tell .., x, h => by obtain ⟨sm, p, rfl, ho, he, hp⟩ := h; exact absurd he (by simp [EmbS])
  | .repeatIn (.var .loc v) l body, x, h => by
    obtain ⟨presz, bp, incrsz, postsz, csz, body', pb, pk, pc, pl, ps, pg, pl2, pv, ln, rfl, ho, hc, _, hb⟩ := h
    have h1 := embSrc_wf body body' hb
    refine ⟨?_, nsts_lower1_pos _⟩
    simp [lower1, P.wfs, P.wf, h1.1, wfs_append, ho, hc, simpleCode, Node.cls]
  | .repeatIn (.int _) .., x, h => by obtain ⟨sm, p, rfl, ho, he, hp⟩ := h; exact absurd he (by simp [EmbS])
  | .exitRepeat, x, h => by obtain ⟨sm, p, rfl, ho, he, hp⟩ := h; exact absurd he (by simp [EmbS])
  | .repeatWith (.int _) .., x, h => by obtain ⟨sm, p, rfl, ho, he, hp⟩ := h; exact absurd he (by simp [EmbS])
theorem embSrc_wf : (ss : List Stmt) → (xs : List Src) → EmbSrc ss xs → P.wfs (lower xs) = true ∧ xs.length = ss.length
  | [], xs, h => by
    have : xs = [] := h
    subst this
    exact ⟨by simp [lower, P.wfs], rfl⟩
  | s :: ss, xs, h => by
    obtain ⟨y, ys, rfl, h1, h2⟩ := h
    have a1 := embSrc1_wf s y h1
    have a2 := embSrc_wf ss ys h2
    exact ⟨by rw [lower_cons', wfs_append, a1.1, a2.1]; rfl, by simp [a2.2]⟩
end

/-! ### running pieces -/

/-- condition code followed by the conditional jump -/
theorem run_jz (ctx : Lscr.Ctx) (a : Nat) (cc : List Instr) (x : Nat) (st : PState) (n : Node) (gv1 : List Node)
    (h : runIs ctx a cc st = .ok { st with stack := n :: st.stack, gvars := gv1 }) :
    runIs ctx a (cc ++ [.op3 0x95 x]) st =
      .ok { st with gvars := gv1, stmts := st.stmts ++ [jzStmt ((a + codeSize cc : Nat) : Int) n (((a + codeSize cc : Nat) : Int) + (x : Int))] } := by
  rw [runIs_append, h]
  simp only [Except.bind]
  rw [runIs_single, exec_jz ctx x _ _ n st.stack rfl]

theorem run_jump (ctx : Lscr.Ctx) (a : Nat) (x : Nat) (st : PState) :
    runIs ctx a [.op3 0x93 x] st = .ok { st with stmts := st.stmts ++ [jumpStmt (a : Int) ((a : Int) + (x : Int))] } := by
  rw [runIs_single, exec_jump]

theorem runIs_bind_ok {ctx : Lscr.Ctx} {a : Nat} {x y : List Instr} {st st1 : PState} (h : runIs ctx a x st = .ok st1) :
    runIs ctx a (x ++ y) st = runIs ctx (a + codeSize x) y st1 := by
  rw [runIs_append, h]; rfl

theorem jzStmt_congr {p p' a a' : Int} (c : Node) (h1 : p = p') (h2 : a = a') : jzStmt p c a = jzStmt p' c a' := by rw [h1, h2]
theorem jumpStmt_congr {p p' a a' : Int} (h1 : p = p') (h2 : a = a') : jumpStmt p a = jumpStmt p' a' := by rw [h1, h2]
theorem emit_congr {o o' : Int} (ld : Bool) (ps : List P) (h : o = o') : emit ld o ps = emit ld o' ps := by rw [h]
theorem stmts_congr (st : PState) (gv : List Node) {X Y : List Node} (h : X = Y) :
    (Except.ok { st with gvars := gv, stmts := st.stmts ++ X } : R PState) = .ok { st with gvars := gv, stmts := st.stmts ++ Y } := by rw [h]

theorem embSrc_nil {xs : List Src} (h : EmbSrc [] xs) : xs = [] := h

theorem isEmpty_eq_of_length {α β} {l : List α} {m : List β} (h : l.length = m.length) : l.isEmpty = m.isEmpty := by
  cases l <;> cases m <;> simp_all

end Drx.LinkFlow
