/-
  C03 link, byte level (part 2): the structured fragment of source statements and its image as a source skeleton `Src` carrying
  the nodes agent-link's stack lemma produces.
-/
import Drx.Link
import DrxProofs.LinkFlow
import DrxProofs.LinkFlowLayout
namespace Drx.LinkFlow
open Drx Drx.Lscr Drx.Spec Drx.Link

/-- the expressions whose image in the model's AST the control-flow link looks at (conditions of `repeat while`, right-hand sides
    of `set`). Originally a fixed constructor list; since agent-link provides the three shape lemmas for EVERY image of an
    expression (`emb_name`, `emb_const_lit`, `emb_binary_inv` in Drx/Link.lean, no fragment hypothesis) it is all of `FragE`. -/
def FragE0 (e : Expr) : Bool := FragE e
def FragL0 (l : List Expr) : Bool := FragL l

mutual
/-- structured statements over agent-link's expression / simple-statement fragment: if [else], repeat while, repeat with a
    LOCAL loop variable (up and down), repeat with a LOCAL variable in a list -/
def FragT : Stmt → Bool
  | .ifThen c t e => FragE c && FragTs t && FragTs e
  | .repeatWhile c b => FragE c && FragE0 c && FragTs b
  | .repeatWith (.var .loc v) a b _ body => idOk v && FragE a && FragE b && FragTs body
  | .repeatIn (.var .loc v) l body => idOk v && FragE l && FragTs body
  | .set lv v => FragS (.set lv v) && FragE0 v
  | .call f as => FragS (.call f as)
  | .exit => true
  | .put m v lv => FragS (.put m v lv)
  | .delete t => FragS (.delete t)
  | .hilite t => FragS (.hilite t)
  | .mcall o m as => FragS (.mcall o m as)
  | _ => false
def FragTs : List Stmt → Bool
  | [] => true
  | s :: ss => FragT s && FragTs ss
end

/-- sign text / step constant / comparison name of a `repeat with` -/
def stepStr (down : Bool) : Str := if down then S "-1" else S "1"
def cmpName (down : Bool) : Str := if down then S "gte" else S "lte"

mutual
/-- `x` is the source skeleton of `s` with the model's nodes in it -/
def EmbSrc1 : Stmt → Src → Prop
  | .ifThen c t e, x => ∃ csz cn t' e', x = .ifThen csz cn t' e' ∧ Emb c cn ∧ EmbSrc t t' ∧ EmbSrc e e'
  | .repeatWhile c b, x => ∃ csz cn b', x = .loop .while_ csz cn b' ∧ Emb c cn ∧ EmbSrc b b'
  | .repeatWith (.var .loc v) a b down body, x =>
    ∃ (pre incr : Smp) (csz : Nat) (body' : List Src) (p1 p2 p3 p4 p5 pv1 pv2 pv3 pv4 : Int) (ra rb : Node),
      x = .loop (.with_ pre incr) csz (.binary (cmpName down) p1 (.leaf .localVar (.s v) pv1) rb) body' ∧
      pre.off < pre.sz ∧ incr.off < incr.sz ∧
      pre.code = .binary (S "assign") p2 (.leaf .localVar (.s v) pv2) ra ∧
      incr.code = .binary (S "assign") p3 (.leaf .localVar (.s v) pv3)
        (.binary (S "add") p4 (.leaf .const (.s (stepStr down)) p5) (.leaf .localVar (.s v) pv4)) ∧
      Emb a ra ∧ Emb b rb ∧ EmbSrc body body'
  | .repeatIn (.var .loc v) l body, x =>
    ∃ (presz : Nat) (bp : Smp) (incrsz postsz csz : Nat) (body' : List Src) (pb pk pc pl ps pg pl2 pv : Int) (ln : Node),
      x = .loop (.in_ presz bp incrsz postsz) csz
        (.binary (S "lte") pb (.leaf .const (.s (S "1")) pk) (.callFn (.s (S "count")) pc (.loadList (S "<load_list>") pl [ln]) true false false .none)) body' ∧
      bp.off < bp.sz ∧
      bp.code = .binary (S "assign") ps (.leaf .localVar (.s v) pv)
        (.callFn (.s (S "getAt")) pg (.loadList (S "<load_list>") pl2 [.leaf .const (.s (S "1")) pk, ln]) true false false .none) ∧
      Emb l ln ∧ EmbSrc body body'
  | s, x => ∃ (sm : Smp) (p : Int), x = .simple sm ∧ sm.off < sm.sz ∧ EmbS s (.stmt p sm.code) ∧ PlainStmt (.stmt p sm.code)
def EmbSrc : List Stmt → List Src → Prop
  | [], xs => xs = []
  | s :: ss, xs => ∃ y ys, xs = y :: ys ∧ EmbSrc1 s y ∧ EmbSrc ss ys
end

end Drx.LinkFlow
