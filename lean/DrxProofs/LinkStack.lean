/-
  L2 — the stack lemma: running the model's stack machine over the code the scheme emits for an expression `e` pushes a node
  `n` with `Emb e n` (right operand popped first, argument lists stored in pop order), touching nothing else but the handler's
  list of referenced globals.  By induction on `e`, mutually with argument lists.
  L3 — one lemma per statement form.
  Everything is stated on decoded instruction lists (`Link.runIs`); `LinkExec.opcodeLoop_run` carries it to the bytes.
-/
import Drx.Link
import DrxProofs.LinkExec
import DrxProofs.LinkFlow
import DrxProofs.LinkNum
namespace Drx.Link
open Drx Drx.Lscr Drx.Gen Drx.Spec
set_option linter.unusedSimpArgs false
set_option linter.unusedVariables false

/-! ### the lowering monad -/

theorem M_bind_ok {α β} (x : M α) (f : α → M β) (s : St) (r : β × St) :
    (x >>= f) s = .ok r ↔ ∃ a s', x s = .ok (a, s') ∧ f a s' = .ok r := by
  simp only [bind, StateT.bind]
  cases x s with
  | error e => simp [Except.bind]
  | ok v =>
    obtain ⟨a, s'⟩ := v
    simp only [Except.bind]
    constructor
    · intro h; exact ⟨a, s', rfl, h⟩
    · rintro ⟨a', s'', h1, h2⟩
      cases h1; exact h2

theorem M_pure_ok {α} (a : α) (s : St) (r : α × St) : (pure a : M α) s = .ok r ↔ r = (a, s) := by
  simp only [pure, StateT.pure, Except.pure, Except.ok.injEq]
  exact eq_comm

theorem M_fail_ok {α} (msg : String) (s : St) (r : α × St) : (Spec.fail msg : M α) s = .ok r ↔ False := by
  simp [Spec.fail]

/-- constants the link theorems cover: pool integers (which `lowerInt` emits for 32768 ≤ n < 2^31) and non-empty strings of
    plain characters -/
def GoodConst : Spec.Const → Prop
  | .int n => n < 2147483648
  | .str s => plainStrB s = true
  | _ => False

/-- the model's constant (`ConstantValue.name`) for a pool entry -/
def constName : Spec.Const → Lscr.Name
  | .int n => .s (natStr n)
  | .str s => .s (escapeString s)
  | .float _ _ => .s []

/-- the name table and the constant pool only grow, by appending (and only by covered constants) -/
def Ext (s s' : St) : Prop := (∃ x, s'.names = s.names ++ x) ∧ (∃ y, s'.consts = s.consts ++ y ∧ ∀ c ∈ y, GoodConst c)

theorem Ext.refl (s : St) : Ext s s := ⟨⟨[], by simp⟩, ⟨[], by simp, by simp⟩⟩

theorem Ext.trans {a b c : St} (h1 : Ext a b) (h2 : Ext b c) : Ext a c := by
  obtain ⟨⟨x1, hx1⟩, ⟨y1, hy1, hg1⟩⟩ := h1
  obtain ⟨⟨x2, hx2⟩, ⟨y2, hy2, hg2⟩⟩ := h2
  refine ⟨⟨x1 ++ x2, by rw [hx2, hx1, List.append_assoc]⟩, ⟨y1 ++ y2, by rw [hy2, hy1, List.append_assoc], ?_⟩⟩
  intro c hc
  rcases List.mem_append.mp hc with hc | hc
  · exact hg1 c hc
  · exact hg2 c hc

theorem Ext.name {s s' : St} (h : Ext s s') {i : Nat} {n : Spec.Name} (hn : s.names[i]? = some n) : s'.names[i]? = some n := by
  obtain ⟨⟨x, hx⟩, _⟩ := h
  rw [hx]
  have hi : i < s.names.length := by
    rcases Nat.lt_or_ge i s.names.length with hh | hh
    · exact hh
    · rw [List.getElem?_eq_none_iff.mpr hh] at hn; cases hn
  rw [List.getElem?_append_left hi]; exact hn

theorem Ext.const {s s' : St} (h : Ext s s') {i : Nat} {c : Spec.Const} (hn : s.consts[i]? = some c) : s'.consts[i]? = some c := by
  obtain ⟨_, ⟨y, hy, _⟩⟩ := h
  rw [hy]
  have hi : i < s.consts.length := by
    rcases Nat.lt_or_ge i s.consts.length with hh | hh
    · exact hh
    · rw [List.getElem?_eq_none_iff.mpr hh] at hn; cases hn
  rw [List.getElem?_append_left hi]; exact hn

/-- all constants of a pool that started empty are covered ones -/
theorem Ext.good {s s' : St} (h : Ext s s') (h0 : ∀ c ∈ s.consts, GoodConst c) : ∀ c ∈ s'.consts, GoodConst c := by
  obtain ⟨_, ⟨y, hy, hg⟩⟩ := h
  intro c hc
  rw [hy] at hc
  rcases List.mem_append.mp hc with hc | hc
  · exact h0 c hc
  · exact hg c hc

theorem idxOf_get (n : Spec.Name) : ∀ (l : List Spec.Name) (k i : Nat), idxOf n l k = some i → k ≤ i ∧ l[i - k]? = some n
  | [], k, i, h => by simp [idxOf] at h
  | x :: xs, k, i, h => by
    unfold idxOf at h
    split at h
    · rename_i hx
      cases h
      simp [hx]
    · obtain ⟨h1, h2⟩ := idxOf_get n xs (k + 1) i h
      refine ⟨by omega, ?_⟩
      have : i - k = (i - (k + 1)) + 1 := by omega
      rw [this, List.getElem?_cons_succ]; exact h2

theorem idxOf_none (n : Spec.Name) : ∀ (l : List Spec.Name) (k : Nat), idxOf n l k = none → n ∉ l
  | [], _, _ => by simp
  | x :: xs, k, h => by
    unfold idxOf at h
    split at h
    · cases h
    · rename_i hx
      have := idxOf_none n xs (k + 1) h
      simp only [List.mem_cons, not_or]
      exact ⟨fun e => hx e.symm, this⟩

theorem nameIdx_ok (n : Spec.Name) (s s' : St) (i : Nat) (h : nameIdx n s = .ok (i, s')) :
    Ext s s' ∧ s'.names[i]? = some n ∧ i < 256 ∧ s'.consts = s.consts := by
  unfold nameIdx at h
  simp only [M_bind_ok, get, getThe, MonadStateOf.get, StateT.get, pure, Except.pure, Except.ok.injEq, Prod.mk.injEq] at h
  obtain ⟨a, s1, ⟨rfl, rfl⟩, h⟩ := h
  cases hk : idxOf n s.names 0 with
  | some k =>
    rw [hk] at h
    simp only at h
    split at h
    · rename_i hlt
      simp only [StateT.pure, Except.pure, pure, Except.ok.injEq, Prod.mk.injEq] at h
      obtain ⟨rfl, rfl⟩ := h
      have := (idxOf_get n _ 0 _ hk).2
      exact ⟨Ext.refl _, by simpa using this, hlt, rfl⟩
    · simp [Spec.fail] at h
  | none =>
    rw [hk] at h
    simp only at h
    split at h
    · rename_i hlt
      simp only [M_bind_ok, set, StateT.set, pure, Except.pure, StateT.pure, Except.ok.injEq, Prod.mk.injEq] at h
      obtain ⟨_, s2, ⟨_, rfl⟩, rfl, rfl⟩ := h
      exact ⟨⟨⟨[n], rfl⟩, ⟨[], by simp, by simp⟩⟩, by simp, hlt, rfl⟩
    · simp [Spec.fail] at h

theorem addConst_ok (c : Spec.Const) (hc : GoodConst c) (s s' : St) (k : Nat) (h : addConst c s = .ok (k, s')) :
    Ext s s' ∧ s'.consts[k]? = some c := by
  unfold addConst at h
  simp only [M_bind_ok, get, getThe, MonadStateOf.get, StateT.get, set, StateT.set, pure, Except.pure, StateT.pure,
    Except.ok.injEq, Prod.mk.injEq] at h
  obtain ⟨a, s1, ⟨rfl, rfl⟩, _, s2, ⟨_, rfl⟩, rfl, rfl⟩ := h
  exact ⟨⟨⟨[], by simp⟩, ⟨[c], rfl, by simpa using hc⟩⟩, by simp⟩

theorem op2c_ok (b x : Nat) (s s' : St) (code : List Instr) (h : op2c b x s = .ok (code, s')) :
    code = [.op2 b x] ∧ s' = s ∧ x < 256 := by
  unfold op2c at h
  split at h
  · rename_i hx
    simp only [M_pure_ok, Prod.mk.injEq] at h
    exact ⟨h.1, h.2, hx⟩
  · simp [Spec.fail] at h

/-! ### table facts (regenerated opcode table) -/

def _root_.Drx.Spec.Instr.opc : Instr → Nat
  | .op1 b => b
  | .op2 b _ => b
  | .op3 b _ => b

/-- the table registers opcode `b` with the instruction length of its range and a class that reads exactly the operand bytes
    the walker stores -/
def tabOk (b : Nat) : Bool :=
  match Opcodes.opcodes.lookup b with
  | none => true
  | some info =>
    if b < 64 then info.nbytes == 1 && !decide (info.impl ∈ readsP1) && !decide (info.impl ∈ readsP2)
    else if b < 128 then
      info.nbytes == 2 && (info.kind == "bi" || info.kind == "tri" || (decide (info.impl ∈ readsP1) && !decide (info.impl ∈ readsP2)))
    else info.nbytes == 3 && info.kind != "tri" && decide (info.impl ∈ readsP2)

/-- every opcode of the table except 0x99 (`PropertyOpcode`, registered as a 2-byte instruction in the 3-byte range; the
    scheme never emits it) -/
theorem tabOk_all : ∀ b, b < 256 → b ≠ 153 → tabOk b = true := by decide +kernel

theorem good_of_wf (i : Instr) (hw : i.WF) (h : i.opc ≠ 153) : GoodI i := by
  cases i with
  | op1 b =>
    have hb : b < 0x40 := hw
    have ht := tabOk_all b (by omega) h
    refine ⟨by omega, ?_⟩
    intro info hl
    have hb' : b < 64 := hb
    simp only [tabOk, hl, hb', if_true, Bool.and_eq_true, beq_iff_eq, Bool.not_eq_true', decide_eq_false_iff_not] at ht
    exact ⟨ht.1.1, ht.1.2, ht.2⟩
  | op2 b x =>
    obtain ⟨h1, h2, h3⟩ : 0x40 ≤ b ∧ b < 0x80 ∧ x < 256 := hw
    have ht := tabOk_all b (by omega) h
    refine ⟨by omega, h3, ?_⟩
    intro info hl
    have n1 : ¬ b < 64 := by omega
    have n2 : b < 128 := h2
    simp only [tabOk, hl, n1, n2, if_true, if_false, Bool.and_eq_true, Bool.or_eq_true, beq_iff_eq, Bool.not_eq_true',
      decide_eq_false_iff_not, decide_eq_true_eq] at ht
    refine ⟨ht.1, ?_⟩
    rcases ht.2 with (h | h) | h
    · exact Or.inl h
    · exact Or.inr (Or.inl h)
    · exact Or.inr (Or.inr h)
  | op3 b x =>
    obtain ⟨h1, h2, h3⟩ : 0x80 ≤ b ∧ b < 0x100 ∧ x < 65536 := hw
    have ht := tabOk_all b (by omega) h
    refine ⟨by omega, h3, ?_⟩
    intro info hl
    have n1 : ¬ b < 64 := by omega
    have n2 : ¬ b < 128 := by omega
    simp only [tabOk, hl, n1, n2, if_false, Bool.and_eq_true, beq_iff_eq, bne_iff_ne, ne_eq, decide_eq_true_eq] at ht
    exact ⟨ht.1.1, ht.1.2, ht.2⟩

/-- the scheme's opcode of a binary operator is registered as the binary operation with the operator's name -/
theorem binop_table (o : BinOp) : ∃ info, Opcodes.opcodes.lookup o.code = some info ∧ info.impl = "BinaryOperationOpcode" ∧
    attr info "opname" = .ok (binName o) := by
  cases o <;> exact ⟨_, rfl, rfl, rfl⟩

theorem unop_table (o : UnOp) : ∃ info, Opcodes.opcodes.lookup o.code = some info ∧ info.impl = "UnaryOperationOpcode" ∧
    attr info "opname" = .ok (unName o) := by
  cases o <;> exact ⟨_, rfl, rfl, rfl⟩

/-! ### one instruction of each kind -/

theorem exec_bin (ctx : Lscr.Ctx) (o : BinOp) (a : Int) (st : PState) (l r : Node) (rest : List Node)
    (hs : st.stack = r :: l :: rest) :
    execI ctx (.op1 o.code) a st = .ok { st with stack := .binary (binName o) a l r :: rest } := by
  obtain ⟨info, hl, hi, ha⟩ := binop_table o
  simp only [execI, hl]
  unfold process0
  simp only [hi, ha, PState.pop, hs, PState.push, Bind.bind, Except.bind, pure, Except.pure]

theorem exec_un (ctx : Lscr.Ctx) (o : UnOp) (a : Int) (st : PState) (x : Node) (rest : List Node)
    (hs : st.stack = x :: rest) :
    execI ctx (.op1 o.code) a st = .ok { st with stack := .unary (unName o) a x :: rest } := by
  obtain ⟨info, hl, hi, ha⟩ := unop_table o
  simp only [execI, hl]
  unfold process0
  simp only [hi, ha, PState.pop, hs, PState.push, Bind.bind, Except.bind, pure, Except.pure]

theorem exec_field (ctx : Lscr.Ctx) (a : Int) (st : PState) (x : Node) (rest : List Node)
    (hs : st.stack = x :: rest) :
    execI ctx (.op1 0x1b) a st = .ok { st with stack := .unary (S "field") a x :: rest } := by
  have hl : Opcodes.opcodes.lookup 0x1b = some { cls := "FieldOpcode", impl := "UnaryOperationOpcode", nbytes := 1, kind := "plain", attrs := [("opname", "field")] } := rfl
  simp only [execI, hl]
  unfold process0
  simp only [attr, List.lookup, PState.pop, hs, PState.push, Bind.bind, Except.bind, pure, Except.pure]
  rfl

theorem natStr_zero : natStr 0 = S "0" := by decide

theorem exec_zero (ctx : Lscr.Ctx) (a : Int) (st : PState) :
    execI ctx (.op1 0x03) a st = .ok { st with stack := .leaf .const (.s (natStr 0)) a :: st.stack } := by
  have hl : Opcodes.opcodes.lookup 0x03 = some { cls := "ZeroOpcode", impl := "ZeroOpcode", nbytes := 1, kind := "plain", attrs := [] } := rfl
  simp only [execI, hl]
  unfold process0
  simp only [PState.push, mkConst, natStr_zero]

theorem intStr_nat (n : Nat) : Lscr.intStr ((n : Nat) : Int) = natStr n := rfl

theorem exec_int1 (ctx : Lscr.Ctx) (n : Nat) (hn : n < 128) (a : Int) (st : PState) :
    execI ctx (.op2 0x41 n) a st = .ok { st with stack := .leaf .const (.s (natStr n)) a :: st.stack } := by
  have hl : Opcodes.opcodes.lookup 0x41 = some { cls := "Int1bOpcode", impl := "Int1bOpcode", nbytes := 2, kind := "param1", attrs := [] } := rfl
  have hk : ¬ ("param1" = "bi" ∨ "param1" = "tri") := by decide
  simp only [execI, hl, hk, if_false]
  unfold process1
  have h1 : int1b n = ((n : Nat) : Int) := by
    unfold int1b
    have : ¬ n > 127 := by omega
    simp only [this, if_false]
  simp only [PState.push, mkConst, h1, intStr_nat]

theorem exec_int2 (ctx : Lscr.Ctx) (n : Nat) (hn : n < 32768) (a : Int) (st : PState) :
    execI ctx (.op3 0x81 n) a st = .ok { st with stack := .leaf .const (.s (natStr n)) a :: st.stack } := by
  have hl : Opcodes.opcodes.lookup 0x81 = some { cls := "Int2bOpcode", impl := "Int2bOpcode", nbytes := 3, kind := "param2", attrs := [] } := rfl
  simp only [execI, hl]
  unfold process2
  have h1 : int2b (n / 256) (n % 256) = ((n : Nat) : Int) := by
    unfold int2b
    have e : n / 256 * 256 + n % 256 = n := by omega
    simp only [e]
    have : ¬ n > 32767 := by omega
    simp only [this, if_false]
  simp only [PState.push, mkConst, h1, intStr_nat]

theorem recIndex_six (st : PState) (k : Nat) (h : st.bpc = 6) : recIndex st ((6 * k : Nat) : Int) = (st, (k : Int)) := by
  unfold recIndex
  have h1 : ((6 * k : Nat) : Int) % ((st.bpc : Nat) : Int) = 0 := by rw [h]; omega
  have h2 : Int.tdiv ((6 * k : Nat) : Int) ((st.bpc : Nat) : Int) = (k : Int) := by
    rw [h, Int.tdiv_eq_ediv_of_nonneg (by omega)]; omega
  have h3 : ¬ ((0 : Int) > 0) := by omega
  simp only [h1, h3, if_false, h2]

theorem pyGet_some {α} (l : List α) (i : Nat) (x : α) (h : l[i]? = some x) : pyGet l (i : Int) = .ok x := by
  rw [pyGet_nat, h]

theorem exec_lit1 (ctx : Lscr.Ctx) (k : Nat) (c : Lscr.Name) (hc : ctx.constants[k]? = some c) (a : Int) (st : PState) (hb : st.bpc = 6) :
    execI ctx (.op2 0x44 (6 * k)) a st = .ok { st with stack := .leaf .const c a :: st.stack } := by
  have hl : Opcodes.opcodes.lookup 0x44 = some { cls := "LiteralOpcode", impl := "LiteralOpcode", nbytes := 2, kind := "param1", attrs := [] } := rfl
  have hk : ¬ ("param1" = "bi" ∨ "param1" = "tri") := by decide
  simp only [execI, hl, hk, if_false]
  unfold process1
  simp only [recIndex_six st k hb, pyGet_some _ _ _ hc, Bind.bind, Except.bind, pure, Except.pure, PState.push, mkConst]

theorem exec_lit2 (ctx : Lscr.Ctx) (k : Nat) (c : Lscr.Name) (hc : ctx.constants[k]? = some c) (a : Int) (st : PState) (hb : st.bpc = 6) :
    execI ctx (.op3 0x84 (6 * k)) a st = .ok { st with stack := .leaf .const c a :: st.stack } := by
  have hl : Opcodes.opcodes.lookup 0x84 = some { cls := "Literal2Opcode", impl := "Literal2Opcode", nbytes := 3, kind := "param2", attrs := [] } := rfl
  simp only [execI, hl]
  unfold process2
  have e : 6 * k / 256 * 256 + 6 * k % 256 = 6 * k := by omega
  simp only [e, recIndex_six st k hb, pyGet_some _ _ _ hc, Bind.bind, Except.bind, pure, Except.pure, PState.push, mkConst]

/-- every node of the handler's list of referenced globals is a `GlobalVariable` whose name is in `G` -/
def GvOk (G : List Spec.Name) (gv : List Node) : Prop := ∀ x ∈ gv, ∃ g p, x = .leaf .globalVar (.s g) p ∧ g ∈ G

theorem GvOk.snoc {G : List Spec.Name} {gv : List Node} (h : GvOk G gv) (g : Spec.Name) (p : Int) (hg : g ∈ G) :
    GvOk G (gv ++ [.leaf .globalVar (.s g) p]) := by
  intro x hx
  rcases List.mem_append.mp hx with hx | hx
  · exact h x hx
  · simp only [List.mem_singleton] at hx
    exact ⟨g, p, hx, hg⟩

/-- the nodes of the list have pairwise different names (`generate_lingo_code` sorts by this key) -/
def GvDistinct (gv : List Node) : Prop := (gv.map nameKey).Nodup

/-- how the list of referenced globals evolves: still well-formed, only appended to, still without repeated names -/
def GvNext (G : List Spec.Name) (gv gv' : List Node) : Prop :=
  GvOk G gv' ∧ (∃ ext, gv' = gv ++ ext) ∧ (GvDistinct gv → GvDistinct gv')

theorem GvNext.refl {G : List Spec.Name} {gv : List Node} (h : GvOk G gv) : GvNext G gv gv := ⟨h, ⟨[], by simp⟩, id⟩

theorem GvNext.trans {G : List Spec.Name} {a b c : List Node} (h1 : GvNext G a b) (h2 : GvNext G b c) : GvNext G a c := by
  obtain ⟨_, ⟨e1, he1⟩, hd1⟩ := h1
  obtain ⟨hok, ⟨e2, he2⟩, hd2⟩ := h2
  exact ⟨hok, ⟨e1 ++ e2, by rw [he2, he1, List.append_assoc]⟩, fun h => hd2 (hd1 h)⟩

theorem nameKey_glob (g : Spec.Name) (p : Int) : nameKey (.leaf .globalVar (.s g) p) = g := rfl

theorem pyIn_false_key {G : List Spec.Name} {gv : List Node} (h : GvOk G gv) (v : Spec.Name) (a : Int)
    (hin : ¬ pyIn (.leaf .globalVar (.s v) a) gv = true) : v ∉ gv.map nameKey := by
  intro hm
  obtain ⟨x, hx, hk⟩ := List.mem_map.mp hm
  obtain ⟨g, p, rfl, _⟩ := h x hx
  rw [nameKey_glob] at hk
  subst hk
  apply hin
  unfold pyIn
  rw [List.any_eq_true]
  exact ⟨_, hx, by simp [Node.pyEq, Node.cls, Node.name]⟩

theorem GvNext.snoc {G : List Spec.Name} {gv : List Node} (h : GvOk G gv) (v : Spec.Name) (a : Int) (hG : v ∈ G)
    (hin : ¬ pyIn (.leaf .globalVar (.s v) a) gv = true) : GvNext G gv (gv ++ [.leaf .globalVar (.s v) a]) := by
  refine ⟨h.snoc v a hG, ⟨_, rfl⟩, ?_⟩
  intro hd
  unfold GvDistinct at hd ⊢
  rw [List.map_append, List.nodup_append]
  refine ⟨hd, by simp, ?_⟩
  intro x hx y hy
  simp only [List.map_cons, List.map_nil, List.mem_singleton, nameKey_glob] at hy
  subst hy
  intro e; subst e
  exact pyIn_false_key h _ a hin hx

theorem exec_glob (ctx : Lscr.Ctx) (i : Nat) (v : Spec.Name) (hn : ctx.names[i]? = some v) (a : Int) (st : PState)
    (G : List Spec.Name) (hG : v ∈ G) (hgv : GvOk G st.gvars) :
    ∃ gv', GvNext G st.gvars gv' ∧
      execI ctx (.op2 0x49 i) a st = .ok { st with stack := .leaf .globalVar (.s v) a :: st.stack, gvars := gv' } := by
  have hl : Opcodes.opcodes.lookup 0x49 = some { cls := "GlobalVarOpcode", impl := "GlobalVariableOpcode", nbytes := 2, kind := "param1", attrs := [] } := rfl
  have hk : ¬ ("param1" = "bi" ∨ "param1" = "tri") := by decide
  simp only [execI, hl, hk, if_false]
  unfold process1
  simp only [nameAt, pyGet_some _ _ _ hn, Bind.bind, Except.bind, pure, Except.pure, PState.push]
  by_cases hin : pyIn (.leaf .globalVar (.s v) a) st.gvars = true
  · exact ⟨st.gvars, GvNext.refl hgv, by simp only [hin, if_true]⟩
  · exact ⟨st.gvars ++ [.leaf .globalVar (.s v) a], GvNext.snoc hgv v a hG hin, by simp only [hin, if_false]; rfl⟩

theorem exec_prop (ctx : Lscr.Ctx) (i : Nat) (v : Spec.Name) (hn : ctx.names[i]? = some v) (a : Int) (st : PState) :
    execI ctx (.op2 0x4a i) a st = .ok { st with stack := .leaf .definedProp (.s v) a :: st.stack } := by
  have hl : Opcodes.opcodes.lookup 0x4a = some { cls := "PropertyNameOpcode", impl := "PropertyNameOpcode", nbytes := 2, kind := "param1", attrs := [] } := rfl
  have hk : ¬ ("param1" = "bi" ∨ "param1" = "tri") := by decide
  simp only [execI, hl, hk, if_false]
  unfold process1
  simp only [nameAt, pyGet_some _ _ _ hn, Bind.bind, Except.bind, pure, Except.pure, PState.push]

theorem exec_sym (ctx : Lscr.Ctx) (i : Nat) (v : Spec.Name) (hn : ctx.names[i]? = some v) (a : Int) (st : PState) :
    execI ctx (.op2 0x45 i) a st = .ok { st with stack := .sym (.s v) a true :: st.stack } := by
  have hl : Opcodes.opcodes.lookup 0x45 = some { cls := "SymbolOpcode", impl := "SymbolOpcode", nbytes := 2, kind := "param1", attrs := [] } := rfl
  have hk : ¬ ("param1" = "bi" ∨ "param1" = "tri") := by decide
  simp only [execI, hl, hk, if_false]
  unfold process1
  simp only [nameAt, pyGet_some _ _ _ hn, Bind.bind, Except.bind, pure, Except.pure, PState.push]

theorem exec_param (ctx : Lscr.Ctx) (j : Nat) (v : Lscr.Name) (p : Int) (hp : ctx.params[j]? = some (.leaf .paramName v p)) (a : Int)
    (st : PState) (hb : st.bpc = 6) :
    execI ctx (.op2 0x4b (6 * j)) a st = .ok { st with stack := .leaf .paramName v a :: st.stack } := by
  have hl : Opcodes.opcodes.lookup 0x4b = some { cls := "ParameterNameOpcode", impl := "ParameterNameOpcode", nbytes := 2, kind := "param1", attrs := [] } := rfl
  have hk : ¬ ("param1" = "bi" ∨ "param1" = "tri") := by decide
  simp only [execI, hl, hk, if_false]
  unfold process1
  simp only [recIndex_six st j hb, pyGet_some _ _ _ hp, Node.name, Bind.bind, Except.bind, pure, Except.pure, PState.push]

theorem exec_loc (ctx : Lscr.Ctx) (j : Nat) (x : Node) (hp : ctx.localVars[j]? = some x) (a : Int)
    (st : PState) (hb : st.bpc = 6) :
    execI ctx (.op2 0x4c (6 * j)) a st = .ok { st with stack := x :: st.stack } := by
  have hl : Opcodes.opcodes.lookup 0x4c = some { cls := "LocalVariableOpcode", impl := "LocalVariableOpcode", nbytes := 2, kind := "param1", attrs := [] } := rfl
  have hk : ¬ ("param1" = "bi" ∨ "param1" = "tri") := by decide
  simp only [execI, hl, hk, if_false]
  unfold process1
  simp only [recIndex_six st j hb, pyGet_some _ _ _ hp, Bind.bind, Except.bind, pure, Except.pure, PState.push]

/-- name of the argument-list node: `<load_list>` when the call's result is used (opcodes 43 / 83), `load_list` for a command (42 / 82) -/
def listName (res : Bool) : Str := if res then S "<load_list>" else S "load_list"

theorem exec_args1 (ctx : Lscr.Ctx) (res : Bool) (n : Nat) (a : Int) (st : PState) (hlen : n ≤ st.stack.length) :
    execI ctx (.op2 (if res then 0x43 else 0x42) n) a st
      = .ok { st with stack := .loadList (listName res) a (st.stack.take n) :: st.stack.drop n } := by
  have hk : ¬ ("param1" = "bi" ∨ "param1" = "tri") := by decide
  cases res with
  | true =>
    have hl : Opcodes.opcodes.lookup 0x43 = some { cls := "LoadLListOpcode", impl := "LoadListOpcode", nbytes := 2, kind := "param1", attrs := [("name", "<load_list>")] } := rfl
    simp only [if_true, execI, hl, hk, if_false]
    unfold process1
    simp only [attr, List.lookup, hlen, if_true, PState.push, Bind.bind, Except.bind, pure, Except.pure, listName]
    rfl
  | false =>
    have hl : Opcodes.opcodes.lookup 0x42 = some { cls := "LoadListOpcode", impl := "LoadListOpcode", nbytes := 2, kind := "param1", attrs := [("name", "load_list")] } := rfl
    simp only [Bool.false_eq_true, if_false, execI, hl, hk]
    unfold process1
    simp only [attr, List.lookup, hlen, if_true, PState.push, Bind.bind, Except.bind, pure, Except.pure, listName]
    rfl

theorem exec_args2 (ctx : Lscr.Ctx) (res : Bool) (n : Nat) (a : Int) (st : PState) (hlen : n ≤ st.stack.length) :
    execI ctx (.op3 (if res then 0x83 else 0x82) n) a st
      = .ok { st with stack := .loadList (listName res) a (st.stack.take n) :: st.stack.drop n } := by
  have e : n / 256 * 256 + n % 256 = n := by omega
  cases res with
  | true =>
    have hl : Opcodes.opcodes.lookup 0x83 = some { cls := "LoadLongLListOpcode", impl := "LoadLongListOpcode", nbytes := 3, kind := "param2", attrs := [("name", "<load_list>")] } := rfl
    simp only [if_true, execI, hl]
    unfold process2
    simp only [attr, List.lookup, e, hlen, if_true, PState.push, Bind.bind, Except.bind, pure, Except.pure, listName]
    rfl
  | false =>
    have hl : Opcodes.opcodes.lookup 0x82 = some { cls := "LoadLongListOpcode", impl := "LoadLongListOpcode", nbytes := 3, kind := "param2", attrs := [("name", "load_list")] } := rfl
    simp only [Bool.false_eq_true, if_false, execI, hl]
    unfold process2
    simp only [attr, List.lookup, e, hlen, if_true, PState.push, Bind.bind, Except.bind, pure, Except.pure, listName]
    rfl

theorem argsInstr_ok (res : Bool) (n : Nat) (s0 s1 : St) (code : List Instr) (h : argsInstr res n s0 = .ok (code, s1)) :
    s1 = s0 ∧ ∃ i, code = [i] ∧ i.opc ≠ 153 ∧ ∀ (ctx : Lscr.Ctx) (a : Int) (st : PState), n ≤ st.stack.length →
      execI ctx i a st = .ok { st with stack := .loadList (listName res) a (st.stack.take n) :: st.stack.drop n } := by
  unfold argsInstr at h
  split at h
  · simp only [M_pure_ok, Prod.mk.injEq] at h
    obtain ⟨rfl, rfl⟩ := h
    refine ⟨rfl, _, rfl, by cases res <;> simp [Instr.opc], fun ctx a st hl => exec_args1 ctx res n a st hl⟩
  · split at h
    · simp only [M_pure_ok, Prod.mk.injEq] at h
      obtain ⟨rfl, rfl⟩ := h
      refine ⟨rfl, _, rfl, by cases res <;> simp [Instr.opc], fun ctx a st hl => exec_args2 ctx res n a st hl⟩
    · simp [Spec.fail] at h

theorem exec_tolist (ctx : Lscr.Ctx) (a : Int) (st : PState) (x : Node) (rest : List Node) (hs : st.stack = x :: rest) :
    execI ctx (.op1 0x1e) a st = .ok { st with stack := .toList a x :: rest } := by
  have hl : Opcodes.opcodes.lookup 0x1e = some { cls := "ToListOpcode", impl := "ToListOpcode", nbytes := 1, kind := "plain", attrs := [] } := rfl
  simp only [execI, hl]
  unfold process0
  simp only [PState.pop, hs, PState.push, Bind.bind, Except.bind, pure, Except.pure]

theorem exec_todict (ctx : Lscr.Ctx) (a : Int) (st : PState) (x : Node) (rest : List Node) (hs : st.stack = x :: rest) :
    execI ctx (.op1 0x1f) a st = .ok { st with stack := .toDict a x :: rest } := by
  have hl : Opcodes.opcodes.lookup 0x1f = some { cls := "ToDictionaryOpcode", impl := "ToDictionaryOpcode", nbytes := 1, kind := "plain", attrs := [] } := rfl
  simp only [execI, hl]
  unfold process0
  simp only [PState.pop, hs, PState.push, Bind.bind, Except.bind, pure, Except.pure]

theorem lt_listName (res : Bool) (p : Int) (ops : List Node) : nameStartsLt (.loadList (listName res) p ops) = .ok res := by
  cases res <;> simp [nameStartsLt, Node.name, Lscr.Name.asStr, listName, Bind.bind, Except.bind, pure, Except.pure] <;> decide

/-- opcode 56: call of a handler of the same script; pushed when the result is used, a statement otherwise -/
theorem exec_calllocal (ctx : Lscr.Ctx) (k : Nat) (f : Spec.Name) (hf : ctx.localFuncs[k]? = some f) (a : Int) (st : PState) (res : Bool)
    (p : Int) (ops : List Node) (rest : List Node) (hs : st.stack = .loadList (listName res) p ops :: rest) :
    execI ctx (.op2 0x56 k) a st = .ok (if res
      then { st with stack := .callFn (.s f) a (.loadList (listName res) p ops) true false true .none :: rest }
      else { st with stack := rest, stmts := st.stmts ++ [.stmt a (.callFn (.s f) a (.loadList (listName res) p ops) true false true .none)] }) := by
  have hl : Opcodes.opcodes.lookup 0x56 = some { cls := "CallLocalOpcode", impl := "CallLocalOpcode", nbytes := 2, kind := "param1", attrs := [] } := rfl
  have hk : ¬ ("param1" = "bi" ∨ "param1" = "tri") := by decide
  simp only [execI, hl, hk, if_false]
  unfold process1
  simp only [pyGet_some _ _ _ hf, PState.pop, hs, pushOrStmt, lt_listName, Bind.bind, Except.bind, pure, Except.pure, PState.push,
    PState.addStmt]

/-- opcode 57: call of an external function / command -/
theorem exec_callext (ctx : Lscr.Ctx) (i : Nat) (f : Spec.Name) (hf : ctx.names[i]? = some f) (a : Int) (st : PState) (res : Bool)
    (p : Int) (ops : List Node) (rest : List Node) (hs : st.stack = .loadList (listName res) p ops :: rest) :
    execI ctx (.op2 0x57 i) a st = .ok (if res
      then { st with stack := .callFn (.s f) a (.loadList (listName res) p ops) true false false .none :: rest }
      else { st with stack := rest, stmts := st.stmts ++ [.stmt a (.callFn (.s f) a (.loadList (listName res) p ops) true false false .none)] }) := by
  have hl : Opcodes.opcodes.lookup 0x57 = some { cls := "CallExternalOpcode", impl := "CallExternalOpcode", nbytes := 2, kind := "param1", attrs := [] } := rfl
  have hk : ¬ ("param1" = "bi" ∨ "param1" = "tri") := by decide
  simp only [execI, hl, hk, if_false]
  unfold process1
  simp only [nameAt, pyGet_some _ _ _ hf, PState.pop, hs, pushOrStmt, lt_listName, Bind.bind, Except.bind, pure, Except.pure, PState.push,
    PState.addStmt]

/-! #### built-in properties without an object: `the <key>` (66), `the <movie property>` (5f), `the <system property>` (5c 07),
     `the <special property>` (5c 00) -/

theorem exec_key (ctx : Lscr.Ctx) (i : Nat) (v : Spec.Name) (hn : ctx.names[i]? = some v) (a : Int) (st : PState)
    (ln : Str) (p : Int) (rest : List Node) (hs : st.stack = .loadList ln p [] :: rest) :
    execI ctx (.op2 0x66 i) a st = .ok { st with stack := .keyAcc a v :: rest } := by
  have hl : Opcodes.opcodes.lookup 0x66 = some { cls := "KeyPropertyAccesorOpcode", impl := "KeyPropertyAccesorOpcode", nbytes := 2, kind := "param1", attrs := [] } := rfl
  have hk : ¬ ("param1" = "bi" ∨ "param1" = "tri") := by decide
  simp only [execI, hl, hk, if_false]
  unfold process1
  simp only [nameAt, pyGet_some _ _ _ hn, PState.pop, hs, Bind.bind, Except.bind, pure, Except.pure, PState.push]

/-- opcode 61: `the <p> of <obj>` -/
theorem exec_oprop (ctx : Lscr.Ctx) (i : Nat) (v : Spec.Name) (hn : ctx.names[i]? = some v) (a : Int) (st : PState)
    (x : Node) (rest : List Node) (hs : st.stack = x :: rest) :
    execI ctx (.op2 0x61 i) a st = .ok { st with stack := .propAcc a x v true :: rest } := by
  have hl : Opcodes.opcodes.lookup 0x61 = some { cls := "PropertyAccesorOpcode", impl := "PropertyAccesorOpcode", nbytes := 2, kind := "param1", attrs := [] } := rfl
  have hk : ¬ ("param1" = "bi" ∨ "param1" = "tri") := by decide
  simp only [execI, hl, hk, if_false]
  unfold process1
  simp only [nameAt, pyGet_some _ _ _ hn, PState.pop, hs, Bind.bind, Except.bind, pure, Except.pure, PState.push]

theorem knownAssign_owner : ∀ kv ∈ Gen.PropTables.knownPropertiesAssign, startsWith kv.2.toList (S "_") = true := by decide

theorem dictGet_mem (d : List (String × String)) (key o : Str) (h : dictGet d key = .ok o) : ∃ kv ∈ d, kv.2.toList = o := by
  unfold dictGet at h
  split at h
  · rename_i kv hf
    simp only [Except.ok.injEq] at h
    exact ⟨kv, List.mem_of_find?_eq_some hf, h⟩
  · cases h

theorem exec_movie (ctx : Lscr.Ctx) (i : Nat) (v : Spec.Name) (hn : ctx.names[i]? = some v) (a : Int) (st : PState) :
    ∃ n, ((∃ p, n = .leaf .propName (.s v) p) ∨ (∃ p q o, n = .propAcc p (.leaf .localVar (.s o) q) v false ∧ startsWith o (S "_") = true)) ∧
      execI ctx (.op2 0x5f i) a st = .ok { st with stack := n :: st.stack } := by
  have hl : Opcodes.opcodes.lookup 0x5f = some { cls := "LoadPropertyOpcode", impl := "LoadPropertyOpcode", nbytes := 2, kind := "param1", attrs := [] } := rfl
  have hk : ¬ ("param1" = "bi" ∨ "param1" = "tri") := by decide
  simp only [execI, hl, hk, if_false]
  unfold process1
  simp only [nameAt, pyGet_some _ _ _ hn, Bind.bind, Except.bind, pure, Except.pure, PState.push]
  cases hd : dictGet Gen.PropTables.knownPropertiesAssign v with
  | ok o =>
    obtain ⟨kv, hkv, rfl⟩ := dictGet_mem _ _ _ hd
    exact ⟨_, Or.inr ⟨a, a, _, rfl, knownAssign_owner kv hkv⟩, rfl⟩
  | error e => exact ⟨_, Or.inl ⟨a, rfl⟩, rfl⟩

theorem toInt_natStr (k : Nat) : (Lscr.Name.s (natStr k)).toInt = .ok (k : Int) := pyIntOfStr_natStr k

def sysRowOk (x : Nat × String) : Bool :=
  match dictNth Gen.PropTables.systemProperties (x.1 : Int) with
  | .ok (n, o) => n == nameOrUnknown tblSys x.1 && startsWith o (S "_")
  | .error _ => false

theorem sys_rows : tblSys.all sysRowOk = true := by decide +kernel

theorem sys_table (k : Nat) (h : tblSys.any (fun x => x.1 == k) = true) :
    ∃ o, dictNth Gen.PropTables.systemProperties (k : Int) = .ok (nameOrUnknown tblSys k, o) ∧ startsWith o (S "_") = true := by
  rw [List.any_eq_true] at h
  obtain ⟨x, hx, hk⟩ := h
  have hk' : x.1 = k := by simpa using hk
  have := List.all_eq_true.mp sys_rows x hx
  unfold sysRowOk at this
  rw [hk'] at this
  split at this
  · rename_i n o heq
    simp only [Bool.and_eq_true, beq_iff_eq] at this
    exact ⟨o, by rw [heq, this.1], this.2⟩
  · cases this

theorem bi_lookup_5c : Opcodes.opcodes.lookup 0x5c = some { cls := "SoundPropertiesOpcode", impl := "SoundPropertiesOpcode", nbytes := 2, kind := "bi", attrs := [] } := rfl

theorem exec_sys (ctx : Lscr.Ctx) (k : Nat) (hk : tblSys.any (fun x => x.1 == k) = true) (a : Int) (st : PState) (p : Int) (rest : List Node)
    (hs : st.stack = .leaf .const (.s (natStr k)) p :: rest) :
    ∃ o, (startsWith o (S "_") = true ∨ o = S "tell_obj") ∧
      execI ctx (.op2 0x5c 7) a st = .ok { st with stack := .propAcc a (.leaf .localVar (.s o) a) (nameOrUnknown tblSys k) false :: rest } := by
  obtain ⟨o, hd, ho⟩ := sys_table k hk
  have hb : Opcodes.biOpcodes.lookup 23559 = some { cls := "SystemPropertiesOpcode", impl := "SystemPropertiesOpcode", nbytes := 2, kind := "bi", attrs := [] } := rfl
  have hkb : ("bi" = "bi" ∨ "bi" = "tri") := Or.inl rfl
  simp only [execI, bi_lookup_5c, hkb, if_true, Nat.reduceMul, Nat.reduceAdd, hb]
  simp only [true_or, if_true]
  have hp : process ctx { cls := "SystemPropertiesOpcode", impl := "SystemPropertiesOpcode", nbytes := 2, kind := "bi", attrs := [] } 0 0 a st
      = process0 ctx { cls := "SystemPropertiesOpcode", impl := "SystemPropertiesOpcode", nbytes := 2, kind := "bi", attrs := [] } a st := by
    unfold process
    rw [if_neg (by decide), if_neg (by decide)]
  rw [hp]
  unfold process0
  simp only [systemProps, popInt, PState.pop, hs, Node.name, toInt_natStr, hd, Bind.bind, Except.bind, pure, Except.pure, PState.push]
  by_cases ht : st.tell = true
  · rw [if_pos ht]
    exact ⟨S "tell_obj", Or.inr rfl, rfl⟩
  · rw [if_neg ht]
    exact ⟨o, Or.inl ho, rfl⟩

theorem special_table : ∀ k : Nat, k < 6 → listGet Gen.PropTables.specialProperties (k : Int) = .ok (nameOrUnknown tblSpecial k) := by
  intro k hk
  have : k = 0 ∨ k = 1 ∨ k = 2 ∨ k = 3 ∨ k = 4 ∨ k = 5 := by omega
  rcases this with rfl | rfl | rfl | rfl | rfl | rfl <;> rfl

theorem exec_special (ctx : Lscr.Ctx) (k : Nat) (hk : k < 6) (a : Int) (st : PState) (p : Int) (rest : List Node)
    (hs : st.stack = .leaf .const (.s (natStr k)) p :: rest) :
    execI ctx (.op2 0x5c 0) a st = .ok { st with stack := .leaf .propName (.s (nameOrUnknown tblSpecial k)) a :: rest } := by
  have hb : Opcodes.biOpcodes.lookup 23552 = some { cls := "SpecialPropertiesOpcode", impl := "SpecialPropertiesOpcode", nbytes := 2, kind := "bi", attrs := [] } := rfl
  have hkb : ("bi" = "bi" ∨ "bi" = "tri") := Or.inl rfl
  simp only [execI, bi_lookup_5c, hkb, if_true, Nat.reduceMul, Nat.reduceAdd, hb, true_or]
  have hp : process ctx { cls := "SpecialPropertiesOpcode", impl := "SpecialPropertiesOpcode", nbytes := 2, kind := "bi", attrs := [] } 0 0 a st
      = process0 ctx { cls := "SpecialPropertiesOpcode", impl := "SpecialPropertiesOpcode", nbytes := 2, kind := "bi", attrs := [] } a st := by
    unfold process
    rw [if_neg (by decide), if_neg (by decide)]
  rw [hp]
  unfold process0
  have hlt : ((k : Nat) : Int) < 6 := by omega
  simp only [specialProps, popInt, PState.pop, hs, Node.name, toInt_natStr, hlt, if_true, special_table k hk, Bind.bind, Except.bind, pure,
    Except.pure, PState.push]

/-! #### built-in properties of an indexed object: `the <p> of sprite / cast / sound n` (5c 06 / 09 / 0d / 04) -/

def objRowOk (tb : List (Nat × String)) (mt : List String) (x : Nat × String) : Bool :=
  match listGet mt (x.1 : Int) with
  | .ok n => n == nameOrUnknown tb x.1
  | .error _ => false

theorem obj_table (tb : List (Nat × String)) (mt : List String) (hall : tb.all (objRowOk tb mt) = true) (k : Nat)
    (h : tb.any (fun x => x.1 == k) = true) : listGet mt (k : Int) = .ok (nameOrUnknown tb k) := by
  rw [List.any_eq_true] at h
  obtain ⟨x, hx, hk⟩ := h
  have hk' : x.1 = k := by simpa using hk
  have := List.all_eq_true.mp hall x hx
  unfold objRowOk at this
  rw [hk'] at this
  split at this
  · rename_i n heq
    rw [heq, beq_iff_eq.mp this]
  · cases this

theorem sound_rows : tblSound.all (objRowOk tblSound Gen.PropTables.soundProperties) = true := by decide +kernel
theorem sprite_rows : tblSprite.all (objRowOk tblSprite Gen.PropTables.spriteProperties) = true := by decide +kernel
theorem cast_rows : tblCast.all (objRowOk tblCast Gen.PropTables.castProperties) = true := by decide +kernel
theorem video_rows : tblVideo.all (objRowOk tblVideo Gen.PropTables.videoProperties) = true := by decide +kernel

theorem objProp_ok (cls : Leaf) (tb : List (Nat × String)) (mt : List String) (hall : tb.all (objRowOk tb mt) = true) (k : Nat)
    (hk : tb.any (fun x => x.1 == k) = true) (a : Int) (st : PState) (p : Int) (x : Node) (nm : Lscr.Name) (hx : x.name = .ok nm)
    (rest : List Node) (hs : st.stack = .leaf .const (.s (natStr k)) p :: x :: rest) :
    objProp cls mt st a = .ok { st with stack := .propAcc a (.leaf cls nm a) (nameOrUnknown tb k) false :: rest } := by
  have h1 : (Node.leaf .const (.s (natStr k)) p).name = .ok (.s (natStr k)) := rfl
  simp only [objProp, popInt, popName, PState.pop, hs, h1, toInt_natStr, hx, obj_table tb mt hall k hk, Bind.bind, Except.bind, pure,
    Except.pure, PState.push]

theorem exec_objprop (ctx : Lscr.Ctx) (t : Tbl) (cls : Leaf) (tb : List (Nat × String)) (w : String) (ht : theTbl t = some (cls, tb, w))
    (k : Nat) (hk : tb.any (fun x => x.1 == k) = true) (a : Int) (st : PState) (p : Int) (x : Node) (nm : Lscr.Name)
    (hx : x.name = .ok nm) (rest : List Node) (hs : st.stack = .leaf .const (.s (natStr k)) p :: x :: rest) :
    execI ctx (.op2 0x5c t.code) a st = .ok { st with stack := .propAcc a (.leaf cls nm a) (nameOrUnknown tb k) false :: rest } := by
  have hkb : ("bi" = "bi" ∨ "bi" = "tri") := Or.inl rfl
  cases t with
  | sound =>
    simp only [theTbl, Option.some.injEq, Prod.mk.injEq] at ht
    obtain ⟨rfl, rfl, rfl⟩ := ht
    have hb : Opcodes.biOpcodes.lookup 23556 = some { cls := "SoundPropertiesOpcode", impl := "SoundPropertiesOpcode", nbytes := 2, kind := "bi", attrs := [] } := rfl
    simp only [execI, Tbl.code, bi_lookup_5c, hkb, if_true, Nat.reduceMul, Nat.reduceAdd, hb, true_or]
    have hp : process ctx { cls := "SoundPropertiesOpcode", impl := "SoundPropertiesOpcode", nbytes := 2, kind := "bi", attrs := [] } 0 0 a st
        = process0 ctx { cls := "SoundPropertiesOpcode", impl := "SoundPropertiesOpcode", nbytes := 2, kind := "bi", attrs := [] } a st := by
      unfold process
      rw [if_neg (by decide), if_neg (by decide)]
    rw [hp]
    unfold process0
    exact objProp_ok _ _ _ sound_rows k hk a st p x nm hx rest hs
  | sprite =>
    simp only [theTbl, Option.some.injEq, Prod.mk.injEq] at ht
    obtain ⟨rfl, rfl, rfl⟩ := ht
    have hb : Opcodes.biOpcodes.lookup 23558 = some { cls := "SpritePropertiesOpcode", impl := "SpritePropertiesOpcode", nbytes := 2, kind := "bi", attrs := [] } := rfl
    simp only [execI, Tbl.code, bi_lookup_5c, hkb, if_true, Nat.reduceMul, Nat.reduceAdd, hb, true_or]
    have hp : process ctx { cls := "SpritePropertiesOpcode", impl := "SpritePropertiesOpcode", nbytes := 2, kind := "bi", attrs := [] } 0 0 a st
        = process0 ctx { cls := "SpritePropertiesOpcode", impl := "SpritePropertiesOpcode", nbytes := 2, kind := "bi", attrs := [] } a st := by
      unfold process
      rw [if_neg (by decide), if_neg (by decide)]
    rw [hp]
    unfold process0
    exact objProp_ok _ _ _ sprite_rows k hk a st p x nm hx rest hs
  | cast =>
    simp only [theTbl, Option.some.injEq, Prod.mk.injEq] at ht
    obtain ⟨rfl, rfl, rfl⟩ := ht
    have hb : Opcodes.biOpcodes.lookup 23561 = some { cls := "CastPropertiesOpcode", impl := "CastPropertiesOpcode", nbytes := 2, kind := "bi", attrs := [] } := rfl
    simp only [execI, Tbl.code, bi_lookup_5c, hkb, if_true, Nat.reduceMul, Nat.reduceAdd, hb, true_or]
    have hp : process ctx { cls := "CastPropertiesOpcode", impl := "CastPropertiesOpcode", nbytes := 2, kind := "bi", attrs := [] } 0 0 a st
        = process0 ctx { cls := "CastPropertiesOpcode", impl := "CastPropertiesOpcode", nbytes := 2, kind := "bi", attrs := [] } a st := by
      unfold process
      rw [if_neg (by decide), if_neg (by decide)]
    rw [hp]
    unfold process0
    exact objProp_ok _ _ _ cast_rows k hk a st p x nm hx rest hs
  | video =>
    simp only [theTbl, Option.some.injEq, Prod.mk.injEq] at ht
    obtain ⟨rfl, rfl, rfl⟩ := ht
    have hb : Opcodes.biOpcodes.lookup 23565 = some { cls := "VideoPropertiesOpcode", impl := "VideoPropertiesOpcode", nbytes := 2, kind := "bi", attrs := [] } := rfl
    simp only [execI, Tbl.code, bi_lookup_5c, hkb, if_true, Nat.reduceMul, Nat.reduceAdd, hb, true_or]
    have hp : process ctx { cls := "VideoPropertiesOpcode", impl := "VideoPropertiesOpcode", nbytes := 2, kind := "bi", attrs := [] } 0 0 a st
        = process0 ctx { cls := "VideoPropertiesOpcode", impl := "VideoPropertiesOpcode", nbytes := 2, kind := "bi", attrs := [] } a st := by
      unfold process
      rw [if_neg (by decide), if_neg (by decide)]
    rw [hp]
    unfold process0
    exact objProp_ok _ _ _ video_rows k hk a st p x nm hx rest hs
  | _ => simp [theTbl] at ht

theorem embH_idx_name (hs : List Spec.Name) (e : Expr) (nm : Lscr.Name) (n : Node) (hi : idxName e = some nm) (h : EmbH hs e n) :
    n.name = .ok nm := by
  cases e with
  | int k => obtain ⟨p, rfl⟩ := h; simp only [idxName, Option.some.injEq] at hi; subst hi; rfl
  | str v => obtain ⟨p, rfl⟩ := h; simp only [idxName, Option.some.injEq] at hi; subst hi; rfl
  | var k v =>
    simp only [idxName, Option.some.injEq] at hi; subst hi
    cases k <;> (obtain ⟨p, rfl⟩ := h; rfl)
  | _ => simp [idxName] at hi

/-! #### `the number of <chunk>s of e` (5c 01) and `the last <chunk> of e` (5c 00, k ≥ 12) -/

theorem theTbl_strThe (t : Tbl) (k : Nat) (v : Leaf × List (Nat × String) × String) (h : theTbl t = some v) : strThe t k = none := by
  cases t <;> simp [theTbl] at h <;> rfl

theorem theTbl_field (t : Tbl) (v : Leaf × List (Nat × String) × String) (h : theTbl t = some v) : decide (t = Tbl.field) = false := by
  cases t <;> simp [theTbl] at h <;> rfl

/-- `the <p> of field e` (5c 0b): the object is the `field e` node itself, no `.name` reduction -/
theorem exec_fieldprop (ctx : Lscr.Ctx) (k : Nat) (hk : tblCast.any (fun x => x.1 == k) = true) (a : Int) (st : PState) (p : Int) (x : Node)
    (rest : List Node) (hst : st.stack = .leaf .const (.s (natStr k)) p :: x :: rest) :
    execI ctx (.op2 0x5c 0x0b) a st = .ok { st with stack := .propAcc a (.unary (S "field") a x) (nameOrUnknown tblCast k) false :: rest } := by
  have hkb : ("bi" = "bi" ∨ "bi" = "tri") := Or.inl rfl
  have h1 : (Node.leaf .const (.s (natStr k)) p).name = .ok (.s (natStr k)) := rfl
  have hb : Opcodes.biOpcodes.lookup 23563 = some { cls := "FieldPropertiesOpcode", impl := "FieldPropertiesOpcode", nbytes := 2, kind := "bi", attrs := [] } := rfl
  simp only [execI, bi_lookup_5c, hkb, if_true, Nat.reduceMul, Nat.reduceAdd, hb, true_or]
  have hp : process ctx { cls := "FieldPropertiesOpcode", impl := "FieldPropertiesOpcode", nbytes := 2, kind := "bi", attrs := [] } 0 0 a st
      = process0 ctx { cls := "FieldPropertiesOpcode", impl := "FieldPropertiesOpcode", nbytes := 2, kind := "bi", attrs := [] } a st := by
    unfold process
    rw [if_neg (by decide), if_neg (by decide)]
  rw [hp]
  unfold process0
  simp only [popInt, PState.pop, hst, h1, toInt_natStr, obj_table tblCast _ cast_rows k hk, fieldOf, Bind.bind, Except.bind, pure, Except.pure,
    PState.push]

theorem opTypes_ok (r : Nat) (ty : Str) (h : chunkTy r = some ty) : listGet Gen.PropTables.operationTypes (r : Int) = .ok ty := by
  unfold chunkTy ChunkKind.ofRank at h
  split at h
  · rename_i h1; subst h1; simp at h; subst h; rfl
  · split at h
    · rename_i _ h1; subst h1; simp at h; subst h; rfl
    · split at h
      · rename_i _ _ h1; subst h1; simp at h; subst h; rfl
      · split at h
        · rename_i _ _ _ h1; subst h1; simp at h; subst h; rfl
        · simp at h

theorem exec_strthe (ctx : Lscr.Ctx) (t : Tbl) (k : Nat) (op : Str) (r : Nat) (ty : Str) (hs : strThe t k = some (op, r))
    (hty : chunkTy r = some ty) (a : Int) (st : PState) (p : Int) (x : Node) (rest : List Node)
    (hst : st.stack = .leaf .const (.s (natStr k)) p :: x :: rest) :
    execI ctx (.op2 0x5c t.code) a st = .ok { st with stack := .unaryStr op a (some ty) x :: rest } := by
  have hkb : ("bi" = "bi" ∨ "bi" = "tri") := Or.inl rfl
  have h1 : (Node.leaf .const (.s (natStr k)) p).name = .ok (.s (natStr k)) := rfl
  cases t with
  | numChunks =>
    simp only [strThe, Option.some.injEq, Prod.mk.injEq] at hs
    obtain ⟨rfl, rfl⟩ := hs
    have hb : Opcodes.biOpcodes.lookup 23553 = some { cls := "NumberOfElementsOpcode", impl := "NumberOfElementsOpcode", nbytes := 2, kind := "bi", attrs := [] } := rfl
    simp only [execI, Tbl.code, bi_lookup_5c, hkb, if_true, Nat.reduceMul, Nat.reduceAdd, hb, true_or]
    have hp : process ctx { cls := "NumberOfElementsOpcode", impl := "NumberOfElementsOpcode", nbytes := 2, kind := "bi", attrs := [] } 0 0 a st
        = process0 ctx { cls := "NumberOfElementsOpcode", impl := "NumberOfElementsOpcode", nbytes := 2, kind := "bi", attrs := [] } a st := by
      unfold process
      rw [if_neg (by decide), if_neg (by decide)]
    rw [hp]
    unfold process0
    simp only [popInt, PState.pop, hst, h1, toInt_natStr, opTypes_ok k ty hty, Bind.bind, Except.bind, pure, Except.pure, PState.push]
  | special =>
    simp only [strThe] at hs
    split at hs
    · rename_i hk
      simp only [Option.some.injEq, Prod.mk.injEq] at hs
      obtain ⟨rfl, rfl⟩ := hs
      have hb : Opcodes.biOpcodes.lookup 23552 = some { cls := "SpecialPropertiesOpcode", impl := "SpecialPropertiesOpcode", nbytes := 2, kind := "bi", attrs := [] } := rfl
      simp only [execI, Tbl.code, bi_lookup_5c, hkb, if_true, Nat.reduceMul, Nat.reduceAdd, hb, true_or]
      have hp : process ctx { cls := "SpecialPropertiesOpcode", impl := "SpecialPropertiesOpcode", nbytes := 2, kind := "bi", attrs := [] } 0 0 a st
          = process0 ctx { cls := "SpecialPropertiesOpcode", impl := "SpecialPropertiesOpcode", nbytes := 2, kind := "bi", attrs := [] } a st := by
        unfold process
        rw [if_neg (by decide), if_neg (by decide)]
      rw [hp]
      unfold process0
      have n6 : ¬ (((k : Nat) : Int) < 6) := by omega
      have n12 : ¬ (((k : Nat) : Int) < 12) := by omega
      have e11 : ((k : Nat) : Int) - 11 = ((k - 11 : Nat) : Int) := by omega
      simp only [specialProps, popInt, PState.pop, hst, h1, toInt_natStr, n6, n12, if_false, e11, opTypes_ok (k - 11) ty hty, Bind.bind,
        Except.bind, pure, Except.pure, PState.push]
    · cases hs
  | _ => simp [strThe] at hs

/-! #### chunk expressions: `char a to b of d` (opcode 17): names of the slot nodes -/

/-- the node `03` pushes -/
def zn (p : Int) : Node := .leaf .const (.s (natStr 0)) p

theorem natStr_eq_zero (k : Nat) (h : natStr k = S "0") : k = 0 := by
  have h1 := pyIntOfStr_natStr k
  have h2 := pyIntOfStr_natStr 0
  rw [h, ← natStr_zero, h2] at h1
  simpa using h1.symm

theorem idOk_ne_zero (v : Spec.Name) (h : idOk v = true) : v ≠ S "0" := by
  intro e; subst e
  have : idOk (S "0") = false := by decide
  rw [this] at h; cases h

/-- the `.name` of the image of an expression: defined, and `"0"` exactly for the literal 0 (the model's test for an absent slot) -/
theorem embH_name_zero (hs : List Spec.Name) (e : Expr) (n : Node) (hf : FragE e = true) (h : EmbH hs e n) :
    ∃ nm, n.name = .ok nm ∧ (nm = .s (S "0") ↔ isZero e = true) := by
  have nz : ∀ v : Str, v ≠ S "0" → ((Lscr.Name.s v = .s (S "0")) ↔ (false = true)) := by
    intro v hv; constructor
    · intro e; exact absurd (Lscr.Name.s.inj e) hv
    · intro e; cases e
  cases e with
  | int k =>
    obtain ⟨p, rfl⟩ := h
    refine ⟨_, rfl, ?_⟩
    cases k with
    | zero => simp [isZero, natStr_zero]
    | succ m =>
      simp only [isZero]
      exact nz _ (fun e => by have := natStr_eq_zero _ e; omega)
  | str v => obtain ⟨p, rfl⟩ := h; exact ⟨_, rfl, by simpa [isZero] using nz _ (by simp [escapeString, S])⟩
  | sym v => obtain ⟨p, rfl⟩ := h; simp only [FragE] at hf; exact ⟨_, rfl, by simpa [isZero] using nz _ (idOk_ne_zero v hf)⟩
  | var k v =>
    simp only [FragE] at hf
    cases k <;> (obtain ⟨p, rfl⟩ := h; exact ⟨_, rfl, by simpa [isZero] using nz _ (idOk_ne_zero v hf)⟩)
  | un op a => obtain ⟨p, x, rfl, _⟩ := h; exact ⟨_, rfl, by cases op <;> simpa [isZero, unName] using nz _ (by decide)⟩
  | bin op a b => obtain ⟨p, x, y, rfl, _⟩ := h; exact ⟨_, rfl, by cases op <;> simpa [isZero, binName] using nz _ (by decide)⟩
  | field a => obtain ⟨p, x, rfl, _⟩ := h; exact ⟨_, rfl, by simpa [isZero] using nz _ (by decide)⟩
  | call f as =>
    obtain ⟨p, p', ops, rfl, _⟩ := h
    simp only [FragE, Bool.and_eq_true] at hf
    exact ⟨_, rfl, by simpa [isZero] using nz _ (idOk_ne_zero f hf.1.1.1.1)⟩
  | mcall o m as =>
    obtain ⟨p, p', ps, rc, ops, nm, hnm, rfl, _⟩ := h
    simp only [FragE, Bool.and_eq_true] at hf
    obtain ⟨nm', hnm', hid, _, _⟩ := recvOk_spec o hf.1.1
    rw [hnm] at hnm'
    cases hnm'
    exact ⟨_, rfl, by simpa [isZero] using nz _ (idOk_ne_zero nm hid)⟩
  | list as => obtain ⟨p, p', ops, rfl, _⟩ := h; exact ⟨_, rfl, by simpa [isZero] using nz _ (by decide)⟩
  | plist as => obtain ⟨p, p', ops, rfl, _⟩ := h; exact ⟨_, rfl, by simpa [isZero] using nz _ (by decide)⟩
  | key v => obtain ⟨p, rfl⟩ := h; exact ⟨_, rfl, by simpa [isZero] using nz _ (by decide)⟩
  | movie v =>
    simp only [FragE] at hf
    rcases h with ⟨p, rfl⟩ | ⟨p, q, o, rfl, _⟩
    · exact ⟨_, rfl, by simpa [isZero] using nz _ (idOk_ne_zero v hf)⟩
    · exact ⟨_, rfl, by simpa [isZero] using nz _ (by decide)⟩
  | oprop v o => obtain ⟨p, x, rfl, _⟩ := h; exact ⟨_, rfl, by simpa [isZero] using nz _ (by decide)⟩
  | chunk k a b d => obtain ⟨p, x, y, z, rfl, _⟩ := h; exact ⟨_, rfl, by cases k <;> simpa [isZero, ChunkKind.tag] using nz _ (by decide)⟩
  | the t k as =>
    cases as with
    | nil =>
      cases t with
      | sys => simp only [EmbH] at h; obtain ⟨p, q, o, rfl, _⟩ := h; exact ⟨_, rfl, by simpa [isZero] using nz _ (by decide)⟩
      | special =>
        simp only [EmbH] at h; obtain ⟨p, rfl⟩ := h
        simp only [FragE, decide_eq_true_eq] at hf
        refine ⟨_, rfl, ?_⟩
        have : k = 0 ∨ k = 1 ∨ k = 2 ∨ k = 3 ∨ k = 4 ∨ k = 5 := by omega
        rcases this with rfl | rfl | rfl | rfl | rfl | rfl <;> simpa [isZero] using nz _ (by decide)
      | _ => simp [FragE] at hf
    | cons x xs =>
      cases xs with
      | nil =>
        simp only [EmbH] at h
        rcases h with ⟨p, q, cls, tb, w, nm, _, _, rfl⟩ | ⟨p, y, op, r, ty, hst, _, rfl, _⟩ | ⟨_, p, q, y, rfl, _⟩
        · exact ⟨_, rfl, by simpa [isZero] using nz _ (by decide)⟩
        rotate_left
        · exact ⟨_, rfl, by simpa [isZero] using nz _ (by decide)⟩
        · refine ⟨_, rfl, ?_⟩
          have hop : op = S "number" ∨ op = S "last" := by
            cases t <;> simp [strThe] at hst <;> first | exact Or.inr hst.2.1.symm | exact Or.inl hst.1.symm
          rcases hop with rfl | rfl <;> simpa [isZero] using nz _ (by decide)
      | cons y ys => cases t <;> simp [FragE] at hf
  | _ => simp [FragE] at hf

theorem embL_length : ∀ (as : List Expr) (ns : List Node), EmbL as ns → ns.length = as.length
  | [], ns, h => by simp only [EmbL] at h; subst h; rfl
  | e :: es, ns, h => by
    obtain ⟨x, xs, rfl, _, hxs⟩ := h
    simp [embL_length es xs hxs]

theorem idxOf_contains (n : Spec.Name) (l : List Spec.Name) (k i : Nat) (h : idxOf n l k = some i) : l.contains n = true := by
  have := (idxOf_get n l k i h).2
  rw [List.contains_iff_mem]
  exact List.mem_of_getElem? this

theorem idxOf_not_contains (n : Spec.Name) (l : List Spec.Name) (k : Nat) (h : idxOf n l k = none) : l.contains n = false := by
  have := idxOf_none n l k h
  cases hc : l.contains n with
  | false => rfl
  | true => exact absurd (List.contains_iff_mem.mp hc) this

mutual
theorem EmbH.toEmb (hs : List Spec.Name) : ∀ (e : Expr) (n : Node), EmbH hs e n → Emb e n
  | .int _, _, h => h
  | .str _, _, h => h
  | .sym _, _, h => h
  | .var .loc _, _, h => h
  | .var .param _, _, h => h
  | .var .glob _, _, h => h
  | .var .prop _, _, h => h
  | .un _ a, _, h => by obtain ⟨p, x, rfl, hx⟩ := h; exact ⟨p, x, rfl, EmbH.toEmb hs a x hx⟩
  | .bin _ a b, _, h => by
    obtain ⟨p, x, y, rfl, hx, hy⟩ := h
    exact ⟨p, x, y, rfl, EmbH.toEmb hs a x hx, EmbH.toEmb hs b y hy⟩
  | .field a, _, h => by obtain ⟨p, x, rfl, hx⟩ := h; exact ⟨p, x, rfl, EmbH.toEmb hs a x hx⟩
  | .call f as, _, h => by
    obtain ⟨p, p', ops, rfl, hops⟩ := h
    exact ⟨p, p', _, ops, rfl, EmbLH.toEmbL hs as ops hops⟩
  | .list as, _, h => by
    obtain ⟨p, p', ops, rfl, hops⟩ := h
    exact ⟨p, p', ops, rfl, EmbLH.toEmbL hs as ops hops⟩
  | .float _ _, _, h => by simp [EmbH] at h
  | .me, _, h => by simp [EmbH] at h
  | .mcall o m as, _, h => by
    obtain ⟨p, p', ps, rc, ops, nm, hnm, rfl, hops, hrc⟩ := h
    exact ⟨p, p', ps, rc, ops, nm, hnm, rfl, EmbLH.toEmbL hs as ops hops, hrc⟩
  | .plist as, _, h => by
    obtain ⟨p, p', ops, rfl, hops⟩ := h
    exact ⟨p, p', ops, rfl, EmbLH.toEmbL hs as ops hops⟩
  | .the t k as, _, h => by
    cases as with
    | cons x xs =>
      cases xs with
      | cons y ys => cases t <;> simp [EmbH] at h
      | nil =>
        simp only [EmbH] at h
        simp only [Emb]
        rcases h with h | ⟨p, y, op, r, ty, h1, h2, rfl, hy⟩ | ⟨ht, p, q, y, rfl, hy⟩
        · exact Or.inl h
        · exact Or.inr (Or.inl ⟨p, y, op, r, ty, h1, h2, rfl, EmbH.toEmb hs x y hy⟩)
        · exact Or.inr (Or.inr ⟨ht, p, q, y, rfl, EmbH.toEmb hs x y hy⟩)
    | nil => cases t <;> first | (simp [EmbH] at h; done) | (simp only [EmbH] at h; simp only [Emb]; exact h)
  | .key _, _, h => by simp only [EmbH] at h; simp only [Emb]; exact h
  | .movie _, _, h => by simp only [EmbH] at h; simp only [Emb]; exact h
  | .oprop v o, _, h => by obtain ⟨p, x, rfl, hx⟩ := h; exact ⟨p, x, rfl, EmbH.toEmb hs o x hx⟩
  | .chunk k a b d, _, h => by
    obtain ⟨p, x, y, z, rfl, ha, hb, hd⟩ := h
    refine ⟨p, x, y, z, rfl, EmbH.toEmb hs a x ha, ?_, EmbH.toEmb hs d z hd⟩
    rcases hb with hb | hb
    · exact Or.inl hb
    · exact Or.inr ⟨hb.1, EmbH.toEmb hs b y hb.2⟩
theorem EmbLH.toEmbL (hs : List Spec.Name) : ∀ (as : List Expr) (ns : List Node), EmbLH hs as ns → EmbL as ns
  | [], _, h => h
  | e :: es, _, h => by
    obtain ⟨x, xs, rfl, hx, hxs⟩ := h
    exact ⟨x, xs, rfl, EmbH.toEmb hs e x hx, EmbLH.toEmbL hs es xs hxs⟩
end

theorem EmbSH.toEmbS (hs : List Spec.Name) (s : Stmt) (n : Node) (h : EmbSH hs s n) : EmbS s n := by
  cases s with
  | set lv v => obtain ⟨p, q, l, r, rfl, hl, hr⟩ := h; exact ⟨p, q, l, r, rfl, hl, EmbH.toEmb hs v r hr⟩
  | call f as => obtain ⟨p, q, q', ops, rfl, hops⟩ := h; exact ⟨p, q, q', _, ops, rfl, EmbLH.toEmbL hs as ops hops⟩
  | exit => exact h
  | put m v lv => obtain ⟨p, q, l, r, rfl, hl, hr⟩ := h; exact ⟨p, q, l, r, rfl, hl, EmbH.toEmb hs v r hr⟩
  | delete t => exact h
  | hilite t => exact h
  | mcall o m as =>
    obtain ⟨p, q, q', ps, rc, ops, nm, hnm, rfl, hops, hrc⟩ := h
    exact ⟨p, q, q', ps, rc, ops, nm, hnm, rfl, EmbLH.toEmbL hs as ops hops, hrc⟩
  | _ => simp [EmbSH] at h

theorem EmbSsH.toEmbSs (hs : List Spec.Name) : ∀ (ss : List Stmt) (ns : List Node), EmbSsH hs ss ns → EmbSs ss ns
  | [], _, h => h
  | s :: ss, _, h => by
    obtain ⟨x, xs, rfl, hx, hxs⟩ := h
    exact ⟨x, xs, rfl, EmbSH.toEmbS hs s x hx, EmbSsH.toEmbSs hs ss xs hxs⟩

theorem embLH_length (hs : List Spec.Name) (as : List Expr) (ns : List Node) (h : EmbLH hs as ns) : ns.length = as.length :=
  embL_length as ns (EmbLH.toEmbL hs as ns h)

/-! ### the relation between the scheme's lowering context and the model's parse context -/

/-- what the container layer (L5) establishes: the model's context holds the scheme's final name table and constant pool, the
    handler's local / parameter tables as nodes, and the script's handler names -/
structure Rel (c : Spec.Ctx) (sF : St) (ctx : Lscr.Ctx) : Prop where
  names : ctx.names = sF.names
  consts : ∀ (k : Nat) (cst : Spec.Const), sF.consts[k]? = some cst → ctx.constants[k]? = some (constName cst)
  locals : ∀ (v : Spec.Name) (j : Nat), idxOf v c.locals 0 = some j → ∃ p, ctx.localVars[j]? = some (.leaf .localVar (.s v) p)
  params : ∀ (v : Spec.Name) (o : Nat), c.paramOff v = some o → ∃ j p, o = 6 * j ∧ ctx.params[j]? = some (.leaf .paramName (.s v) p)
  lfn : ∀ (f : Spec.Name) (k : Nat), idxOf f c.handlers 0 = some k → ctx.localFuncs[k]? = some f

/-- result of running the code of an expression: one node pushed, the globals list possibly extended -/
def Pushed (G hs : List Spec.Name) (e : Expr) (ctx : Lscr.Ctx) (a : Nat) (code : List Instr) (st : PState) : Prop :=
  ∃ n gv', EmbH hs e n ∧ GvNext G st.gvars gv' ∧ runIs ctx a code st = .ok { st with stack := n :: st.stack, gvars := gv' }

/-- a pool constant: `44 6k` / `84 6k` pushes the model's constant number `k` -/
theorem lit_ok (cst : Spec.Const) (hg : GoodConst cst) (s0 s1 : St) (code : List Instr)
    (h : (do litInstr (← addConst cst) : M (List Instr)) s0 = .ok (code, s1)) :
    Ext s0 s1 ∧ (∀ i ∈ code, i.opc ≠ 153) ∧ ∀ (c : Spec.Ctx) (sF : St) (ctx : Lscr.Ctx), Ext s1 sF → Rel c sF ctx →
      ∀ (a : Int) (st : PState), st.bpc = 6 → ∃ i, code = [i] ∧
        execI ctx i a st = .ok { st with stack := .leaf .const (constName cst) a :: st.stack } := by
  simp only [M_bind_ok] at h
  obtain ⟨k, s', hadd, hlit⟩ := h
  obtain ⟨hext, hk⟩ := addConst_ok _ hg _ _ _ hadd
  unfold litInstr at hlit
  split at hlit
  · simp only [M_pure_ok, Prod.mk.injEq] at hlit
    obtain ⟨rfl, rfl⟩ := hlit
    refine ⟨hext, by simp [Instr.opc], ?_⟩
    intro c sF ctx hF hrel a st hb
    exact ⟨_, rfl, exec_lit1 ctx k _ (hrel.consts k cst (hF.const hk)) a st hb⟩
  · split at hlit
    · simp only [M_pure_ok, Prod.mk.injEq] at hlit
      obtain ⟨rfl, rfl⟩ := hlit
      refine ⟨hext, by simp [Instr.opc], ?_⟩
      intro c sF ctx hF hrel a st hb
      exact ⟨_, rfl, exec_lit2 ctx k _ (hrel.consts k cst (hF.const hk)) a st hb⟩
    · simp [Spec.fail] at hlit

theorem lowerInt_ok (n : Nat) (s0 s1 : St) (code : List Instr) (h : lowerInt n s0 = .ok (code, s1)) :
    Ext s0 s1 ∧ (∀ i ∈ code, i.opc ≠ 153) ∧ ∀ (c : Spec.Ctx) (sF : St) (ctx : Lscr.Ctx), Ext s1 sF → Rel c sF ctx →
      ∀ (a : Int) (st : PState), st.bpc = 6 → ∃ i, code = [i] ∧
        execI ctx i a st = .ok { st with stack := .leaf .const (.s (natStr n)) a :: st.stack } := by
  unfold lowerInt at h
  split at h
  · rename_i h0
    simp only [M_pure_ok, Prod.mk.injEq] at h
    obtain ⟨rfl, rfl⟩ := h
    refine ⟨Ext.refl _, by simp [Instr.opc], ?_⟩
    intro c sF ctx _ _ a st _
    exact ⟨_, rfl, by rw [h0]; exact exec_zero ctx a st⟩
  · split at h
    · rename_i h1
      simp only [M_pure_ok, Prod.mk.injEq] at h
      obtain ⟨rfl, rfl⟩ := h
      refine ⟨Ext.refl _, by simp [Instr.opc], ?_⟩
      intro c sF ctx _ _ a st _
      exact ⟨_, rfl, exec_int1 ctx n h1 a st⟩
    · split at h
      · rename_i h2
        simp only [M_pure_ok, Prod.mk.injEq] at h
        obtain ⟨rfl, rfl⟩ := h
        refine ⟨Ext.refl _, by simp [Instr.opc], ?_⟩
        intro c sF ctx _ _ a st _
        exact ⟨_, rfl, exec_int2 ctx n h2 a st⟩
      · split at h
        · rename_i h31
          exact lit_ok (.int n) (show GoodConst (.int n) from h31) s0 s1 code h
        · simp [Spec.fail] at h

theorem runIs_single (ctx : Lscr.Ctx) (a : Nat) (i : Instr) (st : PState) : runIs ctx a [i] st = execI ctx i (a : Int) st := by
  simp only [runIs]
  cases execI ctx i (a : Int) st <;> rfl

/-- `n` zero pushes -/
def zs : Nat → Nat → List Node
  | _, 0 => []
  | a, n + 1 => zs (a + 1) n ++ [zn (a : Int)]

theorem codeSize_zeros (n : Nat) : codeSize (List.replicate n (Instr.op1 0x03)) = n := by
  induction n with
  | zero => rfl
  | succ m ih => simp only [List.replicate_succ, codeSize, Instr.size, ih]; omega

theorem run_zeros (ctx : Lscr.Ctx) : ∀ (n a : Nat) (st : PState),
    runIs ctx a (List.replicate n (Instr.op1 0x03)) st = .ok { st with stack := zs a n ++ st.stack }
  | 0, a, st => by simp [runIs, zs]
  | n + 1, a, st => by
    have e : List.replicate (n + 1) (Instr.op1 0x03) = [Instr.op1 0x03] ++ List.replicate n (Instr.op1 0x03) := by
      simp [List.replicate_succ]
    rw [e, runIs_append, runIs_single, exec_zero]
    simp only [Except.bind]
    have e2 : a + codeSize [Instr.op1 0x03] = a + 1 := by simp [codeSize, Instr.size]
    rw [e2, run_zeros ctx n (a + 1)]
    simp [zs, zn]

/-! #### the slice instruction: eight slot nodes (one or several filled) under the string -/

def kindOf (r : Nat) : Str := if r = 1 then S "char" else if r = 2 then S "word" else if r = 3 then S "item" else S "line"

theorem kindOf_rank (k : ChunkKind) : kindOf k.rank = k.tag.toList := by cases k <;> rfl

/-- `add_str_operation` on nodes with names -/
def stepN (kind : Str) (idx : Int) (s e op : Node) : Node :=
  match s.name, e.name with
  | .ok sn, .ok en => if sn ≠ .s (S "0") then .strOp kind idx s (if en ≠ .s (S "0") then e else .none) op else op
  | _, _ => op

theorem addStr_stepN (op s e : Node) (sn en : Lscr.Name) (hs : s.name = .ok sn) (he : e.name = .ok en) (kind : Str) (idx : Int) :
    addStrOperation op s e kind idx = .ok (stepN kind idx s e op) := by
  by_cases h : sn = .s (S "0")
  · simp [addStrOperation, stepN, hs, he, h, Bind.bind, Except.bind, pure, Except.pure]
  · simp [addStrOperation, stepN, hs, he, h, Bind.bind, Except.bind, pure, Except.pure]

/-- apply the slot pairs of a stack segment, top first (last, first of the coarsest remaining rank `rk`) -/
def applyL : Nat → List Node → Node → Int → Node
  | rk, e :: s :: rest, x, idx => applyL (rk - 1) rest (stepN (kindOf rk) idx s e x) idx
  | _, [], x, _ => x
  | _, [_], x, _ => x

def Named (l : List Node) : Prop := ∀ n ∈ l, ∃ nm, n.name = .ok nm

theorem addModifiers_ok (x : Node) (st : PState) (idx : Int) (l : List Node) (hl : l.length = 8) (hn : Named l) (rest : List Node)
    (hst : st.stack = l ++ rest) : addModifiers x st idx = .ok (applyL 4 l x idx, { st with stack := rest }) := by
  match l, hl with
  | [ll, fl, li, fi, lw, fw, lc, fc], _ =>
    obtain ⟨n1, h1⟩ := hn ll (by simp)
    obtain ⟨n2, h2⟩ := hn fl (by simp)
    obtain ⟨n3, h3⟩ := hn li (by simp)
    obtain ⟨n4, h4⟩ := hn fi (by simp)
    obtain ⟨n5, h5⟩ := hn lw (by simp)
    obtain ⟨n6, h6⟩ := hn fw (by simp)
    obtain ⟨n7, h7⟩ := hn lc (by simp)
    obtain ⟨n8, h8⟩ := hn fc (by simp)
    simp only [List.cons_append, List.nil_append] at hst
    simp only [addModifiers, PState.pop, hst, Bind.bind, Except.bind, pure, Except.pure,
      addStr_stepN _ fl ll n2 n1 h2 h1, addStr_stepN _ fi li n4 n3 h4 h3, addStr_stepN _ fw lw n6 n5 h6 h5, addStr_stepN _ fc lc n8 n7 h8 h7]
    rfl

theorem stepN_zero (kind : Str) (idx : Int) (p : Int) (e op : Node) : stepN kind idx (zn p) e op = op := by
  unfold stepN
  cases he : e.name <;> simp [zn, Node.name, natStr_zero]

def AllZ (l : List Node) : Prop := ∀ n ∈ l, ∃ p, n = zn p

theorem applyL_zeros : ∀ (l : List Node) (rk : Nat) (x : Node) (idx : Int), AllZ l → applyL rk l x idx = x
  | [], _, _, _, _ => by simp [applyL]
  | [_], _, _, _, _ => by simp [applyL]
  | e :: s :: rest, rk, x, idx, h => by
    obtain ⟨p, rfl⟩ := h s (by simp)
    rw [applyL, stepN_zero]
    exact applyL_zeros rest _ x idx (fun n hn => h n (by simp [hn]))

theorem applyL_append : ∀ (l1 l2 : List Node) (rk j : Nat) (x : Node) (idx : Int), l1.length = 2 * j →
    applyL rk (l1 ++ l2) x idx = applyL (rk - j) l2 (applyL rk l1 x idx) idx
  | [], l2, rk, j, x, idx, h => by
    have : j = 0 := by simp at h; omega
    subst this; simp [applyL]
  | [_], l2, rk, j, x, idx, h => by simp at h; omega
  | e :: s :: rest, l2, rk, j, x, idx, h => by
    obtain ⟨j', rfl⟩ : ∃ j', j = j' + 1 := ⟨j - 1, by simp at h; omega⟩
    have hl : rest.length = 2 * j' := by simp at h; omega
    simp only [List.cons_append, applyL]
    rw [applyL_append rest l2 (rk - 1) j' _ idx hl]
    have : rk - 1 - j' = rk - (j' + 1) := by omega
    rw [this]

theorem zs_allZ : ∀ (n a : Nat), AllZ (zs a n)
  | 0, _ => by intro n hn; simp [zs] at hn
  | n + 1, a => by
    intro m hm
    simp only [zs, List.mem_append, List.mem_singleton] at hm
    rcases hm with hm | rfl
    · exact zs_allZ n (a + 1) m hm
    · exact ⟨_, rfl⟩

theorem zs_length : ∀ (n a : Nat), (zs a n).length = n
  | 0, _ => rfl
  | n + 1, a => by simp [zs, zs_length n]

theorem zn_named (p : Int) : ∃ nm, (zn p).name = .ok nm := ⟨_, rfl⟩

theorem allZ_named (l : List Node) (h : AllZ l) : Named l := by
  intro n hn; obtain ⟨p, rfl⟩ := h n hn; exact zn_named p

/-! slot code -/

abbrev Slots := List (Nat × List Instr × List Instr)

def getSlot (sl : Slots) (r : Nat) : List Instr :=
  match sl.find? (fun x => x.1 == r) with
  | some (_, a, b) => a ++ b
  | none => [Instr.op1 0x03, .op1 0x03]

theorem slotCode_eq (sl : Slots) : slotCode sl = getSlot sl 1 ++ getSlot sl 2 ++ getSlot sl 3 ++ getSlot sl 4 := rfl

def slotsFrom (sl : Slots) : Nat → List Instr
  | 0 => getSlot sl 1 ++ getSlot sl 2 ++ getSlot sl 3 ++ getSlot sl 4
  | 1 => getSlot sl 2 ++ getSlot sl 3 ++ getSlot sl 4
  | 2 => getSlot sl 3 ++ getSlot sl 4
  | 3 => getSlot sl 4
  | _ => []

def Above (m : Nat) (sl : Slots) : Prop := ∀ x ∈ sl, m < x.1

theorem getSlot_above (sl : Slots) (m r : Nat) (h : Above m sl) (hr : r ≤ m) : getSlot sl r = [Instr.op1 0x03, .op1 0x03] := by
  have : sl.find? (fun x => x.1 == r) = none := by
    rw [List.find?_eq_none]
    intro x hx
    have := h x hx
    simp only [beq_iff_eq]
    omega
  simp only [getSlot, this]

theorem getSlot_cons (k : Nat) (a b : List Instr) (sl : Slots) (r : Nat) :
    getSlot ((k, a, b) :: sl) r = if k = r then a ++ b else getSlot sl r := by
  by_cases h : k = r
  · simp [getSlot, List.find?, h]
  · have : (k == r) = false := by simpa using h
    simp [getSlot, List.find?, this, h]

theorem slotsFrom_nil (m : Nat) : slotsFrom [] m = List.replicate (2 * (4 - m)) (Instr.op1 0x03) := by
  match m with
  | 0 => simp [slotsFrom, getSlot, List.replicate]
  | 1 => simp [slotsFrom, getSlot, List.replicate]
  | 2 => simp [slotsFrom, getSlot, List.replicate]
  | 3 => simp [slotsFrom, getSlot, List.replicate]
  | n + 4 => simp [slotsFrom]

theorem slotsFrom_cons (k : ChunkKind) (ca cb : List Instr) (sl : Slots) (r : Nat) (hr : r < k.rank) (h : Above k.rank sl) :
    slotsFrom ((k.rank, ca, cb) :: sl) r
      = List.replicate (2 * (k.rank - 1 - r)) (Instr.op1 0x03) ++ (ca ++ cb) ++ slotsFrom sl k.rank := by
  have g : ∀ r', r' ≤ k.rank → getSlot sl r' = [Instr.op1 0x03, .op1 0x03] := fun r' hr' => getSlot_above sl k.rank r' h hr'
  have hr4 : r = 0 ∨ r = 1 ∨ r = 2 ∨ r = 3 := by cases k <;> simp [ChunkKind.rank] at hr <;> omega
  rcases hr4 with rfl | rfl | rfl | rfl <;> cases k <;> simp only [ChunkKind.rank] at hr g ⊢ <;>
    first
    | (exfalso; omega)
    | (simp [slotsFrom, getSlot_cons, g 1 (by omega), g 2 (by omega), g 3 (by omega), List.replicate]; done)
    | (simp [slotsFrom, getSlot_cons, g 1 (by omega), g 2 (by omega), List.replicate]; done)
    | (simp [slotsFrom, getSlot_cons, g 1 (by omega), List.replicate]; done)
    | (simp [slotsFrom, getSlot_cons, List.replicate]; done)

theorem rank_le4 (k : ChunkKind) : 1 ≤ k.rank ∧ k.rank ≤ 4 := by cases k <;> simp [ChunkKind.rank]

/-- result of running the slot codes of the ranks above `r` and the base of a chain that ends in `e`: the slot pairs `l`
    (coarsest on top) under the base node `x`; the slice instruction will turn them into the image of `e` -/
def TailRun (G hs : List Spec.Name) (e : Expr) (r : Nat) (ctx : Lscr.Ctx) (ad : Nat) (code : List Instr) (st : PState) : Prop :=
  ∃ (l : List Node) (x : Node) (gv' : List Node), l.length = 2 * (4 - r) ∧ Named l ∧ GvNext G st.gvars gv' ∧
    runIs ctx ad code st = .ok { st with stack := x :: (l ++ st.stack), gvars := gv' } ∧ ∀ idx, EmbH hs e (applyL 4 l x idx)

/-- a string that is not merged into the slice: zeros for the remaining slots, then the string -/
theorem tail_of_expr (G hs : List Spec.Name) (d : Expr) (m : Nat) (ctx : Lscr.Ctx) (cd : List Instr)
    (PD : ∀ (ad : Nat) (st : PState), st.bpc = 6 → GvOk G st.gvars → Pushed G hs d ctx ad cd st)
    (ad : Nat) (st : PState) (hb : st.bpc = 6) (hgv : GvOk G st.gvars) :
    TailRun G hs d m ctx ad (List.replicate (2 * (4 - m)) (Instr.op1 0x03) ++ cd) st := by
  have r0 := run_zeros ctx (2 * (4 - m)) ad st
  obtain ⟨nd, gv1, hemb, hgv1, hr1⟩ := PD (ad + 2 * (4 - m)) { st with stack := zs ad (2 * (4 - m)) ++ st.stack } hb hgv
  refine ⟨zs ad (2 * (4 - m)), nd, gv1, zs_length _ _, allZ_named _ (zs_allZ _ _), hgv1, ?_, ?_⟩
  · rw [runIs_append, r0]
    simp only [Except.bind, codeSize_zeros]
    exact hr1
  · intro idx
    rw [applyL_zeros _ _ _ _ (zs_allZ _ _)]
    exact hemb

theorem chunk_core (G hs : List Spec.Name) (k : ChunkKind) (a b d : Expr) (r : Nat) (hr : r < k.rank) (hfa : FragE a = true)
    (hza : isZero a = false) (hfb : FragE b = true) (ctx : Lscr.Ctx) (ca cb tcode : List Instr)
    (PA : ∀ (ad : Nat) (st : PState), st.bpc = 6 → GvOk G st.gvars → Pushed G hs a ctx ad ca st)
    (PB : ∀ (ad : Nat) (st : PState), st.bpc = 6 → GvOk G st.gvars → Pushed G hs b ctx ad cb st)
    (PT : ∀ (ad : Nat) (st : PState), st.bpc = 6 → GvOk G st.gvars → TailRun G hs d k.rank ctx ad tcode st)
    (ad : Nat) (st : PState) (hb : st.bpc = 6) (hgv : GvOk G st.gvars) :
    TailRun G hs (.chunk k a b d) r ctx ad (List.replicate (2 * (k.rank - 1 - r)) (Instr.op1 0x03) ++ (ca ++ cb) ++ tcode) st := by
  obtain ⟨hk1, hk4⟩ := rank_le4 k
  let n0 := 2 * (k.rank - 1 - r)
  have r0 := run_zeros ctx n0 ad st
  obtain ⟨na, gv1, hemba, hgv1, hr1⟩ := PA (ad + n0) { st with stack := zs ad n0 ++ st.stack } hb hgv
  obtain ⟨nb, gv2, hembb, hgv2, hr2⟩ := PB (ad + n0 + codeSize ca) { st with stack := na :: (zs ad n0 ++ st.stack), gvars := gv1 } hb hgv1.1
  obtain ⟨lt, x, gv3, hlen, hnamed, hgv3, hr3, himg⟩ := PT (ad + n0 + codeSize ca + codeSize cb)
    { st with stack := nb :: na :: (zs ad n0 ++ st.stack), gvars := gv2 } hb hgv2.1
  obtain ⟨sn, hsn, hsz⟩ := embH_name_zero hs a na hfa hemba
  obtain ⟨en, hen, hez⟩ := embH_name_zero hs b nb hfb hembb
  have hsn0 : sn ≠ .s (S "0") := fun e => by rw [hsz.mp e] at hza; cases hza
  refine ⟨lt ++ ([nb, na] ++ zs ad n0), x, gv3, ?_, ?_, (hgv1.trans hgv2).trans hgv3, ?_, ?_⟩
  · simp only [List.length_append, hlen, List.length_cons, List.length_nil, zs_length, n0]
    omega
  · intro n hn
    simp only [List.mem_append, List.mem_cons, List.mem_nil_iff, or_false] at hn
    rcases hn with hn | (rfl | rfl) | hn
    · exact hnamed n hn
    · exact ⟨_, hen⟩
    · exact ⟨_, hsn⟩
    · exact allZ_named _ (zs_allZ _ _) n hn
  · rw [runIs_append, runIs_append, r0]
    simp only [Except.bind, codeSize_zeros]
    rw [runIs_append, hr1]
    simp only [Except.bind]
    rw [hr2]
    simp only [Except.bind, codeSize_append, codeSize_zeros]
    have e1 : ad + (n0 + (codeSize ca + codeSize cb)) = ad + n0 + codeSize ca + codeSize cb := by omega
    rw [e1, hr3]
    simp [List.append_assoc]
  · intro idx
    rw [applyL_append lt ([nb, na] ++ zs ad n0) 4 (4 - k.rank) x idx hlen]
    have e4 : 4 - (4 - k.rank) = k.rank := by omega
    rw [e4]
    simp only [List.cons_append, List.nil_append, applyL]
    rw [applyL_zeros _ _ _ _ (zs_allZ _ _)]
    simp only [stepN, hsn, hen, hsn0, ne_eq, not_false_eq_true, if_true, kindOf_rank]
    refine ⟨idx, na, _, _, rfl, hemba, ?_, himg idx⟩
    cases hzb : isZero b with
    | true => left; exact ⟨rfl, by rw [if_neg (by rw [hez.mpr hzb]; simp)]⟩
    | false =>
      right
      have : en ≠ .s (S "0") := fun e => by rw [hez.mp e] at hzb; cases hzb
      exact ⟨rfl, by rw [if_pos this]; exact hembb⟩

theorem exec_strop_gen (ctx : Lscr.Ctx) (x : Node) (l : List Node) (hl : l.length = 8) (hn : Named l) (a : Int) (st : PState)
    (rest : List Node) (hst : st.stack = x :: (l ++ rest)) :
    execI ctx (.op1 0x17) a st = .ok { st with stack := applyL 4 l x a :: rest } := by
  have hl' : Opcodes.opcodes.lookup 0x17 = some { cls := "StringOperationOpcode", impl := "StringOperationOpcode", nbytes := 1, kind := "plain", attrs := [] } := rfl
  simp only [execI, hl']
  unfold process0
  simp only [PState.pop, hst, Bind.bind, Except.bind, pure, Except.pure]
  rw [addModifiers_ok x { st with stack := l ++ rest } a l hl hn rest rfl]
  rfl

/-- `lowerChunkTail` answers `none` without touching the state -/
theorem tail_none (c : Spec.Ctx) (r : Nat) (d : Expr) (s s' : St) (h : lowerChunkTail c r d s = .ok (none, s')) : s' = s := by
  cases d with
  | chunk k a b d' =>
    rw [lowerChunkTail] at h
    by_cases hk : k.rank > r
    · simp only [hk, if_true, M_bind_ok] at h
      obtain ⟨ca, sa, _, cb, sb, _, res, s3, _, h⟩ := h
      cases res with
      | none =>
        simp only [M_bind_ok, M_pure_ok, Prod.mk.injEq] at h
        obtain ⟨_, _, _, h, _⟩ := h
        cases h
      | some v =>
        obtain ⟨sl, base⟩ := v
        simp only [M_pure_ok, Prod.mk.injEq] at h
        cases h.1
    · simp only [hk, if_false, M_pure_ok, Prod.mk.injEq] at h
      exact h.2
  | _ =>
    rw [lowerChunkTail] at h
    · simp only [M_pure_ok, Prod.mk.injEq] at h
      exact h.2
    all_goals (intros; contradiction)

/-- what `stack_lemma` states about one expression (abbreviation for hypotheses) -/
def StackOK (c : Spec.Ctx) (e : Expr) (s0 s1 : St) (code : List Instr) : Prop :=
  Ext s0 s1 ∧ (∀ i ∈ code, i.opc ≠ 153) ∧
    ∀ (sF : St) (ctx : Lscr.Ctx), Ext s1 sF → Rel c sF ctx → ∀ (G : List Spec.Name), (∀ g ∈ e.vars .glob, g ∈ G) →
      ∀ (a : Nat) (st : PState), st.bpc = 6 → GvOk G st.gvars → Pushed G c.handlers e ctx a code st

/-- the same for the merged tail of a chain -/
def TailOK (c : Spec.Ctx) (e : Expr) (r : Nat) (s0 s1 : St) (sl : Slots) (base : List Instr) : Prop :=
  Ext s0 s1 ∧ Above r sl ∧ (∀ i ∈ slotsFrom sl r ++ base, i.opc ≠ 153) ∧
    ∀ (sF : St) (ctx : Lscr.Ctx), Ext s1 sF → Rel c sF ctx → ∀ (G : List Spec.Name), (∀ g ∈ e.vars .glob, g ∈ G) →
      ∀ (ad : Nat) (st : PState), st.bpc = 6 → GvOk G st.gvars → TailRun G c.handlers e r ctx ad (slotsFrom sl r ++ base) st

theorem tailOK_of_stack (c : Spec.Ctx) (d : Expr) (m : Nat) (s0 s1 : St) (cd : List Instr) (h : StackOK c d s0 s1 cd) :
    TailOK c d m s0 s1 [] cd := by
  obtain ⟨hext, hop, hrun⟩ := h
  refine ⟨hext, (fun x hx => absurd hx (List.not_mem_nil)), ?_, ?_⟩
  · intro i hi
    rw [slotsFrom_nil] at hi
    rcases List.mem_append.mp hi with hi | hi
    · obtain ⟨_, rfl⟩ := List.mem_replicate.mp hi; simp [Instr.opc]
    · exact hop i hi
  · intro sF ctx hF hrel G hG ad st hb hgv
    rw [slotsFrom_nil]
    exact tail_of_expr G c.handlers d m ctx cd (fun ad' st' hb' hgv' => hrun sF ctx hF hrel G hG ad' st' hb' hgv') ad st hb hgv

theorem chunk_tailOK (c : Spec.Ctx) (k : ChunkKind) (a b d : Expr) (r : Nat) (hr : r < k.rank) (hfa : FragE a = true)
    (hza : isZero a = false) (hfb : FragE b = true) (s0 sa sb s1 : St) (ca cb : List Instr) (sl' : Slots) (base : List Instr)
    (SA : StackOK c a s0 sa ca) (SB : StackOK c b sa sb cb) (ST : TailOK c d k.rank sb s1 sl' base) :
    TailOK c (.chunk k a b d) r s0 s1 ((k.rank, ca, cb) :: sl') base := by
  obtain ⟨hexta, hopa, hruna⟩ := SA
  obtain ⟨hextb, hopb, hrunb⟩ := SB
  obtain ⟨hextt, habove, hopt, hrunt⟩ := ST
  have hcode : slotsFrom ((k.rank, ca, cb) :: sl') r ++ base
      = List.replicate (2 * (k.rank - 1 - r)) (Instr.op1 0x03) ++ (ca ++ cb) ++ (slotsFrom sl' k.rank ++ base) := by
    rw [slotsFrom_cons k ca cb sl' r hr habove, List.append_assoc]
  refine ⟨(hexta.trans hextb).trans hextt, ?_, ?_, ?_⟩
  · intro x hx
    rcases List.mem_cons.mp hx with rfl | hx
    · exact hr
    · have := habove x hx; omega
  · intro i hi
    rw [hcode] at hi
    simp only [List.mem_append, List.mem_replicate] at hi
    rcases hi with (⟨_, rfl⟩ | hi | hi) | hi
    · simp [Instr.opc]
    · exact hopa i hi
    · exact hopb i hi
    · exact hopt i (List.mem_append.mpr hi)
  · intro sF ctx hF hrel G hG ad st hb hgv
    have hG3 : ∀ g ∈ a.vars .glob ++ b.vars .glob ++ d.vars .glob, g ∈ G := by simpa [Expr.vars] using hG
    rw [hcode]
    exact chunk_core G c.handlers k a b d r hr hfa hza hfb ctx ca cb (slotsFrom sl' k.rank ++ base)
      (fun ad' st' hb' hgv' => hruna sF ctx ((hextb.trans hextt).trans hF) hrel G (fun g hg => hG3 g (by simp [hg])) ad' st' hb' hgv')
      (fun ad' st' hb' hgv' => hrunb sF ctx (hextt.trans hF) hrel G (fun g hg => hG3 g (by simp [hg])) ad' st' hb' hgv')
      (fun ad' st' hb' hgv' => hrunt sF ctx hF hrel G (fun g hg => hG3 g (by simp [hg])) ad' st' hb' hgv')
      ad st hb hgv

/-- from the tail at rank 0 to the whole slice expression -/
theorem stackOK_of_tail (c : Spec.Ctx) (e : Expr) (s0 s1 : St) (sl : Slots) (base : List Instr) (h : TailOK c e 0 s0 s1 sl base) :
    StackOK c e s0 s1 (slotCode sl ++ base ++ [.op1 0x17]) := by
  obtain ⟨hext, _, hop, hrun⟩ := h
  have hcode : slotCode sl ++ base = slotsFrom sl 0 ++ base := rfl
  refine ⟨hext, ?_, ?_⟩
  · intro i hi
    rcases List.mem_append.mp hi with hi | hi
    · rw [hcode] at hi; exact hop i hi
    · simp only [List.mem_singleton] at hi; subst hi; simp [Instr.opc]
  · intro sF ctx hF hrel G hG ad st hb hgv
    obtain ⟨l, x, gv', hlen, hnamed, hgv', hr, himg⟩ := hrun sF ctx hF hrel G hG ad st hb hgv
    refine ⟨applyL 4 l x ((ad + codeSize (slotCode sl ++ base) : Nat) : Int), gv', himg _, hgv', ?_⟩
    rw [runIs_append, hcode, hr]
    simp only [Except.bind]
    rw [runIs_single, exec_strop_gen ctx x l (by simpa using hlen) hnamed _ _ st.stack rfl]


/-! #### object method calls `obj(mSel, a, …)` / `obj mSel, a, …`: opcode 58 -/

theorem mapLast_snoc {α} (f : α → α) : ∀ (l : List α) (x : α), mapLast f (l ++ [x]) = l ++ [f x]
  | [], x => rfl
  | [y], x => by simp [mapLast]
  | y :: z :: r, x => by
    have ih := mapLast_snoc f (z :: r) x
    simp only [List.cons_append] at ih ⊢
    rw [mapLast, ih]
    all_goals (intros; simp_all)

theorem clearHash_snoc (l : List Node) (n : Lscr.Name) (p : Int) (b : Bool) :
    clearHashLast (l ++ [.sym n p b]) = l ++ [.sym n p false] := by
  unfold clearHashLast
  rw [mapLast_snoc]

theorem startsLt_listName (res : Bool) : startsWith (listName res) (S "<") = res := by cases res <;> decide

theorem lookup_58 : Opcodes.opcodes.lookup 0x58 = some { cls := "CallObjectMethodOpcode", impl := "CallObjectMethodOpcode", nbytes := 2, kind := "param1", attrs := [] } := rfl

/-- the node opcode 58 builds -/
def mcallNode (v : Spec.Name) (a : Int) (res : Bool) (lp : Int) (ops : List Node) (rc : Node) : Node :=
  .callFn (.s v) a (.loadList (listName res) lp (clearHashLast ops)) true false false rc

def mcallResult (st : PState) (rest : List Node) (res : Bool) (a : Int) (nd : Node) : PState :=
  if res then { st with stack := nd :: rest } else { st with stack := rest, stmts := st.stmts ++ [.stmt a nd] }

/-- receiver = a local: `…; <6j>; 58 05` -/
theorem exec_mcall_loc (ctx : Lscr.Ctx) (j : Nat) (v : Spec.Name) (q : Int) (hp : ctx.localVars[j]? = some (.leaf .localVar (.s v) q)) (a : Int)
    (st : PState) (hb : st.bpc = 6) (res : Bool) (p lp : Int) (ops rest : List Node)
    (hs : st.stack = .leaf .const (.s (natStr (6 * j))) p :: .loadList (listName res) lp ops :: rest) :
    execI ctx (.op2 0x58 5) a st = .ok (mcallResult st rest res a (mcallNode v a res lp ops .none)) := by
  have hk : ¬ ("param1" = "bi" ∨ "param1" = "tri") := by decide
  simp only [execI, lookup_58, hk, if_false]
  unfold process1
  have h5 : ¬ ((5 : Nat) = 1 ∨ (5 : Nat) = 2 ∨ (5 : Nat) = 3) := by decide
  have h54 : ¬ ((5 : Nat) = 4) := by decide
  simp only [h5, if_false, findVarName, h54, if_true, popInt, PState.pop, hs, Node.name, toInt_natStr, Bind.bind, Except.bind, pure, Except.pure]
  have hr := recIndex_six { st with stack := .loadList (listName res) lp ops :: rest } j hb
  simp only [hr, pyGet_some _ _ _ hp, Node.name, startsLt_listName, mcallResult, mcallNode, PState.push, PState.addStmt]

/-- receiver = a parameter: `…; <6j>; 58 04` -/
theorem exec_mcall_param (ctx : Lscr.Ctx) (j : Nat) (v : Spec.Name) (q : Int) (hp : ctx.params[j]? = some (.leaf .paramName (.s v) q)) (a : Int)
    (st : PState) (hb : st.bpc = 6) (res : Bool) (p lp : Int) (ops rest : List Node)
    (hs : st.stack = .leaf .const (.s (natStr (6 * j))) p :: .loadList (listName res) lp ops :: rest) :
    execI ctx (.op2 0x58 4) a st = .ok (mcallResult st rest res a (mcallNode v a res lp ops .none)) := by
  have hk : ¬ ("param1" = "bi" ∨ "param1" = "tri") := by decide
  simp only [execI, lookup_58, hk, if_false]
  unfold process1
  have h5 : ¬ ((4 : Nat) = 1 ∨ (4 : Nat) = 2 ∨ (4 : Nat) = 3) := by decide
  simp only [h5, if_false, findVarName, if_true, popInt, PState.pop, hs, Node.name, toInt_natStr, Bind.bind, Except.bind, pure, Except.pure]
  have hr := recIndex_six { st with stack := .loadList (listName res) lp ops :: rest } j hb
  simp only [hr, pyGet_some _ _ _ hp, Node.name, startsLt_listName, mcallResult, mcallNode, PState.push, PState.addStmt]

/-- receiver = a global (`46 n` pushed a global or a local variable node of that name): `…; 46 n; 58 03` -/
theorem exec_mcall_var (ctx : Lscr.Ctx) (v : Spec.Name) (nd : Node) (q : Int)
    (hnd : nd = .leaf .globalVar (.s v) q ∨ nd = .leaf .localVar (.s v) q) (a : Int)
    (st : PState) (res : Bool) (lp : Int) (ops rest : List Node)
    (hs : st.stack = nd :: .loadList (listName res) lp ops :: rest) :
    execI ctx (.op2 0x58 3) a st = .ok (mcallResult st rest res a (mcallNode v a res lp ops nd)) := by
  have hk : ¬ ("param1" = "bi" ∨ "param1" = "tri") := by decide
  simp only [execI, lookup_58, hk, if_false]
  unfold process1
  have h3 : ((3 : Nat) = 1 ∨ (3 : Nat) = 2 ∨ (3 : Nat) = 3) := by decide
  have hl : lingo false nd 0 = .ok (.s v) := by rcases hnd with rfl | rfl <;> rfl
  simp only [h3, if_true, findVarName, PState.pop, hs, hl, List.head?, Option.getD, Bind.bind, Except.bind, pure, Except.pure,
    startsLt_listName, mcallResult, mcallNode, PState.push, PState.addStmt]
  cases res <;> rfl

/-- opcode 46 (VariableOpcode): a global variable node if the name is known as a global, else a local variable node -/
theorem exec_var46 (ctx : Lscr.Ctx) (i : Nat) (v : Spec.Name) (hn : ctx.names[i]? = some v) (a : Int) (st : PState) :
    ∃ nd, (nd = .leaf .globalVar (.s v) a ∨ nd = .leaf .localVar (.s v) a) ∧
      execI ctx (.op2 0x46 i) a st = .ok { st with stack := nd :: st.stack } := by
  have hl : Opcodes.opcodes.lookup 0x46 = some { cls := "VariableOpcode", impl := "VariableOpcode", nbytes := 2, kind := "param1", attrs := [] } := rfl
  have hk : ¬ ("param1" = "bi" ∨ "param1" = "tri") := by decide
  simp only [execI, hl, hk, if_false]
  unfold process1
  simp only [nameAt, pyGet_some _ _ _ hn, Bind.bind, Except.bind, pure, Except.pure, PState.push]
  by_cases hc : (pyIn (.leaf .globalVar (.s v) a) st.gvars = true ∨ ctx.scriptGlobals.contains v = true)
  · exact ⟨_, Or.inl rfl, by rw [if_pos hc]⟩
  · exact ⟨_, Or.inr rfl, by rw [if_neg hc]⟩

/-- what `args_lemma` states about one argument list (abbreviation for hypotheses) -/
def ArgsOK (c : Spec.Ctx) (as : List Expr) (s0 s1 : St) (code : List Instr) : Prop :=
  Ext s0 s1 ∧ (∀ i ∈ code, i.opc ≠ 153) ∧
    ∀ (sF : St) (ctx : Lscr.Ctx), Ext s1 sF → Rel c sF ctx → ∀ (G : List Spec.Name), (∀ g ∈ Expr.varsList .glob as, g ∈ G) →
      ∀ (a : Nat) (st : PState), st.bpc = 6 → GvOk G st.gvars →
        ∃ ns gv', EmbLH c.handlers as ns ∧ GvNext G st.gvars gv' ∧ runIs ctx a code st = .ok { st with stack := ns.reverse ++ st.stack, gvars := gv' }

/-- the receiver reference and the call opcode: on a stack whose top is the argument list -/
theorem objRef_ok (c : Spec.Ctx) (o : Expr) (hro : recvOk o = true) (s0 s1 : St) (ref : List Instr) (k : Nat)
    (h : lowerObjRef c o s0 = .ok ((ref, k), s1)) :
    Ext s0 s1 ∧ (∀ i ∈ ref, i.opc ≠ 153) ∧ ∃ nm, mcallRecv o = some nm ∧
    ∀ (sF : St) (ctx : Lscr.Ctx), Ext s1 sF → Rel c sF ctx → ∀ (a : Nat) (st : PState), st.bpc = 6 →
      ∀ (res : Bool) (lp : Int) (ops rest : List Node), st.stack = .loadList (listName res) lp ops :: rest →
        ∃ rc, RecvNode o nm rc ∧ runIs ctx a (ref ++ [.op2 0x58 k]) st
          = .ok (mcallResult st rest res ((a + codeSize ref : Nat) : Int) (mcallNode nm ((a + codeSize ref : Nat) : Int) res lp ops rc)) := by
  obtain ⟨nm, hnm, hid, _, hshape⟩ := recvOk_spec o hro
  rcases hshape with rfl | rfl | rfl
  · -- local
    rw [lowerObjRef] at h
    cases ho : c.localOff nm with
    | none => rw [ho] at h; simp [Spec.fail] at h
    | some off =>
      rw [ho] at h
      simp only [M_bind_ok, M_pure_ok, Prod.mk.injEq] at h
      obtain ⟨ci, s2, hi, ⟨rfl, rfl⟩, rfl⟩ := h
      obtain ⟨hext, hop, hrun⟩ := lowerInt_ok off _ _ _ hi
      refine ⟨hext, hop, nm, rfl, ?_⟩
      intro sF ctx hF hrel a st hb res lp ops rest hs
      unfold Spec.Ctx.localOff at ho
      cases hidx : idxOf nm c.locals 0 with
      | none => rw [hidx] at ho; cases ho
      | some j =>
        rw [hidx] at ho
        simp only [Option.map_some, Option.some.injEq] at ho
        subst ho
        obtain ⟨q, hq⟩ := hrel.locals nm j hidx
        obtain ⟨i, rfl, hex⟩ := hrun c sF ctx hF hrel (a : Int) st hb
        refine ⟨.none, rfl, ?_⟩
        rw [runIs_append, runIs_single, hex]
        simp only [Except.bind]
        rw [runIs_single, exec_mcall_loc ctx j nm q hq _ { st with stack := .leaf .const (.s (natStr (6 * j))) (a : Int) :: st.stack } hb res (a : Int) lp ops rest (by simp only [hs])]
        rfl
  · -- parameter
    rw [lowerObjRef] at h
    cases ho : c.paramOff nm with
    | none => rw [ho] at h; simp [Spec.fail] at h
    | some off =>
      rw [ho] at h
      simp only [M_bind_ok, M_pure_ok, Prod.mk.injEq] at h
      obtain ⟨ci, s2, hi, ⟨rfl, rfl⟩, rfl⟩ := h
      obtain ⟨hext, hop, hrun⟩ := lowerInt_ok off _ _ _ hi
      refine ⟨hext, hop, nm, rfl, ?_⟩
      intro sF ctx hF hrel a st hb res lp ops rest hs
      obtain ⟨j, q, rfl, hq⟩ := hrel.params nm off ho
      obtain ⟨i, rfl, hex⟩ := hrun c sF ctx hF hrel (a : Int) st hb
      refine ⟨.none, rfl, ?_⟩
      rw [runIs_append, runIs_single, hex]
      simp only [Except.bind]
      rw [runIs_single, exec_mcall_param ctx j nm q hq _ { st with stack := .leaf .const (.s (natStr (6 * j))) (a : Int) :: st.stack } hb res (a : Int) lp ops rest (by simp only [hs])]
      rfl
  · -- global
    rw [lowerObjRef] at h
    simp only [M_bind_ok, M_pure_ok, Prod.mk.injEq] at h
    obtain ⟨i, s2, hn, cc, s3, hcc, ⟨rfl, rfl⟩, rfl⟩ := h
    obtain ⟨hext, hget, hlt, _⟩ := nameIdx_ok _ _ _ _ hn
    obtain ⟨rfl, rfl, hx⟩ := op2c_ok _ _ _ _ _ hcc
    refine ⟨hext, by simp [Instr.opc], nm, rfl, ?_⟩
    intro sF ctx hF hrel a st hb res lp ops rest hs
    have hnm' : ctx.names[i]? = some nm := by rw [hrel.names]; exact hF.name hget
    obtain ⟨nd, hnd, hex⟩ := exec_var46 ctx i nm hnm' (a : Int) st
    refine ⟨nd, ⟨(a : Int), hnd⟩, ?_⟩
    rw [runIs_append, runIs_single, hex]
    simp only [Except.bind]
    rw [runIs_single, exec_mcall_var ctx nm nd (a : Int) hnd _ { st with stack := nd :: st.stack } res lp ops rest (by simp [hs])]
    rfl

/-- **the code of a method call**, as expression (`res = true`: one node pushed) and as statement (`res = false`: one Statement) -/
theorem mcall_core (res : Bool) (c : Spec.Ctx) (o : Expr) (m : Spec.Name) (as : List Expr) (hro : recvOk o = true)
    (s0 s2 s3 s4 s1 : St) (im : Nat) (ca cn ref : List Instr) (k : Nat)
    (hn : nameIdx m s0 = .ok (im, s2)) (SA : ArgsOK c as s2 s3 ca) (hna : argsInstr res (as.length + 1) s3 = .ok (cn, s4))
    (href : lowerObjRef c o s4 = .ok ((ref, k), s1)) :
    Ext s0 s1 ∧ (∀ i ∈ [Instr.op2 0x45 im] ++ ca ++ cn ++ ref ++ [.op2 0x58 k], i.opc ≠ 153) ∧ ∃ nm, mcallRecv o = some nm ∧
    ∀ (sF : St) (ctx : Lscr.Ctx), Ext s1 sF → Rel c sF ctx → ∀ (G : List Spec.Name), (∀ g ∈ Expr.varsList .glob as, g ∈ G) →
      ∀ (a : Nat) (st : PState), st.bpc = 6 → GvOk G st.gvars →
        ∃ ns gv' rc lp, EmbLH c.handlers as ns ∧ RecvNode o nm rc ∧ GvNext G st.gvars gv' ∧
          runIs ctx a ([Instr.op2 0x45 im] ++ ca ++ cn ++ ref ++ [.op2 0x58 k]) st
            = .ok (mcallResult { st with gvars := gv' } st.stack res ((a + codeSize ([Instr.op2 0x45 im] ++ ca ++ cn ++ ref) : Nat) : Int)
                (.callFn (.s nm) ((a + codeSize ([Instr.op2 0x45 im] ++ ca ++ cn ++ ref) : Nat) : Int)
                  (.loadList (listName res) lp (ns.reverse ++ [.sym (.s m) (a : Int) false])) true false false rc)) := by
  obtain ⟨hext1, hget, hlt, _⟩ := nameIdx_ok _ _ _ _ hn
  obtain ⟨hext2, hop2, hrun2⟩ := SA
  obtain ⟨rfl, i, rfl, hiop, hiex⟩ := argsInstr_ok res (as.length + 1) _ _ _ hna
  obtain ⟨hext3, hop3, nm, hnm, hrun3⟩ := objRef_ok c o hro _ _ ref k href
  refine ⟨(hext1.trans hext2).trans hext3, ?_, nm, hnm, ?_⟩
  · intro j hj
    simp only [List.append_assoc, List.mem_append, List.mem_singleton, List.mem_cons, List.mem_nil_iff, or_false] at hj
    rcases hj with rfl | hj | rfl | hj | rfl
    · simp [Instr.opc]
    · exact hop2 j hj
    · exact hiop
    · exact hop3 j hj
    · simp [Instr.opc]
  intro sF ctx hF hrel G hG a st hb hgv
  have hnm' : ctx.names[im]? = some m := by rw [hrel.names]; exact ((hext2.trans hext3).trans hF).name hget
  have e1 := exec_sym ctx im m hnm' (a : Int) st
  obtain ⟨ns, gv1, hemb, hgv1, hr1⟩ := hrun2 sF ctx (hext3.trans hF) hrel G hG (a + 2) { st with stack := .sym (.s m) (a : Int) true :: st.stack } hb hgv
  have hlen := embLH_length _ as ns hemb
  have hle : as.length + 1 ≤ (ns.reverse ++ .sym (.s m) (a : Int) true :: st.stack).length := by simp; omega
  have htake : (ns.reverse ++ .sym (.s m) (a : Int) true :: st.stack).take (as.length + 1) = ns.reverse ++ [.sym (.s m) (a : Int) true] := by
    have : ns.reverse ++ .sym (.s m) (a : Int) true :: st.stack = (ns.reverse ++ [.sym (.s m) (a : Int) true]) ++ st.stack := by simp
    rw [this, List.take_append_of_le_length (by simp; omega), List.take_of_length_le (by simp; omega)]
  have hdrop : (ns.reverse ++ .sym (.s m) (a : Int) true :: st.stack).drop (as.length + 1) = st.stack := by
    have : ns.reverse ++ .sym (.s m) (a : Int) true :: st.stack = (ns.reverse ++ [.sym (.s m) (a : Int) true]) ++ st.stack := by simp
    rw [this, List.drop_append_of_le_length (by simp; omega), List.drop_of_length_le (by simp; omega), List.nil_append]
  have e2 := hiex ctx ((a + 2 + codeSize ca : Nat) : Int) { st with stack := ns.reverse ++ .sym (.s m) (a : Int) true :: st.stack, gvars := gv1 } hle
  simp only [htake, hdrop] at e2
  obtain ⟨rc, hrc, hr3⟩ := hrun3 sF ctx hF hrel (a + 2 + codeSize ca + i.size)
    { st with stack := .loadList (listName res) ((a + 2 + codeSize ca : Nat) : Int) (ns.reverse ++ [.sym (.s m) (a : Int) true]) :: st.stack, gvars := gv1 } hb
    res _ _ st.stack rfl
  refine ⟨ns, gv1, rc, ((a + 2 + codeSize ca : Nat) : Int), hemb, hrc, hgv1, ?_⟩
  have hcode : [Instr.op2 0x45 im] ++ ca ++ [i] ++ ref ++ [Instr.op2 0x58 k] = [Instr.op2 0x45 im] ++ (ca ++ ([i] ++ (ref ++ [Instr.op2 0x58 k]))) := by simp
  rw [hcode, runIs_append, runIs_single, e1]
  simp only [Except.bind]
  have hsz : a + codeSize [Instr.op2 0x45 im] = a + 2 := by simp [codeSize, Instr.size]
  rw [hsz, runIs_append, hr1]
  simp only [Except.bind]
  rw [runIs_append, runIs_single, e2]
  simp only [Except.bind]
  have hsz2 : a + 2 + codeSize ca + codeSize [i] = a + 2 + codeSize ca + i.size := by simp [codeSize]
  rw [hsz2, hr3]
  have hsz3 : a + 2 + codeSize ca + i.size + codeSize ref = a + codeSize ([Instr.op2 0x45 im] ++ ca ++ [i] ++ ref) := by
    simp only [codeSize_append, codeSize, Instr.size]; omega
  rw [hsz3]
  simp only [mcallNode, clearHash_snoc, mcallResult]


/-! #### the peek / discard opcodes of `repeat with x in l` (64 k, 65 n) -/

theorem pyGet_reverse {α} (l : List α) (k : Nat) (x : α) (h : l[k]? = some x) :
    pyGet l.reverse ((l.length : Int) - 1 - (k : Int)) = .ok x := by
  have hk : k < l.length := by
    rcases Nat.lt_or_ge k l.length with h' | h'
    · exact h'
    · rw [List.getElem?_eq_none h'] at h; cases h
  have e : (l.length : Int) - 1 - (k : Int) = ((l.length - 1 - k : Nat) : Int) := by omega
  rw [e]
  apply pyGet_some
  rw [List.getElem?_reverse (by omega)]
  have : l.length - 1 - (l.length - 1 - k) = k := by omega
  rw [this, h]

/-- opcode 64 k (CopySymbol): push a copy of the k-th node from the top -/
theorem exec_peek (ctx : Lscr.Ctx) (k : Nat) (a : Int) (st : PState) (x : Node) (hx : st.stack[k]? = some x) :
    execI ctx (.op2 0x64 k) a st = .ok { st with stack := x :: st.stack } := by
  have hl : Opcodes.opcodes.lookup 0x64 = some { cls := "CopySymbolOpcode", impl := "CopySymbolOpcode", nbytes := 2, kind := "param1", attrs := [] } := rfl
  have hk : ¬ ("param1" = "bi" ∨ "param1" = "tri") := by decide
  simp only [execI, hl, hk, if_false]
  unfold process1
  simp only [pyGet_reverse st.stack k x hx, Bind.bind, Except.bind, pure, Except.pure, PState.push]

/-- opcode 65 n (DiscardSymbols) -/
theorem exec_discard (ctx : Lscr.Ctx) (n : Nat) (a : Int) (st : PState) (h : n ≤ st.stack.length) :
    execI ctx (.op2 0x65 n) a st = .ok { st with stack := st.stack.drop n } := by
  have hl : Opcodes.opcodes.lookup 0x65 = some { cls := "DiscardSymbolsOpcode", impl := "DiscardSymbolsOpcode", nbytes := 2, kind := "param1", attrs := [] } := rfl
  have hk : ¬ ("param1" = "bi" ∨ "param1" = "tri") := by decide
  simp only [execI, hl, hk, if_false]
  unfold process1
  simp only [h, if_true]

theorem vars_sub_left {G : List Spec.Name} {x y : List Spec.Name} (h : ∀ g ∈ x ++ y, g ∈ G) : ∀ g ∈ x, g ∈ G :=
  fun g hg => h g (List.mem_append_left _ hg)
theorem vars_sub_right {G : List Spec.Name} {x y : List Spec.Name} (h : ∀ g ∈ x ++ y, g ∈ G) : ∀ g ∈ y, g ∈ G :=
  fun g hg => h g (List.mem_append_right _ hg)

mutual
/-- **L2, the stack lemma.** For every expression of the fragment and every successful lowering: the name table / constant
    pool only grow; no emitted opcode is the mis-registered 0x99; and in any model context related to a final state that extends
    the lowering's, running the code from any address and any state with 6-byte constant records pushes exactly one node, the
    image of `e`. -/
theorem stack_lemma : ∀ (e : Expr), FragE e = true → ∀ (c : Spec.Ctx) (s0 s1 : St) (code : List Instr),
    lowerExpr c e s0 = .ok (code, s1) →
    Ext s0 s1 ∧ (∀ i ∈ code, i.opc ≠ 153) ∧
    ∀ (sF : St) (ctx : Lscr.Ctx), Ext s1 sF → Rel c sF ctx → ∀ (G : List Spec.Name), (∀ g ∈ e.vars .glob, g ∈ G) →
      ∀ (a : Nat) (st : PState), st.bpc = 6 → GvOk G st.gvars → Pushed G c.handlers e ctx a code st
  | .int n, _, c, s0, s1, code, h => by
    rw [lowerExpr] at h
    obtain ⟨hext, hop, hrun⟩ := lowerInt_ok n s0 s1 code h
    refine ⟨hext, hop, ?_⟩
    intro sF ctx hF hrel G _ a st hb hgv
    obtain ⟨i, rfl, hi⟩ := hrun c sF ctx hF hrel (a : Int) st hb
    exact ⟨_, st.gvars, ⟨(a : Int), rfl⟩, GvNext.refl hgv, by rw [runIs_single, hi]⟩
  | .str v, hf, c, s0, s1, code, h => by
    simp only [FragE] at hf
    rw [lowerExpr] at h
    obtain ⟨hext, hop, hrun⟩ := lit_ok (.str v) (show GoodConst (.str v) from hf) s0 s1 code h
    refine ⟨hext, hop, ?_⟩
    intro sF ctx hF hrel G _ a st hb hgv
    obtain ⟨i, rfl, hi⟩ := hrun c sF ctx hF hrel (a : Int) st hb
    exact ⟨_, st.gvars, ⟨(a : Int), rfl⟩, GvNext.refl hgv, by rw [runIs_single, hi]; rfl⟩
  | .sym v, _, c, s0, s1, code, h => by
    rw [lowerExpr] at h
    simp only [M_bind_ok] at h
    obtain ⟨i, s', hn, h⟩ := h
    obtain ⟨hext, hget, hlt, _⟩ := nameIdx_ok _ _ _ _ hn
    obtain ⟨rfl, rfl, hx⟩ := op2c_ok _ _ _ _ _ h
    refine ⟨hext, by simp [Instr.opc], ?_⟩
    intro sF ctx hF hrel G hG a st hb hgv
    have hnm : ctx.names[i]? = some v := by rw [hrel.names]; exact hF.name hget
    exact ⟨_, st.gvars, ⟨(a : Int), rfl⟩, GvNext.refl hgv, by rw [runIs_single, exec_sym ctx i v hnm (a : Int) st]⟩
  | .var .loc v, _, c, s0, s1, code, h => by
    rw [lowerExpr] at h
    cases ho : c.localOff v with
    | none => rw [ho] at h; simp [Spec.fail] at h
    | some o =>
      rw [ho] at h
      simp only at h
      obtain ⟨rfl, rfl, hx⟩ := op2c_ok _ _ _ _ _ h
      refine ⟨Ext.refl _, by simp [Instr.opc], ?_⟩
      intro sF ctx hF hrel G _ a st hb hgv
      unfold Spec.Ctx.localOff at ho
      cases hi : idxOf v c.locals 0 with
      | none => rw [hi] at ho; cases ho
      | some j =>
        rw [hi] at ho
        simp only [Option.map_some, Option.some.injEq] at ho
        subst ho
        obtain ⟨p, hp⟩ := hrel.locals v j hi
        exact ⟨_, st.gvars, ⟨p, rfl⟩, GvNext.refl hgv, by rw [runIs_single, exec_loc ctx j _ hp (a : Int) st hb]⟩
  | .var .param v, _, c, s0, s1, code, h => by
    rw [lowerExpr] at h
    cases ho : c.paramOff v with
    | none => rw [ho] at h; simp [Spec.fail] at h
    | some o =>
      rw [ho] at h
      simp only at h
      obtain ⟨rfl, rfl, hx⟩ := op2c_ok _ _ _ _ _ h
      refine ⟨Ext.refl _, by simp [Instr.opc], ?_⟩
      intro sF ctx hF hrel G _ a st hb hgv
      obtain ⟨j, p, rfl, hp⟩ := hrel.params v o ho
      exact ⟨_, st.gvars, ⟨(a : Int), rfl⟩, GvNext.refl hgv, by rw [runIs_single, exec_param ctx j _ p hp (a : Int) st hb]⟩
  | .var .glob v, _, c, s0, s1, code, h => by
    rw [lowerExpr] at h
    simp only [M_bind_ok] at h
    obtain ⟨i, s', hn, h⟩ := h
    obtain ⟨hext, hget, hlt, _⟩ := nameIdx_ok _ _ _ _ hn
    obtain ⟨rfl, rfl, hx⟩ := op2c_ok _ _ _ _ _ h
    refine ⟨hext, by simp [Instr.opc], ?_⟩
    intro sF ctx hF hrel G hG a st hb hgv
    have hnm : ctx.names[i]? = some v := by rw [hrel.names]; exact hF.name hget
    obtain ⟨gv', hgv', hex⟩ := exec_glob ctx i v hnm (a : Int) st G (hG v (by simp [Expr.vars])) hgv
    exact ⟨_, gv', ⟨(a : Int), rfl⟩, hgv', by rw [runIs_single, hex]⟩
  | .var .prop v, _, c, s0, s1, code, h => by
    rw [lowerExpr] at h
    simp only [M_bind_ok] at h
    obtain ⟨i, s', hn, h⟩ := h
    obtain ⟨hext, hget, hlt, _⟩ := nameIdx_ok _ _ _ _ hn
    obtain ⟨rfl, rfl, hx⟩ := op2c_ok _ _ _ _ _ h
    refine ⟨hext, by simp [Instr.opc], ?_⟩
    intro sF ctx hF hrel G hG a st hb hgv
    have hnm : ctx.names[i]? = some v := by rw [hrel.names]; exact hF.name hget
    exact ⟨_, st.gvars, ⟨(a : Int), rfl⟩, GvNext.refl hgv, by rw [runIs_single, exec_prop ctx i v hnm (a : Int) st]⟩
  | .un o x, hf, c, s0, s1, code, h => by
    have hfx : FragE x = true := by
      cases o <;> simp only [FragE, Bool.and_eq_true] at hf
      · exact hf.1
      · exact hf
    rw [lowerExpr] at h
    simp only [M_bind_ok, M_pure_ok, Prod.mk.injEq] at h
    obtain ⟨cx, s', hx, rfl, rfl⟩ := h
    obtain ⟨hext, hop, hrun⟩ := stack_lemma x hfx c s0 _ cx hx
    refine ⟨hext, ?_, ?_⟩
    · intro i hi
      rcases List.mem_append.mp hi with hi | hi
      · exact hop i hi
      · simp only [List.mem_singleton] at hi; subst hi; cases o <;> simp [Instr.opc, UnOp.code]
    intro sF ctx hF hrel G hG a st hb hgv
    obtain ⟨n, gv1, hemb, hgv1, hr1⟩ := hrun sF ctx hF hrel G (by simpa [Expr.vars] using hG) a st hb hgv
    refine ⟨_, gv1, ⟨((a + codeSize cx : Nat) : Int), n, rfl, hemb⟩, hgv1, ?_⟩
    rw [runIs_append, hr1]
    simp only [Except.bind]
    rw [runIs_single, exec_un ctx o _ _ n st.stack rfl]
  | .bin o x y, hf, c, s0, s1, code, h => by
    simp only [FragE, Bool.and_eq_true] at hf
    obtain ⟨⟨_, hfx⟩, hfy⟩ := hf
    rw [lowerExpr] at h
    simp only [M_bind_ok, M_pure_ok, Prod.mk.injEq] at h
    obtain ⟨cx, s', hx, cy, s'', hy, rfl, rfl⟩ := h
    obtain ⟨hext1, hop1, hrun1⟩ := stack_lemma x hfx c s0 _ cx hx
    obtain ⟨hext2, hop2, hrun2⟩ := stack_lemma y hfy c _ _ cy hy
    refine ⟨hext1.trans hext2, ?_, ?_⟩
    · intro i hi
      rcases List.mem_append.mp hi with hi | hi
      · rcases List.mem_append.mp hi with hi | hi
        · exact hop1 i hi
        · exact hop2 i hi
      · simp only [List.mem_singleton] at hi; subst hi; cases o <;> simp [Instr.opc, BinOp.code]
    intro sF ctx hF hrel G hG a st hb hgv
    have hG' : ∀ g ∈ x.vars .glob ++ y.vars .glob, g ∈ G := by simpa [Expr.vars] using hG
    obtain ⟨n1, gv1, hemb1, hgv1, hr1⟩ := hrun1 sF ctx (hext2.trans hF) hrel G (vars_sub_left hG') a st hb hgv
    obtain ⟨n2, gv2, hemb2, hgv2, hr2⟩ := hrun2 sF ctx hF hrel G (vars_sub_right hG') (a + codeSize cx)
      { st with stack := n1 :: st.stack, gvars := gv1 } hb hgv1.1
    refine ⟨_, gv2, ⟨((a + codeSize (cx ++ cy) : Nat) : Int), n1, n2, rfl, hemb1, hemb2⟩, hgv1.trans hgv2, ?_⟩
    rw [runIs_append, runIs_append, hr1]
    simp only [Except.bind]
    rw [hr2]
    simp only
    rw [runIs_single, exec_bin ctx o _ _ n1 n2 st.stack rfl]
  | .field x, hf, c, s0, s1, code, h => by
    simp only [FragE] at hf
    rw [lowerExpr] at h
    simp only [M_bind_ok, M_pure_ok, Prod.mk.injEq] at h
    obtain ⟨cx, s', hx, rfl, rfl⟩ := h
    obtain ⟨hext, hop, hrun⟩ := stack_lemma x hf c s0 _ cx hx
    refine ⟨hext, ?_, ?_⟩
    · intro i hi
      rcases List.mem_append.mp hi with hi | hi
      · exact hop i hi
      · simp only [List.mem_singleton] at hi; subst hi; simp [Instr.opc]
    intro sF ctx hF hrel G hG a st hb hgv
    obtain ⟨n, gv1, hemb, hgv1, hr1⟩ := hrun sF ctx hF hrel G (by simpa [Expr.vars] using hG) a st hb hgv
    refine ⟨_, gv1, ⟨((a + codeSize cx : Nat) : Int), n, rfl, hemb⟩, hgv1, ?_⟩
    rw [runIs_append, hr1]
    simp only [Except.bind]
    rw [runIs_single, exec_field ctx _ _ n st.stack rfl]
  | .call f as, hf, c, s0, s1, code, h => by
    simp only [FragE, Bool.and_eq_true] at hf
    obtain ⟨_, hfl⟩ := hf
    rw [lowerExpr] at h
    simp only [M_bind_ok] at h
    obtain ⟨ca, s', ha, cn, s'', hn, h⟩ := h
    obtain ⟨hext, hop, hrun⟩ := args_lemma as hfl c s0 _ ca ha
    obtain ⟨rfl, i, rfl, hiop, hiex⟩ := argsInstr_ok true as.length _ _ _ hn
    cases hidx : idxOf f c.handlers 0 with
    | some k =>
      rw [hidx] at h
      simp only [M_bind_ok, M_pure_ok, Prod.mk.injEq] at h
      obtain ⟨cc, s3, hcc, rfl, rfl⟩ := h
      obtain ⟨rfl, rfl, hk⟩ := op2c_ok _ _ _ _ _ hcc
      refine ⟨hext, ?_, ?_⟩
      · intro j hj
        rcases List.mem_append.mp hj with hj | hj
        · rcases List.mem_append.mp hj with hj | hj
          · exact hop j hj
          · simp only [List.mem_singleton] at hj; subst hj; exact hiop
        · simp only [List.mem_singleton] at hj; subst hj; simp [Instr.opc]
      intro sF ctx hF hrel G hG a st hb hgv
      obtain ⟨ns, gv1, hemb, hgv1, hr1⟩ := hrun sF ctx hF hrel G (by simpa [Expr.vars] using hG) a st hb hgv
      have hlen := embLH_length _ as ns hemb
      have hle : as.length ≤ (ns.reverse ++ st.stack).length := by simp; omega
      have htake : (ns.reverse ++ st.stack).take as.length = ns.reverse := by
        rw [List.take_append_of_le_length (by simp; omega), List.take_of_length_le (by simp; omega)]
      have hdrop : (ns.reverse ++ st.stack).drop as.length = st.stack := by
        rw [List.drop_append_of_le_length (by simp; omega), List.drop_of_length_le (by simp; omega), List.nil_append]
      have hcont := idxOf_contains f c.handlers 0 k hidx
      refine ⟨.callFn (.s f) ((a + codeSize (ca ++ [i]) : Nat) : Int) (.loadList (S "<load_list>") ((a + codeSize ca : Nat) : Int) ns.reverse) true false (c.handlers.contains f) .none,
        gv1, ⟨_, _, ns, rfl, hemb⟩, hgv1, ?_⟩
      rw [hcont, runIs_append, runIs_append, hr1]
      simp only [Except.bind]
      rw [runIs_single, hiex ctx _ { st with stack := ns.reverse ++ st.stack, gvars := gv1 } hle]
      simp only [htake, hdrop]
      rw [runIs_single, exec_calllocal ctx k f (hrel.lfn f k hidx) _ _ true _ ns.reverse st.stack rfl]
      rfl
    | none =>
      rw [hidx] at h
      simp only [M_bind_ok, M_pure_ok, Prod.mk.injEq] at h
      obtain ⟨ni, s3, hni, cc, s4, hcc, rfl, rfl⟩ := h
      obtain ⟨hext2, hget, hlt, _⟩ := nameIdx_ok _ _ _ _ hni
      obtain ⟨rfl, rfl, hk⟩ := op2c_ok _ _ _ _ _ hcc
      refine ⟨hext.trans hext2, ?_, ?_⟩
      · intro j hj
        rcases List.mem_append.mp hj with hj | hj
        · rcases List.mem_append.mp hj with hj | hj
          · exact hop j hj
          · simp only [List.mem_singleton] at hj; subst hj; exact hiop
        · simp only [List.mem_singleton] at hj; subst hj; simp [Instr.opc]
      intro sF ctx hF hrel G hG a st hb hgv
      have hnm : ctx.names[ni]? = some f := by rw [hrel.names]; exact hF.name hget
      obtain ⟨ns, gv1, hemb, hgv1, hr1⟩ := hrun sF ctx (hext2.trans hF) hrel G (by simpa [Expr.vars] using hG) a st hb hgv
      have hlen := embLH_length _ as ns hemb
      have hle : as.length ≤ (ns.reverse ++ st.stack).length := by simp; omega
      have htake : (ns.reverse ++ st.stack).take as.length = ns.reverse := by
        rw [List.take_append_of_le_length (by simp; omega), List.take_of_length_le (by simp; omega)]
      have hdrop : (ns.reverse ++ st.stack).drop as.length = st.stack := by
        rw [List.drop_append_of_le_length (by simp; omega), List.drop_of_length_le (by simp; omega), List.nil_append]
      have hcont := idxOf_not_contains f c.handlers 0 hidx
      refine ⟨.callFn (.s f) ((a + codeSize (ca ++ [i]) : Nat) : Int) (.loadList (S "<load_list>") ((a + codeSize ca : Nat) : Int) ns.reverse) true false (c.handlers.contains f) .none,
        gv1, ⟨_, _, ns, rfl, hemb⟩, hgv1, ?_⟩
      rw [hcont, runIs_append, runIs_append, hr1]
      simp only [Except.bind]
      rw [runIs_single, hiex ctx _ { st with stack := ns.reverse ++ st.stack, gvars := gv1 } hle]
      simp only [htake, hdrop]
      rw [runIs_single, exec_callext ctx ni f hnm _ _ true _ ns.reverse st.stack rfl]
      rfl
  | .list as, hf, c, s0, s1, code, h => by
    simp only [FragE] at hf
    rw [lowerExpr] at h
    simp only [M_bind_ok, M_pure_ok, Prod.mk.injEq] at h
    obtain ⟨ca, s', ha, cn, s'', hn, rfl, rfl⟩ := h
    obtain ⟨hext, hop, hrun⟩ := args_lemma as hf c s0 _ ca ha
    obtain ⟨rfl, i, rfl, hiop, hiex⟩ := argsInstr_ok true as.length _ _ _ hn
    refine ⟨hext, ?_, ?_⟩
    · intro j hj
      rcases List.mem_append.mp hj with hj | hj
      · rcases List.mem_append.mp hj with hj | hj
        · exact hop j hj
        · simp only [List.mem_singleton] at hj; subst hj; exact hiop
      · simp only [List.mem_singleton] at hj; subst hj; simp [Instr.opc]
    intro sF ctx hF hrel G hG a st hb hgv
    obtain ⟨ns, gv1, hemb, hgv1, hr1⟩ := hrun sF ctx hF hrel G (by simpa [Expr.vars] using hG) a st hb hgv
    have hlen := embLH_length _ as ns hemb
    have hle : as.length ≤ (ns.reverse ++ st.stack).length := by simp; omega
    have htake : (ns.reverse ++ st.stack).take as.length = ns.reverse := by
      rw [List.take_append_of_le_length (by simp; omega), List.take_of_length_le (by simp; omega)]
    have hdrop : (ns.reverse ++ st.stack).drop as.length = st.stack := by
      rw [List.drop_append_of_le_length (by simp; omega), List.drop_of_length_le (by simp; omega), List.nil_append]
    refine ⟨_, gv1, ⟨((a + codeSize (ca ++ [i]) : Nat) : Int), ((a + codeSize ca : Nat) : Int), ns, rfl, hemb⟩, hgv1, ?_⟩
    rw [runIs_append, runIs_append, hr1]
    simp only [Except.bind]
    rw [runIs_single, hiex ctx _ { st with stack := ns.reverse ++ st.stack, gvars := gv1 } hle]
    simp only [htake, hdrop]
    rw [runIs_single, exec_tolist ctx _ _ _ st.stack rfl]
    rfl
  | .float _ _, hf, _, _, _, _, _ => by simp [FragE] at hf
  | .me, hf, _, _, _, _, _ => by simp [FragE] at hf
  | .mcall o m as, hf, c, s0, s1, code, h => by
    simp only [FragE, Bool.and_eq_true] at hf
    obtain ⟨⟨hro, _⟩, hfl⟩ := hf
    rw [lowerExpr] at h
    simp only [M_bind_ok, M_pure_ok, Prod.mk.injEq] at h
    obtain ⟨im, s2, hn, cm, s2', hcm, ca, s3, ha, cn, s4, hna, ⟨ref, k⟩, s5, href, rfl, rfl⟩ := h
    obtain ⟨rfl, rfl, _⟩ := op2c_ok _ _ _ _ _ hcm
    obtain ⟨hext, hop, nm, hnm, hrun⟩ := mcall_core true c o m as hro s0 _ s3 s4 _ im ca cn ref k hn (args_lemma as hfl c _ _ ca ha) hna href
    refine ⟨hext, hop, ?_⟩
    intro sF ctx hF hrel G hG a st hb hgv
    obtain ⟨ns, gv', rc, lp, hemb, hrc, hgv', hr⟩ := hrun sF ctx hF hrel G (fun g hg => hG g (by simp [Expr.vars, hg])) a st hb hgv
    exact ⟨_, gv', ⟨_, _, _, rc, ns, nm, hnm, rfl, hemb, hrc⟩, hgv', by rw [hr]; rfl⟩
  | .plist as, hf, c, s0, s1, code, h => by
    simp only [FragE, Bool.and_eq_true] at hf
    replace hf := hf.1
    rw [lowerExpr] at h
    simp only [M_bind_ok, M_pure_ok, Prod.mk.injEq] at h
    obtain ⟨ca, s', ha, cn, s'', hn, rfl, rfl⟩ := h
    obtain ⟨hext, hop, hrun⟩ := args_lemma as hf c s0 _ ca ha
    obtain ⟨rfl, i, rfl, hiop, hiex⟩ := argsInstr_ok true as.length _ _ _ hn
    refine ⟨hext, ?_, ?_⟩
    · intro j hj
      rcases List.mem_append.mp hj with hj | hj
      · rcases List.mem_append.mp hj with hj | hj
        · exact hop j hj
        · simp only [List.mem_singleton] at hj; subst hj; exact hiop
      · simp only [List.mem_singleton] at hj; subst hj; simp [Instr.opc]
    intro sF ctx hF hrel G hG a st hb hgv
    obtain ⟨ns, gv1, hemb, hgv1, hr1⟩ := hrun sF ctx hF hrel G (by simpa [Expr.vars] using hG) a st hb hgv
    have hlen := embLH_length _ as ns hemb
    have hle : as.length ≤ (ns.reverse ++ st.stack).length := by simp; omega
    have htake : (ns.reverse ++ st.stack).take as.length = ns.reverse := by
      rw [List.take_append_of_le_length (by simp; omega), List.take_of_length_le (by simp; omega)]
    have hdrop : (ns.reverse ++ st.stack).drop as.length = st.stack := by
      rw [List.drop_append_of_le_length (by simp; omega), List.drop_of_length_le (by simp; omega), List.nil_append]
    refine ⟨_, gv1, ⟨((a + codeSize (ca ++ [i]) : Nat) : Int), ((a + codeSize ca : Nat) : Int), ns, rfl, hemb⟩, hgv1, ?_⟩
    rw [runIs_append, runIs_append, hr1]
    simp only [Except.bind]
    rw [runIs_single, hiex ctx _ { st with stack := ns.reverse ++ st.stack, gvars := gv1 } hle]
    simp only [htake, hdrop]
    rw [runIs_single, exec_todict ctx _ _ _ st.stack rfl]
    rfl
  | .the t k as, hf, c, s0, s1, code, h => by
    cases as with
    | cons x xs =>
      cases xs with
      | cons y ys => cases t <;> simp [FragE] at hf
      | nil =>
        simp only [FragE, Bool.and_eq_true, Bool.or_eq_true] at hf
        obtain ⟨hor, hfe⟩ := hf
        have hlow : ∃ ce s' ci, lowerExpr c x s0 = .ok (ce, s') ∧ lowerInt k s' = .ok (ci, s1) ∧ code = ce ++ ci ++ [.op2 0x5c t.code] := by
          rw [lowerExpr, lowerArgs, lowerArgs] at h
          simp only [M_bind_ok, M_pure_ok, Prod.mk.injEq] at h
          obtain ⟨ca, s', ⟨ce, s'', he, cs, s3, ⟨rfl, rfl⟩, rfl, rfl⟩, ci, s4, hi, rfl, rfl⟩ := h
          exact ⟨ce, _, ci, he, hi, by simp⟩
        obtain ⟨ce, s', ci, he, hi, rfl⟩ := hlow
        obtain ⟨hext1, hop1, hrun1⟩ := stack_lemma x hfe c s0 s' ce he
        obtain ⟨hext2, hop2, hrun2⟩ := lowerInt_ok k s' s1 ci hi
        have hops : ∀ i ∈ ce ++ ci ++ [Instr.op2 0x5c t.code], i.opc ≠ 153 := by
          intro i hi
          rcases List.mem_append.mp hi with hi | hi
          · rcases List.mem_append.mp hi with hi | hi
            · exact hop1 i hi
            · exact hop2 i hi
          · simp only [List.mem_singleton] at hi; subst hi; simp [Instr.opc]
        cases ht : theTbl t with
        | none =>
          rw [ht] at hor
          simp only [Bool.false_and, Bool.false_eq_true, false_or, false_and] at hor
          cases hst : strThe t k with
          | none =>
            rw [hst] at hor
            simp only [Bool.false_eq_true, false_or, Bool.and_eq_true, decide_eq_true_eq] at hor
            obtain ⟨rfl, hk⟩ := hor
            refine ⟨hext1.trans hext2, hops, ?_⟩
            intro sF ctx hF hrel G hG a st hb hgv
            obtain ⟨n, gv1, hemb, hgv1, hr1⟩ := hrun1 sF ctx (hext2.trans hF) hrel G (by simpa [Expr.vars, Expr.varsList] using hG) a st hb hgv
            obtain ⟨i, rfl, hex⟩ := hrun2 c sF ctx hF hrel ((a + codeSize ce : Nat) : Int)
              { st with stack := n :: st.stack, gvars := gv1 } hb
            have hs := exec_fieldprop ctx k hk ((a + codeSize (ce ++ [i]) : Nat) : Int)
              { st with stack := .leaf .const (.s (natStr k)) ((a + codeSize ce : Nat) : Int) :: n :: st.stack, gvars := gv1 }
              ((a + codeSize ce : Nat) : Int) n st.stack rfl
            refine ⟨.propAcc ((a + codeSize (ce ++ [i]) : Nat) : Int) (.unary (S "field") ((a + codeSize (ce ++ [i]) : Nat) : Int) n)
              (nameOrUnknown tblCast k) false, gv1, ?_, hgv1, ?_⟩
            · simp only [EmbH]
              refine Or.inr (Or.inr ⟨?_, _, _, n, rfl, hemb⟩)
              first | rfl | trivial
            · rw [runIs_append, runIs_append, hr1]
              simp only [Except.bind]
              rw [runIs_single, hex]
              simp only [Except.bind]
              rw [runIs_single]
              exact hs
          | some v =>
            obtain ⟨op, r⟩ := v
            rw [hst] at hor
            have hor' : (chunkTy r).isSome = true := by
              rcases hor with hor | hor
              · exact hor
              · simp only [Bool.and_eq_true, decide_eq_true_eq] at hor
                obtain ⟨rfl, _⟩ := hor
                simp [strThe] at hst
            obtain ⟨ty, hty⟩ := Option.isSome_iff_exists.mp hor'
            refine ⟨hext1.trans hext2, hops, ?_⟩
            intro sF ctx hF hrel G hG a st hb hgv
            obtain ⟨n, gv1, hemb, hgv1, hr1⟩ := hrun1 sF ctx (hext2.trans hF) hrel G (by simpa [Expr.vars, Expr.varsList] using hG) a st hb hgv
            obtain ⟨i, rfl, hex⟩ := hrun2 c sF ctx hF hrel ((a + codeSize ce : Nat) : Int)
              { st with stack := n :: st.stack, gvars := gv1 } hb
            have hs := exec_strthe ctx t k op r ty hst hty ((a + codeSize (ce ++ [i]) : Nat) : Int)
              { st with stack := .leaf .const (.s (natStr k)) ((a + codeSize ce : Nat) : Int) :: n :: st.stack, gvars := gv1 }
              ((a + codeSize ce : Nat) : Int) n st.stack rfl
            refine ⟨.unaryStr op ((a + codeSize (ce ++ [i]) : Nat) : Int) (some ty) n, gv1, ?_, hgv1, ?_⟩
            · simp only [EmbH]; exact Or.inr (Or.inl ⟨_, n, op, r, ty, hst, hty, rfl, hemb⟩)
            · rw [runIs_append, runIs_append, hr1]
              simp only [Except.bind]
              rw [runIs_single, hex]
              simp only [Except.bind]
              rw [runIs_single]
              exact hs
        | some v =>
          obtain ⟨cls, tb, w⟩ := v
          rw [ht, theTbl_strThe t k _ ht, theTbl_field t _ ht] at hor
          simp only [Bool.and_eq_true, Bool.false_eq_true, or_false, Bool.false_and, false_and] at hor
          obtain ⟨htk, hidx⟩ := hor
          obtain ⟨nm, hnm⟩ := Option.isSome_iff_exists.mp hidx
          refine ⟨hext1.trans hext2, hops, ?_⟩
          intro sF ctx hF hrel G hG a st hb hgv
          obtain ⟨n, gv1, hemb, hgv1, hr1⟩ := hrun1 sF ctx (hext2.trans hF) hrel G (by simpa [Expr.vars, Expr.varsList] using hG) a st hb hgv
          obtain ⟨i, rfl, hex⟩ := hrun2 c sF ctx hF hrel ((a + codeSize ce : Nat) : Int)
            { st with stack := n :: st.stack, gvars := gv1 } hb
          have hname := embH_idx_name c.handlers x nm n hnm hemb
          have hs := exec_objprop ctx t cls tb w ht k htk ((a + codeSize (ce ++ [i]) : Nat) : Int)
            { st with stack := .leaf .const (.s (natStr k)) ((a + codeSize ce : Nat) : Int) :: n :: st.stack, gvars := gv1 }
            ((a + codeSize ce : Nat) : Int) n nm hname st.stack rfl
          refine ⟨.propAcc ((a + codeSize (ce ++ [i]) : Nat) : Int) (.leaf cls nm ((a + codeSize (ce ++ [i]) : Nat) : Int))
            (nameOrUnknown tb k) false, gv1, ?_, hgv1, ?_⟩
          · simp only [EmbH]; exact Or.inl ⟨_, _, cls, tb, w, nm, ht, hnm, rfl⟩
          · rw [runIs_append, runIs_append, hr1]
            simp only [Except.bind]
            rw [runIs_single, hex]
            simp only [Except.bind]
            rw [runIs_single]
            exact hs
    | nil =>
      have hlow : ∃ ci, lowerInt k s0 = .ok (ci, s1) ∧ code = ci ++ [.op2 0x5c t.code] := by
        rw [lowerExpr, lowerArgs] at h
        simp only [M_bind_ok, M_pure_ok, Prod.mk.injEq] at h
        obtain ⟨ca, s', ⟨rfl, rfl⟩, ci, s'', hi, rfl, rfl⟩ := h
        exact ⟨ci, hi, by simp⟩
      obtain ⟨ci, hi, rfl⟩ := hlow
      obtain ⟨hext, hop, hrun⟩ := lowerInt_ok k s0 s1 ci hi
      have hops : ∀ i ∈ ci ++ [Instr.op2 0x5c t.code], i.opc ≠ 153 := by
        intro i hi
        rcases List.mem_append.mp hi with hi | hi
        · exact hop i hi
        · simp only [List.mem_singleton] at hi; subst hi; simp [Instr.opc]
      refine ⟨hext, hops, ?_⟩
      intro sF ctx hF hrel G _ a st hb hgv
      obtain ⟨i, rfl, hex⟩ := hrun c sF ctx hF hrel (a : Int) st hb
      cases t with
      | sys =>
        simp only [FragE] at hf
        obtain ⟨o, ho, hs⟩ := exec_sys ctx k hf ((a + codeSize [i] : Nat) : Int)
          { st with stack := .leaf .const (.s (natStr k)) (a : Int) :: st.stack } (a : Int) st.stack rfl
        refine ⟨.propAcc ((a + codeSize [i] : Nat) : Int) (.leaf .localVar (.s o) ((a + codeSize [i] : Nat) : Int)) (nameOrUnknown tblSys k) false,
          st.gvars, ?_, GvNext.refl hgv, ?_⟩
        · simp only [EmbH]; exact ⟨_, _, o, rfl, ho⟩
        · rw [runIs_append, runIs_single, hex]
          simp only [Except.bind]
          rw [runIs_single]
          exact hs
      | special =>
        simp only [FragE, decide_eq_true_eq] at hf
        have hs := exec_special ctx k hf ((a + codeSize [i] : Nat) : Int)
          { st with stack := .leaf .const (.s (natStr k)) (a : Int) :: st.stack } (a : Int) st.stack rfl
        refine ⟨.leaf .propName (.s (nameOrUnknown tblSpecial k)) ((a + codeSize [i] : Nat) : Int), st.gvars, ?_, GvNext.refl hgv, ?_⟩
        · simp only [EmbH]; exact ⟨_, rfl⟩
        · rw [runIs_append, runIs_single, hex]
          simp only [Except.bind]
          rw [runIs_single]
          exact hs
      | _ => simp [FragE] at hf
  | .key v, _, c, s0, s1, code, h => by
    rw [lowerExpr] at h
    simp only [M_bind_ok, M_pure_ok, Prod.mk.injEq] at h
    obtain ⟨i, s', hn, cd, s'', hc, rfl, rfl⟩ := h
    obtain ⟨hext, hget, hlt, _⟩ := nameIdx_ok _ _ _ _ hn
    obtain ⟨rfl, rfl, hx⟩ := op2c_ok _ _ _ _ _ hc
    refine ⟨hext, by simp [Instr.opc], ?_⟩
    intro sF ctx hF hrel G hG a st hb hgv
    have hnm : ctx.names[i]? = some v := by rw [hrel.names]; exact hF.name hget
    have e1 := exec_args1 ctx true 0 (a : Int) st (Nat.zero_le _)
    simp only [if_true, List.take_zero, List.drop_zero] at e1
    have e2 := exec_key ctx i v hnm ((a + codeSize [Instr.op2 0x43 0] : Nat) : Int)
      { st with stack := .loadList (listName true) (a : Int) [] :: st.stack } _ _ st.stack rfl
    refine ⟨.keyAcc ((a + codeSize [Instr.op2 0x43 0] : Nat) : Int) v, st.gvars, ?_, GvNext.refl hgv, ?_⟩
    · simp only [EmbH]; exact ⟨_, rfl⟩
    · show runIs ctx a ([Instr.op2 0x43 0] ++ [Instr.op2 0x66 i]) st = _
      rw [runIs_append, runIs_single, e1]
      simp only [Except.bind]
      rw [runIs_single]
      exact e2
  | .movie v, _, c, s0, s1, code, h => by
    rw [lowerExpr] at h
    simp only [M_bind_ok] at h
    obtain ⟨i, s', hn, h⟩ := h
    obtain ⟨hext, hget, hlt, _⟩ := nameIdx_ok _ _ _ _ hn
    obtain ⟨rfl, rfl, hx⟩ := op2c_ok _ _ _ _ _ h
    refine ⟨hext, by simp [Instr.opc], ?_⟩
    intro sF ctx hF hrel G hG a st hb hgv
    have hnm : ctx.names[i]? = some v := by rw [hrel.names]; exact hF.name hget
    obtain ⟨n, hn', hex⟩ := exec_movie ctx i v hnm (a : Int) st
    exact ⟨n, st.gvars, by simp only [EmbH]; exact hn', GvNext.refl hgv, by rw [runIs_single, hex]⟩
  | .oprop v o, hf, c, s0, s1, code, h => by
    simp only [FragE, Bool.and_eq_true] at hf
    obtain ⟨_, hfo⟩ := hf
    rw [lowerExpr] at h
    simp only [M_bind_ok, M_pure_ok, Prod.mk.injEq] at h
    obtain ⟨co, s', ho, i, s2, hn, cd, s3, hc, rfl, rfl⟩ := h
    obtain ⟨hext1, hop1, hrun1⟩ := stack_lemma o hfo c s0 s' co ho
    obtain ⟨hext2, hget, hlt, _⟩ := nameIdx_ok _ _ _ _ hn
    obtain ⟨rfl, rfl, hx⟩ := op2c_ok _ _ _ _ _ hc
    refine ⟨hext1.trans hext2, ?_, ?_⟩
    · intro j hj
      rcases List.mem_append.mp hj with hj | hj
      · exact hop1 j hj
      · simp only [List.mem_singleton] at hj; subst hj; simp [Instr.opc]
    intro sF ctx hF hrel G hG a st hb hgv
    have hnm : ctx.names[i]? = some v := by rw [hrel.names]; exact hF.name hget
    obtain ⟨n, gv1, hemb, hgv1, hr1⟩ := hrun1 sF ctx (hext2.trans hF) hrel G (by simpa [Expr.vars] using hG) a st hb hgv
    refine ⟨.propAcc ((a + codeSize co : Nat) : Int) n v true, gv1, ⟨_, n, rfl, hemb⟩, hgv1, ?_⟩
    rw [runIs_append, hr1]
    simp only [Except.bind]
    rw [runIs_single, exec_oprop ctx i v hnm _ _ n st.stack rfl]
  | .chunk k a b d, hf, c, s0, s1, code, h => by
    simp only [FragE, Bool.and_eq_true, Bool.not_eq_true'] at hf
    obtain ⟨⟨⟨hfa, hza⟩, hfb⟩, hfd⟩ := hf
    rw [lowerExpr] at h
    simp only [M_bind_ok] at h
    obtain ⟨ca, sa, ha, cb, sb, hb, res, s3, ht, h⟩ := h
    have SA : StackOK c a s0 sa ca := stack_lemma a hfa c s0 sa ca ha
    have SB : StackOK c b sa sb cb := stack_lemma b hfb c sa sb cb hb
    cases res with
    | none =>
      have hs3 := tail_none c k.rank d sb s3 ht
      subst hs3
      simp only [M_bind_ok, M_pure_ok, Prod.mk.injEq] at h
      obtain ⟨cd, s4, hd, rfl, rfl⟩ := h
      have SD := stack_lemma d hfd c _ _ _ hd
      exact stackOK_of_tail c _ _ _ _ _
        (chunk_tailOK c k a b d 0 (rank_le4 k).1 hfa hza hfb _ _ _ _ _ _ [] _ SA SB (tailOK_of_stack c d k.rank _ _ _ SD))
    | some v =>
      obtain ⟨sl', base⟩ := v
      simp only [M_pure_ok, Prod.mk.injEq] at h
      obtain ⟨rfl, rfl⟩ := h
      have ST := tail_lemma d hfd c k.rank _ _ _ _ ht
      exact stackOK_of_tail c _ _ _ _ _ (chunk_tailOK c k a b d 0 (rank_le4 k).1 hfa hza hfb _ _ _ _ _ _ _ _ SA SB ST)
/-- argument lists: every argument is pushed, first argument deepest -/
theorem tail_lemma : ∀ (e : Expr), FragE e = true → ∀ (c : Spec.Ctx) (r : Nat) (s0 s1 : St) (sl : Slots) (base : List Instr),
    lowerChunkTail c r e s0 = .ok (some (sl, base), s1) → TailOK c e r s0 s1 sl base
  | .chunk k a b d, hf, c, r, s0, s1, sl, base, h => by
    simp only [FragE, Bool.and_eq_true, Bool.not_eq_true'] at hf
    obtain ⟨⟨⟨hfa, hza⟩, hfb⟩, hfd⟩ := hf
    rw [lowerChunkTail] at h
    by_cases hk : k.rank > r
    · simp only [hk, if_true, M_bind_ok] at h
      obtain ⟨ca, sa, ha, cb, sb, hb, res, s3, ht, h⟩ := h
      have SA : StackOK c a s0 sa ca := stack_lemma a hfa c s0 sa ca ha
      have SB : StackOK c b sa sb cb := stack_lemma b hfb c sa sb cb hb
      cases res with
      | none =>
        have hs3 := tail_none c k.rank d sb s3 ht
        subst hs3
        simp only [M_bind_ok, M_pure_ok, Prod.mk.injEq, Option.some.injEq] at h
        obtain ⟨cd, s4, hd, ⟨rfl, rfl⟩, rfl⟩ := h
        have SD := stack_lemma d hfd c _ _ _ hd
        exact chunk_tailOK c k a b d r hk hfa hza hfb _ _ _ _ _ _ [] _ SA SB (tailOK_of_stack c d k.rank _ _ _ SD)
      | some v =>
        obtain ⟨sl', base'⟩ := v
        simp only [M_pure_ok, Prod.mk.injEq, Option.some.injEq] at h
        obtain ⟨⟨rfl, rfl⟩, rfl⟩ := h
        have ST := tail_lemma d hfd c k.rank _ _ _ _ ht
        exact chunk_tailOK c k a b d r hk hfa hza hfb _ _ _ _ _ _ _ _ SA SB ST
    · simp only [hk, if_false, M_pure_ok, Prod.mk.injEq] at h
      cases h.1
  | .int _, _, c, r, s0, s1, sl, base, h => by
    rw [lowerChunkTail] at h
    · simp only [M_pure_ok, Prod.mk.injEq] at h
      cases h.1
    all_goals (intros; contradiction)
  | .str _, _, c, r, s0, s1, sl, base, h => by
    rw [lowerChunkTail] at h
    · simp only [M_pure_ok, Prod.mk.injEq] at h
      cases h.1
    all_goals (intros; contradiction)
  | .float _ _, _, c, r, s0, s1, sl, base, h => by
    rw [lowerChunkTail] at h
    · simp only [M_pure_ok, Prod.mk.injEq] at h
      cases h.1
    all_goals (intros; contradiction)
  | .sym _, _, c, r, s0, s1, sl, base, h => by
    rw [lowerChunkTail] at h
    · simp only [M_pure_ok, Prod.mk.injEq] at h
      cases h.1
    all_goals (intros; contradiction)
  | .var _ _, _, c, r, s0, s1, sl, base, h => by
    rw [lowerChunkTail] at h
    · simp only [M_pure_ok, Prod.mk.injEq] at h
      cases h.1
    all_goals (intros; contradiction)
  | .me, _, c, r, s0, s1, sl, base, h => by
    rw [lowerChunkTail] at h
    · simp only [M_pure_ok, Prod.mk.injEq] at h
      cases h.1
    all_goals (intros; contradiction)
  | .bin _ _ _, _, c, r, s0, s1, sl, base, h => by
    rw [lowerChunkTail] at h
    · simp only [M_pure_ok, Prod.mk.injEq] at h
      cases h.1
    all_goals (intros; contradiction)
  | .un _ _, _, c, r, s0, s1, sl, base, h => by
    rw [lowerChunkTail] at h
    · simp only [M_pure_ok, Prod.mk.injEq] at h
      cases h.1
    all_goals (intros; contradiction)
  | .field _, _, c, r, s0, s1, sl, base, h => by
    rw [lowerChunkTail] at h
    · simp only [M_pure_ok, Prod.mk.injEq] at h
      cases h.1
    all_goals (intros; contradiction)
  | .call _ _, _, c, r, s0, s1, sl, base, h => by
    rw [lowerChunkTail] at h
    · simp only [M_pure_ok, Prod.mk.injEq] at h
      cases h.1
    all_goals (intros; contradiction)
  | .mcall _ _ _, _, c, r, s0, s1, sl, base, h => by
    rw [lowerChunkTail] at h
    · simp only [M_pure_ok, Prod.mk.injEq] at h
      cases h.1
    all_goals (intros; contradiction)
  | .list _, _, c, r, s0, s1, sl, base, h => by
    rw [lowerChunkTail] at h
    · simp only [M_pure_ok, Prod.mk.injEq] at h
      cases h.1
    all_goals (intros; contradiction)
  | .plist _, _, c, r, s0, s1, sl, base, h => by
    rw [lowerChunkTail] at h
    · simp only [M_pure_ok, Prod.mk.injEq] at h
      cases h.1
    all_goals (intros; contradiction)
  | .the _ _ _, _, c, r, s0, s1, sl, base, h => by
    rw [lowerChunkTail] at h
    · simp only [M_pure_ok, Prod.mk.injEq] at h
      cases h.1
    all_goals (intros; contradiction)
  | .key _, _, c, r, s0, s1, sl, base, h => by
    rw [lowerChunkTail] at h
    · simp only [M_pure_ok, Prod.mk.injEq] at h
      cases h.1
    all_goals (intros; contradiction)
  | .movie _, _, c, r, s0, s1, sl, base, h => by
    rw [lowerChunkTail] at h
    · simp only [M_pure_ok, Prod.mk.injEq] at h
      cases h.1
    all_goals (intros; contradiction)
  | .oprop _ _, _, c, r, s0, s1, sl, base, h => by
    rw [lowerChunkTail] at h
    · simp only [M_pure_ok, Prod.mk.injEq] at h
      cases h.1
    all_goals (intros; contradiction)
theorem args_lemma : ∀ (as : List Expr), FragL as = true → ∀ (c : Spec.Ctx) (s0 s1 : St) (code : List Instr),
    lowerArgs c as s0 = .ok (code, s1) →
    Ext s0 s1 ∧ (∀ i ∈ code, i.opc ≠ 153) ∧
    ∀ (sF : St) (ctx : Lscr.Ctx), Ext s1 sF → Rel c sF ctx → ∀ (G : List Spec.Name), (∀ g ∈ Expr.varsList .glob as, g ∈ G) →
      ∀ (a : Nat) (st : PState), st.bpc = 6 → GvOk G st.gvars →
        ∃ ns gv', EmbLH c.handlers as ns ∧ GvNext G st.gvars gv' ∧ runIs ctx a code st = .ok { st with stack := ns.reverse ++ st.stack, gvars := gv' }
  | [], _, c, s0, s1, code, h => by
    rw [lowerArgs] at h
    simp only [M_pure_ok, Prod.mk.injEq] at h
    obtain ⟨rfl, rfl⟩ := h
    refine ⟨Ext.refl _, by simp, ?_⟩
    intro sF ctx _ _ G _ a st _ hgv
    exact ⟨[], st.gvars, rfl, GvNext.refl hgv, by simp [runIs]⟩
  | e :: es, hf, c, s0, s1, code, h => by
    simp only [FragL, Bool.and_eq_true] at hf
    rw [lowerArgs] at h
    simp only [M_bind_ok, M_pure_ok, Prod.mk.injEq] at h
    obtain ⟨ce, s', he, cs, s'', hes, rfl, rfl⟩ := h
    obtain ⟨hext1, hop1, hrun1⟩ := stack_lemma e hf.1 c s0 _ ce he
    obtain ⟨hext2, hop2, hrun2⟩ := args_lemma es hf.2 c _ _ cs hes
    refine ⟨hext1.trans hext2, ?_, ?_⟩
    · intro i hi
      rcases List.mem_append.mp hi with hi | hi
      · exact hop1 i hi
      · exact hop2 i hi
    intro sF ctx hF hrel G hG a st hb hgv
    have hG' : ∀ g ∈ e.vars .glob ++ Expr.varsList .glob es, g ∈ G := by simpa [Expr.varsList] using hG
    obtain ⟨n, gv1, hemb, hgv1, hr1⟩ := hrun1 sF ctx (hext2.trans hF) hrel G (vars_sub_left hG') a st hb hgv
    obtain ⟨ns, gv2, hembs, hgv2, hr2⟩ := hrun2 sF ctx hF hrel G (vars_sub_right hG') (a + codeSize ce)
      { st with stack := n :: st.stack, gvars := gv1 } hb hgv1.1
    refine ⟨n :: ns, gv2, ⟨n, ns, rfl, hemb, hembs⟩, hgv1.trans hgv2, ?_⟩
    rw [runIs_append, hr1]
    simp only [Except.bind]
    rw [hr2]
    simp [List.append_assoc]
end

def exitNode (p q : Int) : Node := .stmt p (.callFn (.s (S "exit")) q .none true false false .none)

theorem exec_exit (ctx : Lscr.Ctx) (b : Nat) (hb : b = 1 ∨ b = 2) (a : Int) (st : PState) :
    execI ctx (.op1 b) a st = .ok { st with stmts := st.stmts ++ [exitNode a a] } := by
  rcases hb with rfl | rfl
  · have hl : Opcodes.opcodes.lookup 1 = some { cls := "ExitOpcode", impl := "ExitOpcode", nbytes := 1, kind := "plain", attrs := [] } := rfl
    simp only [execI, hl]
    unfold process0
    simp only [PState.addStmt, exitNode]
  · have hl : Opcodes.opcodes.lookup 2 = some { cls := "ExitFactoryMethodOpcode", impl := "ExitFactoryMethodOpcode", nbytes := 1, kind := "plain", attrs := [] } := rfl
    simp only [execI, hl]
    unfold process0
    simp only [PState.addStmt, exitNode]

/-! ### L3: statements -/

theorem exec_setloc (ctx : Lscr.Ctx) (j : Nat) (x : Node) (hp : ctx.localVars[j]? = some x) (a : Int)
    (st : PState) (hb : st.bpc = 6) (r : Node) (rest : List Node) (hs : st.stack = r :: rest) :
    execI ctx (.op2 0x52 (6 * j)) a st
      = .ok { st with stack := rest, stmts := st.stmts ++ [.stmt a (.binary (S "assign") a x r)] } := by
  have hl : Opcodes.opcodes.lookup 0x52 = some { cls := "AssignLocalVariableOpcode", impl := "AssignLocalVariableOpcode", nbytes := 2, kind := "param1", attrs := [] } := rfl
  have hk : ¬ ("param1" = "bi" ∨ "param1" = "tri") := by decide
  simp only [execI, hl, hk, if_false]
  unfold process1
  simp only [recIndex_six st j hb, pyGet_some _ _ _ hp, PState.pop, hs, PState.addStmt, assignNode, Bind.bind, Except.bind, pure, Except.pure]

theorem exec_setparam (ctx : Lscr.Ctx) (j : Nat) (x : Node) (hp : ctx.params[j]? = some x) (a : Int)
    (st : PState) (hb : st.bpc = 6) (r : Node) (rest : List Node) (hs : st.stack = r :: rest) :
    execI ctx (.op2 0x51 (6 * j)) a st
      = .ok { st with stack := rest, stmts := st.stmts ++ [.stmt a (.binary (S "assign") a x r)] } := by
  have hl : Opcodes.opcodes.lookup 0x51 = some { cls := "AssignParameterOpcode", impl := "AssignParameterOpcode", nbytes := 2, kind := "param1", attrs := [] } := rfl
  have hk : ¬ ("param1" = "bi" ∨ "param1" = "tri") := by decide
  simp only [execI, hl, hk, if_false]
  unfold process1
  simp only [recIndex_six st j hb, pyGet_some _ _ _ hp, PState.pop, hs, PState.addStmt, assignNode, Bind.bind, Except.bind, pure, Except.pure]

theorem exec_setglob (ctx : Lscr.Ctx) (i : Nat) (v : Spec.Name) (hn : ctx.names[i]? = some v) (a : Int) (st : PState)
    (G : List Spec.Name) (hG : v ∈ G) (hgv : GvOk G st.gvars) (r : Node) (rest : List Node) (hs : st.stack = r :: rest) :
    ∃ gv', GvNext G st.gvars gv' ∧
      execI ctx (.op2 0x4f i) a st = .ok { st with stack := rest, gvars := gv', stmts := st.stmts ++ [.stmt a (.binary (S "assign") a (.leaf .globalVar (.s v) a) r)] } := by
  have hl : Opcodes.opcodes.lookup 0x4f = some { cls := "AssignGlobalVarOpcode", impl := "AssignGlobalVariableOpcode", nbytes := 2, kind := "param1", attrs := [] } := rfl
  have hk : ¬ ("param1" = "bi" ∨ "param1" = "tri") := by decide
  simp only [execI, hl, hk, if_false]
  unfold process1
  simp only [nameAt, pyGet_some _ _ _ hn, PState.pop, hs, PState.addStmt, assignNode, Bind.bind, Except.bind, pure, Except.pure]
  by_cases hin : pyIn (.leaf .globalVar (.s v) a) st.gvars = true
  · exact ⟨st.gvars, GvNext.refl hgv, by simp only [hin, if_true]⟩
  · exact ⟨st.gvars ++ [.leaf .globalVar (.s v) a], GvNext.snoc hgv v a hG hin, by simp only [hin, Bool.false_eq_true, if_false]⟩

theorem exec_setprop (ctx : Lscr.Ctx) (i : Nat) (v : Spec.Name) (hn : ctx.names[i]? = some v) (hpr : ctx.props.contains v = true)
    (a : Int) (st : PState) (r : Node) (rest : List Node) (hs : st.stack = r :: rest) :
    execI ctx (.op2 0x50 i) a st = .ok { st with stack := rest, stmts := st.stmts ++ [.stmt a (.binary (S "assign") a (.propAcc a (.leaf .node (.s (S "me")) a) v false) r)] } := by
  have hl : Opcodes.opcodes.lookup 0x50 = some { cls := "AssignPropertyOpcode", impl := "AssignPropertyOpcode", nbytes := 2, kind := "param1", attrs := [] } := rfl
  have hk : ¬ ("param1" = "bi" ∨ "param1" = "tri") := by decide
  simp only [execI, hl, hk, if_false]
  unfold process1
  simp only [nameAt, pyGet_some _ _ _ hn, hpr, if_true, PState.pop, hs, PState.addStmt, assignNode, Bind.bind, Except.bind, pure, Except.pure]

/-! #### assignments to built-in properties: `set the <p> [of sprite n] = v` (5d xx) -/

theorem bi_lookup_5d : Opcodes.opcodes.lookup 0x5d = some { cls := "AssignSoundPropertiesOpcode", impl := "AssignSoundPropertiesOpcode", nbytes := 2, kind := "bi", attrs := [] } := rfl

theorem assignObjProp_ok (cls : Leaf) (tb : List (Nat × String)) (mt : List String) (hall : tb.all (objRowOk tb mt) = true) (k : Nat)
    (hk : tb.any (fun x => x.1 == k) = true) (a : Int) (st : PState) (p : Int) (v x : Node) (nm : Lscr.Name) (hx : x.name = .ok nm)
    (rest : List Node) (hs : st.stack = .leaf .const (.s (natStr k)) p :: v :: x :: rest) :
    assignObjProp cls mt st a = .ok { st with stack := rest, stmts := st.stmts ++ [.stmt a (.binary (S "assign") a (.propAcc a (.leaf cls nm a) (nameOrUnknown tb k) false) v)] } := by
  have h1 : (Node.leaf .const (.s (natStr k)) p).name = .ok (.s (natStr k)) := rfl
  simp only [assignObjProp, popInt, popName, PState.pop, hs, h1, toInt_natStr, hx, obj_table tb mt hall k hk, Bind.bind, Except.bind, pure,
    Except.pure, PState.addStmt, assignNode]

theorem exec_assignobj (ctx : Lscr.Ctx) (t : Tbl) (cls : Leaf) (tb : List (Nat × String)) (w : String) (ht : theTbl t = some (cls, tb, w))
    (k : Nat) (hk : tb.any (fun x => x.1 == k) = true) (a : Int) (st : PState) (p : Int) (v x : Node) (nm : Lscr.Name)
    (hx : x.name = .ok nm) (rest : List Node) (hs : st.stack = .leaf .const (.s (natStr k)) p :: v :: x :: rest) :
    execI ctx (.op2 0x5d t.code) a st = .ok { st with stack := rest, stmts := st.stmts ++ [.stmt a (.binary (S "assign") a (.propAcc a (.leaf cls nm a) (nameOrUnknown tb k) false) v)] } := by
  have hkb : ("bi" = "bi" ∨ "bi" = "tri") := Or.inl rfl
  cases t with
  | sound =>
    simp only [theTbl, Option.some.injEq, Prod.mk.injEq] at ht
    obtain ⟨rfl, rfl, rfl⟩ := ht
    have hb : Opcodes.biOpcodes.lookup 23812 = some { cls := "AssignSoundPropertiesOpcode", impl := "AssignSoundPropertiesOpcode", nbytes := 2, kind := "bi", attrs := [] } := rfl
    simp only [execI, Tbl.code, bi_lookup_5d, hkb, if_true, Nat.reduceMul, Nat.reduceAdd, hb, true_or]
    have hp : process ctx { cls := "AssignSoundPropertiesOpcode", impl := "AssignSoundPropertiesOpcode", nbytes := 2, kind := "bi", attrs := [] } 0 0 a st
        = process0 ctx { cls := "AssignSoundPropertiesOpcode", impl := "AssignSoundPropertiesOpcode", nbytes := 2, kind := "bi", attrs := [] } a st := by
      unfold process
      rw [if_neg (by decide), if_neg (by decide)]
    rw [hp]
    unfold process0
    exact assignObjProp_ok _ _ _ sound_rows k hk a st p v x nm hx rest hs
  | sprite =>
    simp only [theTbl, Option.some.injEq, Prod.mk.injEq] at ht
    obtain ⟨rfl, rfl, rfl⟩ := ht
    have hb : Opcodes.biOpcodes.lookup 23814 = some { cls := "AssignSpritePropertiesOpcode", impl := "AssignSpritePropertiesOpcode", nbytes := 2, kind := "bi", attrs := [] } := rfl
    simp only [execI, Tbl.code, bi_lookup_5d, hkb, if_true, Nat.reduceMul, Nat.reduceAdd, hb, true_or]
    have hp : process ctx { cls := "AssignSpritePropertiesOpcode", impl := "AssignSpritePropertiesOpcode", nbytes := 2, kind := "bi", attrs := [] } 0 0 a st
        = process0 ctx { cls := "AssignSpritePropertiesOpcode", impl := "AssignSpritePropertiesOpcode", nbytes := 2, kind := "bi", attrs := [] } a st := by
      unfold process
      rw [if_neg (by decide), if_neg (by decide)]
    rw [hp]
    unfold process0
    exact assignObjProp_ok _ _ _ sprite_rows k hk a st p v x nm hx rest hs
  | cast =>
    simp only [theTbl, Option.some.injEq, Prod.mk.injEq] at ht
    obtain ⟨rfl, rfl, rfl⟩ := ht
    have hb : Opcodes.biOpcodes.lookup 23817 = some { cls := "AssignCastPropertiesOpcode", impl := "AssignCastPropertiesOpcode", nbytes := 2, kind := "bi", attrs := [] } := rfl
    simp only [execI, Tbl.code, bi_lookup_5d, hkb, if_true, Nat.reduceMul, Nat.reduceAdd, hb, true_or]
    have hp : process ctx { cls := "AssignCastPropertiesOpcode", impl := "AssignCastPropertiesOpcode", nbytes := 2, kind := "bi", attrs := [] } 0 0 a st
        = process0 ctx { cls := "AssignCastPropertiesOpcode", impl := "AssignCastPropertiesOpcode", nbytes := 2, kind := "bi", attrs := [] } a st := by
      unfold process
      rw [if_neg (by decide), if_neg (by decide)]
    rw [hp]
    unfold process0
    exact assignObjProp_ok _ _ _ cast_rows k hk a st p v x nm hx rest hs
  | video =>
    simp only [theTbl, Option.some.injEq, Prod.mk.injEq] at ht
    obtain ⟨rfl, rfl, rfl⟩ := ht
    have hb : Opcodes.biOpcodes.lookup 23821 = some { cls := "AssignVideoPropertiesOpcode", impl := "AssignVideoPropertiesOpcode", nbytes := 2, kind := "bi", attrs := [] } := rfl
    simp only [execI, Tbl.code, bi_lookup_5d, hkb, if_true, Nat.reduceMul, Nat.reduceAdd, hb, true_or]
    have hp : process ctx { cls := "AssignVideoPropertiesOpcode", impl := "AssignVideoPropertiesOpcode", nbytes := 2, kind := "bi", attrs := [] } 0 0 a st
        = process0 ctx { cls := "AssignVideoPropertiesOpcode", impl := "AssignVideoPropertiesOpcode", nbytes := 2, kind := "bi", attrs := [] } a st := by
      unfold process
      rw [if_neg (by decide), if_neg (by decide)]
    rw [hp]
    unfold process0
    exact assignObjProp_ok _ _ _ video_rows k hk a st p v x nm hx rest hs
  | _ => simp [theTbl] at ht

theorem exec_assignsys (ctx : Lscr.Ctx) (k : Nat) (hk : tblSys.any (fun x => x.1 == k) = true) (a : Int) (st : PState) (p : Int) (v : Node)
    (rest : List Node) (hs : st.stack = .leaf .const (.s (natStr k)) p :: v :: rest) :
    ∃ o, (startsWith o (S "_") = true ∨ o = S "tell_obj") ∧
      execI ctx (.op2 0x5d 7) a st = .ok { st with stack := rest, stmts := st.stmts ++ [.stmt a (.binary (S "assign") a (.propAcc a (.leaf .localVar (.s o) a) (nameOrUnknown tblSys k) false) v)] } := by
  obtain ⟨o, hd, ho⟩ := sys_table k hk
  have hkb : ("bi" = "bi" ∨ "bi" = "tri") := Or.inl rfl
  have hcode : (7 : Nat) = Tbl.sys.code := rfl
  rw [hcode]
  have hb : Opcodes.biOpcodes.lookup 23815 = some { cls := "AssignSystemPropertiesOpcode", impl := "AssignSystemPropertiesOpcode", nbytes := 2, kind := "bi", attrs := [] } := rfl
  simp only [execI, Tbl.code, bi_lookup_5d, hkb, if_true, Nat.reduceMul, Nat.reduceAdd, hb, true_or]
  have hp : process ctx { cls := "AssignSystemPropertiesOpcode", impl := "AssignSystemPropertiesOpcode", nbytes := 2, kind := "bi", attrs := [] } 0 0 a st
      = process0 ctx { cls := "AssignSystemPropertiesOpcode", impl := "AssignSystemPropertiesOpcode", nbytes := 2, kind := "bi", attrs := [] } a st := by
    unfold process
    rw [if_neg (by decide), if_neg (by decide)]
  rw [hp]
  unfold process0
  simp only [systemProps, assignTop, popInt, PState.pop, hs, Node.name, toInt_natStr, hd, Bind.bind, Except.bind, pure, Except.pure, PState.push,
    PState.addStmt, assignNode]
  by_cases ht : st.tell = true
  · rw [if_pos ht]
    exact ⟨S "tell_obj", Or.inr rfl, rfl⟩
  · rw [if_neg ht]
    exact ⟨o, Or.inl ho, rfl⟩

theorem exec_assignspecial (ctx : Lscr.Ctx) (k : Nat) (hk : k < 6) (a : Int) (st : PState) (p : Int) (v : Node)
    (rest : List Node) (hs : st.stack = .leaf .const (.s (natStr k)) p :: v :: rest) :
    execI ctx (.op2 0x5d 0) a st = .ok { st with stack := rest, stmts := st.stmts ++ [.stmt a (.binary (S "assign") a (.leaf .propName (.s (nameOrUnknown tblSpecial k)) a) v)] } := by
  have hkb : ("bi" = "bi" ∨ "bi" = "tri") := Or.inl rfl
  have hcode : (0 : Nat) = Tbl.special.code := rfl
  rw [hcode]
  have hb : Opcodes.biOpcodes.lookup 23808 = some { cls := "AssignSpecialPropertiesOpcode", impl := "AssignSpecialPropertiesOpcode", nbytes := 2, kind := "bi", attrs := [] } := rfl
  simp only [execI, Tbl.code, bi_lookup_5d, hkb, if_true, Nat.reduceMul, Nat.reduceAdd, hb, true_or]
  have hp : process ctx { cls := "AssignSpecialPropertiesOpcode", impl := "AssignSpecialPropertiesOpcode", nbytes := 2, kind := "bi", attrs := [] } 0 0 a st
      = process0 ctx { cls := "AssignSpecialPropertiesOpcode", impl := "AssignSpecialPropertiesOpcode", nbytes := 2, kind := "bi", attrs := [] } a st := by
    unfold process
    rw [if_neg (by decide), if_neg (by decide)]
  rw [hp]
  unfold process0
  have hlt : ((k : Nat) : Int) < 6 := by omega
  simp only [specialProps, assignTop, popInt, PState.pop, hs, Node.name, toInt_natStr, hlt, if_true, special_table k hk, Bind.bind,
    Except.bind, pure, Except.pure, PState.push, PState.addStmt, assignNode]

/-- opcode 62: `set the <p> of <obj> = v` -/
theorem exec_setoprop (ctx : Lscr.Ctx) (i : Nat) (v : Spec.Name) (hn : ctx.names[i]? = some v) (a : Int) (st : PState)
    (val x : Node) (rest : List Node) (hs : st.stack = val :: x :: rest) :
    execI ctx (.op2 0x62 i) a st = .ok { st with stack := rest, stmts := st.stmts ++ [.stmt a (.binary (S "assign") a (.propAcc a x v true) val)] } := by
  have hl : Opcodes.opcodes.lookup 0x62 = some { cls := "AssignPropertyAccesorOpcode", impl := "AssignPropertyAccesorOpcode", nbytes := 2, kind := "param1", attrs := [] } := rfl
  have hk : ¬ ("param1" = "bi" ∨ "param1" = "tri") := by decide
  simp only [execI, hl, hk, if_false]
  unfold process1
  simp only [nameAt, pyGet_some _ _ _ hn, PState.pop, hs, PState.addStmt, assignNode, Bind.bind, Except.bind, pure, Except.pure]


/-! #### `put … into|after|before`, `delete`, `hilite`: the opcodes 59 xx / 5a xx / 5b xx / 18 -/

theorem bi_lookup_59 : Opcodes.opcodes.lookup 0x59 = some { cls := "AssignBeforeFieldOpcode", impl := "AssignModeFieldOpcode", nbytes := 2, kind := "bi", attrs := [("mode", "before")] } := rfl
theorem bi_lookup_5a : Opcodes.opcodes.lookup 0x5a = some { cls := "PutIntoFieldSpOpcode", impl := "PutIntoFieldSpOpcode", nbytes := 2, kind := "bi", attrs := [] } := rfl
theorem bi_lookup_5b : Opcodes.opcodes.lookup 0x5b = some { cls := "DeleteFromStringOpcode", impl := "DeleteFromStringOpcode", nbytes := 2, kind := "bi", attrs := [] } := rfl

/-- the model's bi-opcode entry of `59 (hi + 5)` / `59 (hi + 6)`, `5a (hi + 5)` / `5a (hi + 6)` -/
def modeInfo (m : PutMode) (fld : Bool) : Opcodes.OpInfo :=
  match m, fld with
  | .into, false => { cls := "AssignIntoLocalVarOpcode", impl := "AssignModeLocalVarOpcode", nbytes := 2, kind := "bi", attrs := [("mode", "into")] }
  | .after, false => { cls := "AssignAfterLocalVarOpcode", impl := "AssignModeLocalVarOpcode", nbytes := 2, kind := "bi", attrs := [("mode", "after")] }
  | .before, false => { cls := "AssignBeforeLocalVarOpcode", impl := "AssignModeLocalVarOpcode", nbytes := 2, kind := "bi", attrs := [("mode", "before")] }
  | .into, true => { cls := "AssignIntoFieldOpcode", impl := "AssignModeFieldOpcode", nbytes := 2, kind := "bi", attrs := [("mode", "into")] }
  | .after, true => { cls := "AssignAfterFieldOpcode", impl := "AssignModeFieldOpcode", nbytes := 2, kind := "bi", attrs := [("mode", "after")] }
  | .before, true => { cls := "AssignBeforeFieldOpcode", impl := "AssignModeFieldOpcode", nbytes := 2, kind := "bi", attrs := [("mode", "before")] }

theorem mode_table (m : PutMode) (fld : Bool) :
    Opcodes.biOpcodes.lookup (0x59 * 256 + (m.hi + (if fld then 6 else 5))) = some (modeInfo m fld) ∧
      attr (modeInfo m fld) "mode" = .ok m.tag.toList := by
  cases m <;> cases fld <;> exact ⟨rfl, rfl⟩

theorem exec_59 (ctx : Lscr.Ctx) (m : PutMode) (fld : Bool) (a : Int) (st : PState) :
    execI ctx (.op2 0x59 (m.hi + (if fld then 6 else 5))) a st = process0 ctx (modeInfo m fld) a st := by
  have hkb : ("bi" = "bi" ∨ "bi" = "tri") := Or.inl rfl
  simp only [execI, bi_lookup_59, hkb, if_true, true_or, (mode_table m fld).1]
  unfold process
  cases m <;> cases fld <;> (rw [if_neg (by decide), if_neg (by decide)])

/-- `put v after|before <local>`: `v; <6j>; 59 (hi + 5)` -/
theorem exec_putloc (ctx : Lscr.Ctx) (m : PutMode) (j : Nat) (x : Node) (hp : ctx.localVars[j]? = some x) (a : Int) (st : PState)
    (hb : st.bpc = 6) (p : Int) (r : Node) (rest : List Node) (hs : st.stack = .leaf .const (.s (natStr (6 * j))) p :: r :: rest) :
    execI ctx (.op2 0x59 (m.hi + 5)) a st = .ok { st with stack := rest, stmts := st.stmts ++ [.stmt a (.spAssign a x r m.tag.toList)] } := by
  have e := exec_59 ctx m false a st
  simp only [Bool.false_eq_true, if_false] at e
  rw [e]
  have hmode := (mode_table m false).2
  have himpl : (modeInfo m false).impl = "AssignModeLocalVarOpcode" := by cases m <;> rfl
  unfold process0
  simp only [himpl, hmode, PState.pop, hs, Node.cls, Node.name, toInt_natStr, Bind.bind, Except.bind, pure, Except.pure, ne_eq, not_true_eq_false, if_false]
  have hr := recIndex_six { st with stack := r :: rest } j hb
  simp only [hr, pyGet_some _ _ _ hp, PState.addStmt]

/-- `put v into|after|before field e`: `v; e; 59 (hi + 6)` -/
theorem exec_putfield (ctx : Lscr.Ctx) (m : PutMode) (a : Int) (st : PState) (x r : Node) (rest : List Node) (hs : st.stack = x :: r :: rest) :
    execI ctx (.op2 0x59 (m.hi + 6)) a st
      = .ok { st with stack := rest, stmts := st.stmts ++ [.stmt a (.spAssign a (.unary (S "field") a x) r m.tag.toList)] } := by
  have e := exec_59 ctx m true a st
  simp only [if_true] at e
  rw [e]
  have hmode := (mode_table m true).2
  have himpl : (modeInfo m true).impl = "AssignModeFieldOpcode" := by cases m <;> rfl
  unfold process0
  simp only [himpl, hmode, PState.pop, hs, Bind.bind, Except.bind, pure, Except.pure, PState.addStmt, fieldOf]

/-- the class of `5a (hi + 5)` (local string) / `5a (hi + 6)` (field) -/
def putInfo (m : PutMode) (fld : Bool) : Opcodes.OpInfo :=
  match m, fld with
  | .into, false => { cls := "PutIntoStringOpcode", impl := "PutIntoStringOpcode", nbytes := 2, kind := "bi", attrs := [] }
  | .after, false => { cls := "PutAfterStringOpcode", impl := "PutAfterStringOpcode", nbytes := 2, kind := "bi", attrs := [] }
  | .before, false => { cls := "PutBeforeStringOpcode", impl := "PutBeforeStringOpcode", nbytes := 2, kind := "bi", attrs := [] }
  | .into, true => { cls := "PutIntoFieldSpOpcode", impl := "PutIntoFieldSpOpcode", nbytes := 2, kind := "bi", attrs := [] }
  | .after, true => { cls := "PutAfterFieldOpcode", impl := "PutAfterFieldOpcode", nbytes := 2, kind := "bi", attrs := [] }
  | .before, true => { cls := "PutBeforeFieldOpcode", impl := "PutBeforeFieldOpcode", nbytes := 2, kind := "bi", attrs := [] }

theorem exec_5a (ctx : Lscr.Ctx) (m : PutMode) (fld : Bool) (a : Int) (st : PState) :
    execI ctx (.op2 0x5a (m.hi + (if fld then 6 else 5))) a st
      = putChunk ctx (if fld then "field" else "string") m.tag.toList st a := by
  have hkb : ("bi" = "bi" ∨ "bi" = "tri") := Or.inl rfl
  have ht : Opcodes.biOpcodes.lookup (0x5a * 256 + (m.hi + (if fld then 6 else 5))) = some (putInfo m fld) := by
    cases m <;> cases fld <;> rfl
  simp only [execI, bi_lookup_5a, hkb, if_true, true_or, ht]
  unfold process
  cases m <;> cases fld <;> (rw [if_neg (by decide), if_neg (by decide)]; unfold process0; rfl)

/-- `put v … <chunk of field e>`: `v; slots; e; 5a (hi + 6)` -/
theorem exec_putchunk_field (ctx : Lscr.Ctx) (m : PutMode) (a : Int) (st : PState) (x r : Node) (l : List Node) (hl : l.length = 8)
    (hn : Named l) (rest : List Node) (hs : st.stack = x :: (l ++ r :: rest)) :
    execI ctx (.op2 0x5a (m.hi + 6)) a st
      = .ok { st with stack := rest, stmts := st.stmts ++ [.stmt a (.spAssign a (applyL 4 l (.unary (S "field") a x) a) r m.tag.toList)] } := by
  have e := exec_5a ctx m true a st
  simp only [if_true] at e
  rw [e]
  simp only [putChunk, if_true, PState.pop, hs, Bind.bind, Except.bind, pure, Except.pure, fieldOf]
  rw [addModifiers_ok (.unary (S "field") a x) { st with stack := l ++ r :: rest } a l hl hn (r :: rest) rfl]
  simp only [PState.addStmt]

/-- `put v … <chunk of a local>`: `v; slots; <6j>; 5a (hi + 5)` -/
theorem exec_putchunk_loc (ctx : Lscr.Ctx) (m : PutMode) (j : Nat) (x : Node) (hp : ctx.localVars[j]? = some x) (a : Int) (st : PState)
    (hb : st.bpc = 6) (p : Int) (r : Node) (l : List Node) (hl : l.length = 8) (hn : Named l) (rest : List Node)
    (hs : st.stack = .leaf .const (.s (natStr (6 * j))) p :: (l ++ r :: rest)) :
    execI ctx (.op2 0x5a (m.hi + 5)) a st
      = .ok { st with stack := rest, stmts := st.stmts ++ [.stmt a (.spAssign a (applyL 4 l x a) r m.tag.toList)] } := by
  have e := exec_5a ctx m false a st
  simp only [Bool.false_eq_true, if_false] at e
  rw [e]
  have h1 : ("string" = "field") = False := by decide
  have h2 : ("string" = "list") = False := by decide
  simp only [putChunk, h1, h2, if_false, popInt, PState.pop, hs, Node.name, toInt_natStr, Bind.bind, Except.bind, pure, Except.pure]
  have hr := recIndex_six { st with stack := l ++ r :: rest } j hb
  simp only [hr, pyGet_some _ _ _ hp]
  rw [addModifiers_ok x { st with stack := l ++ r :: rest } a l hl hn (r :: rest) rfl]
  simp only [PState.addStmt]

theorem exec_5b (ctx : Lscr.Ctx) (fld : Bool) (a : Int) (st : PState) :
    execI ctx (.op2 0x5b (if fld then 6 else 5)) a st = deleteChunk ctx (if fld then "field" else "string") st a := by
  have hkb : ("bi" = "bi" ∨ "bi" = "tri") := Or.inl rfl
  cases fld
  · have ht : Opcodes.biOpcodes.lookup (0x5b * 256 + 5) = some { cls := "DeleteFromStringOpcode", impl := "DeleteFromStringOpcode", nbytes := 2, kind := "bi", attrs := [] } := rfl
    simp only [execI, bi_lookup_5b, hkb, if_true, true_or, Bool.false_eq_true, if_false, ht]
    unfold process
    rw [if_neg (by decide), if_neg (by decide)]; unfold process0; rfl
  · have ht : Opcodes.biOpcodes.lookup (0x5b * 256 + 6) = some { cls := "DeleteFromFieldOpcode", impl := "DeleteFromFieldOpcode", nbytes := 2, kind := "bi", attrs := [] } := rfl
    simp only [execI, bi_lookup_5b, hkb, if_true, true_or, ht]
    unfold process
    rw [if_neg (by decide), if_neg (by decide)]; unfold process0; rfl

theorem exec_delchunk_field (ctx : Lscr.Ctx) (a : Int) (st : PState) (x : Node) (l : List Node) (hl : l.length = 8)
    (hn : Named l) (rest : List Node) (hs : st.stack = x :: (l ++ rest)) :
    execI ctx (.op2 0x5b 6) a st
      = .ok { st with stack := rest, stmts := st.stmts ++ [.stmt a (.unary (S "delete") a (applyL 4 l (.unary (S "field") a x) a))] } := by
  have e := exec_5b ctx true a st
  simp only [if_true] at e
  rw [e]
  simp only [deleteChunk, if_true, PState.pop, hs, Bind.bind, Except.bind, pure, Except.pure, fieldOf]
  rw [addModifiers_ok (.unary (S "field") a x) { st with stack := l ++ rest } a l hl hn rest rfl]
  simp only [PState.addStmt]

theorem exec_delchunk_loc (ctx : Lscr.Ctx) (j : Nat) (x : Node) (hp : ctx.localVars[j]? = some x) (a : Int) (st : PState)
    (hb : st.bpc = 6) (p : Int) (l : List Node) (hl : l.length = 8) (hn : Named l) (rest : List Node)
    (hs : st.stack = .leaf .const (.s (natStr (6 * j))) p :: (l ++ rest)) :
    execI ctx (.op2 0x5b 5) a st
      = .ok { st with stack := rest, stmts := st.stmts ++ [.stmt a (.unary (S "delete") a (applyL 4 l x a))] } := by
  have e := exec_5b ctx false a st
  simp only [Bool.false_eq_true, if_false] at e
  rw [e]
  have h1 : ("string" = "field") = False := by decide
  have h2 : ("string" = "list") = False := by decide
  simp only [deleteChunk, h1, h2, if_false, popInt, PState.pop, hs, Node.name, toInt_natStr, Bind.bind, Except.bind, pure, Except.pure]
  have hr := recIndex_six { st with stack := l ++ rest } j hb
  simp only [hr, pyGet_some _ _ _ hp]
  rw [addModifiers_ok x { st with stack := l ++ rest } a l hl hn rest rfl]
  simp only [PState.addStmt]

theorem exec_hilite (ctx : Lscr.Ctx) (a : Int) (st : PState) (x : Node) (l : List Node) (hl : l.length = 8)
    (hn : Named l) (rest : List Node) (hs : st.stack = x :: (l ++ rest)) :
    execI ctx (.op1 0x18) a st
      = .ok { st with stack := rest, stmts := st.stmts ++ [.stmt a (.unary (S "hilite") a (applyL 4 l (.unary (S "field") a x) a))] } := by
  have hl' : Opcodes.opcodes.lookup 0x18 = some { cls := "HiliteOpcode", impl := "HiliteOpcode", nbytes := 1, kind := "plain", attrs := [] } := rfl
  simp only [execI, hl']
  unfold process0
  simp only [PState.pop, hs, Bind.bind, Except.bind, pure, Except.pure, fieldOf]
  rw [addModifiers_ok (.unary (S "field") a x) { st with stack := l ++ rest } a l hl hn rest rfl]
  simp only [PState.addStmt]

/-- opcode 60: `set the <movie property> = v` (F150 repaired: the declared properties of the script are not consulted) -/
theorem exec_setmovie (ctx : Lscr.Ctx) (i : Nat) (v : Spec.Name) (hn : ctx.names[i]? = some v) (a : Int) (st : PState)
    (r : Node) (rest : List Node) (hs : st.stack = r :: rest) :
    ∃ l, Emb (.movie v) l ∧
      execI ctx (.op2 0x60 i) a st = .ok { st with stack := rest, stmts := st.stmts ++ [.stmt a (.binary (S "assign") a l r)] } := by
  have hl : Opcodes.opcodes.lookup 0x60 = some { cls := "AssignValToPropertyOpcode", impl := "AssignValToPropertyOpcode", nbytes := 2, kind := "param1", attrs := [] } := rfl
  have hk : ¬ ("param1" = "bi" ∨ "param1" = "tri") := by decide
  simp only [execI, hl, hk, if_false]
  unfold process1
  simp only [nameAt, pyGet_some _ _ _ hn, PState.pop, hs, PState.addStmt, assignNode, Bind.bind, Except.bind, pure, Except.pure]
  cases hd : dictGet Gen.PropTables.knownPropertiesAssign v with
  | ok o =>
    obtain ⟨kv, hkv, rfl⟩ := dictGet_mem _ _ _ hd
    exact ⟨_, Or.inr ⟨a, a, _, rfl, knownAssign_owner kv hkv⟩, rfl⟩
  | error e => exact ⟨_, Or.inl ⟨a, rfl⟩, rfl⟩

/-- the statement node carries the address of an instruction of its own code -/
def StmtIn (a len : Nat) (n : Node) : Prop := ∃ p c, n = .stmt p c ∧ (a : Int) ≤ p ∧ p < ((a + len : Nat) : Int)

/-- result of running the code of a statement: one `Statement` appended, the expression stack as before -/
def Stepped (G hs : List Spec.Name) (s : Stmt) (ctx : Lscr.Ctx) (a : Nat) (code : List Instr) (st : PState) : Prop :=
  ∃ n gv', EmbSH hs s n ∧ PlainStmt n ∧ StmtIn a (codeSize code) n ∧ GvNext G st.gvars gv' ∧
    runIs ctx a code st = .ok { st with stmts := st.stmts ++ [n], gvars := gv' }

theorem stmtIn_last (a : Nat) (pre : List Instr) (i : Instr) (c : Node) :
    StmtIn a (codeSize (pre ++ [i])) (.stmt ((a + codeSize pre : Nat) : Int) c) := by
  refine ⟨_, c, rfl, by omega, ?_⟩
  have : 1 ≤ i.size := by cases i <;> simp [Instr.size]
  rw [codeSize_append]
  simp only [codeSize]
  omega

/-! #### targets of `put` / `delete` / `hilite`: inversion of `lowerTarget`, the slot run, the three statement forms -/

theorem op2c_single (b x : Nat) (s s' : St) (code : List Instr) (h : op2c b x s = .ok (code, s')) : code ≠ [] := by
  obtain ⟨rfl, _, _⟩ := op2c_ok _ _ _ _ _ h
  simp

theorem litInstr_ne (k : Nat) (s s' : St) (code : List Instr) (h : litInstr k s = .ok (code, s')) : code ≠ [] := by
  unfold litInstr at h
  split at h
  · simp only [M_pure_ok, Prod.mk.injEq] at h; rw [h.1]; simp
  · split at h
    · simp only [M_pure_ok, Prod.mk.injEq] at h; rw [h.1]; simp
    · simp [Spec.fail] at h

theorem lowerInt_ne (n : Nat) (s s' : St) (code : List Instr) (h : lowerInt n s = .ok (code, s')) : code ≠ [] := by
  unfold lowerInt at h
  split at h
  · simp only [M_pure_ok, Prod.mk.injEq] at h; rw [h.1]; simp
  · split at h
    · simp only [M_pure_ok, Prod.mk.injEq] at h; rw [h.1]; simp
    · split at h
      · simp only [M_pure_ok, Prod.mk.injEq] at h; rw [h.1]; simp
      · split at h
        · simp only [M_bind_ok] at h
          obtain ⟨k, s2, _, h⟩ := h
          exact litInstr_ne _ _ _ _ h
        · simp [Spec.fail] at h

/-- the code of an expression is never empty -/
theorem lowerExpr_ne_nil (c : Spec.Ctx) (e : Expr) (s0 s1 : St) (code : List Instr) (h : lowerExpr c e s0 = .ok (code, s1)) : code ≠ [] := by
  cases e with
  | int n => rw [lowerExpr] at h; exact lowerInt_ne _ _ _ _ h
  | str v =>
    rw [lowerExpr] at h
    simp only [M_bind_ok] at h
    obtain ⟨k, s2, _, h⟩ := h
    exact litInstr_ne _ _ _ _ h
  | float d sc =>
    rw [lowerExpr] at h
    simp only [M_bind_ok] at h
    obtain ⟨k, s2, _, h⟩ := h
    exact litInstr_ne _ _ _ _ h
  | sym v =>
    rw [lowerExpr] at h
    simp only [M_bind_ok] at h
    obtain ⟨k, s2, _, h⟩ := h
    exact op2c_single _ _ _ _ _ h
  | var k v =>
    cases k with
    | loc =>
      rw [lowerExpr] at h
      cases ho : c.localOff v with
      | none => rw [ho] at h; simp [Spec.fail] at h
      | some o => rw [ho] at h; exact op2c_single _ _ _ _ _ h
    | param =>
      rw [lowerExpr] at h
      cases ho : c.paramOff v with
      | none => rw [ho] at h; simp [Spec.fail] at h
      | some o => rw [ho] at h; exact op2c_single _ _ _ _ _ h
    | glob =>
      rw [lowerExpr] at h
      simp only [M_bind_ok] at h
      obtain ⟨k, s2, _, h⟩ := h
      exact op2c_single _ _ _ _ _ h
    | prop =>
      rw [lowerExpr] at h
      simp only [M_bind_ok] at h
      obtain ⟨k, s2, _, h⟩ := h
      exact op2c_single _ _ _ _ _ h
  | me =>
    rw [lowerExpr] at h
    simp only [M_bind_ok] at h
    obtain ⟨k, s2, _, h⟩ := h
    exact op2c_single _ _ _ _ _ h
  | bin o a b =>
    rw [lowerExpr] at h
    simp only [M_bind_ok, M_pure_ok, Prod.mk.injEq] at h
    obtain ⟨ca, s2, _, cb, s3, _, rfl, _⟩ := h
    simp
  | un o a =>
    rw [lowerExpr] at h
    simp only [M_bind_ok, M_pure_ok, Prod.mk.injEq] at h
    obtain ⟨ca, s2, _, rfl, _⟩ := h
    simp
  | field a =>
    rw [lowerExpr] at h
    simp only [M_bind_ok, M_pure_ok, Prod.mk.injEq] at h
    obtain ⟨ca, s2, _, rfl, _⟩ := h
    simp
  | call f as =>
    rw [lowerExpr] at h
    simp only [M_bind_ok] at h
    obtain ⟨ca, s', ha, cn, s'', hn, h⟩ := h
    cases hidx : idxOf f c.handlers 0 with
    | some k =>
      rw [hidx] at h
      simp only [M_bind_ok, M_pure_ok, Prod.mk.injEq] at h
      obtain ⟨cc, s3, hcc, rfl, rfl⟩ := h
      have := op2c_single _ _ _ _ _ hcc
      simp [this]
    | none =>
      rw [hidx] at h
      simp only [M_bind_ok, M_pure_ok, Prod.mk.injEq] at h
      obtain ⟨ni, s3, hni, cc, s4, hcc, rfl, rfl⟩ := h
      have := op2c_single _ _ _ _ _ hcc
      simp [this]
  | mcall o m as =>
    rw [lowerExpr] at h
    simp only [M_bind_ok, M_pure_ok, Prod.mk.injEq] at h
    obtain ⟨i, s2, _, cm, s3, _, ca, s4, _, n, s5, _, ⟨ref, k⟩, s6, _, rfl, _⟩ := h
    simp
  | list as =>
    rw [lowerExpr] at h
    simp only [M_bind_ok, M_pure_ok, Prod.mk.injEq] at h
    obtain ⟨ca, s2, _, n, s3, _, rfl, _⟩ := h
    simp
  | plist as =>
    rw [lowerExpr] at h
    simp only [M_bind_ok, M_pure_ok, Prod.mk.injEq] at h
    obtain ⟨ca, s2, _, n, s3, _, rfl, _⟩ := h
    simp
  | the t k as =>
    rw [lowerExpr] at h
    simp only [M_bind_ok, M_pure_ok, Prod.mk.injEq] at h
    obtain ⟨ca, s2, _, n, s3, _, rfl, _⟩ := h
    simp
  | key v =>
    rw [lowerExpr] at h
    simp only [M_bind_ok, M_pure_ok, Prod.mk.injEq] at h
    obtain ⟨i, s2, _, cc, s3, _, rfl, _⟩ := h
    simp
  | movie v =>
    rw [lowerExpr] at h
    simp only [M_bind_ok] at h
    obtain ⟨k, s2, _, h⟩ := h
    exact op2c_single _ _ _ _ _ h
  | oprop v o =>
    rw [lowerExpr] at h
    simp only [M_bind_ok, M_pure_ok, Prod.mk.injEq] at h
    obtain ⟨co, s2, _, i, s3, _, cc, s4, hcc, rfl, _⟩ := h
    have := op2c_single _ _ _ _ _ hcc
    simp [this]
  | chunk k a b d =>
    rw [lowerExpr] at h
    simp only [M_bind_ok] at h
    obtain ⟨ca, s2, _, cb, s3, _, res, s4, _, h⟩ := h
    cases res with
    | none =>
      simp only [M_bind_ok, M_pure_ok, Prod.mk.injEq] at h
      obtain ⟨base, s5, _, rfl, _⟩ := h
      simp
    | some v =>
      obtain ⟨sl, base⟩ := v
      simp only [M_pure_ok, Prod.mk.injEq] at h
      rw [h.1]; simp


/-- what a target chain bottoms out in -/
def tgBase : Expr → Expr
  | .chunk _ _ _ d => tgBase d
  | e => e

/-- result of running the slot codes (ranks above `r`) of a put / delete / hilite target: the slot pairs `l`; whatever node `z`
    is the image of the chain's bottom, the slice instruction's modifiers applied to it give the image of the whole target -/
def SlotRun (G hs : List Spec.Name) (tgt : Expr) (r : Nat) (ctx : Lscr.Ctx) (ad : Nat) (code : List Instr) (st : PState) : Prop :=
  ∃ (l : List Node) (gv' : List Node), l.length = 2 * (4 - r) ∧ Named l ∧ GvNext G st.gvars gv' ∧
    runIs ctx ad code st = .ok { st with stack := l ++ st.stack, gvars := gv' } ∧
    ∀ idx z, EmbTg (tgBase tgt) z → EmbTg tgt (applyL 4 l z idx)

theorem slot_nil (G hs : List Spec.Name) (e : Expr) (he : tgBase e = e) (r : Nat) (ctx : Lscr.Ctx) (ad : Nat) (st : PState)
    (hgv : GvOk G st.gvars) : SlotRun G hs e r ctx ad (List.replicate (2 * (4 - r)) (Instr.op1 0x03)) st := by
  refine ⟨zs ad (2 * (4 - r)), st.gvars, zs_length _ _, allZ_named _ (zs_allZ _ _), GvNext.refl hgv, ?_, ?_⟩
  · rw [run_zeros]
  · intro idx z hz
    rw [applyL_zeros _ _ _ _ (zs_allZ _ _)]
    rw [he] at hz
    exact hz

theorem slot_core (G hs : List Spec.Name) (k : ChunkKind) (a b d : Expr) (r : Nat) (hr : r < k.rank) (hfa : FragE a = true)
    (hza : isZero a = false) (hfb : FragE b = true) (ctx : Lscr.Ctx) (ca cb tcode : List Instr)
    (PA : ∀ (ad : Nat) (st : PState), st.bpc = 6 → GvOk G st.gvars → Pushed G hs a ctx ad ca st)
    (PB : ∀ (ad : Nat) (st : PState), st.bpc = 6 → GvOk G st.gvars → Pushed G hs b ctx ad cb st)
    (PT : ∀ (ad : Nat) (st : PState), st.bpc = 6 → GvOk G st.gvars → SlotRun G hs d k.rank ctx ad tcode st)
    (ad : Nat) (st : PState) (hb : st.bpc = 6) (hgv : GvOk G st.gvars) :
    SlotRun G hs (.chunk k a b d) r ctx ad (List.replicate (2 * (k.rank - 1 - r)) (Instr.op1 0x03) ++ (ca ++ cb) ++ tcode) st := by
  obtain ⟨hk1, hk4⟩ := rank_le4 k
  let n0 := 2 * (k.rank - 1 - r)
  have r0 := run_zeros ctx n0 ad st
  obtain ⟨na, gv1, hemba, hgv1, hr1⟩ := PA (ad + n0) { st with stack := zs ad n0 ++ st.stack } hb hgv
  obtain ⟨nb, gv2, hembb, hgv2, hr2⟩ := PB (ad + n0 + codeSize ca) { st with stack := na :: (zs ad n0 ++ st.stack), gvars := gv1 } hb hgv1.1
  obtain ⟨lt, gv3, hlen, hnamed, hgv3, hr3, himg⟩ := PT (ad + n0 + codeSize ca + codeSize cb)
    { st with stack := nb :: na :: (zs ad n0 ++ st.stack), gvars := gv2 } hb hgv2.1
  obtain ⟨sn, hsn, hsz⟩ := embH_name_zero hs a na hfa hemba
  obtain ⟨en, hen, hez⟩ := embH_name_zero hs b nb hfb hembb
  have hsn0 : sn ≠ .s (S "0") := fun e => by rw [hsz.mp e] at hza; cases hza
  refine ⟨lt ++ ([nb, na] ++ zs ad n0), gv3, ?_, ?_, (hgv1.trans hgv2).trans hgv3, ?_, ?_⟩
  · simp only [List.length_append, hlen, List.length_cons, List.length_nil, zs_length, n0]
    omega
  · intro n hn
    simp only [List.mem_append, List.mem_cons, List.mem_nil_iff, or_false] at hn
    rcases hn with hn | (rfl | rfl) | hn
    · exact hnamed n hn
    · exact ⟨_, hen⟩
    · exact ⟨_, hsn⟩
    · exact allZ_named _ (zs_allZ _ _) n hn
  · rw [runIs_append, runIs_append, r0]
    simp only [Except.bind, codeSize_zeros]
    rw [runIs_append, hr1]
    simp only [Except.bind]
    rw [hr2]
    simp only [Except.bind, codeSize_append, codeSize_zeros]
    have e1 : ad + (n0 + (codeSize ca + codeSize cb)) = ad + n0 + codeSize ca + codeSize cb := by omega
    rw [e1, hr3]
    simp [List.append_assoc]
  · intro idx z hz
    rw [applyL_append lt ([nb, na] ++ zs ad n0) 4 (4 - k.rank) z idx hlen]
    have e4 : 4 - (4 - k.rank) = k.rank := by omega
    rw [e4]
    simp only [List.cons_append, List.nil_append, applyL]
    rw [applyL_zeros _ _ _ _ (zs_allZ _ _)]
    simp only [stepN, hsn, hen, hsn0, ne_eq, not_false_eq_true, if_true, kindOf_rank]
    simp only [EmbTg]
    refine ⟨idx, na, _, _, rfl, EmbH.toEmb _ _ _ hemba, ?_, himg idx z (by simpa [tgBase] using hz)⟩
    cases hzb : isZero b with
    | true => left; exact ⟨rfl, by rw [if_neg (by rw [hez.mpr hzb]; simp)]⟩
    | false =>
      right
      have : en ≠ .s (S "0") := fun e => by rw [hez.mp e] at hzb; cases hzb
      exact ⟨rfl, by rw [if_pos this]; exact EmbH.toEmb _ _ _ hembb⟩

/-- what the lowering of the slot part of a target guarantees -/
def TgtOK (c : Spec.Ctx) (tgt : Expr) (r : Nat) (s0 s1 : St) (sl : Slots) : Prop :=
  Ext s0 s1 ∧ Above r sl ∧ (∀ i ∈ slotsFrom sl r, i.opc ≠ 153) ∧
    ∀ (sF : St) (ctx : Lscr.Ctx), Ext s1 sF → Rel c sF ctx → ∀ (G : List Spec.Name), (∀ g ∈ tgt.vars .glob, g ∈ G) →
      ∀ (ad : Nat) (st : PState), st.bpc = 6 → GvOk G st.gvars → SlotRun G c.handlers tgt r ctx ad (slotsFrom sl r) st

theorem tgt_nil (c : Spec.Ctx) (e : Expr) (he : tgBase e = e) (r : Nat) (s : St) : TgtOK c e r s s [] := by
  refine ⟨Ext.refl _, (fun x hx => absurd hx (List.not_mem_nil)), ?_, ?_⟩
  · intro i hi
    rw [slotsFrom_nil] at hi
    obtain ⟨_, rfl⟩ := List.mem_replicate.mp hi; simp [Instr.opc]
  · intro sF ctx _ _ G _ ad st _ hgv
    rw [slotsFrom_nil]
    exact slot_nil G c.handlers e he r ctx ad st hgv

theorem tgt_cons (c : Spec.Ctx) (k : ChunkKind) (a b d : Expr) (r : Nat) (hr : r < k.rank) (hfa : FragE a = true)
    (hza : isZero a = false) (hfb : FragE b = true) (s0 sa sb s1 : St) (ca cb : List Instr) (sl' : Slots)
    (SA : StackOK c a s0 sa ca) (SB : StackOK c b sa sb cb) (ST : TgtOK c d k.rank sb s1 sl') :
    TgtOK c (.chunk k a b d) r s0 s1 ((k.rank, ca, cb) :: sl') := by
  obtain ⟨hexta, hopa, hruna⟩ := SA
  obtain ⟨hextb, hopb, hrunb⟩ := SB
  obtain ⟨hextt, habove, hopt, hrunt⟩ := ST
  have hcode : slotsFrom ((k.rank, ca, cb) :: sl') r
      = List.replicate (2 * (k.rank - 1 - r)) (Instr.op1 0x03) ++ (ca ++ cb) ++ slotsFrom sl' k.rank :=
    slotsFrom_cons k ca cb sl' r hr habove
  refine ⟨(hexta.trans hextb).trans hextt, ?_, ?_, ?_⟩
  · intro x hx
    rcases List.mem_cons.mp hx with rfl | hx
    · exact hr
    · have := habove x hx; omega
  · intro i hi
    rw [hcode] at hi
    simp only [List.mem_append, List.mem_replicate] at hi
    rcases hi with (⟨_, rfl⟩ | hi | hi) | hi
    · simp [Instr.opc]
    · exact hopa i hi
    · exact hopb i hi
    · exact hopt i hi
  · intro sF ctx hF hrel G hG ad st hb hgv
    have hG3 : ∀ g ∈ a.vars .glob ++ b.vars .glob ++ d.vars .glob, g ∈ G := by simpa [Expr.vars] using hG
    rw [hcode]
    exact slot_core G c.handlers k a b d r hr hfa hza hfb ctx ca cb (slotsFrom sl' k.rank)
      (fun ad' st' hb' hgv' => hruna sF ctx ((hextb.trans hextt).trans hF) hrel G (fun g hg => hG3 g (by simp [hg])) ad' st' hb' hgv')
      (fun ad' st' hb' hgv' => hrunb sF ctx (hextt.trans hF) hrel G (fun g hg => hG3 g (by simp [hg])) ad' st' hb' hgv')
      (fun ad' st' hb' hgv' => hrunt sF ctx hF hrel G (fun g hg => hG3 g (by simp [hg])) ad' st' hb' hgv')
      ad st hb hgv

/-- what a target chain bottoms out in, as the scheme classifies it -/
inductive BaseOK (c : Spec.Ctx) : Expr → Base → St → St → Prop
  | field (e : Expr) (ce : List Instr) (s0 s1 : St) : FragE e = true → StackOK c e s0 s1 ce → BaseOK c (.field e) (.field ce) s0 s1
  | loc (v : Spec.Name) (o : Nat) (s : St) : c.localOff v = some o → BaseOK c (.var .loc v) (.loc o) s s
  | named (v : Spec.Name) (i : Nat) (s0 s1 : St) : nameIdx v s0 = .ok (i, s1) → BaseOK c (.var .glob v) (.named i) s0 s1

theorem go_ok (c : Spec.Ctx) : ∀ (d : Expr) (r : Nat), FragTg r d = true → ∀ (sl : Slots) (s0 s1 : St) (code : List Instr) (base : Base),
    lowerTarget.go c r sl d s0 = .ok ((code, base), s1) →
    ∃ sl' sm, code = slotCode (sl ++ sl') ∧ TgtOK c d r s0 sm sl' ∧ BaseOK c (tgBase d) base sm s1
  | .chunk k a b d, r, hf, sl, s0, s1, code, base, h => by
    simp only [FragTg, Bool.and_eq_true, decide_eq_true_eq, Bool.not_eq_true'] at hf
    obtain ⟨⟨⟨⟨hr, hfa⟩, hza⟩, hfb⟩, hfd⟩ := hf
    rw [lowerTarget.go] at h
    simp only [gt_iff_lt, hr, if_true, M_bind_ok] at h
    obtain ⟨ca, sa, ha, cb, sb, hb, h⟩ := h
    obtain ⟨sl', sm, rfl, hT, hB⟩ := go_ok c d k.rank hfd _ _ _ _ _ h
    refine ⟨(k.rank, ca, cb) :: sl', sm, by simp, ?_, by simpa [tgBase] using hB⟩
    exact tgt_cons c k a b d r hr hfa hza hfb s0 sa sb sm ca cb sl' (stack_lemma a hfa c _ _ _ ha) (stack_lemma b hfb c _ _ _ hb) hT
  | .field e, r, hf, sl, s0, s1, code, base, h => by
    simp only [FragTg] at hf
    rw [lowerTarget.go] at h
    simp only [M_bind_ok, M_pure_ok, Prod.mk.injEq] at h
    obtain ⟨ce, s2, he, ⟨rfl, rfl⟩, rfl⟩ := h
    exact ⟨[], s0, by simp, tgt_nil c _ rfl r s0, BaseOK.field e ce s0 _ hf (stack_lemma e hf c _ _ _ he)⟩
  | .var .loc v, r, hf, sl, s0, s1, code, base, h => by
    rw [lowerTarget.go] at h
    cases ho : c.localOff v with
    | none => rw [ho] at h; simp [Spec.fail] at h
    | some o =>
      rw [ho] at h
      simp only [M_pure_ok, Prod.mk.injEq] at h
      obtain ⟨⟨rfl, rfl⟩, rfl⟩ := h
      exact ⟨[], _, by simp, tgt_nil c _ rfl r _, BaseOK.loc v o _ ho⟩
  | .var .param _, _, hf, _, _, _, _, _, _ => by simp [FragTg] at hf
  | .var .glob v, r, hf, sl, s0, s1, code, base, h => by
    rw [lowerTarget.go] at h
    simp only [M_bind_ok, M_pure_ok, Prod.mk.injEq] at h
    obtain ⟨i, s2, hn, ⟨rfl, rfl⟩, rfl⟩ := h
    exact ⟨[], s0, by simp, tgt_nil c _ rfl r s0, BaseOK.named v i s0 _ hn⟩
  | .var .prop _, _, hf, _, _, _, _, _, _ => by simp [FragTg] at hf
  | .int _, _, hf, _, _, _, _, _, _ => by simp [FragTg] at hf
  | .str _, _, hf, _, _, _, _, _, _ => by simp [FragTg] at hf
  | .float _ _, _, hf, _, _, _, _, _, _ => by simp [FragTg] at hf
  | .sym _, _, hf, _, _, _, _, _, _ => by simp [FragTg] at hf
  | .me, _, hf, _, _, _, _, _, _ => by simp [FragTg] at hf
  | .bin _ _ _, _, hf, _, _, _, _, _, _ => by simp [FragTg] at hf
  | .un _ _, _, hf, _, _, _, _, _, _ => by simp [FragTg] at hf
  | .call _ _, _, hf, _, _, _, _, _, _ => by simp [FragTg] at hf
  | .mcall _ _ _, _, hf, _, _, _, _, _, _ => by simp [FragTg] at hf
  | .list _, _, hf, _, _, _, _, _, _ => by simp [FragTg] at hf
  | .plist _, _, hf, _, _, _, _, _, _ => by simp [FragTg] at hf
  | .the _ _ _, _, hf, _, _, _, _, _, _ => by simp [FragTg] at hf
  | .key _, _, hf, _, _, _, _, _, _ => by simp [FragTg] at hf
  | .movie _, _, hf, _, _, _, _, _, _ => by simp [FragTg] at hf
  | .oprop _ _, _, hf, _, _, _, _, _, _ => by simp [FragTg] at hf


theorem tgBase_vars (vk : VarKind) : ∀ (d : Expr) (g : Spec.Name), g ∈ (tgBase d).vars vk → g ∈ d.vars vk
  | .chunk k a b d, g, h => by
    have := tgBase_vars vk d g (by simpa [tgBase] using h)
    simp [Expr.vars, this]
  | .field e, g, h => h
  | .var _ _, g, h => h
  | .int _, g, h => h
  | .str _, g, h => h
  | .float _ _, g, h => h
  | .sym _, g, h => h
  | .me, g, h => h
  | .bin _ _ _, g, h => h
  | .un _ _, g, h => h
  | .call _ _, g, h => h
  | .mcall _ _ _, g, h => h
  | .list _, g, h => h
  | .plist _, g, h => h
  | .the _ _ _, g, h => h
  | .key _, g, h => h
  | .movie _, g, h => h
  | .oprop _ _, g, h => h

theorem slotCode_cons_ne (k : ChunkKind) (ca cb : List Instr) (sl' : Slots) (habove : Above k.rank sl') (hca : ca ≠ []) :
    slotCode ((k.rank, ca, cb) :: sl') ≠ [] := by
  have h0 : slotCode ((k.rank, ca, cb) :: sl') = slotsFrom ((k.rank, ca, cb) :: sl') 0 := rfl
  rw [h0, slotsFrom_cons k ca cb sl' 0 (rank_le4 k).1 habove]
  simp [hca]

/-- inversion of `lowerTarget` on the fragment: a chunk chain (non-empty slot code) or a bare `field e` / local -/
theorem target_ok (c : Spec.Ctx) (lv : Expr) (hf : FragTg 0 lv = true) (s0 s1 : St) (slots : List Instr) (base : Base)
    (h : lowerTarget c lv s0 = .ok ((slots, base), s1)) :
    (isChunkE lv = true ∧ ∃ sl sm i rest, slots = i :: rest ∧ i :: rest = slotCode sl ∧ TgtOK c lv 0 s0 sm sl ∧ BaseOK c (tgBase lv) base sm s1) ∨
    (isChunkE lv = false ∧ slots = [] ∧ BaseOK c lv base s0 s1) := by
  cases lv with
  | chunk k a b d =>
    left
    simp only [FragTg, Bool.and_eq_true, decide_eq_true_eq, Bool.not_eq_true'] at hf
    obtain ⟨⟨⟨⟨hr, hfa⟩, hza⟩, hfb⟩, hfd⟩ := hf
    rw [lowerTarget] at h
    simp only [M_bind_ok] at h
    obtain ⟨ca, sa, ha, cb, sb, hb, h⟩ := h
    obtain ⟨sl', sm, rfl, hT, hB⟩ := go_ok c d k.rank hfd _ _ _ _ _ h
    have hT' := tgt_cons c k a b d 0 hr hfa hza hfb s0 sa sb sm ca cb sl' (stack_lemma a hfa c _ _ _ ha) (stack_lemma b hfb c _ _ _ hb) hT
    have hne := slotCode_cons_ne k ca cb sl' hT.2.1 (lowerExpr_ne_nil c a _ _ _ ha)
    have hs : [(k.rank, ca, cb)] ++ sl' = (k.rank, ca, cb) :: sl' := rfl
    rw [hs]
    obtain ⟨i, rest, hir⟩ := List.exists_cons_of_ne_nil hne
    exact ⟨rfl, _, sm, i, rest, hir, hir.symm, hT', by simpa [tgBase] using hB⟩
  | field e =>
    right
    simp only [FragTg] at hf
    rw [lowerTarget] at h
    simp only [M_bind_ok, M_pure_ok, Prod.mk.injEq] at h
    obtain ⟨ce, s2, he, ⟨rfl, rfl⟩, rfl⟩ := h
    exact ⟨rfl, rfl, BaseOK.field e ce s0 _ hf (stack_lemma e hf c _ _ _ he)⟩
  | var k v =>
    cases k with
    | loc =>
      right
      rw [lowerTarget] at h
      cases ho : c.localOff v with
      | none => rw [ho] at h; simp [Spec.fail] at h
      | some o =>
        rw [ho] at h
        simp only [M_pure_ok, Prod.mk.injEq] at h
        obtain ⟨⟨rfl, rfl⟩, rfl⟩ := h
        exact ⟨rfl, rfl, BaseOK.loc v o _ ho⟩
    | _ => simp [FragTg] at hf
  | _ => simp [FragTg] at hf

/-- slots, then the field's expression: the stack the put / delete / hilite opcode of a FIELD target finds -/
theorem tgt_field_run (c : Spec.Ctx) (lv e : Expr) (s' sm s2 : St) (sl : Slots) (ce : List Instr) (hT : TgtOK c lv 0 s' sm sl)
    (hbase : tgBase lv = .field e) (hS : StackOK c e sm s2 ce) :
    Ext s' s2 ∧ (∀ i ∈ slotCode sl ++ ce, i.opc ≠ 153) ∧
    ∀ (sF : St) (ctx : Lscr.Ctx), Ext s2 sF → Rel c sF ctx → ∀ (G : List Spec.Name), (∀ g ∈ lv.vars .glob, g ∈ G) →
      ∀ (ad : Nat) (st : PState), st.bpc = 6 → GvOk G st.gvars →
        ∃ l x gv', l.length = 8 ∧ Named l ∧ GvNext G st.gvars gv' ∧
          runIs ctx ad (slotCode sl ++ ce) st = .ok { st with stack := x :: (l ++ st.stack), gvars := gv' } ∧
          ∀ idx, EmbTg lv (applyL 4 l (.unary (S "field") idx x) idx) := by
  obtain ⟨hext1, _, hop1, hrun1⟩ := hT
  obtain ⟨hext2, hop2, hrun2⟩ := hS
  refine ⟨hext1.trans hext2, ?_, ?_⟩
  · intro i hi
    rcases List.mem_append.mp hi with hi | hi
    · exact hop1 i hi
    · exact hop2 i hi
  intro sF ctx hF hrel G hG ad st hb hgv
  obtain ⟨l, gv1, hlen, hnamed, hgv1, hr1, himg⟩ := hrun1 sF ctx (hext2.trans hF) hrel G hG ad st hb hgv
  have hGe : ∀ g ∈ e.vars .glob, g ∈ G := fun g hg => hG g (tgBase_vars .glob lv g (by rw [hbase]; exact hg))
  obtain ⟨x, gv2, hembx, hgv2, hr2⟩ := hrun2 sF ctx hF hrel G hGe (ad + codeSize (slotCode sl))
    { st with stack := l ++ st.stack, gvars := gv1 } hb hgv1.1
  refine ⟨l, x, gv2, by simpa using hlen, hnamed, hgv1.trans hgv2, ?_, ?_⟩
  · rw [runIs_append]
    have : slotCode sl = slotsFrom sl 0 := rfl
    rw [this, hr1]
    simp only [Except.bind]
    exact hr2
  · intro idx
    exact himg idx _ (by rw [hbase]; simp only [EmbTg]; exact ⟨idx, x, rfl, EmbH.toEmb _ _ _ hembx⟩)

/-- slots, then the record offset of the local: the stack the put / delete opcode of a LOCAL target finds -/
theorem tgt_loc_run (c : Spec.Ctx) (lv : Expr) (v : Spec.Name) (o : Nat) (s' sm s2 : St) (sl : Slots) (ci : List Instr)
    (hT : TgtOK c lv 0 s' sm sl) (hbase : tgBase lv = .var .loc v) (ho : c.localOff v = some o) (hi : lowerInt o sm = .ok (ci, s2)) :
    Ext s' s2 ∧ (∀ i ∈ slotCode sl ++ ci, i.opc ≠ 153) ∧
    ∀ (sF : St) (ctx : Lscr.Ctx), Ext s2 sF → Rel c sF ctx → ∀ (G : List Spec.Name), (∀ g ∈ lv.vars .glob, g ∈ G) →
      ∀ (ad : Nat) (st : PState), st.bpc = 6 → GvOk G st.gvars →
        ∃ l j xv p gv', l.length = 8 ∧ Named l ∧ GvNext G st.gvars gv' ∧ ctx.localVars[j]? = some xv ∧
          runIs ctx ad (slotCode sl ++ ci) st = .ok { st with stack := .leaf .const (.s (natStr (6 * j))) p :: (l ++ st.stack), gvars := gv' } ∧
          ∀ idx, EmbTg lv (applyL 4 l xv idx) := by
  obtain ⟨hext1, _, hop1, hrun1⟩ := hT
  obtain ⟨hext2, hop2, hrun2⟩ := lowerInt_ok o sm s2 ci hi
  refine ⟨hext1.trans hext2, ?_, ?_⟩
  · intro i hi
    rcases List.mem_append.mp hi with hi | hi
    · exact hop1 i hi
    · exact hop2 i hi
  intro sF ctx hF hrel G hG ad st hb hgv
  obtain ⟨l, gv1, hlen, hnamed, hgv1, hr1, himg⟩ := hrun1 sF ctx (hext2.trans hF) hrel G hG ad st hb hgv
  unfold Spec.Ctx.localOff at ho
  cases hidx : idxOf v c.locals 0 with
  | none => rw [hidx] at ho; cases ho
  | some j =>
    rw [hidx] at ho
    simp only [Option.map_some, Option.some.injEq] at ho
    subst ho
    obtain ⟨p, hp⟩ := hrel.locals v j hidx
    obtain ⟨i, rfl, hex⟩ := hrun2 c sF ctx hF hrel ((ad + codeSize (slotCode sl) : Nat) : Int) { st with stack := l ++ st.stack, gvars := gv1 } hb
    refine ⟨l, j, _, ((ad + codeSize (slotCode sl) : Nat) : Int), gv1, by simpa using hlen, hnamed, hgv1, hp, ?_, ?_⟩
    · rw [runIs_append]
      have : slotCode sl = slotsFrom sl 0 := rfl
      rw [this, hr1]
      simp only [Except.bind]
      rw [runIs_single, ← this, hex]
    · intro idx
      exact himg idx _ (by rw [hbase]; simp only [EmbTg]; exact ⟨p, rfl⟩)


/-- `5a (hi + 2)`: the target's bottom is whatever `46 n` pushed -/
theorem exec_5a_list (ctx : Lscr.Ctx) (m : PutMode) (a : Int) (st : PState) :
    execI ctx (.op2 0x5a (m.hi + 2)) a st = putChunk ctx "list" m.tag.toList st a := by
  have hkb : ("bi" = "bi" ∨ "bi" = "tri") := Or.inl rfl
  cases m
  · have ht : Opcodes.biOpcodes.lookup (0x5a * 256 + (PutMode.into.hi + 2)) = some { cls := "PutIntoListOpcode", impl := "PutIntoListOpcode", nbytes := 2, kind := "bi", attrs := [] } := rfl
    simp only [execI, bi_lookup_5a, hkb, if_true, true_or, ht]
    unfold process
    rw [if_neg (by decide), if_neg (by decide)]; unfold process0; rfl
  · have ht : Opcodes.biOpcodes.lookup (0x5a * 256 + (PutMode.after.hi + 2)) = some { cls := "PutAfterListOpcode", impl := "PutAfterListOpcode", nbytes := 2, kind := "bi", attrs := [] } := rfl
    simp only [execI, bi_lookup_5a, hkb, if_true, true_or, ht]
    unfold process
    rw [if_neg (by decide), if_neg (by decide)]; unfold process0; rfl
  · have ht : Opcodes.biOpcodes.lookup (0x5a * 256 + (PutMode.before.hi + 2)) = some { cls := "PutBeforeListOpcode", impl := "PutBeforeListOpcode", nbytes := 2, kind := "bi", attrs := [] } := rfl
    simp only [execI, bi_lookup_5a, hkb, if_true, true_or, ht]
    unfold process
    rw [if_neg (by decide), if_neg (by decide)]; unfold process0; rfl

/-- `put v … <chunk of a global>`: `v; slots; 46 n; 5a (hi + 2)` -/
theorem exec_putchunk_var (ctx : Lscr.Ctx) (m : PutMode) (a : Int) (st : PState) (x r : Node) (l : List Node) (hl : l.length = 8)
    (hn : Named l) (rest : List Node) (hs : st.stack = x :: (l ++ r :: rest)) :
    execI ctx (.op2 0x5a (m.hi + 2)) a st
      = .ok { st with stack := rest, stmts := st.stmts ++ [.stmt a (.spAssign a (applyL 4 l x a) r m.tag.toList)] } := by
  rw [exec_5a_list]
  have h1 : ("list" = "field") = False := by decide
  simp only [putChunk, h1, if_false, if_true, PState.pop, hs, Bind.bind, Except.bind, pure, Except.pure]
  rw [addModifiers_ok x { st with stack := l ++ r :: rest } a l hl hn (r :: rest) rfl]
  simp only [PState.addStmt]

theorem exec_delchunk_var (ctx : Lscr.Ctx) (a : Int) (st : PState) (x : Node) (l : List Node) (hl : l.length = 8)
    (hn : Named l) (rest : List Node) (hs : st.stack = x :: (l ++ rest)) :
    execI ctx (.op2 0x5b 2) a st
      = .ok { st with stack := rest, stmts := st.stmts ++ [.stmt a (.unary (S "delete") a (applyL 4 l x a))] } := by
  have hkb : ("bi" = "bi" ∨ "bi" = "tri") := Or.inl rfl
  have ht : Opcodes.biOpcodes.lookup (0x5b * 256 + 2) = some { cls := "DeleteFromListOpcode", impl := "DeleteFromListOpcode", nbytes := 2, kind := "bi", attrs := [] } := rfl
  simp only [execI, bi_lookup_5b, hkb, if_true, true_or, ht]
  unfold process
  rw [if_neg (by decide), if_neg (by decide)]
  unfold process0
  have h1 : ("list" = "field") = False := by decide
  simp only [deleteChunk, h1, if_false, if_true, PState.pop, hs, Bind.bind, Except.bind, pure, Except.pure]
  rw [addModifiers_ok x { st with stack := l ++ rest } a l hl hn rest rfl]
  simp only [PState.addStmt]

/-- slots, then `46 n` for the global: the stack the put / delete opcode of a GLOBAL chunk target finds -/
theorem tgt_glob_run (c : Spec.Ctx) (lv : Expr) (v : Spec.Name) (i : Nat) (s' sm s2 s3 : St) (sl : Slots) (cc : List Instr)
    (hT : TgtOK c lv 0 s' sm sl) (hbase : tgBase lv = .var .glob v) (hn : nameIdx v sm = .ok (i, s2)) (hcc : op2c 0x46 i s2 = .ok (cc, s3)) :
    Ext s' s3 ∧ (∀ j ∈ slotCode sl ++ cc, j.opc ≠ 153) ∧
    ∀ (sF : St) (ctx : Lscr.Ctx), Ext s3 sF → Rel c sF ctx → ∀ (G : List Spec.Name), (∀ g ∈ lv.vars .glob, g ∈ G) →
      ∀ (ad : Nat) (st : PState), st.bpc = 6 → GvOk G st.gvars →
        ∃ l x gv', l.length = 8 ∧ Named l ∧ GvNext G st.gvars gv' ∧
          runIs ctx ad (slotCode sl ++ cc) st = .ok { st with stack := x :: (l ++ st.stack), gvars := gv' } ∧
          ∀ idx, EmbTg lv (applyL 4 l x idx) := by
  obtain ⟨hext1, _, hop1, hrun1⟩ := hT
  obtain ⟨hext2, hget, hlt, _⟩ := nameIdx_ok _ _ _ _ hn
  obtain ⟨rfl, rfl, hx⟩ := op2c_ok _ _ _ _ _ hcc
  refine ⟨hext1.trans hext2, ?_, ?_⟩
  · intro j hj
    rcases List.mem_append.mp hj with hj | hj
    · exact hop1 j hj
    · simp only [List.mem_singleton] at hj; subst hj; simp [Instr.opc]
  intro sF ctx hF hrel G hG ad st hb hgv
  obtain ⟨l, gv1, hlen, hnamed, hgv1, hr1, himg⟩ := hrun1 sF ctx (hext2.trans hF) hrel G hG ad st hb hgv
  have hnm : ctx.names[i]? = some v := by rw [hrel.names]; exact hF.name hget
  obtain ⟨nd, hnd, hex⟩ := exec_var46 ctx i v hnm ((ad + codeSize (slotCode sl) : Nat) : Int) { st with stack := l ++ st.stack, gvars := gv1 }
  refine ⟨l, nd, gv1, by simpa using hlen, hnamed, hgv1, ?_, ?_⟩
  · rw [runIs_append]
    have : slotCode sl = slotsFrom sl 0 := rfl
    rw [this, hr1]
    simp only [Except.bind]
    rw [runIs_single, ← this, hex]
  · intro idx
    exact himg idx _ (by rw [hbase]; simp only [EmbTg]; exact ⟨_, hnd⟩)

theorem hi_opc (b x : Nat) (h : b ≠ 153) : (Instr.op2 b x).opc ≠ 153 := by simpa [Instr.opc] using h

theorem stmt_put (m : PutMode) (v lv : Expr) (hf : FragS (.put m v lv) = true) (c : Spec.Ctx) (s0 s1 : St) (cs : List CStmt)
    (h : lowerStmt c (.put m v lv) s0 = .ok (cs, s1)) :
    Ext s0 s1 ∧ ∃ code, cs = [.code code] ∧ (∀ i ∈ code, i.opc ≠ 153) ∧
    ∀ (sF : St) (ctx : Lscr.Ctx), Ext s1 sF → Rel c sF ctx → ∀ (G : List Spec.Name), (∀ g ∈ (Stmt.put m v lv).vars .glob, g ∈ G) →
      (∀ v' ∈ (Stmt.put m v lv).vars .prop, ctx.props.contains v' = true) →
      ∀ (a : Nat) (st : PState), st.bpc = 6 → GvOk G st.gvars → Stepped G c.handlers (.put m v lv) ctx a code st := by
  simp only [FragS, Bool.and_eq_true] at hf
  obtain ⟨⟨hfv, hft⟩, _⟩ := hf
  rw [lowerStmt] at h
  simp only [M_bind_ok] at h
  obtain ⟨cv, s', hv, ⟨slots, base⟩, s'', ht, h⟩ := h
  obtain ⟨hextv, hopv, hrunv⟩ := stack_lemma v hfv c s0 _ cv hv
  have hGv : ∀ G : List Spec.Name, (∀ g ∈ (Stmt.put m v lv).vars .glob, g ∈ G) → ∀ g ∈ v.vars .glob, g ∈ G :=
    fun G hG g hg => hG g (by simp [Stmt.vars, hg])
  have hGl : ∀ G : List Spec.Name, (∀ g ∈ (Stmt.put m v lv).vars .glob, g ∈ G) → ∀ g ∈ lv.vars .glob, g ∈ G :=
    fun G hG g hg => hG g (by simp [Stmt.vars, hg])
  rcases target_ok c lv hft _ _ _ _ ht with ⟨_, sl, sm, i0, rest0, rfl, hsl, hT, hB⟩ | ⟨hnc, rfl, hB⟩
  · -- a chunk target: 5a
    generalize hbe : tgBase lv = be at hB
    cases hB with
    | field e ce _ _ hfe hS =>
      simp only [M_pure_ok, Prod.mk.injEq] at h
      obtain ⟨rfl, rfl⟩ := h
      rw [hsl]
      obtain ⟨hext2, hop2, hrun2⟩ := tgt_field_run c lv e s' sm _ sl ce hT hbe hS
      refine ⟨hextv.trans hext2, _, rfl, ?_, ?_⟩
      · intro i hi
        simp only [List.append_assoc, List.mem_append, List.mem_singleton] at hi
        rcases hi with hi | hi | hi | rfl
        · exact hopv i hi
        · exact hop2 i (List.mem_append_left _ hi)
        · exact hop2 i (List.mem_append_right _ hi)
        · simp [Instr.opc]
      intro sF ctx hF hrel G hG hP a st hb hgv
      obtain ⟨nv, gv1, hemb, hgv1, hr1⟩ := hrunv sF ctx (hext2.trans hF) hrel G (hGv G hG) a st hb hgv
      obtain ⟨l, x, gv2, hlen, hnamed, hgv2, hr2, himg⟩ := hrun2 sF ctx hF hrel G (hGl G hG) (a + codeSize cv)
        { st with stack := nv :: st.stack, gvars := gv1 } hb hgv1.1
      have hcode : cv ++ slotCode sl ++ ce ++ [Instr.op2 0x5a (m.hi + 6)] = (cv ++ (slotCode sl ++ ce)) ++ [Instr.op2 0x5a (m.hi + 6)] := by simp
      rw [hcode]
      refine ⟨.stmt ((a + codeSize (cv ++ (slotCode sl ++ ce)) : Nat) : Int) (.spAssign ((a + codeSize (cv ++ (slotCode sl ++ ce)) : Nat) : Int)
          (applyL 4 l (.unary (S "field") ((a + codeSize (cv ++ (slotCode sl ++ ce)) : Nat) : Int) x) ((a + codeSize (cv ++ (slotCode sl ++ ce)) : Nat) : Int)) nv m.tag.toList),
        gv2, ⟨_, _, _, nv, rfl, himg _, hemb⟩, PlainStmt.sp _ _ _ _ _, stmtIn_last a (cv ++ (slotCode sl ++ ce)) _ _, hgv1.trans hgv2, ?_⟩
      rw [runIs_append, runIs_append, hr1]
      simp only [Except.bind]
      rw [hr2]
      simp only [Except.bind]
      rw [runIs_single, exec_putchunk_field ctx m _ _ x nv l hlen hnamed st.stack rfl]
    | loc v' o _ ho =>
      simp only [M_bind_ok, M_pure_ok, Prod.mk.injEq] at h
      obtain ⟨ci, s3, hi, rfl, rfl⟩ := h
      rw [hsl]
      obtain ⟨hext2, hop2, hrun2⟩ := tgt_loc_run c lv v' o s' _ _ sl ci hT hbe ho hi
      refine ⟨hextv.trans hext2, _, rfl, ?_, ?_⟩
      · intro i hi
        simp only [List.append_assoc, List.mem_append, List.mem_singleton] at hi
        rcases hi with hi | hi | hi | rfl
        · exact hopv i hi
        · exact hop2 i (List.mem_append_left _ hi)
        · exact hop2 i (List.mem_append_right _ hi)
        · simp [Instr.opc]
      intro sF ctx hF hrel G hG hP a st hb hgv
      obtain ⟨nv, gv1, hemb, hgv1, hr1⟩ := hrunv sF ctx (hext2.trans hF) hrel G (hGv G hG) a st hb hgv
      obtain ⟨l, j, xv, p, gv2, hlen, hnamed, hgv2, hp, hr2, himg⟩ := hrun2 sF ctx hF hrel G (hGl G hG) (a + codeSize cv)
        { st with stack := nv :: st.stack, gvars := gv1 } hb hgv1.1
      have hcode : cv ++ slotCode sl ++ ci ++ [Instr.op2 0x5a (m.hi + 5)] = (cv ++ (slotCode sl ++ ci)) ++ [Instr.op2 0x5a (m.hi + 5)] := by simp
      rw [hcode]
      refine ⟨.stmt ((a + codeSize (cv ++ (slotCode sl ++ ci)) : Nat) : Int) (.spAssign ((a + codeSize (cv ++ (slotCode sl ++ ci)) : Nat) : Int)
          (applyL 4 l xv ((a + codeSize (cv ++ (slotCode sl ++ ci)) : Nat) : Int)) nv m.tag.toList),
        gv2, ⟨_, _, _, nv, rfl, himg _, hemb⟩, PlainStmt.sp _ _ _ _ _, stmtIn_last a (cv ++ (slotCode sl ++ ci)) _ _, hgv1.trans hgv2, ?_⟩
      rw [runIs_append, runIs_append, hr1]
      simp only [Except.bind]
      rw [hr2]
      simp only [Except.bind]
      rw [runIs_single, exec_putchunk_loc ctx m j xv hp _ { st with stack := .leaf .const (.s (natStr (6 * j))) p :: (l ++ nv :: st.stack), gvars := gv2 } hb p nv l hlen hnamed st.stack rfl]
    | named v' i _ _ hn =>
      simp only [M_bind_ok, M_pure_ok, Prod.mk.injEq] at h
      obtain ⟨cc, s3, hcc, rfl, rfl⟩ := h
      rw [hsl]
      obtain ⟨hext2, hop2, hrun2⟩ := tgt_glob_run c lv v' i s' sm _ _ sl cc hT hbe hn hcc
      refine ⟨hextv.trans hext2, _, rfl, ?_, ?_⟩
      · intro i hi
        simp only [List.append_assoc, List.mem_append, List.mem_singleton] at hi
        rcases hi with hi | hi | hi | rfl
        · exact hopv i hi
        · exact hop2 i (List.mem_append_left _ hi)
        · exact hop2 i (List.mem_append_right _ hi)
        · simp [Instr.opc]
      intro sF ctx hF hrel G hG hP a st hb hgv
      obtain ⟨nv, gv1, hemb, hgv1, hr1⟩ := hrunv sF ctx (hext2.trans hF) hrel G (hGv G hG) a st hb hgv
      obtain ⟨l, x, gv2, hlen, hnamed, hgv2, hr2, himg⟩ := hrun2 sF ctx hF hrel G (hGl G hG) (a + codeSize cv)
        { st with stack := nv :: st.stack, gvars := gv1 } hb hgv1.1
      have hcode : cv ++ slotCode sl ++ cc ++ [Instr.op2 0x5a (m.hi + 2)] = (cv ++ (slotCode sl ++ cc)) ++ [Instr.op2 0x5a (m.hi + 2)] := by simp
      rw [hcode]
      refine ⟨.stmt ((a + codeSize (cv ++ (slotCode sl ++ cc)) : Nat) : Int) (.spAssign ((a + codeSize (cv ++ (slotCode sl ++ cc)) : Nat) : Int)
          (applyL 4 l x ((a + codeSize (cv ++ (slotCode sl ++ cc)) : Nat) : Int)) nv m.tag.toList),
        gv2, ⟨_, _, _, nv, rfl, himg _, hemb⟩, PlainStmt.sp _ _ _ _ _, stmtIn_last a (cv ++ (slotCode sl ++ cc)) _ _, hgv1.trans hgv2, ?_⟩
      rw [runIs_append, runIs_append, hr1]
      simp only [Except.bind]
      rw [hr2]
      simp only [Except.bind]
      rw [runIs_single, exec_putchunk_var ctx m _ _ x nv l hlen hnamed st.stack rfl]
  · -- a bare target: 59
    cases hB with
    | field e ce _ _ hfe hS =>
      simp only [M_pure_ok, Prod.mk.injEq] at h
      obtain ⟨rfl, rfl⟩ := h
      obtain ⟨hext2, hop2, hrun2⟩ := hS
      refine ⟨hextv.trans hext2, _, rfl, ?_, ?_⟩
      · intro i hi
        simp only [List.append_assoc, List.mem_append, List.mem_singleton] at hi
        rcases hi with hi | hi | rfl
        · exact hopv i hi
        · exact hop2 i hi
        · simp [Instr.opc]
      intro sF ctx hF hrel G hG hP a st hb hgv
      obtain ⟨nv, gv1, hemb, hgv1, hr1⟩ := hrunv sF ctx (hext2.trans hF) hrel G (hGv G hG) a st hb hgv
      obtain ⟨x, gv2, hembx, hgv2, hr2⟩ := hrun2 sF ctx hF hrel G (by simpa [Expr.vars] using hGl G hG) (a + codeSize cv)
        { st with stack := nv :: st.stack, gvars := gv1 } hb hgv1.1
      refine ⟨.stmt ((a + codeSize (cv ++ ce) : Nat) : Int) (.spAssign ((a + codeSize (cv ++ ce) : Nat) : Int) (.unary (S "field") ((a + codeSize (cv ++ ce) : Nat) : Int) x) nv m.tag.toList),
        gv2, ⟨_, _, _, nv, rfl, ⟨_, x, rfl, EmbH.toEmb _ _ _ hembx⟩, hemb⟩, PlainStmt.sp _ _ _ _ _, stmtIn_last a (cv ++ ce) _ _, hgv1.trans hgv2, ?_⟩
      rw [runIs_append, runIs_append, hr1]
      simp only [Except.bind]
      rw [hr2]
      simp only [Except.bind]
      rw [runIs_single, exec_putfield ctx m _ _ x nv st.stack rfl]
    | loc v' o _ ho =>
      by_cases hm : m = .into
      · simp [hm, Spec.fail] at h
      · simp only [hm, if_false, M_bind_ok, M_pure_ok, Prod.mk.injEq] at h
        obtain ⟨ci, s3, hi, rfl, rfl⟩ := h
        obtain ⟨hext2, hop2, hrun2⟩ := lowerInt_ok o _ _ ci hi
        refine ⟨hextv.trans hext2, _, rfl, ?_, ?_⟩
        · intro i hi
          simp only [List.append_assoc, List.mem_append, List.mem_singleton] at hi
          rcases hi with hi | hi | rfl
          · exact hopv i hi
          · exact hop2 i hi
          · simp [Instr.opc]
        intro sF ctx hF hrel G hG hP a st hb hgv
        obtain ⟨nv, gv1, hemb, hgv1, hr1⟩ := hrunv sF ctx (hext2.trans hF) hrel G (hGv G hG) a st hb hgv
        unfold Spec.Ctx.localOff at ho
        cases hidx : idxOf v' c.locals 0 with
        | none => rw [hidx] at ho; cases ho
        | some j =>
          rw [hidx] at ho
          simp only [Option.map_some, Option.some.injEq] at ho
          subst ho
          obtain ⟨p, hp⟩ := hrel.locals v' j hidx
          obtain ⟨i, rfl, hex⟩ := hrun2 c sF ctx hF hrel ((a + codeSize cv : Nat) : Int) { st with stack := nv :: st.stack, gvars := gv1 } hb
          refine ⟨.stmt ((a + codeSize (cv ++ [i]) : Nat) : Int) (.spAssign ((a + codeSize (cv ++ [i]) : Nat) : Int) (.leaf .localVar (.s v') p) nv m.tag.toList),
            gv1, ⟨_, _, _, nv, rfl, ⟨p, rfl⟩, hemb⟩, PlainStmt.sp _ _ _ _ _, stmtIn_last a (cv ++ [i]) _ _, hgv1, ?_⟩
          rw [runIs_append, runIs_append, hr1]
          simp only [Except.bind]
          rw [runIs_single, hex]
          simp only [Except.bind]
          rw [runIs_single, exec_putloc ctx m j _ hp _ { st with stack := .leaf .const (.s (natStr (6 * j))) ((a + codeSize cv : Nat) : Int) :: nv :: st.stack, gvars := gv1 } hb _ nv st.stack rfl]
    | named v' i _ _ hn => simp [FragTg] at hft

theorem stmt_delete (t : Expr) (hf : FragS (.delete t) = true) (c : Spec.Ctx) (s0 s1 : St) (cs : List CStmt)
    (h : lowerStmt c (.delete t) s0 = .ok (cs, s1)) :
    Ext s0 s1 ∧ ∃ code, cs = [.code code] ∧ (∀ i ∈ code, i.opc ≠ 153) ∧
    ∀ (sF : St) (ctx : Lscr.Ctx), Ext s1 sF → Rel c sF ctx → ∀ (G : List Spec.Name), (∀ g ∈ (Stmt.delete t).vars .glob, g ∈ G) →
      (∀ v' ∈ (Stmt.delete t).vars .prop, ctx.props.contains v' = true) →
      ∀ (a : Nat) (st : PState), st.bpc = 6 → GvOk G st.gvars → Stepped G c.handlers (.delete t) ctx a code st := by
  simp only [FragS, Bool.and_eq_true] at hf
  obtain ⟨hch, hft⟩ := hf
  rw [lowerStmt] at h
  simp only [M_bind_ok] at h
  obtain ⟨⟨slots, base⟩, s'', ht, h⟩ := h
  rcases target_ok c t hft _ _ _ _ ht with ⟨_, sl, sm, i0, rest0, rfl, hsl, hT, hB⟩ | ⟨hnc, rfl, hB⟩
  · generalize hbe : tgBase t = be at hB
    cases hB with
    | field e ce _ _ hfe hS =>
      simp only [M_pure_ok, Prod.mk.injEq] at h
      obtain ⟨rfl, rfl⟩ := h
      rw [hsl]
      obtain ⟨hext2, hop2, hrun2⟩ := tgt_field_run c t e s0 sm _ sl ce hT hbe hS
      refine ⟨hext2, _, rfl, ?_, ?_⟩
      · intro i hi
        rcases List.mem_append.mp hi with hi | hi
        · exact hop2 i hi
        · simp only [List.mem_singleton] at hi; subst hi; simp [Instr.opc]
      intro sF ctx hF hrel G hG hP a st hb hgv
      obtain ⟨l, x, gv2, hlen, hnamed, hgv2, hr2, himg⟩ := hrun2 sF ctx hF hrel G (by simpa [Stmt.vars] using hG) a st hb hgv
      refine ⟨.stmt ((a + codeSize (slotCode sl ++ ce) : Nat) : Int) (.unary (S "delete") ((a + codeSize (slotCode sl ++ ce) : Nat) : Int)
          (applyL 4 l (.unary (S "field") ((a + codeSize (slotCode sl ++ ce) : Nat) : Int) x) ((a + codeSize (slotCode sl ++ ce) : Nat) : Int))),
        gv2, ⟨_, _, _, rfl, himg _⟩, PlainStmt.un _ _ _ _, stmtIn_last a (slotCode sl ++ ce) _ _, hgv2, ?_⟩
      rw [runIs_append, hr2]
      simp only [Except.bind]
      rw [runIs_single, exec_delchunk_field ctx _ _ x l hlen hnamed st.stack rfl]
    | loc v' o _ ho =>
      simp only [M_bind_ok, M_pure_ok, Prod.mk.injEq] at h
      obtain ⟨ci, s3, hi, rfl, rfl⟩ := h
      rw [hsl]
      obtain ⟨hext2, hop2, hrun2⟩ := tgt_loc_run c t v' o s0 _ _ sl ci hT hbe ho hi
      refine ⟨hext2, _, rfl, ?_, ?_⟩
      · intro i hi
        rcases List.mem_append.mp hi with hi | hi
        · exact hop2 i hi
        · simp only [List.mem_singleton] at hi; subst hi; simp [Instr.opc]
      intro sF ctx hF hrel G hG hP a st hb hgv
      obtain ⟨l, j, xv, p, gv2, hlen, hnamed, hgv2, hp, hr2, himg⟩ := hrun2 sF ctx hF hrel G (by simpa [Stmt.vars] using hG) a st hb hgv
      refine ⟨.stmt ((a + codeSize (slotCode sl ++ ci) : Nat) : Int) (.unary (S "delete") ((a + codeSize (slotCode sl ++ ci) : Nat) : Int)
          (applyL 4 l xv ((a + codeSize (slotCode sl ++ ci) : Nat) : Int))),
        gv2, ⟨_, _, _, rfl, himg _⟩, PlainStmt.un _ _ _ _, stmtIn_last a (slotCode sl ++ ci) _ _, hgv2, ?_⟩
      rw [runIs_append, hr2]
      simp only [Except.bind]
      rw [runIs_single, exec_delchunk_loc ctx j xv hp _ { st with stack := .leaf .const (.s (natStr (6 * j))) p :: (l ++ st.stack), gvars := gv2 } hb p l hlen hnamed st.stack rfl]
    | named v' i _ _ hn =>
      simp only [M_bind_ok, M_pure_ok, Prod.mk.injEq] at h
      obtain ⟨cc, s3, hcc, rfl, rfl⟩ := h
      rw [hsl]
      obtain ⟨hext2, hop2, hrun2⟩ := tgt_glob_run c t v' i s0 sm _ _ sl cc hT hbe hn hcc
      refine ⟨hext2, _, rfl, ?_, ?_⟩
      · intro i hi
        rcases List.mem_append.mp hi with hi | hi
        · exact hop2 i hi
        · simp only [List.mem_singleton] at hi; subst hi; simp [Instr.opc]
      intro sF ctx hF hrel G hG hP a st hb hgv
      obtain ⟨l, x, gv2, hlen, hnamed, hgv2, hr2, himg⟩ := hrun2 sF ctx hF hrel G (by simpa [Stmt.vars] using hG) a st hb hgv
      refine ⟨.stmt ((a + codeSize (slotCode sl ++ cc) : Nat) : Int) (.unary (S "delete") ((a + codeSize (slotCode sl ++ cc) : Nat) : Int)
          (applyL 4 l x ((a + codeSize (slotCode sl ++ cc) : Nat) : Int))),
        gv2, ⟨_, _, _, rfl, himg _⟩, PlainStmt.un _ _ _ _, stmtIn_last a (slotCode sl ++ cc) _ _, hgv2, ?_⟩
      rw [runIs_append, hr2]
      simp only [Except.bind]
      rw [runIs_single, exec_delchunk_var ctx _ _ x l hlen hnamed st.stack rfl]
  · rw [hch] at hnc; cases hnc

theorem stmt_hilite (t : Expr) (hf : FragS (.hilite t) = true) (c : Spec.Ctx) (s0 s1 : St) (cs : List CStmt)
    (h : lowerStmt c (.hilite t) s0 = .ok (cs, s1)) :
    Ext s0 s1 ∧ ∃ code, cs = [.code code] ∧ (∀ i ∈ code, i.opc ≠ 153) ∧
    ∀ (sF : St) (ctx : Lscr.Ctx), Ext s1 sF → Rel c sF ctx → ∀ (G : List Spec.Name), (∀ g ∈ (Stmt.hilite t).vars .glob, g ∈ G) →
      (∀ v' ∈ (Stmt.hilite t).vars .prop, ctx.props.contains v' = true) →
      ∀ (a : Nat) (st : PState), st.bpc = 6 → GvOk G st.gvars → Stepped G c.handlers (.hilite t) ctx a code st := by
  simp only [FragS] at hf
  rw [lowerStmt] at h
  simp only [M_bind_ok] at h
  obtain ⟨⟨slots, base⟩, s'', ht, h⟩ := h
  -- both shapes run `slotCode sl ++ ce ++ [18]` (`sl = []` for a bare field)
  have key : ∃ sl sm e ce, cs = [.code (slotCode sl ++ ce ++ [.op1 0x18])] ∧ s1 = s'' ∧ TgtOK c t 0 s0 sm sl ∧ tgBase t = .field e ∧ StackOK c e sm s'' ce := by
    rcases target_ok c t hf _ _ _ _ ht with ⟨_, sl, sm, i0, rest0, rfl, hsl, hT, hB⟩ | ⟨hnc, rfl, hB⟩
    · generalize hbe : tgBase t = be at hB
      cases hB with
      | field e ce _ _ hfe hS =>
        simp only [M_pure_ok, Prod.mk.injEq] at h
        obtain ⟨rfl, rfl⟩ := h
        exact ⟨sl, sm, e, ce, by rw [hsl], rfl, hT, rfl, hS⟩
      | loc v' o _ ho => simp [Spec.fail] at h
      | named v' i _ _ hn => simp [Spec.fail] at h
    · cases hB with
      | field e ce _ _ hfe hS =>
        simp only [M_pure_ok, Prod.mk.injEq] at h
        obtain ⟨rfl, rfl⟩ := h
        exact ⟨[], s0, e, ce, rfl, rfl, tgt_nil c _ rfl 0 s0, rfl, hS⟩
      | loc v' o _ ho => simp [Spec.fail] at h
      | named v' i _ _ hn => simp [Spec.fail] at h
  obtain ⟨sl, sm, e, ce, rfl, rfl, hT, hbe, hS⟩ := key
  obtain ⟨hext2, hop2, hrun2⟩ := tgt_field_run c t e s0 sm _ sl ce hT hbe hS
  refine ⟨hext2, _, rfl, ?_, ?_⟩
  · intro i hi
    rcases List.mem_append.mp hi with hi | hi
    · exact hop2 i hi
    · simp only [List.mem_singleton] at hi; subst hi; simp [Instr.opc]
  intro sF ctx hF hrel G hG hP a st hb hgv
  obtain ⟨l, x, gv2, hlen, hnamed, hgv2, hr2, himg⟩ := hrun2 sF ctx hF hrel G (by simpa [Stmt.vars] using hG) a st hb hgv
  refine ⟨.stmt ((a + codeSize (slotCode sl ++ ce) : Nat) : Int) (.unary (S "hilite") ((a + codeSize (slotCode sl ++ ce) : Nat) : Int)
      (applyL 4 l (.unary (S "field") ((a + codeSize (slotCode sl ++ ce) : Nat) : Int) x) ((a + codeSize (slotCode sl ++ ce) : Nat) : Int))),
    gv2, ⟨_, _, _, rfl, himg _⟩, PlainStmt.un _ _ _ _, stmtIn_last a (slotCode sl ++ ce) _ _, hgv2, ?_⟩
  rw [runIs_append, hr2]
  simp only [Except.bind]
  rw [runIs_single, exec_hilite ctx _ _ x l hlen hnamed st.stack rfl]


/-- **L3**, `set <target> = e`, command calls `f a, b`, `exit`, `put e into|after|before <target>`, `delete <chunk>`, `hilite <target>` -/
theorem stmt_lemma (s : Stmt) (hf : FragS s = true) (c : Spec.Ctx) (hT : c.inTell = false) (s0 s1 : St) (cs : List CStmt)
    (h : lowerStmt c s s0 = .ok (cs, s1)) :
    Ext s0 s1 ∧ ∃ code, cs = [.code code] ∧ (∀ i ∈ code, i.opc ≠ 153) ∧
    ∀ (sF : St) (ctx : Lscr.Ctx), Ext s1 sF → Rel c sF ctx → ∀ (G : List Spec.Name), (∀ g ∈ s.vars .glob, g ∈ G) →
      (∀ v ∈ s.vars .prop, ctx.props.contains v = true) →
      ∀ (a : Nat) (st : PState), st.bpc = 6 → GvOk G st.gvars → Stepped G c.handlers s ctx a code st := by
  cases s with
  | set lv v =>
    simp only [FragS, Bool.and_eq_true] at hf
    obtain ⟨hlv, hfv⟩ := hf
    cases lv with
    | var k n =>
      rw [lowerStmt] at h
      · simp only [M_bind_ok, M_pure_ok, Prod.mk.injEq] at h
        obtain ⟨cv, s', hv, code, s'', hset, rfl, rfl⟩ := h
        obtain ⟨hext, hop, hrun⟩ := stack_lemma v hfv c s0 _ cv hv
        cases k with
        | loc =>
          simp only [lowerSet] at hset
          cases ho : c.localOff n with
          | none => rw [ho] at hset; simp [Spec.fail] at hset
          | some o =>
            rw [ho] at hset
            simp only [M_bind_ok, M_pure_ok, Prod.mk.injEq] at hset
            obtain ⟨c2, s2, hop2, rfl, rfl⟩ := hset
            obtain ⟨rfl, rfl, hx⟩ := op2c_ok _ _ _ _ _ hop2
            refine ⟨hext, _, rfl, ?_, ?_⟩
            · intro i hi
              rcases List.mem_append.mp hi with hi | hi
              · exact hop i hi
              · simp only [List.mem_singleton] at hi; subst hi; simp [Instr.opc]
            intro sF ctx hF hrel G hG hP a st hb hgv
            unfold Spec.Ctx.localOff at ho
            cases hi : idxOf n c.locals 0 with
            | none => rw [hi] at ho; cases ho
            | some j =>
              rw [hi] at ho
              simp only [Option.map_some, Option.some.injEq] at ho
              subst ho
              obtain ⟨p, hp⟩ := hrel.locals n j hi
              have hG' : ∀ g ∈ v.vars .glob, g ∈ G := fun g hg => hG g (by simp [Stmt.vars, Expr.vars, hg])
              obtain ⟨nv, gv1, hemb, hgv1, hr1⟩ := hrun sF ctx hF hrel G hG' a st hb hgv
              refine ⟨.stmt ((a + codeSize cv : Nat) : Int) (.binary (S "assign") ((a + codeSize cv : Nat) : Int) (.leaf .localVar (.s n) p) nv),
                gv1, ⟨_, _, _, nv, rfl, ⟨p, rfl⟩, hemb⟩, PlainStmt.bin _ _ _ _ _, stmtIn_last a cv _ _, hgv1, ?_⟩
              rw [runIs_append, hr1]
              simp only [Except.bind]
              rw [runIs_single, exec_setloc ctx j _ hp _ { st with stack := nv :: st.stack, gvars := gv1 } hb nv st.stack rfl]
        | param =>
          simp only [lowerSet] at hset
          cases ho : c.paramOff n with
          | none => rw [ho] at hset; simp [Spec.fail] at hset
          | some o =>
            rw [ho] at hset
            simp only [M_bind_ok, M_pure_ok, Prod.mk.injEq] at hset
            obtain ⟨c2, s2, hop2, rfl, rfl⟩ := hset
            obtain ⟨rfl, rfl, hx⟩ := op2c_ok _ _ _ _ _ hop2
            refine ⟨hext, _, rfl, ?_, ?_⟩
            · intro i hi
              rcases List.mem_append.mp hi with hi | hi
              · exact hop i hi
              · simp only [List.mem_singleton] at hi; subst hi; simp [Instr.opc]
            intro sF ctx hF hrel G hG hP a st hb hgv
            obtain ⟨j, p, rfl, hp⟩ := hrel.params n o ho
            have hG' : ∀ g ∈ v.vars .glob, g ∈ G := fun g hg => hG g (by simp [Stmt.vars, Expr.vars, hg])
            obtain ⟨nv, gv1, hemb, hgv1, hr1⟩ := hrun sF ctx hF hrel G hG' a st hb hgv
            refine ⟨.stmt ((a + codeSize cv : Nat) : Int) (.binary (S "assign") ((a + codeSize cv : Nat) : Int) (.leaf .paramName (.s n) p) nv),
              gv1, ⟨_, _, _, nv, rfl, ⟨p, rfl⟩, hemb⟩, PlainStmt.bin _ _ _ _ _, stmtIn_last a cv _ _, hgv1, ?_⟩
            rw [runIs_append, hr1]
            simp only [Except.bind]
            rw [runIs_single, exec_setparam ctx j _ hp _ { st with stack := nv :: st.stack, gvars := gv1 } hb nv st.stack rfl]
        | glob =>
          simp only [lowerSet, M_bind_ok, M_pure_ok, Prod.mk.injEq] at hset
          obtain ⟨i, s3, hn, c2, s2, hop2, rfl, rfl⟩ := hset
          obtain ⟨hext2, hget, hlt, _⟩ := nameIdx_ok _ _ _ _ hn
          obtain ⟨rfl, rfl, hx⟩ := op2c_ok _ _ _ _ _ hop2
          refine ⟨hext.trans hext2, _, rfl, ?_, ?_⟩
          · intro i hi
            rcases List.mem_append.mp hi with hi | hi
            · exact hop i hi
            · simp only [List.mem_singleton] at hi; subst hi; simp [Instr.opc]
          intro sF ctx hF hrel G hG hP a st hb hgv
          have hnm : ctx.names[i]? = some n := by rw [hrel.names]; exact hF.name hget
          have hG' : ∀ g ∈ v.vars .glob, g ∈ G := fun g hg => hG g (by simp [Stmt.vars, Expr.vars, hg])
          obtain ⟨nv, gv1, hemb, hgv1, hr1⟩ := hrun sF ctx (hext2.trans hF) hrel G hG' a st hb hgv
          obtain ⟨gv2, hgv2, hex⟩ := exec_setglob ctx i n hnm ((a + codeSize cv : Nat) : Int)
            { st with stack := nv :: st.stack, gvars := gv1 } G (hG n (by simp [Stmt.vars, Expr.vars])) hgv1.1 nv st.stack rfl
          refine ⟨.stmt ((a + codeSize cv : Nat) : Int) (.binary (S "assign") ((a + codeSize cv : Nat) : Int) (.leaf .globalVar (.s n) ((a + codeSize cv : Nat) : Int)) nv),
            gv2, ⟨_, _, _, nv, rfl, ⟨_, rfl⟩, hemb⟩, PlainStmt.bin _ _ _ _ _, stmtIn_last a cv _ _, hgv1.trans hgv2, ?_⟩
          rw [runIs_append, hr1]
          simp only [Except.bind]
          rw [runIs_single, hex]
        | prop =>
          simp only [lowerSet, M_bind_ok, M_pure_ok, Prod.mk.injEq] at hset
          obtain ⟨i, s3, hn, c2, s2, hop2, rfl, rfl⟩ := hset
          obtain ⟨hext2, hget, hlt, _⟩ := nameIdx_ok _ _ _ _ hn
          obtain ⟨rfl, rfl, hx⟩ := op2c_ok _ _ _ _ _ hop2
          refine ⟨hext.trans hext2, _, rfl, ?_, ?_⟩
          · intro i hi
            rcases List.mem_append.mp hi with hi | hi
            · exact hop i hi
            · simp only [List.mem_singleton] at hi; subst hi; simp [Instr.opc]
          intro sF ctx hF hrel G hG hP a st hb hgv
          have hnm : ctx.names[i]? = some n := by rw [hrel.names]; exact hF.name hget
          have hG' : ∀ g ∈ v.vars .glob, g ∈ G := fun g hg => hG g (by simp [Stmt.vars, Expr.vars, hg])
          obtain ⟨nv, gv1, hemb, hgv1, hr1⟩ := hrun sF ctx (hext2.trans hF) hrel G hG' a st hb hgv
          refine ⟨.stmt ((a + codeSize cv : Nat) : Int) (.binary (S "assign") ((a + codeSize cv : Nat) : Int)
              (.propAcc ((a + codeSize cv : Nat) : Int) (.leaf .node (.s (S "me")) ((a + codeSize cv : Nat) : Int)) n false) nv),
            gv1, ⟨_, _, _, nv, rfl, ⟨_, _, rfl⟩, hemb⟩, PlainStmt.bin _ _ _ _ _, stmtIn_last a cv _ _, hgv1, ?_⟩
          rw [runIs_append, hr1]
          simp only [Except.bind]
          rw [runIs_single, exec_setprop ctx i n hnm (hP n (by simp [Stmt.vars, Expr.vars])) _ { st with stack := nv :: st.stack, gvars := gv1 } nv st.stack rfl]
      all_goals (intros; contradiction)
    | the t k as =>
      simp only [FragLv, Bool.and_eq_true] at hlv
      obtain ⟨hlv, hlvt⟩ := hlv
      have hlow : ∃ ca s' cv s'' ci, lowerArgs c as s0 = .ok (ca, s') ∧ lowerExpr c v s' = .ok (cv, s'') ∧ lowerInt k s'' = .ok (ci, s1) ∧
          cs = [.code (ca ++ cv ++ ci ++ [.op2 0x5d t.code])] := by
        rw [lowerStmt] at h
        simp only [M_bind_ok, M_pure_ok, Prod.mk.injEq] at h
        obtain ⟨ca, s', ha, cv, s'', hv, ci, s3, hi, rfl, rfl⟩ := h
        exact ⟨ca, s', cv, s'', ci, ha, hv, hi, rfl⟩
      obtain ⟨ca, s', cv, s'', ci, ha, hv, hi, rfl⟩ := hlow
      obtain ⟨hextv, hopv, hrunv⟩ := stack_lemma v hfv c s' s'' cv hv
      obtain ⟨hexti, hopi, hruni⟩ := lowerInt_ok k s'' s1 ci hi
      cases as with
      | nil =>
        have hca : ca = [] ∧ s' = s0 := by
          rw [lowerArgs] at ha
          simp only [M_pure_ok, Prod.mk.injEq] at ha
          exact ⟨by simpa [eq_comm] using ha.1, by simpa [eq_comm] using ha.2⟩
        obtain ⟨rfl, rfl⟩ := hca
        refine ⟨hextv.trans hexti, _, rfl, ?_, ?_⟩
        · intro i hi
          rcases List.mem_append.mp hi with hi | hi
          · rcases List.mem_append.mp hi with hi | hi
            · rcases List.mem_append.mp hi with hi | hi
              · cases hi
              · exact hopv i hi
            · exact hopi i hi
          · simp only [List.mem_singleton] at hi; subst hi; simp [Instr.opc]
        intro sF ctx hF hrel G hG hP a st hb hgv
        have hG' : ∀ g ∈ v.vars .glob, g ∈ G := fun g hg => hG g (by simp [Stmt.vars, Expr.vars, hg])
        obtain ⟨nv, gv1, hemb, hgv1, hr1⟩ := hrunv sF ctx (hexti.trans hF) hrel G hG' a st hb hgv
        obtain ⟨i, rfl, hex⟩ := hruni c sF ctx hF hrel ((a + codeSize cv : Nat) : Int) { st with stack := nv :: st.stack, gvars := gv1 } hb
        have hpre : ([] ++ cv ++ [i] ++ [Instr.op2 0x5d t.code] : List Instr) = (cv ++ [i]) ++ [Instr.op2 0x5d t.code] := by simp
        rw [hpre]
        cases t with
        | sys =>
          simp only [FragE] at hlv
          obtain ⟨o, ho, hs⟩ := exec_assignsys ctx k hlv ((a + codeSize (cv ++ [i]) : Nat) : Int)
            { st with stack := .leaf .const (.s (natStr k)) ((a + codeSize cv : Nat) : Int) :: nv :: st.stack, gvars := gv1 }
            ((a + codeSize cv : Nat) : Int) nv st.stack rfl
          refine ⟨.stmt ((a + codeSize (cv ++ [i]) : Nat) : Int) (.binary (S "assign") ((a + codeSize (cv ++ [i]) : Nat) : Int)
              (.propAcc ((a + codeSize (cv ++ [i]) : Nat) : Int) (.leaf .localVar (.s o) ((a + codeSize (cv ++ [i]) : Nat) : Int)) (nameOrUnknown tblSys k) false) nv),
            gv1, ⟨_, _, _, nv, rfl, ?_, hemb⟩, PlainStmt.bin _ _ _ _ _, stmtIn_last a (cv ++ [i]) _ _, hgv1, ?_⟩
          · simp only [EmbLv, Emb]; exact ⟨_, _, o, rfl, ho⟩
          · rw [runIs_append, runIs_append, hr1]
            simp only [Except.bind]
            rw [runIs_single, hex]
            simp only [Except.bind]
            rw [runIs_single]
            exact hs
        | special =>
          simp only [FragE, decide_eq_true_eq] at hlv
          have hs := exec_assignspecial ctx k hlv ((a + codeSize (cv ++ [i]) : Nat) : Int)
            { st with stack := .leaf .const (.s (natStr k)) ((a + codeSize cv : Nat) : Int) :: nv :: st.stack, gvars := gv1 }
            ((a + codeSize cv : Nat) : Int) nv st.stack rfl
          refine ⟨.stmt ((a + codeSize (cv ++ [i]) : Nat) : Int) (.binary (S "assign") ((a + codeSize (cv ++ [i]) : Nat) : Int)
              (.leaf .propName (.s (nameOrUnknown tblSpecial k)) ((a + codeSize (cv ++ [i]) : Nat) : Int)) nv),
            gv1, ⟨_, _, _, nv, rfl, ?_, hemb⟩, PlainStmt.bin _ _ _ _ _, stmtIn_last a (cv ++ [i]) _ _, hgv1, ?_⟩
          · simp only [EmbLv, Emb]; exact ⟨_, rfl⟩
          · rw [runIs_append, runIs_append, hr1]
            simp only [Except.bind]
            rw [runIs_single, hex]
            simp only [Except.bind]
            rw [runIs_single]
            exact hs
        | _ => simp [FragE] at hlv
      | cons x xs =>
        cases xs with
        | cons y ys => cases t <;> simp [FragE] at hlv
        | nil =>
          simp only [FragE, Bool.and_eq_true, Bool.or_eq_true] at hlv
          obtain ⟨hor, hfe⟩ := hlv
          cases ht : theTbl t with
          | none => rw [ht] at hlvt; simp at hlvt
          | some tv =>
            obtain ⟨cls, tb, w⟩ := tv
            rw [ht, theTbl_strThe t k _ ht, theTbl_field t _ ht] at hor
            simp only [Bool.and_eq_true, Bool.false_eq_true, or_false, Bool.false_and, false_and] at hor
            obtain ⟨htk, hidx⟩ := hor
            obtain ⟨nm, hnm⟩ := Option.isSome_iff_exists.mp hidx
            have hca : lowerExpr c x s0 = .ok (ca, s') := by
              rw [lowerArgs, lowerArgs] at ha
              simp only [M_bind_ok, M_pure_ok, Prod.mk.injEq] at ha
              obtain ⟨ce, s2, he, cs2, s3, ⟨rfl, rfl⟩, rfl, rfl⟩ := ha
              simpa using he
            obtain ⟨hextx, hopx, hrunx⟩ := stack_lemma x hfe c s0 s' ca hca
            refine ⟨(hextx.trans hextv).trans hexti, _, rfl, ?_, ?_⟩
            · intro i hi
              rcases List.mem_append.mp hi with hi | hi
              · rcases List.mem_append.mp hi with hi | hi
                · rcases List.mem_append.mp hi with hi | hi
                  · exact hopx i hi
                  · exact hopv i hi
                · exact hopi i hi
              · simp only [List.mem_singleton] at hi; subst hi; simp [Instr.opc]
            intro sF ctx hF hrel G hG hP a st hb hgv
            have hGx : ∀ g ∈ x.vars .glob, g ∈ G := fun g hg => hG g (by simp [Stmt.vars, Expr.vars, Expr.varsList, hg])
            have hGv : ∀ g ∈ v.vars .glob, g ∈ G := fun g hg => hG g (by simp [Stmt.vars, Expr.vars, hg])
            obtain ⟨nx, gv0, hembx, hgv0, hr0⟩ := hrunx sF ctx ((hextv.trans hexti).trans hF) hrel G hGx a st hb hgv
            obtain ⟨nv, gv1, hemb, hgv1, hr1⟩ := hrunv sF ctx (hexti.trans hF) hrel G hGv (a + codeSize ca)
              { st with stack := nx :: st.stack, gvars := gv0 } hb hgv0.1
            obtain ⟨i, rfl, hex⟩ := hruni c sF ctx hF hrel ((a + codeSize (ca ++ cv) : Nat) : Int)
              { st with stack := nv :: nx :: st.stack, gvars := gv1 } hb
            have hname := embH_idx_name c.handlers x nm nx hnm hembx
            have hs := exec_assignobj ctx t cls tb w ht k htk ((a + codeSize (ca ++ cv ++ [i]) : Nat) : Int)
              { st with stack := .leaf .const (.s (natStr k)) ((a + codeSize (ca ++ cv) : Nat) : Int) :: nv :: nx :: st.stack, gvars := gv1 }
              ((a + codeSize (ca ++ cv) : Nat) : Int) nv nx nm hname st.stack rfl
            refine ⟨.stmt ((a + codeSize (ca ++ cv ++ [i]) : Nat) : Int) (.binary (S "assign") ((a + codeSize (ca ++ cv ++ [i]) : Nat) : Int)
                (.propAcc ((a + codeSize (ca ++ cv ++ [i]) : Nat) : Int) (.leaf cls nm ((a + codeSize (ca ++ cv ++ [i]) : Nat) : Int)) (nameOrUnknown tb k) false) nv),
              gv1, ⟨_, _, _, nv, rfl, ?_, hemb⟩, PlainStmt.bin _ _ _ _ _, stmtIn_last a (ca ++ cv ++ [i]) _ _, hgv0.trans hgv1, ?_⟩
            · simp only [EmbLv, Emb]; exact Or.inl ⟨_, _, cls, tb, w, nm, ht, hnm, rfl⟩
            · rw [runIs_append, runIs_append, runIs_append, hr0]
              simp only [Except.bind]
              rw [hr1]
              simp only [Except.bind]
              rw [runIs_single, hex]
              simp only [Except.bind]
              rw [runIs_single]
              exact hs
    | oprop n o =>
      simp only [FragLv, FragE, Bool.and_eq_true] at hlv
      obtain ⟨_, hfo⟩ := hlv
      rw [lowerStmt] at h
      simp only [M_bind_ok, M_pure_ok, Prod.mk.injEq] at h
      obtain ⟨co, s', ho, cv, s'', hv, i, s2, hn, cd, s3, hc, rfl, rfl⟩ := h
      obtain ⟨hexto, hopo, hruno⟩ := stack_lemma o hfo c s0 s' co ho
      obtain ⟨hextv, hopv, hrunv⟩ := stack_lemma v hfv c s' s'' cv hv
      obtain ⟨hext2, hget, hlt, _⟩ := nameIdx_ok _ _ _ _ hn
      obtain ⟨rfl, rfl, hx⟩ := op2c_ok _ _ _ _ _ hc
      refine ⟨(hexto.trans hextv).trans hext2, _, rfl, ?_, ?_⟩
      · intro j hj
        rcases List.mem_append.mp hj with hj | hj
        · rcases List.mem_append.mp hj with hj | hj
          · exact hopo j hj
          · exact hopv j hj
        · simp only [List.mem_singleton] at hj; subst hj; simp [Instr.opc]
      intro sF ctx hF hrel G hG hP a st hb hgv
      have hnm : ctx.names[i]? = some n := by rw [hrel.names]; exact hF.name hget
      have hGo : ∀ g ∈ o.vars .glob, g ∈ G := fun g hg => hG g (by simp [Stmt.vars, Expr.vars, hg])
      have hGv : ∀ g ∈ v.vars .glob, g ∈ G := fun g hg => hG g (by simp [Stmt.vars, Expr.vars, hg])
      obtain ⟨no, gv0, hembo, hgv0, hr0⟩ := hruno sF ctx ((hextv.trans hext2).trans hF) hrel G hGo a st hb hgv
      obtain ⟨nv, gv1, hemb, hgv1, hr1⟩ := hrunv sF ctx (hext2.trans hF) hrel G hGv (a + codeSize co)
        { st with stack := no :: st.stack, gvars := gv0 } hb hgv0.1
      refine ⟨.stmt ((a + codeSize (co ++ cv) : Nat) : Int) (.binary (S "assign") ((a + codeSize (co ++ cv) : Nat) : Int)
          (.propAcc ((a + codeSize (co ++ cv) : Nat) : Int) no n true) nv),
        gv1, ⟨_, _, _, nv, rfl, ?_, hemb⟩, PlainStmt.bin _ _ _ _ _, stmtIn_last a (co ++ cv) _ _, hgv0.trans hgv1, ?_⟩
      · simp only [EmbLv, Emb]; exact ⟨_, no, rfl, EmbH.toEmb _ o no hembo⟩
      · rw [runIs_append, runIs_append, hr0]
        simp only [Except.bind]
        rw [hr1]
        simp only [Except.bind]
        rw [runIs_single, exec_setoprop ctx i n hnm _ _ nv no st.stack rfl]
      all_goals (intros; contradiction)
    | movie n =>
      rw [lowerStmt] at h
      · simp only [M_bind_ok, M_pure_ok, Prod.mk.injEq] at h
        obtain ⟨cv, s', hv, code, s'', hset, rfl, rfl⟩ := h
        obtain ⟨hext, hop, hrun⟩ := stack_lemma v hfv c s0 _ cv hv
        simp only [lowerSet, M_bind_ok, M_pure_ok, Prod.mk.injEq] at hset
        obtain ⟨i, s3, hn, c2, s2, hop2, rfl, rfl⟩ := hset
        obtain ⟨hext2, hget, hlt, _⟩ := nameIdx_ok _ _ _ _ hn
        obtain ⟨rfl, rfl, hx⟩ := op2c_ok _ _ _ _ _ hop2
        refine ⟨hext.trans hext2, _, rfl, ?_, ?_⟩
        · intro i hi
          rcases List.mem_append.mp hi with hi | hi
          · exact hop i hi
          · simp only [List.mem_singleton] at hi; subst hi; simp [Instr.opc]
        intro sF ctx hF hrel G hG hP a st hb hgv
        have hnm : ctx.names[i]? = some n := by rw [hrel.names]; exact hF.name hget
        have hG' : ∀ g ∈ v.vars .glob, g ∈ G := fun g hg => hG g (by simp [Stmt.vars, Expr.vars, hg])
        obtain ⟨nv, gv1, hemb, hgv1, hr1⟩ := hrun sF ctx (hext2.trans hF) hrel G hG' a st hb hgv
        obtain ⟨l, hl, hex⟩ := exec_setmovie ctx i n hnm ((a + codeSize cv : Nat) : Int) { st with stack := nv :: st.stack, gvars := gv1 } nv st.stack rfl
        refine ⟨.stmt ((a + codeSize cv : Nat) : Int) (.binary (S "assign") ((a + codeSize cv : Nat) : Int) l nv),
          gv1, ⟨_, _, _, nv, rfl, hl, hemb⟩, PlainStmt.bin _ _ _ _ _, stmtIn_last a cv _ _, hgv1, ?_⟩
        rw [runIs_append, hr1]
        simp only [Except.bind]
        rw [runIs_single, hex]
      all_goals (intros; contradiction)
    | _ => simp [FragLv] at hlv
  | call f as =>
    have hfl := fragS_call_args f as hf
    rw [lowerStmt] at h
    simp only [M_bind_ok, hT, Bool.false_eq_true, if_false] at h
    obtain ⟨ca, s', ha, cn, s'', hn, h⟩ := h
    obtain ⟨hext, hop, hrun⟩ := args_lemma as hfl c s0 _ ca ha
    obtain ⟨rfl, i, rfl, hiop, hiex⟩ := argsInstr_ok false as.length _ _ _ hn
    cases hidx : idxOf f c.handlers 0 with
    | some k =>
      rw [hidx] at h
      simp only [M_bind_ok, M_pure_ok, Prod.mk.injEq] at h
      obtain ⟨cc, s3, hcc, rfl, rfl⟩ := h
      obtain ⟨rfl, rfl, hk⟩ := op2c_ok _ _ _ _ _ hcc
      refine ⟨hext, _, rfl, ?_, ?_⟩
      · intro j hj
        rcases List.mem_append.mp hj with hj | hj
        · rcases List.mem_append.mp hj with hj | hj
          · exact hop j hj
          · simp only [List.mem_singleton] at hj; subst hj; exact hiop
        · simp only [List.mem_singleton] at hj; subst hj; simp [Instr.opc]
      intro sF ctx hF hrel G hG hP a st hb hgv
      obtain ⟨ns, gv1, hemb, hgv1, hr1⟩ := hrun sF ctx hF hrel G (by simpa [Stmt.vars] using hG) a st hb hgv
      have hlen := embLH_length _ as ns hemb
      have hle : as.length ≤ (ns.reverse ++ st.stack).length := by simp; omega
      have htake : (ns.reverse ++ st.stack).take as.length = ns.reverse := by
        rw [List.take_append_of_le_length (by simp; omega), List.take_of_length_le (by simp; omega)]
      have hdrop : (ns.reverse ++ st.stack).drop as.length = st.stack := by
        rw [List.drop_append_of_le_length (by simp; omega), List.drop_of_length_le (by simp; omega), List.nil_append]
      have hcont := idxOf_contains f c.handlers 0 k hidx
      refine ⟨.stmt ((a + codeSize (ca ++ [i]) : Nat) : Int) (.callFn (.s f) ((a + codeSize (ca ++ [i]) : Nat) : Int)
          (.loadList (listName false) ((a + codeSize ca : Nat) : Int) ns.reverse) true false (c.handlers.contains f) .none), gv1,
        ⟨_, _, _, ns, rfl, hemb⟩, PlainStmt.call _ _ _ _ _ _ _ _, stmtIn_last a (ca ++ [i]) _ _, hgv1, ?_⟩
      rw [hcont, runIs_append, runIs_append, hr1]
      simp only [Except.bind]
      rw [runIs_single, hiex ctx _ { st with stack := ns.reverse ++ st.stack, gvars := gv1 } hle]
      simp only [htake, hdrop]
      rw [runIs_single, exec_calllocal ctx k f (hrel.lfn f k hidx) _ _ false _ ns.reverse st.stack rfl]
      rfl
    | none =>
      rw [hidx] at h
      simp only [M_bind_ok, M_pure_ok, Prod.mk.injEq] at h
      obtain ⟨ni, s3, hni, cc, s4, hcc, rfl, rfl⟩ := h
      obtain ⟨hext2, hget, hlt, _⟩ := nameIdx_ok _ _ _ _ hni
      obtain ⟨rfl, rfl, hk⟩ := op2c_ok _ _ _ _ _ hcc
      refine ⟨hext.trans hext2, _, rfl, ?_, ?_⟩
      · intro j hj
        rcases List.mem_append.mp hj with hj | hj
        · rcases List.mem_append.mp hj with hj | hj
          · exact hop j hj
          · simp only [List.mem_singleton] at hj; subst hj; exact hiop
        · simp only [List.mem_singleton] at hj; subst hj; simp [Instr.opc]
      intro sF ctx hF hrel G hG hP a st hb hgv
      have hnm : ctx.names[ni]? = some f := by rw [hrel.names]; exact hF.name hget
      obtain ⟨ns, gv1, hemb, hgv1, hr1⟩ := hrun sF ctx (hext2.trans hF) hrel G (by simpa [Stmt.vars] using hG) a st hb hgv
      have hlen := embLH_length _ as ns hemb
      have hle : as.length ≤ (ns.reverse ++ st.stack).length := by simp; omega
      have htake : (ns.reverse ++ st.stack).take as.length = ns.reverse := by
        rw [List.take_append_of_le_length (by simp; omega), List.take_of_length_le (by simp; omega)]
      have hdrop : (ns.reverse ++ st.stack).drop as.length = st.stack := by
        rw [List.drop_append_of_le_length (by simp; omega), List.drop_of_length_le (by simp; omega), List.nil_append]
      have hcont := idxOf_not_contains f c.handlers 0 hidx
      refine ⟨.stmt ((a + codeSize (ca ++ [i]) : Nat) : Int) (.callFn (.s f) ((a + codeSize (ca ++ [i]) : Nat) : Int)
          (.loadList (listName false) ((a + codeSize ca : Nat) : Int) ns.reverse) true false (c.handlers.contains f) .none), gv1,
        ⟨_, _, _, ns, rfl, hemb⟩, PlainStmt.call _ _ _ _ _ _ _ _, stmtIn_last a (ca ++ [i]) _ _, hgv1, ?_⟩
      rw [hcont, runIs_append, runIs_append, hr1]
      simp only [Except.bind]
      rw [runIs_single, hiex ctx _ { st with stack := ns.reverse ++ st.stack, gvars := gv1 } hle]
      simp only [htake, hdrop]
      rw [runIs_single, exec_callext ctx ni f hnm _ _ false _ ns.reverse st.stack rfl]
      rfl
  | exit =>
    rw [lowerStmt] at h
    simp only [M_pure_ok, Prod.mk.injEq] at h
    obtain ⟨rfl, rfl⟩ := h
    refine ⟨Ext.refl _, _, rfl, ?_, ?_⟩
    · intro j hj
      simp only [List.mem_singleton] at hj; subst hj
      cases c.isMethod <;> simp [Instr.opc]
    intro sF ctx hF hrel G hG hP a st hb hgv
    refine ⟨exitNode (a : Int) (a : Int), st.gvars, ⟨_, _, rfl⟩, PlainStmt.call _ _ _ _ _ _ _ _, ?_, GvNext.refl hgv, ?_⟩
    · have := stmtIn_last a [] (Instr.op1 (if c.isMethod = true then 2 else 1)) (.callFn (.s (S "exit")) (a : Int) .none true false false .none)
      simpa [codeSize, exitNode] using this
    rw [runIs_single, exec_exit ctx _ (by cases c.isMethod <;> simp)]
  | put m v lv => exact stmt_put m v lv hf c s0 s1 cs h
  | delete t => exact stmt_delete t hf c s0 s1 cs h
  | hilite t => exact stmt_hilite t hf c s0 s1 cs h
  | mcall o m as =>
    simp only [FragS, Bool.and_eq_true] at hf
    obtain ⟨⟨hro, _⟩, hfl⟩ := hf
    rw [lowerStmt] at h
    simp only [M_bind_ok, M_pure_ok, Prod.mk.injEq] at h
    obtain ⟨im, s2, hn, cm, s2', hcm, ca, s3, ha, cn, s4, hna, ⟨ref, k⟩, s5, href, rfl, rfl⟩ := h
    obtain ⟨rfl, rfl, _⟩ := op2c_ok _ _ _ _ _ hcm
    obtain ⟨hext, hop, nm, hnm, hrun⟩ := mcall_core false c o m as hro s0 _ s3 s4 _ im ca cn ref k hn (args_lemma as hfl c _ _ ca ha) hna href
    refine ⟨hext, _, rfl, hop, ?_⟩
    intro sF ctx hF hrel G hG hP a st hb hgv
    obtain ⟨ns, gv', rc, lp, hemb, hrc, hgv', hr⟩ := hrun sF ctx hF hrel G (fun g hg => hG g (by simp [Stmt.vars, hg])) a st hb hgv
    refine ⟨.stmt ((a + codeSize ([Instr.op2 0x45 im] ++ ca ++ cn ++ ref) : Nat) : Int)
        (.callFn (.s nm) ((a + codeSize ([Instr.op2 0x45 im] ++ ca ++ cn ++ ref) : Nat) : Int)
          (.loadList (S "load_list") lp (ns.reverse ++ [.sym (.s m) (a : Int) false])) true false false rc),
      gv', ⟨_, _, _, _, rc, ns, nm, hnm, rfl, hemb, hrc⟩, PlainStmt.call _ _ _ _ _ _ _ _, stmtIn_last a ([Instr.op2 0x45 im] ++ ca ++ cn ++ ref) _ _, hgv', ?_⟩
    rw [hr]; rfl
  | _ => simp [FragS] at hf

end Drx.Link
