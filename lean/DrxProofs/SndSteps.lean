/-
  Bounds for the counting twins of Drx/SndSteps.lean (C10 support for the sound decoder).
-/
import Drx.SndSteps
import DrxProofs.Snd
namespace Drx.Snd
open Drx

theorem getS_ok_le (o : Order) (k : Nat) (d : Bytes) (off : Nat) (v : Int) (hk : 0 < k) (h : getS o k d off = .ok v) :
    off + k ≤ d.length := by
  unfold getS unpackS at h
  by_cases hl : (slice d off (off + k)).length = k
  · simp only [slice, List.length_take, List.length_drop] at hl; omega
  · simp [hl] at h

/-- the command loop makes at most one round per 8 bytes that are left (+ the round that raises), for ANY declared count -/
theorem parseCmdsSteps_bound (d : Bytes) (n idx : Nat) : parseCmdsSteps d n idx * 8 ≤ (d.length - idx) + 8 := by
  induction n generalizing idx with
  | zero => simp [parseCmdsSteps]
  | succ n ih =>
    unfold parseCmdsSteps
    split
    · rename_i _ _ v3 _ _ h3
      have := getS_ok_le .be 4 d (idx + 4) _ (by decide) h3
      have := ih (idx + 8)
      omega
    · omega

theorem parseCmdsSteps_le (d : Bytes) (n idx : Nat) : parseCmdsSteps d n idx ≤ n := by
  induction n generalizing idx with
  | zero => simp [parseCmdsSteps]
  | succ n ih =>
    unfold parseCmdsSteps
    split
    · have := ih (idx + 8); omega
    · omega

theorem parseDataTypesSteps_bound (d : Bytes) (n idx : Nat) : parseDataTypesSteps d n idx * 6 ≤ (d.length - idx) + 6 := by
  induction n generalizing idx with
  | zero => simp [parseDataTypesSteps]
  | succ n ih =>
    unfold parseDataTypesSteps
    split
    · rename_i _ v2 _ h2
      have := getS_ok_le .be 4 d (idx + 2) _ (by decide) h2
      have := ih (idx + 6)
      omega
    · omega

theorem parseDataTypesSteps_le (d : Bytes) (n idx : Nat) : parseDataTypesSteps d n idx ≤ n := by
  induction n generalizing idx with
  | zero => simp [parseDataTypesSteps]
  | succ n ih =>
    unfold parseDataTypesSteps
    split
    · have := ih (idx + 6); omega
    · omega

/-- a command table that parsed has consumed 8 bytes per command -/
theorem parseCmds_ok_length (d : Bytes) (n idx : Nat) (cs : List Cmd) (h : parseCmds d n idx = .ok cs) :
    cs.length = n ∧ (0 < n → idx + 8 * n ≤ d.length) ∧ parseCmdsSteps d n idx = n := by
  induction n generalizing idx cs with
  | zero =>
    simp only [parseCmds, Except.ok.injEq] at h
    subst h; simp [parseCmdsSteps]
  | succ n ih =>
    rw [parseCmds] at h
    simp only [bind, Except.bind] at h
    cases h0 : getS .be 2 d idx with
    | error e => simp [h0] at h
    | ok c =>
      cases h1 : getS .be 2 d (idx + 2) with
      | error e => simp [h0, h1] at h
      | ok p1 =>
        cases h2 : getS .be 4 d (idx + 4) with
        | error e => simp [h0, h1, h2] at h
        | ok p2 =>
          cases hr : parseCmds d n (idx + 8) with
          | error e => simp [h0, h1, h2, hr] at h
          | ok rest =>
            simp only [h0, h1, h2, hr, Except.ok.injEq] at h
            subst h
            obtain ⟨hl, hb, hs⟩ := ih (idx + 8) rest hr
            have h48 := getS_ok_le .be 4 d (idx + 4) _ (by decide) h2
            refine ⟨by simp [hl], fun _ => ?_, ?_⟩
            · by_cases hn : 0 < n
              · have := hb hn; omega
              · have : n = 0 := by omega
                subst this; omega
            · unfold parseCmdsSteps
              simp only [h0, h1, h2, hs]; omega

theorem swapLoopSteps_le (d : Bytes) (idx : Int) (n i : Nat) : swapLoopSteps d idx n i ≤ n := by
  induction n generalizing i with
  | zero => simp [swapLoopSteps]
  | succ n ih =>
    unfold swapLoopSteps
    split
    · have := ih (i + 2); omega
    · omega

theorem sampleAreaSteps_le (st : St) (d : Bytes) (i length : Int) (hi : -(d.length : Int) ≤ i) :
    sampleAreaSteps st d i length ≤ d.length := by
  unfold sampleAreaSteps
  split
  · omega
  · split
    · split
      · omega
      · split
        · omega
        · have := swapLoopSteps_le d i length.toNat 0
          omega
    · omega

/-- one `_get_frames` call makes at most |d| rounds of its copy loop, whatever length the header declares -/
theorem getFramesSteps_le (st : St) (idx : Int) (d : Bytes) : getFramesSteps st idx d ≤ d.length := by
  unfold getFramesSteps
  split
  · rename_i s i length h
    have := soundHeader_idx_ge st idx d _ h
    exact sampleAreaSteps_le s d i length (by simp only at this; omega)
  · omega

theorem runCmdsSteps_le (d : Bytes) (st : St) (cs : List Cmd) :
    (runCmdsSteps d st cs).1 ≤ cs.length ∧ (runCmdsSteps d st cs).2 ≤ cs.length * d.length := by
  induction cs generalizing st with
  | nil => simp [runCmdsSteps]
  | cons c cs ih =>
    unfold runCmdsSteps
    have hm : (cs.length + 1) * d.length = cs.length * d.length + d.length := by
      rw [Nat.add_mul, Nat.one_mul]
    split
    · simp only [List.length_cons]; omega
    · obtain ⟨h1, h2⟩ := ih st
      simp only [List.length_cons]; omega
    · have hg := getFramesSteps_le st c.param2 d
      split
      · rename_i s' _ _
        obtain ⟨h1, h2⟩ := ih s'
        simp only [List.length_cons]; omega
      · simp only [List.length_cons]; omega

theorem commandsSteps_bound (d : Bytes) (idx dt : Nat) :
    (commandsSteps d idx dt).dataTypes = dt ∧
    (commandsSteps d idx dt).commands * 8 ≤ d.length + 8 ∧
    (commandsSteps d idx dt).run ≤ (commandsSteps d idx dt).ncmds ∧
    (commandsSteps d idx dt).swap ≤ (commandsSteps d idx dt).ncmds * d.length ∧
    (commandsSteps d idx dt).ncmds * 8 ≤ d.length := by
  unfold commandsSteps
  split
  · simp
  · rename_i n _
    split
    · have := parseCmdsSteps_bound d n.toNat (idx + 2)
      simp only [Nat.zero_mul, Nat.zero_le, and_true, true_and]
      omega
    · rename_i cmds hp
      obtain ⟨hl, hb, _⟩ := parseCmds_ok_length d n.toNat (idx + 2) cmds hp
      obtain ⟨h1, h2⟩ := runCmdsSteps_le d St.init cmds
      have := parseCmdsSteps_bound d n.toNat (idx + 2)
      refine ⟨rfl, by simp only; omega, h1, h2, ?_⟩
      simp only
      by_cases hn : 0 < n.toNat
      · have := hb hn; omega
      · have : cmds.length = 0 := by omega
        omega

/-- whole decode, ANY byte string: loops (1)–(3) are linear in |d| whatever counts the input declares; loop (4) makes at
    most |d| rounds per command, and a table of k commands occupies 8·k bytes -/
theorem sndSteps_bound (d : Bytes) :
    (sndSteps d).dataTypes * 6 ≤ d.length + 6 ∧
    (sndSteps d).commands * 8 ≤ d.length + 8 ∧
    (sndSteps d).run ≤ (sndSteps d).ncmds ∧
    (sndSteps d).swap ≤ (sndSteps d).ncmds * d.length ∧
    (sndSteps d).ncmds * 8 ≤ d.length := by
  unfold sndSteps
  split
  · simp
  · split
    · split
      · simp
      · rename_i n _
        have hdt := parseDataTypesSteps_bound d n.toNat 4
        split
        · simp only [Nat.zero_mul, Nat.zero_le, and_true]; omega
        · rename_i idx _
          obtain ⟨h0, h1, h2, h3, h4⟩ := commandsSteps_bound d idx (parseDataTypesSteps d n.toNat 4)
          refine ⟨by rw [h0]; omega, h1, h2, h3, h4⟩
    · split
      · split
        · simp
        · obtain ⟨h0, h1, h2, h3, h4⟩ := commandsSteps_bound d 4 0
          refine ⟨by rw [h0]; omega, h1, h2, h3, h4⟩
      · simp

/-- one number: the total is at most quadratic in the input length, with explicit constants -/
theorem sndSteps_total_bound (d : Bytes) :
    24 * (sndSteps d).total ≤ 3 * (d.length * d.length) + 10 * d.length + 48 := by
  obtain ⟨h1, h2, h3, h4, h5⟩ := sndSteps_bound d
  have hq : (sndSteps d).ncmds * d.length * 8 ≤ d.length * d.length := by
    calc (sndSteps d).ncmds * d.length * 8 = ((sndSteps d).ncmds * 8) * d.length := by
          rw [Nat.mul_assoc, Nat.mul_comm d.length 8, ← Nat.mul_assoc]
      _ ≤ d.length * d.length := Nat.mul_le_mul_right _ h5
  have hs : (sndSteps d).swap * 8 ≤ d.length * d.length := Nat.le_trans (Nat.mul_le_mul_right 8 h4) hq
  unfold Steps.total
  omega

/-- …and the copy loop is the only super-linear part -/
theorem sndSteps_linear_part (d : Bytes) :
    24 * ((sndSteps d).dataTypes + (sndSteps d).commands + (sndSteps d).run) ≤ 10 * d.length + 48 := by
  obtain ⟨h1, h2, h3, _, h5⟩ := sndSteps_bound d
  omega

/-- allocation of the output buffers of a whole decode: at most 2·|d| per command, hence at most |d|²/4 -/
theorem sndAlloc_bound (d : Bytes) :
    (sndAlloc d).1 ≤ 2 * d.length * (sndAlloc d).2 ∧ (sndAlloc d).2 * 8 ≤ d.length ∧ 4 * (sndAlloc d).1 ≤ d.length * d.length := by
  have hA : (sndAlloc d).1 ≤ 2 * d.length * (sndAlloc d).2 := by
    unfold sndAlloc
    split
    · exact runCmdsAlloc_le d St.init _
    · simp
  have hN : (sndAlloc d).2 * 8 ≤ d.length := by
    unfold sndAlloc
    split
    · rename_i f hf
      -- the command list of a parsed resource comes from `parseCmds`
      unfold parseSndFmt at hf
      simp only [bind, Except.bind] at hf
      have key : ∀ idx (cmds : List Cmd), parseSndCommands d idx = .ok cmds → cmds.length * 8 ≤ d.length := by
        intro idx cmds h
        unfold parseSndCommands at h
        simp only [bind, Except.bind] at h
        split at h
        · contradiction
        · rename_i n _
          obtain ⟨hl, hb, _⟩ := parseCmds_ok_length d n.toNat (idx + 2) cmds h
          by_cases hn : 0 < n.toNat
          · have := hb hn; omega
          · have : cmds.length = 0 := by omega
            omega
      split at hf
      · contradiction
      · split at hf
        · unfold parseSndFmt1 at hf
          simp only [bind, Except.bind] at hf
          repeat' (split at hf)
          all_goals first
            | contradiction
            | (simp only [Except.ok.injEq] at hf; subst hf; simp only; exact key _ _ (by assumption))
        · split at hf
          · unfold parseSndFmt2 at hf
            simp only [bind, Except.bind] at hf
            repeat' (split at hf)
            all_goals first
              | contradiction
              | (simp only [Except.ok.injEq] at hf; subst hf; simp only; exact key _ _ (by assumption))
          · contradiction
    · simp
  refine ⟨hA, hN, ?_⟩
  have : 2 * d.length * (sndAlloc d).2 * 4 ≤ d.length * d.length := by
    calc 2 * d.length * (sndAlloc d).2 * 4 = d.length * ((sndAlloc d).2 * 8) := by
          rw [Nat.mul_comm 2, Nat.mul_assoc, Nat.mul_assoc]; congr 1; omega
      _ ≤ d.length * d.length := Nat.mul_le_mul_left _ hN
  omega

end Drx.Snd
