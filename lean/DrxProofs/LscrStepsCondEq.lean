/-
  The condition-detection twin computes the model's result: `(condDetectDS d stmts roEnd).2 = condDetectD d stmts roEnd`.
-/
import DrxProofs.LscrStepsCond
namespace Drx.Lscr.Steps
open Drx Drx.Gen Drx.Lscr

theorem ite_snd_eq {α β : Type} {c : Prop} [Decidable c] {x y : β × α} {a b : α} (h1 : c → x.2 = a) (h2 : ¬ c → y.2 = b) :
    (if c then x else y).2 = (if c then a else b) := by
  by_cases h : c
  · simp only [h, if_true]; exact h1 h
  · simp only [h, if_false]; exact h2 h

theorem condJzsS_result (d n : Nat)
    (hA : ∀ stmts roEnd, stmts.length < n → (condDetectDS d stmts roEnd).2 = condDetectD d stmts roEnd) :
    ∀ (jzs stmts : List Node) (roEnd : Option Int), (condJzsS d n jzs stmts roEnd).2 = condJzs d n jzs stmts roEnd := by
  intro jzs
  induction jzs with
  | nil => intro stmts roEnd; rw [condJzsS.eq_def, condJzs.eq_def]
  | cons op restJz ih =>
    intro stmts roEnd
    rw [condJzsS.eq_def, condJzs.eq_def]
    simp only
    cases op with
    | jz opos cond addr =>
      simp only [bind, Except.bind]
      apply ite_snd_eq
      · intro hx
        cases hs : replaceFirstCode (Node.jz opos cond addr) (Node.ifThen opos (Node.unary (S "not") opos cond) [exitRepeatStmt opos] []) stmts with
        | error e => rfl
        | ok stmts' => simp only; exact ih _ _
      · intro hx
        cases hs : ifScan (Node.jz opos cond addr) (Node.ifThen opos cond [] []) opos addr stmts with
        | error e => rfl
        | ok v =>
          obtain ⟨stmts1, coll⟩ := v
          simp only
          cases hrm : pyRemoveAll stmts1 coll with
          | error e => rfl
          | ok stmts2 =>
            simp only
            cases hbd : breakDetect coll roEnd with
            | error e => rfl
            | ok ifl0 =>
              simp only
              by_cases hg : ifl0.length < n
              · simp only [hg, dite_true]
                rw [hA ifl0 roEnd hg]
                cases hci : condDetectD d ifl0 roEnd with
                | error e => rfl
                | ok ifl =>
                  simp only
                  by_cases hem : ifl.isEmpty = true
                  · simp only [hem, if_true]; exact ih _ _
                  · simp only [hem, Bool.false_eq_true, if_false]
                    cases hlast : pyGet ifl (-1) with
                    | error e => rfl
                    | ok last =>
                      simp only
                      cases last with
                      | stmt pos code =>
                        cases code with
                        | jump jpos jaddr =>
                          simp only
                          apply ite_snd_eq
                          · intro hy; exact ih _ _
                          · intro hy
                            cases hrm2 : pyRemoveAll stmts2 (elseScan jpos jaddr stmts2) with
                            | error e => rfl
                            | ok stmts3 =>
                              simp only
                              cases hbd2 : breakDetect (elseScan jpos jaddr stmts2) roEnd with
                              | error e => rfl
                              | ok el0 =>
                                simp only
                                by_cases hg2 : el0.length < n
                                · simp only [hg2, dite_true]
                                  rw [hA el0 roEnd hg2]
                                  cases hce : condDetectD d el0 roEnd with
                                  | error e => rfl
                                  | ok el => simp only; exact ih _ _
                                · simp only [hg2, dite_false]
                        | _ => simp only; exact ih _ _
                      | _ => rfl
              · simp only [hg, dite_false]
    | _ => rfl


/-- the first loop's nested calls, as the model writes them -/
def nestedFn (d' : Nat) (roEnd : Option Int) (st : Node) : R Node :=
  match st with
  | .stmt p (.repeat_ rp re c body t s v sg vr) => do
    let body' ← condDetectD d' body (some re)
    pure (.stmt p (.repeat_ rp re c body' t s v sg vr))
  | .stmt p (.tell tp operand inner closed) => do
    let inner' ← condDetectD d' inner roEnd
    pure (.stmt p (.tell tp operand inner' closed))
  | x => pure x

theorem nestedSD_result (d' : Nat) (hA : ∀ stmts roEnd, (condDetectDS d' stmts roEnd).2 = condDetectD d' stmts roEnd)
    (roEnd : Option Int) (l : List Node) : (nestedSD d' roEnd l).2 = l.mapM (nestedFn d' roEnd) := by
  induction l with
  | nil => rw [nestedSD.eq_def]; rfl
  | cons st rest ih =>
    rw [nestedSD.eq_def, List.mapM_cons]
    simp only
    split
    · rename_i p rp re c body t s v sg vr
      simp only [nestedFn, bind, Except.bind, pure, Except.pure]
      rw [hA body (some re)]
      cases condDetectD d' body (some re) with
      | error e => rfl
      | ok body' =>
        simp only
        rw [ih]
        cases List.mapM (nestedFn d' roEnd) rest <;> rfl
    · rename_i p tp operand inner closed
      simp only [nestedFn, bind, Except.bind, pure, Except.pure]
      rw [hA inner roEnd]
      cases condDetectD d' inner roEnd with
      | error e => rfl
      | ok inner' =>
        simp only
        rw [ih]
        cases List.mapM (nestedFn d' roEnd) rest <;> rfl
    · rename_i h1 h2
      have : nestedFn d' roEnd st = pure st := by
        unfold nestedFn
        split
        · exact absurd rfl (h1 _ _ _ _ _ _ _ _ _ _)
        · exact absurd rfl (h2 _ _ _ _ _)
        · rfl
      rw [this, ih]
      simp only [bind, Except.bind, pure, Except.pure]
      cases List.mapM (nestedFn d' roEnd) rest <;> rfl

theorem condDetectDS_result_step (d : Nat)
    (hD : ∀ d', d' < d → ∀ stmts roEnd, (condDetectDS d' stmts roEnd).2 = condDetectD d' stmts roEnd)
    (stmts : List Node) (roEnd : Option Int)
    (hA : ∀ stmts' roEnd', stmts'.length < stmts.length → (condDetectDS d stmts' roEnd').2 = condDetectD d stmts' roEnd') :
    (condDetectDS d stmts roEnd).2 = condDetectD d stmts roEnd := by
  have tail : ∀ (x : FS) (stmts1 : List Node),
      (match stmts1.foldlM (scanStep roEnd) {} with
        | .error e => (x, (.error e : R (List Node)))
        | .ok sc => (x + (condJzsS d stmts.length sc.jzs stmts1 roEnd).1, (condJzsS d stmts.length sc.jzs stmts1 roEnd).2)).2 =
      (match stmts1.foldlM (scanStep roEnd) {} with
        | .error e => .error e
        | .ok sc => condJzs d stmts.length sc.jzs stmts1 roEnd) := by
    intro x stmts1
    cases stmts1.foldlM (scanStep roEnd) {} with
    | error e => rfl
    | ok sc => simp only; exact condJzsS_result d stmts.length hA sc.jzs stmts1 roEnd
  cases d with
  | zero =>
    rw [condDetectDS.eq_def, condDetectD.eq_def]
    simp only [bind, Except.bind]
    by_cases hnest : stmts.any isNestStmt = true
    · simp only [hnest, if_true]
    · simp only [hnest, Bool.false_eq_true, if_false, pure, Except.pure]
      cases hsc : List.foldlM (scanStep roEnd) {} stmts with
      | error e => rfl
      | ok sc => simp only; exact condJzsS_result 0 stmts.length hA sc.jzs stmts roEnd
  | succ d' =>
    have hn := nestedSD_result d' (hD d' (by omega)) roEnd stmts
    have hR : condDetectD (d' + 1) stmts roEnd =
        (match stmts.mapM (nestedFn d' roEnd) with
         | .error e => .error e
         | .ok stmts1 =>
           match stmts1.foldlM (scanStep roEnd) {} with
           | .error e => .error e
           | .ok sc => condJzs (d' + 1) stmts.length sc.jzs stmts1 roEnd) := by
      rw [condDetectD.eq_def]
      simp only [bind, Except.bind]
      have key : ∀ (F1 F2 : Node → R Node), (∀ st, F1 st = F2 st) → List.mapM F1 stmts = List.mapM F2 stmts :=
        fun F1 F2 h => by rw [funext h]
      rw [key _ (nestedFn d' roEnd) (fun st => by
        cases st with
        | stmt p code => cases code <;> rfl
        | _ => rfl)]
      cases List.mapM (nestedFn d' roEnd) stmts with
      | error e => rfl
      | ok v =>
        simp only
        cases List.foldlM (scanStep roEnd) {} v <;> rfl
    rw [hR, condDetectDS.eq_def]
    simp only
    rw [hn]
    cases hm : List.mapM (nestedFn d' roEnd) stmts with
    | error e => rfl
    | ok stmts1 =>
      simp only
      cases hsc : List.foldlM (scanStep roEnd) {} stmts1 with
      | error e => rfl
      | ok sc => simp only; exact condJzsS_result (d' + 1) stmts.length hA sc.jzs stmts1 roEnd

theorem condDetectDS_result (d : Nat) (stmts : List Node) (roEnd : Option Int) :
    (condDetectDS d stmts roEnd).2 = condDetectD d stmts roEnd := by
  induction d using Nat.strongRecOn generalizing stmts roEnd with
  | _ d ihd =>
    induction hlen : stmts.length using Nat.strongRecOn generalizing stmts roEnd with
    | _ n ihn =>
      apply condDetectDS_result_step d (fun d' hd s r => ihd d' hd s r) stmts roEnd
      intro stmts' roEnd' hlt
      exact ihn stmts'.length (by omega) stmts' roEnd' rfl

/-- the twin of `condition_detect(fn)` computes the model's result -/
theorem condDetectS_result (stmts : List Node) : (condDetectS stmts).2 = condDetect stmts :=
  condDetectDS_result _ stmts none

end Drx.Lscr.Steps
