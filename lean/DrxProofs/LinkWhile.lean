/-
  The reference reader on the tokens of the DECOMPILER's text for structured programs: as `Spec.printLingoL`, except that the
  condition of `repeat while` is written without the outer parentheses of an infix operation (`repeat.generate_lingo` strips them).
  The statement / handler / script level of agent-lspec's reader theorems (DrxProofs/SpecStmt.lean, SpecScript.lean) is repeated
  for this printer `prSW` (mechanically: same proofs with the printer renamed); the only new ingredient is `rp_cond_nl`.
-/
import Drx.Link
import DrxProofs.SpecScript
namespace Drx.Spec
open Drx.Link (wCond prSW prSsW)
set_option linter.unusedSimpArgs false
set_option linter.unusedVariables false

attribute [local simp] kwf_set_end kwf_set_else kwf_set_global kwf_set_instance kwf_set_property kwf_set_set kwf_set_put kwf_set_if kwf_set_repeat kwf_set_exit kwf_set_tell kwf_set_delete kwf_set_hilite kwf_put_end kwf_put_else kwf_put_global kwf_put_instance kwf_put_property kwf_put_set kwf_put_put kwf_put_if kwf_put_repeat kwf_put_exit kwf_put_tell kwf_put_delete kwf_put_hilite kwf_if_end kwf_if_else kwf_if_global kwf_if_instance kwf_if_property kwf_if_set kwf_if_put kwf_if_if kwf_if_repeat kwf_if_exit kwf_if_tell kwf_if_delete kwf_if_hilite kwf_repeat_end kwf_repeat_else kwf_repeat_global kwf_repeat_instance kwf_repeat_property kwf_repeat_set kwf_repeat_put kwf_repeat_if kwf_repeat_repeat kwf_repeat_exit kwf_repeat_tell kwf_repeat_delete kwf_repeat_hilite kwf_exit_end kwf_exit_else kwf_exit_global kwf_exit_instance kwf_exit_property kwf_exit_set kwf_exit_put kwf_exit_if kwf_exit_repeat kwf_exit_exit kwf_exit_tell kwf_exit_delete kwf_exit_hilite kwf_tell_end kwf_tell_else kwf_tell_global kwf_tell_instance kwf_tell_property kwf_tell_set kwf_tell_put kwf_tell_if kwf_tell_repeat kwf_tell_exit kwf_tell_tell kwf_tell_delete kwf_tell_hilite kwf_delete_end kwf_delete_else kwf_delete_global kwf_delete_instance kwf_delete_property kwf_delete_set kwf_delete_put kwf_delete_if kwf_delete_repeat kwf_delete_exit kwf_delete_tell kwf_delete_delete kwf_delete_hilite kwf_hilite_end kwf_hilite_else kwf_hilite_global kwf_hilite_instance kwf_hilite_property kwf_hilite_set kwf_hilite_put kwf_hilite_if kwf_hilite_repeat kwf_hilite_exit kwf_hilite_tell kwf_hilite_delete kwf_hilite_hilite kwf_end_end kwf_end_else kwf_end_global kwf_end_instance kwf_end_property kwf_end_set kwf_end_put kwf_end_if kwf_end_repeat kwf_end_exit kwf_end_tell kwf_end_delete kwf_end_hilite kwf_else_end kwf_else_else kwf_else_global kwf_else_instance kwf_else_property kwf_else_set kwf_else_put kwf_else_if kwf_else_repeat kwf_else_exit kwf_else_tell kwf_else_delete kwf_else_hilite kwf_then_then kwf_while_while kwf_while_with kwf_with_while kwf_with_with kwf_to_to kwf_down_to kwf_down_down kwf_to_down kwf_in_in kwf_into_into kwf_after_into kwf_after_after kwf_before_into kwf_before_after kwf_before_before

variable (env : Env)

theorem prSW_stmtHead (s : Stmt) (h : FragS env s) : headIs stmtHead (prSW s) = true := by
  cases s with
  | set lv v => simp [prSW, kw, headIs, stmtHead]
  | put md v lv => simp [prSW, kw, headIs, stmtHead]
  | delete t => simp [prSW, kw, headIs, stmtHead]
  | hilite t => simp [prSW, kw, headIs, stmtHead]
  | exit => simp [prSW, kw, headIs, stmtHead]
  | exitRepeat => simp [prSW, kw, headIs, stmtHead]
  | tell o b => simp [prSW, kw, headIs, stmtHead]
  | ifThen c t e => simp [prSW, kw, headIs, stmtHead]
  | repeatWhile c b => simp [prSW, kw, headIs, stmtHead]
  | repeatWith v a b d body => simp [prSW, kw, headIs, stmtHead]
  | repeatIn v l body => simp [prSW, kw, headIs, stmtHead]
  | mcall o m as =>
    obtain ⟨⟨s, hs, hc, _⟩, _⟩ : RecvStmtOk env o ∧ FragL env as := h
    simp [prSW, hs, headIs, stmtHead_of_cmdName s hc]
  | call f as =>
    obtain ⟨hc, _⟩ : CallOk env f as ∧ FragL env as := h
    have hh : ∃ X, prCallStmt f as = .id f :: X := by
      unfold prCallStmt
      split
      · split <;> exact ⟨_, rfl⟩
      · split
        · split
          · split <;> exact ⟨_, rfl⟩
          · exact ⟨_, rfl⟩
        · exact ⟨_, rfl⟩
    obtain ⟨X, hX⟩ := hh
    have hf : stmtHead (.id f) = true := by
      rcases hc with hc | ⟨hc, _⟩ | ⟨hc, _⟩ | ⟨hc, _⟩
      · subst hc; decide
      · subst hc; decide
      · subst hc; decide
      · exact stmtHead_of_cmdName f hc
    simp [prSW, hX, headIs, hf]

theorem prSsW_head (ss : List Stmt) (h : FragSs env ss) (rest : List Tok) (hr : Stop rest) :
    headIs (fun t => t != .nl) (prSsW ss ++ rest) = true := by
  cases ss with
  | nil =>
    cases rest with
    | nil => simp [Stop, headIs] at hr
    | cons t r =>
      simp only [prSsW, List.nil_append, headIs]
      simp only [Stop, headIs] at hr
      cases t <;> simp_all [kw_nl]
  | cons s ss =>
    obtain ⟨hs, _⟩ : FragS env s ∧ FragSs env ss := h
    have := prSW_stmtHead env s hs
    cases hp : prSW s with
    | nil => simp [hp, headIs] at this
    | cons t X =>
      simp only [hp, headIs, stmtHead] at this
      simp only [prSsW, hp, List.cons_append, headIs]
      simp at this ⊢
      exact this.1.1.1.1.1

/-- an infix condition without its outer parentheses, up to the end of the line (`rp_bin_inner` with closer `.nl`) -/
theorem rp_bin_nl (op : BinOp) (hop : op.isInfix = true) (a b : Expr) (ha : Frag env a) (hb : Frag env b) (R : List Tok) (F : Nat)
    (hF : fuelOf a + fuelOf b + 20 ≤ F) :
    pLevel env F 1 (prE a ++ op.tok :: (prE b ++ .nl :: R)) = some (.bin op a b, .nl :: R) := by
  have hlv := level_range op hop
  have hnl : Closer Tok.nl := Or.inr (Or.inr (Or.inr (Or.inl rfl)))
  have hA : ∀ F', fuelOf a + 6 ≤ F' →
      pLevel env F' (op.level + 1) (prE a ++ op.tok :: (prE b ++ .nl :: R)) = some (a, op.tok :: (prE b ++ .nl :: R)) :=
    level_of_e5 env a _ (fuelOf a) (fun F' hF' => rp_e5 env a ha _ (nolp_optok op _) F' hF') (op.level + 1) (by omega) (by omega)
      (follow_tok_of_infix op hop _)
  have hB : ∀ F', fuelOf b + 6 ≤ F' → pLevel env F' (op.level + 1) (prE b ++ .nl :: R) = some (b, .nl :: R) :=
    level_of_e5 env b _ (fuelOf b) (fun F' hF' => rp_e5 env b hb _ (nolp_closer _ _ hnl) F' hF') (op.level + 1) (by omega) (by omega)
      (follow_closer _ _ _ hnl)
  exact read_infix env op hop a b (prE a) (prE b) (.nl :: R) (fuelOf a + fuelOf b + 6)
    (fun F' hF' => hA F' (by omega)) (fun F' hF' => hB F' (by omega)) (follow_closer _ _ _ hnl)
    (op.level - 1) 1 (by omega) (Nat.le_refl 1) F (by omega)

/-- the decompiler's while-condition reads back as the condition -/
theorem rp_cond_nl (c : Expr) (h : Frag env c) (rest : List Tok) :
    pExpr env (32 * ((wCond c ++ .nl :: rest).length + 3)) (wCond c ++ .nl :: rest) = some (c, .nl :: rest) := by
  have hstd : wCond c = prE c → pExpr env (32 * ((wCond c ++ .nl :: rest).length + 3)) (wCond c ++ .nl :: rest) = some (c, .nl :: rest) := by
    intro e
    rw [e]
    exact rp_expr_nl env c h rest _ (by
      have := fuel_le env c h (prE c ++ .nl :: rest).length (by simp only [List.length_append, List.length_cons]; omega)
      omega)
  cases c with
  | bin op a b =>
    by_cases hop : op.isInfix = true
    · obtain ⟨ha, hb⟩ : Frag env a ∧ Frag env b := h
      have e : wCond (.bin op a b) = prE a ++ op.tok :: prE b := by simp [wCond, hop]
      rw [e]
      have fa := fuel_bound env a ha
      have fb := fuel_bound env b hb
      have := rp_bin_nl env op hop a b ha hb rest (32 * ((prE a ++ op.tok :: prE b ++ .nl :: rest).length + 3)) (by
        simp only [List.length_append, List.length_cons]; omega)
      simpa [pExpr, List.append_assoc] using this
    · exact hstd (by simp [wCond, hop])
  | _ => exact hstd rfl

mutual
/-- the statement reader inverts the statement printer, for every statement form and any nesting depth -/
theorem rp_stmtW : ∀ (s : Stmt), FragS env s → ∀ (rest : List Tok) (F : Nat), fuelS s ≤ F →
    pStmt env F (prSW s ++ rest) = some (s, rest)
  | .set lv v, h, rest, F, hF => by
    obtain ⟨hlv, hv⟩ : LvOk env lv ∧ Frag env v := h
    obtain ⟨f, rfl⟩ : ∃ f, F = f + 1 := ⟨F - 1, by simp [fuelS] at hF; omega⟩
    have h1 := rp_lvalue env lv hlv (.p .eq :: (prE v ++ .nl :: rest)) (by simp [NoLp])
      (32 * ((prE lv ++ .p .eq :: (prE v ++ .nl :: rest)).length + 2))
      (lv_fuel env lv hlv _ (by simp only [List.length_append, List.length_cons]; omega))
    have h2 := rp_expr_nl env v hv rest (32 * ((prE lv ++ .p .eq :: (prE v ++ .nl :: rest)).length + 2))
      (fuel_le env v hv _ (by simp only [List.length_append, List.length_cons]; omega))
    have := pStmt_set env f _ _ rest lv v h1 h2
    simpa [prSW] using this
  | .put md v lv, h, rest, F, hF => by
    obtain ⟨hv, hlv, hmd⟩ : Frag env v ∧ LvOk env lv ∧ (md = .into → lvKind lv = true) := h
    obtain ⟨f, rfl⟩ : ∃ f, F = f + 1 := ⟨F - 1, by simp [fuelS] at hF; omega⟩
    have hX : eos (prE v ++ kw md.tag :: (prE lv ++ .nl :: rest)) = none := eos_of_exprHead (prE v) _ (prE_exprHead env v hv)
    have hw : WordTok (kw md.tag) := by cases md <;> exact wordTok_kw _ (by decide)
    have h1 := rp_expr_word env v hv (kw md.tag) hw (prE lv ++ .nl :: rest)
      (32 * ((prE v ++ kw md.tag :: (prE lv ++ .nl :: rest)).length + 2))
      (fuel_le env v hv _ (by simp only [List.length_append, List.length_cons]; omega))
    have h2 := rp_lvalue env lv hlv (.nl :: rest) (by simp [NoLp])
      (32 * ((prE v ++ kw md.tag :: (prE lv ++ .nl :: rest)).length + 2))
      (lv_fuel env lv hlv _ (by simp only [List.length_append, List.length_cons]; omega))
    have := pStmt_put env f md _ _ rest lv v hX h1 h2 hmd
    simpa [prSW] using this
  | .delete t, h, rest, F, hF => by
    have hlv : LvOk env t := h
    obtain ⟨f, rfl⟩ : ∃ f, F = f + 1 := ⟨F - 1, by simp [fuelS] at hF; omega⟩
    have h1 := rp_lvalue env t hlv (.nl :: rest) (by simp [NoLp]) (32 * ((prE t ++ .nl :: rest).length + 2))
      (lv_fuel env t hlv _ (by simp only [List.length_append, List.length_cons]; omega))
    have := pStmt_delete env f _ rest t h1
    simpa [prSW] using this
  | .hilite t, h, rest, F, hF => by
    have hlv : LvOk env t := h
    obtain ⟨f, rfl⟩ : ∃ f, F = f + 1 := ⟨F - 1, by simp [fuelS] at hF; omega⟩
    have h1 := rp_lvalue env t hlv (.nl :: rest) (by simp [NoLp]) (32 * ((prE t ++ .nl :: rest).length + 2))
      (lv_fuel env t hlv _ (by simp only [List.length_append, List.length_cons]; omega))
    have := pStmt_hilite env f _ rest t h1
    simpa [prSW] using this
  | .exit, _, rest, F, hF => by
    obtain ⟨f, rfl⟩ : ∃ f, F = f + 1 := ⟨F - 1, by simp [fuelS] at hF; omega⟩
    simpa [prSW] using pStmt_exit env f rest
  | .exitRepeat, _, rest, F, hF => by
    obtain ⟨f, rfl⟩ : ∃ f, F = f + 1 := ⟨F - 1, by simp [fuelS] at hF; omega⟩
    simpa [prSW] using pStmt_exitRepeat env f rest
  | .mcall o m as, h, rest, F, hF => by
    obtain ⟨⟨s, hs, hc, hsd, hv, hr⟩, has⟩ : RecvStmtOk env o ∧ FragL env as := h
    obtain ⟨f, rfl⟩ : ∃ f, F = f + 1 := ⟨F - 1, by simp [fuelS] at hF; omega⟩
    cases as with
    | nil =>
      have := pStmt_mcall0 env f s m rest hc hsd hv
      rw [hr] at this
      simpa [prSW, hs, prTail] using this
    | cons e es =>
      obtain ⟨he, hes⟩ : Frag env e ∧ FragL env es := has
      have h1 := rp_args_c env e es he hes .nl (by simp [Closer]) (by simp) rest
        (32 * ((prE e ++ (prTail es ++ .nl :: rest)).length + 4))
        (by have := fuelArgs_le env e es he hes (prE e ++ (prTail es ++ .nl :: rest)).length
              (by simp only [List.length_append, List.length_cons]; omega)
            omega)
      have := pStmt_mcall env f s m _ rest (e :: es) hc hsd hv h1
      rw [hr] at this
      simpa [prSW, hs, prTail] using this
  | .call fn as, h, rest, F, hF => by
    obtain ⟨hc, has⟩ : CallOk env fn as ∧ FragL env as := h
    obtain ⟨f, rfl⟩ : ∃ f, F = f + 1 := ⟨F - 1, by simp [fuelS] at hF; omega⟩
    rcases hc with hc | ⟨hc, m, as', has'⟩ | ⟨hc, hv, w, has', hw⟩ | ⟨hc, hsd, hgo, hv⟩
    · -- put
      subst hc
      cases as with
      | nil => simpa [prSW, prCallStmt, prArgs, kw] using pStmt_put0 env f rest
      | cons e es =>
        obtain ⟨he, hes⟩ : Frag env e ∧ FragL env es := has
        have hX : eos (prE e ++ (prTail es ++ .nl :: rest)) = none := eos_of_exprHead (prE e) _ (prE_exprHead env e he)
        have hfe := fuel_le env e he (prE e ++ (prTail es ++ .nl :: rest)).length (by simp only [List.length_append]; omega)
        have h2 := rp_more_c env es hes .nl (by simp [Closer]) (by simp) rest (32 * ((prE e ++ (prTail es ++ .nl :: rest)).length + 2))
          (by have := fuelL_le env es hes (prE e ++ (prTail es ++ .nl :: rest)).length
                (by simp only [List.length_append]; omega)
              omega)
        cases es with
        | nil =>
          have h1 := rp_expr_nl env e he rest (32 * ((prE e ++ (prTail [] ++ .nl :: rest)).length + 2)) hfe
          have := pStmt_putCall env f _ _ rest .nl e [] hX (by simpa [prTail] using h1) (by simp [kw_nl]) (by simpa [prTail] using h2)
          simpa [prSW, prCallStmt, prArgs, prTail, kw] using this
        | cons e2 es2 =>
          have h1 := rp_expr_closer env e he (.p .comma) (by simp [Closer]) (prE e2 ++ (prTail es2 ++ .nl :: rest))
            (32 * ((prE e ++ (prTail (e2 :: es2) ++ .nl :: rest)).length + 2)) hfe
          have := pStmt_putCall env f _ _ rest (.p .comma) e (e2 :: es2) hX (by simpa [prTail] using h1) (by simp [kw_p])
            (by simpa [prTail] using h2)
          simpa [prSW, prCallStmt, prArgs_cons, prTail, kw] using this
    · -- sound
      subst hc; subst has'
      obtain ⟨_, has2⟩ : Frag env (.sym m) ∧ FragL env as' := has
      cases as' with
      | nil => simpa [prSW, prCallStmt, prArgs, kw] using pStmt_sound0 env f m rest
      | cons e es =>
        obtain ⟨he, hes⟩ : Frag env e ∧ FragL env es := has2
        have hX : eos (prE e ++ (prTail es ++ .nl :: rest)) = none := eos_of_exprHead (prE e) _ (prE_exprHead env e he)
        have h1 := rp_args_c env e es he hes .nl (by simp [Closer]) (by simp) rest
          (32 * ((prE e ++ (prTail es ++ .nl :: rest)).length + 3))
          (by have := fuelArgs_le env e es he hes (prE e ++ (prTail es ++ .nl :: rest)).length
                (by simp only [List.length_append, List.length_cons]; omega)
              omega)
        have := pStmt_sound env f m _ rest (e :: es) hX h1
        simpa [prSW, prCallStmt, prArgs_cons, kw] using this
    · -- go loop / next / previous
      subst hc; subst has'
      have := pStmt_go env f w rest hw hv
      simpa [prSW, prCallStmt, hw, kw] using this
    · -- any other command
      have hne1 : fn ≠ ['s','o','u','n','d'] := ne_of_kw_false fn "sound" hsd (by decide)
      have hne2 : fn ≠ ['g','o'] := ne_of_kw_false fn "go" hgo (by decide)
      have hpr : prCallStmt fn as = .id fn :: prArgs as := by simp [prCallStmt, hne1, hne2]
      cases as with
      | nil => simpa [prSW, hpr, prArgs] using pStmt_call0 env f fn rest hc hsd hv
      | cons e es =>
        obtain ⟨he, hes⟩ : Frag env e ∧ FragL env es := has
        have hhead := prE_exprHead env e he
        cases hpe : prE e with
        | nil => simp [hpe, headIs] at hhead
        | cons t X =>
          rw [hpe] at hhead
          by_cases hlp : t = .p .lp
          · -- `f (a op b) …`
            subst hlp
            obtain ⟨op, a, b, rfl, hop⟩ := lp_head_is_bin env e he X hpe
            obtain ⟨ha, hb⟩ : Frag env a ∧ Frag env b := he
            have hX : X = prE a ++ op.tok :: (prE b ++ [.p .rp]) := by
              simp [prE, hop] at hpe; exact hpe.symm
            have hha := prE_head env a ha
            cases hpa : prE a with
            | nil => simp [hpa, HeadNotRp] at hha
            | cons ta A =>
              rw [hpa] at hha
              have hfa := fuel_bound env a ha
              have hfb := fuel_bound env b hb
              have hfes := fuelL_bound env es hes
              rw [hpa] at hfa
              have h1 := rp_args_inner env op hop a b ha hb (prTail es ++ .nl :: rest)
                (32 * ((A ++ op.tok :: (prE b ++ .p .rp :: (prTail es ++ .nl :: rest))).length + 4))
                (by simp only [List.length_append, List.length_cons] at hfa ⊢; omega)
              rw [hpa] at h1
              have hfull := rp_args_c env (.bin op a b) es ⟨ha, hb⟩ hes .nl (by simp [Closer]) (by simp) rest
                (32 * ((A ++ op.tok :: (prE b ++ .p .rp :: (prTail es ++ .nl :: rest))).length + 4))
                (by simp only [List.length_append, List.length_cons, fuelOf] at hfa ⊢; omega)
              have h2 : (prTail es ++ .nl :: rest = .nl :: rest ∧ (.bin op a b :: es) = [.bin op a b]) ∨
                  (eos (prTail es ++ .nl :: rest) = none ∧
                    pArgs env (32 * ((A ++ op.tok :: (prE b ++ .p .rp :: (prTail es ++ .nl :: rest))).length + 4))
                      (.p .lp :: ta :: (A ++ op.tok :: (prE b ++ .p .rp :: (prTail es ++ .nl :: rest)))) = some (.bin op a b :: es, .nl :: rest)) := by
                cases es with
                | nil => exact Or.inl ⟨by simp [prTail], rfl⟩
                | cons e2 es2 =>
                  refine Or.inr ⟨by simp [prTail, eos], ?_⟩
                  simpa [prE, hop, hpa] using hfull
              have := pStmt_call_paren env f fn ta _ _ rest (.bin op a b) (.bin op a b :: es) hc hsd hv hha.1
                (by simpa using h1) h2
              simpa [prSW, hpr, prArgs_cons, prE, hop, hpa] using this
          · have h1 := rp_args_c env e es he hes .nl (by simp [Closer]) (by simp) rest
              (32 * ((X ++ (prTail es ++ .nl :: rest)).length + 3))
              (by have := fuelArgs_le env e es he hes ((X ++ (prTail es ++ .nl :: rest)).length + 1)
                    (by rw [hpe]; simp only [List.length_append, List.length_cons]; omega)
                  omega)
            rw [hpe] at h1
            have htn : t ≠ .nl := by intro hh; subst hh; simp [headIs, exprHead] at hhead
            have := pStmt_call env f fn t (X ++ (prTail es ++ .nl :: rest)) rest (e :: es) hc hsd hv htn hlp (Or.inl hgo)
              (by simpa using h1)
            simpa [prSW, hpr, prArgs_cons, hpe] using this
  | .tell o b, h, rest, F, hF => by
    obtain ⟨ho, hb⟩ : Frag env o ∧ FragSs env b := h
    obtain ⟨f, rfl⟩ : ∃ f, F = f + 1 := ⟨F - 1, by simp [fuelS] at hF; omega⟩
    have h1 := rp_expr_nl env o ho (prSsW b ++ kw "end" :: kw "tell" :: .nl :: rest)
      (32 * ((prE o ++ .nl :: (prSsW b ++ kw "end" :: kw "tell" :: .nl :: rest)).length + 2))
      (fuel_le env o ho _ (by simp only [List.length_append, List.length_cons]; omega))
    have h2 := rp_stmtsW b hb (kw "end" :: kw "tell" :: .nl :: rest) (by simp [Stop, headIs, kw]) f (by simp [fuelS] at hF; omega)
    have := pStmt_tell env f _ _ rest o b h1 h2
    simpa [prSW] using this
  | .ifThen c t e, h, rest, F, hF => by
    obtain ⟨hc, ht, he⟩ : Frag env c ∧ FragSs env t ∧ FragSs env e := h
    obtain ⟨f, rfl⟩ : ∃ f, F = f + 1 := ⟨F - 1, by simp [fuelS] at hF; omega⟩
    have hw : WordTok (kw "then") := wordTok_kw _ (by decide)
    cases e with
    | nil =>
      have h1 := rp_expr_word env c hc (kw "then") hw (.nl :: (prSsW t ++ kw "end" :: kw "if" :: .nl :: rest))
        (32 * ((prE c ++ kw "then" :: .nl :: (prSsW t ++ kw "end" :: kw "if" :: .nl :: rest)).length + 2))
        (fuel_le env c hc _ (by simp only [List.length_append, List.length_cons]; omega))
      have h2 := rp_stmtsW t ht (kw "end" :: kw "if" :: .nl :: rest) (by simp [Stop, headIs, kw]) f (by simp [fuelS] at hF; omega)
      have := pStmt_if env f _ _ rest c t h1 h2
      simpa [prSW] using this
    | cons e1 es =>
      have h1 := rp_expr_word env c hc (kw "then") hw
        (.nl :: (prSsW t ++ kw "else" :: .nl :: (prSsW (e1 :: es) ++ kw "end" :: kw "if" :: .nl :: rest)))
        (32 * ((prE c ++ kw "then" :: .nl :: (prSsW t ++ kw "else" :: .nl :: (prSsW (e1 :: es) ++ kw "end" :: kw "if" :: .nl :: rest))).length + 2))
        (fuel_le env c hc _ (by simp only [List.length_append, List.length_cons]; omega))
      have h2 := rp_stmtsW t ht (kw "else" :: .nl :: (prSsW (e1 :: es) ++ kw "end" :: kw "if" :: .nl :: rest))
        (by simp [Stop, headIs, kw]) f (by simp [fuelS] at hF; omega)
      have h3 := skipNl_of_head _ (prSsW_head env (e1 :: es) he (kw "end" :: kw "if" :: .nl :: rest) (by simp [Stop, headIs, kw]))
      have h4 := rp_stmtsW (e1 :: es) he (kw "end" :: kw "if" :: .nl :: rest) (by simp [Stop, headIs, kw]) f (by simp [fuelS] at hF; omega)
      have := pStmt_ifElse env f _ _ _ rest c t (e1 :: es) h1 h2 h3 h4
      simpa [prSW] using this
  | .repeatWhile c b, h, rest, F, hF => by
    obtain ⟨hc, hb⟩ : Frag env c ∧ FragSs env b := h
    obtain ⟨f, rfl⟩ : ∃ f, F = f + 1 := ⟨F - 1, by simp [fuelS] at hF; omega⟩
    have h1 := rp_cond_nl env c hc (prSsW b ++ kw "end" :: kw "repeat" :: .nl :: rest)
    have h2 := rp_stmtsW b hb (kw "end" :: kw "repeat" :: .nl :: rest) (by simp [Stop, headIs, kw]) f (by simp [fuelS] at hF; omega)
    have := pStmt_while env f _ _ rest c b h1 h2
    simpa [prSW] using this
  | .repeatWith v a b down body, h, rest, F, hF => by
    obtain ⟨⟨s, hs, hr⟩, ha, hb, hbody⟩ : VarOk env v ∧ Frag env a ∧ Frag env b ∧ FragSs env body := h
    obtain ⟨f, rfl⟩ : ∃ f, F = f + 1 := ⟨F - 1, by simp [fuelS] at hF; omega⟩
    have h3 := rp_stmtsW body hbody (kw "end" :: kw "repeat" :: .nl :: rest) (by simp [Stop, headIs, kw]) f (by simp [fuelS] at hF; omega)
    cases down with
    | false =>
      have hw : WordTok (kw "to") := wordTok_kw _ (by decide)
      have h1 := rp_expr_word env a ha (kw "to") hw (prE b ++ .nl :: (prSsW body ++ kw "end" :: kw "repeat" :: .nl :: rest))
        (32 * ((prE a ++ kw "to" :: (prE b ++ .nl :: (prSsW body ++ kw "end" :: kw "repeat" :: .nl :: rest))).length + 5))
        (by have := fuel_le env a ha (prE a ++ kw "to" :: (prE b ++ .nl :: (prSsW body ++ kw "end" :: kw "repeat" :: .nl :: rest))).length
              (by simp only [List.length_append, List.length_cons]; omega)
            omega)
      have h2 := rp_expr_nl env b hb (prSsW body ++ kw "end" :: kw "repeat" :: .nl :: rest)
        (32 * ((prE a ++ kw "to" :: (prE b ++ .nl :: (prSsW body ++ kw "end" :: kw "repeat" :: .nl :: rest))).length + 5))
        (by have := fuel_le env b hb (prE a ++ kw "to" :: (prE b ++ .nl :: (prSsW body ++ kw "end" :: kw "repeat" :: .nl :: rest))).length
              (by simp only [List.length_append, List.length_cons]; omega)
            omega)
      have := pStmt_withUp env f s _ _ _ rest a b body h1 h2 h3
      rw [hr] at this
      simpa [prSW, hs] using this
    | true =>
      have hw : WordTok (kw "down") := wordTok_kw _ (by decide)
      have h1 := rp_expr_word env a ha (kw "down") hw (kw "to" :: (prE b ++ .nl :: (prSsW body ++ kw "end" :: kw "repeat" :: .nl :: rest)))
        (32 * ((prE a ++ kw "down" :: kw "to" :: (prE b ++ .nl :: (prSsW body ++ kw "end" :: kw "repeat" :: .nl :: rest))).length + 5))
        (by have := fuel_le env a ha (prE a ++ kw "down" :: kw "to" :: (prE b ++ .nl :: (prSsW body ++ kw "end" :: kw "repeat" :: .nl :: rest))).length
              (by simp only [List.length_append, List.length_cons]; omega)
            omega)
      have h2 := rp_expr_nl env b hb (prSsW body ++ kw "end" :: kw "repeat" :: .nl :: rest)
        (32 * ((prE a ++ kw "down" :: kw "to" :: (prE b ++ .nl :: (prSsW body ++ kw "end" :: kw "repeat" :: .nl :: rest))).length + 5))
        (by have := fuel_le env b hb (prE a ++ kw "down" :: kw "to" :: (prE b ++ .nl :: (prSsW body ++ kw "end" :: kw "repeat" :: .nl :: rest))).length
              (by simp only [List.length_append, List.length_cons]; omega)
            omega)
      have := pStmt_withDown env f s _ _ _ rest a b body h1 h2 h3
      rw [hr] at this
      simpa [prSW, hs] using this
  | .repeatIn v l body, h, rest, F, hF => by
    obtain ⟨⟨s, hs, hr⟩, hl, hbody⟩ : VarOk env v ∧ Frag env l ∧ FragSs env body := h
    obtain ⟨f, rfl⟩ : ∃ f, F = f + 1 := ⟨F - 1, by simp [fuelS] at hF; omega⟩
    have h2 := rp_stmtsW body hbody (kw "end" :: kw "repeat" :: .nl :: rest) (by simp [Stop, headIs, kw]) f (by simp [fuelS] at hF; omega)
    have h1 := rp_expr_nl env l hl (prSsW body ++ kw "end" :: kw "repeat" :: .nl :: rest)
      (32 * ((prE l ++ .nl :: (prSsW body ++ kw "end" :: kw "repeat" :: .nl :: rest)).length + 5))
      (by have := fuel_le env l hl (prE l ++ .nl :: (prSsW body ++ kw "end" :: kw "repeat" :: .nl :: rest)).length
            (by simp only [List.length_append, List.length_cons]; omega)
          omega)
    have := pStmt_in env f s _ _ rest l body h1 h2
    rw [hr] at this
    simpa [prSW, hs] using this
/-- … and so does the statement-list reader, up to the `end` / `else` that closes the list -/
theorem rp_stmtsW : ∀ (ss : List Stmt), FragSs env ss → ∀ (rest : List Tok), Stop rest → ∀ (F : Nat), fuelSs ss ≤ F →
    pStmts env F (prSsW ss ++ rest) = some (ss, rest)
  | [], _, rest, hr, F, hF => by
    obtain ⟨f, rfl⟩ : ∃ f, F = f + 1 := ⟨F - 1, by simp [fuelSs] at hF; omega⟩
    cases rest with
    | nil => simp [Stop, headIs] at hr
    | cons t r => simpa [prSsW] using pStmts_stop env f t r (by simpa [Stop, headIs] using hr)
  | s :: ss, h, rest, hr, F, hF => by
    obtain ⟨hs, hss⟩ : FragS env s ∧ FragSs env ss := h
    obtain ⟨f, rfl⟩ : ∃ f, F = f + 1 := ⟨F - 1, by simp [fuelSs] at hF; omega⟩
    have hhead := prSW_stmtHead env s hs
    have h1 := rp_stmtW s hs (prSsW ss ++ rest) f (by simp [fuelSs] at hF; omega)
    have h2 := rp_stmtsW ss hss rest hr f (by simp [fuelSs] at hF; omega)
    cases hp : prSW s with
    | nil => simp [hp, headIs] at hhead
    | cons t X =>
      rw [hp] at h1 hhead
      have := pStmts_cons env f t (X ++ (prSsW ss ++ rest)) _ rest s ss (by simpa [headIs] using hhead) (by simpa using h1) h2
      simpa [prSsW, hp] using this
end

/-! ### handler and script level (as in DrxProofs/SpecScript.lean, for `prSW`) -/

theorem wCond_noNl (c : Expr) : noNl (wCond c) = true := by
  cases c with
  | bin op a b =>
    by_cases hop : op.isInfix = true
    · simp [wCond, hop, noNl_append, noNl_cons, prE_noNl, optok_ne_nl]
    · simp [wCond, hop, prE_noNl]
  | _ => simp [wCond, prE_noNl]

theorem rp_handlerW (se : ScriptEnv) (m : Bool) (name : Name) (params : List Name) (pre : List Tok) (n : Nat) (hpre : Skip pre n)
    (body : List Stmt) (rest : List Tok)
    (hfrag : FragSs (handlerEnv se m params (pre ++ (prSsW body ++ kw "end" :: .nl :: rest))) body)
    (F : Nat) (hF : fuelSs body + n ≤ F) :
    pHandler se F (handlerKw m :: .id name :: (prNames params ++ .nl :: (pre ++ (prSsW body ++ kw "end" :: .nl :: rest))))
      = some ({ name, params, isMethod := m, body }, rest) := by
  obtain ⟨F', rfl⟩ : ∃ F', F = F' + n := ⟨F - n, by omega⟩
  have hs := rp_stmtsW (handlerEnv se m params (pre ++ (prSsW body ++ kw "end" :: .nl :: rest))) body hfrag (kw "end" :: .nl :: rest)
    (by simp only [Stop, headIs, kw]; decide) F' (by omega)
  have hk := pStmts_skip (handlerEnv se m params (pre ++ (prSsW body ++ kw "end" :: .nl :: rest))) hpre F' (prSsW body ++ kw "end" :: .nl :: rest)
  rw [hs] at hk
  have hn := pNames_print params (pre ++ (prSsW body ++ kw "end" :: .nl :: rest))
  have e1 : (Tok.id "end".toList).kw "end" = true := by decide
  cases m with
  | false =>
    have k1 : isHandlerStart (Tok.id "on".toList) = true := by decide
    have k2 : (Tok.id "on".toList).kw "method" = false := by decide
    simp only [handlerEnv] at hk
    simp only [handlerKw, kw, Bool.false_eq_true, if_false] at hk hn ⊢
    simp only [pHandler, k1, if_true, hn, k2]
    simp only [hk]
    have e2 : (Tok.id ['e','n','d']).kw "end" = true := by decide
    simp [e2, eos]
  | true =>
    have k1 : isHandlerStart (Tok.id "method".toList) = true := by decide
    have k2 : (Tok.id "method".toList).kw "method" = true := by decide
    simp only [handlerEnv] at hk
    simp only [handlerKw, kw, if_true] at hk hn ⊢
    simp only [pHandler, k1, if_true, hn, k2]
    simp only [hk]
    have e2 : (Tok.id ['e','n','d']).kw "end" = true := by decide
    simp [e2, eos]

mutual
theorem prSW_lines : ∀ (s : Stmt), headOk s = true → Lines lineHead (prSW s)
  | .set lv v, _ => by
    have := lines_one (P := lineHead) (kw "set") (prE lv ++ .p .eq :: prE v) (by decide) (by simp [kw])
      (by simp [noNl_append, noNl_cons, prE_noNl])
    simpa [prSW] using this
  | .put md v lv, _ => by
    have := lines_one (P := lineHead) (kw "put") (prE v ++ kw md.tag :: prE lv) (by decide) (by simp [kw])
      (by simp [noNl_append, noNl_cons, prE_noNl, kw])
    simpa [prSW] using this
  | .delete t, _ => by
    have := lines_one (P := lineHead) (kw "delete") (prE t) (by decide) (by simp [kw]) (prE_noNl t)
    simpa [prSW] using this
  | .hilite t, _ => by
    have := lines_one (P := lineHead) (kw "hilite") (prE t) (by decide) (by simp [kw]) (prE_noNl t)
    simpa [prSW] using this
  | .exit, _ => by
    have := lines_one (P := lineHead) (kw "exit") [] (by decide) (by simp [kw]) rfl
    simpa [prSW] using this
  | .exitRepeat, _ => by
    have := lines_one (P := lineHead) (kw "exit") [kw "repeat"] (by decide) (by simp [kw]) (by simp [noNl, kw])
    simpa [prSW] using this
  | .call f as, h => by
    obtain ⟨X, hX, hn⟩ := prCallStmt_shape f as
    have hf : lineHead (.id f) = true := by
      simp only [headOk, Bool.or_eq_true, beq_iff_eq] at h
      rcases h with ((hc | hc) | hc) | hc
      · subst hc; decide
      · subst hc; decide
      · subst hc; decide
      · exact lineHead_of_cmdName f hc
    have := lines_one (P := lineHead) (.id f) X hf (by simp) hn
    simpa [prSW, hX] using this
  | .mcall o m as, h => by
    simp only [headOk] at h
    split at h
    · rename_i s hs
      have := lines_one (P := lineHead) (.id s) (.id m :: prTail as) (lineHead_of_cmdName s h) (by simp)
        (by simp [noNl_cons, prTail_noNl])
      simpa [prSW, hs] using this
    · cases h
  | .tell o b, h => by
    have hb : headsOk b = true := by simpa [headOk] using h
    have h1 := lines_one (P := lineHead) (kw "tell") (prE o) (by decide) (by simp [kw]) (prE_noNl o)
    have h2 := prSsW_lines b hb
    have h3 := lines_one (P := lineHead) (kw "end") [kw "tell"] (by decide) (by simp [kw]) (by simp [noNl, kw])
    have := lines_append h1 (lines_append h2 h3)
    simpa [prSW] using this
  | .ifThen c t e, h => by
    obtain ⟨ht, he⟩ : headsOk t = true ∧ headsOk e = true := by simpa [headOk] using h
    have h1 := lines_one (P := lineHead) (kw "if") (prE c ++ [kw "then"]) (by decide) (by simp [kw])
      (by simp [noNl_append, noNl_cons, prE_noNl, kw, noNl_nil])
    have h2 := prSsW_lines t ht
    have h4 := lines_one (P := lineHead) (kw "end") [kw "if"] (by decide) (by simp [kw]) (by simp [noNl, kw])
    cases e with
    | nil =>
      have := lines_append h1 (lines_append h2 h4)
      simpa [prSW] using this
    | cons e1 es =>
      have h3 := lines_one (P := lineHead) (kw "else") [] (by decide) (by simp [kw]) rfl
      have h5 := prSsW_lines (e1 :: es) he
      have := lines_append h1 (lines_append h2 (lines_append h3 (lines_append h5 h4)))
      simpa [prSW] using this
  | .repeatWhile c b, h => by
    have hb : headsOk b = true := by simpa [headOk] using h
    have h1 := lines_one (P := lineHead) (kw "repeat") (kw "while" :: wCond c) (by decide) (by simp [kw])
      (by simp [noNl_cons, wCond_noNl, kw])
    have h2 := prSsW_lines b hb
    have h3 := lines_one (P := lineHead) (kw "end") [kw "repeat"] (by decide) (by simp [kw]) (by simp [noNl, kw])
    have := lines_append h1 (lines_append h2 h3)
    simpa [prSW] using this
  | .repeatWith v a b down body, h => by
    have hb : headsOk body = true := by simpa [headOk] using h
    have h1 := lines_one (P := lineHead) (kw "repeat")
      (kw "with" :: (prE v ++ .p .eq :: (prE a ++ ((if down then [kw "down", kw "to"] else [kw "to"]) ++ prE b)))) (by decide) (by simp [kw])
      (by cases down <;> simp [noNl_cons, noNl_append, prE_noNl, kw])
    have h2 := prSsW_lines body hb
    have h3 := lines_one (P := lineHead) (kw "end") [kw "repeat"] (by decide) (by simp [kw]) (by simp [noNl, kw])
    have := lines_append h1 (lines_append h2 h3)
    simpa [prSW] using this
  | .repeatIn v l body, h => by
    have hb : headsOk body = true := by simpa [headOk] using h
    have h1 := lines_one (P := lineHead) (kw "repeat") (kw "with" :: (prE v ++ kw "in" :: prE l)) (by decide) (by simp [kw])
      (by simp [noNl_cons, noNl_append, prE_noNl, kw])
    have h2 := prSsW_lines body hb
    have h3 := lines_one (P := lineHead) (kw "end") [kw "repeat"] (by decide) (by simp [kw]) (by simp [noNl, kw])
    have := lines_append h1 (lines_append h2 h3)
    simpa [prSW] using this
theorem prSsW_lines : ∀ (ss : List Stmt), headsOk ss = true → Lines lineHead (prSsW ss)
  | [], _ => by simpa [prSsW] using (Lines.nil (P := lineHead))
  | s :: ss, h => by
    obtain ⟨hs, hss⟩ : headOk s = true ∧ headsOk ss = true := by simpa [headsOk] using h
    have := lines_append (prSW_lines s hs) (prSsW_lines ss hss)
    simpa [prSsW] using this
end

mutual
theorem fuelSW_bound : ∀ (s : Stmt), fuelS s + 1 ≤ 2 * (prSW s).length
  | .set _ _ => by simp [fuelS, prSW]; omega
  | .put _ _ _ => by simp [fuelS, prSW]; omega
  | .delete _ => by simp [fuelS, prSW]; omega
  | .hilite _ => by simp [fuelS, prSW]; omega
  | .exit => by simp [fuelS, prSW]
  | .exitRepeat => by simp [fuelS, prSW]
  | .call f as => by have := prCallStmt_len f as; simp [fuelS, prSW]; omega
  | .mcall _ _ _ => by simp [fuelS, prSW]; omega
  | .tell _ b => by have := fuelSsW_bound b; simp [fuelS, prSW]; omega
  | .ifThen _ t e => by
    have := fuelSsW_bound t
    have := fuelSsW_bound e
    cases e with
    | nil => simp [fuelS, fuelSs, prSW, prSsW] at *; omega
    | cons e1 es => simp [fuelS, prSW] at *; omega
  | .repeatWhile _ b => by have := fuelSsW_bound b; simp [fuelS, prSW]; omega
  | .repeatWith _ _ _ d b => by have := fuelSsW_bound b; cases d <;> simp [fuelS, prSW] <;> omega
  | .repeatIn _ _ b => by have := fuelSsW_bound b; simp [fuelS, prSW]; omega
theorem fuelSsW_bound : ∀ (ss : List Stmt), fuelSs ss ≤ 2 * (prSsW ss).length + 1
  | [] => by simp [fuelSs]
  | s :: ss => by
    have := fuelSW_bound s
    have := fuelSsW_bound ss
    simp [fuelSs, prSsW]; omega
end

def prHandlerLW (L : Layout) (s : Script) (h : Handler) : List Tok :=
  handlerKw h.isMethod :: .id h.name :: (prNames h.params ++ .nl :: (prPre L s h ++ (prSsW h.body ++ [kw "end", .nl])))

def prHandlersLW (L : Layout) (s : Script) : List Handler → List Tok
  | [] => []
  | [h] => prHandlerLW L s h
  | h :: h2 :: hs => prHandlerLW L s h ++ (nls L.betweenHandlers ++ prHandlersLW L s (h2 :: hs))

def printLingoLW (L : Layout) (s : Script) : List Tok := prHeaderL L s ++ prHandlersLW L s s.handlers

def afterHandlerW (L : Layout) (s : Script) : List Handler → List Tok
  | [] => []
  | h2 :: hs => nls L.betweenHandlers ++ prHandlersLW L s (h2 :: hs)

theorem prHandlersLW_cons (L : Layout) (s : Script) (h : Handler) (hs : List Handler) :
    prHandlersLW L s (h :: hs) = prHandlerLW L s h ++ afterHandlerW L s hs := by
  cases hs <;> simp [prHandlersLW, afterHandlerW]

def HandlersOkW (se : ScriptEnv) (L : Layout) (s : Script) : List Handler → Prop
  | [] => True
  | h :: hs =>
    FragSs (handlerEnv se h.isMethod h.params (prPre L s h ++ (prSsW h.body ++ kw "end" :: .nl :: afterHandlerW L s hs))) h.body
      ∧ HandlersOkW se L s hs

theorem rp_handlersW (se : ScriptEnv) (L : Layout) (s : Script) : ∀ (hs : List Handler), HandlersOkW se L s hs →
    ∀ (F : Nat), 2 * (prHandlersLW L s hs).length + hs.length + 2 ≤ F → pHandlers se F (prHandlersLW L s hs) = some hs
  | [], _, F, hF => by
    obtain ⟨f, rfl⟩ : ∃ f, F = f + 1 := ⟨F - 1, by omega⟩
    simp [prHandlersLW, pHandlers, skipNl]
  | h :: hs, hok, F, hF => by
    obtain ⟨hfr, hrest⟩ := hok
    obtain ⟨f, rfl⟩ : ∃ f, F = f + 1 := ⟨F - 1, by omega⟩
    obtain ⟨n, hskip, hn⟩ := skip_prPre L s h
    rw [prHandlersLW_cons] at hF ⊢
    have hlen : (prHandlerLW L s h).length ≥ (prPre L s h).length + (prSsW h.body).length + 4 := by
      simp [prHandlerLW]; omega
    have hfb := fuelSsW_bound h.body
    have hH := rp_handlerW se h.isMethod h.name h.params (prPre L s h) n hskip h.body (afterHandlerW L s hs) hfr f
      (by simp only [List.length_append] at hF; omega)
    have hH' : pHandler se f (prHandlerLW L s h ++ afterHandlerW L s hs) = some (h, afterHandlerW L s hs) := by
      have : prHandlerLW L s h ++ afterHandlerW L s hs
          = handlerKw h.isMethod :: .id h.name :: (prNames h.params ++ .nl :: (prPre L s h ++ (prSsW h.body ++ kw "end" :: .nl :: afterHandlerW L s hs))) := by
        simp [prHandlerLW]
      rw [this, hH]
    have hsk : skipNl (prHandlerLW L s h ++ afterHandlerW L s hs) = prHandlerLW L s h ++ afterHandlerW L s hs := by
      simp only [prHandlerLW, List.cons_append]; exact skipNl_handlerKw _ _
    have hnext : pHandlers se f (afterHandlerW L s hs) = some hs := by
      cases hs with
      | nil =>
        obtain ⟨f', rfl⟩ : ∃ f', f = f' + 1 := ⟨f - 1, by simp only [List.length_append] at hF; omega⟩
        simp [afterHandlerW, pHandlers, skipNl]
      | cons h2 hs2 =>
        obtain ⟨f', rfl⟩ : ∃ f', f = f' + 1 := ⟨f - 1, by simp only [List.length_append] at hF; omega⟩
        simp only [afterHandlerW]
        rw [pHandlers_nls]
        exact rp_handlersW se L s (h2 :: hs2) hrest (f' + 1) (by
          simp only [afterHandlerW, List.length_append, List.length_cons] at hF ⊢; omega)
    have htx : prHandlerLW L s h ++ afterHandlerW L s hs = handlerKw h.isMethod :: (.id h.name ::
        (prNames h.params ++ .nl :: (prPre L s h ++ (prSsW h.body ++ kw "end" :: .nl :: afterHandlerW L s hs)))) := by
      simp [prHandlerLW]
    generalize handlerKw h.isMethod = t at htx
    generalize (Tok.id h.name :: (prNames h.params ++ .nl :: (prPre L s h ++ (prSsW h.body ++ kw "end" :: .nl :: afterHandlerW L s hs)))) = X at htx
    rw [htx] at hsk hH'
    simp only [pHandlers, htx, hsk, hH', hnext]

def handlerTailW (L : Layout) (s : Script) (h : Handler) : List Tok :=
  globalLines (hGlobals s h) ++ ((if hGlobals s h = [] then [] else nls L.afterHGlobals) ++ (prSsW h.body ++ [kw "end", .nl]))

theorem handlerTailW_lines (L : Layout) (s : Script) (h : Handler) (hb : headsOk h.body = true) (P : Tok → Bool)
    (hg : P (kw "global") = true) (hP : ∀ t, lineHead t = true → P t = true) : Lines P (handlerTailW L s h) := by
  unfold handlerTailW
  refine lines_append (lines_globalLines hg _) (lines_append ?_ (lines_append (lines_mono hP (prSsW_lines h.body hb)) ?_))
  · by_cases hh : hGlobals s h = []
    · rw [if_pos hh]; exact Lines.nil
    · rw [if_neg hh]; exact lines_nls _
  · have := lines_one (P := P) (kw "end") [] (hP _ (by decide)) (by simp [kw]) rfl
    simpa using this

theorem prHandlerLW_shape (L : Layout) (s : Script) (h : Handler) :
    prHandlerLW L s h = handlerKw h.isMethod :: ((.id h.name :: prNames h.params) ++ .nl ::
      ((if h.isMethod ∧ lowerName h.name = "mnew".toList ∧ s.props ≠ [] then kw "instance" :: (prNames s.props ++ .nl :: nls L.afterInstance) else [])
        ++ handlerTailW L s h)) := by
  simp [prHandlerLW, prPre, handlerTailW]

theorem declared_instance_handlerW (L : Layout) (s : Script) (h : Handler) (hb : headsOk h.body = true) (R : List Tok) :
    declared "instance" (.nl :: (prHandlerLW L s h ++ R)) = instDecl s h ++ declared "instance" (.nl :: R) := by
  have hk : ∀ m, (!(handlerKw m).kw "instance") = true := by intro m; cases m <;> decide
  have hline : Lines (fun t => !t.kw "instance") (handlerKw h.isMethod :: ((.id h.name :: prNames h.params) ++ [.nl])) :=
    lines_one _ _ (hk _) (handlerKw_ne_nl _) (by
      simp only [noNl, List.all_cons, List.all_eq_true, bne_iff_ne, ne_eq, Bool.and_eq_true]
      exact ⟨by simp, prNames_no_nl _⟩)
  have htail : Lines (fun t => !t.kw "instance") (handlerTailW L s h) :=
    handlerTailW_lines L s h hb _ (by decide) (lineHead_not_kw "instance" (Or.inl rfl))
  rw [prHandlerLW_shape]
  have e1 := declared_lines "instance" hline
  unfold instDecl
  by_cases hi : h.isMethod = true ∧ lowerName h.name = "mnew".toList ∧ s.props ≠ []
  · rw [if_pos hi, if_pos hi]
    have e0 := e1 (kw "instance" :: (prNames s.props ++ .nl :: (nls L.afterInstance ++ (handlerTailW L s h ++ R))))
    have e2 := declared_decl "instance" (by decide) s.props (nls L.afterInstance ++ (handlerTailW L s h ++ R))
    have e3 := declared_lines "instance" (lines_append (lines_nls (P := fun t => !t.kw "instance") L.afterInstance) htail) R
    simp only [List.cons_append, List.append_assoc, List.nil_append] at e0 e2 e3 ⊢
    rw [e0, e2, e3]
  · rw [if_neg hi, if_neg hi]
    have e0 := e1 (handlerTailW L s h ++ R)
    have e3 := declared_lines "instance" htail R
    simp only [List.cons_append, List.append_assoc, List.nil_append] at e0 e3 ⊢
    rw [e0, e3]

theorem declared_instance_handlersW (L : Layout) (s : Script) (se : ScriptEnv) : ∀ (hs : List Handler), HandlersOkW se L s hs →
    declared "instance" (.nl :: prHandlersLW L s hs) = hs.flatMap (instDecl s)
  | [], _ => by simp [prHandlersLW, declared]
  | h :: hs, hok => by
    obtain ⟨hfr, hrest⟩ := hok
    rw [prHandlersLW_cons, declared_instance_handlerW L s h (headsOk_of_frag _ h.body hfr)]
    cases hs with
    | nil => simp [afterHandlerW, declared]
    | cons h2 hs2 =>
      have ih := declared_instance_handlersW L s se (h2 :: hs2) hrest
      have e := declared_lines "instance" (lines_nls (P := fun t => !t.kw "instance") L.betweenHandlers) (prHandlersLW L s (h2 :: hs2))
      simp only [afterHandlerW]
      rw [e, ih]
      simp

theorem handlers_length_leW (L : Layout) (s : Script) : ∀ (hs : List Handler), hs.length ≤ (prHandlersLW L s hs).length
  | [] => by simp
  | h :: hs => by
    have := handlers_length_leW L s hs
    rw [prHandlersLW_cons]
    cases hs with
    | nil => simp [prHandlerLW]
    | cons h2 hs2 => simp only [afterHandlerW, List.length_append, List.length_cons, prHandlerLW] at this ⊢; omega

def scriptEnvOfW (L : Layout) (s : Script) : ScriptEnv :=
  { props := s.props, globals := s.globals, handlers := handlerNames (.nl :: prHandlersLW L s s.handlers) }

def ScriptOkW (L : Layout) (s : Script) : Prop :=
  ((if s.props ≠ [] ∧ s.factory = [] then s.props else []) ++ s.handlers.flatMap (instDecl s) = s.props)
    ∧ HandlersOkW (scriptEnvOfW L s) L s s.handlers

theorem startsHandler_handlersW (L : Layout) (s : Script) (hs : List Handler) : StartsHandler (prHandlersLW L s hs) := by
  cases hs with
  | nil => exact Or.inl rfl
  | cons h hs =>
    exact Or.inr ⟨h.isMethod, (Tok.id h.name :: (prNames h.params ++ .nl :: (prPre L s h ++ (prSsW h.body ++ [kw "end", .nl])))) ++ afterHandlerW L s hs,
      by rw [prHandlersLW_cons]; simp [prHandlerLW]⟩

theorem rp_scriptW (L : Layout) (s : Script) (h : ScriptOkW L s) : parseScript (printLingoLW L s) = some s := by
  obtain ⟨hprops, hok⟩ := h
  have hlenH : (prHeaderL L s).length ≥ 3 * s.globals.length := by
    simp only [prHeaderL, List.length_append, globalLines_length]; omega
  have hH := rp_header L s (prHandlersLW L s s.handlers) (startsHandler_handlersW L s s.handlers)
    (4 * (printLingoLW L s).length + 16) (by simp only [printLingoLW, List.length_append]; omega)
  have hD := declared_instance_handlersW L s (scriptEnvOfW L s) s.handlers hok
  have hHs := rp_handlersW (scriptEnvOfW L s) L s s.handlers hok (4 * (printLingoLW L s).length + 16) (by
    have := handlers_length_leW L s s.handlers
    simp only [printLingoLW, List.length_append]; omega)
  unfold parseScript
  simp only [printLingoLW] at hH hHs ⊢
  simp only [hH, hD, hprops]
  simp only [scriptEnvOfW] at hHs
  simp only [hHs]

end Drx.Spec
