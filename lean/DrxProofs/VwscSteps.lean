/-
  C10 support for the score decoder (the coordinator's C10 check uses `drx_score steps`): the counting twin
  `parseVwscSteps` counts the iterations of the model's record loop, that count is at most half the input length, and the
  one allocation is bounded by a constant once the frame size is validated first (F36).
-/
import Drx.Vwsc
import DrxProofs.Py
namespace Drx.Vwsc
open Drx

/-- the record loop runs at most once per two input bytes (every record advances the index by its size word, >= 2) -/
theorem recSteps_records_le (lay : Layout) (d : Bytes) :
    ∀ (m : Nat) (buf : Bytes) (idx : Nat) (prev : Bool) (acc : Steps), d.length - idx = m →
      (recSteps lay d buf idx prev acc).records ≤ acc.records + (d.length - idx + 1) / 2 := by
  intro m
  induction m using Nat.strongRecOn with
  | _ m ih =>
    intro buf idx prev acc hm
    rw [recSteps.eq_def]
    split
    · rename_i hlt
      try simp only
      split
      · (try simp only); omega
      · rename_i size hsz
        split
        · (try simp only); omega
        · split
          · split
            · have := ih (d.length - (idx + 2)) (by omega) buf (idx + 2) true { acc with records := acc.records + 1 } rfl
              (try simp only at this ⊢); omega
            · (try simp only)
              split
              · (try simp only); omega
              · have := ih (d.length - (idx + 2)) (by omega) buf (idx + 2) true
                  { acc with records := acc.records + 1, frames := acc.frames + 1 } rfl
                (try simp only at this ⊢); omega
          · rename_i hge hne
            split
            · (try simp only); omega
            · rename_i s hd
              have hinv := deltaLoop_inv d buf (idx + 2) (size - 2) 0 0 s hd
              try simp only
              split
              · (try simp only); omega
              · have := ih (d.length - ((s.idx : Int) + s.cs).toNat) (by omega) s.buf ((s.idx : Int) + s.cs).toNat true
                  { records := acc.records + 1, deltas := acc.deltas + s.iters, copied := acc.copied + s.copied, frames := acc.frames + 1 } rfl
                (try simp only at this ⊢); omega
    · omega

/-- on success the twin's record count is the number of frames returned: it counts the very loop that builds them -/
theorem recSteps_records_eq (lay : Layout) (d : Bytes) :
    ∀ (m : Nat) (buf : Bytes) (idx : Nat) (prev : Option Frame) (acc : Steps) (frames : List Frame), d.length - idx = m →
      recLoop lay d buf idx prev = .ok frames → (recSteps lay d buf idx prev.isSome acc).records = acc.records + frames.length := by
  intro m
  induction m using Nat.strongRecOn with
  | _ m ih =>
    intro buf idx prev acc frames hm h
    rw [recLoop.eq_def] at h
    rw [recSteps.eq_def]
    split at h
    · rename_i hlt
      simp only [hlt, dite_true]
      split at h
      · cases h
      · rename_i size hsz
        (try simp only [hsz])
        split at h
        · cases h
        · rename_i hge
          simp only [hge, if_false]
          split at h
          · rename_i h2
            simp only [h2, if_true]
            cases prev with
            | some p =>
              simp only [lastOr] at h
              cases hr : recLoop lay d buf (idx + 2) (some p) with
              | error e => simp [hr] at h
              | ok fs =>
                simp only [hr, Except.ok.injEq] at h; subst h
                have := ih (d.length - (idx + 2)) (by omega) buf (idx + 2) (some p) { acc with records := acc.records + 1 } fs rfl hr
                simp only [Option.isSome_some, if_true] at this ⊢
                rw [this]; simp; omega
            | none =>
              simp only [lastOr] at h
              simp only [Option.isSome_none, Bool.false_eq_true, if_false]
              cases hp : parseChannels lay buf with
              | error e => simp [hp] at h
              | ok f0 =>
                simp only [hp] at h ⊢
                cases hr : recLoop lay d buf (idx + 2) (some f0) with
                | error e => simp [hr] at h
                | ok fs =>
                  simp only [hr, Except.ok.injEq] at h; subst h
                  have := ih (d.length - (idx + 2)) (by omega) buf (idx + 2) (some f0)
                    { acc with records := acc.records + 1, frames := acc.frames + 1 } fs rfl hr
                  simp only [Option.isSome_some] at this
                  rw [this]; simp; omega
          · rename_i hne
            simp only [hne, if_false]
            split at h
            · cases h
            · rename_i s hd
              have hinv := deltaLoop_inv d buf (idx + 2) (size - 2) 0 0 s hd
              cases hp : parseChannels lay s.buf with
              | error e => simp [hp] at h
              | ok f0 =>
                simp only [hp] at h
                cases hr : recLoop lay d s.buf ((s.idx : Int) + s.cs).toNat (some f0) with
                | error e => simp [hr] at h
                | ok fs =>
                  simp only [hr, Except.ok.injEq] at h; subst h
                  have := ih (d.length - ((s.idx : Int) + s.cs).toNat) (by omega) s.buf _ (some f0)
                    { records := acc.records + 1, deltas := acc.deltas + s.iters, copied := acc.copied + s.copied, frames := acc.frames + 1 } fs rfl hr
                  simp only [Option.isSome_some] at this
                  simp only []
                  rw [this]; simp; omega
    · rename_i hge
      simp only [hge, dite_false]
      cases h; simp

theorem parseVwscSteps_records_le (d : Bytes) : (parseVwscSteps d).1.records ≤ d.length / 2 := by
  unfold parseVwscSteps
  split
  · simp
  · have := recSteps_records_le ‹Header›.lay d _ (zeros (‹Header›.channelCount * ‹Header›.frameSize).toNat) 20 false {} rfl
    simp only at this ⊢
    omega

theorem parseVwscSteps_records_eq (d : Bytes) (frames : List Frame) (h : parseVwsc d = .ok frames) :
    (parseVwscSteps d).1.records = frames.length := by
  unfold parseVwsc at h
  unfold parseVwscSteps
  simp only [bind, Except.bind] at h
  split
  · rename_i e he; rw [he] at h; cases h
  · rename_i hd he
    rw [he] at h
    have := recSteps_records_eq hd.lay d _ (zeros (hd.channelCount * hd.frameSize).toNat) 20 none {} frames rfl h
    simpa using this

end Drx.Vwsc
